import Nv.Model.C06
import Nv.Proofs.C06Hard
import Nv.Proofs.C06Mono
set_option linter.unusedSimpArgs false
/-!
C06 — property theorems for the id generators (model `Nv/Model/C06.lean`).

Ids are compared as Go compares them: signed 64-bit integers (`.toInt`).
"Whatever the clock does" = the theorems quantify over *every* list of `now` values (`coreRun`) resp.
every list of clock readings (`hardRun`); no bound on the length of the run.
The one hypothesis, as in DESIGN §5: the internal time stays inside the timestamp width of the
layout (`InWidth` — a decidable predicate on the run); beyond it `<<` drops bits.
-/
namespace Nv.C06

/-! ### HardNode: all `now` sequences -/

/-- every state reached along the run keeps its time inside the timestamp width -/
def InWidth (nb : BitVec 8) (nal : Bool) : HState → List (BitVec 64) → Prop
  | _, [] => True
  | st, now :: nows =>
    (hardCore nb nal st now).1.time.toNat < 2 ^ tsWidth nb ∧ InWidth nb nal (hardCore nb nal st now).1 nows

instance (nb : BitVec 8) (nal : Bool) : ∀ (st : HState) (nows : List (BitVec 64)), Decidable (InWidth nb nal st nows)
  | _, [] => isTrue trivial
  | st, now :: nows =>
    have := instDecidableInWidth nb nal (hardCore nb nal st now).1 nows
    by unfold InWidth; exact inferInstance

/-- every id of a run is a non-negative int64 above the id the start state stands for, and carries the node -/
theorem core_run_above {nb : BitVec 8} (hl : LayoutOk nb) (nal : Bool) :
    ∀ (nows : List (BitVec 64)) (st : HState), WF nb st → InWidth nb nal st nows →
      ∀ id ∈ coreRun nb nal st nows, stVal nb nal st < id.toNat ∧ id.toNat < 2 ^ 63 ∧ (idFields id nb nal).2.1 = st.node
  | [], _, _, _ => by simp [coreRun]
  | now :: nows, st, wf, hw => by
    obtain ⟨hpost, hrest⟩ := hw
    obtain ⟨wf', hid, hlt, hnode, _, _, hj⟩ := hardCore_step hl nal wf now hpost
    intro id hmem
    simp only [coreRun, List.mem_cons] at hmem
    rcases hmem with rfl | hmem
    · refine ⟨by rw [hid]; exact hlt, ?_, ?_⟩
      · rw [hj]; exact join_lt hl nal wf'.time wf.node wf'.step
      · rw [hj, idFields_join hl nal wf'.time wf.node wf'.step]
    · have := core_run_above hl nal nows _ wf' hrest id hmem
      exact ⟨Nat.lt_trans hlt this.1, this.2.1, by rw [this.2.2, hnode]⟩

theorem toInt_lt_of_toNat_lt {a b : BitVec 64} (hb : b.toNat < 2 ^ 63) (h : a.toNat < b.toNat) : a.toInt < b.toInt := by
  rw [toInt_eq_toNat_of_lt hb, toInt_eq_toNat_of_lt (by omega)]; omega

/-- **strictly increasing**: every id is greater than every id returned before, for every sequence of
    `now` values — stalls, steps back, far jumps, any number of calls inside one millisecond -/
theorem hard_strictly_increasing {nb : BitVec 8} (hl : LayoutOk nb) (nal : Bool) :
    ∀ (nows : List (BitVec 64)) (st : HState), WF nb st → InWidth nb nal st nows →
      (coreRun nb nal st nows).Pairwise (fun a b => a.toInt < b.toInt)
  | [], _, _, _ => by simp [coreRun]
  | now :: nows, st, wf, hw => by
    obtain ⟨hpost, hrest⟩ := hw
    obtain ⟨wf', hid, _, _, _, _, _⟩ := hardCore_step hl nal wf now hpost
    simp only [coreRun, List.pairwise_cons]
    refine ⟨fun id' hmem => ?_, hard_strictly_increasing hl nal nows _ wf' hrest⟩
    have := core_run_above hl nal nows _ wf' hrest id' hmem
    exact toInt_lt_of_toNat_lt this.2.1 (by rw [hid]; exact this.1)

/-- uniqueness is a corollary -/
theorem hard_unique {nb : BitVec 8} (hl : LayoutOk nb) (nal : Bool) (nows : List (BitVec 64)) (st : HState)
    (wf : WF nb st) (hw : InWidth nb nal st nows) : (coreRun nb nal st nows).Nodup := by
  rw [List.nodup_iff_pairwise_ne]
  refine (hard_strictly_increasing hl nal nows st wf hw).imp ?_
  intro a b h e; rw [e] at h; exact Int.lt_irrefl _ h

/-- the node field of every id is the configured node -/
theorem hard_node_field {nb : BitVec 8} (hl : LayoutOk nb) (nal : Bool) (nows : List (BitVec 64)) (st : HState)
    (wf : WF nb st) (hw : InWidth nb nal st nows) :
    ∀ id ∈ coreRun nb nal st nows, (idFields id nb nal).2.1 = st.node :=
  fun id h => (core_run_above hl nal nows st wf hw id h).2.2

/-- concurrent callers: `Generate` is one critical section (facts `hardLocked`, `hardClockUnderLock`), so the
    calls of all goroutines form one sequence in lock order; what one goroutine (or any subset of them) sees is a
    sub-sequence of it — still strictly increasing, still duplicate-free -/
theorem hard_concurrent_view {nb : BitVec 8} (hl : LayoutOk nb) (nal : Bool) (nows : List (BitVec 64)) (st : HState)
    (wf : WF nb st) (hw : InWidth nb nal st nows) (view : List (BitVec 64))
    (hsub : view.Sublist (coreRun nb nal st nows)) :
    view.Pairwise (fun a b => a.toInt < b.toInt) ∧ view.Nodup :=
  ⟨(hard_strictly_increasing hl nal nows st wf hw).sublist hsub, (hard_unique hl nal nows st wf hw).sublist hsub⟩

/-- the timestamp an id carries is never below the value of `now` it was generated at -/
theorem hard_ts_ge_now {nb : BitVec 8} (hl : LayoutOk nb) (nal : Bool) :
    ∀ (nows : List (BitVec 64)) (st : HState), WF nb st → InWidth nb nal st nows →
      ∀ p ∈ List.zip nows (coreRun nb nal st nows), p.1.toInt ≤ (idFields p.2 nb nal).1.toInt
  | [], _, _, _ => by simp [coreRun]
  | now :: nows, st, wf, hw => by
    obtain ⟨hpost, hrest⟩ := hw
    obtain ⟨wf', _, _, _, _, hge, hj⟩ := hardCore_step hl nal wf now hpost
    intro p hmem
    simp only [coreRun, List.zip_cons_cons, List.mem_cons] at hmem
    rcases hmem with rfl | hmem
    · simp only
      rw [hj, idFields_join hl nal wf'.time wf.node wf'.step,
        toInt_eq_toNat_of_lt (Nat.lt_of_lt_of_le wf'.time (Nat.le_trans (tsWidth_le hl) (by omega)))]
      exact hge
    · exact hard_ts_ge_now hl nal nows _ wf' hrest p hmem

/-! ### HardNode under clock readings, and restart -/

theorem hardGen_epoch (c : Cfg) (nb : BitVec 8) (nal : Bool) (st : HState) (t : Clock) :
    (hardGen c nb nal st t).1.epoch = st.epoch := by
  unfold hardGen hardCore; split
  · rfl
  · split <;> rfl

/-- the run under clock readings is the core run under the `now` values the accessor computes -/
theorem hardRun_eq_coreRun (c : Cfg) (nb : BitVec 8) (nal : Bool) :
    ∀ (ts : List Clock) (st : HState),
      hardRun c nb nal st ts = coreRun nb nal st (ts.map (fun t => hardNow c st.epoch (accWord c.nowAcc t)))
  | [], _ => rfl
  | t :: ts, st => by
    simp only [hardRun, List.map_cons, coreRun]
    rw [hardRun_eq_coreRun c nb nal ts, hardGen_epoch]
    rfl

/-- a clock reading and an epoch far from the int64 limits (|·| < 2^62 ms ≈ 146 million years) -/
def ClockOk (epoch : BitVec 64) (t : Clock) : Prop :=
  -2 ^ 62 ≤ t.ms ∧ t.ms < 2 ^ 62 ∧ -2 ^ 62 ≤ epoch.toInt ∧ epoch.toInt < 2 ^ 62
instance (e : BitVec 64) (t : Clock) : Decidable (ClockOk e t) := by unfold ClockOk; exact inferInstance

/-- with the millisecond accessor `now` is the true offset of the clock from the epoch -/
theorem hardNow_milli {c : Cfg} (hc : Proved c) {epoch : BitVec 64} {t : Clock} (ht : ClockOk epoch t) :
    (hardNow c epoch (accWord c.nowAcc t)).toInt = t.ms - epoch.toInt := by
  obtain ⟨h1, h2, h3, h4⟩ := ht
  unfold hardNow
  rw [hc.1]
  simp only [accMs, accWord]
  rw [BitVec.toInt_sub, BitVec.toInt_ofInt_eq_self (by omega) (by omega) (by omega)]
  apply Int.bmod_eq_of_le <;> omega

/-- **timestamp ≥ clock**: for the repaired accessor, every id carries a timestamp (relative to the epoch) that
    is not earlier than the clock reading it was generated at -/
theorem hard_ts_ge_clock {c : Cfg} (hc : Proved c) {nb : BitVec 8} (hl : LayoutOk nb) (nal : Bool)
    (ts : List Clock) (st : HState) (wf : WF nb st) (hok : ∀ t ∈ ts, ClockOk st.epoch t)
    (hw : InWidth nb nal st (ts.map (fun t => hardNow c st.epoch (accWord c.nowAcc t)))) :
    ∀ p ∈ List.zip ts (hardRun c nb nal st ts), p.1.ms - st.epoch.toInt ≤ (idFields p.2 nb nal).1.toInt := by
  intro p hp
  rw [hardRun_eq_coreRun] at hp
  have hz := hard_ts_ge_now hl nal _ st wf hw
  have hmem : (hardNow c st.epoch (accWord c.nowAcc p.1), p.2) ∈
      List.zip (ts.map (fun t => hardNow c st.epoch (accWord c.nowAcc t)))
        (coreRun nb nal st (ts.map (fun t => hardNow c st.epoch (accWord c.nowAcc t)))) := by
    rw [List.zip_map_left]
    exact List.mem_map.2 ⟨p, hp, rfl⟩
  have := hz _ hmem
  rw [← hardNow_milli hc (hok p.1 (List.of_mem_zip hp).1)]
  exact this

/-- `NewNode` with the repaired accessor stores the configured epoch -/
theorem nodeEpoch_milli {c : Cfg} (hc : Proved c) (epochG : BitVec 64) : nodeEpoch c epochG = epochG := by
  unfold nodeEpoch; rw [hc.2.1]; simp only [accMs, accWord, BitVec.ofInt_toInt]

/-- a node built from a non-negative id that carries its own node number starts exactly at that id -/
theorem newNode_seed {c : Cfg} {nb : BitVec 8} (hl : LayoutOk nb) (nal : Bool) {epochG node min : BitVec 64} {st : HState}
    (hnew : newNode c nb nal epochG node min = some st) (hmin : 0 ≤ min.toInt)
    (hnode : (idFields min nb nal).2.1 = node) :
    WF nb st ∧ stVal nb nal st = min.toNat ∧ st.node = node := by
  have hlt := toNat_lt_of_toInt_nonneg hmin
  obtain ⟨r1, r2, r3⟩ := idFields_ranges hl nal hlt
  unfold newNode at hnew
  split at hnew
  · cases hnew
  · cases hnew
    refine ⟨⟨r1, by rw [← hnode]; exact r2, r3⟩, ?_, rfl⟩
    unfold stVal
    simp only
    rw [← hnode, ← join_toNat hl nal r1 r2 r3, join_idFields hl nal hlt]

/-- **restart**: a wall-clock node restarted with the last id it issued (any non-negative id carrying its node
    number) continues strictly above that id, whatever the clock does afterwards -/
theorem hard_restart_above {c : Cfg} {nb : BitVec 8} (hl : LayoutOk nb) (nal : Bool) {epochG node min : BitVec 64} {st : HState}
    (hnew : newNode c nb nal epochG node min = some st) (hmin : 0 ≤ min.toInt)
    (hnode : (idFields min nb nal).2.1 = node) (nows : List (BitVec 64)) (hw : InWidth nb nal st nows) :
    ∀ id ∈ coreRun nb nal st nows, min.toInt < id.toInt := by
  obtain ⟨wf, hv, _⟩ := newNode_seed hl nal hnew hmin hnode
  intro id hmem
  have := core_run_above hl nal nows st wf hw id hmem
  exact toInt_lt_of_toNat_lt this.2.1 (by rw [← hv]; exact this.1)

/-- `NewNode` accepts exactly the node numbers of the layout -/
theorem newNode_isSome_iff (c : Cfg) {nb : BitVec 8} (hl : LayoutOk nb) (nal : Bool) (epochG node min : BitVec 64) :
    (newNode c nb nal epochG node min).isSome ↔ (0 ≤ node.toInt ∧ node.toInt < 2 ^ nb.toNat) := by
  unfold newNode
  have e8 : ((1#64 <<< 8) - 1#64).toInt = 255 := by decide
  have e9 : ((1#64 <<< 9) - 1#64).toInt = 511 := by decide
  have e10 : ((1#64 <<< 10) - 1#64).toInt = 1023 := by decide
  have z : (0#64).toInt = 0 := by decide
  rcases hl with rfl | rfl | rfl <;>
    simp only [Bool.or_eq_true, BitVec.slt_iff_toInt_lt, e8, e9, e10, z, BitVec.toNat_ofNat, Nat.reduceMod, Nat.reducePow] <;>
    split <;> simp <;> omega

/-! ### UnixNanoID -/

/-- the counter never sits at MaxInt64 when a call starts (there `current++` wraps to MinInt64) -/
def NanoBelowMax : BitVec 64 → List (BitVec 64) → Prop
  | _, [] => True
  | cur, ts :: rest => cur.toInt < 2 ^ 63 - 1 ∧ NanoBelowMax (nanoGen ts cur).2 rest

instance : ∀ (cur : BitVec 64) (tss : List (BitVec 64)), Decidable (NanoBelowMax cur tss)
  | _, [] => isTrue trivial
  | cur, ts :: rest =>
    have := instDecidableNanoBelowMax (nanoGen ts cur).2 rest
    by unfold NanoBelowMax; exact inferInstance

theorem nano_run_above : ∀ (tss : List (BitVec 64)) (cur : BitVec 64), NanoBelowMax cur tss →
    ∀ id ∈ nanoRun cur tss, cur.toInt < id.toInt
  | [], _, _ => by simp [nanoRun]
  | ts :: rest, cur, h => by
    obtain ⟨h1, h2, _⟩ := nanoGen_step ts cur h.1
    intro id hmem
    simp only [nanoRun, List.mem_cons] at hmem
    rcases hmem with rfl | hmem
    · exact h1
    · have := nano_run_above rest _ h.2 id hmem
      rw [h2] at this; omega

/-- **unix-nano generator**: strictly increasing for every sequence of supplied timestamps (any order, repeated,
    far future), below MaxInt64 -/
theorem nano_strictly_increasing : ∀ (tss : List (BitVec 64)) (cur : BitVec 64), NanoBelowMax cur tss →
    (nanoRun cur tss).Pairwise (fun a b => a.toInt < b.toInt)
  | [], _, _ => by simp [nanoRun]
  | ts :: rest, cur, h => by
    obtain ⟨_, h2, _⟩ := nanoGen_step ts cur h.1
    simp only [nanoRun, List.pairwise_cons]
    refine ⟨fun id' hmem => ?_, nano_strictly_increasing rest _ h.2⟩
    have := nano_run_above rest _ h.2 id' hmem
    rw [h2] at this; exact this

/-- each id is at least the timestamp it was requested with -/
theorem nano_ge_ts : ∀ (tss : List (BitVec 64)) (cur : BitVec 64), NanoBelowMax cur tss →
    ∀ p ∈ List.zip tss (nanoRun cur tss), p.1.toInt ≤ p.2.toInt
  | [], _, _ => by simp [nanoRun]
  | ts :: rest, cur, h => by
    obtain ⟨_, _, h3⟩ := nanoGen_step ts cur h.1
    intro p hmem
    simp only [nanoRun, List.zip_cons_cons, List.mem_cons] at hmem
    rcases hmem with rfl | hmem
    · exact h3
    · exact nano_ge_ts rest _ h.2 p hmem

/-- at MaxInt64 the counter wraps — the boundary `NanoBelowMax` excludes -/
theorem witness_nano_wraps_at_max :
    (nanoGen 0#64 9223372036854775807#64).1.toInt = -9223372036854775808 := by decide

/-! ### MonoNode -/

/-- the readings are those of a clock that never runs backwards (each reading is at or after the time the node
    last used; the reading that ends the spin loop is past it), and the time stays inside the width -/
def MonoOk (nb : BitVec 8) (nal : Bool) : MState → List (BitVec 64 × BitVec 64) → Prop
  | _, [] => True
  | st, r :: rs => st.time.toInt ≤ r.1.toInt ∧
    match monoGen nb nal st r.1 r.2 with
    | none => False
    | some (st', _) => st'.time.toNat < 2 ^ tsWidth nb ∧ MonoOk nb nal st' rs

instance instDecMonoOk (nb : BitVec 8) (nal : Bool) :
    ∀ (st : MState) (rs : List (BitVec 64 × BitVec 64)), Decidable (MonoOk nb nal st rs)
  | _, [] => isTrue trivial
  | st, r :: rs =>
    match h : monoGen nb nal st r.1 r.2 with
    | none => isFalse (by simp only [MonoOk, h]; exact fun x => x.2)
    | some (st', _) =>
      have := instDecMonoOk nb nal st' rs
      decidable_of_iff (st.time.toInt ≤ r.1.toInt ∧ st'.time.toNat < 2 ^ tsWidth nb ∧ MonoOk nb nal st' rs)
        (by simp only [MonoOk, h])

theorem mono_run_above {nb : BitVec 8} (hl : LayoutOk nb) (nal : Bool) :
    ∀ (rs : List (BitVec 64 × BitVec 64)) (st : MState), MWF nb st → MonoOk nb nal st rs →
      ∃ ids, monoRun nb nal st rs = some ids ∧ ids.Pairwise (fun a b => a.toInt < b.toInt) ∧
        ∀ id ∈ ids, mVal nb nal st < id.toNat ∧ id.toNat < 2 ^ 63 ∧ (idFields id nb nal).2.1 = st.node
  | [], _, _, _ => ⟨[], rfl, List.Pairwise.nil, by simp⟩
  | r :: rs, st, wf, hok => by
    obtain ⟨hmono, hm⟩ := hok
    cases hg : monoGen nb nal st r.1 r.2 with
    | none => rw [hg] at hm; exact hm.elim
    | some q =>
      obtain ⟨st', id⟩ := q
      rw [hg] at hm
      obtain ⟨hpost, hrest⟩ := hm
      obtain ⟨wf', hid, hlt, hnode, hj⟩ := monoGen_step hl nal wf hmono hg hpost
      obtain ⟨ids, hrun, hpw, habove⟩ := mono_run_above hl nal rs st' wf' hrest
      have hidlt : id.toNat < 2 ^ 63 := by rw [hj]; exact join_lt hl nal wf'.time wf.node wf'.step
      refine ⟨id :: ids, by simp only [monoRun, hg, hrun, Option.map_some], ?_, ?_⟩
      · rw [List.pairwise_cons]
        exact ⟨fun id' hm' => toInt_lt_of_toNat_lt (habove id' hm').2.1 (by rw [hid]; exact (habove id' hm').1), hpw⟩
      · intro id' hm'
        rw [List.mem_cons] at hm'
        rcases hm' with rfl | hm'
        · exact ⟨by rw [hid]; exact hlt, hidlt, by rw [hj, idFields_join hl nal wf'.time wf.node wf'.step]⟩
        · have := habove id' hm'
          exact ⟨Nat.lt_trans hlt this.1, this.2.1, by rw [this.2.2, hnode]⟩

/-- **monotonic node**: under readings of a clock that never runs backwards the ids are strictly increasing
    (also across the wrap-and-spin branch) and carry the node number -/
theorem mono_strictly_increasing {nb : BitVec 8} (hl : LayoutOk nb) (nal : Bool)
    (rs : List (BitVec 64 × BitVec 64)) (st : MState) (wf : MWF nb st) (hok : MonoOk nb nal st rs) :
    ∃ ids, monoRun nb nal st rs = some ids ∧ ids.Pairwise (fun a b => a.toInt < b.toInt) ∧ ids.Nodup ∧
      ∀ id ∈ ids, (idFields id nb nal).2.1 = st.node := by
  obtain ⟨ids, h1, h2, h3⟩ := mono_run_above hl nal rs st wf hok
  refine ⟨ids, h1, h2, ?_, fun id h => (h3 id h).2.2⟩
  rw [List.nodup_iff_pairwise_ne]
  exact h2.imp (fun {a b} h e => by rw [e] at h; exact Int.lt_irrefl _ h)

/-- MonoNode is *not* monotone when a reading decreases: that Go's monotonic clock never does is an assumption
    of the property for this generator, not something the code enforces -/
theorem witness_mono_decreasing_reading :
    monoRun 10#8 false ⟨0#64, 1#64, 0#64⟩ [(5#64, 0#64), (3#64, 0#64)] = some [20975616#64, 12587008#64] := by decide

/-! ### configuration through `Setup` -/

/-- whatever mode is passed, `Setup` leaves one of the three node widths: every theorem's `LayoutOk` holds of a
    configuration made through the package's own options -/
theorem setup_layout_ok (c : Cfg) (epochMs : BitVec 64) (mode : BitVec 8) (lowest : Bool) :
    LayoutOk (setupCfg c epochMs mode lowest).2.1 := by
  unfold setupCfg LayoutOk
  simp only
  split
  · rename_i h
    simp only [Bool.or_eq_true, beq_iff_eq] at h
    rcases h with h | h
    · left; exact h
    · right; left; exact h
  · right; right; rfl

/-- with the millisecond accessor `Setup(UseEpoch(t))` stores the epoch asked for — any epoch -/
theorem setup_epoch_milli {c : Cfg} (hc : Proved c) (epochMs : BitVec 64) (mode : BitVec 8) (lowest : Bool) :
    (setupCfg c epochMs mode lowest).1 = epochMs ∧ (setupCfg c epochMs mode lowest).2.2 = lowest := by
  unfold setupCfg; rw [hc.2.2]; simp only [accMs, accWord, BitVec.ofInt_toInt, and_self]

/-- a node configured through `Setup` (any mode, any epoch far from the int64 limits, node-at-lowest on or off) and
    then run under clock readings: the layout is one of the six, and every id carries a timestamp not earlier than the
    reading, relative to the epoch that was asked for — the options change the layout and nothing else -/
theorem setup_then_ts_ge_clock {c : Cfg} (hc : Proved c) (epochMs : BitVec 64) (mode : BitVec 8) (lowest : Bool)
    (ts : List Clock) (st : HState) (hep : st.epoch = (setupCfg c epochMs mode lowest).1)
    (wf : WF (setupCfg c epochMs mode lowest).2.1 st) (hok : ∀ t ∈ ts, ClockOk st.epoch t)
    (hw : InWidth (setupCfg c epochMs mode lowest).2.1 (setupCfg c epochMs mode lowest).2.2 st
      (ts.map (fun t => hardNow c st.epoch (accWord c.nowAcc t)))) :
    ∀ p ∈ List.zip ts (hardRun c (setupCfg c epochMs mode lowest).2.1 (setupCfg c epochMs mode lowest).2.2 st ts),
      p.1.ms - epochMs.toInt ≤ (idFields p.2 (setupCfg c epochMs mode lowest).2.1 (setupCfg c epochMs mode lowest).2.2).1.toInt := by
  have h := hard_ts_ge_clock hc (setup_layout_ok c epochMs mode lowest) (setupCfg c epochMs mode lowest).2.2 ts st wf hok hw
  rw [hep, (setup_epoch_milli hc epochMs mode lowest).1] at h
  exact h

/-- `UseEpoch` through `UnixNano` (finding of the audit, same root cause as F06): the epoch 2300-01-01 is stored as
    a negative number of milliseconds -/
theorem witness_unixNano_useEpoch :
    (setupCfg ⟨.unixMilli, .unixMilli, .unixNano⟩ 10413792000000#64 10#8 false).1.toInt = -8032952073709 := by decide

/-! ### beyond the timestamp width (the hypothesis `InWidth` is necessary) -/

/-- **known limit of the format**: a clock reading 2^41 ms (69.7 years) after the epoch — a "far future" reading — under
    the Node1024 layout: `<<` shifts the timestamp into the sign bit, and the id is *lower* than the one issued before.
    Every accessor configuration; `InWidth` fails for this run, the other hypotheses hold. -/
theorem witness_clock_beyond_width :
    hardRun ⟨.unixMilli, .unixMilli, .unixMilli⟩ 10#8 false ⟨1609430400000#64, 0#64, 1#64, 0#64⟩
      [⟨1700000000000, 0⟩, ⟨3808453655552, 0⟩] = [379876435558404096#64, BitVec.ofInt 64 (-9223372036854771712)]
    ∧ WF 10#8 ⟨1609430400000#64, 0#64, 1#64, 0#64⟩
    ∧ ¬ InWidth 10#8 false ⟨1609430400000#64, 0#64, 1#64, 0#64⟩ [90569600000#64, 2199023255552#64] :=
  ⟨by decide, ⟨by decide, by decide, by decide⟩, by decide⟩

/-- so strict monotonicity does not hold for all clock histories without the width hypothesis -/
theorem not_increasing_beyond_width :
    ¬ (∀ (nows : List (BitVec 64)) (st : HState), WF 10#8 st →
        (coreRun 10#8 false st nows).Pairwise (fun a b => a.toInt < b.toInt)) := by
  intro h
  have := h [90569600000#64, 2199023255552#64] ⟨1609430400000#64, 0#64, 1#64, 0#64⟩ ⟨by decide, by decide, by decide⟩
  revert this; decide

/-! ### non-vacuity -/

/-- a state in the middle of a millisecond, Node1024 layout, and a clock that stalls, steps back and jumps -/
example : WF 10#8 ⟨1609430400000#64, 90569600000#64, 1023#64, 4094#64⟩ := ⟨by decide, by decide, by decide⟩
example : InWidth 10#8 false ⟨1609430400000#64, 90569600000#64, 1023#64, 4094#64⟩
    [90569600000#64, 90569600000#64, 90569599000#64, 0#64, 2199023255551#64] := by decide
example : coreRun 10#8 false ⟨1609430400000#64, 90569600000#64, 1023#64, 4094#64⟩
      [90569600000#64, 90569600000#64, 90569599000#64, 0#64, 2199023255551#64] =
    [379876435562594303#64, 379876435566784512#64, 379876435566784513#64, 379876435566784514#64, 9223372036854771712#64] := by decide
example : LayoutOk 8#8 ∧ LayoutOk 9#8 ∧ LayoutOk 10#8 := by decide
example : Proved ⟨.unixMilli, .unixMilli, .unixMilli⟩ := by decide
/-- hypotheses of `hard_ts_ge_clock` and `hard_restart_above` together: a node restarted with an id of its own, readings
    before and after it -/
example : newNode ⟨.unixMilli, .unixMilli, .unixMilli⟩ 10#8 false 1609430400000#64 1023#64 379876435562594303#64 =
      some ⟨1609430400000#64, 90569600000#64, 1023#64, 4095#64⟩
    ∧ (0 : Int) ≤ (379876435562594303#64).toInt ∧ (idFields 379876435562594303#64 10#8 false).2.1 = 1023#64
    ∧ ClockOk 1609430400000#64 ⟨1700000000000, 0⟩ ∧ ClockOk 1609430400000#64 ⟨1600000000000, 0⟩ := by decide
example : NanoBelowMax 100#64 [50#64, 100#64, 9223372036854775806#64, 0#64] := by decide
example : nanoRun 100#64 [50#64, 100#64, 103#64, 103#64] = [101#64, 102#64, 103#64, 104#64] := by decide
example : MWF 10#8 ⟨7#64, 1#64, 4095#64⟩ := ⟨by decide, by decide, by decide⟩
/-- a burst across the step-counter wrap: the reading still says 7, the loop leaves at 8 -/
example : MonoOk 10#8 false ⟨7#64, 1#64, 4095#64⟩ [(7#64, 8#64), (8#64, 0#64), (9#64, 0#64)] := by decide

/-! ### the accessor found on today's tree: negation by witness (F06) -/

/-- `UnixNano()/MsDivNs`: Node256 layout (43-bit timestamp, good until 2299), fresh node 3, the clock reads
    2270-01-01T00:00:00Z — inside the width — and the id comes out stamped with the epoch (timestamp 0) -/
theorem witness_unixNano_stamp_before_clock :
    (hardGen ⟨.unixNano, .unixNano, .unixNano⟩ 8#8 false ⟨1609430400000#64, 0#64, 3#64, 0#64⟩ ⟨9467020800000, 0⟩).2 = 12289#64
    ∧ idFields 12289#64 8#8 false = (0#64, 3#64, 1#64) := by decide

/-- so `hard_ts_ge_clock` is false of that configuration -/
theorem not_ts_ge_clock_unixNano :
    ¬ (∀ (ts : List Clock) (st : HState), WF 8#8 st → (∀ t ∈ ts, ClockOk st.epoch t) →
        InWidth 8#8 false st (ts.map (fun t => hardNow ⟨.unixNano, .unixNano, .unixNano⟩ st.epoch (accWord .unixNano t))) →
        ∀ p ∈ List.zip ts (hardRun ⟨.unixNano, .unixNano, .unixNano⟩ 8#8 false st ts),
          p.1.ms - st.epoch.toInt ≤ (idFields p.2 8#8 false).1.toInt) := by
  intro h
  have := h [⟨9467020800000, 0⟩] ⟨1609430400000#64, 0#64, 3#64, 0#64⟩ ⟨by decide, by decide, by decide⟩
    (by intro t ht; simp only [List.mem_singleton] at ht; subst ht; decide) (by decide)
    (⟨9467020800000, 0⟩, 12289#64) (by decide)
  revert this; decide

/-- `NewNode`'s conversion of `_epoch` through `UnixNano`: an epoch of 2300-01-01 is stored as a different number -/
theorem witness_unixNano_epoch :
    nodeEpoch ⟨.unixMilli, .unixNano, .unixMilli⟩ 10413792000000#64 ≠ 10413792000000#64 := by decide

end Nv.C06
