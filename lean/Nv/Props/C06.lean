import Nv.Model.C06
/-! C06 — property theorems (placeholder while the pipeline is wired; see below). -/
namespace Nv.C06

/-- the three node widths of the package (`Node256`, `Node512`, `Node1024`) -/
def LayoutOk (nb : BitVec 8) : Prop := nb = 8#8 ∨ nb = 9#8 ∨ nb = 10#8
instance : DecidablePred LayoutOk := fun nb => by unfold LayoutOk; exact inferInstance

theorem witness_unixNano_stamp_before_clock :
    (hardGen ⟨.unixNano, .unixNano⟩ 8#8 false ⟨1609430400000#64, 0#64, 3#64, 0#64⟩ ⟨9467020800000, 0⟩).2 = 12289#64 := by decide

end Nv.C06
