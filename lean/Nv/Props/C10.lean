import Nv.Model.C10
import Nv.Proofs.C10
/-!
C10 — property theorems for `bytex.BufferX` / `bytex.ReaderX` (model: `Nv.Model.C10`, lemmas: `Nv.Proofs.C10`).
All statements quantify over every value / value list / byte string / truncation point / limit / chunking; the
configuration `c` of the stream reader ranges over `Proved` (`io.ReadFull` strategy, empty string accepted).
-/
namespace Nv.C10

/-! ### (1) typed writes followed by the same typed reads -/

/-- one value: the typed read of what the typed write appended returns the value and leaves exactly what followed.
    Covers bool, u8, 16/32/64-bit signed and unsigned, float64 bit patterns (every NaN payload), all four varints,
    strings (also empty), size-limited strings within the limit (also exactly at it), raw bytes. -/
theorem codec_roundtrip_value (v : Val) (rest : Bytes) (h : Valid v) :
    decBuf (tyOf v) (enc v ++ rest) = (.ok v, rest) :=
  roundtrip_one v rest h

/-- **the encoding of each type is prefix-free and injective**: if two valid values of the same type are written and the
    resulting byte streams (each followed by anything) coincide, the values are equal and so is what followed — a typed
    read can never confuse two different writes -/
theorem enc_prefix_free (v w : Val) (r r' : Bytes) (hv : Valid v) (hw : Valid w) (hty : tyOf v = tyOf w)
    (h : enc v ++ r = enc w ++ r') : v = w ∧ r = r' := by
  have h1 := codec_roundtrip_value v r hv
  have h2 := codec_roundtrip_value w r' hw
  rw [hty, h, h2] at h1
  simp only [Prod.mk.injEq] at h1
  obtain ⟨a, b⟩ := h1
  cases a
  exact ⟨rfl, b.symm⟩

theorem enc_injective (v w : Val) (hv : Valid v) (hw : Valid w) (hty : tyOf v = tyOf w) (h : enc v = enc w) : v = w :=
  (enc_prefix_free v w [] [] hv hw hty (by rw [h])).1
/-- every valid write happens and appends exactly the encoding -/
theorem write_appends (v : Val) (buf : Bytes) (h : Valid v) : write v buf = (.ok (), buf ++ enc v) := by
  simp [write, writeOk_of_valid v h]

/-- any sequence of typed writes followed by the same sequence of typed reads returns the written values and
    leaves the buffer empty -/
theorem codec_roundtrip (vs : List Val) (h : ∀ v ∈ vs, Valid v) :
    readAll (vs.map tyOf) (writeAll vs []) = (vs.map .ok, []) := by
  have := readAll_roundtrip vs [] h
  rw [writeAll_valid vs [] h]
  simpa using this

/-- the same with anything after it: bytes written later (or already there) are left untouched -/
theorem codec_roundtrip_rest (vs : List Val) (rest : Bytes) (h : ∀ v ∈ vs, Valid v) :
    readAll (vs.map tyOf) (vs.flatMap enc ++ rest) = (vs.map .ok, rest) :=
  readAll_roundtrip vs rest h

/-- history form (writes and reads interleaved, FIFO): if the buffer holds the encodings of the values written and
    not yet read, a write keeps that true … -/
theorem fifo_write (pending : List Val) (v : Val) (h : Valid v) :
    write v (pending.flatMap enc) = (.ok (), (pending ++ [v]).flatMap enc) := by
  simp [write_appends v _ h]

/-- … and a read of the oldest value's type returns it and keeps that true -/
theorem fifo_read (v : Val) (pending : List Val) (h : Valid v) :
    decBuf (tyOf v) ((v :: pending).flatMap enc) = (.ok v, pending.flatMap enc) := by
  simpa using roundtrip_one v (pending.flatMap enc) h

/-- all histories: however typed writes and reads (each of the type of the oldest unread value) are interleaved,
    the buffer machine started empty answers exactly like an ideal FIFO queue of values, and holds exactly the
    encodings of the values still queued — in particular it is empty whenever everything was read back -/
theorem codec_history_fifo (ops : List BOp) (hops : ∀ o ∈ ops, o.valid) :
    history [] [] ops = ((fifoSpec [] ops).1.map .ok, (fifoSpec [] ops).2.flatMap enc) := by
  simpa using history_refines_fifo ops hops [] (by simp)

theorem codec_history_empty_when_drained (ops : List BOp) (hops : ∀ o ∈ ops, o.valid)
    (h : (fifoSpec [] ops).2 = []) : (history [] [] ops).2 = [] := by
  rw [codec_history_fifo ops hops, h]; rfl

/-- raw bytes come back through all three raw readers: `Read(p)` is `codec_roundtrip_value (.raw p)`; `ZReadN(len p)`
    always; `ReadN(len p)` for a non-empty slice … -/
theorem raw_roundtrip_zreadN' (p rest : Bytes) : decBuf (.zreadN p.length) (p ++ rest) = (.ok (.raw p), rest) :=
  raw_roundtrip_zreadN p rest

theorem raw_roundtrip_readN' (p rest : Bytes) (h : p ≠ []) : decBuf (.readN p.length) (p ++ rest) = (.ok (.raw p), rest) :=
  raw_roundtrip_readN p rest h

/-- … while `ReadN(0)` (the read-back of an empty raw write) is refused, as coded, and consumes nothing -/
theorem readN_zero_refused (bs : Bytes) : decBuf (.readN 0) bs = (.err .wrongNum, bs) := by simp [decBuf]

/-- the buffers the constructors make: nothing unread, whatever the capacity (bodies pinned by the surface tie);
    so every round-trip theorem above starts from them -/
theorem codec_roundtrip_from_constructors (n : Nat) (vs : List Val) (h : ∀ v ∈ vs, Valid v) :
    readAll (vs.map tyOf) (writeAll vs newBuffer) = (vs.map .ok, []) ∧
    readAll (vs.map tyOf) (writeAll vs (newSized n)) = (vs.map .ok, []) :=
  ⟨codec_roundtrip vs h, codec_roundtrip vs h⟩

/-- after `Reset()` — whatever was written, read or grown before — the buffer is a fresh one: the next writes come back
    and leave it empty -/
theorem codec_roundtrip_after_reset (old : Bytes) (vs : List Val) (h : ∀ v ∈ vs, Valid v) :
    reset old = [] ∧ readAll (vs.map tyOf) (writeAll vs (reset old)) = (vs.map .ok, []) :=
  ⟨rfl, codec_roundtrip vs h⟩

/-- a size-limited string beyond its limit is refused and nothing is written -/
theorem write_over_limit (l : UInt32) (s buf : Bytes) (h : l.toNat < s.length) (hs : s.length < 2 ^ 32) :
    write (.lstr l s) buf = (.err .sizeLimit, buf) := by
  have : ¬ (s.length ≤ l.toNat) := by omega
  simp [write, writeOk, Nat.mod_eq_of_lt (show s.length < 4294967296 by simpa using hs), this]

/-- a varint never needs more than the 10 bytes `binary.MaxVarintLen64` (the scratch arrays have 12) -/
theorem uvarint_length_le (x : UInt64) : (uvarintEnc x).length ≤ 10 := uvarintEncF_length_le 9 x.toNat

/-- the loop bound in the model of `PutUvarint` (9 rounds) is never what ends the loop for a 64-bit value -/
theorem uvarint_fuel_enough (x : UInt64) (k : Nat) : uvarintEncF (9 + k) x.toNat = uvarintEnc x := uvarintEncF_fuel x k

/-! ### (2) truncated and arbitrary input -/

/-- every strict prefix of an encoding yields an error, never a value -/
theorem decode_truncated_errors (v : Val) (n : Nat) (h : Valid v) (hn : n < (enc v).length) :
    ∃ e, (decBuf (tyOf v) ((enc v).take n)).1 = .err e :=
  truncated_one v n h hn

/-- no read panics: with the panicking Go primitives explicit (`Next`/`make` with a negative count; `int(n)` of the
    length field on a 64-bit `int`), every typed read on every byte string reaches a result — a value or one of the
    error values — and that result is the one of `decBuf`. (Allocation failure is outside the model: see docs.) -/
theorem decode_never_panics (ty : Ty) (bs : Bytes) : decBufP 64 ty bs = some (decBuf ty bs) := decBufP_eq ty bs

/-- the same for `ReaderX.ReadN` (`make` is the only panicking primitive of ioreader.go), for every configuration -/
theorem stream_readN_never_panics (c : Cfg) (n : Int) (s : Src) : streamReadNP c n s = some (streamReadN c n s) :=
  streamReadNP_eq c n s

/-- malformed varints never yield a value: ten continuation bytes (`ff…`, `80…`) … -/
theorem varint_ten_continuation_overflows (ty : Ty) (hty : ty.isVarint = true) (cs rest : Bytes) (hl : cs.length = 10)
    (hc : ∀ b ∈ cs, 128 ≤ b.toNat) : decBuf ty (cs ++ rest) = (.err .overflow, rest) :=
  decBuf_varint_overflow ty hty _ rest (uvarint_ten_continuation_overflows cs rest hl hc)

/-- … or nine of them and a tenth byte above 1 (more than 64 bits): every `ReadVar*` reports overflow -/
theorem varint_tenth_byte_overflows (ty : Ty) (hty : ty.isVarint = true) (cs rest : Bytes) (b : UInt8) (hl : cs.length = 9)
    (hc : ∀ x ∈ cs, 128 ≤ x.toNat) (h1 : b.toNat < 128) (h2 : 1 < b.toNat) :
    decBuf ty (cs ++ b :: rest) = (.err .overflow, rest) :=
  decBuf_varint_overflow ty hty _ rest (uvarint_tenth_byte_overflows cs rest b hl hc h1 h2)

/-- on a 32-bit `int` the guard is missing: a length field ≥ 2^31 becomes a negative `Next` count (witness) -/
theorem witness_int32_panics : decBufP 32 .str [0xff, 0xff, 0xff, 0xff, 1] = none := by decide

/-- on arbitrary bytes a read never panics, returns a value or an error, and only consumes from the front: what is
    left is a suffix of the input -/
theorem decode_total (ty : Ty) (bs : Bytes) :
    decBufP 64 ty bs = some (decBuf ty bs) ∧
    ((∃ v, (decBuf ty bs).1 = .ok v) ∨ (∃ e, (decBuf ty bs).1 = .err e)) ∧
    (decBuf ty bs).2 <:+ bs := by
  refine ⟨decBufP_eq ty bs, ?_, decBuf_suffix ty bs⟩
  cases (decBuf ty bs).1 with
  | ok v => exact Or.inl ⟨v, rfl⟩
  | err e => exact Or.inr ⟨e, rfl⟩

/-- every strict prefix of the encoding of a LIST of values: the reads return the values whose encodings are complete
    (`pre`), then an error for the value that was cut (`v`) -/
theorem decode_truncated_list (vs : List Val) (h : ∀ v ∈ vs, Valid v) (n : Nat) (hn : n < (vs.flatMap enc).length) :
    ∃ pre v post e tail, vs = pre ++ v :: post ∧
      (pre.flatMap enc).length ≤ n ∧ n < (pre.flatMap enc).length + (enc v).length ∧
      (readAll (vs.map tyOf) ((vs.flatMap enc).take n)).1 = pre.map .ok ++ .err e :: tail :=
  truncated_list vs h n hn

/-- a read program on arbitrary bytes: one outcome per read, and what is left is a suffix of the input -/
theorem decode_program_total (ts : List Ty) (bs : Bytes) :
    (readAll ts bs).1.length = ts.length ∧ (readAll ts bs).2 <:+ bs :=
  ⟨readAll_length ts bs, readAll_suffix ts bs⟩

/-- too few bytes for a fixed-width value: an error -/
theorem decode_fixed_short (w : Nat) (bs : Bytes) (h : bs.length < w) : ∃ e, (bufFixed w bs).1 = .err e :=
  bufFixed_short w bs h

/-- fixed-width decoding is injective on its bytes: re-encoding the decoded number gives the bytes back -/
theorem fixed_width_canonical (bs : Bytes) : leBytes bs.length (leVal bs) = bs := leBytes_leVal bs

/-! ### (3) ReWrite changes exactly the addressed bytes -/

theorem rewrite_exact (pos : Nat) (p buf : Bytes) (h : pos + p.length ≤ buf.length) :
    ∃ buf', rewrite (pos : Int) p buf = some buf' ∧ buf'.length = buf.length ∧
      (∀ j, j < p.length → buf'[pos + j]? = p[j]?) ∧
      (∀ i, i < pos ∨ pos + p.length ≤ i → buf'[i]? = buf[i]?) :=
  ⟨_, rewrite_in_range pos p buf h, splice_length pos p buf h,
    fun j hj => splice_get_inside pos p buf h j hj, fun i hi => splice_get_outside pos p buf h i hi⟩

theorem rewriteU32_exact (pos : Nat) (v : UInt32) (buf : Bytes) (h : pos + 4 ≤ buf.length) :
    ∃ buf', rewriteU32 (pos : Int) v buf = some buf' ∧ buf'.length = buf.length ∧
      (∀ j, j < 4 → buf'[pos + j]? = (leBytes 4 v.toNat)[j]?) ∧
      (∀ i, i < pos ∨ pos + 4 ≤ i → buf'[i]? = buf[i]?) := by
  have hl := leBytes_length 4 v.toNat
  obtain ⟨b, h1, h2, h3, h4⟩ := rewrite_exact pos (leBytes 4 v.toNat) buf (by omega)
  exact ⟨b, h1, h2, fun j hj => h3 j (by omega), fun i hi => h4 i (by omega)⟩

/-- outside `0 … len` the slice expression panics (modelled as `none`); nothing is claimed there -/
theorem rewrite_out_of_range (pos : Int) (p buf : Bytes) (h : pos < 0 ∨ pos > buf.length) :
    rewrite pos p buf = none := by
  simp [rewrite, h]

/-- `ReWrite` panics exactly when `pos` is outside `0 … len` (whatever `p` is: bytes that do not fit are dropped) -/
theorem rewrite_panics_iff (pos : Int) (p buf : Bytes) : rewrite pos p buf = none ↔ (pos < 0 ∨ pos > buf.length) :=
  rewrite_none_iff pos p buf

/-- `ReWrite(pos, Bytes()[from:to])` — the payload aliases the buffer: the addressed bytes become the OLD contents of
    the window (memmove semantics, also where the window and the destination overlap), everything else is unchanged -/
theorem rewriteSelf_exact (pos frm to : Nat) (buf : Bytes) (h1 : frm ≤ to) (h2 : to ≤ buf.length)
    (h3 : pos + (to - frm) ≤ buf.length) :
    ∃ buf', rewriteSelf (pos : Int) frm to buf = some buf' ∧ buf'.length = buf.length ∧
      (∀ j, j < to - frm → buf'[pos + j]? = buf[frm + j]?) ∧
      (∀ i, i < pos ∨ pos + (to - frm) ≤ i → buf'[i]? = buf[i]?) :=
  rewriteSelf_in_range pos frm to buf h1 h2 h3

/-! ### (4) the stream reader decodes what the buffer reader decodes, however the source is fragmented -/

/-- one typed read: ReaderX over any chunking `s` and BufferX over the concatenated bytes return the same value or
    both an error, and leave the same bytes -/
theorem stream_equals_buffer (c : Cfg) (hc : Proved c) (ty : Ty) (hty : ty.streamable = true) (s : Src) :
    Out.agree (decStream c ty s).1 (decBuf ty s.flat).1 = true ∧ (decStream c ty s).2.flat = (decBuf ty s.flat).2 :=
  decStream_sim c hc ty hty s

/-- with the `io.ErrUnexpectedEOF → ErrByteBufferEmpty` mapping of the repair, reads built on `Read(p)` alone agree with
    the buffer reader in the error kind too (strings do not: a missing body is `io.EOF` on a stream, `ErrByteBufferEmpty`
    on a buffer) -/
theorem stream_equals_buffer_exact (c : Cfg) (hc : Proved c) (hm : c.mapShort = true) (ty : Ty)
    (hty : ty.fixedLike = true) (s : Src) (hnf : s.fail = false) : (decStream c ty s).1 = (decBuf ty s.flat).1 :=
  decStream_exact c hc.1 hm ty hty s hnf

/-- a source that FAILS (an I/O error of its own instead of EOF) after delivering fewer bytes than a read needs: the
    read reports the source's error -/
theorem stream_source_failure_reported (c : Cfg) (hc : Proved c) (n : Nat) (s : Src) (hf : s.fail = true)
    (hn : s.flat.length < n) : (streamRead c n s).1 = .err .io :=
  streamRead_source_failure c hc.1 n s hf hn

/-- for every typed read and every source, failing or not: a value comes back only if the buffer reader decodes that
    very value from the bytes the source delivered; where those bytes do not suffice, the read is an error — never a value -/
theorem stream_value_only_if_delivered (c : Cfg) (hc : Proved c) (ty : Ty) (hty : ty.streamable = true) (s : Src) :
    (∀ v, (decStream c ty s).1 = .ok v → (decBuf ty s.flat).1 = .ok v) ∧
    (∀ e, (decBuf ty s.flat).1 = .err e → ∃ e', (decStream c ty s).1 = .err e') := by
  have h := (decStream_sim c hc ty hty s).1
  exact ⟨fun v hv => agree_ok_left _ _ v h hv, fun e he => agree_err_right _ _ e h he⟩

/-- every read program (also continuing after errors) -/
theorem stream_program_equals_buffer (c : Cfg) (hc : Proved c) (ts : List Ty)
    (hts : ∀ t ∈ ts, t.streamable = true) (s : Src) :
    agreeAll (readAllStream c ts s).1 (readAll ts s.flat).1 = true ∧
    (readAllStream c ts s).2.flat = (readAll ts s.flat).2 :=
  readAllStream_sim c hc ts hts s

/-- chunking independence: two sources delivering the same bytes (1 byte at a time … everything at once, empty
    reads in between, EOF with or after the last bytes) decode alike -/
theorem chunking_independent (c : Cfg) (hc : Proved c) (ty : Ty) (hty : ty.streamable = true) (s₁ s₂ : Src)
    (h : s₁.flat = s₂.flat) :
    Out.agree (decStream c ty s₁).1 (decStream c ty s₂).1 = true ∧ (decStream c ty s₁).2.flat = (decStream c ty s₂).2.flat := by
  obtain ⟨a1, r1⟩ := decStream_sim c hc ty hty s₁
  obtain ⟨a2, r2⟩ := decStream_sim c hc ty hty s₂
  rw [h] at a1 r1
  exact ⟨agree_symm_trans _ _ _ a1 a2, r1.trans r2.symm⟩

/-- hence a stream carrying a written value, however fragmented, reads it back -/
theorem stream_roundtrip_value (c : Cfg) (hc : Proved c) (v : Val) (hv : Valid v) (hty : (tyOf v).streamable = true)
    (s : Src) (rest : Bytes) (hs : s.flat = enc v ++ rest) :
    (decStream c (tyOf v) s).1 = .ok v ∧ (decStream c (tyOf v) s).2.flat = rest := by
  obtain ⟨a, r⟩ := decStream_sim c hc (tyOf v) hty s
  rw [hs, roundtrip_one v rest hv] at a r
  refine ⟨?_, r⟩
  revert a
  cases (decStream c (tyOf v) s).1 <;> simp [Out.agree]

/-- a whole list of written values read back through a stream, however fragmented; the stream is then exhausted -/
theorem stream_codec_roundtrip (c : Cfg) (hc : Proved c) (vs : List Val) (hv : ∀ v ∈ vs, Valid v)
    (hs : ∀ v ∈ vs, (tyOf v).streamable = true) (s : Src) (hflat : s.flat = vs.flatMap enc) :
    (readAllStream c (vs.map tyOf) s).1 = vs.map .ok ∧ (readAllStream c (vs.map tyOf) s).2.flat = [] :=
  stream_roundtrip_list c hc vs hv hs s hflat

/-- what the oracle answers for `bigrt` (values of 1 MiB … 128 MiB, not materialised by the oracle): the value written is
    read back followed by the marker byte, nothing is left, and the digest printed is the one of the pattern — through
    the buffer, and (for `Proved c`) through every chunking of a stream -/
theorem bigrt_answer (seed n : Nat) (hn : n < 2 ^ 32) :
    readAll [.str, .u8] (writeAll [.str (pat seed n), .u8 7] newBuffer) = ([.ok (.str (pat seed n)), .ok (.u8 7)], []) ∧
    digest (pat seed n) = digestPat seed n ∧
    (∀ c, Proved c → ∀ s : Src, s.flat = writeAll [.str (pat seed n), .u8 7] newBuffer →
      (readAllStream c [.str, .u8] s).1 = [.ok (.str (pat seed n)), .ok (.u8 7)] ∧ (readAllStream c [.str, .u8] s).2.flat = []) := by
  have hv : ∀ v ∈ [Val.str (pat seed n), Val.u8 7], Valid v := by
    intro v hm
    simp at hm
    rcases hm with rfl | rfl
    · show (pat seed n).length < 2 ^ 32
      rw [pat_length]; exact hn
    · trivial
  refine ⟨codec_roundtrip _ hv, (digestPat_eq seed n).symm, ?_⟩
  intro c hc s hs
  have hw := writeAll_valid [Val.str (pat seed n), Val.u8 7] newBuffer hv
  have hflat : s.flat = [Val.str (pat seed n), Val.u8 7].flatMap enc := by rw [hs, hw]; simp [newBuffer]
  exact stream_roundtrip_list c hc _ hv (by intro v hm; simp at hm; rcases hm with rfl | rfl <;> rfl) s hflat

/-- incremental sources: whatever was read before (also reads that ran into `io.EOF` or an error), once more bytes have
    arrived on the source a read decodes them exactly as the buffer reader does from what was left plus the new bytes —
    no end-of-data seen earlier sticks to the reader -/
theorem stream_after_feed (c : Cfg) (hc : Proved c) (ts₁ : List Ty) (h₁ : ∀ t ∈ ts₁, t.streamable = true) (s : Src)
    (cs : List Bytes) (ts₂ : List Ty) (h₂ : ∀ t ∈ ts₂, t.streamable = true) :
    let s₁ := (readAllStream c ts₁ s).2
    let b₁ := (readAll ts₁ s.flat).2
    agreeAll (readAllStream c ts₂ (s₁.feed cs)).1 (readAll ts₂ (b₁ ++ cs.flatten)).1 = true ∧
    (readAllStream c ts₂ (s₁.feed cs)).2.flat = (readAll ts₂ (b₁ ++ cs.flatten)).2 := by
  intro s₁ b₁
  have hflat : (s₁.feed cs).flat = b₁ ++ cs.flatten := by
    have := (readAllStream_sim c hc ts₁ h₁ s).2
    simp only [Src.feed, Src.flat, List.flatten_append]
    exact congrArg (· ++ cs.flatten) this
  have := readAllStream_sim c hc ts₂ h₂ (s₁.feed cs)
  rw [hflat] at this
  exact this

/-- in particular: a reader that hit a clean EOF at a value boundary reads the value that arrives next -/
theorem stream_value_after_eof (c : Cfg) (hc : Proved c) (s : Src) (hs : s.flat = []) (v : Val) (hv : Valid v)
    (hty : (tyOf v).streamable = true) (cs : List Bytes) (hcs : cs.flatten = enc v) :
    (decStream c (tyOf v) (s.feed cs)).1 = .ok v := by
  have hflat : (s.feed cs).flat = enc v ++ [] := by
    simp only [Src.feed, Src.flat, List.flatten_append, List.append_nil]
    have : s.chunks.flatten = [] := hs
    rw [this, hcs]; rfl
  exact (stream_roundtrip_value c hc v hv hty (s.feed cs) [] hflat).1

/-! ### non-vacuity -/

example : Proved ⟨.full, .accept, true⟩ := by decide
example : Proved ⟨.full, .accept, false⟩ := by decide
example : Valid (.lstr 3 [97, 98, 99]) := by decide
example : Valid (.str []) := by decide
example : (Ty.lstr 5).streamable = true := rfl

/-- a concrete program: u16, empty string, negative varint, NaN payload — written, read back, buffer empty -/
example : readAll [.u16, .str, .varI64, .f64] (writeAll [.u16 513, .str [], .varI64 (-3), .f64 0x7ff8000000000001] []) =
    ([.ok (.u16 513), .ok (.str []), .ok (.varI64 (-3)), .ok (.f64 0x7ff8000000000001)], []) := by decide

/-- a concrete interleaved history -/
example : history [] [] [.w (.u8 7), .w (.str [1, 2]), .r, .w (.i16 (-2)), .r, .r, .r] =
    ([.ok (.u8 7), .ok (.str [1, 2]), .ok (.i16 (-2))], []) := by decide

/-- truncation really produces errors: 3 of the 4 bytes of a u32 -/
example : decBuf .u32 [1, 0, 0] = (.err .empty, []) := by decide

/-- an in-range rewrite -/
example : rewrite 1 [0xff, 0xee] [1, 2, 3, 4, 5] = some [1, 0xff, 0xee, 4, 5] := by decide

/-- moving a field inside the frame: overlapping window, old contents win -/
example : rewriteSelf 2 0 6 [1, 2, 3, 4, 5, 6, 7, 8] = some [1, 2, 1, 2, 3, 4, 5, 6] := by decide

/-- read to EOF, two more bytes arrive, read again -/
example : (decStream ⟨.full, .accept, true⟩ .u8 ⟨false, [], false⟩).1 = .err .eof ∧
    decStream ⟨.full, .accept, true⟩ .u16 ((decStream ⟨.full, .accept, true⟩ .u8 ⟨false, [], false⟩).2.feed [[1], [2]]) =
      (.ok (.u16 513), ⟨false, [], false⟩) := by decide

/-- the source breaks after 3 of the 4 bytes of a u32: its error is reported, not a value -/
example : decStream ⟨.full, .accept, true⟩ .u32 ⟨false, [[1, 0], [0]], true⟩ = (.err .io, ⟨false, [], true⟩) := by decide
example : decBuf .varU64 [0xff, 0xff, 0xff, 0xff, 0xff, 0xff, 0xff, 0xff, 0xff, 0x02, 7] = (.err .overflow, [7]) := by decide

/-- the repaired reader over one-byte chunks and over an EOF-with-data source -/
example : decStream ⟨.full, .accept, true⟩ .u32 ⟨false, [[1], [0], [0], [0]], false⟩ = (.ok (.u32 1), ⟨false, [], false⟩) := by decide
example : decStream ⟨.full, .accept, true⟩ .u32 ⟨true, [[1, 0, 0, 0]], false⟩ = (.ok (.u32 1), ⟨true, [], false⟩) := by decide
example : decStream ⟨.full, .accept, true⟩ .str ⟨false, [[0, 0], [0, 0]], false⟩ = (.ok (.str []), ⟨false, [], false⟩) := by decide

/-! ### the property is false of today's configuration: concrete witnesses (also the replays on the real code) -/

/-- a single `reader.Read`: a source delivering one byte per call makes `ReadU32` fail although the four bytes are
    there (`sload 0 01,00,00,00` / `ru32`) -/
theorem witness_single_fragmented :
    decStream ⟨.single, .accept, false⟩ .u32 ⟨false, [[1], [0], [0], [0]], false⟩ = (.err .empty, ⟨false, [[0], [0], [0]], false⟩) ∧
    decBuf .u32 [1, 0, 0, 0] = (.ok (.u32 1), []) := by decide

/-- a single `reader.Read`: a source that reports EOF together with the last bytes loses them
    (`sload 1 01000000` / `ru32`) -/
theorem witness_single_eof_with_data :
    decStream ⟨.single, .accept, false⟩ .u32 ⟨true, [[1, 0, 0, 0]], false⟩ = (.err .eof, ⟨true, [], false⟩) := by decide

/-- `ZReadN(0)` falling into `ReadN`: the empty string is rejected (`sload 0 00000000` / `rstr`) -/
theorem witness_reject_empty_string :
    decStream ⟨.full, .reject, true⟩ .str ⟨false, [[0, 0, 0, 0]], false⟩ = (.err .wrongNum, ⟨false, [], false⟩) ∧
    decBuf .str [0, 0, 0, 0] = (.ok (.str []), []) := by decide

theorem not_stream_equals_buffer_single (z : ZeroLen) (m : Bool) :
    ¬ (∀ ty s, ty.streamable = true →
        Out.agree (decStream ⟨.single, z, m⟩ ty s).1 (decBuf ty s.flat).1 = true) := by
  intro h
  have := h .u32 ⟨false, [[1], [0], [0], [0]], false⟩ rfl
  cases z <;> cases m <;> revert this <;> decide

theorem not_stream_equals_buffer_reject (m : Bool) :
    ¬ (∀ ty s, ty.streamable = true →
        Out.agree (decStream ⟨.full, .reject, m⟩ ty s).1 (decBuf ty s.flat).1 = true) := by
  intro h
  have := h .str ⟨false, [[0, 0, 0, 0]], false⟩ rfl
  cases m <;> revert this <;> decide

end Nv.C10
