import Nv.Model.C17
/-! C17 — property theorems (milestone A placeholder; the full list follows). -/
namespace Nv.C17

theorem search_example : searchIndex ⟨true, .ge⟩ 3 (2 ^ 64 - 1) = 2 ∧ searchIndex ⟨true, .ge⟩ 3 0 = 0 := by decide

end Nv.C17
