import Nv.Proofs.C17
import Nv.Proofs.C17Shard
import Nv.Proofs.C17Lock
import Nv.Proofs.C04Wide
/-!
C17 — property theorems for shard routing (`remap`) and the sharded containers.
Model: `Nv.Model.C17`. Shard counts `1 ≤ n ≤ 2^64 − 1` for the partition (Go can only allocate
`n < 2^63` shards, which is what the `int` conversions additionally need — see `Nv.Tie.C17`);
hash values are all of `[0, 2^64)`. `c` ranges over `Proved` (last boundary forced to 2^64−1,
predicate `>=`).
-/
namespace Nv.C17

/-! ### the partition -/

/-- boundaries are strictly ascending … -/
theorem nps_strictly_ascending (c : Cfg) (hc : Proved c) (n : Nat) (h1 : 1 ≤ n) (h2 : n ≤ M64)
    (i j : Nat) (hij : i < j) (hj : j < n) : nps c n i < nps c n j := by
  rw [proved_eq hc]; exact nps_strict n h1 h2 i j hij hj

/-- … and the last one is 2^64 − 1, so the intervals `(nps (i−1), nps i]` (first: `[0, nps 0]`) cover every hash -/
theorem nps_covers (c : Cfg) (hc : Proved c) (n : Nat) (h1 : 1 ≤ n) : nps c n (n - 1) = 2 ^ 64 - 1 := by
  rw [proved_eq hc]; exact nps_last n h1

/-- `SearchIndex` is in range, and returns the interval the hash lies in -/
theorem partition_total (c : Cfg) (hc : Proved c) (n x : Nat) (h1 : 1 ≤ n) (h2 : n ≤ M64) (hx : x < 2 ^ 64) :
    searchIndex c n x < n ∧ x ≤ nps c n (searchIndex c n x) ∧
      (0 < searchIndex c n x → nps c n (searchIndex c n x - 1) < x) := by
  rw [proved_eq hc]
  have hx' : x ≤ M64 := by have : M64 = 2 ^ 64 - 1 := rfl; omega
  rw [searchIndex_eq n x h1 h2 hx']
  have := search_least n x h1 h2 hx'
  exact ⟨this.1, this.2.1, fun h => this.2.2 _ (by omega)⟩

/-- every hash lies in exactly one interval: any index whose interval contains `x` is the one returned -/
theorem partition_unique (c : Cfg) (hc : Proved c) (n x : Nat) (h1 : 1 ≤ n) (h2 : n ≤ M64) (hx : x < 2 ^ 64)
    (i : Nat) (hi : i < n) (hhi : x ≤ nps c n i) (hlo : 0 < i → nps c n (i - 1) < x) :
    searchIndex c n x = i := by
  have hp := partition_total c hc n x h1 h2 hx
  rw [proved_eq hc] at hp hhi hlo ⊢
  obtain ⟨hr, hrhi, hrlo⟩ := hp
  rcases Nat.lt_trichotomy (searchIndex cfgOk n x) i with h | h | h
  · -- r < i: nps r ≤ nps (i-1) < x ≤ nps r
    have := nps_mono n h1 h2 (searchIndex cfgOk n x) (i - 1) (by omega) (by omega)
    have := hlo (by omega)
    omega
  · exact h
  · have := nps_mono n h1 h2 i (searchIndex cfgOk n x - 1) (by omega) (by omega)
    have := hrlo (by omega)
    omega

/-- the partition is monotone in the hash -/
theorem search_monotone (c : Cfg) (hc : Proved c) (n x y : Nat) (h1 : 1 ≤ n) (h2 : n ≤ M64) (hxy : x ≤ y)
    (hy : y < 2 ^ 64) : searchIndex c n x ≤ searchIndex c n y := by
  have hpx := partition_total c hc n x h1 h2 (by omega)
  have hpy := partition_total c hc n y h1 h2 hy
  rw [proved_eq hc] at hpx hpy ⊢
  rcases Nat.lt_or_ge (searchIndex cfgOk n y) (searchIndex cfgOk n x) with h | h
  · -- nps (r_x − 1) < x ≤ y ≤ nps r_y ≤ nps (r_x − 1)
    have := nps_mono n h1 h2 (searchIndex cfgOk n y) (searchIndex cfgOk n x - 1) (by omega) (by omega)
    have := hpx.2.2 (by omega)
    omega
  · exact h

/-- every shard is hit: boundary `i` itself maps to shard `i` (no empty interval) -/
theorem search_boundary (c : Cfg) (hc : Proved c) (n i : Nat) (h1 : 1 ≤ n) (h2 : n ≤ M64) (hi : i < n) :
    searchIndex c n (nps c n i) = i := by
  have hle : nps c n i ≤ M64 := by rw [proved_eq hc]; exact nps_le_max n i hi
  refine partition_unique c hc n _ h1 h2 (by have : M64 = 2 ^ 64 - 1 := rfl; omega) i hi (Nat.le_refl _) ?_
  intro h0
  exact nps_strictly_ascending c hc n h1 h2 (i - 1) i (by omega) hi

example : Proved ⟨true, .ge⟩ := by decide
example : searchIndex ⟨true, .ge⟩ 73 (2 ^ 63) = 36 ∧ searchIndex ⟨true, .ge⟩ 73 0 = 0 ∧
    searchIndex ⟨true, .ge⟩ 73 (2 ^ 64 - 1) = 72 := by decide

/-! ### the index functions -/

theorem search_in_range (c : Cfg) (hc : Proved c) (n x : Nat) (h1 : 1 ≤ n) (h2 : n ≤ M64) (hx : x < 2 ^ 64) :
    searchIndex c n x < n := (partition_total c hc n x h1 h2 hx).1

/-! ### balance of the partition -/

/-- **inner shards are equally wide**: every shard except the first and the last owns exactly `y = ⌊(2^64−1)/n⌋`
    hash values (the interval `(nps (i−1), nps i]`) -/
theorem shard_width_inner (c : Cfg) (hc : Proved c) (n i : Nat) (h0 : 0 < i) (hi : i + 1 < n) :
    nps c n i - nps c n (i - 1) = yOf n := by
  rw [proved_eq hc, nps_inner n i hi, nps_inner n (i - 1) (by omega)]
  have : i - 1 + 1 = i := by omega
  rw [this, Nat.mul_add, Nat.mul_one]; omega

/-- the first shard owns `[0, y]` (for `n ≥ 2`): `y + 1` values -/
theorem shard_width_first (c : Cfg) (hc : Proved c) (n : Nat) (h2 : 2 ≤ n) : nps c n 0 = yOf n := by
  rw [proved_eq hc, nps_inner n 0 (by omega)]; omega

/-- the last shard absorbs the remainder of the division and nothing more: it owns `y + (2^64−1) mod n` values,
    fewer than `y + n` — the partition is balanced to within `n` hash values out of `2^64` -/
theorem shard_width_last (c : Cfg) (hc : Proved c) (n : Nat) (h2 : 2 ≤ n) :
    nps c n (n - 1) - nps c n (n - 2) = yOf n + M64 % n ∧ M64 % n < n := by
  rw [proved_eq hc, nps_last n (by omega), nps_inner n (n - 2) (by omega)]
  have e : n - 2 + 1 = n - 1 := by omega
  rw [e]
  have hdm : n * (M64 / n) + M64 % n = M64 := Nat.div_add_mod M64 n
  have hm : yOf n * (n - 1) + yOf n = yOf n * n := by
    generalize yOf n = y
    obtain ⟨m, rfl⟩ : ∃ m, n = m + 1 := ⟨n - 1, by omega⟩
    rw [Nat.add_sub_cancel, Nat.mul_add, Nat.mul_one]
  have hc' : n * (M64 / n) = yOf n * n := by unfold yOf; exact Nat.mul_comm _ _
  exact ⟨by omega, Nat.mod_lt _ (by omega)⟩

/-- the share of hashes routed to shard `i`: the number of `x < 2^64` with `searchIndex c n x = i` is the width above —
    stated pointwise: `x` goes to inner shard `i` iff `y·i < x ≤ y·(i+1)` -/
theorem shard_membership_inner (c : Cfg) (hc : Proved c) (n x i : Nat) (h1 : 1 ≤ n) (h2 : n ≤ M64) (hx : x < 2 ^ 64)
    (h0 : 0 < i) (hi : i + 1 < n) :
    searchIndex c n x = i ↔ (yOf n * i < x ∧ x ≤ yOf n * (i + 1)) := by
  have e1 : nps c n i = yOf n * (i + 1) := by rw [proved_eq hc]; exact nps_inner n i hi
  have e0 : nps c n (i - 1) = yOf n * i := by
    rw [proved_eq hc, nps_inner n (i - 1) (by omega)]
    have : i - 1 + 1 = i := by omega
    rw [this]
  constructor
  · intro h
    have ht := partition_total c hc n x h1 h2 hx
    rw [h] at ht
    exact ⟨by have := ht.2.2 h0; omega, by have := ht.2.1; omega⟩
  · rintro ⟨hlo, hhi⟩
    exact partition_unique c hc n x h1 h2 hx i (by omega) (by omega) (fun _ => by omega)
/-- non-vacuity, 7 shards: the first boundary is `y`, the last shard is one value wider than the inner ones -/
example : nps cfgOk 7 0 = yOf 7 ∧ nps cfgOk 7 3 - nps cfgOk 7 2 = yOf 7 ∧ nps cfgOk 7 6 - nps cfgOk 7 5 = yOf 7 + 1 := by
  decide

/-- `SimpleIndex` of an integer / HitGroup key is in range whatever the conversion to `uint64` is -/
theorem simple_in_range (arm : KType → Nat → Option (BitVec 64)) (c : Cfg) (hc : Proved c) (hit : Bool) (n : Nat)
    (h1 : 1 ≤ n) (h2 : n ≤ M64) (k : Key) (hh : k.hash < 2 ^ 64) :
    ∀ i, simpleIndex arm c hit n k = .idx i → i < n := by
  intro i h
  simp only [simpleIndex] at h
  split at h
  · cases h; exact Nat.mod_lt _ (by omega)
  · simp only [xhashIndex] at h
    split at h
    · cases h; exact search_in_range c hc n _ h1 h2 hh
    · cases h

theorem xhash_in_range (c : Cfg) (hc : Proved c) (hit : Bool) (n : Nat) (h1 : 1 ≤ n) (h2 : n ≤ M64) (k : Key)
    (hh : k.hash < 2 ^ 64) : ∀ i, xhashIndex c hit n k = .idx i → i < n := by
  intro i h
  simp only [xhashIndex] at h
  split at h
  · cases h; exact search_in_range c hc n _ h1 h2 hh
  · cases h

/-- every supported key gets an index under BOTH routes (no panic) — every key type of the property's quantifier:
all integer widths, strings, byte slices, `Bs` and `HitGroup` implementers — provided `ToBytes` has its `HitGroup` arm
(`hit = true`; regenerated, obligation `tie_hitgroup_hashable`). `arm` only needs to cover nothing: keys without an arm go
through their hash. -/
theorem route_total (arm : KType → Nat → Option (BitVec 64)) (c : Cfg) (n : Nat) (k : Key) (hk : k.ty ≠ .other) :
    (∃ i, simpleIndex arm c true n k = .idx i) ∧ (∃ i, xhashIndex c true n k = .idx i) := by
  have hh : k.hashable true = true := by
    cases hty : k.ty <;> simp_all [Key.hashable, toBytesArmsExpected]
  have hx : xhashIndex c true n k = .idx (searchIndex c n k.hash) := by simp [xhashIndex, hh]
  refine ⟨?_, ⟨_, hx⟩⟩
  simp only [simpleIndex]
  cases arm k.ty k.bits with
  | some it => exact ⟨_, rfl⟩
  | none => exact ⟨_, hx⟩

/-- the index is a function of the key's type, value and hash only (and of `n`): no hidden state -/
theorem route_deterministic (arm : KType → Nat → Option (BitVec 64)) (c : Cfg) (n : Nat) (k k' : Key)
    (hty : k.ty = k'.ty) (hb : k.bits = k'.bits) (hh : k.hash = k'.hash) :
    ∀ hit, simpleIndex arm c hit n k = simpleIndex arm c hit n k' ∧ xhashIndex c hit n k = xhashIndex c hit n k' := by
  intro hit
  simp [simpleIndex, xhashIndex, Key.hashable, hty, hb, hh]

/-- TODAY's `ToBytes` has no `HitGroup` arm (`hit = false`): under xxhash routing a key type that implements only
`HitGroup` panics `unsupported.type.for.slot` although the property's quantifier lists it — the property is false of that
source (monitor key `C17:XHashIndex:HitGroup-key-unsupported`, script `remap 3` / `xhash hit:5:0`). -/
theorem witness_hitgroup_unsupported_under_xhash (c : Cfg) (n h v : Nat) :
    xhashIndex c false n ⟨.hit, v, "", h⟩ = .panic := rfl

/-! ### sharded containers -/

/-- Generic: a per-key-independent container (`Keyed`: the answer and the new slot of `k` depend only on
`k`'s slot; other slots are untouched) behind ANY routing function answers every request as the single
container does. -/
theorem sharded_equiv {S K R A V} (C : Keyed S K R A V) (idx : K → Nat) (s0 : S) (reqs : List (K × R)) :
    outs (shardedStep C idx) (fun _ => s0) reqs = outs (singleStep C) s0 reqs :=
  (sharded_sim C idx reqs (fun _ => s0) s0 (fun _ => rfl)).1

/-- instance: the sharded map (`cache.WideMap`) equals the single map (`cache.Map`) on every Set/Get/Exist/Delete
sequence, for every routing function — in particular modulo and xxhash routing with any shard count -/
theorem wmap_equals_map (idx : Key → Nat) (reqs : List (Key × MReq)) :
    outs (shardedStep mapKeyed idx) (fun _ => []) reqs = outs (singleStep mapKeyed) [] reqs :=
  sharded_equiv mapKeyed idx [] reqs

/-- with an in-range routing function only the shards `< n` are ever touched (the slice of `n` shards suffices) -/
theorem sharded_touches_only_range {S K R A V} (C : Keyed S K R A V) (idx : K → Nat) (n : Nat)
    (hidx : ∀ k, idx k < n) (sh : Nat → S) (req : K × R) (i : Nat) (hi : n ≤ i) :
    (shardedStep C idx sh req).1 i = sh i := by
  have : i ≠ idx req.1 := by have := hidx req.1; omega
  simp [shardedStep, this]

/-- instance LRU (`WideLRUCache`, both packages): capacity is applied per shard, so the sharded cache is
the product of per-shard caches, each seeing the sub-script routed to it (`Nv.C04.wide_run_per_shard`);
with the ideal-LRU refinement of C04 each shard answers as an ideal LRU of capacity `capacity/n + 1`. -/
theorem wlru_is_product_of_shards (c : Nv.C04.Cfg) (kd : Nv.C04.Kind) (idx : Nat → Nat) (n : Nat)
    (hidx : ∀ k, idx k < n) (cap : Int) (ops : List Nv.C04.Op) (hkeyed : ∀ o ∈ ops, o.key?.isSome = true) :
    ∃ w os, Nv.C04.wideRun c kd idx (Nv.C04.Wide.new cap n) ops = some (w, os) ∧
      ∀ i, i < n →
        w.shards[i]? = some (final (Nv.C04.step c kd) (Nv.C04.Lru.new (Nv.C04.shardCap cap n)) (Nv.C04.shardOps idx i ops)) ∧
        ((ops.zip os).filter (fun p => Nv.C04.routed idx i p.1)).map (·.2) =
          outs (Nv.C04.step c kd) (Nv.C04.Lru.new (Nv.C04.shardCap cap n)) (Nv.C04.shardOps idx i ops) := by
  obtain ⟨w, os, h1, -, h3⟩ := Nv.C04.wide_run_per_shard c kd idx n hidx ops hkeyed (Nv.C04.Wide.new cap n)
    (by simp [Nv.C04.Wide.new])
  exact ⟨w, os, h1, fun i hi => h3 i _ (by simp [Nv.C04.Wide.new, hi])⟩

example : outs (shardedStep mapKeyed (fun k => k.bits % 3)) (fun _ => [])
    [(⟨.i8, 255, "", 0⟩, .set 1), (⟨.i16, 65535, "", 0⟩, .set 2), (⟨.i8, 255, "", 0⟩, .get), (⟨.u8, 255, "", 0⟩, .exist)] =
    [.unit, .unit, .val (some 1), .bool false] := by decide

/-! ### key-locker groups and semaphore maps

Reference: `LockSt` — ONE table of holders with all-or-nothing admission (`acquire`), `release`, and the wake-up of the
blocked caller. A group keeps the holders of `k` in shard `idx k` (`ShLockSt`) and visits the keys of a multi-key call in
`shardOrder`. Per-key reader/writer semantics of the real lockers is C01/C02's subject; the hypothesis here is exactly
what they establish: a shard's answer for `k` depends on the entries of `k` only. -/

/-- For ANY routing function the sharded table answers every script — Lock/RLock/Locks/RLocks and their releases, in any
mix, through any API on the same key, READ lists with repeated keys included, legal or not — exactly as the single table: same grants, same blocked calls, same
wake-ups, same refusals. (Shard counts, primes, modulo or xxhash routing are all instances of `idx`; `cap` = readers
admitted per key at a time: 0 = unlimited for the key lockers, `rwRatio` for the semaphore maps — the wide semaphore
map and the single one must be built with the SAME ratio, whatever it is.) -/
theorem sharded_locks_equiv (cap : Nat) (idx : Key → Nat) (reqs : List LReq) :
    outs (shLockStep cap idx) ShLockSt.empty reqs = outs (lockStep cap) LockSt.empty reqs :=
  (Nv.C04.sim_outs (shLockStep cap idx) (lockStep cap)
    (fun s l => Rel idx s.shards l.holds ∧ s.waiter = l.waiter) (fun _ => True)
    (fun s l req hr _ => lock_step_sim cap idx s l hr.1 hr.2 req)
    reqs ShLockSt.empty LockSt.empty
    ⟨⟨fun h => by simp [ShLockSt.empty, LockSt.empty], fun i h hh => by simp [ShLockSt.empty] at hh⟩, rfl⟩
    (fun _ _ => trivial)).1

/-- the keys of a multi-key call are visited in ascending shard order, each exactly as often as it was given: two
callers never take two shards in opposite orders (the ordering argument against deadlock between shards; inside one
shard the caller's order is kept, as in the unsharded locker) -/
theorem lock_order_ascending (idx : Key → Nat) (keys : List Key) :
    AscendingBy idx (shardOrder idx keys) ∧ (shardOrder idx keys).Perm keys :=
  ⟨shardOrder_ascending idx keys, shardOrder_perm idx keys⟩

/-- a READ list may name a key twice: it is then held twice (as by the unsharded locker), and one single-key release
leaves one hold — a writer still blocks -/
example : outs (shLockStep 0 (fun k => k.bits % 3)) ShLockSt.empty
    [.acq 0 [⟨.i64, 5, "", 0⟩, ⟨.i64, 9, "", 0⟩, ⟨.i64, 5, "", 0⟩] false, .rel 0 [⟨.i64, 5, "", 0⟩] false,
     .acq 1 [⟨.i64, 5, "", 0⟩] true, .rel 0 [⟨.i64, 5, "", 0⟩] false, .acq 2 [⟨.i64, 5, "", 0⟩, ⟨.i64, 5, "", 0⟩] true] =
    [.granted, .released none, .parked, .released (some 1), .illegal] := by decide

/-- a concrete script: Locks([k]) through the multi-key API, then Lock(k) from another thread blocks, Unlock(k) through the
single-key API releases it and wakes the waiter -/
example : outs (shLockStep 0 (fun k => k.bits % 3)) ShLockSt.empty
    [.acq 0 [⟨.i64, 5, "", 0⟩] true, .acq 1 [⟨.i64, 5, "", 0⟩] true, .rel 0 [⟨.i64, 5, "", 0⟩] true, .rel 2 [⟨.i64, 5, "", 0⟩] true] =
    [.granted, .parked, .released (some 1), .illegal] := by decide

/-- a semaphore map with ratio 2: the third reader of a key blocks, readers of another key do not, and it is woken
by a release of ITS key only -/
example : outs (shLockStep 2 (fun k => k.bits % 3)) ShLockSt.empty
    [.acq 0 [⟨.str, 0, "6b", 1⟩] false, .acq 1 [⟨.str, 0, "6b", 1⟩] false, .acq 2 [⟨.str, 0, "6a", 2⟩] false,
     .acq 3 [⟨.str, 0, "6b", 1⟩] false, .rel 2 [⟨.str, 0, "6a", 2⟩] false, .rel 0 [⟨.str, 0, "6b", 1⟩] false] =
    [.granted, .granted, .granted, .parked, .released none, .released (some 3)] := by decide

/-- a request whose context is already done: granted on a free key, refused (without queueing) on a held one —
the same on the sharded and the single table (covered by `sharded_locks_equiv`, which quantifies over `acqDone` too) -/
example : outs (shLockStep 10 (fun k => k.bits % 3)) ShLockSt.empty
    [.acqDone 0 [⟨.str, 0, "6b", 1⟩] true, .acqDone 1 [⟨.str, 0, "6b", 1⟩] false, .acqDone 1 [⟨.str, 0, "6a", 2⟩] false,
     .rel 0 [⟨.str, 0, "6b", 1⟩] true, .acqDone 1 [⟨.str, 0, "6b", 1⟩] false] =
    [.granted, .refused, .granted, .released none, .granted] := by decide

/-! ### what the unproved configurations do -/

/-- without the last-boundary fix-up, 7 shards: hash 2^64−1 lies above `y·7 = 2^64−2`, the search returns 7,
the clamp sends it to shard 0 — not monotone, and not the interval the hash lies in -/
theorem witness_no_fixup :
    searchIndex ⟨false, .ge⟩ 7 (2 ^ 64 - 1) = 0 ∧ searchIndex ⟨false, .ge⟩ 7 (2 ^ 64 - 2) = 6 := by decide

/-- predicate `>` instead of `>=`: a hash equal to a boundary goes to the next shard, 2^64−1 to shard 0 -/
theorem witness_gt_predicate :
    searchIndex ⟨true, .gt⟩ 2 (2 ^ 64 - 1) = 0 ∧ searchIndex ⟨true, .gt⟩ 2 (2 ^ 64 - 2) = 1 := by decide

end Nv.C17
