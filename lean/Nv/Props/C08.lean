import Nv.Proofs.C08Chain
import Nv.Proofs.C08Len
/-!
C08 — property theorems for `bitmap1024` (model: `Nv.Model.C08`; proofs: `Nv/Proofs/C08*.lean`).

Every statement quantifies over all 2^64 words / all 2^1024 bitmaps, every `n : Int` (negative included), every
position, every `add`, every element width `w` (the Go code instantiates 8/16/32/64), both directions and
**every** value of the sparse threshold `magic`. The configuration `c` ranges over `Proved` (`B64 = 64`, `L16 = 16`,
any initial threshold). Membership: `b.getLsbD i` for a word, `mem1024 b i` for a 1024-bit map.

Index — clause of the property statement ↦ theorem(s):
* "behaves as a set of integers in [0,1023]" ............... `mem1024_range`, `mem_members1024`, `members1024_ascending`, `bitmap_ext`
* "setting or clearing an in-range index changes membership of exactly that index"
      `setI32_spec`, `unsetI32_spec`, `setI16_spec`, `unsetI16_spec` (1024-bit), `set64_spec`, `unset64_spec` (64-bit layer)
* "out-of-range indices (negative or >= 1024) are ignored" .. same four `…_spec` (the `decide (0 ≤ i ∧ i < 1024 ∧ …)` term),
      `setI32_out_of_range`; 64-bit layer (> 63): `set64_spec`, `unset64_spec`
* "Len/NLen count members and non-members" ................. `len_nlen`, `nlen_eq` (1024-bit), `len64_spec`, `full64_spec` (64-bit);
      `len_setI32`, `len_unsetI32`, `len_setI16`, `len_unsetI16` (±1 exactly when membership changes), `setI32_history`,
      `setI16_history` (whole set histories never lose a member)
* "And/Or/Reverse/OrThenReverse/Equal are ∩, ∪, complement, complement-of-union, equality"
      `and_or_rev_equal` (all five), `equal1024_spec`, `orThenReverse_eq`, `reverse_reverse`; 64-bit layer `algebra64`
* "every iterator, every width, forward or reverse, writes exactly the first min(n, Len) members in ascending (descending)
   order, each offset by add, starting at pos, and returns that count"
      `iter64_spec` (Bit64.IterAs*/RIterAs*, all widths), `iter1024_spec` (Bit1024.IterAs*/RIterAs*), `expected_length`
      (the count), `members_ascending` / `members1024_ascending` (the order), `iter64_no_write`, `iter64_empty`,
      `iter1024_no_write` (n ≤ 0 / empty word: 0, nothing touched, any pos)
* "GetN*" (every width, both layers) ........................ `getN64_spec`, `getN1024_spec`, `getN_values`, `getN_negative_panics`
* "the result does not depend on the sparse/dense traversal threshold"
      `iter64_threshold_irrelevant`, `iter1024_threshold_irrelevant` (and `magic` is universally quantified in every spec)
-/
namespace Nv.C08

/-! ### the sets -/

theorem mem_members (b : Bit64) (i : Nat) : i ∈ members b ↔ i < 64 ∧ b.getLsbD i = true := by
  simp [members]

theorem mem_members1024 (b : Bit1024) (i : Nat) : i ∈ members1024 b ↔ mem1024 b i = true := by
  unfold members1024
  rw [List.mem_filter, List.mem_range]
  exact ⟨fun h => h.2, fun h => ⟨mem1024_lt b i h, h⟩⟩

/-- a 1024-bit map is a set of integers in [0,1023] -/
theorem mem1024_range (b : Bit1024) (i : Nat) (h : mem1024 b i = true) : i < 1024 := mem1024_lt b i h

theorem members_ascending (b : Bit64) : (members b).Pairwise (· < ·) :=
  List.Pairwise.filter _ List.pairwise_lt_range

theorem members1024_ascending (b : Bit1024) : (members1024 b).Pairwise (· < ·) :=
  List.Pairwise.filter _ List.pairwise_lt_range

/-- extensionality: the member set determines the bitmap -/
theorem bitmap_ext (a b : Bit1024) (h : ∀ j, j < 1024 → mem1024 a j = mem1024 b j) : a = b := ext1024 a b h

/-! ### set / unset: membership of exactly that index changes; out-of-range indices are ignored -/

/-- `Bit64.Set(i)`: bit `i` joins when `i ≤ 63`, every other `i : byte` is ignored -/
theorem set64_spec (b : Bit64) (i : BitVec 8) (j : Nat) :
    (set64 b i).getLsbD j = (b.getLsbD j || (decide (i.toNat ≤ 63) && decide (i.toNat = j))) := set64_getLsbD b i j

theorem unset64_spec (b : Bit64) (i : BitVec 8) (j : Nat) :
    (unset64 b i).getLsbD j = (b.getLsbD j && !(decide (i.toNat ≤ 63) && decide (i.toNat = j))) := unset64_getLsbD b i j

/-- `Bit1024.SetI32(i)` for all 2^32 arguments: index `i` joins iff `0 ≤ i < 1024`; nothing else changes
    (negative and ≥ 1024 are ignored — for −63…−1 only because `Bit64.Set` rejects the byte `256 + i%64`) -/
theorem setI32_spec (b : Bit1024) (i : BitVec 32) (j : Nat) :
    mem1024 (setI32 b i) j = (mem1024 b j || decide (0 ≤ i.toInt ∧ i.toInt < 1024 ∧ i.toInt = (j : Int))) := setI32_mem b i j

theorem unsetI32_spec (b : Bit1024) (i : BitVec 32) (j : Nat) :
    mem1024 (unsetI32 b i) j = (mem1024 b j && !decide (0 ≤ i.toInt ∧ i.toInt < 1024 ∧ i.toInt = (j : Int))) := unsetI32_mem b i j

theorem setI16_spec (b : Bit1024) (i : BitVec 16) (j : Nat) :
    mem1024 (setI16 b i) j = (mem1024 b j || decide (0 ≤ i.toInt ∧ i.toInt < 1024 ∧ i.toInt = (j : Int))) := setI16_mem b i j

theorem unsetI16_spec (b : Bit1024) (i : BitVec 16) (j : Nat) :
    mem1024 (unsetI16 b i) j = (mem1024 b j && !decide (0 ≤ i.toInt ∧ i.toInt < 1024 ∧ i.toInt = (j : Int))) := unsetI16_mem b i j

/-- out-of-range indices leave the bitmap unchanged (corollary, as an equation between bitmaps) -/
theorem setI32_out_of_range (b : Bit1024) (i : BitVec 32) (h : ¬(0 ≤ i.toInt ∧ i.toInt < 1024)) : setI32 b i = b := by
  apply ext1024
  intro j _
  rw [setI32_mem]
  have : ¬(0 ≤ i.toInt ∧ i.toInt < 1024 ∧ i.toInt = (j : Int)) := fun hh => h ⟨hh.1, hh.2.1⟩
  simp [this]

/-! ### Len / NLen count members and non-members -/

theorem count_split (p : Nat → Bool) (l : List Nat) :
    (l.filter p).length + (l.filter (fun i => !p i)).length = l.length := by
  induction l with
  | nil => rfl
  | cons a l ih =>
    cases h : p a <;> simp [h] <;> omega

theorem len64_spec (b : Bit64) :
    len64 b = (members b).length ∧ nlen64 b = ((List.range 64).filter (fun i => !b.getLsbD i)).length := by
  have h := count_split b.getLsbD (List.range 64)
  have hl := len64_eq b
  unfold nlen64
  unfold members at hl
  simp only [List.length_range] at h
  constructor
  · exact len64_eq b
  · omega

theorem toList_eq_words (b : Bit1024) : b.toList = (List.range 16).map (word b) := by
  apply List.ext_getElem
  · simp
  · intro i h1 h2
    have hi : i < 16 := by simpa using h2
    simp [word, hi]

theorem len1024_eq (b : Bit1024) : len1024 b = (members1024 b).length := by
  unfold len1024
  rw [toList_eq_words, members1024_blocks, List.length_flatMap, List.map_map]
  congr 1
  apply List.map_congr_left
  intro k _
  simp [len64_eq]

theorem len_nlen (b : Bit1024) :
    len1024 b = (members1024 b).length ∧
    nlen1024 b = ((List.range 1024).filter (fun i => !mem1024 b i)).length := by
  have h := count_split (mem1024 b) (List.range 1024)
  have hl := len1024_eq b
  unfold nlen1024
  unfold members1024 at hl
  simp only [List.length_range] at h
  constructor
  · exact len1024_eq b
  · omega

/-! ### how `Len` moves under set / unset; whole set histories -/

/-- a bitmap that gained exactly index `k`: `Len` grows by one unless `k` was a member -/
theorem len_gain (b b' : Bit1024) (k : Nat) (hk : k < 1024)
    (h : ∀ j, mem1024 b' j = (mem1024 b j || decide (k = j))) :
    len1024 b' = len1024 b + (if mem1024 b k then 0 else 1) := by
  rw [len1024_eq, len1024_eq]
  unfold members1024
  have : (List.range 1024).filter (mem1024 b') = (List.range 1024).filter (fun j => mem1024 b j || decide (k = j)) :=
    List.filter_congr (fun j _ => h j)
  rw [this, filter_add_one (mem1024 b) k 1024 hk]

/-- a bitmap that lost exactly index `k`: `Len` shrinks by one iff `k` was a member -/
theorem len_loss (b b' : Bit1024) (k : Nat) (hk : k < 1024)
    (h : ∀ j, mem1024 b' j = (mem1024 b j && !decide (k = j))) :
    len1024 b' + (if mem1024 b k then 1 else 0) = len1024 b := by
  rw [len1024_eq, len1024_eq]
  unfold members1024
  have : (List.range 1024).filter (mem1024 b') = (List.range 1024).filter (fun j => mem1024 b j && !decide (k = j)) :=
    List.filter_congr (fun j _ => h j)
  rw [this, filter_remove_one (mem1024 b) k 1024 hk]

/-- `Len` after `SetI32` (all 2^32 arguments): +1 exactly when the index is in range and was not a member -/
theorem len_setI32 (b : Bit1024) (i : BitVec 32) :
    len1024 (setI32 b i) =
      len1024 b + (if 0 ≤ i.toInt ∧ i.toInt < 1024 ∧ mem1024 b i.toInt.toNat = false then 1 else 0) := by
  by_cases hz : 0 ≤ i.toInt ∧ i.toInt < 1024
  · rw [len_gain b (setI32 b i) i.toInt.toNat (by omega)
      (fun j => by rw [setI32_mem, decide_range_eq i.toInt hz j])]
    cases hm : mem1024 b i.toInt.toNat <;> simp [hz]
  · rw [setI32_out_of_range b i hz]
    have : ¬(0 ≤ i.toInt ∧ i.toInt < 1024 ∧ mem1024 b i.toInt.toNat = false) := fun h => hz ⟨h.1, h.2.1⟩
    simp [this]

/-- `Len` after `UnsetI32`: −1 exactly when the index is in range and was a member -/
theorem len_unsetI32 (b : Bit1024) (i : BitVec 32) :
    len1024 (unsetI32 b i) + (if 0 ≤ i.toInt ∧ i.toInt < 1024 ∧ mem1024 b i.toInt.toNat = true then 1 else 0) = len1024 b := by
  by_cases hz : 0 ≤ i.toInt ∧ i.toInt < 1024
  · have := len_loss b (unsetI32 b i) i.toInt.toNat (by omega)
      (fun j => by rw [unsetI32_mem, decide_range_eq i.toInt hz j])
    cases hm : mem1024 b i.toInt.toNat <;> simp [hz, hm] at this ⊢ <;> omega
  · have hb : unsetI32 b i = b := by
      apply ext1024
      intro j _
      rw [unsetI32_mem]
      have : ¬(0 ≤ i.toInt ∧ i.toInt < 1024 ∧ i.toInt = (j : Int)) := fun hh => hz ⟨hh.1, hh.2.1⟩
      simp [this]
    have : ¬(0 ≤ i.toInt ∧ i.toInt < 1024 ∧ mem1024 b i.toInt.toNat = true) := fun h => hz ⟨h.1, h.2.1⟩
    rw [hb]; simp [this]

theorem len_setI16 (b : Bit1024) (i : BitVec 16) :
    len1024 (setI16 b i) =
      len1024 b + (if 0 ≤ i.toInt ∧ i.toInt < 1024 ∧ mem1024 b i.toInt.toNat = false then 1 else 0) := by
  by_cases hz : 0 ≤ i.toInt ∧ i.toInt < 1024
  · rw [len_gain b (setI16 b i) i.toInt.toNat (by omega)
      (fun j => by rw [setI16_mem, decide_range_eq i.toInt hz j])]
    cases hm : mem1024 b i.toInt.toNat <;> simp [hz]
  · have hb : setI16 b i = b := by
      apply ext1024
      intro j _
      rw [setI16_mem]
      have : ¬(0 ≤ i.toInt ∧ i.toInt < 1024 ∧ i.toInt = (j : Int)) := fun hh => hz ⟨hh.1, hh.2.1⟩
      simp [this]
    have : ¬(0 ≤ i.toInt ∧ i.toInt < 1024 ∧ mem1024 b i.toInt.toNat = false) := fun h => hz ⟨h.1, h.2.1⟩
    rw [hb]; simp [this]

theorem len_unsetI16 (b : Bit1024) (i : BitVec 16) :
    len1024 (unsetI16 b i) + (if 0 ≤ i.toInt ∧ i.toInt < 1024 ∧ mem1024 b i.toInt.toNat = true then 1 else 0) = len1024 b := by
  by_cases hz : 0 ≤ i.toInt ∧ i.toInt < 1024
  · have := len_loss b (unsetI16 b i) i.toInt.toNat (by omega)
      (fun j => by rw [unsetI16_mem, decide_range_eq i.toInt hz j])
    cases hm : mem1024 b i.toInt.toNat <;> simp [hz, hm] at this ⊢ <;> omega
  · have hb : unsetI16 b i = b := by
      apply ext1024
      intro j _
      rw [unsetI16_mem]
      have : ¬(0 ≤ i.toInt ∧ i.toInt < 1024 ∧ i.toInt = (j : Int)) := fun hh => hz ⟨hh.1, hh.2.1⟩
      simp [this]
    have : ¬(0 ≤ i.toInt ∧ i.toInt < 1024 ∧ mem1024 b i.toInt.toNat = true) := fun h => hz ⟨h.1, h.2.1⟩
    rw [hb]; simp [this]

/-- a whole history of `SetI32` calls, of any length and in any order (so also when `Len` passes through every value
    0…1024): the members afterwards are the old ones plus exactly the in-range arguments — nothing is ever dropped -/
theorem setI32_history (l : List (BitVec 32)) (b : Bit1024) (j : Nat) :
    mem1024 (l.foldl setI32 b) j =
      (mem1024 b j || l.any (fun i => decide (0 ≤ i.toInt ∧ i.toInt < 1024 ∧ i.toInt = (j : Int)))) := by
  induction l generalizing b with
  | nil => simp
  | cons i l ih => rw [List.foldl_cons, ih, setI32_mem, List.any_cons, Bool.or_assoc]

theorem setI16_history (l : List (BitVec 16)) (b : Bit1024) (j : Nat) :
    mem1024 (l.foldl setI16 b) j =
      (mem1024 b j || l.any (fun i => decide (0 ≤ i.toInt ∧ i.toInt < 1024 ∧ i.toInt = (j : Int)))) := by
  induction l generalizing b with
  | nil => simp
  | cons i l ih => rw [List.foldl_cons, ih, setI16_mem, List.any_cons, Bool.or_assoc]

/-! ### And / Or / Reverse / OrThenReverse / Equal are ∩, ∪, complement, complement of ∪, equality -/

theorem and_or_rev_equal (a b : Bit1024) :
    (∀ j, mem1024 (and1024 a b) j = (mem1024 a j && mem1024 b j)) ∧
    (∀ j, mem1024 (or1024 a b) j = (mem1024 a j || mem1024 b j)) ∧
    (∀ j, j < 1024 → mem1024 (reverse1024 a) j = !mem1024 a j) ∧
    (∀ j, j < 1024 → mem1024 (orThenReverse1024 a b) j = !(mem1024 a j || mem1024 b j)) ∧
    (equal1024 a b = true ↔ a = b) :=
  ⟨and1024_mem a b, or1024_mem a b, reverse1024_mem a, orThenReverse1024_mem a b, equal1024_iff a b⟩

theorem algebra64 (a b : Bit64) (j : Nat) (hj : j < 64) :
    (and64 a b).getLsbD j = (a.getLsbD j && b.getLsbD j) ∧ (or64 a b).getLsbD j = (a.getLsbD j || b.getLsbD j) ∧
    (reverse64 a).getLsbD j = !a.getLsbD j := by
  simp [and64, or64, reverse64, hj]

/-! ### iterators -/

/-- **Every 64-bit iterator** (`Bit64.IterAs*/RIterAs*`, any width, either direction, any threshold): writes exactly
    the first `min(n, Len)` members in ascending (descending) order, each offset by `add` (wrapping in the element
    width), at `pos…`, leaves every other cell untouched, and returns that count. Precondition: `pos ≥ 0` and room. -/
theorem iter64_spec {w : Nat} (magic : Int) (rev : Bool) (b : Bit64) (s : List (BitVec w)) (pos : Int)
    (add : BitVec w) (n : Int) (h0 : 0 ≤ pos)
    (hroom : pos.toNat + (expected rev (members b) add n).length ≤ s.length) :
    iter64 magic rev b s pos add n =
      some (writeAt s pos.toNat (expected rev (members b) add n), (expected rev (members b) add n).length) :=
  iter64_eq_spec magic rev b s pos add n h0 hroom

/-- the count is `min(n, Len)` (0 for negative n) -/
theorem expected_length {w : Nat} (rev : Bool) (ms : List Nat) (add : BitVec w) (n : Int) :
    (expected rev ms add n).length = min n.toNat ms.length := by
  unfold expected; cases rev <;> simp

-- non-vacuity: word {0,7,56..63}, int8, pos 1, slice of 5, n = 3
example : (0 : Int) ≤ 1 ∧ (1 : Int).toNat + (expected (w := 8) false (members 0xff00000000000081#64) 120#8 3).length ≤ 5 := by decide
example : iter64 (w := 8) 9 false 0xff00000000000081#64 [1#8, 2#8, 3#8, 4#8, 5#8] 1 120#8 3 =
    some ([1#8, 120#8, 127#8, 176#8, 5#8], 3) := by decide

/-- the result does not depend on the sparse/dense traversal threshold -/
theorem iter64_threshold_irrelevant {w : Nat} (m1 m2 : Int) (rev : Bool) (b : Bit64) (s : List (BitVec w)) (pos : Int)
    (add : BitVec w) (n : Int) (h0 : 0 ≤ pos)
    (hroom : pos.toNat + (expected rev (members b) add n).length ≤ s.length) :
    iter64 m1 rev b s pos add n = iter64 m2 rev b s pos add n := by
  rw [iter64_eq_spec m1 rev b s pos add n h0 hroom, iter64_eq_spec m2 rev b s pos add n h0 hroom]

/-- **Every 1024-bit iterator** (`Bit1024.IterAs*/RIterAs*`): same statement over the 1024-bit set -/
theorem iter1024_spec {w : Nat} (c : Cfg) (hc : Proved c) (magic : Int) (rev : Bool) (b : Bit1024)
    (s : List (BitVec w)) (pos : Int) (add : BitVec w) (n : Int) (h0 : 0 ≤ pos)
    (hroom : pos.toNat + (expected rev (members1024 b) add n).length ≤ s.length) :
    iter1024 c magic rev b s pos add n =
      some (writeAt s pos.toNat (expected rev (members1024 b) add n), (expected rev (members1024 b) add n).length) :=
  iter1024_eq_spec c hc magic rev b s pos add n h0 hroom

theorem iter1024_threshold_irrelevant {w : Nat} (c : Cfg) (hc : Proved c) (m1 m2 : Int) (rev : Bool) (b : Bit1024)
    (s : List (BitVec w)) (pos : Int) (add : BitVec w) (n : Int) (h0 : 0 ≤ pos)
    (hroom : pos.toNat + (expected rev (members1024 b) add n).length ≤ s.length) :
    iter1024 c m1 rev b s pos add n = iter1024 c m2 rev b s pos add n := by
  rw [iter1024_eq_spec c hc m1 rev b s pos add n h0 hroom, iter1024_eq_spec c hc m2 rev b s pos add n h0 hroom]

example : Proved ⟨9, 64, 16⟩ := by decide
example : Proved ⟨-5, 64, 16⟩ := by decide

/-! ### calls that have nothing to write (n ≤ 0, or an empty word) return 0 and touch nothing — for *any* `pos` -/

theorem denseLoop_stop {w : Nat} (add : BitVec w) (n : Int) (l : Nat) (hn : n ≤ 0) :
    ∀ (idxs : List Nat) (st : St w), (∀ i ∈ idxs, i < 64) → st.c = 0 →
      ∃ st', denseLoop add n l idxs st = some st' ∧ st'.s = st.s ∧ st'.c = 0
  | [], st, _, hc => ⟨st, rfl, rfl, hc⟩
  | i :: is, st, hlt, hc => by
    unfold denseLoop
    split
    · have : ((st.c : Int) ≥ n ∨ st.c ≥ l) := Or.inl (by omega)
      exact ⟨st, by simp [this], rfl, hc⟩
    · exact denseLoop_stop add n l hn is st (fun j hj => hlt j (by simp [hj])) hc

theorem sparseLoop_stop {w : Nat} (rev : Bool) (add : BitVec w) (n : Int) (l : Nat) (hn : n ≤ 0) (fuel : Nat) (st : St w)
    (hc : st.c = 0) : ∃ st', sparseLoop rev add n l fuel st = some st' ∧ st'.s = st.s ∧ st'.c = 0 := by
  cases fuel with
  | zero => exact ⟨st, rfl, rfl, hc⟩
  | succ fuel =>
    unfold sparseLoop
    split
    · exact ⟨st, rfl, rfl, hc⟩
    · have : ((st.c : Int) ≥ n ∨ st.c ≥ l) := Or.inl (by omega)
      exact ⟨st, by simp [this], rfl, hc⟩

/-- `n ≤ 0` (negative counts included): every 64-bit iterator returns 0 and leaves the slice alone, whatever `pos` is -/
theorem iter64_no_write {w : Nat} (magic : Int) (rev : Bool) (b : Bit64) (s : List (BitVec w)) (pos : Int)
    (add : BitVec w) (n : Int) (hn : n ≤ 0) : iter64 magic rev b s pos add n = some (s, 0) := by
  unfold iter64
  simp only
  split
  · rfl
  · split
    · obtain ⟨st', h, hs, hc⟩ := denseLoop_stop add n (len64 b) hn (order rev) ⟨s, pos, 0, b⟩ order_lt rfl
      rw [h]; simp [hs, hc]
    · obtain ⟨st', h, hs, hc⟩ := sparseLoop_stop rev add n (len64 b) hn 64 ⟨s, pos, 0, b⟩ rfl
      rw [h]; simp [hs, hc]

/-- an empty word: 0, slice untouched, for any `n` and `pos` -/
theorem iter64_empty {w : Nat} (magic : Int) (rev : Bool) (s : List (BitVec w)) (pos : Int) (add : BitVec w) (n : Int) :
    iter64 magic rev 0#64 s pos add n = some (s, 0) := by
  have : len64 0#64 = 0 := by decide
  simp [iter64, this]

/-- `n ≤ 0`: every 1024-bit iterator returns 0 at once (`iterN >= n` before the first word) -/
theorem iter1024_no_write {w : Nat} (c : Cfg) (magic : Int) (rev : Bool) (b : Bit1024) (s : List (BitVec w)) (pos : Int)
    (add : BitVec w) (n : Int) (hn : n ≤ 0) : iter1024 c magic rev b s pos add n = some (s, 0) := by
  unfold iter1024
  cases wordsOf c rev b with
  | nil => rfl
  | cons p rest =>
    obtain ⟨wd, k⟩ := p
    unfold chain
    have : ((0 : Nat) : Int) ≥ n := by omega
    rw [if_pos this]

/-! ### the outer loop's stop test `iterN >= n` may as well be `iterN > n` (blind mutants of bit1024.go:225/271/294/340) -/

/-- the chaining loop with the weaker stop test `iterN > n` -/
def chainGt {w : Nat} (c : Cfg) (magic : Int) (rev : Bool) (add : BitVec w) (n : Int) :
    List (Bit64 × Nat) → List (BitVec w) → Int → Nat → Option (List (BitVec w) × Nat)
  | [], s, _, iterN => some (s, iterN)
  | (word, k) :: rest, s, cursor, iterN =>
    if (iterN : Int) > n then some (s, iterN)
    else match iter64 magic rev word s cursor (BitVec.ofNat w (c.b64 * k) + add) (n - iterN) with
      | none => none
      | some (s', e) => chainGt c magic rev add n rest s' (cursor + e) (iterN + e)

theorem chain_stop {w : Nat} (c : Cfg) (magic : Int) (rev : Bool) (add : BitVec w) (n : Int)
    (ws : List (Bit64 × Nat)) (s : List (BitVec w)) (cursor : Int) (iterN : Nat) (h : (iterN : Int) ≥ n) :
    chain c magic rev add n ws s cursor iterN = some (s, iterN) := by
  cases ws with
  | nil => rfl
  | cons p rest => obtain ⟨wd, k⟩ := p; simp [chain, h]

/-- when `iterN = n` the weaker test lets the loop go on, but every further word is asked for `n - iterN = 0` values and
    (by `iter64_no_write`) writes nothing and returns 0 — the results are identical for every input -/
theorem chainGt_eq_chain {w : Nat} (c : Cfg) (magic : Int) (rev : Bool) (add : BitVec w) (n : Int) :
    ∀ (ws : List (Bit64 × Nat)) (s : List (BitVec w)) (cursor : Int) (iterN : Nat),
      chainGt c magic rev add n ws s cursor iterN = chain c magic rev add n ws s cursor iterN
  | [], _, _, _ => rfl
  | (wd, k) :: rest, s, cursor, iterN => by
    unfold chainGt
    by_cases hgt : (iterN : Int) > n
    · rw [if_pos hgt, chain_stop c magic rev add n _ s cursor iterN (by omega)]
    · rw [if_neg hgt]
      by_cases heq : (iterN : Int) = n
      · have h0 : n - (iterN : Int) ≤ 0 := by omega
        rw [iter64_no_write magic rev wd s cursor _ _ h0]
        simp only
        rw [chainGt_eq_chain c magic rev add n rest s _ _, chain_stop c magic rev add n rest s _ _ (by omega),
          chain_stop c magic rev add n _ s cursor iterN (by omega)]
        simp
      · have hlt : ¬ (iterN : Int) ≥ n := by omega
        conv => rhs; unfold chain
        rw [if_neg hlt]
        cases iter64 magic rev wd s cursor (BitVec.ofNat w (c.b64 * k) + add) (n - iterN) with
        | none => rfl
        | some r => obtain ⟨s', e⟩ := r; exact chainGt_eq_chain c magic rev add n rest s' _ _

/-! ### remaining named operations -/

/-- `Bit64.Full` -/
theorem full64_spec (b : Bit64) : full b = true ↔ ∀ i, i < 64 → b.getLsbD i = true := by
  unfold full
  constructor
  · intro h i hi
    have : b = ~~~(0#64) := by simpa using h
    rw [this, BitVec.getLsbD_not]; simp [hi]
  · intro h
    have : b = ~~~(0#64) := by
      apply BitVec.eq_of_getLsbD_eq
      intro i hi
      rw [h i hi, BitVec.getLsbD_not]; simp [hi]
    rw [this]; rfl

/-- `Bit64.NLen` / `Bit1024.NLen` as complements of `Len` -/
theorem nlen_eq (b : Bit64) (m : Bit1024) :
    nlen64 b = 64 - (members b).length ∧ nlen1024 m = 1024 - (members1024 m).length := by
  simp [nlen64, nlen1024, len64_eq, len1024_eq]

/-- `Equal` is equality of the member sets -/
theorem equal1024_spec (a b : Bit1024) : equal1024 a b = true ↔ ∀ j, j < 1024 → mem1024 a j = mem1024 b j := by
  rw [equal1024_iff]
  exact ⟨fun h _ _ => by rw [h], ext1024 a b⟩

/-- `OrThenReverse` is the complement of the union, as a bitmap equation -/
theorem orThenReverse_eq (a b : Bit1024) : orThenReverse1024 a b = reverse1024 (or1024 a b) := by
  apply ext1024
  intro j hj
  rw [orThenReverse1024_mem a b j hj, reverse1024_mem _ j hj, or1024_mem]

/-! ### derived laws: the operations form the Boolean algebra of subsets of `[0, 1024)` -/

theorem and_comm1024 (a b : Bit1024) : and1024 a b = and1024 b a :=
  bitmap_ext _ _ fun j _ => by rw [and1024_mem, and1024_mem, Bool.and_comm]

theorem or_comm1024 (a b : Bit1024) : or1024 a b = or1024 b a :=
  bitmap_ext _ _ fun j _ => by rw [or1024_mem, or1024_mem, Bool.or_comm]

theorem and_assoc1024 (a b c : Bit1024) : and1024 (and1024 a b) c = and1024 a (and1024 b c) :=
  bitmap_ext _ _ fun j _ => by simp only [and1024_mem, Bool.and_assoc]

theorem or_assoc1024 (a b c : Bit1024) : or1024 (or1024 a b) c = or1024 a (or1024 b c) :=
  bitmap_ext _ _ fun j _ => by simp only [or1024_mem, Bool.or_assoc]

theorem and_self1024 (a : Bit1024) : and1024 a a = a :=
  bitmap_ext _ _ fun j _ => by rw [and1024_mem, Bool.and_self]

theorem or_self1024 (a : Bit1024) : or1024 a a = a :=
  bitmap_ext _ _ fun j _ => by rw [or1024_mem, Bool.or_self]

/-- absorption -/
theorem and_or_absorb1024 (a b : Bit1024) : and1024 a (or1024 a b) = a :=
  bitmap_ext _ _ fun j _ => by rw [and1024_mem, or1024_mem]; cases mem1024 a j <;> cases mem1024 b j <;> rfl

/-- distributivity -/
theorem and_or_distrib1024 (a b c : Bit1024) : and1024 a (or1024 b c) = or1024 (and1024 a b) (and1024 a c) :=
  bitmap_ext _ _ fun j _ => by
    simp only [and1024_mem, or1024_mem]; cases mem1024 a j <;> cases mem1024 b j <;> cases mem1024 c j <;> rfl

/-- De Morgan: the complement of a union is the intersection of the complements (and `OrThenReverse` is that set) -/
theorem de_morgan1024 (a b : Bit1024) :
    reverse1024 (or1024 a b) = and1024 (reverse1024 a) (reverse1024 b) ∧
    orThenReverse1024 a b = and1024 (reverse1024 a) (reverse1024 b) := by
  have h : reverse1024 (or1024 a b) = and1024 (reverse1024 a) (reverse1024 b) :=
    bitmap_ext _ _ fun j hj => by
      rw [reverse1024_mem _ j hj, or1024_mem, and1024_mem, reverse1024_mem _ j hj, reverse1024_mem _ j hj]
      cases mem1024 a j <;> cases mem1024 b j <;> rfl
  exact ⟨h, by rw [orThenReverse_eq, h]⟩

/-- a set and its complement are disjoint and together everything: `a ∩ ¬a` has no member, `a ∪ ¬a` every index -/
theorem complement_laws1024 (a : Bit1024) (j : Nat) (hj : j < 1024) :
    mem1024 (and1024 a (reverse1024 a)) j = false ∧ mem1024 (or1024 a (reverse1024 a)) j = true := by
  rw [and1024_mem, or1024_mem, reverse1024_mem _ j hj]; cases mem1024 a j <;> exact ⟨rfl, rfl⟩
/-- complement twice, and De Morgan, as corollaries of the membership laws -/
theorem reverse_reverse (a : Bit1024) : reverse1024 (reverse1024 a) = a := by
  apply ext1024
  intro j hj
  rw [reverse1024_mem _ j hj, reverse1024_mem _ j hj]; simp

/-- `GetNAs{I8,I16,I32,I64}` / `RGetNAs…` of `Bit64` and `GetNAs{I16,I32,I64}` of `Bit1024`, every width at once:
    the values are the first `min(n, Len)` members themselves (offset 0), converted to the element type -/
theorem getN_values {w : Nat} (rev : Bool) (ms : List Nat) (n : Int) :
    expected rev ms (0 : BitVec w) n = ((if rev then ms.reverse else ms).take n.toNat).map (BitVec.ofNat w) := by
  unfold expected
  apply List.map_congr_left
  intro i _
  simp

/-! ### GetN: allocate `n` cells, iterate from 0 with `add = 0`, return the written prefix (nil when empty) -/

theorem getNOf_spec {w : Nat} (n : Int) (hn : 0 ≤ n) (out : List (BitVec w))
    (it : List (BitVec w) → Option (List (BitVec w) × Nat))
    (hit : ∀ s, s.length = n.toNat → it s = some (writeAt s 0 out, out.length)) :
    getNOf n it = if out = [] then .nil else .slice out := by
  unfold getNOf
  have : ¬ n < 0 := by omega
  simp only [this, if_false, hit _ (List.length_replicate ..)]
  by_cases ho : out = []
  · simp [ho]
  · have : out.length ≠ 0 := fun h => ho (List.length_eq_zero_iff.1 h)
    simp [this, ho, writeAt]

theorem getN64_spec {w : Nat} (magic : Int) (rev : Bool) (b : Bit64) (n : Int) (hn : 0 ≤ n) :
    getN64 (w := w) magic rev b n =
      if expected rev (members b) (0 : BitVec w) n = [] then .nil else .slice (expected rev (members b) 0 n) := by
  unfold getN64
  apply getNOf_spec n hn
  intro s hs
  have := iter64_eq_spec magic rev b s 0 (0 : BitVec w) n (by omega) (by rw [expected_length, hs]; simp; omega)
  simpa using this

theorem getN1024_spec {w : Nat} (c : Cfg) (hc : Proved c) (magic : Int) (rev : Bool) (b : Bit1024) (n : Int) (hn : 0 ≤ n) :
    getN1024 (w := w) c magic rev b n =
      if expected rev (members1024 b) (0 : BitVec w) n = [] then .nil else .slice (expected rev (members1024 b) 0 n) := by
  unfold getN1024
  apply getNOf_spec n hn
  intro s hs
  have := iter1024_eq_spec c hc magic rev b s 0 (0 : BitVec w) n (by omega) (by rw [expected_length, hs]; simp; omega)
  simpa using this

/-- outside the property: `GetN*` with a negative count panics (in `make`) — exhibited, not hidden -/
theorem getN_negative_panics {w : Nat} (magic : Int) (rev : Bool) (b : Bit64) (n : Int) (hn : n < 0) :
    getN64 (w := w) magic rev b n = .panic := by
  simp [getN64, getNOf, hn]

/-- outside the precondition: without room the iterator panics (index out of range) — `TestBit64_Iter` of the
    baseline hits exactly this with a zero-length slice -/
example : iter64 (w := 64) 9 false 5#64 [] 0 0#64 3 = none := by decide

end Nv.C08
