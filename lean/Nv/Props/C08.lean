import Nv.Model.C08
/-! C08 — property theorems (placeholder during milestone A). -/
namespace Nv.C08

theorem popcount_allOnes : popcount (~~~(0#64)) = 64 := by decide

end Nv.C08
