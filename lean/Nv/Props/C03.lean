import Nv.Proofs.C03ScanTop
import Nv.Proofs.C03Get
import Nv.Proofs.C03Cow8
import Nv.Proofs.C03Ref23
/-!
C03 — property theorems for the B-tree (`ds/tree/btree`) and its locked wrapper (`ds/tree`).
Model: `Nv.Model.C03`; specification: `Nv.Spec.C03` (a strictly sorted item list).
Every statement quantifies over all trees satisfying the structural invariant `Tree.ok` (every
degree ≥ 2, every shape, every item list), all pivots, all callbacks/filters, all limits.
-/
namespace Nv.C03

/-! ### the invariant gives a sorted set -/

theorem bt_inv_sorted (t : Tree) (h : t.ok = true) : Sorted t.inorder := by
  unfold Tree.ok at h
  unfold Tree.inorder
  cases hr : t.root with
  | none => exact List.Pairwise.nil
  | some r =>
    simp only [hr, Bool.and_eq_true] at h
    exact sorted_of_sortedKeys _ h.2.1.2

theorem bt_inv_length (t : Tree) (h : t.ok = true) : t.length = t.inorder.length := by
  unfold Tree.ok at h
  unfold Tree.inorder
  cases hr : t.root with
  | none => simp only [hr, Bool.and_eq_true] at h; simpa using h.2
  | some r => simp only [hr, Bool.and_eq_true] at h; simpa using h.2.2

theorem root_shape (t : Tree) (h : t.ok = true) (r : Node) (hr : t.root = some r) : Shape (height r) r := by
  unfold Tree.ok at h
  simp only [hr, Bool.and_eq_true] at h
  exact shape_of_rootOk _ _ r h.2.1.1

/-! ### scans -/

/-- `iterate` (the state machine shared by all scans), for every tree satisfying the invariant, every
    direction, start pivot (present, absent, below the minimum, above the maximum, or none), stop bound,
    inclusive/exclusive, initial `hit`, and every stateful callback: the callback is run over exactly the
    specified items, in scan order, until it answers `false` or `stop` is reached. -/
theorem bt_scan_spec {σ : Type} (t : Tree) (h : t.ok = true) (d : Dir) (q : Q σ) (hit : Bool) (st : σ) :
    t.iterate d q hit st =
      runCb q.cb ((specScan t.inorder d q.start (effIncl d q.incl hit)).takeWhile (beforeStop d q.stop)) st := by
  unfold Tree.iterate Tree.inorder
  cases hr : t.root with
  | none => cases d <;> cases q.start <;> simp [specScan, runCb]
  | some r =>
    have hso : Sorted r.inorder := by have := bt_inv_sorted t h; simpa [Tree.inorder, hr] using this
    cases d with
    | asc => exact node_iterate_asc q r hit st (root_shape t h r hr) hso
    | desc => exact node_iterate_desc q r hit st (root_shape t h r hr) hso

/-- the four pivot scans, with the argument tuples found in the source: the callback is handed exactly the
    items of the sorted set beyond the pivot, in scan order, up to and including the first it rejects -/
theorem bt_scan_named (c : Cfg) (hc : Proved c) (t : Tree) (h : t.ok = true) (p : Int) (cont : Item → Bool) :
    t.scan c.ascGe (some p) none cont = visited cont (specScan t.inorder .asc (some p) true) ∧
    t.scan c.ascGt (some p) none cont = visited cont (specScan t.inorder .asc (some p) false) ∧
    t.scan c.descLe (some p) none cont = visited cont (specScan t.inorder .desc (some p) true) ∧
    t.scan c.descLt (some p) none cont = visited cont (specScan t.inorder .desc (some p) false) := by
  obtain ⟨h1, h2, h3, h4, _, _, _, _⟩ := hc
  simp [Tree.scan, Tree.scanWith, h1, h2, h3, h4, Arg.eval, bt_scan_spec t h, effIncl, runCb_collect]

/-- the vendored scans without a start pivot / with a stop bound -/
theorem bt_scan_vendored (t : Tree) (h : t.ok = true) (p p2 : Int) (cont : Item → Bool) :
    t.scan argsAscend none none cont = visited cont t.inorder ∧
    t.scan argsDescend none none cont = visited cont t.inorder.reverse ∧
    t.scan argsAscendLessThan (some p) none cont = visited cont (t.inorder.takeWhile (fun x => decide (x.key < p))) ∧
    t.scan argsDescendGreaterThan (some p) none cont =
      visited cont (t.inorder.reverse.takeWhile (fun x => decide (p < x.key))) ∧
    t.scan argsAscendRange (some p) (some p2) cont =
      visited cont ((specScan t.inorder .asc (some p) true).takeWhile (fun x => decide (x.key < p2))) ∧
    t.scan argsDescendRange (some p) (some p2) cont =
      visited cont ((specScan t.inorder .desc (some p) true).takeWhile (fun x => decide (p2 < x.key))) := by
  simp [Tree.scan, Tree.scanWith, argsAscend, argsDescend, argsAscendLessThan, argsDescendGreaterThan,
    argsAscendRange, argsDescendRange, Arg.eval, bt_scan_spec t h, effIncl, runCb_collect, specScan]

/-- `iterWalk` (all four wrapper scans): the result is the first `n` items of the specified scan that pass
    the filter, for EVERY limit `n` (no bound: the configuration must not pre-size by `n`); `n = 0` gives the empty
    result, an empty tree gives the empty result -/
theorem bt_iterwalk_spec (c : Cfg) (hc : Proved c) (t : Tree) (h : t.ok = true) (k : Int) (f : Item → Bool) (n : Nat) :
    wAscendGte c t k f n = .items (((specScan t.inorder .asc (some k) true).filter f).take n) ∧
    wAscendGt c t k f n = .items (((specScan t.inorder .asc (some k) false).filter f).take n) ∧
    wDescendLte c t k f n = .items (((specScan t.inorder .desc (some k) true).filter f).take n) ∧
    wDescendLt c t k f n = .items (((specScan t.inorder .desc (some k) false).filter f).take n) := by
  obtain ⟨h1, h2, h3, h4, h5, _, h7, _⟩ := hc
  cases n with
  | zero => simp [wAscendGte, wAscendGt, wDescendLte, wDescendLt, iterWalk]
  | succ m =>
    have hn0 : ¬ ((m + 1 : Nat) : Int) = 0 := by omega
    have hn1 : ¬ ((m + 1 : Nat) : Int) < 0 := by omega
    simp only [wAscendGte, wAscendGt, wDescendLte, wDescendLt, iterWalk, hn0, hn1, if_false, Tree.scanWith, h7,
      h1, h2, h3, h4, Arg.eval, bt_scan_spec t h, effIncl, Int.toNat_natCast,
      runCb_walk c.limitCmp h5 (m + 1) f _ 0 [] (Nat.zero_le _), List.nil_append, Nat.sub_zero,
      Bool.or_false, Bool.not_false, Bool.and_true, beforeStop_none, takeWhile_true]
    simp

theorem bt_iterwalk_zero_and_empty (c : Cfg) (hc : Proved c) (t : Tree) (a : ScanArgs) (k : Int) (f : Item → Bool)
    (d : Nat) (hd : 2 ≤ d) (n : Nat) :
    iterWalk c t a k f 0 = .items [] ∧ wAscendGte c (Tree.new d) k f n = .items [] ∧
    wAscendGt c (Tree.new d) k f n = .items [] ∧ wDescendLte c (Tree.new d) k f n = .items [] ∧
    wDescendLt c (Tree.new d) k f n = .items [] := by
  have hok : (Tree.new d).ok = true := by simp [Tree.new, Tree.ok, hd]
  have hin : (Tree.new d).inorder = [] := rfl
  obtain ⟨h1, h2, h3, h4⟩ := bt_iterwalk_spec c hc (Tree.new d) hok k f n
  refine ⟨by simp [iterWalk], ?_, ?_, ?_, ?_⟩
  · rw [h1, hin]; simp [specScan]
  · rw [h2, hin]; simp [specScan]
  · rw [h3, hin]; simp [specScan]
  · rw [h4, hin]; simp [specScan]

/-! ### ordered-set equivalence and balance: every write operation -/

/-- `ReplaceOrInsert`: the in-order list becomes the sorted set with `x` stored (replacing an item with the
    same key), the item returned is the one replaced, and the structural invariant (sorted, degree bounds
    of every node, all leaves at one depth, `length` = item count) is kept — for every degree ≥ 2. -/
theorem bt_insert_refines (t : Tree) (x : Item) (h : t.ok = true) :
    (t.replaceOrInsert x).1.inorder = specInsert t.inorder x ∧
    (t.replaceOrInsert x).2 = specFind t.inorder x.key ∧
    (t.replaceOrInsert x).1.ok = true :=
  let r := tree_insert_spec t x h
  ⟨r.1, r.2.1, r.2.2.1⟩

/-- `Delete`: removes exactly the item with the key (if any) and returns it; invariant kept. -/
theorem bt_delete_refines (t : Tree) (k : Int) (h : t.ok = true) :
    (t.deleteItem (.item k)).1.inorder = specDelete t.inorder k ∧
    (t.deleteItem (.item k)).2 = specFind t.inorder k ∧
    (t.deleteItem (.item k)).1.ok = true :=
  let r := tree_delete_spec t (.item k) h
  ⟨r.1, r.2.1, r.2.2.1⟩

/-- `DeleteMin` / `DeleteMax` -/
theorem bt_delete_min_max (t : Tree) (h : t.ok = true) :
    (t.deleteItem .min).1.inorder = t.inorder.drop 1 ∧ (t.deleteItem .min).2 = t.inorder.head? ∧
    (t.deleteItem .min).1.ok = true ∧
    (t.deleteItem .max).1.inorder = t.inorder.dropLast ∧ (t.deleteItem .max).2 = t.inorder.getLast? ∧
    (t.deleteItem .max).1.ok = true :=
  let a := tree_delete_spec t .min h
  let b := tree_delete_spec t .max h
  ⟨a.1, a.2.1, a.2.2.1, b.1, b.2.1, b.2.2.1⟩

theorem specDelete_of_not_found (l : List Item) (k : Int) (h : specFind l k = none) : specDelete l k = l := by
  apply specDelete_none
  intro a ha hk
  simp only [specFind, List.find?_eq_none] at h
  exact h a ha (by simpa using hk)

/-- the wrapper's `Update(old, new)`: only if `old` is present, it is removed and `new` stored -/
theorem bt_update_refines (t : Tree) (old : Int) (new : Item) (h : t.ok = true) :
    (wUpdate t old new).1.inorder =
      (if (specFind t.inorder old).isSome then specInsert (specDelete t.inorder old) new else t.inorder) ∧
    (wUpdate t old new).2 = (specFind t.inorder old).isSome ∧
    (wUpdate t old new).1.ok = true := by
  obtain ⟨d1, d2, d3⟩ := bt_delete_refines t old h
  simp only [wUpdate]
  cases hf : specFind t.inorder old with
  | none =>
    rw [hf] at d2
    simp [d2, d1, d3, specDelete_of_not_found _ _ hf]
  | some y =>
    rw [hf] at d2
    obtain ⟨i1, _, i3⟩ := bt_insert_refines _ new d3
    simp [d2, i1, d1, i3]

/-- the wrapper's `UpdateOrInsert(old, new)`: `old` is removed if present, `new` is always stored -/
theorem bt_update_or_insert_refines (t : Tree) (old : Int) (new : Item) (h : t.ok = true) :
    (wUpdateOrInsert t old new).1.inorder = specInsert (specDelete t.inorder old) new ∧
    (wUpdateOrInsert t old new).2 = (specFind t.inorder old).isSome ∧
    (wUpdateOrInsert t old new).1.ok = true := by
  obtain ⟨d1, d2, d3⟩ := bt_delete_refines t old h
  obtain ⟨i1, _, i3⟩ := bt_insert_refines _ new d3
  simp only [wUpdateOrInsert]
  exact ⟨by rw [i1, d1], by rw [d2], i3⟩

/-- `Get`, `Has` -/
theorem bt_get (t : Tree) (k : Int) (h : t.ok = true) : t.get k = specFind t.inorder k := tree_get_spec t k h

/-- `Min`, `Max` -/
theorem bt_min_max (t : Tree) (h : t.ok = true) : t.min = t.inorder.head? ∧ t.max = t.inorder.getLast? :=
  tree_min_max_spec t h

/-- each key holds the most recently stored item; other keys are unaffected -/
theorem bt_most_recent (t : Tree) (x : Item) (k : Int) (h : t.ok = true) :
    (t.replaceOrInsert x).1.get x.key = some x ∧
    (k ≠ x.key → (t.replaceOrInsert x).1.get k = t.get k) := by
  obtain ⟨i1, _, i3⟩ := bt_insert_refines t x h
  constructor
  · rw [bt_get _ _ i3, i1]; exact specFind_specInsert x _ (bt_inv_sorted t h)
  · intro hk; rw [bt_get _ _ i3, i1, bt_get _ _ h]; exact specFind_specInsert_ne x k hk _

/-- the operations of a history -/
inductive Op
  | insert (x : Item) | delete (k : Int) | deleteMin | deleteMax
  | update (old : Int) (new : Item) | upsert (old : Int) (new : Item) | clear

def applyOp (t : Tree) : Op → Tree
  | .insert x => (t.replaceOrInsert x).1
  | .delete k => (t.deleteItem (.item k)).1
  | .deleteMin => (t.deleteItem .min).1
  | .deleteMax => (t.deleteItem .max).1
  | .update old new => (wUpdate t old new).1
  | .upsert old new => (wUpdateOrInsert t old new).1
  | .clear => t.clear

def specOp (l : List Item) : Op → List Item
  | .insert x => specInsert l x
  | .delete k => specDelete l k
  | .deleteMin => l.drop 1
  | .deleteMax => l.dropLast
  | .update old new => if (specFind l old).isSome then specInsert (specDelete l old) new else l
  | .upsert old new => specInsert (specDelete l old) new
  | .clear => []

theorem clear_ok (t : Tree) (h : t.ok = true) : t.clear.ok = true ∧ t.clear.inorder = [] := by
  unfold Tree.ok at h ⊢
  simp only [Bool.and_eq_true, decide_eq_true_eq] at h
  simp [Tree.clear, Tree.inorder, h.1]

/-- the invariant is preserved by every operation, and the in-order list follows the sorted set -/
theorem bt_inv_preserved (t : Tree) (op : Op) (h : t.ok = true) :
    (applyOp t op).ok = true ∧ (applyOp t op).inorder = specOp t.inorder op := by
  cases op with
  | insert x => exact ⟨(bt_insert_refines t x h).2.2, (bt_insert_refines t x h).1⟩
  | delete k => exact ⟨(bt_delete_refines t k h).2.2, (bt_delete_refines t k h).1⟩
  | deleteMin => exact ⟨(bt_delete_min_max t h).2.2.1, (bt_delete_min_max t h).1⟩
  | deleteMax => exact ⟨(bt_delete_min_max t h).2.2.2.2.2, (bt_delete_min_max t h).2.2.2.1⟩
  | update old new => exact ⟨(bt_update_refines t old new h).2.2, (bt_update_refines t old new h).1⟩
  | upsert old new => exact ⟨(bt_update_or_insert_refines t old new h).2.2, (bt_update_or_insert_refines t old new h).1⟩
  | clear => exact clear_ok t h

theorem new_ok (d : Nat) (hd : 2 ≤ d) : (Tree.new d).ok = true ∧ (Tree.new d).inorder = [] := by
  simp [Tree.new, Tree.ok, Tree.inorder, hd]

/-- after ANY sequence of operations from the empty tree of any degree ≥ 2, the tree satisfies the structural
    invariant and contains exactly what the sorted set contains (so every scan theorem above applies) -/
theorem bt_history (d : Nat) (hd : 2 ≤ d) (ops : List Op) :
    (ops.foldl applyOp (Tree.new d)).ok = true ∧
    (ops.foldl applyOp (Tree.new d)).inorder = ops.foldl specOp [] := by
  have gen : ∀ (ops : List Op) (t : Tree), t.ok = true →
      (ops.foldl applyOp t).ok = true ∧ (ops.foldl applyOp t).inorder = ops.foldl specOp t.inorder := by
    intro ops
    induction ops with
    | nil => intro t h; exact ⟨h, rfl⟩
    | cons op ops ih =>
      intro t h
      have p := bt_inv_preserved t op h
      have := ih _ p.1
      simp only [List.foldl_cons]
      rw [← p.2]; exact this
  have := gen ops (Tree.new d) (new_ok d hd).1
  rw [(new_ok d hd).2] at this
  exact this

/-- the wrapper's tree (degree from the source) starts valid -/
theorem bt_wrapper_new (c : Cfg) (hc : Proved c) : (wNew c).ok = true := (new_ok _ hc.2.2.2.2.2.1).1

/-! ### clone isolation (layer B: node store with owner tags and the shared free list) -/

/-- **Frame theorem**: a write (`ReplaceOrInsert`, `Delete`, `DeleteMin`, `DeleteMax`) through the tree tagged
    `t.cow` changes no store cell that existed before, is not owned by `t.cow`, and is not parked in the free
    list — every mutation is preceded by `mutableFor`, every reused cell comes from the free list. -/
theorem bt_cow_frame (t : Cow.HTree) (op : Cow.WOp) (H : Cow.Heap) (id : Nat) (hid : id < H.size)
    (htag : H.tag id ≠ some t.cow) (hfree : id ∉ H.free) :
    ((Cow.applyW t op) H).2.get id = H.get id := Cow.frame_write t op H id hid htag hfree

/-- (historical name; the full theorem is `bt_clone_isolated` below.) ANY NUMBER of writes by ONE tree, in ANY store,
    leave every reading — at every depth — of a root separated from the writer's tag unchanged: no world invariant
    is assumed here, only `Sep`. -/
theorem bt_clone_isolated_partial (ops : List Cow.WOp) (t : Cow.HTree) (H : Cow.Heap) (r : Nat)
    (hsep : Cow.Sep H t.cow r) (fuel : Nat) :
    Cow.absNode (Cow.runW t H ops).2 fuel r = Cow.absNode H fuel r ∧
    Cow.heightB (Cow.runW t H ops).2 fuel r = Cow.heightB H fuel r :=
  Cow.writes_isolated ops t H r hsep fuel

/-- one write keeps a separated root separated (what makes the theorem above chain) -/
theorem bt_cow_sep_preserved (t : Cow.HTree) (op : Cow.WOp) (H : Cow.Heap) (r : Nat) (hsep : Cow.Sep H t.cow r) :
    Cow.Sep ((Cow.applyW t op) H).2 ((Cow.applyW t op) H).1.1.cow r :=
  (Cow.write_isolated t op H r hsep).2

/-- `Clone` establishes separation in both directions -/
theorem bt_clone_separates (H : Cow.Heap) (t : Cow.HTree) (c1 c2 : Nat) (r : Nat)
    (hfresh : ∀ id, H.tag id ≠ some c1 ∧ H.tag id ≠ some c2)
    (hlive : ∀ id, Cow.Reach H r id → id < H.size ∧ id ∉ H.free) :
    Cow.Sep H (Cow.cloneB t c1 c2).1.cow r ∧ Cow.Sep H (Cow.cloneB t c1 c2).2.cow r :=
  Cow.clone_sep H t c1 c2 r hfresh hlive

/-! ### store → value refinement, and clone isolation with free-list reuse

The store operations (layer B: cells with owner tags, `mutableFor` copies, one free list shared by all clones) compute
exactly what the value-level operations (layer A, the subject of the theorems above) compute on the tree a handle
denotes. The proof rests on one observation: in a well-formed subtree the in-order list is strictly sorted and every
non-root node holds an item, so no cell can occur twice in it and no item-less cell can occur inside it — which
separates the cells an operation rewrites from everything it only reads (`Nv/Proofs/C03Ref1…23.lean`). -/

/-- **Refinement B → A** for one write (`ReplaceOrInsert`, `Delete`/`DeleteMin`/`DeleteMax`, `Clear`) through a handle
    that denotes a valid tree of height `h` in a store whose parked cells hold nothing (`TreeWF`): afterwards the handle
    denotes the result of the layer-A operation, the returned item is the same, and the handle is well-formed again
    (so `bt_insert_refines`, `bt_delete_refines`, `bt_history`, the scan theorems … apply to what the store holds).
    Root copy, root split, `maybeSplitChild`, the three moves of `growChildAndRemove` (with `freeNode` of the merged
    sibling), the root collapse (with `freeNode` of the old root), and reuse of parked cells by `newNode` are covered. -/
theorem bt_store_refines (t : Cow.HTree) (H : Cow.Heap) (h : Nat) (w : Cow.TreeWF t H h) (op : Cow.WOp) :
    ∃ h', ((Cow.applyW t op) H).1.1.absAt ((Cow.applyW t op) H).2 h' = (Cow.applyA (t.absAt H h) op).1 ∧
      ((Cow.applyW t op) H).1.2 = (Cow.applyA (t.absAt H h) op).2 ∧
      Cow.TreeWF ((Cow.applyW t op) H).1.1 ((Cow.applyW t op) H).2 h' :=
  Cow.write_refines t H h w op

/-- the in-order list a handle reads (`HTree.inorder`, which measures the height itself) is the in-order list of the
    tree it denotes -/
theorem bt_store_inorder (t : Cow.HTree) (H : Cow.Heap) (h : Nat) (w : Cow.TreeWF t H h) :
    t.inorder H = (t.absAt H h).inorder := by
  unfold Cow.HTree.inorder Cow.HTree.absAt Tree.inorder
  cases hr : t.root with
  | none => rfl
  | some r =>
    have rw0 := w.rootWF hr
    have : 1 ≤ t.degree - 1 := by have := w.degree; omega
    simp only [Option.map]
    rw [Cow.heightB_eq (t.degree - 1) _ this H h r rw0.kids rw0.sorted rw0.ne rw0.lt]

/-- **The world invariant, free list of ANY capacity**: in every world reached from `New(degree)` by ANY program of
    `Clone`s and writes through ANY handles, every handle denotes a valid tree; every cell it reaches exists, is not
    parked, and carries no other handle's tag; parked cells hold nothing and are pairwise different. (This discharges
    `hlive` of `bt_clone_separates` for histories.) -/
theorem bt_clone_world_invariant (degree cap : Nat) (hd : 2 ≤ degree) (ops : List Cow.POp) :
    (ops.foldl Cow.World.step (Cow.World.init degree cap)).WR := Cow.World.WR.run degree cap hd ops

/-- **Clone isolation, in full** (free list of any capacity — 32 in `btree.New` — shared by all clones; cells freed by
    one handle are reused by others): in ANY world reached by ANY program of clones and writes, a further write through
    handle `i` (1) makes handle `i` denote the layer-A result, and (2) leaves every handle `j ≠ i` itself, and every
    reading of its tree at every depth (hence its in-order list and every scan computed from it), unchanged. -/
theorem bt_clone_isolated (degree cap : Nat) (hd : 2 ≤ degree) (pre : List Cow.POp) (i : Nat) (op : Cow.WOp)
    (t : Cow.HTree) (hi : (pre.foldl Cow.World.step (Cow.World.init degree cap)).hs[i]? = some t) :
    let w := pre.foldl Cow.World.step (Cow.World.init degree cap)
    (∃ hh h', Cow.TreeWF t w.H hh ∧
      (w.step (.write i op)).hs[i]? = some ((Cow.applyW t op) w.H).1.1 ∧
      ((Cow.applyW t op) w.H).1.1.absAt (w.step (.write i op)).H h' = (Cow.applyA (t.absAt w.H hh) op).1 ∧
      ((Cow.applyW t op) w.H).1.2 = (Cow.applyA (t.absAt w.H hh) op).2) ∧
    ∀ (j : Nat) (u : Cow.HTree), j ≠ i → w.hs[j]? = some u →
      (w.step (.write i op)).hs[j]? = some u ∧
      ∀ r, u.root = some r → ∀ fuel,
        Cow.absNode (w.step (.write i op)).H fuel r = Cow.absNode w.H fuel r ∧
        Cow.heightB (w.step (.write i op)).H fuel r = Cow.heightB w.H fuel r :=
  (Cow.World.WR.run degree cap hd pre).write_full i op t hi

/-- … so the in-order list every OTHER handle reads is the same before and after -/
theorem bt_clone_isolated_inorder (degree cap : Nat) (hd : 2 ≤ degree) (pre : List Cow.POp) (i : Nat) (op : Cow.WOp)
    (t : Cow.HTree) (hi : (pre.foldl Cow.World.step (Cow.World.init degree cap)).hs[i]? = some t)
    (j : Nat) (u : Cow.HTree) (hji : j ≠ i) (hj : (pre.foldl Cow.World.step (Cow.World.init degree cap)).hs[j]? = some u) :
    u.inorder ((pre.foldl Cow.World.step (Cow.World.init degree cap)).step (.write i op)).H =
      u.inorder (pre.foldl Cow.World.step (Cow.World.init degree cap)).H := by
  have hw := Cow.World.WR.run degree cap hd pre
  obtain ⟨_, h2⟩ := hw.write_full i op t hi
  obtain ⟨_, h3⟩ := h2 j u hji hj
  generalize pre.foldl Cow.World.step (Cow.World.init degree cap) = w at hw h3 hj hi
  unfold Cow.HTree.inorder
  cases hr : u.root with
  | none => rfl
  | some r =>
    simp only
    obtain ⟨hu, wu⟩ := hw.trees j u hj
    have rw0 := wu.rootWF hr
    have hmn : 1 ≤ u.degree - 1 := by have := wu.degree; omega
    have hsz : w.H.size ≤ (w.step (.write i op)).H.size := by
      simp only [Cow.World.step, hi]
      exact (Cow.Pres.applyW (H0 := w.H) t op rfl w.H (Cow.Inv.init w.H t.cow)).1.size
    rw [(h3 r hr _).2, (h3 r hr _).1,
      Cow.heightB_ge (u.degree - 1) _ hmn w.H hu r rw0.kids rw0.sorted rw0.ne rw0.lt _ hsz,
      Cow.heightB_eq (u.degree - 1) _ hmn w.H hu r rw0.kids rw0.sorted rw0.ne rw0.lt]

/-- a program in which parked cells ARE reused across handles (free list of capacity 4): fill handle 0, clone it,
    write to the clone, clear the clone into the free list (three cells get parked) … -/
def reusePre : List Cow.POp :=
  [1, 2, 3, 4, 5, 6, 7].map (fun k : Int => Cow.POp.write 0 (.insert ⟨k, k.toNat⟩)) ++
    [.clone 0, .write 1 (.insert ⟨8, 8⟩), .write 1 (.clear true)]

/-- … then insert and delete through the original (its path copies come out of the free list), clone again, delete
    through both, insert into the cleared handle -/
def reuseDemo : Cow.World :=
  (reusePre ++ ([.write 0 (.insert ⟨9, 9⟩), .write 0 (.remove (.item 4)), .clone 0, .write 2 (.remove .min),
      .write 0 (.remove .max), .write 1 (.insert ⟨5, 50⟩)] : List Cow.POp)).foldl Cow.World.step (Cow.World.init 2 4)

example : (reusePre.foldl Cow.World.step (Cow.World.init 2 4)).H.free = [4, 6, 5] := by decide +kernel
example : reuseDemo.H.free = [] ∧ reuseDemo.H.nodes.length = 13 := by decide +kernel
example : reuseDemo.hs.map (fun t => (t.inorder reuseDemo.H).map (·.val)) =
    [[1, 2, 3, 5, 6, 7], [50], [2, 3, 5, 6, 7, 9]] := by decide +kernel

/-- (the earlier special case, kept: degree unrestricted, free list of capacity 0, no refinement needed) **Clone isolation
    for arbitrary interleavings**: in ANY world reached from the empty tree by
    ANY program of `Clone`s and writes (insert, delete, delete-min/max, clear) through ANY of the handles — alternating
    writers included — a further write through handle `i` leaves handle `j ≠ i` itself, and every reading of its tree
    (the layer-A node at every depth, hence the in-order list and every scan result computed from it) unchanged. -/
theorem bt_clone_isolated_nofreelist (degree : Nat) (pre : List Cow.POp) (i : Nat) (op : Cow.WOp)
    (j : Nat) (u : Cow.HTree) (r : Nat) (hji : j ≠ i)
    (hj : (pre.foldl Cow.World.step (Cow.World.init degree 0)).hs[j]? = some u) (hr : u.root = some r) :
    ((pre.foldl Cow.World.step (Cow.World.init degree 0)).step (.write i op)).hs[j]? = some u ∧
    ∀ fuel,
      Cow.absNode ((pre.foldl Cow.World.step (Cow.World.init degree 0)).step (.write i op)).H fuel r =
        Cow.absNode (pre.foldl Cow.World.step (Cow.World.init degree 0)).H fuel r ∧
      Cow.heightB ((pre.foldl Cow.World.step (Cow.World.init degree 0)).step (.write i op)).H fuel r =
        Cow.heightB (pre.foldl Cow.World.step (Cow.World.init degree 0)).H fuel r := by
  have hwi := Cow.World.WI.run degree pre
  generalize pre.foldl Cow.World.step (Cow.World.init degree 0) = w at hwi hj ⊢
  cases hi : w.hs[i]? with
  | none =>
    have : w.step (.write i op) = w := by simp only [Cow.World.step, hi]
    rw [this]; exact ⟨hj, fun _ => ⟨rfl, rfl⟩⟩
  | some t =>
    refine ⟨?_, (hwi.write i op t hi).2 j u r hji hj hr⟩
    simp only [Cow.World.step, hi]
    rw [List.getElem?_set_ne (fun e => hji e.symm)]; exact hj

/-- a program with alternating writers (free list of capacity 0): fill handle 0, clone it, then write through the
    clone, the original, the clone again (with a clear in between): each handle reads its own sorted set -/
def altDemo : Cow.World :=
  ([1, 2, 3, 4, 5, 6, 7].map (fun k : Int => Cow.POp.write 0 (.insert ⟨k, k.toNat⟩)) ++
    ([.clone 0, .write 1 (.insert ⟨4, 400⟩), .write 0 (.remove (.item 2)), .write 1 (.remove .min),
     .write 0 (.insert ⟨9, 9⟩), .clone 1, .write 2 (.clear true), .write 1 (.insert ⟨8, 8⟩)] : List Cow.POp)).foldl
    Cow.World.step (Cow.World.init 2 0)

example : altDemo.hs.map (fun t => (t.inorder altDemo.H).map (·.val)) =
    [[1, 3, 4, 5, 6, 7, 9], [2, 3, 400, 5, 6, 7, 8], []] := by decide +kernel

/-- the invariant behind it, for every reachable world (free list of capacity 0): every cell reachable from a handle's
    root exists, is not parked (`hlive` of `bt_clone_separates`), and carries no OTHER handle's current tag -/
theorem bt_clone_world_invariant_nofreelist (degree : Nat) (ops : List Cow.POp) :
    (ops.foldl Cow.World.step (Cow.World.init degree 0)).WI := Cow.World.WI.run degree ops

/-- in every store reached by ANY program of clones and writes (insert, delete, delete-min/max, clear) from the
    empty tree, the two tags the next `Clone` takes are carried by no cell — the `hfresh` hypothesis of
    `bt_clone_separates`. (Its other hypothesis, `hlive` — every cell reachable from a root exists and is not parked in
    the free list — is the `own` clause of `bt_clone_world_invariant`.) -/
theorem bt_clone_tags_fresh (degree cap : Nat) (ops : List Cow.POp) :
    let w := ops.foldl Cow.World.step (Cow.World.init degree cap)
    ∀ id, w.H.tag id ≠ some w.next ∧ w.H.tag id ≠ some (w.next + 1) :=
  Cow.tagsBelow_fresh _ _ (Cow.World.good_run degree cap ops).1

/-- a concrete clone program on the store: build 1..7, clone, write to the clone; the original's cells are
    untouched while the clone owns the copied path -/
def cowDemo : Cow.HTree × Cow.HTree × Cow.Heap :=
  let b0 := [1, 2, 3, 4, 5, 6, 7].foldl (fun (s : Cow.HTree × Cow.Heap) (k : Int) =>
      let r := Cow.replaceOrInsertB s.1 ⟨k, k.toNat⟩ s.2; (r.1.1, r.2)) (⟨2, none, 0, 0⟩, Cow.Heap.init 32)
  let c := Cow.cloneB b0.1 1 2
  let w := Cow.replaceOrInsertB c.2 ⟨4, 400⟩ b0.2
  let w2 := Cow.deleteItemB w.1.1 (.item 1) w.2
  (c.1, w2.1.1, w2.2)

example : (cowDemo.1.inorder cowDemo.2.2).map (·.val) = [1, 2, 3, 4, 5, 6, 7] := by decide +kernel
example : (cowDemo.2.1.inorder cowDemo.2.2).map (·.val) = [2, 3, 400, 5, 6, 7] := by decide +kernel
/-- non-vacuity of `Sep`: in the store of `cowDemo` (reached by inserts, a clone, an insert and a delete through the
    clone) the original's root is separated from the clone's tag and the clone's root from the original's tag -/
example : Cow.Sep cowDemo.2.2 cowDemo.2.1.cow (cowDemo.1.root.getD 0) :=
  Cow.sep_of_test _ _ 4 _ (by decide +kernel)
example : Cow.Sep cowDemo.2.2 cowDemo.1.cow (cowDemo.2.1.root.getD 0) :=
  Cow.sep_of_test _ _ 4 _ (by decide +kernel)
/-- … and `Clear` through the clone (a write that parks the clone's own cells) leaves the original readable -/
example : (cowDemo.1.inorder ((Cow.clearB cowDemo.2.1 true) cowDemo.2.2).2).map (·.val) = [1, 2, 3, 4, 5, 6, 7] := by
  decide +kernel
example : cowDemo.1.owned cowDemo.2.2 = (0, 4) ∧ (cowDemo.2.1.owned cowDemo.2.2).1 > 0 := by decide +kernel

/-! ### non-vacuity, and witnesses that `Proved` is tight -/

/-- the configuration found on today's tree -/
def cfgToday : Cfg := ⟨⟨.asc, .pivot, .nil, true, false⟩, ⟨.asc, .pivot, .nil, false, false⟩,
    ⟨.desc, .pivot, .nil, true, false⟩, ⟨.desc, .pivot, .nil, false, false⟩, .ge, 2, .capped, .direct⟩

example : Proved cfgToday := by decide
example : Proved { cfgToday with limitCmp := .eq, wrapperDegree := 3 } := by decide

/-- a two-level tree of degree 2: keys 1 2 5 6 7 9 10 -/
def sampleTree : Tree :=
  ⟨2, some (.mk [⟨2, 2⟩, ⟨6, 6⟩] [.mk [⟨1, 1⟩] [], .mk [⟨5, 5⟩] [], .mk [⟨7, 7⟩, ⟨9, 9⟩, ⟨10, 10⟩] []]), 7⟩

/-- … which is what the model's own insert builds from the empty tree -/
example : let t := [1, 2, 5, 6, 7, 9, 10].foldl (fun t k => (t.replaceOrInsert ⟨k, k.toNat⟩).1) (Tree.new 2)
    t.inorder = sampleTree.inorder ∧ t.root.map Node.items = sampleTree.root.map Node.items ∧ t.length = 7 := by
  decide +kernel
example : sampleTree.ok = true := by decide +kernel
example : (sampleTree.scan cfgToday.ascGt (some 5) none (fun _ => true)).map (·.key) = [6, 7, 9, 10] := by decide +kernel
example : (sampleTree.scan cfgToday.descLt (some 8) none (fun i => decide (i.key ≠ 5))).map (·.key) = [7, 6, 5] := by
  decide +kernel
example : wDescendLte cfgToday sampleTree 9 (fun i => i.key % 3 != 0) 2 = .items [⟨7, 7⟩, ⟨5, 5⟩] := by decide +kernel

/-- if `AscendGreater` passed `includeStart = true`, the exclusive scan would return the pivot -/
theorem witness_ascGt_inclusive :
    (sampleTree.scan ⟨.asc, .pivot, .nil, true, false⟩ (some 5) none (fun _ => true)).map (·.key) = [5, 6, 7, 9, 10] := by
  decide +kernel

/-- if `DescendLess` passed `hit = true` … nothing changes descending (the pivot is still skipped); but an
    ascending exclusive scan started with `hit = true` returns the pivot -/
theorem witness_ascGt_hit :
    (sampleTree.scan ⟨.asc, .pivot, .nil, false, true⟩ (some 5) none (fun _ => true)).map (·.key) = [5, 6, 7, 9, 10] := by
  decide +kernel

/-- `iterWalk` with `c > n` would return `n + 1` items -/
theorem witness_limit_gt :
    wAscendGte { cfgToday with limitCmp := .gt } sampleTree 0 (fun _ => true) 2 = .items [⟨1, 1⟩, ⟨2, 2⟩, ⟨5, 5⟩] := by
  decide +kernel

/-- with the eager `make([]Node, 0, n)` the scan of a five-item tree faults for the limit `MaxInt64` (the obvious
    "no limit" idiom): the property's "any limit n" is false of that configuration -/
theorem witness_eager_prealloc_faults :
    wAscendGte { cfgToday with prealloc := .eager } sampleTree 0 (fun _ => true) 9223372036854775807 = .fault := by
  decide +kernel

/-- … and is at the mercy of the machine's memory from 2^24 cells on -/
theorem witness_eager_prealloc_memory :
    wAscendGte { cfgToday with prealloc := .eager } sampleTree 6 (fun _ => true) (2 ^ 40) =
      .itemsOrFault [⟨6, 6⟩, ⟨7, 7⟩, ⟨9, 9⟩, ⟨10, 10⟩] := by
  decide +kernel

theorem not_proved_eager_prealloc : ¬ Proved { cfgToday with prealloc := .eager } := by decide

/-- the capped pre-sizing gives the specified result for the same limit -/
example : wAscendGte cfgToday sampleTree 6 (fun _ => true) 9223372036854775807 =
    .items [⟨6, 6⟩, ⟨7, 7⟩, ⟨9, 9⟩, ⟨10, 10⟩] := by decide +kernel

/-! ### the package's own item type: `btree.Int` -/

/-- `Int.Less` as written (for every `Proved` configuration) is the order of the integers the keys denote — so a tree of
    `btree.Int` items is an instance of the model with `key := a.toInt`, for all 2^64 keys, the extremes included -/
theorem bt_int_less_is_order (c : Cfg) (hc : Proved c) (a b : BitVec 64) :
    intLessK c.intLess a b = decide (a.toInt < b.toInt) := by
  have h : c.intLess = .direct := hc.2.2.2.2.2.2.2
  rw [h]; simp [intLessK, BitVec.slt]

/-- the subtraction idiom is not that order: `MinInt64 - 1` wraps to `MaxInt64` -/
theorem witness_int_less_subtract :
    intLessK .subtract (BitVec.intMin 64) 1#64 = false ∧ (BitVec.intMin 64).toInt < (1#64).toInt := by decide

theorem not_proved_int_less_subtract : ¬ Proved { cfgToday with intLess := .subtract } := by decide

theorem not_proved_limit_gt : ¬ Proved { cfgToday with limitCmp := .gt } := by decide
theorem not_proved_ascGt_inclusive : ¬ Proved { cfgToday with ascGt := ⟨.asc, .pivot, .nil, true, false⟩ } := by decide

end Nv.C03
