import Nv.Proofs.C03ScanTop
/-!
C03 — property theorems for the B-tree (`ds/tree/btree`) and its locked wrapper (`ds/tree`).
Model: `Nv.Model.C03`; specification: `Nv.Spec.C03` (a strictly sorted item list).
Every statement quantifies over all trees satisfying the structural invariant `Tree.ok` (every
degree ≥ 2, every shape, every item list), all pivots, all callbacks/filters, all limits.
-/
namespace Nv.C03

/-! ### the invariant gives a sorted set -/

theorem bt_inv_sorted (t : Tree) (h : t.ok = true) : Sorted t.inorder := by
  unfold Tree.ok at h
  unfold Tree.inorder
  cases hr : t.root with
  | none => exact List.Pairwise.nil
  | some r =>
    simp only [hr, Bool.and_eq_true] at h
    exact sorted_of_sortedKeys _ h.2.1.2

theorem bt_inv_length (t : Tree) (h : t.ok = true) : t.length = t.inorder.length := by
  unfold Tree.ok at h
  unfold Tree.inorder
  cases hr : t.root with
  | none => simp only [hr, Bool.and_eq_true] at h; simpa using h.2
  | some r => simp only [hr, Bool.and_eq_true] at h; simpa using h.2.2

theorem root_shape (t : Tree) (h : t.ok = true) (r : Node) (hr : t.root = some r) : Shape (height r) r := by
  unfold Tree.ok at h
  simp only [hr, Bool.and_eq_true] at h
  exact shape_of_rootOk _ _ r h.2.1.1

/-! ### scans -/

/-- `iterate` (the state machine shared by all scans), for every tree satisfying the invariant, every
    direction, start pivot (present, absent, below the minimum, above the maximum, or none), stop bound,
    inclusive/exclusive, initial `hit`, and every stateful callback: the callback is run over exactly the
    specified items, in scan order, until it answers `false` or `stop` is reached. -/
theorem bt_scan_spec {σ : Type} (t : Tree) (h : t.ok = true) (d : Dir) (q : Q σ) (hit : Bool) (st : σ) :
    t.iterate d q hit st =
      runCb q.cb ((specScan t.inorder d q.start (effIncl d q.incl hit)).takeWhile (beforeStop d q.stop)) st := by
  unfold Tree.iterate Tree.inorder
  cases hr : t.root with
  | none => cases d <;> cases q.start <;> simp [specScan, runCb]
  | some r =>
    have hso : Sorted r.inorder := by have := bt_inv_sorted t h; simpa [Tree.inorder, hr] using this
    cases d with
    | asc => exact node_iterate_asc q r hit st (root_shape t h r hr) hso
    | desc => exact node_iterate_desc q r hit st (root_shape t h r hr) hso

/-- the four pivot scans, with the argument tuples found in the source: the callback is handed exactly the
    items of the sorted set beyond the pivot, in scan order, up to and including the first it rejects -/
theorem bt_scan_named (c : Cfg) (hc : Proved c) (t : Tree) (h : t.ok = true) (p : Int) (cont : Item → Bool) :
    t.scan c.ascGe (some p) none cont = visited cont (specScan t.inorder .asc (some p) true) ∧
    t.scan c.ascGt (some p) none cont = visited cont (specScan t.inorder .asc (some p) false) ∧
    t.scan c.descLe (some p) none cont = visited cont (specScan t.inorder .desc (some p) true) ∧
    t.scan c.descLt (some p) none cont = visited cont (specScan t.inorder .desc (some p) false) := by
  obtain ⟨h1, h2, h3, h4, _, _⟩ := hc
  simp [Tree.scan, Tree.scanWith, h1, h2, h3, h4, Arg.eval, bt_scan_spec t h, effIncl, runCb_collect]

/-- the vendored scans without a start pivot / with a stop bound -/
theorem bt_scan_vendored (t : Tree) (h : t.ok = true) (p p2 : Int) (cont : Item → Bool) :
    t.scan argsAscend none none cont = visited cont t.inorder ∧
    t.scan argsDescend none none cont = visited cont t.inorder.reverse ∧
    t.scan argsAscendLessThan (some p) none cont = visited cont (t.inorder.takeWhile (fun x => decide (x.key < p))) ∧
    t.scan argsDescendGreaterThan (some p) none cont =
      visited cont (t.inorder.reverse.takeWhile (fun x => decide (p < x.key))) ∧
    t.scan argsAscendRange (some p) (some p2) cont =
      visited cont ((specScan t.inorder .asc (some p) true).takeWhile (fun x => decide (x.key < p2))) ∧
    t.scan argsDescendRange (some p) (some p2) cont =
      visited cont ((specScan t.inorder .desc (some p) true).takeWhile (fun x => decide (p2 < x.key))) := by
  simp [Tree.scan, Tree.scanWith, argsAscend, argsDescend, argsAscendLessThan, argsDescendGreaterThan,
    argsAscendRange, argsDescendRange, Arg.eval, bt_scan_spec t h, effIncl, runCb_collect, specScan]

/-- `iterWalk` (all four wrapper scans): the result is the first `n` items of the specified scan that pass
    the filter; `n = 0` gives the empty result, an empty tree gives the empty result -/
theorem bt_iterwalk_spec (c : Cfg) (hc : Proved c) (t : Tree) (h : t.ok = true) (k : Int) (f : Item → Bool) (n : Nat) :
    wAscendGte c t k f n = .items (((specScan t.inorder .asc (some k) true).filter f).take n) ∧
    wAscendGt c t k f n = .items (((specScan t.inorder .asc (some k) false).filter f).take n) ∧
    wDescendLte c t k f n = .items (((specScan t.inorder .desc (some k) true).filter f).take n) ∧
    wDescendLt c t k f n = .items (((specScan t.inorder .desc (some k) false).filter f).take n) := by
  obtain ⟨h1, h2, h3, h4, h5, _⟩ := hc
  cases n with
  | zero => simp [wAscendGte, wAscendGt, wDescendLte, wDescendLt, iterWalk]
  | succ m =>
    have hn0 : ¬ ((m + 1 : Nat) : Int) = 0 := by omega
    have hn1 : ¬ ((m + 1 : Nat) : Int) < 0 := by omega
    simp only [wAscendGte, wAscendGt, wDescendLte, wDescendLt, iterWalk, hn0, hn1, if_false, Tree.scanWith,
      h1, h2, h3, h4, Arg.eval, bt_scan_spec t h, effIncl, Int.toNat_natCast,
      runCb_walk c.limitCmp h5 (m + 1) f _ 0 [] (Nat.zero_le _), List.nil_append, Nat.sub_zero,
      Bool.or_false, Bool.not_false, Bool.and_true, beforeStop_none, takeWhile_true]
    simp

theorem bt_iterwalk_zero_and_empty (c : Cfg) (t : Tree) (a : ScanArgs) (k : Int) (f : Item → Bool) :
    iterWalk c t a k f 0 = .items [] := by simp [iterWalk]

/-! ### non-vacuity, and witnesses that `Proved` is tight -/

/-- the configuration found on today's tree -/
def cfgToday : Cfg := ⟨⟨.asc, .pivot, .nil, true, false⟩, ⟨.asc, .pivot, .nil, false, false⟩,
    ⟨.desc, .pivot, .nil, true, false⟩, ⟨.desc, .pivot, .nil, false, false⟩, .ge, 2⟩

example : Proved cfgToday := by decide
example : Proved { cfgToday with limitCmp := .eq, wrapperDegree := 3 } := by decide

/-- a two-level tree of degree 2: keys 1 2 5 6 7 9 10 -/
def sampleTree : Tree :=
  ⟨2, some (.mk [⟨2, 2⟩, ⟨6, 6⟩] [.mk [⟨1, 1⟩] [], .mk [⟨5, 5⟩] [], .mk [⟨7, 7⟩, ⟨9, 9⟩, ⟨10, 10⟩] []]), 7⟩

/-- … which is what the model's own insert builds from the empty tree -/
example : let t := [1, 2, 5, 6, 7, 9, 10].foldl (fun t k => (t.replaceOrInsert ⟨k, k.toNat⟩).1) (Tree.new 2)
    t.inorder = sampleTree.inorder ∧ t.root.map Node.items = sampleTree.root.map Node.items ∧ t.length = 7 := by
  decide +kernel
example : sampleTree.ok = true := by decide +kernel
example : (sampleTree.scan cfgToday.ascGt (some 5) none (fun _ => true)).map (·.key) = [6, 7, 9, 10] := by decide +kernel
example : (sampleTree.scan cfgToday.descLt (some 8) none (fun i => decide (i.key ≠ 5))).map (·.key) = [7, 6, 5] := by
  decide +kernel
example : wDescendLte cfgToday sampleTree 9 (fun i => i.key % 3 != 0) 2 = .items [⟨7, 7⟩, ⟨5, 5⟩] := by decide +kernel

/-- if `AscendGreater` passed `includeStart = true`, the exclusive scan would return the pivot -/
theorem witness_ascGt_inclusive :
    (sampleTree.scan ⟨.asc, .pivot, .nil, true, false⟩ (some 5) none (fun _ => true)).map (·.key) = [5, 6, 7, 9, 10] := by
  decide +kernel

/-- if `DescendLess` passed `hit = true` … nothing changes descending (the pivot is still skipped); but an
    ascending exclusive scan started with `hit = true` returns the pivot -/
theorem witness_ascGt_hit :
    (sampleTree.scan ⟨.asc, .pivot, .nil, false, true⟩ (some 5) none (fun _ => true)).map (·.key) = [5, 6, 7, 9, 10] := by
  decide +kernel

/-- `iterWalk` with `c > n` would return `n + 1` items -/
theorem witness_limit_gt :
    wAscendGte { cfgToday with limitCmp := .gt } sampleTree 0 (fun _ => true) 2 = .items [⟨1, 1⟩, ⟨2, 2⟩, ⟨5, 5⟩] := by
  decide +kernel

theorem not_proved_limit_gt : ¬ Proved { cfgToday with limitCmp := .gt } := by decide
theorem not_proved_ascGt_inclusive : ¬ Proved { cfgToday with ascGt := ⟨.asc, .pivot, .nil, true, false⟩ } := by decide

end Nv.C03
