import Nv.Model.C03
/-! C03 — property theorems (under construction). -/
namespace Nv.C03

example : Proved ⟨⟨.asc, .pivot, .nil, true, false⟩, ⟨.asc, .pivot, .nil, false, false⟩,
    ⟨.desc, .pivot, .nil, true, false⟩, ⟨.desc, .pivot, .nil, false, false⟩, .ge, 2⟩ := by decide

end Nv.C03
