import Nv.AuditCmd
import Nv.Props.C01
#audit_module Nv.Props.C01
