import Nv.AuditCmd
import Nv.Props.C18
#audit_module Nv.Props.C18
