/-!
Line-protocol driver shared by all oracle executables: one operation per input line,
exactly one canonical result line per operation. Unknown lines must be answered `bad-op`
by the step function (never defaulted).
-/
namespace Nv

def stripNL (s : String) : String :=
  String.ofList (s.toList.reverse.dropWhile (fun c => c == '\n' || c == '\r')).reverse

partial def oracleLoop {σ} (step : σ → String → σ × String) (hin hout : IO.FS.Stream) (s : σ) : IO Unit := do
  let line ← hin.getLine
  if line.isEmpty then return ()
  let l := stripNL line
  let (s', out) := step s l
  hout.putStrLn out
  oracleLoop step hin hout s'

def oracleMain {σ} (step : σ → String → σ × String) (init : σ) : IO Unit := do
  let hin ← IO.getStdin
  let hout ← IO.getStdout
  oracleLoop step hin hout init
  hout.flush

/-- split on single blanks, dropping empty fields -/
def words (s : String) : List String := (s.splitOn " ").filter (· ≠ "")

def parseInt? (s : String) : Option Int := s.toInt?
def parseNat? (s : String) : Option Nat := s.toNat?

def showList {α} (f : α → String) (l : List α) : String := "[" ++ ",".intercalate (l.map f) ++ "]"

end Nv
