/-!
Shared foundations: deterministic machines run over operation lists, and labelled
transition systems with the invariant-induction principle used by all concurrent models.
Core Lean only (no Mathlib), so that oracle executables importing models link.
-/
namespace Nv

/-- run a deterministic machine over an op list, collecting outputs -/
def runOps {σ ι ο} (step : σ → ι → σ × ο) : σ → List ι → σ × List ο
  | s, [] => (s, [])
  | s, i :: is =>
    let r := step s i
    let rs := runOps step r.1 is
    (rs.1, r.2 :: rs.2)

def outs {σ ι ο} (step : σ → ι → σ × ο) (s : σ) (is : List ι) : List ο := (runOps step s is).2
def final {σ ι ο} (step : σ → ι → σ × ο) (s : σ) (is : List ι) : σ := (runOps step s is).1

@[simp] theorem final_nil {σ ι ο} (step : σ → ι → σ × ο) (s : σ) : final step s [] = s := rfl
@[simp] theorem final_cons {σ ι ο} (step : σ → ι → σ × ο) (s : σ) (i : ι) (is : List ι) :
    final step s (i :: is) = final step (step s i).1 is := rfl
@[simp] theorem outs_nil {σ ι ο} (step : σ → ι → σ × ο) (s : σ) : outs step s [] = [] := rfl
@[simp] theorem outs_cons {σ ι ο} (step : σ → ι → σ × ο) (s : σ) (i : ι) (is : List ι) :
    outs step s (i :: is) = (step s i).2 :: outs step (step s i).1 is := rfl

theorem final_append {σ ι ο} (step : σ → ι → σ × ο) (s : σ) (as bs : List ι) :
    final step s (as ++ bs) = final step (final step s as) bs := by
  induction as generalizing s with
  | nil => rfl
  | cons a as ih => simp [ih]

theorem outs_append {σ ι ο} (step : σ → ι → σ × ο) (s : σ) (as bs : List ι) :
    outs step s (as ++ bs) = outs step s as ++ outs step (final step s as) bs := by
  induction as generalizing s with
  | nil => rfl
  | cons a as ih => simp [ih]

/-- an invariant preserved by every step holds after every op sequence -/
theorem final_inv {σ ι ο} (step : σ → ι → σ × ο) (Inv : σ → Prop) (Ok : ι → Prop)
    (hstep : ∀ s i, Inv s → Ok i → Inv (step s i).1) :
    ∀ (is : List ι) (s : σ), Inv s → (∀ i ∈ is, Ok i) → Inv (final step s is)
  | [], _, h, _ => h
  | i :: is, s, h, hok =>
    final_inv step Inv Ok hstep is _ (hstep s i h (hok i (by simp))) (fun j hj => hok j (by simp [hj]))

/-- Labelled transition system; `step s a = none` means `a` is not enabled in `s`. -/
structure LTS (σ α : Type) where
  init : σ
  step : σ → α → Option σ

inductive LTS.Reach {σ α} (m : LTS σ α) : σ → Prop
  | init : m.Reach m.init
  | step {s a s'} : m.Reach s → m.step s a = some s' → m.Reach s'

/-- invariant induction over all reachable states -/
theorem LTS.inv_of_step {σ α} (m : LTS σ α) (Inv : σ → Prop) (h0 : Inv m.init)
    (hs : ∀ s a s', Inv s → m.step s a = some s' → Inv s') : ∀ s, m.Reach s → Inv s := by
  intro s hr
  induction hr with
  | init => exact h0
  | step _ hstep ih => exact hs _ _ _ ih hstep

/-- run a list of actions; `none` if some action is not enabled -/
def LTS.run {σ α} (m : LTS σ α) : σ → List α → Option σ
  | s, [] => some s
  | s, a :: as => match m.step s a with
    | none => none
    | some s' => m.run s' as

theorem LTS.reach_of_run {σ α} (m : LTS σ α) : ∀ (as : List α) (s s' : σ),
    m.Reach s → m.run s as = some s' → m.Reach s'
  | [], s, s', hr, h => by simp [LTS.run] at h; subst h; exact hr
  | a :: as, s, s', hr, h => by
    simp only [LTS.run] at h
    split at h
    · cases h
    · rename_i s1 hs1
      exact LTS.reach_of_run m as s1 s' (LTS.Reach.step hr hs1) h

end Nv
