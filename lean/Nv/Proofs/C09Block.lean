import Nv.Model.C09
import Nv.Props.C08
/-! C09 — block constructors and single-block iteration (BigU32, U32BitTip). Core only. -/
namespace Nv.C09
open Nv.C08

/-- arithmetic of `NewBigU32FromI64`/`SetI64` for all 2^64 arguments -/
theorem selI64_spec (v : BitVec 64) :
    (0 ≤ v.toInt ∧ v.toInt < 4398046510080 →
      (selI64 v).1 = true ∧ (selI64 v).2.1.toNat = v.toInt.toNat / 1024 ∧
      (selI64 v).2.2.toInt = ((v.toInt.toNat % 1024 : Nat) : Int)) ∧
    (¬(0 ≤ v.toInt ∧ v.toInt < 4398046510080) → (selI64 v).1 = false) := by
  have h1k : (1024#64 : BitVec 64).toInt = 1024 := by decide
  have h0 : (0#64 : BitVec 64).toInt = 0 := by decide
  have hmax : (4398046510080#64 : BitVec 64).toInt = 4398046510080 := by decide
  have hdiv : (BitVec.sdiv v 1024#64).toInt = v.toInt.tdiv 1024 := by
    rw [BitVec.toInt_sdiv_of_ne_or_ne _ _ (Or.inr (by decide)), h1k]
  have hmod : (BitVec.srem v 1024#64).toInt = v.toInt.tmod 1024 := by rw [BitVec.toInt_srem, h1k]
  have c1 := BitVec.toInt_eq_toNat_cond (BitVec.sdiv v 1024#64)
  have c2 := BitVec.toInt_eq_toNat_cond (BitVec.srem v 1024#64)
  have l1 := (BitVec.sdiv v 1024#64).isLt
  have l2 := (BitVec.srem v 1024#64).isLt
  unfold selI64
  simp only [BitVec.sle_eq_decide, BitVec.slt_eq_decide, h0, hmax]
  constructor
  · intro ⟨ha, hb⟩
    have e1 := (tdiv_pos_lit v.toInt 1024 (by omega)).1 ha
    have e2 := (tmod_pos_lit v.toInt 1024 (by omega)).1 ha
    have hg : (decide (v.toInt < 0) || decide (4398046510080 ≤ v.toInt)) = false := by
      simp only [Bool.or_eq_false_iff, decide_eq_false_iff_not]; omega
    simp only [hg, Bool.false_eq_true, if_false, BitVec.toNat_setWidth, true_and]
    rw [hdiv, e1] at c1
    rw [hmod, e2] at c2
    constructor
    · split at c1 <;> omega
    · have c3 := BitVec.toInt_eq_toNat_cond (BitVec.setWidth 16 (BitVec.srem v 1024#64))
      rw [BitVec.toNat_setWidth] at c3
      split at c2 <;> split at c3 <;> omega
  · intro hn
    have hg : (decide (v.toInt < 0) || decide (4398046510080 ≤ v.toInt)) = true := by
      simp only [Bool.or_eq_true, decide_eq_true_eq]; omega
    simp [hg]

/-- arithmetic of `NewU32BitTipFromU32`/`SetU32` for all 2^32 arguments -/
theorem selU32_spec (u : BitVec 32) :
    (selU32 u).1.toNat = u.toNat / 1024 ∧ (selU32 u).2.toInt = ((u.toNat % 1024 : Nat) : Int) := by
  have l := u.isLt
  unfold selU32
  simp only
  constructor
  · simp [BitVec.toNat_udiv]
  · have c3 := BitVec.toInt_eq_toNat_cond (BitVec.setWidth 16 (BitVec.umod u 1024#32))
    have hu : (BitVec.umod u 1024#32).toNat = u.toNat % 1024 := by
      show (u % 1024#32).toNat = _
      rw [BitVec.toNat_umod]; rfl
    rw [BitVec.toNat_setWidth, hu] at c3
    split at c3 <;> omega

theorem filter_range_eq (n m : Nat) (h : m < n) : (List.range n).filter (fun j => decide (j = m)) = [m] := by
  induction n with
  | zero => omega
  | succ n ih =>
    rw [List.range_succ, List.filter_append]
    by_cases e : m = n
    · subst e
      have : (List.range m).filter (fun j => decide (j = m)) = [] := by
        apply List.filter_eq_nil_iff.2
        intro a ha; have := List.mem_range.1 ha; simp; omega
      simp [this]
    · rw [ih (by omega)]
      have : ¬ n = m := fun h => e h.symm
      simp [this]

/-- a fresh bitmap after `SetI16(m)` with `0 ≤ m < 1024` has exactly the member `m` -/
theorem members_single (m : BitVec 16) (k : Nat) (hk : k < 1024) (hm : m.toInt = (k : Int)) :
    members1024 (setI16 empty1024 m) = [k] := by
  unfold members1024
  rw [← filter_range_eq 1024 k hk]
  apply List.filter_congr
  intro j _
  rw [setI16_mem, mem_empty1024]
  simp only [Bool.false_or]
  apply decide_eq_decide.2
  omega
where
  mem_empty1024 (j : Nat) : mem1024 empty1024 j = false := by
    unfold mem1024 empty1024
    split <;> simp

/-- `GetN` through any iterator that meets the C08 specification with block base `add` -/
theorem getN_of_iter {w : Nat} (c : Nv.C08.Cfg) (hc : Nv.C08.Proved c) (magic : Int) (rev : Bool) (bits : Bit1024)
    (add : BitVec w) (n : Int) (hn : 0 ≤ n) :
    getNOf n (fun s => iter1024 c magic rev bits s 0 add n) =
      if expected rev (members1024 bits) add n = [] then .nil else .slice (expected rev (members1024 bits) add n) := by
  apply getNOf_spec n hn
  intro s hs
  have := iter1024_eq_spec c hc magic rev bits s 0 add n (by omega) (by rw [expected_length, hs]; simp; omega)
  simpa using this

theorem expected_single {w : Nat} (rev : Bool) (k : Nat) (add : BitVec w) (n : Int) (hn : 1 ≤ n) :
    expected rev [k] add n = [BitVec.ofNat w k + add] := by
  have : n.toNat = (n.toNat - 1) + 1 := by omega
  unfold expected
  rw [this]
  cases rev <;> simp

end Nv.C09
