import Nv.Proofs.C11IO
/-! C11 — one step of any operation of the compared interface preserves the simulation. -/
namespace Nv.C11
open Spec

def isUnread : Op → Bool
  | .unreadByte | .unreadRune => true
  | _ => false

/-- taint: set by `Grow`, kept by pure observers (and ReWrite), cleared by everything that (re)assigns `lastRead` -/
def taintAfter (t : Bool) : Op → Bool
  | .grow _ => true
  | .len | .bytes | .string | .cap | .off | .rewrite _ _ => t
  | _ => false

/-- operations of the interface shared with `bytes.Buffer`. A scripted reader hands over at most `MinRead` bytes per call
    (or is greedy): then what it delivers does not depend on the size `cap-len` of the slice it is offered. A reader whose
    output depends on that size observes the capacity policy, which is outside the contract in the same way as `Cap()`. -/
def Common (c : Cfg) : Op → Prop
  | .cap | .off | .rewrite _ _ => False
  | .readFrom r => (∀ k ∈ r.sizes, k ≤ c.minRead) ∧ r.tail ≤ c.minRead
  | _ => True

instance (c : Cfg) : DecidablePred (Common c) := fun op => by
  cases op <;> unfold Common <;> exact inferInstance

/-- the operation itself asks for more than can ever be allocated -/
def opTooLarge : Op → Prop
  | .grow n => 0 ≤ n ∧ n.toNat > allocLimit
  | _ => False

instance : DecidablePred opTooLarge := fun op => by
  cases op <;> unfold opTooLarge <;> exact inferInstance

theorem sim_step {c : Cfg} (hc : Proved c) {t : Bool} {i : St} {s : SSt} (R : Rel t i s) (op : Op)
    (hcom : Common c op) (hun : ¬ (t = true ∧ isUnread op = true))
    (hmem : (step c i op).2 = .panic .tooLarge → opTooLarge op) :
    StepOk (taintAfter t op) (step c i op) (Spec.step s op) := by
  have hs := hc.2.2.2
  cases op with
  | write p => exact sim_write hs R p (fun h => hmem h)
  | writeString p => exact sim_write hs R p (fun h => hmem h)
  | writeByte b => exact sim_writeByte hs R b (fun h => hmem h)
  | writeRune r => exact sim_writeRune hc R r (fun h => hmem h)
  | read k => exact sim_read R k
  | readByte => exact sim_readByte R
  | readRune => exact sim_readRune R
  | unreadByte =>
    have ht : t = false := by cases t <;> simp_all [isUnread]
    subst ht; exact sim_unreadByte R
  | unreadRune =>
    have ht : t = false := by cases t <;> simp_all [isUnread]
    subst ht; exact sim_unreadRune R
  | next n => exact sim_next R n
  | truncate n => exact sim_truncate R n
  | reset => exact sim_reset R
  | grow n => exact sim_grow hs R n (fun h => hmem h)
  | readFrom r => exact sim_readFrom hs hc.2.2.1 R r hcom.1 hcom.2 (fun h => hmem h)
  | writeTo w => exact sim_writeTo R w
  | len =>
    refine ⟨?_, R⟩
    simp only [step, Spec.step, R.data, List.length_drop]
  | bytes => exact ⟨by simp only [step, Spec.step, St.data, R.data], R⟩
  | string => exact ⟨by simp only [step, Spec.step, St.data, R.data], R⟩
  | cap => exact absurd hcom (by simp [Common])
  | off => exact absurd hcom (by simp [Common])
  | rewrite pos p => exact absurd hcom (by simp [Common])

end Nv.C11
