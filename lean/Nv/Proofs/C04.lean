import Nv.Spec.C04
/-!
C04 — helper lemmas: list arithmetic, the eviction loop against the ideal trim, the invariant,
and the one-step simulation between the implementation-shaped model and the ideal LRU.
-/
namespace Nv.C04

/-! ### generic simulation over op lists -/

theorem sim_outs {σ τ ι ο} (f : σ → ι → σ × ο) (g : τ → ι → τ × ο) (R : σ → τ → Prop) (Ok : ι → Prop)
    (h : ∀ s t i, R s t → Ok i → R (f s i).1 (g t i).1 ∧ (f s i).2 = (g t i).2) :
    ∀ (is : List ι) (s : σ) (t : τ), R s t → (∀ i ∈ is, Ok i) →
      outs f s is = outs g t is ∧ R (final f s is) (final g t is)
  | [], _, _, hr, _ => ⟨rfl, hr⟩
  | i :: is, s, t, hr, hok => by
    have h1 := h s t i hr (hok i (by simp))
    have h2 := sim_outs f g R Ok h is _ _ h1.1 (fun j hj => hok j (by simp [hj]))
    simp only [outs_cons, final_cons]
    exact ⟨by rw [h1.2, h2.1], h2.2⟩

/-! ### int64 wrap-around is the identity inside the int64 range -/

theorem wrap64_id (x : Int) (h1 : -(2 ^ 63) ≤ x) (h2 : x < 2 ^ 63) : wrap64 x = x := by
  unfold wrap64
  apply Int.bmod_eq_of_le <;> omega

/-! ### totals -/

@[simp] theorem total_nil : total [] = 0 := rfl
@[simp] theorem total_cons (e : Entry) (l : List Entry) : total (e :: l) = e.size + total l := by
  simp [total]
theorem total_append (a b : List Entry) : total (a ++ b) = total a + total b := by
  induction a with
  | nil => simp
  | cons e a ih => simp [ih]; omega
theorem total_reverse (l : List Entry) : total l.reverse = total l := by
  induction l with
  | nil => rfl
  | cons e l ih => simp [total_append, ih]; omega

theorem total_nonneg (l : List Entry) (h : ∀ e ∈ l, 0 ≤ e.size) : 0 ≤ total l := by
  induction l with
  | nil => simp
  | cons e l ih =>
    have := h e (by simp)
    have := ih (fun x hx => h x (by simp [hx]))
    simp; omega

theorem total_unit (l : List Entry) (h : ∀ e ∈ l, e.size = 1) : total l = l.length := by
  induction l with
  | nil => simp
  | cons e l ih =>
    have := h e (by simp)
    have := ih (fun x hx => h x (by simp [hx]))
    simp; omega

theorem nodup_reverse {α} (l : List α) : l.reverse.Nodup ↔ l.Nodup := by
  simp only [List.Nodup, List.pairwise_reverse]
  constructor <;> intro h <;> exact h.imp (fun hab => Ne.symm hab)

/-! ### lookup and removal -/

theorem find_some {k : Nat} {l : List Entry} {e : Entry} (h : find? k l = some e) : e ∈ l ∧ e.key = k := by
  induction l with
  | nil => simp [find?] at h
  | cons x l ih =>
    simp only [find?] at h
    split at h
    · cases h; simp [*]
    · have := ih h; simp [this]

theorem find_none {k : Nat} {l : List Entry} (h : find? k l = none) : ∀ e ∈ l, e.key ≠ k := by
  induction l with
  | nil => simp
  | cons x l ih =>
    simp only [find?] at h
    split at h
    · cases h
    · intro e he
      simp at he
      rcases he with rfl | he
      · assumption
      · exact ih h e he

theorem mem_removeKey {k : Nat} {l : List Entry} {e : Entry} (h : e ∈ removeKey k l) : e ∈ l := by
  induction l with
  | nil => simp [removeKey] at h
  | cons x l ih =>
    simp only [removeKey] at h
    split at h
    · simp [h]
    · simp at h
      rcases h with rfl | h
      · simp
      · simp [ih h]

theorem removeKey_of_none {k : Nat} {l : List Entry} (h : find? k l = none) : removeKey k l = l := by
  induction l with
  | nil => rfl
  | cons x l ih =>
    simp only [find?] at h
    split at h
    · cases h
    · simp [removeKey, *]

theorem total_removeKey {k : Nat} {l : List Entry} {e : Entry} (h : find? k l = some e) :
    total (removeKey k l) = total l - e.size := by
  induction l with
  | nil => simp [find?] at h
  | cons x l ih =>
    simp only [find?] at h
    split at h
    · cases h; simp [removeKey, *]; omega
    · simp [removeKey, *, ih h]; omega

theorem length_removeKey {k : Nat} {l : List Entry} {e : Entry} (h : find? k l = some e) :
    (removeKey k l).length + 1 = l.length := by
  induction l with
  | nil => simp [find?] at h
  | cons x l ih =>
    simp only [find?] at h
    split at h
    · simp [removeKey, *]
    · simp [removeKey, *, ih h]

theorem find_removeKey_self (k : Nat) (l : List Entry) (hnd : (l.map (·.key)).Nodup) : find? k (removeKey k l) = none := by
  induction l with
  | nil => rfl
  | cons x l ih =>
    simp only [List.map_cons, List.nodup_cons] at hnd
    simp only [removeKey]
    split
    · rename_i hx
      -- k does not occur in l
      cases hf : find? k l with
      | none => rfl
      | some e =>
        have := find_some hf
        exact absurd (List.mem_map.2 ⟨e, this.1, by rw [this.2, hx]⟩) hnd.1
    · simp [find?, *, ih hnd.2]

theorem nodup_removeKey (k : Nat) (l : List Entry) (hnd : (l.map (·.key)).Nodup) :
    ((removeKey k l).map (·.key)).Nodup := by
  induction l with
  | nil => simp [removeKey]
  | cons x l ih =>
    simp only [List.map_cons, List.nodup_cons] at hnd
    simp only [removeKey]
    split
    · exact hnd.2
    · simp only [List.map_cons, List.nodup_cons]
      refine ⟨?_, ih hnd.2⟩
      intro hm
      obtain ⟨e, he, hk⟩ := List.mem_map.1 hm
      exact hnd.1 (List.mem_map.2 ⟨e, mem_removeKey he, hk⟩)

theorem key_not_mem_removeKey (k : Nat) (l : List Entry) (hnd : (l.map (·.key)).Nodup) :
    k ∉ (removeKey k l).map (·.key) := by
  intro hm
  obtain ⟨e, he, hk⟩ := List.mem_map.1 hm
  have hnone := find_removeKey_self k l hnd
  exact find_none hnone e he hk

/-! ### the ideal trim -/

theorem trimCold_split (cap : Int) (l : List Entry) : (trimCold cap l).2 ++ (trimCold cap l).1 = l := by
  induction l with
  | nil => rfl
  | cons e l ih =>
    simp only [trimCold]
    split
    · simp [ih]
    · simp

theorem trimCold_fits (cap : Int) (hcap : 0 ≤ cap) (l : List Entry) : total (trimCold cap l).1 ≤ cap := by
  induction l with
  | nil => simpa [trimCold] using hcap
  | cons e l ih =>
    simp only [trimCold]
    split
    · exact ih
    · rename_i h; simp only []; omega

theorem trimCold_id (cap : Int) (l : List Entry) (h : total l ≤ cap) : trimCold cap l = (l, []) := by
  cases l with
  | nil => rfl
  | cons e l =>
    simp only [trimCold]
    split
    · omega
    · rfl

/-- maximality: an evicted entry was evicted because it and everything more recent did not fit -/
theorem trimCold_maximal (cap : Int) (l : List Entry) (hnn : ∀ e ∈ l, 0 ≤ e.size) :
    ∀ pre e, (trimCold cap l).2 = pre ++ [e] → total (e :: (trimCold cap l).1) > cap := by
  induction l with
  | nil => intro pre e h; simp [trimCold] at h
  | cons x l ih =>
    intro pre e h
    simp only [trimCold] at h ⊢
    split at h
    · rename_i hgt
      split
      · simp only [] at h ⊢
        cases hp : (trimCold cap l).2 with
        | nil =>
          -- x is the last evicted: everything after it is kept
          rw [hp] at h
          have hx : x = e := by
            cases pre with
            | nil => simpa using h
            | cons p ps => simp at h
          have hk := trimCold_split cap l
          rw [hp] at hk
          simp at hk
          subst hx
          rw [hk]; exact hgt
        | cons y ys =>
          rw [hp] at h
          cases pre with
          | nil => simp at h
          | cons p ps =>
            simp only [List.cons_append, List.cons.injEq] at h
            exact ih (fun a ha => hnn a (by simp [ha])) ps e (by rw [hp]; exact h.2)
      · rename_i hng; exact absurd hgt hng
    · simp at h

/-! ### the eviction loop equals the ideal trim once `size` is the true total -/

theorem evictLoop_eq_trim (cap : Int) (hcap : 0 ≤ cap) (dec : Entry → Int) (l : List Entry)
    (hdec : ∀ e ∈ l, dec e = e.size) (hnn : ∀ e ∈ l, 0 ≤ e.size) (hb : total l < 2 ^ 63) :
    evictLoop .gt cap dec l (total l) =
      ⟨(trimCold cap l).1, total (trimCold cap l).1, (trimCold cap l).2, false⟩ := by
  induction l with
  | nil =>
    have : ¬ (0 > cap) := by omega
    simp [evictLoop, trimCold, over, this]
  | cons e l ih =>
    have he := hdec e (by simp)
    have hen := hnn e (by simp)
    have hln := total_nonneg l (fun x hx => hnn x (by simp [hx]))
    have hb' : e.size + total l < 2 ^ 63 := by simpa using hb
    have ih' := ih (fun x hx => hdec x (by simp [hx])) (fun x hx => hnn x (by simp [hx])) (by omega)
    simp only [evictLoop, trimCold, over]
    by_cases h : total (e :: l) > cap
    · have h' : e.size + total l > cap := by simpa using h
      simp only [h, decide_true, if_true]
      have : wrap64 (total (e :: l) - dec e) = total l := by
        have : total (e :: l) - dec e = total l := by simp [he]; omega
        rw [this]; exact wrap64_id _ (by omega) (by omega)
      rw [this, ih']
    · have h' : ¬ (cap < e.size + total l) := by simpa using h
      simp [h']

/-! ### the invariant -/

structure Inv (kd : Kind) (s : Lru) : Prop where
  size_eq : s.size = total s.list
  nonneg : ∀ e ∈ s.list, 0 ≤ e.size
  fits : total s.list ≤ s.capacity
  cap_nonneg : 0 ≤ s.capacity
  unit : kd = .tiny → ∀ e ∈ s.list, e.size = 1
  nodup : (s.list.map (·.key)).Nodup
  cap_lt : s.capacity < 2 ^ 62

/-- what holds between an update of list/size and the capacity check -/
structure Pre (kd : Kind) (s : Lru) : Prop where
  size_eq : s.size = total s.list
  nonneg : ∀ e ∈ s.list, 0 ≤ e.size
  cap_nonneg : 0 ≤ s.capacity
  unit : kd = .tiny → ∀ e ∈ s.list, e.size = 1
  nodup : (s.list.map (·.key)).Nodup
  cap_lt : s.capacity < 2 ^ 62
  bound : total s.list < 2 ^ 63

def abs (s : Lru) : Ideal := ⟨s.list, s.capacity, s.evictions⟩

theorem dec_eq {kd : Kind} {l : List Entry} (hu : kd = .tiny → ∀ e ∈ l, e.size = 1) :
    ∀ e ∈ l, decOf kd e = e.size := by
  intro e he
  cases kd with
  | sized => rfl
  | tiny => simp [decOf, hu rfl e he]

theorem sublist_of_split {l k ev : List Entry} (h : ev ++ k = l) : ∀ e ∈ k, e ∈ l := by
  intro e he; rw [← h]; simp [he]

theorem nodup_of_suffix {l k ev : List Entry} (h : ev ++ k = l) (hnd : (l.map (·.key)).Nodup) :
    (k.map (·.key)).Nodup := by
  rw [← h, List.map_append] at hnd
  exact (List.nodup_append.1 hnd).2.1

theorem checkCapacity_spec {c : Cfg} {kd : Kind} {s : Lru} (hc : c.evictWhile = .gt) (hp : Pre kd s) :
    let t := trimCold s.capacity s.list.reverse
    checkCapacity c kd s =
      (⟨t.1.reverse, total t.1, s.capacity, s.evictions + t.2.length⟩, t.2.map (·.val), false) := by
  have hd : ∀ e ∈ s.list.reverse, decOf kd e = e.size := by
    intro e he; exact dec_eq hp.unit e (by simpa using he)
  simp only [checkCapacity, hc, hp.size_eq]
  rw [← total_reverse s.list, evictLoop_eq_trim s.capacity hp.cap_nonneg (decOf kd) s.list.reverse hd
    (by simpa using hp.nonneg) (by rw [total_reverse]; exact hp.bound)]

theorem checkCapacity_inv {c : Cfg} {kd : Kind} {s : Lru} (hc : c.evictWhile = .gt) (hp : Pre kd s) :
    Inv kd (checkCapacity c kd s).1 ∧ abs (checkCapacity c kd s).1 = (Ideal.fit (abs s)).1 ∧
      (checkCapacity c kd s).2.1 = (Ideal.fit (abs s)).2.map (·.val) ∧ (checkCapacity c kd s).2.2 = false := by
  have hs := checkCapacity_spec hc hp
  simp only [] at hs
  rw [hs]
  have hsplit := trimCold_split s.capacity s.list.reverse
  have hsub : ∀ e ∈ (trimCold s.capacity s.list.reverse).1, e ∈ s.list := by
    intro e he; have := sublist_of_split hsplit e he; simpa using this
  refine ⟨⟨?_, ?_, ?_, hp.cap_nonneg, ?_, ?_, hp.cap_lt⟩, ?_, ?_, rfl⟩
  · simp [total_reverse]
  · intro e he; exact hp.nonneg e (hsub e (by simpa using he))
  · simpa [total_reverse] using trimCold_fits s.capacity hp.cap_nonneg s.list.reverse
  · intro hk e he; exact hp.unit hk e (hsub e (by simpa using he))
  · have hnd : ((s.list.reverse).map (·.key)).Nodup := by
      rw [List.map_reverse]; exact (nodup_reverse _).2 hp.nodup
    have := nodup_of_suffix hsplit hnd
    simp only [List.map_reverse]
    exact (nodup_reverse _).2 this
  · simp [abs, Ideal.fit]
  · simp [abs, Ideal.fit]

theorem Inv.toPre {kd : Kind} {s : Lru} (h : Inv kd s) : Pre kd s :=
  ⟨h.size_eq, h.nonneg, h.cap_nonneg, h.unit, h.nodup, h.cap_lt, by have := h.fits; have := h.cap_lt; omega⟩

/-- an invariant state needs no eviction -/
theorem checkCapacity_noop {c : Cfg} {kd : Kind} {s : Lru} (hc : c.evictWhile = .gt) (hi : Inv kd s) :
    checkCapacity c kd s = (s, [], false) := by
  have hs := checkCapacity_spec hc hi.toPre
  simp only [] at hs
  rw [hs, trimCold_id s.capacity s.list.reverse (by rw [total_reverse]; exact hi.fits)]
  simp only [List.reverse_reverse, total_reverse, List.length_nil, Int.natCast_zero, Int.add_zero, List.map_nil]
  have := hi.size_eq
  cases s; simp_all

theorem fit_noop {s : Ideal} (h : total s.entries ≤ s.capacity) : Ideal.fit s = (s, []) := by
  simp [Ideal.fit, trimCold_id s.capacity s.entries.reverse (by rw [total_reverse]; exact h)]

theorem szOf_nonneg (kd : Kind) (sz : Int) (h : 0 ≤ sz) : 0 ≤ szOf kd sz := by
  cases kd <;> simp [szOf, h]

theorem szOf_lt (kd : Kind) (sz : Int) (h : sz < 2 ^ 62) : szOf kd sz < 2 ^ 62 := by
  cases kd
  · exact h
  · simp only [szOf]; omega

/-- pushing a fresh or replaced entry to the front keeps `Pre` -/
theorem pre_push {kd : Kind} {s : Lru} (hi : Inv kd s) (k v : Nat) (sz : Int) (hsz : 0 ≤ sz)
    (hunit : kd = .tiny → sz = 1) (rest : List Entry) (hrest : ∀ e ∈ rest, e ∈ s.list)
    (hk : k ∉ rest.map (·.key)) (hnd : (rest.map (·.key)).Nodup) (size' : Int)
    (hsize : size' = sz + total rest) (hbound : sz + total rest < 2 ^ 63) :
    Pre kd { s with list := ⟨k, v, sz⟩ :: rest, size := size' } := by
  refine ⟨by simp [hsize], ?_, hi.cap_nonneg, ?_, ?_, hi.cap_lt, by simpa using hbound⟩
  · intro e he; simp at he
    rcases he with rfl | he
    · exact hsz
    · exact hi.nonneg e (hrest e he)
  · intro ht e he; simp at he
    rcases he with rfl | he
    · exact hunit ht
    · exact hi.unit ht e (hrest e he)
  · simp only [List.map_cons, List.nodup_cons]; exact ⟨hk, hnd⟩

theorem key_not_mem_of_none {k : Nat} {l : List Entry} (h : find? k l = none) : k ∉ l.map (·.key) := by
  intro hm
  obtain ⟨e, he, hk⟩ := List.mem_map.1 hm
  exact find_none h e he hk

end Nv.C04
