import Nv.Proofs.C03Ref21

/-! C03 refinement, part 22 (delete path): `deleteItem` on the store computes what `Tree.deleteItem` computes on the
denoted tree (root copy and root collapse included). -/

namespace Nv.C03.Cow
open Nv.C03

/-- the root collapse at the end of `deleteItem` -/
def collapseM (cow r : Nat) (nd : HNode) : M Nat :=
  match nd.items, nd.children with
  | [], c :: _ => do
    freeNode cow r
    pure c
  | _, _ => pure r

/-- … as a function of the store -/
def collapseB (cow r : Nat) (H2 : Heap) : Nat × Heap :=
  match (H2.get r).items, (H2.get r).children with
  | [], c :: _ => (c, ((Cow.freeNode cow r) H2).2)
  | _, _ => (r, H2)

theorem collapseM_eq (cow r : Nat) (H2 : Heap) : (collapseM cow r (H2.get r)) H2 = collapseB cow r H2 := by
  unfold collapseM collapseB
  cases (H2.get r).items <;> cases (H2.get r).children <;> rfl

def delOut (t : HTree) (r0 : Nat) (typ : Rm) (H : Heap) : Option Item × Heap :=
  (Cow.removeB t.cow t.minItems (heightB ((Cow.mutableFor t.cow r0) H).2 ((Cow.mutableFor t.cow r0) H).2.size
    ((Cow.mutableFor t.cow r0) H).1) ((Cow.mutableFor t.cow r0) H).1 typ) ((Cow.mutableFor t.cow r0) H).2

theorem deleteItemB_some (t : HTree) (r0 : Nat) (typ : Rm) (H : Heap) (hr : t.root = some r0)
    (hne : (H.get r0).items.isEmpty = false) :
    (deleteItemB t typ) H =
      (({ t with root := some (collapseB t.cow ((Cow.mutableFor t.cow r0) H).1 (delOut t r0 typ H).2).1,
                 length := if (delOut t r0 typ H).1.isSome then t.length - 1 else t.length },
        (delOut t r0 typ H).1), (collapseB t.cow ((Cow.mutableFor t.cow r0) H).1 (delOut t r0 typ H).2).2) := by
  rw [← collapseM_eq]
  unfold deleteItemB delOut
  rw [hr]
  show ((Cow.rd r0) >>= _) H = _
  rw [run_bind, run_rd]
  simp only [hne, Bool.false_eq_true, if_false]
  rfl

theorem deleteItemB_empty (t : HTree) (r0 : Nat) (typ : Rm) (H : Heap) (hr : t.root = some r0)
    (he : (H.get r0).items.isEmpty = true) : (deleteItemB t typ) H = ((t, none), H) := by
  unfold deleteItemB
  rw [hr]
  show ((Cow.rd r0) >>= _) H = _
  rw [run_bind, run_rd]
  simp only [he, if_true]
  rfl

theorem deleteItemB_none (t : HTree) (typ : Rm) (H : Heap) (hr : t.root = none) : (deleteItemB t typ) H = ((t, none), H) := by
  unfold deleteItemB
  rw [hr]
  rfl

theorem specRemove_sorted (l : List Item) (typ : Rm) (hs : Sorted l) : Sorted (specRemove l typ).1 := by
  cases typ with
  | item k => exact sorted_of_sublist List.filter_sublist hs
  | min => exact sorted_of_sublist (List.drop_sublist 1 _) hs
  | max => exact sorted_of_sublist (List.dropLast_sublist _) hs

/-- `mutableFor` on the root of a handle -/
theorem rootMutable (mn cow : Nat) (hmn : 1 ≤ mn) (H : Heap) (h r0 : Nat) (w : RootWF mn H h r0) :
    let r1 := (Cow.mutableFor cow r0) H
    Sub mn cow r1.2 h r1.1 ∧ absNode r1.2 h r1.1 = absNode H h r0 ∧ (r1.2.get r1.1).items = (H.get r0).items ∧
    H.size ≤ r1.2.size ∧ Frame H r1.2 (InSub H h r0) ∧
    (∀ y, InSub r1.2 h r1.1 y → InSub H h r0 y ∨ H.get y = HNode.empty) ∧
    (∀ y, y = r1.1 → InSub H h r0 y ∨ H.get y = HNode.empty) := by
  obtain ⟨m1, m2, m3, m4, m5, m6, m7, m8, _, m10⟩ := mutableFor_spec cow r0 H w.wf
  obtain ⟨a1, a2⟩ := mutableFor_abs mn (2 * mn + 1) cow hmn H h r0 w.wf w.kids
  generalize (Cow.mutableFor cow r0) H = r1 at m1 m2 m3 m4 m5 m6 m7 m8 m10 a1 a2
  obtain ⟨r, H1⟩ := r1
  simp only at m1 m2 m3 m4 m5 m6 m7 m8 m10 a1 a2 ⊢
  have hr_in : ∀ y, y = r → InSub H h r0 y ∨ H.get y = HNode.empty := by
    intro y e
    rcases m5 with e2 | e2
    · exact Or.inl (by rw [e, e2]; exact InSub.self H h r0)
    · exact Or.inr (by rw [e, e2])
  refine ⟨⟨by rw [a1]; exact w.kids, by rw [a1]; exact w.sorted, m1, m7, by rw [m2]; exact w.ne⟩, a1, m2, m6,
    m10.mono (fun _ e => e.elim), ?_, hr_in⟩
  intro y hy
  rcases a2 y hy with e | e
  · exact hr_in y e
  · exact Or.inl e

theorem collapse_of_items (is : List Item) (cs : List Node) (h : is ≠ [] ∨ cs = []) : collapse (.mk is cs) = .mk is cs := by
  cases is with
  | cons a l => cases cs <;> rfl
  | nil =>
    rcases h with h | h
    · exact absurd rfl h
    · subst h; rfl

theorem deleteItemB_refines (t : HTree) (H : Heap) (typ : Rm) (h : Nat) (w : TreeWF t H h) :
    ∃ h', ((deleteItemB t typ) H).1.1.absAt ((deleteItemB t typ) H).2 h' = ((t.absAt H h).deleteItem typ).1 ∧
      ((deleteItemB t typ) H).1.2 = ((t.absAt H h).deleteItem typ).2 ∧
      TreeWF ((deleteItemB t typ) H).1.1 ((deleteItemB t typ) H).2 h' ∧
      ((deleteItemB t typ) H).1.1.cow = t.cow ∧
      H.size ≤ ((deleteItemB t typ) H).2.size ∧
      Frame H ((deleteItemB t typ) H).2 (fun y => ∃ r, t.root = some r ∧ InSub H h r y) ∧
      (∀ r', ((deleteItemB t typ) H).1.1.root = some r' →
        ∀ y, InSub ((deleteItemB t typ) H).2 h' r' y → (∃ r, t.root = some r ∧ InSub H h r y) ∨ H.get y = HNode.empty) := by
  have hd := w.degree
  have hvok : ((t.absAt H h).deleteItem typ).1.ok = true := (tree_delete_spec (t.absAt H h) typ w.ok).2.2.1
  cases hr : t.root with
  | none =>
    rw [deleteItemB_none t typ H hr]
    have hval : (t.absAt H h).deleteItem typ = (t.absAt H h, none) := by
      simp [Tree.deleteItem, HTree.absAt, hr]
    rw [hval]
    exact ⟨h, rfl, rfl, w, rfl, Nat.le_refl _, Frame.refl _ _, fun r' e => by rw [hr] at e; cases e⟩
  | some r0 =>
    by_cases hemp : (H.get r0).items.isEmpty = true
    · rw [deleteItemB_empty t r0 typ H hr hemp]
      have hval : (t.absAt H h).deleteItem typ = (t.absAt H h, none) := by
        have e2 : (t.absAt H h).root = some (absNode H h r0) := by simp [HTree.absAt, hr]
        unfold Tree.deleteItem
        rw [e2]
        simp only [abs_items, hemp, if_true]
      rw [hval]
      refine ⟨h, rfl, rfl, w, rfl, Nat.le_refl _, Frame.refl _ _, ?_⟩
      intro r' e y hy
      rw [hr] at e
      simp only [Option.some.injEq] at e
      subst e
      exact Or.inl ⟨r0, rfl, hy⟩
    · have hemp' : (H.get r0).items.isEmpty = false := by simpa using hemp
      have hmn : 1 ≤ t.degree - 1 := by omega
      have rw0 := w.rootWF hr
      have h1 : 1 ≤ (H.get r0).items.length := by
        cases hi : (H.get r0).items with
        | nil => rw [hi] at hemp; simp at hemp
        | cons _ _ => simp
      rw [deleteItemB_some t r0 typ H hr hemp']
      unfold delOut
      obtain ⟨p1, p2, p3, p4, p5, p6, p7⟩ := rootMutable (t.degree - 1) t.cow hmn H h r0 rw0
      generalize (Cow.mutableFor t.cow r0) H = r1 at p1 p2 p3 p4 p5 p6 p7
      obtain ⟨r, H1⟩ := r1
      simp only at p1 p2 p3 p4 p5 p6 p7 ⊢
      have hfuel : heightB H1 H1.size r = h :=
        heightB_eq (t.degree - 1) (2 * (t.degree - 1) + 1) hmn _ h _ p1.kids p1.sorted p1.nonempty p1.lt
      have hminI : t.minItems = t.degree - 1 := rfl
      rw [hfuel, hminI]
      have o := removeB_refines (t.degree - 1) t.cow hmn h r H1 typ p1 (by rw [p3]; exact h1)
      have P := removeH_spec (t.degree - 1) hmn h (absNode H h r0) typ rw0.kids rw0.sorted (by rw [abs_items]; exact h1)
      -- the value side
      have hval : (t.absAt H h).deleteItem typ =
          (⟨t.degree, some (collapse (removeH (t.degree - 1) h (absNode H h r0) typ).1),
              if (removeH (t.degree - 1) h (absNode H h r0) typ).2.isSome then t.length - 1 else t.length⟩,
            (removeH (t.degree - 1) h (absNode H h r0) typ).2) := by
        have e2 : (t.absAt H h).root = some (absNode H h r0) := by simp [HTree.absAt, hr]
        have e3 : (t.absAt H h).minItems = t.degree - 1 := rfl
        unfold Tree.deleteItem
        rw [e2]
        simp only [abs_items, hemp', Bool.false_eq_true, if_false, e3, (w.height r0 hr).1]
        rfl
      rw [hval] at hvok ⊢
      generalize (Cow.removeB t.cow (t.degree - 1) h r typ) H1 = out at o
      obtain ⟨ret, H2⟩ := out
      have oabs := o.abs
      have oret := o.ret
      simp only at oabs oret ⊢
      rw [p2] at oabs oret
      have hF2 : Frame H H2 (InSub H h r0) := Frame.trans p5 o.frame p6
      have hsub2 : ∀ y, InSub H2 h r y → InSub H h r0 y ∨ H.get y = HNode.empty := by
        intro y hy
        rcases o.subs y hy with e | e
        · exact p6 y e
        · exact frame_empty p5 y e
      have hsorted2 : Sorted (absNode H2 h r).inorder := by
        rw [oabs, P.inorder]; exact specRemove_sorted _ typ rw0.sorted
      unfold collapseB
      split
      · -- the root lost its last item: its only child becomes the root, the old root cell is freed
        rename_i c rest hit hch
        cases h with
        | zero =>
          have := P.kids; rw [← oabs] at this
          have hleaf : (H2.get r).children = [] := by simpa [KidsOk, absNode] using this
          rw [hleaf] at hch; cases hch
        | succ f =>
          have hI2 : Inner (t.degree - 1) t.cow H2 f r :=
            ⟨by rw [oabs]; exact P.kids, hsorted2, o.own, o.wf⟩
          have hcm : c ∈ (H2.get r).children := by rw [hch]; simp
          have hcok := (nodeOk_iff _ _ _ _).1 (hI2.childOk hcm)
          obtain ⟨f1, f2⟩ := freeNode_get t.cow r H2
          have w3 := PW.freeNode t.cow r H2 o.wf
          generalize ((Cow.freeNode t.cow r) H2).2 = H3 at f1 f2 w3
          have hall : ∀ x, InSub H2 f c x → H3.get x = H2.get x :=
            fun x hx => f1 x (fun e => hI2.notInChild hmn hcm (e ▸ hx))
          have hc3 : absNode H3 f c = absNode H2 f c := abs_agree H2 H3 f c hall
          have hin3 := inSub_agree H2 H3 f c hall
          have hcoll : collapse (removeH (t.degree - 1) (f + 1) (absNode H (f + 1) r0) typ).1 = absNode H3 f c := by
            rw [← oabs, abs_succ, hit, hch, hc3]
            rfl
          have hcne : H3.get c ≠ HNode.empty := by
            rw [hall c (InSub.self H2 f c)]
            intro e; have := hcok.1; rw [abs_items, e] at this; simp [HNode.empty] at this; omega
          have habsT : HTree.absAt (HTree.mk t.degree (some c) (if ret.isSome then t.length - 1 else t.length) t.cow) H3 f =
              ⟨t.degree, some (collapse (removeH (t.degree - 1) (f + 1) (absNode H (f + 1) r0) typ).1),
                if (removeH (t.degree - 1) (f + 1) (absNode H (f + 1) r0) typ).2.isSome then t.length - 1 else t.length⟩ := by
            simp only [HTree.absAt, Option.map, hcoll, oret]
          refine ⟨f, habsT, oret, ⟨by rw [habsT]; exact hvok, ?_, w3⟩, trivial, by rw [f2]; exact Nat.le_trans p4 o.size, ?_, ?_⟩
          · intro r' e
            simp only [Option.some.injEq] at e
            subst e
            refine ⟨by rw [hc3]; exact height_of_kidsOk _ _ _ _ hcok.2.2, ?_, fun hm => hcne (w3.2 _ hm).2⟩
            by_cases hl : c < H3.size
            · exact hl
            · exact absurd (get_ge _ _ (by simpa [Heap.size] using hl)) hcne
          · refine (Frame.trans hF2 (W1 := fun y => y = r) (fun y hy _ => f1 y hy) ?_).mono (fun y hy => ⟨r0, rfl, hy⟩)
            intro y e; exact p7 y e
          · intro r' e y hy
            simp only [Option.some.injEq] at e
            subst e
            rcases hsub2 y (Or.inr ⟨c, hcm, hin3 y hy⟩) with e | e
            · exact Or.inl ⟨r0, rfl, e⟩
            · exact Or.inr e
      · -- no collapse
        rename_i hnc
        have hcoll : collapse (removeH (t.degree - 1) h (absNode H h r0) typ).1 = absNode H2 h r := by
          rw [← oabs, abs_kids]
          apply collapse_of_items
          by_cases hi : (H2.get r).items = []
          · right
            cases hc : (H2.get r).children with
            | nil => rfl
            | cons c rest => exact absurd hc (fun hc => hnc c rest hi hc)
          · exact Or.inl hi
        have habsT : HTree.absAt (HTree.mk t.degree (some r) (if ret.isSome then t.length - 1 else t.length) t.cow) H2 h =
            ⟨t.degree, some (collapse (removeH (t.degree - 1) h (absNode H h r0) typ).1),
              if (removeH (t.degree - 1) h (absNode H h r0) typ).2.isSome then t.length - 1 else t.length⟩ := by
          simp only [HTree.absAt, Option.map, hcoll, oret]
        refine ⟨h, habsT, oret, ⟨by rw [habsT]; exact hvok, ?_, o.wf⟩, trivial, Nat.le_trans p4 o.size,
          hF2.mono (fun y hy => ⟨r0, rfl, hy⟩), ?_⟩
        · intro r' e
          simp only [Option.some.injEq] at e
          subst e
          exact ⟨by rw [oabs]; exact height_of_kidsOk _ _ _ _ P.kids, tag_some_lt _ _ _ o.own, not_free_of_tag o.wf o.own⟩
        · intro r' e y hy
          simp only [Option.some.injEq] at e
          subst e
          rcases hsub2 y hy with e | e
          · exact Or.inl ⟨r0, rfl, e⟩
          · exact Or.inr e

end Nv.C03.Cow
