import Nv.Proofs.C03Ref4
/-! C03 — refinement B → A, part 5: `insertB` computes what `insertH` computes (leaf and found cases, `splitB`). -/
namespace Nv.C03.Cow
open Nv.C03

/-- a cell of the store that denotes a well-formed layer-A (sub)tree owned by `cow` -/
structure Sub (mn cow : Nat) (H : Heap) (fuel n : Nat) : Prop where
  kids : KidsOk mn (2 * mn + 1) fuel (absNode H fuel n)
  sorted : Sorted (absNode H fuel n).inorder
  own : H.tag n = some cow
  wf : WFree H
  nonempty : (H.get n).items ≠ [] ∨ fuel = 0

theorem Sub.inner {mn cow : Nat} {H : Heap} {fuel n : Nat} (h : Sub mn cow H (fuel + 1) n) : Inner mn cow H fuel n :=
  ⟨h.kids, h.sorted, h.own, h.wf⟩

theorem Sub.lt {mn cow : Nat} {H : Heap} {fuel n : Nat} (h : Sub mn cow H fuel n) : n < H.size := tag_some_lt H n cow h.own

theorem Sub.notFree {mn cow : Nat} {H : Heap} {fuel n : Nat} (h : Sub mn cow H fuel n) : n ∉ H.free := by
  intro hm
  have := (h.wf.2 n hm).2
  have h2 := h.own
  simp [Heap.tag, this, HNode.empty] at h2

theorem Sub.leaf {mn cow : Nat} {H : Heap} {n : Nat} (h : Sub mn cow H 0 n) : (H.get n).children = [] := by
  have := h.kids
  simp only [absNode, KidsOk, children_mk] at this
  simpa using this

/-- the result of an operation on the subtree at `n` -/
structure InsOut (mn cow : Nat) (x : Item) (H : Heap) (fuel n : Nat) (r : Option Item × Heap) : Prop where
  abs : absNode r.2 fuel n = (insertH (2 * mn + 1) x fuel (absNode H fuel n)).1
  ret : r.1 = (insertH (2 * mn + 1) x fuel (absNode H fuel n)).2
  own : r.2.tag n = some cow
  wf : WFree r.2
  size : H.size ≤ r.2.size
  frame : Frame H r.2 (InSub H fuel n)
  subs : ∀ y, InSub r.2 fuel n y → InSub H fuel n y ∨ H.get y = HNode.empty

theorem insertHere_eq (n : Nat) (nd : HNode) (x : Item) (H : Heap) :
    (Cow.insertHere n nd x) H =
      if (findIdx nd.items x.key).2 then
        (nd.items[(findIdx nd.items x.key).1]?, ((Cow.wr n (setAt nd.items (findIdx nd.items x.key).1 x) nd.children) H).2)
      else (none, ((Cow.wr n (insertAt nd.items (findIdx nd.items x.key).1 x) []) H).2) := by
  unfold Cow.insertHere
  rw [run_ite]
  split <;> rfl

/-- fuel 0: a leaf -/
theorem insertB_leaf (mn cow : Nat) (x : Item) (n : Nat) (H : Heap) (h : Sub mn cow H 0 n) :
    InsOut mn cow x H 0 n ((Cow.insertB cow (2 * mn + 1) x 0 n) H) := by
  have hleaf := h.leaf
  have habs : absNode H 0 n = .mk (H.get n).items [] := by simp [absNode, hleaf]
  have hrun : (Cow.insertB cow (2 * mn + 1) x 0 n) H = (Cow.insertHere n (H.get n) x) H := by
    unfold Cow.insertB
    rw [run_bind, run_rd]
    simp only []
    rw [run_ite, if_pos (by simp [hleaf])]
  rw [hrun, insertHere_eq]
  by_cases hf : (findIdx (H.get n).items x.key).2 = true
  · rw [if_pos hf]
    obtain ⟨w1, w2, w3, w4⟩ := wr_get H n (setAt (H.get n).items (findIdx (H.get n).items x.key).1 x) (H.get n).children h.lt
    refine ⟨?_, ?_, by simp only [Heap.tag]; rw [w1]; exact h.own, wr_wfree H n _ _ h.lt h.wf h.notFree, by rw [w3]; exact Nat.le_refl _, ?_, fun y hy => Or.inl hy⟩
    · have e : ∀ H', H'.get n = ⟨setAt (H.get n).items (findIdx (H.get n).items x.key).1 x, (H.get n).children, (H.get n).cow⟩ →
          absNode H' 0 n = .mk (setAt (H.get n).items (findIdx (H.get n).items x.key).1 x) [] := by
        intro H' hg; simp [absNode, hg, hleaf]
      rw [e _ w1, habs]; simp [insertH, hf]
    · rw [habs]; simp [insertH, hf]
    · intro y hy _; exact w2 y (fun e => hy (by rw [e]; exact InSub.self H 0 n))
  · rw [if_neg hf]
    obtain ⟨w1, w2, w3, w4⟩ := wr_get H n (insertAt (H.get n).items (findIdx (H.get n).items x.key).1 x) [] h.lt
    have hf' : (findIdx (H.get n).items x.key).2 = false := by simpa using hf
    refine ⟨?_, ?_, by simp only [Heap.tag]; rw [w1]; exact h.own, wr_wfree H n _ _ h.lt h.wf h.notFree, by rw [w3]; exact Nat.le_refl _, ?_, fun y hy => Or.inl hy⟩
    · have e : ∀ H', H'.get n = ⟨insertAt (H.get n).items (findIdx (H.get n).items x.key).1 x, [], (H.get n).cow⟩ →
          absNode H' 0 n = .mk (insertAt (H.get n).items (findIdx (H.get n).items x.key).1 x) [] := by
        intro H' hg; simp [absNode, hg]
      rw [e _ w1, habs]; simp [insertH, hf']
    · rw [habs]; simp [insertH, hf']
    · intro y hy _; exact w2 y (fun e => hy (by rw [e]; exact InSub.self H 0 n))

end Nv.C03.Cow

namespace Nv.C03.Cow
open Nv.C03

theorem splitB_eq (cow n i : Nat) (H : Heap) :
    (Cow.splitB cow n i) H =
      (((H.get n).items.getD i default, ((Cow.newNode cow) H).1),
       ((Cow.wr n ((H.get n).items.take i) ((H.get n).children.take (i + 1)))
          ((Cow.wr ((Cow.newNode cow) H).1 ((H.get n).items.drop (i + 1)) ((H.get n).children.drop (i + 1)))
            ((Cow.newNode cow) H).2).2).2) := rfl

/-- `node.split(i)` on an owned cell with at least one item: both halves denote the halves of the layer-A split -/
theorem splitB_abs (mn cow : Nat) (hmn : 1 ≤ mn) (H : Heap) (fuel n i : Nat) (h : Sub mn cow H fuel n)
    (hne : (H.get n).items ≠ []) :
    let r := (Cow.splitB cow n i) H
    absNode r.2 fuel n = ((absNode H fuel n).split i).1 ∧ r.1.1 = ((absNode H fuel n).split i).2.1 ∧
    absNode r.2 fuel r.1.2 = ((absNode H fuel n).split i).2.2 ∧
    r.2.tag n = some cow ∧ r.2.tag r.1.2 = some cow ∧ WFree r.2 ∧ H.size ≤ r.2.size ∧
    Frame H r.2 (fun y => y = n) ∧ H.get r.1.2 = HNode.empty ∧ r.1.2 ≠ n ∧
    (∀ y, InSub r.2 fuel n y → InSub H fuel n y) ∧ (∀ y, InSub r.2 fuel r.1.2 y → y = r.1.2 ∨ InSub H fuel n y) := by
  rw [splitB_eq]
  obtain ⟨n1, n2, n3, n4, n5, n6, n7⟩ := newNode_spec cow H h.wf
  generalize (Cow.newNode cow) H = r0 at n1 n2 n3 n4 n5 n6 n7
  obtain ⟨next, H1⟩ := r0
  simp only at n1 n2 n3 n4 n5 n6 n7 ⊢
  have hnn : next ≠ n := fun e => hne (by rw [← e, n2]; rfl)
  obtain ⟨a1, a2, a3, a4⟩ := wr_get H1 next ((H.get n).items.drop (i + 1)) ((H.get n).children.drop (i + 1)) n5
  have hwf2 := wr_wfree H1 next ((H.get n).items.drop (i + 1)) ((H.get n).children.drop (i + 1)) n5 n6 n7
  generalize ((Cow.wr next ((H.get n).items.drop (i + 1)) ((H.get n).children.drop (i + 1))) H1).2 = H2 at a1 a2 a3 a4 hwf2 ⊢
  have hnlt2 : n < H2.size := by rw [a3]; exact Nat.lt_of_lt_of_le h.lt n4
  have hn2 : H2.get n = H.get n := by rw [a2 n hnn.symm, n3 n hnn.symm]
  have hnf2 : n ∉ H2.free := by
    intro hm; have := (hwf2.2 n hm).2; rw [hn2] at this; exact hne (by rw [this]; rfl)
  obtain ⟨b1, b2, b3, b4⟩ := wr_get H2 n ((H.get n).items.take i) ((H.get n).children.take (i + 1)) hnlt2
  have hwf3 := wr_wfree H2 n ((H.get n).items.take i) ((H.get n).children.take (i + 1)) hnlt2 hwf2 hnf2
  generalize ((Cow.wr n ((H.get n).items.take i) ((H.get n).children.take (i + 1))) H2).2 = H3 at b1 b2 b3 b4 hwf3 ⊢
  have hnext3 : H3.get next = ⟨(H.get n).items.drop (i + 1), (H.get n).children.drop (i + 1), some cow⟩ := by
    rw [b2 next hnn, a1, n1]
  have hframe : Frame H H3 (fun y => y = n) := by
    intro y hy hyne
    have hyn : y ≠ next := fun e => hyne (by rw [e, n2])
    rw [b2 y hy, a2 y hyn, n3 y hyn]
  have htagn : H3.tag n = some cow := by
    simp only [Heap.tag]; rw [b1, hn2]; exact h.own
  -- the children keep what they denote
  have hsub : ∀ (f : Nat), fuel = f + 1 → ∀ c ∈ (H.get n).children,
      absNode H3 f c = absNode H f c ∧ ∀ y, InSub H3 f c y → InSub H f c y := by
    intro f hf c hc
    subst hf
    exact h.inner.child_frame hmn hframe hc
  cases fuel with
  | zero =>
    have hleaf := h.leaf
    refine ⟨?_, by simp [absNode, Node.split, Node.items], ?_, htagn, by simp only [Heap.tag]; rw [hnext3], hwf3,
      by rw [b3, a3]; exact n4, hframe, n2, hnn, fun y hy => hy, fun y hy => Or.inl hy⟩
    · simp [absNode, b1, hleaf, Node.split, Node.items, Node.children]
    · simp [absNode, hnext3, hleaf, Node.split, Node.items, Node.children]
  | succ f =>
    refine ⟨?_, by simp [absNode, Node.split, Node.items], ?_, htagn, by simp only [Heap.tag]; rw [hnext3], hwf3,
      by rw [b3, a3]; exact n4, hframe, n2, hnn, ?_, ?_⟩
    · rw [abs_succ, abs_succ, b1]
      simp only [Node.split, Node.items, Node.children, List.map_take]
      congr 2
      exact List.map_congr_left (fun c hc => (hsub f rfl c hc).1)
    · rw [abs_succ, abs_succ, hnext3]
      simp only [Node.split, Node.items, Node.children, List.map_drop]
      congr 2
      exact List.map_congr_left (fun c hc => (hsub f rfl c hc).1)
    · intro y hy
      rcases hy with rfl | ⟨c, hc, hy⟩
      · exact Or.inl rfl
      · rw [b1] at hc
        have hc' := List.mem_of_mem_take hc
        exact Or.inr ⟨c, hc', (hsub f rfl c hc').2 y hy⟩
    · intro y hy
      rcases hy with rfl | ⟨c, hc, hy⟩
      · exact Or.inl rfl
      · rw [hnext3] at hc
        have hc' := List.mem_of_mem_drop hc
        exact Or.inr (Or.inr ⟨c, hc', (hsub f rfl c hc').2 y hy⟩)

end Nv.C03.Cow
