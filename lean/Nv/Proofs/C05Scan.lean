import Nv.Model.C05
/-! C05 — Clear over a paged SCAN: consuming every page deletes every key, whatever the paging. -/
namespace Nv.C05

theorem mem_rErase {k : Key} {st : List REntry} {e : REntry} (h : e ∈ rErase k st) : e ∈ st ∧ e.key ≠ k := by
  induction st with
  | nil => simp [rErase] at h
  | cons a st ih =>
    simp only [rErase] at h
    split at h
    · have := ih h; exact ⟨List.mem_cons_of_mem _ this.1, this.2⟩
    · rename_i hk
      rcases List.mem_cons.1 h with e1 | e1
      · subst e1; exact ⟨List.mem_cons_self, hk⟩
      · have := ih e1; exact ⟨List.mem_cons_of_mem _ this.1, this.2⟩

theorem mem_delPage {pg : List Key} {st : List REntry} {e : REntry}
    (h : e ∈ pg.foldl (fun st k => rErase k st) st) : e ∈ st ∧ e.key ∉ pg := by
  induction pg generalizing st with
  | nil => exact ⟨h, by simp⟩
  | cons k pg ih =>
    simp only [List.foldl_cons] at h
    have h1 := ih h
    have h2 := mem_rErase h1.1
    refine ⟨h2.1, ?_⟩
    simp only [List.mem_cons, not_or]
    exact ⟨h2.2, h1.2⟩

theorem mem_clearPages {pages : List (List Key)} {st : List REntry} {e : REntry}
    (h : e ∈ clearPages pages st) : e ∈ st ∧ ∀ pg ∈ pages, e.key ∉ pg := by
  induction pages generalizing st with
  | nil => exact ⟨h, by simp⟩
  | cons pg pages ih =>
    simp only [clearPages, List.foldl_cons] at h
    have h1 := ih (st := pg.foldl (fun st k => rErase k st) st) h
    have h2 := mem_delPage h1.1
    refine ⟨h2.1, ?_⟩
    intro q hq
    rcases List.mem_cons.1 hq with e1 | e1
    · subst e1; exact h2.2
    · exact h1.2 q e1

/-- whatever the page sizes (short and empty pages included): if every stored key is returned by some page — the
    guarantee of a SCAN iteration followed to cursor 0 — the iterator loop leaves nothing -/
theorem clearPages_covering (pages : List (List Key)) (st : List REntry)
    (hcov : ∀ e ∈ st, ∃ pg ∈ pages, e.key ∈ pg) : clearPages pages st = [] := by
  cases hr : clearPages pages st with
  | nil => rfl
  | cons e rest =>
    have hm : e ∈ clearPages pages st := by rw [hr]; exact List.mem_cons_self
    obtain ⟨h1, h2⟩ := mem_clearPages hm
    obtain ⟨pg, hpg, hk⟩ := hcov e h1
    exact absurd hk (h2 pg hpg)

end Nv.C05
