import Nv.Proofs.C03Ref14

/-! C03 refinement, part 15 (delete path): reading a node back after its cell and the cells of two of its children
were rewritten with grandchildren moved between them. -/

namespace Nv.C03.Cow
open Nv.C03

/-- three writes to three different owned cells -/
theorem threeWrites (cow : Nat) (H2 : Heap) (n ca cb : Nat) (hne : ca ≠ cb ∧ ca ≠ n ∧ cb ≠ n)
    (tn : (H2.get n).cow = some cow) (ta : (H2.get ca).cow = some cow) (tb : (H2.get cb).cow = some cow) (hw : WFree H2)
    (i1 : List Item) (c1 : List Nat) (i2 : List Item) (c2 : List Nat) (i3 : List Item) (c3 : List Nat) :
    let H5 := ((Cow.wr n i3 c3) ((Cow.wr ca i2 c2) ((Cow.wr cb i1 c1) H2).2).2).2
    H5.get n = ⟨i3, c3, some cow⟩ ∧ H5.get ca = ⟨i2, c2, some cow⟩ ∧ H5.get cb = ⟨i1, c1, some cow⟩ ∧
    (∀ x, x ≠ n → x ≠ ca → x ≠ cb → H5.get x = H2.get x) ∧ WFree H5 ∧ H5.size = H2.size := by
  have ln : n < H2.size := tag_some_lt H2 n cow tn
  have la : ca < H2.size := tag_some_lt H2 ca cow ta
  have lb : cb < H2.size := tag_some_lt H2 cb cow tb
  have nf : ∀ x, (H2.get x).cow = some cow → x ∉ H2.free := by
    intro x hx hm; have := (hw.2 x hm).2; rw [this] at hx; simp [HNode.empty] at hx
  obtain ⟨a1, a2, a3, a4⟩ := wr_get H2 cb i1 c1 lb
  have w3 := wr_wfree H2 cb i1 c1 lb hw (nf cb tb)
  generalize ((Cow.wr cb i1 c1) H2).2 = H3 at a1 a2 a3 a4 w3
  have la3 : ca < H3.size := by rw [a3]; exact la
  have hca3 : H3.get ca = H2.get ca := a2 ca hne.1
  obtain ⟨b1, b2, b3, b4⟩ := wr_get H3 ca i2 c2 la3
  have w4 := wr_wfree H3 ca i2 c2 la3 w3 (by rw [a4]; exact nf ca ta)
  generalize ((Cow.wr ca i2 c2) H3).2 = H4 at b1 b2 b3 b4 w4
  have ln4 : n < H4.size := by rw [b3, a3]; exact ln
  have hn4 : H4.get n = H2.get n := by rw [b2 n (Ne.symm hne.2.1), a2 n (Ne.symm hne.2.2)]
  obtain ⟨e1, e2, e3, e4⟩ := wr_get H4 n i3 c3 ln4
  have w5 := wr_wfree H4 n i3 c3 ln4 w4 (by rw [b4, a4]; exact nf n tn)
  generalize ((Cow.wr n i3 c3) H4).2 = H5 at e1 e2 e3 e4 w5
  refine ⟨by rw [e1, hn4, tn], by rw [e2 ca hne.2.1, b1, hca3, ta], by rw [e2 cb hne.2.2, b2 cb (Ne.symm hne.1), a1, tb],
    ?_, w5, by rw [e3, b3, a3]⟩
  intro x h1 h2 h3
  rw [e2 x h1, b2 x h2, a2 x h3]

/-- a rewritten child cell whose new child list consists of grandchildren (children of the two children involved)
    denotes the node built from the unchanged grandchildren -/
theorem rebuild_cell (mn cow : Nat) (hmn : 1 ≤ mn) {H H' : Heap} {fuel n : Nat} (h : Inner mn cow H fuel n)
    {a b : Nat} {c_a c_b ca cb : Nat} (hab : a ≠ b)
    (hca : (H.get n).children[a]? = some c_a) (hcb : (H.get n).children[b]? = some c_b)
    (ea : ca = c_a ∨ H.get ca = HNode.empty) (eb : cb = c_b ∨ H.get cb = HNode.empty)
    (hf : Frame H H' (fun x => x = n ∨ x = ca ∨ x = cb))
    (x : Nat) (ix : List Item) (cx : List Nat) (tg : Option Nat) (hx : H'.get x = ⟨ix, cx, tg⟩)
    (hg : ∀ g ∈ cx, g ∈ (H.get c_a).children ∨ g ∈ (H.get c_b).children) :
    absNode H' fuel x = .mk ix (cx.map (absKids H fuel)) ∧
    ∀ y, InSub H' fuel x y → y = x ∨ InSub H fuel c_a y ∨ InSub H fuel c_b y := by
  obtain ⟨_, F2⟩ := far_frame mn cow hmn h hab hca hcb ea eb hf
  constructor
  · rw [abs_kids, hx]
    simp only
    congr 1
    exact List.map_congr_left (fun g hgm => (F2 g (hg g hgm)).1)
  · intro y hy
    cases fuel with
    | zero => exact Or.inl hy
    | succ f =>
      rcases hy with e | ⟨g, hgm, hy⟩
      · exact Or.inl e
      · rw [hx] at hgm
        have hy' := (F2 g (hg g hgm)).2 f rfl y hy
        rcases hg g hgm with e | e
        · exact Or.inr (Or.inl (Or.inr ⟨g, e, hy'⟩))
        · exact Or.inr (Or.inr (Or.inr ⟨g, e, hy'⟩))

/-- from "only the node and the two (possibly copied) children changed" to "only the subtree changed" -/
theorem frame_to_sub {H H' : Heap} {fuel n : Nat} {c_a c_b ca cb : Nat}
    (hma : c_a ∈ (H.get n).children) (hmb : c_b ∈ (H.get n).children)
    (ea : ca = c_a ∨ H.get ca = HNode.empty) (eb : cb = c_b ∨ H.get cb = HNode.empty)
    (hf : Frame H H' (fun x => x = n ∨ x = ca ∨ x = cb)) : Frame H H' (InSub H (fuel + 1) n) := by
  intro x hx hne
  apply hf x _ hne
  rintro (e | e | e)
  · exact hx (e ▸ InSub.self H (fuel + 1) n)
  · rcases ea with e2 | e2
    · exact hx (Or.inr ⟨c_a, hma, by rw [e, e2]; exact InSub.self H fuel c_a⟩)
    · exact hne (by rw [e, e2])
  · rcases eb with e2 | e2
    · exact hx (Or.inr ⟨c_b, hmb, by rw [e, e2]; exact InSub.self H fuel c_b⟩)
    · exact hne (by rw [e, e2])

end Nv.C03.Cow
