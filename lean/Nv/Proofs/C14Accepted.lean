import Nv.Proofs.C14Routing
/-! C14 — a rejection (`full`, `closed` from `addCallCtx`) is only ever handed to a caller whose call was NOT accepted. -/
namespace Nv.C14

structure AInv (l : Lane) : Prop where
  ret_lt : ∀ id r, Ev.ret id r ∈ l.log → id < l.next
  full_rejected : ∀ id, Ev.ret id .full ∈ l.log → id ∉ l.accepted
  closed_rejected : ∀ id, Ev.ret id .closed ∈ l.log → id ∉ l.accepted ∨ l.kind = .pchan
  calls_lt : ∀ rec ∈ l.calls, rec.id < l.next

theorem ainv_init (k : Kind) (cap idx : Nat) : AInv (Lane.init k cap idx) := by
  refine ⟨?_, ?_, ?_, ?_⟩ <;> intro id <;> simp [Lane.init]

/-- a step that appends no `ret` event and keeps `accepted`, `next`, `kind` -/
theorem ainv_same {l l' : Lane} (h : AInv l) (hlog : ∀ id r, Ev.ret id r ∈ l'.log → Ev.ret id r ∈ l.log)
    (hacc : l'.accepted = l.accepted) (hnext : l'.next = l.next) (hk : l'.kind = l.kind)
    (hcalls : ∀ rec ∈ l'.calls, ∃ r0 ∈ l.calls, rec.id = r0.id) : AInv l' := by
  refine ⟨fun id r hm => ?_, fun id hm => ?_, fun id hm => ?_, fun rec hm => ?_⟩
  rotate_left 3
  · obtain ⟨r0, h0, e⟩ := hcalls rec hm
    rw [hnext, e]; exact h.calls_lt r0 h0
  · rw [hnext]; exact h.ret_lt id r (hlog id r hm)
  · rw [hacc]; exact h.full_rejected id (hlog id _ hm)
  · rw [hacc, hk]; exact h.closed_rejected id (hlog id _ hm)

theorem calls_same (calls : List CallRec) : ∀ rec ∈ calls, ∃ r0 ∈ calls, rec.id = r0.id :=
  fun rec hm => ⟨rec, hm, rfl⟩

theorem calls_upd {calls : List CallRec} {id : Nat} {f : CallRec → CallRec} (hf : ∀ c, (f c).id = c.id) :
    ∀ rec ∈ updCall calls id f, ∃ r0 ∈ calls, rec.id = r0.id := by
  intro rec hm
  obtain ⟨r0, h0, e⟩ := mem_updCall hm
  refine ⟨r0, h0, ?_⟩
  rw [e]; split
  · exact hf r0
  · rfl

theorem mem_append_single {e x : Ev} {log : List Ev} (h : e ∈ log ++ [x]) : e ∈ log ∨ e = x := by
  simpa using h

theorem ainv_step (cfg : Cfg) (l l' : Lane) (a : LAct) (hi : LInv l) (hr : RInv l) (h : AInv l)
    (hs : l.step cfg a = some l') : AInv l' := by
  cases a with
  | submit id enq =>
    obtain ⟨hid, he⟩ := submit_effect cfg l l' id enq hs
    rcases he with ⟨e, _⟩ | ⟨r, e, _⟩
    · subst e
      refine ⟨fun i r hm => ?_, fun i hm => ?_, fun i hm => ?_, fun rec hm => ?_⟩
      rotate_left 3
      · simp only [Lane.accept, List.mem_append, List.mem_singleton] at hm ⊢
        rcases hm with hm | hm
        · have := h.calls_lt rec hm; omega
        · subst hm; simp
      · have := h.ret_lt i r hm; simp only [Lane.accept]; omega
      · have h1 := h.ret_lt i _ hm
        have h2 := h.full_rejected i hm
        simp only [Lane.accept, List.mem_append, List.mem_singleton, not_or]
        exact ⟨h2, by omega⟩
      · have h1 := h.ret_lt i _ hm
        rcases h.closed_rejected i hm with h2 | h2
        · left
          simp only [Lane.accept, List.mem_append, List.mem_singleton, not_or]
          exact ⟨h2, by omega⟩
        · exact Or.inr h2
    · subst e
      have fresh : id ∉ l.accepted := fun hm => by have := hi.acc_lt id hm; omega
      refine ⟨fun i r' hm => ?_, fun i hm => ?_, fun i hm => ?_, fun rec hm => ?_⟩
      rotate_left 3
      · simp only [Lane.reject, List.mem_append, List.mem_singleton] at hm ⊢
        rcases hm with hm | hm
        · have := h.calls_lt rec hm; omega
        · subst hm; simp
      · rcases mem_append_single hm with hm | hm
        · have := h.ret_lt i r' hm; simp only [Lane.reject]; omega
        · cases hm; simp only [Lane.reject]; omega
      · rcases mem_append_single hm with hm | hm
        · exact h.full_rejected i hm
        · cases hm; exact fresh
      · rcases mem_append_single hm with hm | hm
        · exact h.closed_rejected i hm
        · cases hm; exact Or.inl fresh
  | pop take =>
    obtain ⟨_, he⟩ := pop_effect cfg l l' take hs
    rcases he with ⟨e, _, _⟩ | ⟨c, rest, _, e⟩
    · subst e
      refine ainv_same h (fun i r hm => ?_) rfl rfl rfl (calls_same _)
      rcases mem_append_single hm with hm | hm
      · exact hm
      · cases hm
    · subst e
      have hst := take_static l c rest
      refine ainv_same h (fun i r hm => ?_) hst.2.2.2.2.2 hst.2.2.2.2.1 hst.1 ?_
      · unfold Lane.take at hm
        split at hm
        · exact hm
        · rcases mem_append_single hm with hm | hm
          · exact hm
          · cases hm
      · unfold Lane.take
        split
        · exact calls_upd (fun _ => rfl)
        · exact calls_same _
  | finish id r =>
    obtain ⟨_, _, e⟩ := finish_effect cfg l l' id r hi.cons2_none hs
    subst e
    refine ainv_same h (fun i r' hm => ?_) rfl rfl rfl (calls_upd (fun _ => rfl))
    rcases mem_append_single hm with hm | hm
    · exact hm
    · cases hm
  | recv id pick =>
    obtain ⟨c, r, hg, _, e, hwhy⟩ := recv_effect cfg l l' id pick hs
    subst e
    obtain ⟨hcm, hcid⟩ := getCall_some hg
    -- what a cell holds is a callee result or ctx, never a rejection
    have hcell : c.cell = some r → r ≠ .full ∧ r ≠ .closed := by
      intro hc
      rcases hr.cell c hcm r hc with ⟨a, _⟩ | ⟨a, _⟩
      · constructor <;> intro e <;> rw [e] at a <;> cases a
      · constructor <;> intro e <;> rw [e] at a <;> cases a
    have hlt : id < l.next := by rw [← hcid]; exact h.calls_lt c hcm
    refine ⟨fun i r' hm => ?_, fun i hm => ?_, fun i hm => ?_, fun rec hm => ?_⟩
    rotate_left 3
    · obtain ⟨r0, h0, e⟩ := calls_upd (calls := l.calls) (id := id) (f := fun c => { c with waiting := false }) (fun _ => rfl) rec hm
      rw [e]; exact h.calls_lt r0 h0
    · rcases mem_append_single hm with hm | hm
      · exact h.ret_lt i r' hm
      · cases hm; exact hlt
    · rcases mem_append_single hm with hm | hm
      · exact h.full_rejected i hm
      · cases hm
        rcases hwhy with ⟨_, hc⟩ | ⟨_, _, e⟩ | ⟨_, _, _, e⟩
        · exact absurd rfl (hcell hc).1
        · cases e
        · cases e
    · rcases mem_append_single hm with hm | hm
      · exact h.closed_rejected i hm
      · cases hm
        rcases hwhy with ⟨_, hc⟩ | ⟨_, _, e⟩ | ⟨_, hk, _, _⟩
        · exact absurd rfl (hcell hc).2
        · cases e
        · exact Or.inr hk
  | cancel id => rw [cancel_effect cfg l l' id hs]; exact ainv_same h (fun _ _ hm => hm) rfl rfl rfl (calls_upd (fun _ => rfl))
  | stop => rw [stop_effect cfg l l' hs]; exact ainv_same h (fun _ _ hm => hm) rfl rfl rfl (calls_same _)
  | run =>
    rcases run_effect cfg l l' hs with e | e | ⟨e, _, _⟩ <;> subst e <;> exact ainv_same h (fun _ _ hm => hm) rfl rfl rfl (calls_same _)
  | pop2 => rw [pop2_disabled cfg l hi.cons2_none] at hs; cases hs

theorem ainv_reach (cfg : Cfg) (k : Kind) (cap idx : Nat) (hg : RunGuarded cfg k) (l : Lane)
    (hr : (laneLTS cfg k cap idx).Reach l) : AInv l := by
  have : (LInv l ∧ RInv l ∧ AInv l) ∧ l.kind = k := by
    induction hr with
    | init => exact ⟨⟨linv_init k cap idx, rinv_init k cap idx, ainv_init k cap idx⟩, rfl⟩
    | step _ hstep ih =>
      obtain ⟨⟨h1, h2, h3⟩, hk⟩ := ih
      exact ⟨⟨linv_step cfg _ _ _ (by rw [hk]; exact hg) h1 hstep, rinv_step cfg _ _ _ h1 h2 hstep,
        ainv_step cfg _ _ _ h1 h2 h3 hstep⟩, (step_static cfg _ _ _ hstep).1.trans hk⟩
  exact this.1.2.2

end Nv.C14
