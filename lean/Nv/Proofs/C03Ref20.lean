import Nv.Proofs.C03Ref19

/-! C03 refinement, part 20 (delete path): `node.remove` on the store computes what `removeH` computes. -/

namespace Nv.C03.Cow
open Nv.C03

/-- the part of `node.remove` after the rebalancing step -/
def remTail (cow mn : Nat) (f n : Nat) (typ : Rm) (i : Nat) (found : Bool) (ret0 : Option Item) (H : Heap) :
    Option Item × Heap :=
  let r1 := (Cow.mutableChild cow n i) H
  if found then
    let r2 := (Cow.removeB cow mn f r1.1 .max) r1.2
    (ret0, ((Cow.wr n (setAt (r2.2.get n).items i (r2.1.getD default)) (r2.2.get n).children) r2.2).2)
  else (Cow.removeB cow mn f r1.1 typ) r1.2

theorem removeB_inner (cow mn : Nat) (f n : Nat) (typ : Rm) (H : Heap) (hne : (H.get n).children ≠ []) :
    (Cow.removeB cow mn (f + 1) n typ) H =
      if (H.get ((H.get n).children.getD (locate (H.get n).items typ).1 n)).items.length ≤ mn then
        remTail cow mn f n typ (locate (((Cow.growB cow mn n (locate (H.get n).items typ).1) H).2.get n).items typ).1
          (locate (((Cow.growB cow mn n (locate (H.get n).items typ).1) H).2.get n).items typ).2
          ((((Cow.growB cow mn n (locate (H.get n).items typ).1) H).2.get n).items[(locate (((Cow.growB cow mn n (locate (H.get n).items typ).1) H).2.get n).items typ).1]?)
          ((Cow.growB cow mn n (locate (H.get n).items typ).1) H).2
      else
        remTail cow mn f n typ (locate (H.get n).items typ).1 (locate (H.get n).items typ).2
          ((H.get n).items[(locate (H.get n).items typ).1]?) H := by
  have hemp : (H.get n).children.isEmpty = false := by
    cases hc : (H.get n).children with
    | nil => exact absurd hc hne
    | cons _ _ => rfl
  rw [Cow.removeB]
  rw [run_bind, run_rd]
  simp only [hemp]
  rw [run_ite, if_neg (by simp)]
  rw [run_bind, run_rd]
  simp only []
  rw [run_bind]
  unfold remTail
  by_cases hs : (H.get ((H.get n).children.getD (locate (H.get n).items typ).1 n)).items.length ≤ mn
  · rw [if_pos hs, if_pos hs, run_bind, run_rd]
    simp only [hs, if_true]
    rw [run_bind]
    cases hfd : (locate (((Cow.growB cow mn n (locate (H.get n).items typ).1) H).2.get n).items typ).2
    · rw [run_ite]; simp only [Bool.false_eq_true, if_false]
    · rw [run_ite]; simp only [if_true]; rfl
  · rw [if_neg hs, if_neg hs, run_pure, run_bind, run_rd]
    simp only [hs, if_false]
    rw [run_bind]
    cases hfd : (locate (H.get n).items typ).2
    · rw [run_ite]; simp only [Bool.false_eq_true, if_false]
    · rw [run_ite]; simp only [if_true]; rfl

/-- the result of `node.remove` on the subtree at `n` -/
structure RemOut (mn cow : Nat) (typ : Rm) (H : Heap) (fuel n : Nat) (r : Option Item × Heap) : Prop where
  abs : absNode r.2 fuel n = (removeH mn fuel (absNode H fuel n) typ).1
  ret : r.1 = (removeH mn fuel (absNode H fuel n) typ).2
  own : r.2.tag n = some cow
  wf : WFree r.2
  size : H.size ≤ r.2.size
  frame : Frame H r.2 (InSub H fuel n)
  subs : ∀ y, InSub r.2 fuel n y → InSub H fuel n y ∨ H.get y = HNode.empty

theorem removeB_leaf (mn cow : Nat) (typ : Rm) (n : Nat) (H : Heap) (h : Sub mn cow H 0 n) :
    RemOut mn cow typ H 0 n ((Cow.removeB cow mn 0 n typ) H) := by
  have hleaf := h.leaf
  have habs : absNode H 0 n = .mk (H.get n).items [] := by simp [absNode, hleaf]
  have hrun : (Cow.removeB cow mn 0 n typ) H =
      ((leafRemove (H.get n).items typ).2, ((Cow.wr n (leafRemove (H.get n).items typ).1 []) H).2) := by
    rw [Cow.removeB, run_bind, run_rd]
    simp only [hleaf, List.isEmpty_nil, if_true]
    rfl
  rw [hrun]
  obtain ⟨w1, w2, w3, w4⟩ := wr_get H n (leafRemove (H.get n).items typ).1 [] h.lt
  refine ⟨?_, ?_, by simp only [Heap.tag]; rw [w1]; exact h.own, wr_wfree H n _ _ h.lt h.wf h.notFree,
    by rw [w3]; exact Nat.le_refl _, ?_, fun y hy => Or.inl hy⟩
  · have e : ∀ H', H'.get n = ⟨(leafRemove (H.get n).items typ).1, [], (H.get n).cow⟩ →
        absNode H' 0 n = .mk (leafRemove (H.get n).items typ).1 [] := by
      intro H' hg; simp [absNode, hg]
    rw [e _ w1, habs]; simp [removeH]
  · rw [habs]; simp [removeH]
  · intro y hy _; exact w2 y (fun e => hy (by rw [e]; exact InSub.self H 0 n))

/-- the tail of `node.remove` (descend into child `i`, possibly replacing item `i` by the predecessor pulled out of
    it) against the tail of `removeH` -/
theorem remTail_abs (mn cow : Nat) (hmn : 1 ≤ mn) (f : Nat)
    (ih : ∀ (n : Nat) (H : Heap) (typ : Rm), Sub mn cow H f n → 1 ≤ (H.get n).items.length →
      RemOut mn cow typ H f n ((Cow.removeB cow mn f n typ) H))
    (H : Heap) (n : Nat) (typ : Rm) (i : Nat) (found : Bool) (ret0 : Option Item) (h : Inner mn cow H f n)
    (hi : i < (H.get n).children.length) :
    let cs := (H.get n).children.map (absNode H f)
    let r := remTail cow mn f n typ i found ret0 H
    (if found then
        absNode r.2 (f + 1) n = .mk (setAt (H.get n).items i ((removeH mn f (cs.getD i default) .max).2.getD default))
          (setAt cs i (removeH mn f (cs.getD i default) .max).1) ∧ r.1 = ret0
      else
        absNode r.2 (f + 1) n = .mk (H.get n).items (setAt cs i (removeH mn f (cs.getD i default) typ).1) ∧
        r.1 = (removeH mn f (cs.getD i default) typ).2) ∧
    r.2.tag n = some cow ∧ WFree r.2 ∧ H.size ≤ r.2.size ∧ Frame H r.2 (InSub H (f + 1) n) ∧
    (∀ y, InSub r.2 (f + 1) n y → InSub H (f + 1) n y ∨ H.get y = HNode.empty) := by
  have hgd := getD_map (absNode H f) (H.get n).children i n hi
  simp only
  rw [hgd]
  have hop : ∀ (t : Rm) (ch : Nat) (H1 : Heap), Sub mn cow H1 f ch →
      absNode H1 f ch = absNode H f ((H.get n).children.getD i n) →
      absNode ((Cow.removeB cow mn f ch t) H1).2 f ch = (removeH mn f (absNode H f ((H.get n).children.getD i n)) t).1 ∧
      ((Cow.removeB cow mn f ch t) H1).1 = (removeH mn f (absNode H f ((H.get n).children.getD i n)) t).2 ∧
      ((Cow.removeB cow mn f ch t) H1).2.tag ch = some cow ∧ WFree ((Cow.removeB cow mn f ch t) H1).2 ∧
      H1.size ≤ ((Cow.removeB cow mn f ch t) H1).2.size ∧
      Frame H1 ((Cow.removeB cow mn f ch t) H1).2 (InSub H1 f ch) ∧
      (∀ y, InSub ((Cow.removeB cow mn f ch t) H1).2 f ch y → InSub H1 f ch y ∨ H1.get y = HNode.empty) := by
    intro t ch H1 hsub habs
    have hcm : (H.get n).children.getD i n ∈ (H.get n).children := getD_mem _ i n hi
    have hl : 1 ≤ (H1.get ch).items.length := by
      rw [← abs_items H1 f ch, habs]
      have := ((nodeOk_iff _ _ _ _).1 (h.childOk hcm)).1
      omega
    have o := ih ch H1 t hsub hl
    exact ⟨by rw [← habs]; exact o.abs, by rw [← habs]; exact o.ret, o.own, o.wf, o.size, o.frame, o.subs⟩
  unfold remTail
  cases found with
  | false =>
    simp only [Bool.false_eq_true, if_false]
    obtain ⟨d1, d0, d2, d3, d4, d5, d6, _⟩ := descend_abs mn cow hmn H f n i h hi
      (fun ch => Cow.removeB cow mn f ch typ) _ _ (hop typ)
    exact ⟨⟨d1, d0⟩, by simp only [Heap.tag]; rw [d2], d3, d4, d5, d6⟩
  | true =>
    simp only [if_true]
    obtain ⟨d1, d0, d2, d3, d4, d5, d6, d7⟩ := descend_abs mn cow hmn H f n i h hi
      (fun ch => Cow.removeB cow mn f ch .max) _ _ (hop .max)
    generalize (Cow.mutableChild cow n i) H = r1 at d1 d0 d2 d3 d4 d5 d6 d7
    obtain ⟨ch, H1⟩ := r1
    simp only at d1 d0 d2 d3 d4 d5 d6 d7 ⊢
    generalize (Cow.removeB cow mn f ch .max) H1 = r2 at d1 d0 d2 d3 d4 d5 d6 d7
    obtain ⟨p, H2⟩ := r2
    simp only at d1 d0 d2 d3 d4 d5 d6 d7 ⊢
    have hlt2 : n < H2.size := tag_some_lt H2 n cow (by simp only [Heap.tag]; rw [d2])
    have hnf2 : n ∉ H2.free := by
      intro hm; have := (d3.2 n hm).2; rw [d2] at this; simp [HNode.empty] at this
    obtain ⟨w1, w2, w3, w4⟩ := wr_get H2 n (setAt (H2.get n).items i (p.getD default)) (H2.get n).children hlt2
    have hwf := wr_wfree H2 n (setAt (H2.get n).items i (p.getD default)) (H2.get n).children hlt2 d3 hnf2
    generalize ((Cow.wr n (setAt (H2.get n).items i (p.getD default)) (H2.get n).children) H2).2 = H3 at w1 w2 w3 w4 hwf
    -- the children of the node read the same in `H3`: only the node's own cell changed
    have hkids : ∀ c ∈ (H2.get n).children, absNode H3 f c = absNode H2 f c ∧ ∀ y, InSub H3 f c y → InSub H2 f c y := by
      intro c hc
      have hall : ∀ x, InSub H2 f c x → H3.get x = H2.get x :=
        fun x hx => w2 x (fun e => d7 c hc (e ▸ hx))
      exact ⟨abs_agree H2 H3 f c hall, inSub_agree H2 H3 f c hall⟩
    have hcs := (children_of_abs d1).2
    refine ⟨⟨?_, trivial⟩, by simp only [Heap.tag]; rw [w1, d2], hwf, by rw [w3]; exact d4, ?_, ?_⟩
    · rw [abs_succ, w1]
      simp only
      rw [d2, d0]
      simp only
      congr 1
      rw [← hcs, d2]
      exact List.map_congr_left (fun c hc => (hkids c (by rw [d2]; exact hc)).1)
    · apply Frame.trans d5 (W1 := fun y => y = n) (fun y hy _ => w2 y hy)
      intro y e; exact Or.inl (e ▸ InSub.self H (f + 1) n)
    · intro y hy
      apply d6
      rcases hy with e | ⟨c, hc, hy⟩
      · exact Or.inl e
      · rw [w1] at hc
        exact Or.inr ⟨c, hc, (hkids c hc).2 y hy⟩

end Nv.C03.Cow
