import Nv.Proofs.C03Ref10

/-! C03 refinement, part 11: `Clear` keeps the free list well-formed (parked cells are item-less, tag-less and pairwise
different); unbounded reachability coincides with the height-bounded subtree relation on well-formed subtrees. -/

namespace Nv.C03.Cow
open Nv.C03

/-- running `m` keeps the free list well-formed -/
def PW {α : Type} (m : M α) : Prop := ∀ H, WFree H → WFree (m H).2

theorem PW.pure {α : Type} (a : α) : PW (Pure.pure a : M α) := fun _ h => h
theorem PW.bind {α β : Type} {m : M α} {f : α → M β} (hm : PW m) (hf : ∀ a, PW (f a)) : PW (m >>= f) :=
  fun H h => hf _ _ (hm H h)
theorem PW.ite {α : Type} {c : Prop} [Decidable c] {m1 m2 : M α} (h1 : PW m1) (h2 : PW m2) :
    PW (if c then m1 else m2) := by
  split
  · exact h1
  · exact h2
theorem PW.read {α : Type} (f : Heap → α) : PW (fun H => (f H, H) : M α) := fun _ h => h
theorem PW.rd (id : Nat) : PW (Cow.rd id) := fun _ h => h

theorem wfree_park (H : Heap) (id cow : Nat) (ho : (H.get id).cow = some cow) (hw : WFree H) :
    WFree { H with nodes := H.nodes.set id HNode.empty, free := id :: H.free } ∧
    WFree { H with nodes := H.nodes.set id HNode.empty } := by
  have hlt : id < H.nodes.length := tag_some_lt H id cow ho
  have hnf : id ∉ H.free := by
    intro hm; have := (hw.2 id hm).2; rw [this] at ho; simp [HNode.empty] at ho
  have hget : ∀ j, j ∈ H.free ∨ j = id → (H.nodes.set id HNode.empty).getD j HNode.empty = HNode.empty := by
    intro j hj
    by_cases e : j = id
    · rw [e]; exact get_set_self _ _ _ hlt
    · rw [get_set_ne _ _ _ _ e]
      rcases hj with hj | hj
      · exact (hw.2 j hj).2
      · exact absurd hj e
  constructor
  · refine ⟨List.nodup_cons.2 ⟨hnf, hw.1⟩, ?_⟩
    intro j hj
    simp only [List.mem_cons] at hj
    refine ⟨?_, hget j (by rcases hj with e | e; exact Or.inr e; exact Or.inl e)⟩
    simp only [Heap.size, List.length_set]
    rcases hj with e | e
    · rw [e]; exact hlt
    · exact (hw.2 j e).1
  · refine ⟨hw.1, ?_⟩
    intro j hj
    refine ⟨?_, hget j (Or.inl hj)⟩
    simp only [Heap.size, List.length_set]
    exact (hw.2 j hj).1

theorem PW.freeNodeT (cow id : Nat) : PW (Cow.freeNodeT cow id) := by
  intro H hw
  unfold Cow.freeNodeT
  by_cases ho : (H.get id).cow = some cow
  · rw [if_pos ho]
    simp only []
    split
    · exact (wfree_park H id cow ho hw).1
    · exact (wfree_park H id cow ho hw).2
  · rw [if_neg ho]; exact hw

theorem PW.freeNode (cow id : Nat) : PW (Cow.freeNode cow id) := by
  intro H hw
  unfold Cow.freeNode
  by_cases ho : (H.get id).cow = some cow
  · rw [if_pos ho]
    simp only []
    split
    · exact (wfree_park H id cow ho hw).1
    · exact (wfree_park H id cow ho hw).2
  · rw [if_neg ho]; exact hw

theorem pw_foldlM_reset (cow fuel : Nat) (ih : ∀ id, PW (resetB cow fuel id)) :
    ∀ (l : List Nat) (acc : Bool),
      PW (l.foldlM (fun (acc : Bool) c => if acc then resetB cow fuel c else (Pure.pure false : M Bool)) acc)
  | [], acc => by simp only [List.foldlM_nil]; exact PW.pure _
  | c :: l, acc => by
    simp only [List.foldlM_cons]
    apply PW.bind
    · exact PW.ite (ih c) (PW.pure _)
    · intro acc'; exact pw_foldlM_reset cow fuel ih l acc'

theorem PW.resetB (cow : Nat) : ∀ (fuel id : Nat), PW (resetB cow fuel id) := by
  intro fuel
  induction fuel with
  | zero =>
    intro id
    unfold Cow.resetB
    exact PW.bind (PW.freeNodeT _ _) (fun _ => PW.pure _)
  | succ fuel ih =>
    intro id
    unfold Cow.resetB
    apply PW.bind (PW.rd _); intro nd
    apply PW.bind (pw_foldlM_reset cow fuel ih _ _); intro go
    exact PW.ite (PW.bind (PW.freeNodeT _ _) (fun _ => PW.pure _)) (PW.pure _)

theorem PW.clearB (t : HTree) (add : Bool) : PW (clearB t add) := by
  unfold Cow.clearB
  cases t.root with
  | none => simp only []; exact PW.pure _
  | some r =>
    simp only []
    apply PW.bind (PW.read _); intro h
    apply PW.bind
    · exact PW.ite (PW.resetB _ _ _) (PW.pure _)
    · intro _; exact PW.pure _

theorem clearB_result (t : HTree) (add : Bool) (H : Heap) :
    ((clearB t add) H).1.1 = { t with root := none, length := 0 } := by
  unfold Cow.clearB
  cases t.root with
  | none => rfl
  | some r => rfl

/-! ### reachability -/

theorem inSub_reach (H : Heap) : ∀ (f n y : Nat), InSub H f n y → Reach H n y := by
  intro f
  induction f with
  | zero => intro n y h; have : y = n := h; rw [this]; exact Reach.refl n
  | succ f ih =>
    intro n y h
    rcases h with e | ⟨c, hc, h⟩
    · rw [e]; exact Reach.refl n
    · exact Reach.head hc (ih c y h)

theorem reach_cases {H : Heap} {r y : Nat} (h : Reach H r y) : y = r ∨ ∃ c ∈ (H.get r).children, Reach H c y := by
  induction h with
  | refl => exact Or.inl rfl
  | step hra hc ih =>
    rename_i a c
    rcases ih with e | ⟨c', hc', h'⟩
    · right; rw [e] at hc; exact ⟨c, hc, Reach.refl c⟩
    · right; exact ⟨c', hc', Reach.step h' hc⟩

theorem reach_inSub (mn mx : Nat) (H : Heap) : ∀ (f n y : Nat), KidsOk mn mx f (absNode H f n) → Reach H n y →
    InSub H f n y := by
  intro f
  induction f with
  | zero =>
    intro n y hk h
    have hleaf : (H.get n).children = [] := by simpa [KidsOk, absNode] using hk
    rcases reach_cases h with e | ⟨c, hc, _⟩
    · exact e
    · rw [hleaf] at hc; simp at hc
  | succ f ih =>
    intro n y hk h
    rcases reach_cases h with e | ⟨c, hc, h'⟩
    · exact Or.inl e
    · rw [abs_succ] at hk
      simp only [KidsOk, children_mk, items_mk] at hk
      have hcok := (nodeOk_iff _ _ _ _).1 (hk.2 _ (List.mem_map.2 ⟨c, hc, rfl⟩))
      exact Or.inr ⟨c, hc, ih c y hcok.2.2 h'⟩

end Nv.C03.Cow
