import Nv.Proofs.C03Ref18
import Nv.Proofs.C03Remove2

/-! C03 refinement, part 19 (delete path): `growChildAndRemove`'s rebalancing step on the store is `grow` on the
denoted node. -/

namespace Nv.C03.Cow
open Nv.C03

theorem growB_abs (mn cow : Nat) (hmn : 1 ≤ mn) (H : Heap) (fuel n i : Nat) (h : Inner mn cow H fuel n)
    (hi : i ≤ (H.get n).items.length) (h1 : 1 ≤ (H.get n).items.length) :
    GrowOut cow H fuel n ((Cow.growB cow mn n i) H).2
      (grow mn (H.get n).items ((H.get n).children.map (absNode H fuel)) i).1
      (grow mn (H.get n).items ((H.get n).children.map (absNode H fuel)) i).2 := by
  have hlen := h.len
  rw [growB_eq]
  simp only
  have eL : 0 < i → (((H.get n).children.map (absNode H fuel)).getD (i - 1) default).items.length =
      (H.get ((H.get n).children.getD (i - 1) n)).items.length := by
    intro _; rw [getD_map _ _ (i - 1) n (by omega), abs_items]
  have eR : i < (H.get n).items.length → (((H.get n).children.map (absNode H fuel)).getD (i + 1) default).items.length =
      (H.get ((H.get n).children.getD (i + 1) n)).items.length := by
    intro _; rw [getD_map _ _ (i + 1) n (by omega), abs_items]
  by_cases cL : 0 < i ∧ mn < (H.get ((H.get n).children.getD (i - 1) n)).items.length
  · rw [if_pos cL]
    have cL' : 0 < i ∧ mn < (((H.get n).children.map (absNode H fuel)).getD (i - 1) default).items.length := by
      rw [eL cL.1]; exact cL
    have := stealLeft_abs mn cow hmn H fuel n i h cL.1 (by omega)
    unfold grow
    simp only [if_pos cL']
    exact this
  · rw [if_neg cL]
    have cL' : ¬ (0 < i ∧ mn < (((H.get n).children.map (absNode H fuel)).getD (i - 1) default).items.length) := by
      intro c; exact cL ⟨c.1, by rw [← eL c.1]; exact c.2⟩
    by_cases cR : i < (H.get n).items.length ∧ mn < (H.get ((H.get n).children.getD (i + 1) n)).items.length
    · rw [if_pos cR]
      have cR' : i < (H.get n).items.length ∧
          mn < (((H.get n).children.map (absNode H fuel)).getD (i + 1) default).items.length := by
        rw [eR cR.1]; exact cR
      have := stealRight_abs mn cow hmn H fuel n i h (by omega)
      unfold grow
      simp only [if_neg cL', if_pos cR']
      exact this
    · rw [if_neg cR]
      have cR' : ¬ (i < (H.get n).items.length ∧
          mn < (((H.get n).children.map (absNode H fuel)).getD (i + 1) default).items.length) := by
        intro c; exact cR ⟨c.1, by rw [← eR c.1]; exact c.2⟩
      have := merge_abs mn cow hmn H fuel n (if (H.get n).items.length ≤ i then i - 1 else i) h (by split <;> omega)
      unfold grow
      simp only [if_neg cL', if_neg cR']
      exact this

end Nv.C03.Cow
