import Nv.Proofs.C03Ref12

/-! C03 refinement, part 13 (delete path): `growChildAndRemove`'s three rebalancing moves as store transformers, and
the frame lemma for cells far from the two children involved. -/

namespace Nv.C03.Cow
open Nv.C03

def stealLeftB (cow n i : Nat) (H : Heap) : Heap :=
  let r1 := (Cow.mutableChild cow n i) H
  let r2 := (Cow.mutableChild cow n (i - 1)) r1.2
  let sf := r2.2.get r2.1
  let ch := r2.2.get r1.1
  let nd1 := r2.2.get n
  let H3 := ((Cow.wr r2.1 sf.items.dropLast sf.children.dropLast) r2.2).2
  let H4 := ((Cow.wr r1.1 (nd1.items.getD (i - 1) default :: ch.items) (sf.children.getLast?.toList ++ ch.children)) H3).2
  ((Cow.wr n (setAt nd1.items (i - 1) (sf.items.getLast?.getD default)) nd1.children) H4).2

def stealRightB (cow n i : Nat) (H : Heap) : Heap :=
  let r1 := (Cow.mutableChild cow n i) H
  let r2 := (Cow.mutableChild cow n (i + 1)) r1.2
  let sf := r2.2.get r2.1
  let ch := r2.2.get r1.1
  let nd1 := r2.2.get n
  let H3 := ((Cow.wr r2.1 (sf.items.drop 1) (sf.children.drop 1)) r2.2).2
  let H4 := ((Cow.wr r1.1 (ch.items ++ [nd1.items.getD i default]) (ch.children ++ sf.children.take 1)) H3).2
  ((Cow.wr n (setAt nd1.items i (sf.items.head?.getD default)) nd1.children) H4).2

def mergeB (cow n j : Nat) (H : Heap) : Heap :=
  let r1 := (Cow.mutableChild cow n j) H
  let nd1 := r1.2.get n
  let mergeChild := nd1.children.getD (j + 1) n
  let mc := r1.2.get mergeChild
  let ch := r1.2.get r1.1
  let H2 := ((Cow.wr n (removeAt nd1.items j) (removeAt nd1.children (j + 1))) r1.2).2
  let H3 := ((Cow.wr r1.1 (ch.items ++ nd1.items.getD j default :: mc.items) (ch.children ++ mc.children)) H2).2
  ((Cow.freeNode cow mergeChild) H3).2

theorem growB_eq (cow mn n i : Nat) (H : Heap) :
    (Cow.growB cow mn n i) H = ((),
      if 0 < i ∧ mn < (H.get ((H.get n).children.getD (i - 1) n)).items.length then stealLeftB cow n i H
      else if i < (H.get n).items.length ∧ mn < (H.get ((H.get n).children.getD (i + 1) n)).items.length then
        stealRightB cow n i H
      else mergeB cow n (if (H.get n).items.length ≤ i then i - 1 else i) H) := by
  unfold Cow.growB
  rw [run_bind, run_rd]
  simp only []
  rw [run_bind, run_rd]
  simp only []
  rw [run_bind, run_rd]
  simp only []
  by_cases h1 : 0 < i ∧ mn < (H.get ((H.get n).children.getD (i - 1) n)).items.length
  · rw [if_pos h1, if_pos h1]; rfl
  · rw [if_neg h1, if_neg h1]
    by_cases h2 : i < (H.get n).items.length ∧ mn < (H.get ((H.get n).children.getD (i + 1) n)).items.length
    · rw [if_pos h2, if_pos h2]; rfl
    · rw [if_neg h2, if_neg h2]; rfl

/-- what a child list denotes one level down (`absNode` with the fuel made explicit) -/
def absKids (H : Heap) : Nat → Nat → Node
  | 0, _ => .mk [] []
  | f + 1, g => absNode H f g

theorem abs_kids (H : Heap) (fuel c : Nat) :
    absNode H fuel c = .mk (H.get c).items ((H.get c).children.map (absKids H fuel)) := by
  cases fuel with
  | zero => rfl
  | succ f => rfl

/-- cells far from the node and from two of its children keep their denotation: the siblings at other positions, and
    the grandchildren below the two children -/
theorem far_frame (mn cow : Nat) (hmn : 1 ≤ mn) {H H' : Heap} {fuel n : Nat} (h : Inner mn cow H fuel n)
    {a b : Nat} {c_a c_b ca cb : Nat} (hab : a ≠ b)
    (hca : (H.get n).children[a]? = some c_a) (hcb : (H.get n).children[b]? = some c_b)
    (ea : ca = c_a ∨ H.get ca = HNode.empty) (eb : cb = c_b ∨ H.get cb = HNode.empty)
    (hf : Frame H H' (fun x => x = n ∨ x = ca ∨ x = cb)) :
    (∀ j c', j ≠ a → j ≠ b → (H.get n).children[j]? = some c' →
      absNode H' fuel c' = absNode H fuel c' ∧ ∀ y, InSub H' fuel c' y → InSub H fuel c' y) ∧
    (∀ g, (g ∈ (H.get c_a).children ∨ g ∈ (H.get c_b).children) → absKids H' fuel g = absKids H fuel g ∧
      ∀ f, fuel = f + 1 → ∀ y, InSub H' f g y → InSub H f g y) := by
  have hma : c_a ∈ (H.get n).children := List.mem_of_getElem? hca
  have hmb : c_b ∈ (H.get n).children := List.mem_of_getElem? hcb
  constructor
  · intro j c' hja hjb hj
    have hm : c' ∈ (H.get n).children := List.mem_of_getElem? hj
    apply abs_frame mn _ hmn hf fuel c' (h.childOk hm)
    intro x hx hbad
    rcases hbad with e | e | e
    · exact h.notInChild hmn hm (e ▸ hx)
    · exact sibling_apart mn cow hmn h hja hca hj ca ea x hx (Or.inl e)
    · exact sibling_apart mn cow hmn h hjb hcb hj cb eb x hx (Or.inl e)
  · intro g hg
    cases fuel with
    | zero => exact ⟨rfl, fun f e => by omega⟩
    | succ f =>
      -- the parent of `g` among the two children, and the other one
      have key : ∀ (p q : Nat) (c_p c_q cp cq : Nat), p ≠ q → (H.get n).children[p]? = some c_p →
          (H.get n).children[q]? = some c_q → (cp = c_p ∨ H.get cp = HNode.empty) → (cq = c_q ∨ H.get cq = HNode.empty) →
          g ∈ (H.get c_p).children → ∀ x, InSub H f g x → ¬ (x = n ∨ x = cp ∨ x = cq) := by
        intro p q c_p c_q cp cq hpq hp hq ep eq hgp x hx hbad
        have hmp : c_p ∈ (H.get n).children := List.mem_of_getElem? hp
        have hpok := (nodeOk_iff _ _ _ _).1 (h.childOk hmp)
        have hkp := hpok.2.2
        have hgok : nodeOk mn (2 * mn + 1) f (absNode H f g) = true := by
          have := hkp; rw [abs_succ] at this
          simp only [KidsOk, children_mk, items_mk] at this
          exact this.2 _ (List.mem_map.2 ⟨g, hgp, rfl⟩)
        have hgk := (nodeOk_iff _ _ _ _).1 hgok
        have hxp : InSub H (f + 1) c_p x := Or.inr ⟨g, hgp, hx⟩
        have hempty : ∀ z, H.get z = HNode.empty → x ≠ z := by
          intro z ez e
          have := empty_not_inside mn _ hmn H f g x hgk.2.2 hx (by rw [e, ez]; rfl)
          have h2 := hgk.1
          rw [abs_items, ← this, e, ez] at h2
          simp [HNode.empty] at h2; omega
        rcases hbad with e | e | e
        · exact h.notInChild hmn hmp (e ▸ hxp)
        · rcases ep with e2 | e2
          · -- `c_p` inside the subtree of its own child
            have hsp : Sorted (absNode H (f + 1) c_p).inorder := by
              have hs := h.sorted; rw [abs_succ, inorder_mk] at hs
              exact sorted_child _ _ hs _ (List.mem_map.2 ⟨c_p, hmp, rfl⟩) (by simpa using h.len)
            have hpne : (H.get c_p).items ≠ [] := by
              intro e3; have := hpok.1; rw [abs_items, e3] at this; simp at this; omega
            exact no_cycle mn _ H f c_p g hkp hsp hpne hgp (by rw [← e2, ← e]; exact hx)
          · exact hempty cp e2 e
        · rcases eq with e2 | e2
          · exact siblings_disjoint mn _ hmn H (f + 1) n h.kids h.sorted p q c_p c_q x hpq hp hq hxp
              (by rw [e, e2]; exact InSub.self H (f + 1) c_q)
          · exact hempty cq e2 e
      have hgok : nodeOk mn (2 * mn + 1) f (absNode H f g) = true := by
        rcases hg with hg | hg
        · have := ((nodeOk_iff _ _ _ _).1 (h.childOk hma)).2.2; rw [abs_succ] at this
          simp only [KidsOk, children_mk, items_mk] at this
          exact this.2 _ (List.mem_map.2 ⟨g, hg, rfl⟩)
        · have := ((nodeOk_iff _ _ _ _).1 (h.childOk hmb)).2.2; rw [abs_succ] at this
          simp only [KidsOk, children_mk, items_mk] at this
          exact this.2 _ (List.mem_map.2 ⟨g, hg, rfl⟩)
      have hfar : ∀ x, InSub H f g x → ¬ (x = n ∨ x = ca ∨ x = cb) := by
        rcases hg with hg | hg
        · exact key a b c_a c_b ca cb hab hca hcb ea eb hg
        · intro x hx hbad
          exact key b a c_b c_a cb ca (Ne.symm hab) hcb hca eb ea hg x hx
            (by rcases hbad with e | e | e; exact Or.inl e; exact Or.inr (Or.inr e); exact Or.inr (Or.inl e))
      have hfr := abs_frame mn _ hmn hf f g hgok hfar
      refine ⟨hfr.1, ?_⟩
      intro f' e y hy
      have e' : f' = f := by omega
      subst e'
      exact hfr.2 y hy

end Nv.C03.Cow
