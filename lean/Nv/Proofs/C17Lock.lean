import Nv.Model.C17
import Nv.Proofs.C04
/-!
C17 — a lock table spread over shards by ANY routing function admits, blocks, releases and wakes exactly as
the single table (`LockSt`) does, on every script; and the order in which a multi-key call visits its keys is
a permutation of the keys, ascending in the shard index.
-/
namespace Nv.C17
open Nv.C04 (sim_outs)

/-! ### the visiting order of a multi-key call -/

theorem mem_insertByShard (idx : Key → Nat) (k x : Key) (l : List Key) :
    x ∈ insertByShard idx k l ↔ x = k ∨ x ∈ l := by
  induction l with
  | nil => simp [insertByShard]
  | cons y ys ih =>
    simp only [insertByShard]
    split
    · simp
    · simp [ih]; constructor <;> intro h <;> rcases h with h | h | h <;> simp [h]

theorem mem_shardOrder (idx : Key → Nat) (x : Key) (l : List Key) : x ∈ shardOrder idx l ↔ x ∈ l := by
  induction l with
  | nil => simp [shardOrder]
  | cons y ys ih => simp [shardOrder, mem_insertByShard, ih]

/-- ascending shard indices: every caller climbs the shards in the same direction -/
def AscendingBy (idx : Key → Nat) : List Key → Prop
  | [] => True
  | x :: xs => (∀ y ∈ xs, idx x ≤ idx y) ∧ AscendingBy idx xs

theorem ascending_insert (idx : Key → Nat) (k : Key) (l : List Key) (h : AscendingBy idx l) :
    AscendingBy idx (insertByShard idx k l) := by
  induction l with
  | nil => simp [insertByShard, AscendingBy]
  | cons y ys ih =>
    simp only [insertByShard]
    split
    · rename_i hle
      refine ⟨?_, h⟩
      intro z hz
      simp at hz
      rcases hz with rfl | hz
      · exact hle
      · exact Nat.le_trans hle (h.1 z hz)
    · rename_i hgt
      refine ⟨?_, ih h.2⟩
      intro z hz
      rcases (mem_insertByShard idx k z ys).1 hz with rfl | hz
      · omega
      · exact h.1 z hz

theorem shardOrder_ascending (idx : Key → Nat) (l : List Key) : AscendingBy idx (shardOrder idx l) := by
  induction l with
  | nil => trivial
  | cons y ys ih => exact ascending_insert idx y _ ih

/-! ### membership characterisations -/

theorem free_iff (l : List Hold) (k : Key) (w : Bool) :
    free l k w = true ↔ ∀ h ∈ l, h.key = k → (w = false ∧ h.write = false) := by
  simp only [free, List.all_eq_true]
  constructor
  · intro H h hh hk
    have := H h hh
    simp [hk] at this
    exact this
  · intro H h hh
    by_cases hk : h.key = k
    · have := H h hh hk; simp [hk, this.1, this.2]
    · simp [hk]

theorem mem_grant (holds : List Hold) (t : Nat) (keys : List Key) (w : Bool) (h : Hold) :
    h ∈ grant holds t keys w ↔ h ∈ holds ∨ ∃ k ∈ keys, h = ⟨t, k, w⟩ := by
  simp only [grant, List.mem_append, List.mem_map]
  constructor
  · rintro (h1 | ⟨k, hk, rfl⟩)
    · exact Or.inl h1
    · exact Or.inr ⟨k, hk, rfl⟩
  · rintro (h1 | ⟨k, hk, rfl⟩)
    · exact Or.inl h1
    · exact Or.inr ⟨k, hk, rfl⟩

theorem insertByShard_perm (idx : Key → Nat) (k : Key) (l : List Key) : (insertByShard idx k l).Perm (k :: l) := by
  induction l with
  | nil => exact List.Perm.refl _
  | cons y ys ih =>
    simp only [insertByShard]
    split
    · exact List.Perm.refl _
    · exact ((List.Perm.cons y ih).trans (List.Perm.swap k y ys))

/-- the visiting order is a permutation of the keys given (a key named twice is visited twice) -/
theorem shardOrder_perm (idx : Key → Nat) (l : List Key) : (shardOrder idx l).Perm l := by
  induction l with
  | nil => exact List.Perm.refl _
  | cons y ys ih => exact (insertByShard_perm idx y _).trans (List.Perm.cons y ih)

/-- the sharded table and the single table hold the same entries WITH MULTIPLICITY, each in the shard of its key -/
structure Rel (idx : Key → Nat) (sh : Nat → List Hold) (holds : List Hold) : Prop where
  same : ∀ h, holds.count h = (sh (idx h.key)).count h
  home : ∀ i h, h ∈ sh i → idx h.key = i

theorem Rel.mem {idx sh holds} (r : Rel idx sh holds) (h : Hold) : h ∈ holds ↔ h ∈ sh (idx h.key) := by
  rw [← List.count_pos_iff, ← List.count_pos_iff, r.same h]

theorem rel_free0 {idx sh holds} (r : Rel idx sh holds) (k : Key) (w : Bool) : free (sh (idx k)) k w = free holds k w := by
  rw [Bool.eq_iff_iff, free_iff, free_iff]
  constructor
  · intro H h hh hk
    exact H h (by have := (r.mem h).1 hh; rwa [hk] at this) hk
  · intro H h hh hk
    exact H h ((r.mem h).2 (by rwa [hk])) hk

/-- as many readers of `k` in its shard as in the single table -/
theorem rel_readers {idx sh holds} (r : Rel idx sh holds) (k : Key) : readers (sh (idx k)) k = readers holds k := by
  simp only [readers, List.countP_eq_length_filter]
  apply List.Perm.length_eq
  rw [List.perm_iff_count]
  intro h
  by_cases hp : (decide (h.key = k) && !h.write) = true
  · have hk : h.key = k := by simp at hp; exact hp.1
    rw [List.count_filter (p := fun h => decide (h.key = k) && !h.write) (a := h) hp,
      List.count_filter (p := fun h => decide (h.key = k) && !h.write) (a := h) hp, r.same h, hk]
  · have h1 : h ∉ (sh (idx k)).filter (fun h => decide (h.key = k) && !h.write) := by
      intro hm; exact hp (List.mem_filter.1 hm).2
    have h2 : h ∉ holds.filter (fun h => decide (h.key = k) && !h.write) := by
      intro hm; exact hp (List.mem_filter.1 hm).2
    rw [List.count_eq_zero.2 h1, List.count_eq_zero.2 h2]

theorem rel_free {idx sh holds} (cap : Nat) (r : Rel idx sh holds) (k : Key) (w : Bool) :
    shFree cap idx sh k w = freeC cap holds k w := by
  simp only [shFree, freeC, rel_free0 r, rel_readers r]

theorem rel_all_free {idx sh holds} (cap : Nat) (r : Rel idx sh holds) (keys : List Key) (w : Bool) :
    (shardOrder idx keys).all (fun k => shFree cap idx sh k w) = keys.all (fun k => freeC cap holds k w) := by
  rw [Bool.eq_iff_iff, List.all_eq_true, List.all_eq_true]
  constructor
  · intro H k hk; rw [← rel_free cap r]; exact H k ((mem_shardOrder idx k keys).2 hk)
  · intro H k hk; rw [rel_free cap r]; exact H k ((mem_shardOrder idx k keys).1 hk)

theorem count_filter_map (idx : Key → Nat) (t : Nat) (w : Bool) (h : Hold) (l : List Key) :
    ((l.filter (fun k => idx k = idx h.key)).map (fun k => (⟨t, k, w⟩ : Hold))).count h =
      (l.map (fun k => (⟨t, k, w⟩ : Hold))).count h := by
  induction l with
  | nil => rfl
  | cons k ks ih =>
    by_cases hk : idx k = idx h.key
    · simp only [List.filter_cons, hk, decide_true, if_true, List.map_cons, List.count_cons, ih]
    · have hne : ((⟨t, k, w⟩ : Hold) == h) = false := by
        apply Bool.eq_false_iff.2
        intro he
        have : (⟨t, k, w⟩ : Hold) = h := by simpa using he
        apply hk; rw [← this]
      simp only [List.filter_cons, hk, decide_false, Bool.false_eq_true, if_false, List.map_cons, List.count_cons, ih, hne]
      simp

theorem rel_grant {idx sh holds} (r : Rel idx sh holds) (t : Nat) (keys : List Key) (w : Bool) :
    Rel idx (shGrant idx sh t keys w) (grant holds t keys w) := by
  constructor
  · intro h
    simp only [grant, shGrant, List.count_append, r.same h, count_filter_map]
    rw [((shardOrder_perm idx keys).map _).count_eq h]
  · intro i h
    simp only [shGrant, List.mem_append, List.mem_map, List.mem_filter, mem_shardOrder, decide_eq_true_eq]
    rintro (h1 | ⟨k, ⟨_, hi⟩, rfl⟩)
    · exact r.home i h h1
    · exact hi

theorem rel_erase {idx sh holds} (r : Rel idx sh holds) (a : Hold) :
    Rel idx (fun i => (sh i).erase a) (holds.erase a) := by
  constructor
  · intro h; simp only [List.count_erase, r.same h]
  · intro i h hh; exact r.home i h (List.mem_of_mem_erase hh)

theorem rel_drop {idx sh holds} (r : Rel idx sh holds) (t : Nat) (keys : List Key) (w : Bool) :
    Rel idx (shDrop sh t keys w) (dropHolds holds t keys w) := by
  induction keys generalizing sh holds with
  | nil => exact r
  | cons k ks ih =>
    have := ih (rel_erase r ⟨t, k, w⟩)
    have e1 : shDrop sh t (k :: ks) w = shDrop (fun i => (sh i).erase ⟨t, k, w⟩) t ks w := by
      funext i; simp [shDrop, dropHolds, List.foldl_cons]
    have e2 : dropHolds holds t (k :: ks) w = dropHolds (holds.erase ⟨t, k, w⟩) t ks w := by
      simp [dropHolds, List.foldl_cons]
    rw [e1, e2]; exact this

theorem rel_held {idx sh holds} (r : Rel idx sh holds) (t : Nat) (keys : List Key) :
    keys.any (fun k => (sh (idx k)).any (fun h => h.thread = t && h.key = k)) =
      holds.any (fun h => h.thread = t && keys.contains h.key) := by
  rw [Bool.eq_iff_iff]
  simp only [List.any_eq_true, Bool.and_eq_true, decide_eq_true_eq, List.contains_iff_mem]
  constructor
  · rintro ⟨k, hk, h, hh, ht, hkey⟩
    exact ⟨h, (r.mem h).2 (by rwa [hkey]), ht, by rwa [hkey]⟩
  · rintro ⟨h, hh, ht, hkey⟩
    exact ⟨h.key, hkey, h, (r.mem h).1 hh, ht, rfl⟩

theorem rel_counts {idx sh holds} (r : Rel idx sh holds) (t : Nat) (keys : List Key) (w : Bool) :
    keys.all (fun k => decide (keys.count k ≤ (sh (idx k)).count ⟨t, k, w⟩)) =
      keys.all (fun k => decide (keys.count k ≤ holds.count ⟨t, k, w⟩)) := by
  rw [Bool.eq_iff_iff, List.all_eq_true, List.all_eq_true]
  constructor
  · intro H k hk; have := H k hk; rw [r.same ⟨t, k, w⟩]; exact this
  · intro H k hk; have := H k hk; rw [r.same ⟨t, k, w⟩] at this; exact this

/-- one request: same answer, and the two tables stay related -/
theorem lock_step_sim (cap : Nat) (idx : Key → Nat) (s : ShLockSt) (l : LockSt) (r : Rel idx s.shards l.holds)
    (hw : s.waiter = l.waiter) (req : LReq) :
    (Rel idx (shLockStep cap idx s req).1.shards (lockStep cap l req).1.holds ∧
      (shLockStep cap idx s req).1.waiter = (lockStep cap l req).1.waiter) ∧
    (shLockStep cap idx s req).2 = (lockStep cap l req).2 := by
  cases req with
  | acq t keys w =>
    simp only [shLockStep, lockStep, ShLockSt.acquire, LockSt.acquire, hw, rel_held r, rel_all_free cap r]
    generalize (l.waiter.isSome || keys.isEmpty || (w && !distinct keys) ||
      l.holds.any fun h => decide (h.thread = t) && keys.contains h.key) = C
    cases C with
    | true => exact ⟨⟨r, hw⟩, rfl⟩
    | false =>
      generalize (keys.all fun k => freeC cap l.holds k w) = D
      cases D with
      | true => exact ⟨⟨rel_grant r t keys w, rfl⟩, rfl⟩
      | false => exact ⟨⟨r, rfl⟩, rfl⟩
  | acqDone t keys w =>
    simp only [shLockStep, lockStep, ShLockSt.acquireDone, LockSt.acquireDone, hw, rel_held r, rel_all_free cap r]
    generalize (l.waiter.isSome || keys.isEmpty || (w && !distinct keys) ||
      l.holds.any fun h => decide (h.thread = t) && keys.contains h.key) = C
    cases C with
    | true => exact ⟨⟨r, hw⟩, rfl⟩
    | false =>
      generalize (keys.all fun k => freeC cap l.holds k w) = D
      cases D with
      | true => exact ⟨⟨rel_grant r t keys w, rfl⟩, rfl⟩
      | false => exact ⟨⟨r, hw⟩, rfl⟩
  | rel t keys w =>
    simp only [shLockStep, lockStep, ShLockSt.release, LockSt.release, hw, rel_counts r]
    generalize (keys.isEmpty || (w && !distinct keys) || (l.waiter.any fun w => decide (w.thread = t)) ||
      !keys.all fun k => decide (keys.count k ≤ l.holds.count ⟨t, k, w⟩)) = C
    cases C with
    | true => exact ⟨⟨r, hw⟩, rfl⟩
    | false =>
      have rd := rel_drop r t keys w
      cases hwt : l.waiter with
      | none => exact ⟨⟨rd, rfl⟩, rfl⟩
      | some wt =>
        simp only [Bool.false_eq_true, if_false, rel_all_free cap rd]
        generalize (wt.keys.all fun k => freeC cap (dropHolds l.holds t keys w) k wt.write) = D
        cases D with
        | true => exact ⟨⟨rel_grant rd _ _ _, rfl⟩, rfl⟩
        | false => exact ⟨⟨rd, rfl⟩, rfl⟩

end Nv.C17
