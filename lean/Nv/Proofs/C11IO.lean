import Nv.Proofs.C11Unread
/-! C11 — simulation of WriteTo and ReadFrom (scripted writers / readers). -/
namespace Nv.C11
open Spec

theorem sim_writeTo {t : Bool} {i : St} {s : SSt} (R : Rel t i s) (w : Writer) :
    StepOk false (writeTo i w) (Spec.step s (.writeTo w)) := by
  have h1 := R.inv.off_le
  have hd := R.data
  have rst : Rel false (reset { i with lastRead := 0 }) ⟨[], .invalid⟩ :=
    ⟨inv_reset (inv_lastRead R.inv 0), by simp [reset], fun _ => by simp [LastRel, reset]⟩
  have adv : ∀ m, m ≤ (i.buf.drop i.off).length →
      Rel false { i with lastRead := 0, off := i.off + m } ⟨(i.buf.drop i.off).drop m, .invalid⟩ := by
    intro m hm
    simp at hm
    exact ⟨⟨by simp; omega, R.inv.len_le, R.inv.cap_le, R.inv.nil_cap⟩, by simp, fun _ => rfl⟩
  unfold writeTo Spec.step
  simp only
  rw [hd]
  by_cases he : (i.buf.drop i.off).length = 0
  · simp only [he, if_true]
    exact ⟨rfl, rst⟩
  · simp only [he, if_false]
    cases w with
    | over => exact ⟨rfl, inv_lastRead R.inv 0, hd ▸ rfl, fun _ => rfl⟩
    | all => exact ⟨rfl, rst⟩
    | short k =>
      simp only
      split
      · exact ⟨rfl, rst⟩
      · exact ⟨rfl, adv _ (Nat.min_le_right _ _)⟩
    | err k => exact ⟨rfl, adv _ (Nat.min_le_right _ _)⟩

/-- bytes the terminal event of a scripted reader may still deliver -/
def termTail : RTerm → Nat → Nat
  | .eof, tail => tail
  | .err, tail => tail
  | _, _ => 0

def termOut : RTerm → Nat → Out
  | .eof, n => .nErr n .nil
  | .err, n => .nErr n .readerErr
  | .neg, _ => .panic .negativeRead
  | .over, _ => .panic .sliceBounds

/-- what the loop keeps between two `Read` calls -/
structure RF (st s2 : St) : Prop where
  inv : Inv s2
  last : s2.lastRead = 0
  data : s2.buf.drop s2.off = st.buf.drop st.off

theorem rfg_none {c : Cfg} {st s1 : St} (hg : readFromGrow c st = (s1, none)) : (grow c st c.minRead).2 = none := by
  unfold readFromGrow at hg
  cases hh : grow c st c.minRead with
  | mk a r =>
    rw [hh] at hg
    cases r with
    | none => rfl
    | some i => simp at hg

/-- after `grow(MinRead)` and the reslice back: at least `MinRead` bytes of space behind the unchanged unread bytes -/
theorem rfg_some {c : Cfg} (hs : c.small ≤ allocLimit) {st s2 : St} {space : Nat} (h : Inv st) (hl : st.lastRead = 0)
    (hg : readFromGrow c st = (s2, some space)) :
    RF st s2 ∧ c.minRead ≤ space ∧ s2.buf.length + space ≤ s2.cap := by
  unfold readFromGrow at hg
  cases hh : grow c st c.minRead with
  | mk s1 r =>
    rw [hh] at hg
    cases r with
    | none => simp at hg
    | some i =>
      simp only [Prod.mk.injEq, Option.some.injEq] at hg
      obtain ⟨rfl, rfl⟩ := hg
      have g := grow_some hs h hh
      have h1 := g.off_le; have h2 := g.len; have h3 := g.inv.len_le
      refine ⟨⟨⟨by simp; omega, by simp; omega, g.inv.cap_le, g.inv.nil_cap⟩, ?_, g.data⟩, by omega, by simp; omega⟩
      rcases g.last with l | l
      · simp only; rw [l, hl]
      · exact l

/-- the bytes a `Read` call stored are appended to the unread contents -/
theorem rf_append {st s2 : St} {space : Nat} (k : RF st s2) (hsp : s2.buf.length + space ≤ s2.cap) (d : Bytes)
    (hd : d.length ≤ space) : RF ⟨st.buf.drop st.off ++ d, 0, 0, 0, false⟩ { s2 with buf := s2.buf ++ d } ∧
      ({ s2 with buf := s2.buf ++ d } : St).buf.drop s2.off = st.buf.drop st.off ++ d := by
  have h1 := k.inv.off_le
  have e : (s2.buf ++ d).drop s2.off = st.buf.drop st.off ++ d := by
    rw [List.drop_append_of_le_length h1, k.data]
  exact ⟨⟨⟨by simp; omega, by simp; omega, k.inv.cap_le, k.inv.nil_cap⟩, k.last, by simpa using e⟩, e⟩

theorem readFromTerm_sim {c : Cfg} (hs : c.small ≤ allocLimit) (tail : Nat) (term : RTerm) (ht : tail ≤ c.minRead)
    (data : Bytes) (st : St) (acc : Nat) (h : Inv st) (hl : st.lastRead = 0) :
    (readFromTerm c tail term data st acc).2 = .panic .tooLarge ∨
    (Inv (readFromTerm c tail term data st acc).1 ∧ (readFromTerm c tail term data st acc).1.lastRead = 0 ∧
     (readFromTerm c tail term data st acc).1.buf.drop (readFromTerm c tail term data st acc).1.off
        = st.buf.drop st.off ++ data.take (termTail term tail) ∧
     (readFromTerm c tail term data st acc).2 = termOut term (acc + (data.take (termTail term tail)).length)) := by
  unfold readFromTerm
  cases hg : readFromGrow c st with
  | mk s2 r =>
    cases r with
    | none => left; rfl
    | some space =>
      right
      have k := rfg_some hs h hl hg
      have e : min tail space = tail := by have := k.2.1; omega
      have a := rf_append k.1 k.2.2 (data.take tail) (by simp; have := k.2.1; omega)
      cases term with
      | neg => exact ⟨k.1.inv, k.1.last, by simp [termTail, k.1.data], rfl⟩
      | over => exact ⟨k.1.inv, k.1.last, by simp [termTail, k.1.data], rfl⟩
      | eof => simp only [e, termTail, termOut]; exact ⟨a.1.inv, a.1.last, a.2, trivial⟩
      | err => simp only [e, termTail, termOut]; exact ⟨a.1.inv, a.1.last, a.2, trivial⟩

/-- a greedy reader hands over all of its data whatever space it is offered (`MinRead ≥ 1`) -/
theorem readFromGreedy_sim {c : Cfg} (hs : c.small ≤ allocLimit) (hm : 1 ≤ c.minRead) (tail : Nat) (term : RTerm)
    (ht : tail ≤ c.minRead) :
    ∀ (fuel : Nat) (data : Bytes) (st : St) (acc : Nat), Inv st → st.lastRead = 0 → data.length ≤ fuel →
      (readFromGreedy c tail term fuel data st acc).2 = .panic .tooLarge ∨
      (Inv (readFromGreedy c tail term fuel data st acc).1 ∧ (readFromGreedy c tail term fuel data st acc).1.lastRead = 0 ∧
       (readFromGreedy c tail term fuel data st acc).1.buf.drop (readFromGreedy c tail term fuel data st acc).1.off
          = st.buf.drop st.off ++ data ∧
       (readFromGreedy c tail term fuel data st acc).2 = termOut term (acc + data.length)) := by
  have base : ∀ (data : Bytes) (st : St) (acc : Nat), Inv st → st.lastRead = 0 → data.length = 0 →
      (readFromTerm c tail term data st acc).2 = .panic .tooLarge ∨
      (Inv (readFromTerm c tail term data st acc).1 ∧ (readFromTerm c tail term data st acc).1.lastRead = 0 ∧
       (readFromTerm c tail term data st acc).1.buf.drop (readFromTerm c tail term data st acc).1.off
          = st.buf.drop st.off ++ data ∧
       (readFromTerm c tail term data st acc).2 = termOut term (acc + data.length)) := by
    intro data st acc h hl h0
    have hnil : data = [] := List.eq_nil_of_length_eq_zero h0
    subst hnil
    rcases readFromTerm_sim hs tail term ht [] st acc h hl with hh | hh
    · left; exact hh
    · right; simpa using hh
  intro fuel
  induction fuel with
  | zero =>
    intro data st acc h hl hf
    unfold readFromGreedy
    exact base data st acc h hl (by omega)
  | succ fuel ih =>
    intro data st acc h hl hf
    unfold readFromGreedy
    by_cases h0 : data.length = 0
    · rw [if_pos h0]
      exact base data st acc h hl h0
    · rw [if_neg h0]
      cases hg : readFromGrow c st with
      | mk s2 r =>
        cases r with
        | none => left; rfl
        | some space =>
          simp only
          have k := rfg_some hs h hl hg
          have hdl : (data.take space).length = min space data.length := List.length_take
          have a := rf_append k.1 k.2.2 (data.take space) (by rw [hdl]; omega)
          have hsp := k.2.1
          rcases ih (data.drop (data.take space).length) { s2 with buf := s2.buf ++ data.take space }
              (acc + (data.take space).length) a.1.inv a.1.last (by simp; omega) with hh | hh
          · left; exact hh
          · right
            refine ⟨hh.1, hh.2.1, ?_, ?_⟩
            · rw [hh.2.2.1]
              simp only [a.2, drop_take_length, List.append_assoc, List.take_append_drop]
            · rw [hh.2.2.2]
              congr 1
              simp only [List.length_drop, List.length_take]
              omega

theorem readFromLoop_sim {c : Cfg} (hs : c.small ≤ allocLimit) (hm : 1 ≤ c.minRead) (tail : Nat) (term : RTerm)
    (greedy : Bool) (ht : tail ≤ c.minRead) :
    ∀ (sizes : List Nat) (data : Bytes) (st : St) (acc : Nat), Inv st → st.lastRead = 0 →
      (∀ k ∈ sizes, k ≤ c.minRead) →
      (readFromLoop c tail term greedy sizes data st acc).2 = .panic .tooLarge ∨
      (Inv (readFromLoop c tail term greedy sizes data st acc).1 ∧
       (readFromLoop c tail term greedy sizes data st acc).1.lastRead = 0 ∧
       (readFromLoop c tail term greedy sizes data st acc).1.buf.drop (readFromLoop c tail term greedy sizes data st acc).1.off
          = st.buf.drop st.off ++ delivered greedy sizes (termTail term tail) data ∧
       (readFromLoop c tail term greedy sizes data st acc).2
          = termOut term (acc + (delivered greedy sizes (termTail term tail) data).length)) := by
  intro sizes
  induction sizes with
  | nil =>
    intro data st acc h hl _
    unfold readFromLoop
    cases greedy with
    | true =>
      simp only [if_true, delivered]
      exact readFromGreedy_sim hs hm tail term ht data.length data st acc h hl (Nat.le_refl _)
    | false =>
      simp only [Bool.false_eq_true, if_false, delivered]
      exact readFromTerm_sim hs tail term ht data st acc h hl
  | cons k sizes ih =>
    intro data st acc h hl hk
    unfold readFromLoop
    cases hg : readFromGrow c st with
    | mk s2 r =>
      cases r with
      | none => left; rfl
      | some space =>
        simp only
        have kk := rfg_some hs h hl hg
        have hkm := hk k (by simp)
        have e : min k space = k := by have := kk.2.1; omega
        rw [e]
        have a := rf_append kk.1 kk.2.2 (data.take k) (by simp; have := kk.2.1; omega)
        have hk' : ∀ j ∈ sizes, j ≤ c.minRead := fun j hj => hk j (by simp [hj])
        rcases ih (data.drop (data.take k).length) { s2 with buf := s2.buf ++ data.take k } (acc + (data.take k).length)
            a.1.inv a.1.last hk' with hh | hh
        · left; exact hh
        · right
          refine ⟨hh.1, hh.2.1, ?_, ?_⟩
          · rw [hh.2.2.1]
            simp only [a.2, delivered, drop_take_length, List.append_assoc]
          · rw [hh.2.2.2]
            simp only [delivered, drop_take_length, List.length_append, Nat.add_assoc]

theorem sim_readFrom {c : Cfg} (hs : c.small ≤ allocLimit) (hm : 1 ≤ c.minRead) {t : Bool} {i : St} {s : SSt}
    (R : Rel t i s) (r : Reader)
    (hk : ∀ k ∈ r.sizes, k ≤ c.minRead) (ht : r.tail ≤ c.minRead)
    (hmem : (readFrom c i r).2 ≠ .panic .tooLarge) :
    StepOk false (readFrom c i r) (Spec.step s (.readFrom r)) := by
  obtain ⟨data, sizes, tail, term, greedy⟩ := r
  unfold readFrom at hmem ⊢
  simp only at hk ht hmem ⊢
  rcases readFromLoop_sim hs hm tail term greedy ht sizes data { i with lastRead := 0 } 0 (inv_lastRead R.inv 0) rfl hk with hh | hh
  · exact absurd hh hmem
  · obtain ⟨a, b, d, e⟩ := hh
    unfold Spec.step
    cases term <;> simp only [termTail, termOut, Nat.zero_add] at d e ⊢ <;>
      exact ⟨e, a, by rw [d, R.data], fun _ => b⟩

end Nv.C11
