import Nv.Proofs.C03Ref5
/-! C03 — refinement B → A, part 6: descending into a child (`mutableChild` + recursive call) rebuilds the node as
layer A does. -/
namespace Nv.C03.Cow
open Nv.C03

theorem mem_take_pos {α} {l : List α} {i : Nat} {a : α} (h : a ∈ l.take i) : ∃ j, j < i ∧ l[j]? = some a := by
  obtain ⟨j, hj, e⟩ := List.mem_iff_getElem.1 h
  have hj' : j < i ∧ j < l.length := by
    have : j < min i l.length := by simpa using hj
    omega
  refine ⟨j, hj'.1, ?_⟩
  rw [List.getElem_take] at e
  rw [List.getElem?_eq_getElem hj'.2, e]

theorem mem_drop_pos {α} {l : List α} {k : Nat} {a : α} (h : a ∈ l.drop k) : ∃ j, k ≤ j ∧ l[j]? = some a := by
  obtain ⟨j, hj, e⟩ := List.mem_iff_getElem.1 h
  have hj' : k + j < l.length := by simp at hj; omega
  refine ⟨k + j, by omega, ?_⟩
  rw [List.getElem_drop] at e
  rw [List.getElem?_eq_getElem hj', e]

theorem getD_map {α β} [Inhabited β] (f : α → β) (l : List α) (i : Nat) (d : α) (hi : i < l.length) :
    (l.map f).getD i default = f (l.getD i d) := by
  simp [List.getD, hi]

theorem getD_getElem? {α} (l : List α) (i : Nat) (d : α) (hi : i < l.length) : l[i]? = some (l.getD i d) := by
  simp [List.getD, hi]

/-- mapping a list in which position `i` was replaced, when the other positions map alike -/
theorem map_setAt_other {α β} (f g : α → β) (l : List α) (i : Nat) (a : α) (b : β)
    (hrest : ∀ y, (y ∈ l.take i ∨ y ∈ l.drop (i + 1)) → f y = g y) (ha : f a = b) :
    (setAt l i a).map f = setAt (l.map g) i b := by
  simp only [setAt, List.map_append, List.map_cons, List.map_take, List.map_drop, ha]
  rw [← List.map_take, ← List.map_take, ← List.map_drop, ← List.map_drop]
  congr 1
  · exact List.map_congr_left (fun y hy => hrest y (Or.inl hy))
  · congr 1
    exact List.map_congr_left (fun y hy => hrest y (Or.inr hy))

/-- the sibling at another position is untouched by what happens inside child `i` -/
theorem sibling_apart (mn cow : Nat) (hmn : 1 ≤ mn) {H : Heap} {fuel n : Nat} (h : Inner mn cow H fuel n)
    {i j : Nat} {ci cj : Nat} (hij : j ≠ i) (hi : (H.get n).children[i]? = some ci) (hj : (H.get n).children[j]? = some cj)
    (ch : Nat) (hch : ch = ci ∨ H.get ch = HNode.empty) :
    ∀ y, InSub H fuel cj y → ¬ (y = ch ∨ InSub H fuel ci y) := by
  intro y hy hbad
  have hcjok := (nodeOk_iff _ _ _ _).1 (h.childOk (List.mem_of_getElem? hj))
  rcases hbad with rfl | hyi
  · rcases hch with e | e
    · subst e
      exact siblings_disjoint mn _ hmn H fuel n h.kids h.sorted j i cj y y hij hj hi hy (InSub.self H fuel y)
    · have := empty_not_inside mn _ hmn H fuel cj y hcjok.2.2 hy (by rw [e]; rfl)
      subst this
      have := hcjok.1; rw [abs_items, e] at this; simp [HNode.empty] at this; omega
  · exact siblings_disjoint mn _ hmn H fuel n h.kids h.sorted j i cj ci y hij hj hi hy hyi

/-- `mutableChild n i` followed by an operation `op` on the new child that refines the layer-A function `opA`:
    the node ends up denoting the node with child `i` replaced by `opA`'s result -/
theorem descend_abs (mn cow : Nat) (hmn : 1 ≤ mn) (H : Heap) (fuel n i : Nat) (h : Inner mn cow H fuel n)
    (hi : i < (H.get n).children.length) {α : Type} (op : Nat → M α) (resA : Node) (retA : α)
    (hop : ∀ (ch : Nat) (H1 : Heap), Sub mn cow H1 fuel ch →
      absNode H1 fuel ch = absNode H fuel ((H.get n).children.getD i n) →
      absNode ((op ch) H1).2 fuel ch = resA ∧ ((op ch) H1).1 = retA ∧ ((op ch) H1).2.tag ch = some cow ∧ WFree ((op ch) H1).2 ∧
      H1.size ≤ ((op ch) H1).2.size ∧ Frame H1 ((op ch) H1).2 (InSub H1 fuel ch) ∧
      (∀ y, InSub ((op ch) H1).2 fuel ch y → InSub H1 fuel ch y ∨ H1.get y = HNode.empty)) :
    let r1 := (Cow.mutableChild cow n i) H
    let r := (op r1.1) r1.2
    absNode r.2 (fuel + 1) n =
      .mk (H.get n).items (setAt ((H.get n).children.map (absNode H fuel)) i resA) ∧
    r.1 = retA ∧
    r.2.get n = ⟨(H.get n).items, setAt (H.get n).children i r1.1, some cow⟩ ∧
    WFree r.2 ∧ H.size ≤ r.2.size ∧ Frame H r.2 (InSub H (fuel + 1) n) ∧
    (∀ y, InSub r.2 (fuel + 1) n y → InSub H (fuel + 1) n y ∨ H.get y = HNode.empty) ∧
    (∀ c' ∈ (r.2.get n).children, ¬ InSub r.2 fuel c' n) := by
  obtain ⟨m1, m2, m3, m4, m5, m6, m7, m8, m9, m10⟩ := mutableChild_abs mn cow hmn H fuel n i h hi
  generalize (Cow.mutableChild cow n i) H = r1 at m1 m2 m3 m4 m5 m6 m7 m8 m9 m10
  obtain ⟨ch, H1⟩ := r1
  simp only at m1 m2 m3 m4 m5 m6 m7 m8 m9 m10 ⊢
  have hcm : (H.get n).children.getD i n ∈ (H.get n).children := getD_mem _ i n hi
  have hpos : (H.get n).children[i]? = some ((H.get n).children.getD i n) := getD_getElem? _ i n hi
  generalize hc : (H.get n).children.getD i n = c at *
  have hcok := (nodeOk_iff _ _ _ _).1 (h.childOk hcm)
  -- the new child is a well-formed owned subtree
  have hsub : Sub mn cow H1 fuel ch := by
    refine ⟨by rw [m2]; exact hcok.2.2, ?_, m5, m6, Or.inl ?_⟩
    · rw [m2]
      have hs := h.sorted; rw [abs_succ, inorder_mk] at hs
      exact sorted_child _ _ hs _ (List.mem_map.2 ⟨c, hcm, rfl⟩) (by simpa using h.len)
    · intro e
      have := hcok.1; rw [← m2, abs_items, e] at this; simp at this; omega
  obtain ⟨o1, o0, o2, o3, o4, o5, o6⟩ := hop ch H1 hsub m2
  generalize (op ch) H1 = rr at o1 o0 o2 o3 o4 o5 o6 ⊢
  obtain ⟨rv, H2⟩ := rr
  simp only at o1 o0 o2 o3 o4 o5 o6 ⊢
  -- the node's own cell is not touched by the operation on the child
  have hchn : ch ≠ n := by
    rcases m10 with e | e
    · intro e2; exact h.notInChild hmn hcm (by rw [← e, e2]; exact InSub.self H fuel n)
    · intro e2; rw [e2] at e; exact h.ne_empty' e
  have hn_not : ¬ InSub H1 fuel ch n := by
    intro hin
    rcases m9 n hin with e | e
    · exact hchn e.symm
    · exact h.notInChild hmn hcm e
  have hn1ne : H1.get n ≠ HNode.empty := by rw [m1]; simp [HNode.empty]
  have hn2 : H2.get n = H1.get n := o5 n hn_not hn1ne
  -- siblings
  have hsib : ∀ c', (c' ∈ (H.get n).children.take i ∨ c' ∈ (H.get n).children.drop (i + 1)) →
      absNode H2 fuel c' = absNode H fuel c' ∧ ∀ y, InSub H2 fuel c' y → InSub H fuel c' y := by
    intro c' hc'
    have hpos' : ∃ j, j ≠ i ∧ (H.get n).children[j]? = some c' := by
      rcases hc' with hc' | hc'
      · obtain ⟨j, hj, e⟩ := mem_take_pos hc'; exact ⟨j, by omega, e⟩
      · obtain ⟨j, hj, e⟩ := mem_drop_pos hc'; exact ⟨j, by omega, e⟩
    obtain ⟨j, hji, hj⟩ := hpos'
    have hc'm : c' ∈ (H.get n).children := List.mem_of_getElem? hj
    have h01 := h.child_frame hmn m8 hc'm
    have hok1 : nodeOk mn (2 * mn + 1) fuel (absNode H1 fuel c') = true := by rw [h01.1]; exact h.childOk hc'm
    have hap := sibling_apart mn cow hmn h hji hpos hj ch m10
    have h12 := abs_frame mn _ hmn o5 fuel c' hok1 (fun y hy hbad => hap y (h01.2 y hy) (m9 y hbad))
    exact ⟨h12.1.trans h01.1, fun y hy => h01.2 y (h12.2 y hy)⟩
  refine ⟨?_, o0, by rw [hn2, m1], o3, Nat.le_trans m7 o4, ?_, ?_, ?_⟩
  · rw [abs_succ, hn2, m1]
    congr 1
    exact map_setAt_other _ _ _ i ch resA (fun y hy => (hsib y hy).1) o1
  · apply Frame.trans (m8.mono (fun y e => e ▸ InSub.self H (fuel + 1) n)) o5
    intro y hy
    rcases m9 y hy with rfl | e
    · rcases m10 with e | e
      · left; exact Or.inr ⟨c, hcm, e ▸ InSub.self H fuel c⟩
      · right; exact e
    · left; exact Or.inr ⟨c, hcm, e⟩
  · intro y hy
    rcases hy with rfl | ⟨c', hc', hy⟩
    · exact Or.inl (Or.inl rfl)
    · rw [hn2, m1] at hc'
      simp only [setAt, List.mem_append, List.mem_cons] at hc'
      rcases hc' with hc' | rfl | hc'
      · exact Or.inl (Or.inr ⟨c', List.mem_of_mem_take hc', (hsib c' (Or.inl hc')).2 y hy⟩)
      · rcases o6 y hy with e | e
        · rcases m9 y e with rfl | e
          · rcases m10 with e | e
            · left; exact Or.inr ⟨c, hcm, e ▸ InSub.self H fuel c⟩
            · right; exact e
          · left; exact Or.inr ⟨c, hcm, e⟩
        · rcases frame_empty m8 y e with e | e
          · exact Or.inl (Or.inl e)
          · exact Or.inr e
      · exact Or.inl (Or.inr ⟨c', List.mem_of_mem_drop hc', (hsib c' (Or.inr hc')).2 y hy⟩)
  · intro c' hc' hin
    rw [hn2, m1] at hc'
    simp only [setAt, List.mem_append, List.mem_cons] at hc'
    rcases hc' with hc' | rfl | hc'
    · exact h.notInChild hmn (List.mem_of_mem_take hc') ((hsib c' (Or.inl hc')).2 n hin)
    · rcases o6 n hin with e | e
      · exact hn_not e
      · exact hn1ne e
    · exact h.notInChild hmn (List.mem_of_mem_drop hc') ((hsib c' (Or.inr hc')).2 n hin)

end Nv.C03.Cow
