import Nv.Proofs.C20Fmt
/-! C20 — helper lemmas: quote stripping, the integer wrappers' exact-or-error and round trip. -/
namespace Nv.C20

/-! ### list facts about `b[1:len-1]` -/

theorem inner_quoted (s : Bytes) : inner (34 :: (s ++ [34])) = s := by
  simp [inner]

theorem isQuoted_quoted (s : Bytes) : isQuoted (34 :: (s ++ [34])) = true := by
  have : (34 :: (s ++ [34])).getLast? = some 34 := by rw [← List.cons_append, List.getLast?_concat]
  simp [isQuoted, quote, this]

theorem length_quoted (s : Bytes) : (34 :: (s ++ [34])).length = s.length + 2 := by simp

/-- a list of length ≥ 2 whose first and last element are quotes is `"` ++ inner ++ `"` -/
theorem eq_quoted_of_isQuoted {b : Bytes} (hq : isQuoted b = true) (hl : ¬ b.length < 2) :
    b = 34 :: (inner b ++ [34]) := by
  cases b with
  | nil => simp at hl
  | cons x xs =>
    simp only [isQuoted, quote, List.head?_cons, decide_eq_true_eq, Option.some.injEq] at hq
    obtain ⟨hx, hlast⟩ := hq
    subst hx
    have hne : xs ≠ [] := by intro h; subst h; simp at hl
    rw [List.getLast?_cons_of_ne_nil hne] at hlast
    have hl2 : xs.getLast hne = 34 := by
      rw [List.getLast?_eq_some_getLast hne] at hlast; exact Option.some.inj hlast
    have := List.dropLast_concat_getLast hne
    simp only [inner, List.drop_succ_cons, List.drop_zero]
    rw [← hl2, this]

/-! ### `strip` under a checked kind -/

theorem strip_checked_quoted {w : Wrap} (hw : w.Checked) {b s : Bytes} (h : strip w b = .quoted s) :
    b = 34 :: (s ++ [34]) := by
  unfold strip at h
  split at h
  · cases h
  · rcases hw with hk | hk <;> simp only [hk] at h
    all_goals
      split at h
      · cases h
      · split at h
        · rename_i hq
          split at h
          · cases h
          · rename_i hl
            simp only [Stripped.quoted.injEq] at h
            subst h
            exact eq_quoted_of_isQuoted hq hl
        · cases h

theorem strip_checked_bare {w : Wrap} (hw : w.Checked) {b s : Bytes} (h : strip w b = .bare s) : s = b := by
  unfold strip at h
  split at h
  · cases h
  · rcases hw with hk | hk <;> simp only [hk] at h
    all_goals
      split at h
      · cases h
      · split at h
        · split at h <;> cases h
        · first | (simp only [Stripped.bare.injEq] at h; exact h.symm) | cases h

/-- a quoted, long-enough token is stripped to its content by every known kind -/
theorem strip_quoted (w : Wrap) (hk : w.kind ≠ .unknown) (s : Bytes) (hl : w.minLen ≤ s.length + 2) :
    strip w (34 :: (s ++ [34])) = .quoted s := by
  unfold strip
  rw [if_neg (by rw [length_quoted]; omega)]
  cases hkind : w.kind with
  | unknown => exact absurd hkind hk
  | unconditional => simp [inner_quoted]
  | checkedBare => simp [isQuoted_quoted, inner_quoted]
  | checkedOnly => simp [isQuoted_quoted, inner_quoted]

/-! ### decimal soundness in terms of `denotesCore` -/

theorem denotesCore_of_parseInt {bits : Nat} {s : Bytes} {v : Int} (h : parseInt 10 bits s = .ok v) :
    denotesCore s v ∧ -(2 ^ (bits - 1) : Int) ≤ v ∧ v < 2 ^ (bits - 1) := by
  obtain ⟨neg, t, hs, hneg, hne, hd, hv, hr⟩ := parseInt_ok 10 bits h
  have hdig := (baseDigits10_iff t).1 hd
  have hval := baseVal10_decVal t hdig
  refine ⟨?_, hr⟩
  rcases hs with hs | hs | hs
  · subst hs
    have : neg = false := by
      cases neg with
      | false => rfl
      | true =>
        have h45 := hneg.1 rfl
        have hlen := congrArg List.length h45
        simp at hlen
    subst this
    left; exact ⟨⟨hne, hdig⟩, by simpa [hval] using hv⟩
  · have : neg = false := by
      cases neg with
      | false => rfl
      | true => have := hneg.1 rfl; rw [hs] at this; simp at this
    subst this
    right; left; exact ⟨t, hs, ⟨hne, hdig⟩, by simpa [hval] using hv⟩
  · have : neg = true := hneg.2 hs
    subst this
    right; right; exact ⟨t, hs, ⟨hne, hdig⟩, by simpa [hval] using hv⟩

theorem decDigits_baseDigits {t : Bytes} (h : DecDigits t) : t ≠ [] ∧ BaseDigits 10 t ∧ baseVal 10 0 t = decVal t :=
  ⟨h.1, (baseDigits10_iff t).2 h.2, baseVal10_decVal t h.2⟩

/-- completeness of `Atoi`-style parsing on denoted, in-range numbers -/
theorem parseInt_of_denotesCore {bits : Nat} (hbits : 1 ≤ bits) {s : Bytes} {v : Int} (hd : denotesCore s v)
    (hlo : -(2 ^ (bits - 1) : Int) ≤ v) (hhi : v < 2 ^ (bits - 1)) : parseInt 10 bits s = .ok v := by
  rcases hd with ⟨hd, hv⟩ | ⟨t, hs, hd, hv⟩ | ⟨t, hs, hd, hv⟩
  · obtain ⟨h1, h2, h3⟩ := decDigits_baseDigits hd
    have := parseInt_complete_pos 10 bits (by omega) hbits h1 h2 (by rw [h3]; rw [hv] at hhi; exact_mod_cast hhi)
    rw [this, h3, hv]
  · obtain ⟨h1, h2, h3⟩ := decDigits_baseDigits hd
    have := parseInt_complete_plus 10 bits (by omega) hbits h1 h2 (by rw [h3]; rw [hv] at hhi; exact_mod_cast hhi)
    rw [hs, this, h3, hv]
  · obtain ⟨h1, h2, h3⟩ := decDigits_baseDigits hd
    have hle : decVal t ≤ 2 ^ (bits - 1) := by
      rw [hv] at hlo
      have : (decVal t : Int) ≤ (2 : Int) ^ (bits - 1) := by omega
      exact_mod_cast this
    have := parseInt_complete_neg 10 bits (by omega) hbits h1 h2 (by rw [h3]; exact hle)
    rw [hs, this, h3, hv]

/-- a denoted number outside the range is a range error — never a wrapped or truncated value -/
theorem parseInt_range_of_denotesCore {bits : Nat} (hbits : 1 ≤ bits) {s : Bytes} {v : Int} (hd : denotesCore s v)
    (hout : v < -(2 ^ (bits - 1) : Int) ∨ 2 ^ (bits - 1) ≤ v) : parseInt 10 bits s = .err .range := by
  have hpow : 2 ^ (bits - 1) < 2 ^ bits := Nat.pow_lt_pow_right (by omega) (by omega)
  have key : ∀ (t : Bytes) (neg : Bool), DecDigits t →
      (if neg then 2 ^ (bits - 1) < decVal t else 2 ^ (bits - 1) ≤ decVal t) →
      signedOf bits neg (parseUint 10 bits t) = .err .range := by
    intro t neg hdt hbig
    by_cases hfit : decVal t < 2 ^ bits
    · rw [parseUint10_complete hdt hfit]
      cases neg with
      | true => simp only [if_true] at hbig; simp [signedOf, hbig]
      | false => simp only [Bool.false_eq_true, if_false] at hbig; simp [signedOf, hbig]
    · rw [parseUint10_overflow hdt (by omega)]; rfl
  have nonneg : ∀ t : Bytes, (0 : Int) ≤ (decVal t : Int) := fun t => Int.natCast_nonneg _
  have hp : (0 : Int) < 2 ^ (bits - 1) := Int.pow_pos (by omega)
  rcases hd with ⟨hd, hv⟩ | ⟨t, hs, hd, hv⟩ | ⟨t, hs, hd, hv⟩
  · have hbig : 2 ^ (bits - 1) ≤ decVal s := by
      have := nonneg s
      have : (2 : Int) ^ (bits - 1) ≤ (decVal s : Int) := by omega
      exact_mod_cast this
    cases s with
    | nil => exact absurd rfl hd.1
    | cons c cs =>
      have hs := baseDigits_head_not_sign ((baseDigits10_iff _).2 hd.2)
      simp only [parseInt, if_neg hs.1, if_neg hs.2]
      exact key _ false hd (by simpa using hbig)
  · have hbig : 2 ^ (bits - 1) ≤ decVal t := by
      have := nonneg t
      have : (2 : Int) ^ (bits - 1) ≤ (decVal t : Int) := by omega
      exact_mod_cast this
    subst hs
    simp only [parseInt, if_true]
    exact key _ false hd (by simpa using hbig)
  · have hbig : 2 ^ (bits - 1) < decVal t := by
      have := nonneg t
      have : (2 : Int) ^ (bits - 1) < (decVal t : Int) := by omega
      exact_mod_cast this
    subst hs
    simp only [parseInt, show (45 : Nat) ≠ 43 by decide, if_false, if_true]
    exact key _ true hd (by simpa using hbig)

/-! ### the integer wrappers -/

theorem toIntRes_ok {r : Res Nat} {v : Int} (h : toIntRes r = .ok v) : ∃ n, r = .ok n ∧ v = (n : Int) := by
  cases r with
  | ok n => exact ⟨n, rfl, by simpa [toIntRes] using h.symm⟩
  | err e => simp [toIntRes] at h
  | panic => simp [toIntRes] at h

/-- what a successful scalar parse means, for the two decimal parsers -/
theorem runParser_ok {p : Parser} (hp : p = .atoi ∨ p = .parseUint64) {s : Bytes} {v : Int}
    (h : runParser p s = .ok v) : denotesCore s v ∧ -(2 ^ 63 : Int) ≤ v ∧ v < 2 ^ 64 := by
  rcases hp with hp | hp <;> subst hp
  · have := denotesCore_of_parseInt (bits := 64) (by simpa [runParser, atoi] using h)
    refine ⟨this.1, this.2.1, ?_⟩
    have := this.2.2
    omega
  · obtain ⟨n, hr, hv⟩ := toIntRes_ok (by simpa [runParser] using h)
    have := parseUint10_ok hr
    refine ⟨Or.inl ⟨this.1, by rw [hv, this.2.1]⟩, ?_, ?_⟩
    · rw [hv]; have : (0 : Int) ≤ (n : Int) := Int.natCast_nonneg n; omega
    · rw [hv]; exact_mod_cast this.2.2

/-- exact-or-error for an integer wrapper with checked quotes -/
theorem decodeInt_exact {w : Wrap} (hw : w.Checked) (hp : w.parser = .atoi ∨ w.parser = .parseUint64)
    {b : Bytes} {v : Int} (h : decodeInt w b = .ok v) : denotes b v ∧ -(2 ^ 63 : Int) ≤ v ∧ v < 2 ^ 64 := by
  unfold decodeInt at h
  split at h
  · cases h
  · cases h
  · rename_i s hs
    have hb := strip_checked_bare hw hs
    subst hb
    have := runParser_ok hp h
    exact ⟨Or.inr this.1, this.2⟩
  · rename_i s hs
    have hb := strip_checked_quoted hw hs
    split at h
    · rename_i hz
      simp only [Bool.and_eq_true, List.isEmpty_iff] at hz
      simp only [Res.ok.injEq] at h
      subst h
      refine ⟨Or.inl ⟨s, hb, Or.inr ⟨hz.2, rfl⟩⟩, by omega, by omega⟩
    · have := runParser_ok hp h
      exact ⟨Or.inl ⟨s, hb, Or.inl this.1⟩, this.2⟩

theorem fmtInt_ne_nil (v : Int) (hlo : -(2 ^ 63 : Int) ≤ v) (hhi : v < 2 ^ 63) : fmtInt 10 v ≠ [] := by
  unfold fmtInt
  split
  · simp
  · exact (fmtNat_spec 10 (by omega) (by omega) v.toNat (by omega)).1

/-- marshal then unmarshal, signed (JsInt64, JsUnixTime, JsNanoTime, UnixStamp) -/
theorem decodeInt_encodeInt (w : Wrap) (hk : w.kind ≠ .unknown) (hl : w.minLen ≤ 3) (hp : w.parser = .atoi)
    (v : Int) (hlo : -(2 ^ 63 : Int) ≤ v) (hhi : v < 2 ^ 63) : decodeInt w (encodeInt v) = .ok v := by
  have hne := fmtInt_ne_nil v hlo hhi
  have hlen : 1 ≤ (fmtInt 10 v).length := by
    cases h : fmtInt 10 v with
    | nil => exact absurd h hne
    | cons _ _ => simp
  unfold decodeInt encodeInt
  simp only [quote]
  rw [strip_quoted w hk _ (by omega)]
  simp only [hp, runParser, atoi]
  rw [parseInt_fmtInt 10 (by omega) (by omega) v hlo hhi]
  cases hf : fmtInt 10 v with
  | nil => exact absurd hf hne
  | cons _ _ => simp

/-- marshal then unmarshal, unsigned (JsUInt64) -/
theorem decodeInt_encodeNat (w : Wrap) (hk : w.kind ≠ .unknown) (hl : w.minLen ≤ 3) (hp : w.parser = .parseUint64)
    (n : Nat) (hn : n < 2 ^ 64) : decodeInt w (encodeNat n) = .ok (n : Int) := by
  have sp := fmtNat_spec 10 (by omega) (by omega) n hn
  have hlen : 1 ≤ (fmtNat 10 n).length := by
    cases h : fmtNat 10 n with
    | nil => exact absurd h sp.1
    | cons _ _ => simp
  unfold decodeInt encodeNat
  simp only [quote]
  rw [strip_quoted w hk _ (by omega)]
  simp only [hp, runParser]
  rw [parseUint_fmtNat 10 (by omega) (by omega) n hn]
  cases hf : fmtNat 10 n with
  | nil => exact absurd hf sp.1
  | cons _ _ => simp [toIntRes]

/-- the strconv parsers never panic -/
theorem runParser_no_panic (p : Parser) (s : Bytes) : runParser p s ≠ .panic := by
  have hu : ∀ base bits n t, parseUintLoop base bits n t ≠ .panic := by
    intro base bits n t
    induction t generalizing n with
    | nil => simp [parseUintLoop]
    | cons c cs ih =>
      simp only [parseUintLoop]
      split
      · simp
      · split
        · simp
        · split
          · simp
          · exact ih _
  have hpu : ∀ base bits t, parseUint base bits t ≠ .panic := by
    intro base bits t
    cases t with
    | nil => simp [parseUint]
    | cons c cs => simp only [parseUint]; exact hu _ _ _ _
  have hs : ∀ bits neg (r : Res Nat), r ≠ .panic → signedOf bits neg r ≠ .panic := by
    intro bits neg r hr
    cases r with
    | panic => exact absurd rfl hr
    | err e => simp [signedOf]
    | ok un => simp only [signedOf]; split <;> split <;> simp
  cases p with
  | atoi =>
    simp only [runParser, atoi]
    cases s with
    | nil => simp [parseInt]
    | cons c cs =>
      simp only [parseInt]
      split
      · exact hs _ _ _ (hpu _ _ _)
      · split
        · exact hs _ _ _ (hpu _ _ _)
        · exact hs _ _ _ (hpu _ _ _)
  | parseUint64 =>
    simp only [runParser]
    cases h : parseUint 10 64 s with
    | panic => exact absurd h (hpu _ _ _)
    | err e => simp [toIntRes]
    | ok n => simp [toIntRes]
  | parseDuration => simp [runParser]
  | fromString => simp [runParser]
  | unknown => simp [runParser]

end Nv.C20
