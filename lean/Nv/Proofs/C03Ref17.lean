import Nv.Proofs.C03Ref16

/-! C03 refinement, part 17 (delete path): stealing an item from the right sibling. -/

namespace Nv.C03.Cow
open Nv.C03

theorem setAt_setAt_succ {α} (l : List α) (i : Nat) (a b : α) (hi : i + 1 < l.length) :
    setAt (setAt l i a) (i + 1) b = l.take i ++ a :: b :: l.drop (i + 2) := by
  have hlen : (l.take i).length = i := by simp; omega
  have e1 : (setAt l i a).take (i + 1) = l.take i ++ [a] := take_succ_setAt l i a (by omega)
  have e2 : (setAt l i a).drop (i + 1 + 1) = l.drop (i + 2) := by
    have : (setAt l i a).drop (i + 1 + 1) = ((setAt l i a).drop (i + 1)).drop 1 := by rw [List.drop_drop]
    rw [this, drop_succ_setAt l i a (by omega), List.drop_drop]
  simp only [setAt] at e1 e2 ⊢
  rw [e1, e2]
  simp

theorem stealRight_abs (mn cow : Nat) (hmn : 1 ≤ mn) (H : Heap) (fuel n i : Nat) (h : Inner mn cow H fuel n)
    (hi1 : i + 1 < (H.get n).children.length) :
    GrowOut cow H fuel n (stealRightB cow n i H)
      (setAt (H.get n).items i
        ((((H.get n).children.map (absNode H fuel)).getD (i + 1) default).items.head?.getD default))
      (((H.get n).children.map (absNode H fuel)).take i ++
        .mk ((((H.get n).children.map (absNode H fuel)).getD i default).items ++ [(H.get n).items.getD i default])
            ((((H.get n).children.map (absNode H fuel)).getD i default).children ++
              (((H.get n).children.map (absNode H fuel)).getD (i + 1) default).children.take 1) ::
        .mk ((((H.get n).children.map (absNode H fuel)).getD (i + 1) default).items.drop 1)
            ((((H.get n).children.map (absNode H fuel)).getD (i + 1) default).children.drop 1) ::
        ((H.get n).children.map (absNode H fuel)).drop (i + 2)) := by
  have hi : i < (H.get n).children.length := by omega
  have hb : i + 1 < (H.get n).children.length := hi1
  have hab : i ≠ i + 1 := by omega
  unfold stealRightB
  obtain ⟨t1, t2, t3, t4, t5, t6, t7, t8, t9⟩ := twoMutable mn cow hmn H fuel n i (i + 1) h hi hb hab
  generalize (Cow.mutableChild cow n i) H = r1 at t1 t2 t3 t4 t5 t6 t7 t8 t9
  obtain ⟨ca, H1⟩ := r1
  simp only at t1 t2 t3 t4 t5 t6 t7 t8 t9 ⊢
  generalize (Cow.mutableChild cow n (i + 1)) H1 = r2 at t1 t2 t3 t4 t5 t6 t7 t8 t9
  obtain ⟨cb, H2⟩ := r2
  simp only at t1 t2 t3 t4 t5 t6 t7 t8 t9 ⊢
  rw [t1, t2, t3]
  simp only
  have hpa : (H.get n).children[i]? = some ((H.get n).children.getD i n) := getD_getElem? _ i n hi
  have hpb : (H.get n).children[i + 1]? = some ((H.get n).children.getD (i + 1) n) := getD_getElem? _ (i + 1) n hb
  have hma : (H.get n).children.getD i n ∈ (H.get n).children := getD_mem _ i n hi
  have hmb : (H.get n).children.getD (i + 1) n ∈ (H.get n).children := getD_mem _ (i + 1) n hb
  generalize hca : (H.get n).children.getD i n = c_a at *
  generalize hcb : (H.get n).children.getD (i + 1) n = c_b at *
  obtain ⟨q1, q2, q3, q4, q5, q6⟩ := threeWrites cow H2 n ca cb t4 (by rw [t1]) (by rw [t2]) (by rw [t3]) t7
    ((H.get c_b).items.drop 1) ((H.get c_b).children.drop 1)
    ((H.get c_a).items ++ [(H.get n).items.getD i default])
    ((H.get c_a).children ++ (H.get c_b).children.take 1)
    (setAt (H.get n).items i ((H.get c_b).items.head?.getD default))
    (setAt (setAt (H.get n).children i ca) (i + 1) cb)
  generalize ((Cow.wr n (setAt (H.get n).items i ((H.get c_b).items.head?.getD default))
      (setAt (setAt (H.get n).children i ca) (i + 1) cb))
    ((Cow.wr ca ((H.get c_a).items ++ [(H.get n).items.getD i default])
      ((H.get c_a).children ++ (H.get c_b).children.take 1))
      ((Cow.wr cb ((H.get c_b).items.drop 1) ((H.get c_b).children.drop 1)) H2).2).2).2 = H5 at q1 q2 q3 q4 q5 q6
  -- only the node and the two children changed
  have hf : Frame H H5 (fun x => x = n ∨ x = ca ∨ x = cb) := by
    intro x hx hne
    have e1 : H2.get x = H.get x := t9 x (fun e => hx (Or.inl e)) hne
    rw [q4 x (fun e => hx (Or.inl e)) (fun e => hx (Or.inr (Or.inl e))) (fun e => hx (Or.inr (Or.inr e))), e1]
  obtain ⟨F1, _⟩ := far_frame mn cow hmn h hab hpa hpb t5 t6 hf
  obtain ⟨ra1, ra2⟩ := rebuild_cell mn cow hmn h hab hpa hpb t5 t6 hf ca _ _ _ q2 (by
    intro g hg
    simp only [List.mem_append] at hg
    rcases hg with hg | hg
    · exact Or.inl hg
    · exact Or.inr (List.mem_of_mem_take hg))
  obtain ⟨rb1, rb2⟩ := rebuild_cell mn cow hmn h hab hpa hpb t5 t6 hf cb _ _ _ q3
    (fun g hg => Or.inr (List.mem_of_mem_drop hg))
  -- the denotations of the two children in the original store
  have eA : ((H.get n).children.map (absNode H fuel)).getD i default = absNode H fuel c_a := by
    rw [getD_map _ _ i n hi, hca]
  have eB : ((H.get n).children.map (absNode H fuel)).getD (i + 1) default = absNode H fuel c_b := by
    rw [getD_map _ _ (i + 1) n hb, hcb]
  rw [eA, eB]
  have kA := abs_kids H fuel c_a
  have kB := abs_kids H fuel c_b
  have hsib : ∀ c', (c' ∈ (H.get n).children.take i ∨ c' ∈ (H.get n).children.drop (i + 2)) →
      absNode H5 fuel c' = absNode H fuel c' ∧ ∀ y, InSub H5 fuel c' y → InSub H fuel c' y := by
    intro c' hc'
    rcases hc' with hc' | hc'
    · obtain ⟨j, hj, e⟩ := mem_take_pos hc'; exact F1 j c' (by omega) (by omega) e
    · obtain ⟨j, hj, e⟩ := mem_drop_pos hc'; exact F1 j c' (by omega) (by omega) e
  refine ⟨?_, by simp only [Heap.tag]; rw [q1], q5, by rw [q6]; exact t8, frame_to_sub hma hmb t5 t6 hf, ?_⟩
  · rw [abs_succ, q1]
    simp only
    rw [setAt_setAt_succ _ _ _ _ hi1]
    simp only [List.map_append, List.map_cons]
    rw [ra1, rb1, kA, kB]
    simp only [items_mk, children_mk, List.map_append, List.map_take,
      List.map_drop]
    congr 1
    refine congr (congrArg _ ?_) (congrArg _ (congrArg _ ?_))
    · rw [← List.map_take, ← List.map_take]; exact List.map_congr_left (fun y hy => (hsib y (Or.inl hy)).1)
    · rw [← List.map_drop, ← List.map_drop]; exact List.map_congr_left (fun y hy => (hsib y (Or.inr hy)).1)
  · intro y hy
    rcases hy with e | ⟨c', hc', hy⟩
    · exact Or.inl (Or.inl e)
    · rw [q1] at hc'
      simp only at hc'
      rw [setAt_setAt_succ _ _ _ _ hi1] at hc'
      simp only [List.mem_append, List.mem_cons] at hc'
      have hboth : ∀ z, (z = ca ∨ z = cb) → y = z ∨ InSub H fuel c_a y ∨ InSub H fuel c_b y →
          InSub H (fuel + 1) n y ∨ H.get y = HNode.empty := by
        intro z hz hyz
        rcases hyz with e | e | e
        · rcases hz with e2 | e2
          · rcases t5 with e3 | e3
            · exact Or.inl (Or.inr ⟨c_a, hma, by rw [e, e2, e3]; exact InSub.self H fuel c_a⟩)
            · exact Or.inr (by rw [e, e2, e3])
          · rcases t6 with e3 | e3
            · exact Or.inl (Or.inr ⟨c_b, hmb, by rw [e, e2, e3]; exact InSub.self H fuel c_b⟩)
            · exact Or.inr (by rw [e, e2, e3])
        · exact Or.inl (Or.inr ⟨c_a, hma, e⟩)
        · exact Or.inl (Or.inr ⟨c_b, hmb, e⟩)
      rcases hc' with hc' | rfl | rfl | hc'
      · exact Or.inl (Or.inr ⟨c', List.mem_of_mem_take hc', (hsib c' (Or.inl hc')).2 y hy⟩)
      · exact hboth c' (Or.inl rfl) (ra2 y hy)
      · exact hboth c' (Or.inr rfl) (rb2 y hy)
      · exact Or.inl (Or.inr ⟨c', List.mem_of_mem_drop hc', (hsib c' (Or.inr hc')).2 y hy⟩)

end Nv.C03.Cow
