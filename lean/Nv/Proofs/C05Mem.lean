import Nv.Proofs.C05Inv
import Nv.Spec.C05
/-! C05 — proofs of the in-memory cache properties (bound, expired-as-absent, consume-once, latest Set). -/
namespace Nv.C05

/-! ### Get, characterised on the index -/

theorem get_value_iff {m : Mem} {now : Int} {k : Key} {o : GetOpt} {v : Val} :
    (m.get now k o).2 = .value v ↔ ∃ n, m.lookup k = some n ∧ expired now n.dl = false ∧ n.val = v := by
  cases hl : m.lookup k with
  | none => simp [Mem.get, hl]
  | some n =>
    cases he : expired now n.dl <;> by_cases hr : o.remove = true <;> simp [Mem.get, hl, he, hr]

theorem get_notFound_iff {m : Mem} {now : Int} {k : Key} {o : GetOpt} :
    (m.get now k o).2 = .notFound ↔ (m.lookup k = none ∨ ∃ n, m.lookup k = some n ∧ expired now n.dl = true) := by
  cases hl : m.lookup k with
  | none => simp [Mem.get, hl]
  | some n =>
    cases he : expired now n.dl <;> by_cases hr : o.remove = true <;> simp [Mem.get, hl, he, hr]

/-! ### bound -/

theorem nodup_subset_length {ks l : List Key} (hn : ks.Nodup) (hs : ∀ k ∈ ks, k ∈ l) : ks.length ≤ l.length := by
  induction ks generalizing l with
  | nil => simp
  | cons a ks ih =>
    have hn' := List.nodup_cons.1 hn
    have ha : a ∈ l := hs a (by simp)
    have hsub : ∀ k ∈ ks, k ∈ l.erase a := by
      intro k hk
      have hne : k ≠ a := fun e => hn'.1 (e ▸ hk)
      exact (List.mem_erase_of_ne hne).2 (hs k (by simp [hk]))
    have := ih hn'.2 hsub
    have hl := List.length_erase_of_mem ha
    have : 0 < l.length := List.length_pos_of_mem ha
    simp only [List.length_cons]; omega

theorem indexed_length_le {m : Mem} (h : Bounded m) : m.indexed.length ≤ m.size := by
  obtain ⟨h1, h2⟩ := h
  simp [Mem.indexed, h1, keys]; exact h2

theorem retrievable_length_le {m : Mem} (h : Bounded m) (now : Int) : (m.retrievable now).length ≤ m.size :=
  Nat.le_trans (List.length_filter_le _ _) (indexed_length_le h)

theorem hit_mem_indexed {m : Mem} {now : Int} {k : Key} {o : GetOpt} {v : Val} (h : (m.get now k o).2 = .value v) :
    k ∈ m.indexed := by
  obtain ⟨n, hn, _, _⟩ := get_value_iff.1 h
  exact lookup_mem_indexed hn

theorem step_size (c : Cfg) (m : Mem) (now : Int) (op : Op) : (m.step c now op).1.size = m.size := by
  cases op with
  | set k v o =>
    simp only [Mem.step, Mem.set, Mem.setCore]
    have hp : (m.preSet c now k).size = m.size := by
      unfold Mem.preSet; split
      · exact size_purge m now k
      · rfl
    split
    · split
      · exact hp
      · rw [size_touch]; exact hp
    · rw [size_insertNew]; exact hp
  | get k o =>
    simp only [Mem.step, Mem.get]
    split
    · rfl
    · split
      · rfl
      · split
        · rfl
        · rw [size_touch]
  | remove k => rfl
  | clear => rfl
  | tick _ => rfl

theorem msys_mem_inv (c : Cfg) (Inv : Mem → Prop) (hstep : ∀ m now op, Inv m → Inv (m.step c now op).1) :
    ∀ (ops : List Op) (s : MSys), Inv s.mem → Inv (final (MSys.step c) s ops).mem := by
  intro ops
  induction ops with
  | nil => intro s h; exact h
  | cons op ops ih =>
    intro s h
    rw [final_cons]
    apply ih
    cases op <;> simp only [MSys.step] <;> first | exact h | exact hstep _ _ _ h

theorem msys_size (c : Cfg) : ∀ (ops : List Op) (s : MSys), (final (MSys.step c) s ops).mem.size = s.mem.size := by
  intro ops
  induction ops with
  | nil => intro s; rfl
  | cons op ops ih =>
    intro s
    rw [final_cons, ih]
    cases op <;> simp only [MSys.step] <;> first | rfl | exact step_size _ _ _ _

/-! ### an elapsed key behaves like a key that was never set -/

theorem eraseKey_idem (k : Key) (l : List Node) : eraseKey k (eraseKey k l) = eraseKey k l :=
  eraseKey_of_not_mem (fun h => (mem_keys_eraseKey.1 h).2 rfl)

theorem removeKey_idem (m : Mem) (k : Key) : (m.removeKey k).removeKey k = m.removeKey k := by
  simp [Mem.removeKey, eraseKey_idem]

theorem purge_expired {m : Mem} {now : Int} {k : Key} {n : Node} (hl : m.lookup k = some n)
    (he : expired now n.dl = true) : m.purgeIfExpired now k = m.removeKey k := by
  simp [Mem.purgeIfExpired, hl, he]

theorem purge_absent {m : Mem} {now : Int} {k : Key} (hl : m.lookup k = none) : m.purgeIfExpired now k = m := by
  simp [Mem.purgeIfExpired, hl]

theorem expired_set_as_absent {c : Cfg} (hc : c.setExpiry = .purge) {m : Mem} {now : Int} {k : Key} {n : Node}
    (hl : m.lookup k = some n) (he : expired now n.dl = true) (v : Val) (o : SetOpt) :
    m.set c now k v o = (m.removeKey k).set c now k v o := by
  simp only [Mem.set, Mem.preSet, hc, purge_expired hl he, purge_absent (lookup_removeKey_self m k)]

theorem expired_get_as_absent {m : Mem} {now : Int} {k : Key} {n : Node}
    (hl : m.lookup k = some n) (he : expired now n.dl = true) (o : GetOpt) :
    m.get now k o = (m.removeKey k).get now k o ∧ (m.get now k o).2 = .notFound := by
  simp [Mem.get, hl, he, lookup_removeKey_self]

theorem insertNew_lookup_self {c : Cfg} {m : Mem} (hs : 1 ≤ m.size) (n : Node) :
    (m.insertNew c n).lookup n.key = some n := by
  rcases insertNew_cases c m n with ⟨hgt, e⟩ | ⟨hl, _, e⟩ | ⟨_, e⟩ <;> rw [e]
  · cases hl : m.live with
    | nil => simp [hl] at hgt; omega
    | cons b l =>
      rw [List.dropLast_cons_of_ne_nil (by simp)]
      simp [Mem.lookup, findKey]
  · simp [Mem.lookup, findKey]
  · simp [Mem.lookup, findKey]

/-! ### one-shot reads -/

theorem get_remove_absent (m : Mem) (now : Int) (k : Key) (u : Option Int) :
    (m.get now k ⟨true, u⟩).1.lookup k = none := by
  unfold Mem.get
  split
  · rename_i h; exact h
  · split
    · exact lookup_removeKey_self m k
    · exact lookup_removeKey_self m k

theorem absent_stays_absent {c : Cfg} {m : Mem} {now : Int} {k : Key} (h : m.lookup k = none) (hwf : WF m) {op : Op}
    (hop : setsKey k op = false) : (m.step c now op).1.lookup k = none := by
  cases op with
  | set k' v o =>
    have hne : k ≠ k' := by
      intro e; simp [setsKey, e] at hop
    simp only [Mem.step, Mem.set]
    have hp : (m.preSet c now k').lookup k = none := by
      unfold Mem.preSet; split
      · unfold Mem.purgeIfExpired
        split
        · split
          · rw [lookup_removeKey_ne m hne]; exact h
          · exact h
        · exact h
      · exact h
    have hwf' : WF (m.preSet c now k') := wf_preSet hwf now k'
    generalize m.preSet c now k' = m' at hp hwf'
    unfold Mem.setCore
    split
    · rename_i x hx
      split
      · exact hp
      · have hk := lookup_key hx
        rw [lookup_touch_ne]
        · exact hp
        · simpa [hk] using hne
    · rename_i hn
      cases hr : (m'.insertNew c ⟨k', v, deadline now (setTtl m' o)⟩).lookup k with
      | none => rfl
      | some x =>
        rcases lookup_insertNew hwf' hn hr with ⟨e, _⟩ | ⟨_, e⟩
        · exact absurd e hne
        · rw [hp] at e; cases e
  | get k' o =>
    simp only [Mem.step]
    by_cases hk : k = k'
    · subst hk; simp [Mem.get, h]
    · unfold Mem.get
      split
      · exact h
      · rename_i x hx
        have hkx := lookup_key hx
        split
        · rw [lookup_removeKey_ne m hk]; exact h
        · split
          · rw [lookup_removeKey_ne m hk]; exact h
          · rw [lookup_touch_ne]
            · exact h
            · split <;> simpa [hkx] using hk
  | remove k' =>
    simp only [Mem.step]
    by_cases hk : k = k'
    · subst hk; exact lookup_removeKey_self m k
    · rw [lookup_removeKey_ne m hk]; exact h
  | clear => simp [Mem.step, Mem.clear, Mem.lookup, findKey]
  | tick _ => exact h

end Nv.C05
