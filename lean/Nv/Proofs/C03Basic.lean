import Nv.Spec.C03
/-!
C03 — basic lemmas: in-order decomposition of a node at a child index, facts about `findIdx`,
sortedness of parts, the shape predicate (children count, all leaves at one depth).
-/
namespace Nv.C03

/-! ### interleave -/

@[simp] theorem inorder_mk (is : List Item) (cs : List Node) : (Node.mk is cs).inorder = interleave is cs := by
  simp [Node.inorder]
@[simp] theorem interleave_nil_right (is : List Item) : interleave is [] = is := by
  cases is <;> simp [interleave]
@[simp] theorem interleave_nil_cons (c : Node) (cs : List Node) : interleave [] (c :: cs) = c.inorder := by
  simp [interleave]
@[simp] theorem interleave_cons_cons (i : Item) (is : List Item) (c : Node) (cs : List Node) :
    interleave (i :: is) (c :: cs) = c.inorder ++ i :: interleave is cs := by
  simp [interleave]

/-- `c₀ i₀ c₁ i₁ …` : the part of a node left of a child -/
def flatL : List Item → List Node → List Item
  | i :: is, c :: cs => c.inorder ++ i :: flatL is cs
  | _, _ => []

@[simp] theorem flatL_nil_left (cs : List Node) : flatL [] cs = [] := by simp [flatL]
@[simp] theorem flatL_nil_right (is : List Item) : flatL is [] = [] := by cases is <;> simp [flatL]
@[simp] theorem flatL_cons_cons (i : Item) (is : List Item) (c : Node) (cs : List Node) :
    flatL (i :: is) (c :: cs) = c.inorder ++ i :: flatL is cs := by simp [flatL]

/-- decomposition of a node's in-order list at index `n` -/
theorem interleave_split : ∀ (n : Nat) (is : List Item) (cs : List Node), cs.length = is.length + 1 → n ≤ is.length →
    interleave is cs = flatL (is.take n) (cs.take n) ++ interleave (is.drop n) (cs.drop n)
  | 0, is, cs, _, _ => by simp
  | n + 1, [], cs, _, hn => by simp at hn
  | n + 1, i :: is, [], h, _ => by simp at h
  | n + 1, i :: is, c :: cs, h, hn => by
    have := interleave_split n is cs (by simpa using h) (by simpa using hn)
    simp [this]

theorem flatL_append_single (is : List Item) (cs : List Node) (i : Item) (c : Node) (h : cs.length = is.length) :
    flatL (is ++ [i]) (cs ++ [c]) = flatL is cs ++ c.inorder ++ [i] := by
  induction is generalizing cs with
  | nil => cases cs with
    | nil => simp
    | cons _ _ => simp at h
  | cons j js ih => cases cs with
    | nil => simp at h
    | cons d ds => simp [ih ds (by simpa using h)]

/-- in-order list as left part, child `n`, right part -/
theorem interleave_at (n : Nat) (is : List Item) (cs : List Node) (h : cs.length = is.length + 1) (hn : n ≤ is.length) :
    interleave is cs = flatL (is.take n) (cs.take n) ++ (cs.getD n default).inorder ++
      (match is.drop n with
       | [] => []
       | i :: rest => i :: interleave rest (cs.drop (n + 1))) := by
  rw [interleave_split n is cs h hn]
  have hc : n < cs.length := by omega
  have : cs.drop n = cs.getD n default :: cs.drop (n + 1) := by
    have : cs.getD n default = cs[n] := by simp [List.getD, hc]
    rw [this]; exact List.drop_eq_getElem_cons hc
  rw [this]
  cases hd : is.drop n with
  | nil => simp
  | cons i rest => simp

/-! ### sortedness -/

theorem Sorted.append_left {a b : List Item} (h : Sorted (a ++ b)) : Sorted a := (List.pairwise_append.1 h).1
theorem Sorted.append_right {a b : List Item} (h : Sorted (a ++ b)) : Sorted b := (List.pairwise_append.1 h).2.1
theorem Sorted.lt_of_append {a b : List Item} (h : Sorted (a ++ b)) {x y : Item} (hx : x ∈ a) (hy : y ∈ b) :
    x.key < y.key := (List.pairwise_append.1 h).2.2 x hx y hy
theorem Sorted.tail {a : Item} {l : List Item} (h : Sorted (a :: l)) : Sorted l := (List.pairwise_cons.1 h).2
theorem Sorted.head_lt {a : Item} {l : List Item} (h : Sorted (a :: l)) {y : Item} (hy : y ∈ l) : a.key < y.key :=
  (List.pairwise_cons.1 h).1 y hy

theorem sorted_child : ∀ (is : List Item) (cs : List Node), Sorted (interleave is cs) → ∀ c ∈ cs,
    cs.length = is.length + 1 → Sorted c.inorder
  | _, [], _, c, hc, _ => by simp at hc
  | [], [d], h, c, hc, _ => by
    simp at hc; subst hc; simpa using h
  | [], _ :: _ :: _, _, _, _, hl => by simp at hl
  | i :: is, d :: ds, h, c, hc, hl => by
    simp only [interleave_cons_cons] at h
    rcases List.mem_cons.1 hc with rfl | hc
    · exact h.append_left
    · exact sorted_child is ds h.append_right.tail c hc (by simpa using hl)

theorem sorted_items : ∀ (is : List Item) (cs : List Node), Sorted (interleave is cs) → Sorted is
  | is, [], h => by simpa using h
  | [], _ :: _, _ => List.Pairwise.nil
  | i :: is, d :: ds, h => by
    simp only [interleave_cons_cons] at h
    have h2 := h.append_right
    refine List.pairwise_cons.2 ⟨?_, sorted_items is ds h2.tail⟩
    intro y hy
    have : y ∈ interleave is ds := by
      clear h h2
      induction is generalizing ds with
      | nil => simp at hy
      | cons j js ih =>
        cases ds with
        | nil => simpa using hy
        | cons e es =>
          simp only [interleave_cons_cons, List.mem_append, List.mem_cons]
          rcases List.mem_cons.1 hy with rfl | hy
          · right; left; rfl
          · right; right; exact ih es hy
    exact h2.head_lt this

theorem sorted_of_sortedKeys : ∀ (l : List Item), sortedKeys l = true → Sorted l
  | [], _ => List.Pairwise.nil
  | [_], _ => by simp [Sorted]
  | a :: b :: rest, h => by
    simp only [sortedKeys, Bool.and_eq_true, decide_eq_true_eq] at h
    have ih := sorted_of_sortedKeys (b :: rest) h.2
    refine List.pairwise_cons.2 ⟨?_, ih⟩
    intro y hy
    rcases List.mem_cons.1 hy with rfl | hy
    · exact h.1
    · have := ih.head_lt hy; omega

theorem sortedKeys_of_sorted : ∀ (l : List Item), Sorted l → sortedKeys l = true
  | [], _ => rfl
  | [_], _ => rfl
  | a :: b :: rest, h => by
    simp only [sortedKeys, Bool.and_eq_true, decide_eq_true_eq]
    exact ⟨h.head_lt (by simp), sortedKeys_of_sorted (b :: rest) h.tail⟩

theorem flatL_lt (s : Int) : ∀ (is : List Item) (cs : List Node) (rest : List Item),
    Sorted (flatL is cs ++ rest) → (∀ i ∈ is, i.key < s) → ∀ x ∈ flatL is cs, x.key < s
  | [], _, _, _, _, x, hx => by simp at hx
  | _ :: _, [], _, _, _, x, hx => by simp at hx
  | i :: is, c :: cs, rest, hs, hi, x, hx => by
    simp only [flatL_cons_cons, List.mem_append, List.mem_cons] at hx
    simp only [flatL_cons_cons, List.append_assoc, List.cons_append] at hs
    rcases hx with hx | rfl | hx
    · have := hs.lt_of_append hx (List.mem_cons_self)
      have := hi i (by simp); omega
    · exact hi _ (by simp)
    · exact flatL_lt s is cs rest hs.append_right.tail (fun j hj => hi j (by simp [hj])) x hx

/-! ### findIdx -/

theorem findIdx_le (is : List Item) (k : Int) : (findIdx is k).1 ≤ is.length := by
  induction is with
  | nil => simp [findIdx]
  | cons x xs ih =>
    simp only [findIdx]
    split
    · simp
    · split
      · simp
      · simp; omega

theorem findIdx_take_lt (is : List Item) (k : Int) : ∀ x ∈ is.take (findIdx is k).1, x.key < k := by
  induction is with
  | nil => simp [findIdx]
  | cons y ys ih =>
    simp only [findIdx]
    split
    · simp
    · split
      · simp
      · intro x hx
        simp only [List.take_succ_cons, List.mem_cons] at hx
        rcases hx with rfl | hx
        · omega
        · exact ih x hx

theorem findIdx_drop_ge (is : List Item) (k : Int) (hs : Sorted is) : ∀ x ∈ is.drop (findIdx is k).1, k ≤ x.key := by
  induction is with
  | nil => simp [findIdx]
  | cons y ys ih =>
    simp only [findIdx]
    split
    · intro x hx
      simp only [List.drop_zero, List.mem_cons] at hx
      rcases hx with rfl | hx
      · omega
      · have := hs.head_lt hx; omega
    · split
      · intro x hx
        simp only [List.drop_zero, List.mem_cons] at hx
        rcases hx with rfl | hx
        · omega
        · have := hs.head_lt hx; omega
      · intro x hx
        simp only [List.drop_succ_cons] at hx
        exact ih hs.tail x hx

/-- found iff the item at the index has the key -/
theorem findIdx_found (is : List Item) (k : Int) :
    (findIdx is k).2 = true ↔ ∃ x, is[(findIdx is k).1]? = some x ∧ x.key = k := by
  induction is with
  | nil => simp [findIdx]
  | cons y ys ih =>
    simp only [findIdx]
    split
    · simp; omega
    · split
      · simp; assumption
      · simpa using ih

theorem findIdx_not_found_gt (is : List Item) (k : Int) (hs : Sorted is) (hf : (findIdx is k).2 = false) :
    ∀ x ∈ is.drop (findIdx is k).1, k < x.key := by
  induction is with
  | nil => simp [findIdx]
  | cons y ys ih =>
    simp only [findIdx] at hf ⊢
    split
    · intro x hx
      simp only [List.drop_zero, List.mem_cons] at hx
      rcases hx with rfl | hx
      · assumption
      · have := hs.head_lt hx; omega
    · rename_i h1
      split
      · rename_i h2; simp [h2] at hf
      · rename_i h2
        simp only [h1, h2, if_false] at hf
        intro x hx
        simp only [List.drop_succ_cons] at hx
        exact ih hs.tail hf x hx

/-! ### shape -/

/-- children count and uniform leaf depth -/
def Shape : Nat → Node → Prop
  | 0, .mk _ cs => cs = []
  | h + 1, .mk is cs => cs.length = is.length + 1 ∧ ∀ c ∈ cs, Shape h c

theorem shape_of_nodeOk (mn mx : Nat) : ∀ (h : Nat) (n : Node), nodeOk mn mx h n = true → Shape h n
  | 0, .mk is cs, hk => by
    simp only [nodeOk, Bool.and_eq_true, List.isEmpty_iff, decide_eq_true_eq] at hk
    exact hk.1.1
  | h + 1, .mk is cs, hk => by
    simp only [nodeOk, Bool.and_eq_true, decide_eq_true_eq, List.all_eq_true] at hk
    exact ⟨hk.1.1.1, fun c hc => shape_of_nodeOk mn mx h c (hk.2 c hc)⟩

theorem height_of_shape : ∀ (h : Nat) (n : Node), Shape h n → height n = h
  | 0, .mk is cs, hs => by simp only [Shape] at hs; subst hs; simp [height]
  | h + 1, .mk is [], hs => by simp [Shape] at hs
  | h + 1, .mk is (c :: cs), hs => by
    simp only [Shape] at hs
    simp [height, height_of_shape h c (hs.2 c (by simp))]

theorem shape_of_rootOk (mn mx : Nat) : ∀ (r : Node), rootOk mn mx r = true → Shape (height r) r
  | .mk is [], _ => by simp [height, Shape]
  | .mk is (c :: cs), hk => by
    simp only [rootOk, Bool.and_eq_true, decide_eq_true_eq, List.all_eq_true] at hk
    simp only [height, Shape]
    exact ⟨hk.1.2, fun d hd => shape_of_nodeOk mn mx _ d (hk.2 d hd)⟩

end Nv.C03
