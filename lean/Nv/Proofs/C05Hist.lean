import Nv.Proofs.C05Mem
/-! C05 — history-level proofs: one-shot reads (at most one consumer), successful Get = latest successful Set. -/
namespace Nv.C05

/-- events of a run: each call with its result -/
def events (c : Cfg) (s : MSys) (ops : List Op) : List (Op × Out) := ops.zip (outs (MSys.step c) s ops)

theorem events_cons (c : Cfg) (s : MSys) (op : Op) (ops : List Op) :
    events c s (op :: ops) = (op, (MSys.step c s op).2) :: events c (MSys.step c s op).1 ops := by
  simp [events]

theorem msys_step_mem (c : Cfg) (s : MSys) (op : Op) :
    (MSys.step c s op).1.mem = (s.mem.step c (secOf s.clock) op).1 ∧
    (MSys.step c s op).2 = (s.mem.step c (secOf s.clock) op).2 := by
  cases op <;> simp [MSys.step, Mem.step]

/-! ### at most one consumer -/

theorem consumes_absent {c : Cfg} : ∀ (ops : List Op) (s : MSys) (k : Key), WF s.mem → s.mem.lookup k = none →
    (∀ op ∈ ops, setsKey k op = false) → consumes k (events c s ops) = 0 := by
  intro ops
  induction ops with
  | nil => intro s k _ _ _; rfl
  | cons op ops ih =>
    intro s k hwf habs hops
    rw [events_cons]
    obtain ⟨hm, ho⟩ := msys_step_mem c s op
    have hop : setsKey k op = false := hops op (by simp)
    have hrest := ih (MSys.step c s op).1 k (by rw [hm]; exact wf_step hwf _ _)
      (by rw [hm]; exact absent_stays_absent habs hwf hop) (fun o ho => hops o (by simp [ho]))
    cases op with
    | get k' o =>
      by_cases hk : k' = k
      · subst hk
        have : (MSys.step c s (.get k' o)).2 = .notFound := by
          rw [ho]; simp [Mem.step, Mem.get, habs]
        rw [this]; simpa [consumes] using hrest
      · cases hout : (MSys.step c s (.get k' o)).2 <;> simp [consumes, hk, hrest]
    | set k' v o => simpa [consumes] using hrest
    | remove k' => simpa [consumes] using hrest
    | clear => simpa [consumes] using hrest
    | tick n => simpa [consumes] using hrest

theorem consumes_le_one {c : Cfg} : ∀ (ops : List Op) (s : MSys) (k : Key), WF s.mem →
    (∀ op ∈ ops, setsKey k op = false) → consumes k (events c s ops) ≤ 1 := by
  intro ops
  induction ops with
  | nil => intro s k _ _; simp [events, consumes]
  | cons op ops ih =>
    intro s k hwf hops
    rw [events_cons]
    obtain ⟨hm, ho⟩ := msys_step_mem c s op
    have hwf' : WF (MSys.step c s op).1.mem := by rw [hm]; exact wf_step hwf _ _
    have hops' : ∀ o ∈ ops, setsKey k o = false := fun o ho => hops o (by simp [ho])
    have hrest := ih (MSys.step c s op).1 k hwf' hops'
    cases op with
    | get k' o =>
      by_cases hk : k' = k ∧ o.remove = true
      · obtain ⟨hk1, hk2⟩ := hk
        subst hk1
        have habs : (MSys.step c s (.get k' o)).1.mem.lookup k' = none := by
          rw [hm]
          have : o = ⟨true, o.update⟩ := by cases o; simp_all
          rw [this]; exact get_remove_absent _ _ _ _
        have h0 := consumes_absent (c := c) ops _ k' hwf' habs hops'
        cases hout : (MSys.step c s (.get k' o)).2 <;> simp [consumes, h0, hk2]
      · cases hout : (MSys.step c s (.get k' o)).2 <;> simp [consumes, hk, hrest]
    | set k' v o => simpa [consumes] using hrest
    | remove k' => simpa [consumes] using hrest
    | clear => simpa [consumes] using hrest
    | tick n => simpa [consumes] using hrest

/-! ### a successful Get returns the value of the latest successful Set -/

def Agree (m : Mem) (f : Hist) : Prop := ∀ k n, m.lookup k = some n → f k = some n.val

theorem agree_removeKey {m : Mem} {f : Hist} (h : Agree m f) (k : Key) (g : Hist)
    (hg : ∀ k', k' ≠ k → g k' = f k') : Agree (m.removeKey k) g := by
  intro k' n hn
  by_cases hk : k' = k
  · subst hk; rw [lookup_removeKey_self] at hn; cases hn
  · rw [lookup_removeKey_ne m hk] at hn; rw [hg k' hk]; exact h k' n hn

theorem agree_touch {m : Mem} {f : Hist} (h : Agree m f) (n : Node) (g : Hist)
    (hg : ∀ k', k' ≠ n.key → g k' = f k') (hself : g n.key = some n.val) : Agree (m.touch n) g := by
  intro k' x hx
  by_cases hk : k' = n.key
  · subst hk; rw [lookup_touch_self] at hx; cases hx; exact hself
  · rw [lookup_touch_ne m n hk] at hx; rw [hg k' hk]; exact h k' x hx

theorem agree_step {c : Cfg} {m : Mem} {f : Hist} (hwf : WF m) (h : Agree m f) (now : Int) (op : Op) :
    (∀ k o v, op = .get k o → (m.step c now op).2 = .value v → f k = some v) ∧
    Agree (m.step c now op).1 (histStep f op (m.step c now op).2) := by
  cases op with
  | set k v o =>
    refine ⟨(by intro _ _ _ e; cases e), ?_⟩
    simp only [Mem.step, Mem.set]
    have hp : Agree (m.preSet c now k) f := by
      unfold Mem.preSet; split
      · unfold Mem.purgeIfExpired
        split
        · split
          · exact agree_removeKey h k f (fun _ _ => rfl)
          · exact h
        · exact h
      · exact h
    have hwf' : WF (m.preSet c now k) := wf_preSet hwf now k
    generalize m.preSet c now k = m' at hp hwf'
    unfold Mem.setCore
    split
    · rename_i x hx
      have hkx := lookup_key hx
      split
      · intro k' n hn; simpa [histStep] using hp k' n hn
      · apply agree_touch hp
        · intro k' hk'; simp only [hkx] at hk'; simp [histStep, hk']
        · simp [histStep, hkx]
    · rename_i hn
      intro k' x hx
      rcases lookup_insertNew hwf' hn hx with ⟨e1, e2⟩ | ⟨e1, e2⟩
      · simp only at e1; subst e1 e2; simp [histStep]
      · simp only at e1; simp [histStep, e1]; exact hp k' x e2
  | get k o =>
    constructor
    · intro k' o' v e hv
      cases e
      obtain ⟨n, hn, _, hv'⟩ := get_value_iff.1 hv
      rw [← hv']; exact h k n hn
    · simp only [Mem.step]
      cases hl : m.lookup k with
      | none =>
        simp only [Mem.get, hl]
        intro k' n hn
        by_cases hk : k' = k
        · subst hk; rw [hl] at hn; cases hn
        · simp [histStep, hk]; exact h k' n hn
      | some x =>
        have hkx := lookup_key hl
        cases he : expired now x.dl
        · by_cases hr : o.remove = true
          · simp only [Mem.get, hl, he, hr, if_true, Bool.false_eq_true, if_false]
            apply agree_removeKey h k
            intro k' hk'; simp [histStep, hk']
          · cases hu : o.update with
            | none =>
              simp only [Mem.get, hl, he, hr, hu, Bool.false_eq_true, if_false]
              apply agree_touch h
              · intro k' hk'; rw [hkx] at hk'; simp [histStep, hr]
              · rw [hkx]; simp [histStep, hr]; exact h k x hl
            | some t =>
              simp only [Mem.get, hl, he, hr, hu, Bool.false_eq_true, if_false]
              apply agree_touch h
              · intro k' hk'; simp [histStep, hr]
              · simp [histStep, hr, hkx]; exact h k x hl
        · simp only [Mem.get, hl, he, if_true]
          apply agree_removeKey h k
          intro k' hk'; simp [histStep, hk']
  | remove k =>
    refine ⟨(by intro _ _ _ e; cases e), ?_⟩
    simp only [Mem.step]
    apply agree_removeKey h k
    intro k' hk'; simp [histStep, hk']
  | clear =>
    refine ⟨(by intro _ _ _ e; cases e), ?_⟩
    intro k n hn; simp [Mem.step, Mem.clear, Mem.lookup, findKey] at hn
  | tick n =>
    refine ⟨(by intro _ _ _ e; cases e), ?_⟩
    intro k n hn; simpa [histStep] using h k n hn

theorem histOk_run {c : Cfg} : ∀ (ops : List Op) (s : MSys) (f : Hist), WF s.mem → Agree s.mem f →
    HistOk f (events c s ops) := by
  intro ops
  induction ops with
  | nil => intro s f _ _; simp [events, HistOk]
  | cons op ops ih =>
    intro s f hwf hag
    rw [events_cons]
    obtain ⟨hm, ho⟩ := msys_step_mem c s op
    obtain ⟨h1, h2⟩ := agree_step (c := c) hwf hag (secOf s.clock) op
    refine ⟨?_, ?_⟩
    · intro k o v e hv; rw [ho] at hv; exact h1 k o v e hv
    · apply ih
      · rw [hm]; exact wf_step hwf _ _
      · rw [hm, ho]; exact h2

end Nv.C05
