import Nv.Proofs.C02Dl2
/-!
C02 — deadlock freedom: responsibility for a blocked thread, the rank argument, finiteness of the table.
-/
namespace Nv.C02

/-- thread `t` is asleep inside `rwLocker.Lock()/RLock()` -/
def blockedT (s : State) (t : Tid) : Prop :=
  ∃ m all k o rest, (s.th t).phase = .acq m all ((k, o) :: rest) ∧ tryLock m t (s.objs o) = .blocked

theorem blocked_w {t : Tid} {w : Wrap} (h : tryLock .w t w = .blocked) :
    (w.wOwner = some t ∧ (w.readers ≠ [] ∨ w.tokens ≠ 0)) ∨ (∃ u, w.wOwner = some u ∧ u ≠ t) := by
  simp only [tryLock, tryW] at h
  split at h
  · next hown =>
    split at h
    · cases h
    · next hne =>
      left; refine ⟨hown, ?_⟩
      by_cases hr : w.readers = []
      · right; intro ht; exact hne ⟨hr, ht⟩
      · exact .inl hr
  · next hown =>
    split at h
    · cases h
    · next hsome =>
      right
      cases hw : w.wOwner with
      | none => exact absurd hw hsome
      | some u => exact ⟨u, rfl, fun e => hown (by rw [hw, e])⟩

theorem blocked_r {t : Tid} {w : Wrap} (h : tryLock .r t w = .blocked) : t ∈ w.pendR ∧ w.tokens = 0 := by
  simp only [tryLock, tryR] at h
  split at h
  · next hin =>
    split at h
    · cases h
    · next hz => exact ⟨hin, Nat.eq_zero_of_not_pos hz⟩
  · split at h
    · cases h
    · split at h <;> cases h

def holdsObj (s : State) (u : Tid) (o : ObjId) : Prop := ∃ k m, (k, o, m) ∈ (s.th u).held
def busyUnblocked (s : State) (u : Tid) : Prop := (s.th u).phase ≠ .idle ∧ ¬ blockedT s u

/-- whoever sleeps on an object sleeps because of a thread that holds it, or there is a thread that can move -/
theorem responsible {s : State} (hI : Inv s) (h2 : Inv2 s) {t : Tid} {m all k o rest}
    (hph : (s.th t).phase = .acq m all ((k, o) :: rest)) (hb : tryLock m t (s.objs o) = .blocked) :
    (∃ u, holdsObj s u o) ∨ (∃ u, busyUnblocked s u) := by
  have auxA : (s.objs o).readers ≠ [] → ∃ u, holdsObj s u o := by
    intro h
    obtain ⟨u, hu⟩ := List.exists_mem_of_ne_nil _ h
    obtain ⟨k', hk'⟩ := (hI.holdR u o).1 hu
    exact ⟨u, k', .r, hk'⟩
  have auxB : (s.objs o).tokens ≠ 0 → ∃ u, busyUnblocked s u := by
    intro h
    have hle := h2.tokLe o
    have hne : (s.objs o).pendR ≠ [] := by
      intro e; rw [e] at hle; simp at hle; exact h hle
    obtain ⟨p, hp⟩ := List.exists_mem_of_ne_nil _ hne
    obtain ⟨a', k', r', hp'⟩ := h2.pendRPh o p hp
    refine ⟨p, by rw [hp']; simp, ?_⟩
    rintro ⟨m2, a2, k2, o2, r2, e2, hb2⟩
    rw [hp'] at e2; cases e2
    have := blocked_r hb2
    exact h this.2
  have auxC : ∀ u, (s.objs o).wOwner = some u → (∃ u, holdsObj s u o) ∨ (∃ u, busyUnblocked s u) := by
    intro u hown
    rcases h2.ownW o u hown with hw | ⟨a', k', r', hu⟩
    · obtain ⟨k', hk'⟩ := (hI.holdW u o).1 hw
      exact .inl ⟨u, k', .w, hk'⟩
    · cases hres : tryLock .w u (s.objs o) with
      | blocked =>
        rcases blocked_w hres with ⟨_, hr | ht⟩ | ⟨v, hv, hne⟩
        · exact .inl (auxA hr)
        · exact .inr (auxB ht)
        · rw [hown] at hv; cases hv; exact absurd rfl hne
      | wait w1 =>
        right; refine ⟨u, by rw [hu]; simp, ?_⟩
        rintro ⟨m2, a2, k2, o2, r2, e2, hb2⟩
        rw [hu] at e2; cases e2; rw [hres] at hb2; cases hb2
      | enter w1 =>
        right; refine ⟨u, by rw [hu]; simp, ?_⟩
        rintro ⟨m2, a2, k2, o2, r2, e2, hb2⟩
        rw [hu] at e2; cases e2; rw [hres] at hb2; cases hb2
  cases m with
  | w =>
    rcases blocked_w hb with ⟨_, hr | ht⟩ | ⟨u, hu, _⟩
    · exact .inl (auxA hr)
    · exact .inr (auxB ht)
    · exact auxC u hu
  | r =>
    obtain ⟨hin, htok⟩ := blocked_r hb
    cases hown : (s.objs o).wOwner with
    | none =>
      have := h2.tokGe o hown
      rw [htok] at this
      have : (s.objs o).pendR = [] := List.eq_nil_of_length_eq_zero (by omega)
      rw [this] at hin; cases hin
    | some u => exact auxC u hown

/-! ### acquisition order -/

/-- keys of the current call not yet locked, in the order they will be locked -/
def seqKeys (th : Thread) : List Key := (pend th.phase).map (·.1) ++ future th.phase

/-- the thread acquires upwards: its remaining keys ascend in rank and lie above everything it holds -/
def OrdTh (rank : Key → Nat) (th : Thread) : Prop :=
  (seqKeys th).Pairwise (fun a b => rank a < rank b) ∧ ∀ h ∈ heldKeys th, ∀ k ∈ seqKeys th, rank h < rank k

def Ordered (rank : Key → Nat) (s : State) : Prop := ∀ t, OrdTh rank (s.th t)

/-- the rank argument: follow "waits for a holder" upwards; ranks of awaited keys are bounded by the table -/
theorem unblocked_exists {s : State} (hI : Inv s) (h2 : Inv2 s) (rank : Key → Nat) (hord : Ordered rank s)
    (R : Nat) (hR : ∀ k o, s.table k = some o → rank k < R) :
    ∀ (d : Nat) (t : Tid) {m all k o rest}, (s.th t).phase = .acq m all ((k, o) :: rest) →
      tryLock m t (s.objs o) = .blocked → R - rank k ≤ d →
      ∃ u, ¬ blockedT s u ∧ ((s.th u).phase ≠ .idle ∨ (s.th u).held ≠ []) := by
  intro d
  induction d with
  | zero =>
    intro t m all k o rest hph hb hd
    have htk : s.table k = some o := hI.refTab t k o m ((mem_refs_acq hph _).2 (.inr ⟨(k, o), by simp, rfl⟩))
    have := hR k o htk
    omega
  | succ d ih =>
    intro t m all k o rest hph hb hd
    have htk : s.table k = some o := hI.refTab t k o m ((mem_refs_acq hph _).2 (.inr ⟨(k, o), by simp, rfl⟩))
    rcases responsible hI h2 hph hb with ⟨u, k', m', hk'⟩ | ⟨u, hu1, hu2⟩
    · have hkk : k' = k := hI.tInj k' k o (hI.refTab u k' o m' (by simp [refs, hk'])) htk
      subst hkk
      by_cases hbu : blockedT s u
      · obtain ⟨m2, a2, k2, o2, r2, e2, hb2⟩ := hbu
        have hlt : rank k' < rank k2 := by
          apply (hord u).2 k' (List.mem_map.2 ⟨(k', o, m'), hk', rfl⟩) k2
          simp [seqKeys, pend, e2]
        have htk2 : s.table k2 = some o2 := hI.refTab u k2 o2 m2 ((mem_refs_acq e2 _).2 (.inr ⟨(k2, o2), by simp, rfl⟩))
        have := hR k2 o2 htk2
        exact ih u e2 hb2 (by omega)
      · exact ⟨u, hbu, .inr (by intro e; rw [e] at hk'; cases hk')⟩
    · exact ⟨u, hu2, .inl hu1⟩

/-- finitely many keys have an entry: an injective table into `[0, N)` has bounded rank -/
theorem rank_bound (rank : Key → Nat) : ∀ (N : Nat) (table : Key → Option ObjId),
    (∀ k o, table k = some o → o < N) → (∀ k1 k2 o, table k1 = some o → table k2 = some o → k1 = k2) →
    ∃ R, ∀ k o, table k = some o → rank k < R
  | 0, table, hN, _ => ⟨0, fun k o h => absurd (hN k o h) (Nat.not_lt_zero _)⟩
  | N + 1, table, hN, hinj => by
    by_cases hex : ∃ k0, table k0 = some N
    · obtain ⟨k0, hk0⟩ := hex
      let table' : Key → Option ObjId := fun k => if table k = some N then none else table k
      have h1 : ∀ k o, table' k = some o → o < N := by
        intro k o h
        simp only [table'] at h
        split at h
        · cases h
        · next hne =>
          have h3 := hN k o h
          have h4 : o ≠ N := fun e => hne (e ▸ h)
          exact Nat.lt_of_le_of_ne (Nat.le_of_lt_succ h3) h4
      have h2 : ∀ k1 k2 o, table' k1 = some o → table' k2 = some o → k1 = k2 := by
        intro k1 k2 o a b
        simp only [table'] at a b
        split at a
        · cases a
        · split at b
          · cases b
          · exact hinj k1 k2 o a b
      obtain ⟨R', hR'⟩ := rank_bound rank N table' h1 h2
      refine ⟨max R' (rank k0 + 1), ?_⟩
      intro k o h
      by_cases e : o = N
      · subst e
        have := hinj k k0 o h hk0
        subst this
        exact Nat.lt_of_lt_of_le (Nat.lt_succ_self _) (Nat.le_max_right _ _)
      · have : table' k = some o := by
          simp only [table']
          split
          · next hh => rw [h] at hh; cases hh; exact absurd rfl e
          · exact h
        exact Nat.lt_of_lt_of_le (hR' k o this) (Nat.le_max_left _ _)
    · apply rank_bound rank N table
      · intro k o h
        have h3 := hN k o h
        have h4 : o ≠ N := fun e => hex ⟨k, e ▸ h⟩
        exact Nat.lt_of_le_of_ne (Nat.le_of_lt_succ h3) h4
      · exact hinj

end Nv.C02
