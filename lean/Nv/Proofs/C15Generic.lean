import Nv.Proofs.C15Group
/-!
C15 — the coherence argument over ANY callbacks that meet their contract (`CBSpec`), not only the in-memory ones of the
model. `G.handle` is `handle` with the five `worker.go` callbacks (`loadFn`, `addFn`, `updFn`, `upsertFn`, `delFn`)
abstracted; `G.handle_mem` shows the model's handlers are the instance at `memCBs`, `memCBs_spec` that this instance
meets the contract.
-/
namespace Nv.C15

/-- the five store callbacks of a `Worker` -/
structure CBs where
  load : Ctx → Key → Except Err Val × Ctx
  add : Ctx → Key → Val → Except Err Val × Ctx
  upd : Ctx → Key → Val → Val → Except Err Val × Ctx
  upsert : Ctx → Key → Val → Option Val → Except Err Val × Ctx
  del : Ctx → Key → Except Err Unit × Ctx

/-- the contract: a load does not write and returns what is stored; a mutation either leaves the store as it was and
fails, or changes the store at its key only and returns the row now stored (`MutSpec`); an upsert that was not handed
the cached row may return a partial row but still writes at its key only; no callback touches the cache -/
structure CBSpec (cb : CBs) : Prop where
  load : ∀ {c c1 : Ctx} {k : Key} {r : Except Err Val}, cb.load c k = (r, c1) →
    c1.store = c.store ∧ c1.cache = c.cache ∧ (∀ v, r = .ok v → sGet c.store k = some v)
  add : ∀ {c c1 : Ctx} {k : Key} {v : Val} {r : Except Err Val}, cb.add c k v = (r, c1) → MutSpec k c c1 r
  upd : ∀ {c c1 : Ctx} {k : Key} {v e0 : Val} {r : Except Err Val}, cb.upd c k v e0 = (r, c1) → MutSpec k c c1 r
  upsert : ∀ {c c1 : Ctx} {k : Key} {v e0 : Val} {r : Except Err Val}, cb.upsert c k v (some e0) = (r, c1) → MutSpec k c c1 r
  upsertFrame : ∀ {c c1 : Ctx} {k : Key} {v : Val} {e0 : Option Val} {r : Except Err Val}, cb.upsert c k v e0 = (r, c1) →
    c1.cache = c.cache ∧ Frame k c.store c1.store
  del : ∀ {c c1 : Ctx} {k : Key} {r : Except Err Unit}, cb.del c k = (r, c1) →
    c1.cache = c.cache ∧ Frame k c.store c1.store ∧ (r = .ok () → sGet c1.store k = none) ∧
      (∀ e, r = .error e → c1.store = c.store)

namespace G

def hLoad (cb : CBs) (c : Ctx) (k : Key) : Ctx × Res :=
  match cGet c.cache k with
  | (some v, ca) => ({ c with cache := ca }, .ok v)
  | (none, ca) =>
    match cb.load { c with cache := ca } k with
    | (.error e, c) => (c, .err e)
    | (.ok v, c) => (setCache c k v, .ok v)

def hAdd (cb : CBs) (c : Ctx) (k : Key) (v : Val) : Ctx × Res :=
  match cPeek c.cache k with
  | some _ => (c, .err .dup)
  | none =>
    match cb.add c k v with
    | (.error e, c) => (c, .err e)
    | (.ok v, c) => (setCache c k v, .ok v)

def hUpdate (cb : CBs) (c : Ctx) (k : Key) (v : Val) : Ctx × Res :=
  match cPeek c.cache k with
  | some pre =>
    (match cb.upd c k v pre with
     | (.error e, c) => (c, .err e)
     | (.ok nv, c) => (setCache c k nv, .ok nv))
  | none =>
    match cb.load c k with
    | (.error e, c) => (c, .err e)
    | (.ok cur, c) =>
      match cb.upd c k v cur with
      | (.error e, c) => (c, .err e)
      | (.ok nv, c) => (setCache c k nv, .ok nv)

def hDelete (cb : CBs) (cfg : Cfg) (c : Ctx) (k : Key) : Ctx × Res :=
  match cfg.delOrder with
  | .cacheFirst =>
    (match cb.del { c with cache := cDelete c.cache k } k with
     | (.error e, c) => (c, .err e)
     | (.ok _, c) => (c, .nil))
  | .storeFirst =>
    (match cb.del c k with
     | (.error e, c) => (c, .err e)
     | (.ok _, c) => ({ c with cache := cDelete c.cache k }, .nil))
  | _ =>
    match cb.del c k with
    | (.error e, c) => (c, .err e)
    | (.ok _, c) => (c, .nil)

def hUpdOrAdd (cb : CBs) (c : Ctx) (k : Key) (v : Val) : Ctx × Res :=
  match cPeek c.cache k with
  | some pre =>
    (match cb.upd c k v pre with
     | (.error e, c) => (c, .err e)
     | (.ok nv, c) => (setCache c k nv, .ok nv))
  | none =>
    match cb.load c k with
    | (.error .notFound, c) =>
      (match cb.add c k v with
       | (.error e, c) => (c, .err e)
       | (.ok nv, c) => (setCache c k nv, .ok nv))
    | (.error e, c) => (c, .err e)
    | (.ok cur, c) =>
      match cb.upd c k v cur with
      | (.error e, c) => (c, .err e)
      | (.ok nv, c) => (setCache c k nv, .ok nv)

def hUpsertThenLoad (cb : CBs) (c : Ctx) (k : Key) (v : Val) : Ctx × Res :=
  match cPeek c.cache k with
  | some pre =>
    (match cb.upsert c k v (some pre) with
     | (.error e, c) => (c, .err e)
     | (.ok nv, c) => (setCache c k nv, .ok nv))
  | none =>
    match cb.upsert c k v none with
    | (.error e, c) => (c, .err e)
    | (.ok _, c) =>
      match cb.load c k with
      | (.error e, c) => (c, .err e)
      | (.ok cur, c) => (setCache c k cur, .ok cur)

def hUpsertThenRenew (cb : CBs) (c : Ctx) (k : Key) (v : Val) : Ctx × Res :=
  match cPeek c.cache k with
  | some pre =>
    (match cb.upsert c k v (some pre) with
     | (.error e, c) => (c, .err e)
     | (.ok nv, c) => (setCache c k nv, .ok nv))
  | none =>
    match cb.upsert c k v none with
    | (.error e, c) => (c, .err e)
    | (.ok nv, c) => (c, .ok nv)


def handle (cb : CBs) (cfg : Cfg) (c : Ctx) : Op → Ctx × Res
  | .get k =>
    (match cGet c.cache k with
     | (some v, ca) => ({ c with cache := ca }, .ok v)
     | (none, ca) => hLoad cb { c with cache := ca } k)
  | .add k v => hAdd cb c k v
  | .upd k v => hUpdate cb c k v
  | .del k => hDelete cb cfg c k
  | .uoa k v => hUpdOrAdd cb c k v
  | .utl k v => hUpsertThenLoad cb c k v
  | .utr k v => hUpsertThenRenew cb c k v

theorem load_then_set {cb : CBs} (hs : CBSpec cb) {k : Key} {c c1 : Ctx} {v : Val} (h : cb.load c k = (.ok v, c1)) :
    HOk k c (setCache c1 k v) := by
  obtain ⟨hst, hca, hok⟩ := hs.load h
  refine ⟨fun hc => ?_, by simp only [setCache, hst]; exact Frame.refl _ _, fun p hp => ?_⟩
  · simp only [setCache, hst, hca]
    exact cohC_cSet hc (Frame.refl _ _) (hok v rfl)
  · simp only [setCache, hca] at hp; exact ents_cSet p hp

theorem load_same {cb : CBs} (hs : CBSpec cb) {k : Key} {c c1 : Ctx} {r : Except Err Val} (h : cb.load c k = (r, c1)) : HOk k c c1 := by
  obtain ⟨hst, hca, _⟩ := hs.load h
  refine ⟨fun hc => by rw [hst, hca]; exact hc, by rw [hst]; exact Frame.refl _ _, fun p hp => by rw [hca] at hp; exact Or.inl hp⟩

theorem hLoad_ok {cb : CBs} (hs : CBSpec cb) (c : Ctx) (k : Key) : HOk k c (hLoad cb c k).1 := by
  unfold hLoad
  have hg : HOk k c { c with cache := (cGet c.cache k).2 } := ⟨fun h => cohC_cGet k h, Frame.refl _ _, fun _ hp => Or.inl (mem_cGet hp)⟩
  split
  · rename_i v ca heq
    have : ca = (cGet c.cache k).2 := by rw [heq]
    subst this; exact hg
  · rename_i ca heq
    have : ca = (cGet c.cache k).2 := by rw [heq]
    subst this
    split
    · rename_i e c1 h; exact hg.trans (load_same hs h)
    · rename_i v c1 h; exact hg.trans (load_then_set hs h)

theorem hAdd_ok {cb : CBs} (hs : CBSpec cb) (c : Ctx) (k : Key) (v : Val) : HOk k c (hAdd cb c k v).1 := by
  unfold hAdd
  split
  · exact HOk.refl k c
  · split
    · rename_i e c1 h; exact mut_then_set (hs.add h)
    · rename_i v' c1 h; exact mut_then_set (hs.add h)

theorem upd_tail {cb : CBs} (hs : CBSpec cb) (c : Ctx) (k : Key) (v e0 : Val) :
    HOk k c (match cb.upd c k v e0 with
      | (.error e, c) => ((c, Res.err e) : Ctx × Res)
      | (.ok nv, c) => (setCache c k nv, .ok nv)).1 := by
  split
  · rename_i e c1 h; exact mut_then_set (hs.upd h)
  · rename_i nv c1 h; exact mut_then_set (hs.upd h)

theorem add_tail {cb : CBs} (hs : CBSpec cb) (c : Ctx) (k : Key) (v : Val) :
    HOk k c (match cb.add c k v with
      | (.error e, c) => ((c, Res.err e) : Ctx × Res)
      | (.ok nv, c) => (setCache c k nv, .ok nv)).1 := by
  split
  · rename_i e c1 h; exact mut_then_set (hs.add h)
  · rename_i nv c1 h; exact mut_then_set (hs.add h)

theorem upsert_tail {cb : CBs} (hs : CBSpec cb) (c : Ctx) (k : Key) (v : Val) (e0 : Val) :
    HOk k c (match cb.upsert c k v (some e0) with
      | (.error e, c) => ((c, Res.err e) : Ctx × Res)
      | (.ok nv, c) => (setCache c k nv, .ok nv)).1 := by
  split
  · rename_i e c1 h; exact mut_then_set (hs.upsert h)
  · rename_i nv c1 h; exact mut_then_set (hs.upsert h)

theorem hUpdate_ok {cb : CBs} (hs : CBSpec cb) (c : Ctx) (k : Key) (v : Val) : HOk k c (hUpdate cb c k v).1 := by
  unfold hUpdate
  split
  · exact upd_tail hs c k v _
  · split
    · rename_i e c1 h; exact load_same hs h
    · rename_i cur c1 h; exact (load_same hs h).trans (upd_tail hs c1 k v cur)

theorem hDelete_ok {cb : CBs} (hs : CBSpec cb) (cfg : Cfg) (hd : DelOk cfg) (c : Ctx) (k : Key) : HOk k c (hDelete cb cfg c k).1 := by
  unfold hDelete
  rcases hd with hd | hd <;> simp only [hd]
  · split
    · rename_i e c1 h
      obtain ⟨hca, hfr, _, herr⟩ := hs.del h
      refine ⟨fun hc => ?_, hfr, fun p hp => by rw [hca] at hp; exact Or.inl hp⟩
      rw [herr e rfl, hca]; exact hc
    · rename_i u c1 h
      obtain ⟨hca, hfr, _, _⟩ := hs.del h
      refine ⟨fun hc => ?_, hfr, fun p hp => ?_⟩
      · simp only [hca]
        exact cohC_cDelete hc hfr
      · simp only [hca] at hp; exact Or.inl (mem_sErase hp).1
  · -- cache first
    have h0 : HOk k c { c with cache := cDelete c.cache k } :=
      ⟨fun h => cohC_cDelete h (Frame.refl _ _), Frame.refl _ _, fun _ hp => Or.inl (mem_sErase hp).1⟩
    split
    · rename_i e c1 h
      obtain ⟨hca, hfr, _, herr⟩ := hs.del h
      refine h0.trans ⟨fun hc => ?_, hfr, fun p hp => by rw [hca] at hp; exact Or.inl hp⟩
      rw [herr e rfl, hca]; exact hc
    · rename_i u c1 h
      obtain ⟨hca, hfr, _, _⟩ := hs.del h
      refine h0.trans ⟨fun hc => ?_, hfr, fun p hp => by rw [hca] at hp; exact Or.inl hp⟩
      rw [hca]; exact cohC_frame hc hfr (noKey_cDelete _ _)

theorem hUpdOrAdd_ok {cb : CBs} (hs : CBSpec cb) (c : Ctx) (k : Key) (v : Val) : HOk k c (hUpdOrAdd cb c k v).1 := by
  unfold hUpdOrAdd
  split
  · exact upd_tail hs c k v _
  · split
    · rename_i c1 h; exact (load_same hs h).trans (add_tail hs c1 k v)
    · rename_i e c1 _ h; exact load_same hs h
    · rename_i cur c1 h; exact (load_same hs h).trans (upd_tail hs c1 k v cur)

theorem hUpsertThenLoad_ok {cb : CBs} (hs : CBSpec cb) (c : Ctx) (k : Key) (v : Val) : HOk k c (hUpsertThenLoad cb c k v).1 := by
  unfold hUpsertThenLoad
  split
  · exact upsert_tail hs c k v _
  · rename_i hpk
    have hn := noKey_of_cPeek_none hpk
    split
    · rename_i e c1 h; exact mut_no_set (hs.upsertFrame h) hn
    · rename_i nv c1 h
      have h1 := mut_no_set (hs.upsertFrame h) hn
      split
      · rename_i e c2 h2; exact h1.trans (load_same hs h2)
      · rename_i cur c2 h2; exact h1.trans (load_then_set hs h2)

theorem hUpsertThenRenew_ok {cb : CBs} (hs : CBSpec cb) (c : Ctx) (k : Key) (v : Val) : HOk k c (hUpsertThenRenew cb c k v).1 := by
  unfold hUpsertThenRenew
  split
  · exact upsert_tail hs c k v _
  · rename_i hpk
    have hn := noKey_of_cPeek_none hpk
    split
    · rename_i e c1 h; exact mut_no_set (hs.upsertFrame h) hn
    · rename_i nv c1 h; exact mut_no_set (hs.upsertFrame h) hn

theorem handle_ok {cb : CBs} (hs : CBSpec cb) (cfg : Cfg) (hd : DelOk cfg) (c : Ctx) (op : Op) : HOk op.key c (handle cb cfg c op).1 := by
  cases op with
  | get k =>
    simp only [handle, Op.key]
    have hg : HOk k c { c with cache := (cGet c.cache k).2 } := ⟨fun h => cohC_cGet k h, Frame.refl _ _, fun _ hp => Or.inl (mem_cGet hp)⟩
    split
    · rename_i v ca heq
      have : ca = (cGet c.cache k).2 := by rw [heq]
      subst this; exact hg
    · rename_i ca heq
      have : ca = (cGet c.cache k).2 := by rw [heq]
      subst this; exact hg.trans (hLoad_ok hs _ k)
  | add k v => exact hAdd_ok hs c k v
  | upd k v => exact hUpdate_ok hs c k v
  | del k => exact hDelete_ok hs cfg hd c k
  | uoa k v => exact hUpdOrAdd_ok hs c k v
  | utl k v => exact hUpsertThenLoad_ok hs c k v
  | utr k v => exact hUpsertThenRenew_ok hs c k v


/-- one operation of the group over arbitrary callbacks (`step` with `handle` replaced) -/
def step (cb : CBs) (cfg : Cfg) (loc : Loc) (s : State) (inp : Op × List Bool) : State × Out :=
  match workerOf loc s.caches.length inp.1.key with
  | none => (s, ⟨.panic, []⟩)
  | some w =>
    match s.caches[w]? with
    | none => (s, ⟨.panic, []⟩)
    | some ca =>
      let r := handle cb cfg ⟨s.store, ca, inp.2, []⟩ inp.1
      ({ store := r.1.store, caches := s.caches.set w r.1.cache }, ⟨r.2, r.1.trace⟩)

theorem inv_step {cb : CBs} (hs : CBSpec cb) (cfg : Cfg) (hd : DelOk cfg) (loc : Loc) (s : State) (inp : Op × List Bool)
    (h : Inv loc s) : Inv loc (step cb cfg loc s inp).1 := by
  unfold step
  split
  · exact h
  · rename_i w hw
    split
    · exact h
    · rename_i ca hca
      have hok := handle_ok hs cfg hd ⟨s.store, ca, inp.2, []⟩ inp.1
      have hcoh : CohC s.store ca := fun k v hm => (h w ca hca k v hm).1
      intro w' c' hc' k v hm
      simp only [List.length_set] at hc' ⊢
      by_cases hww : w' = w
      · subst hww
        have hlt : w' < s.caches.length := by
          rcases List.getElem?_eq_some_iff.1 hca with ⟨hl, _⟩; exact hl
        rw [List.getElem?_set_self hlt] at hc'
        cases hc'
        refine ⟨hok.coh hcoh k v hm, ?_⟩
        rcases hok.ents (k, v) hm with e | e
        · exact (h w' ca hca k v e).2
        · simp only at e; rw [e]; exact hw
      · rw [List.getElem?_set_ne (Ne.symm hww)] at hc'
        have h0 := h w' c' hc' k v hm
        refine ⟨?_, h0.2⟩
        have hne : k ≠ inp.1.key := by
          intro e; rw [e, hw] at h0; exact hww (Option.some.inj h0.2).symm
        rw [hok.frame k hne]; exact h0.1

theorem inv_final {cb : CBs} (hs : CBSpec cb) (cfg : Cfg) (hd : DelOk cfg) (loc : Loc) (ops : List (Op × List Bool))
    (s : State) (h : Inv loc s) : Inv loc (final (step cb cfg loc) s ops) :=
  final_inv (step cb cfg loc) (Inv loc) (fun _ => True) (fun s i hs' _ => inv_step hs cfg hd loc s i hs') ops s h
    (fun _ _ => trivial)

end G

/-- the model's in-memory callbacks -/
def memCBs : CBs := ⟨callLoad, callAdd, callUpd, callUpsert, callDel⟩

theorem memCBs_spec : CBSpec memCBs :=
  { load := fun h => let ⟨a, b, c, _⟩ := callLoad_spec h; ⟨a, b, c⟩
    add := callAdd_spec, upd := callUpd_spec, upsert := callUpsert_spec
    upsertFrame := callUpsert_frame, del := callDel_spec }

/-- the model's handlers are the generic ones at the in-memory callbacks -/
theorem handle_mem (cfg : Cfg) (c : Ctx) (op : Op) : G.handle memCBs cfg c op = handle cfg c op := by
  cases op <;> rfl

theorem step_mem (cfg : Cfg) (loc : Loc) (s : State) (inp : Op × List Bool) :
    G.step memCBs cfg loc s inp = step cfg loc s inp := by
  unfold G.step step
  simp only [handle_mem]
  cases hw : workerOf loc s.caches.length inp.1.key with
  | none => rfl
  | some w =>
    simp only
    cases hc : s.caches[w]? <;> rfl

end Nv.C15
