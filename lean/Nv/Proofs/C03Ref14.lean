import Nv.Proofs.C03Ref13

/-! C03 refinement, part 14 (delete path): making two children of a node mutable. -/

namespace Nv.C03.Cow
open Nv.C03

/-- the cell `mutableChild` returns holds what the child held -/
theorem mutableChild_cell (mn cow : Nat) (hmn : 1 ≤ mn) (H : Heap) (fuel n i : Nat) (h : Inner mn cow H fuel n)
    (hi : i < (H.get n).children.length) :
    let r := (Cow.mutableChild cow n i) H
    r.2.get r.1 = ⟨(H.get ((H.get n).children.getD i n)).items, (H.get ((H.get n).children.getD i n)).children, some cow⟩ ∧
    r.1 ≠ n := by
  rw [mutableChild_eq]
  have hcm : (H.get n).children.getD i n ∈ (H.get n).children := getD_mem _ i n hi
  obtain ⟨m1, m2, m3, m4, m5, m6, m7, m8, _, m10⟩ := mutableFor_spec cow ((H.get n).children.getD i n) H h.wf
  generalize (Cow.mutableFor cow ((H.get n).children.getD i n)) H = r at m1 m2 m3 m4 m5 m6 m7 m8 m10
  obtain ⟨ch, Hm⟩ := r
  simp only at m1 m2 m3 m4 m5 m6 m7 m8 m10 ⊢
  have hchn : ch ≠ n := by
    rcases m5 with e | e
    · intro e2
      exact h.notInChild hmn hcm (by rw [← e, e2]; exact InSub.self H fuel n)
    · intro e2; rw [e2] at e; exact h.ne_empty' e
  have hnlt : n < Hm.size := Nat.lt_of_lt_of_le h.lt m6
  obtain ⟨w1, w2, w3, w4⟩ := wr_get Hm n (H.get n).items (setAt (H.get n).children i ch) hnlt
  refine ⟨?_, hchn⟩
  rw [w2 ch hchn]
  have : Hm.get ch = ⟨(Hm.get ch).items, (Hm.get ch).children, (Hm.get ch).cow⟩ := rfl
  rw [this, m2, m3]
  simp only [Heap.tag] at m1
  rw [m1]

theorem getD_setAt_ne {α} (l : List α) (i j : Nat) (a d : α) (hij : j ≠ i) (hi : i < l.length) :
    (setAt l i a).getD j d = l.getD j d := by
  simp only [List.getD, setAt]
  have hlen : (l.take i).length = i := by simp; omega
  by_cases hj : j < i
  · rw [List.getElem?_append_left (by omega), List.getElem?_take_of_lt hj]
  · rw [List.getElem?_append_right (by omega), hlen]
    have : j - i = (j - i - 1) + 1 := by omega
    rw [this, List.getElem?_cons_succ, List.getElem?_drop]
    congr 2; omega

/-- two different children made mutable, one after the other -/
theorem twoMutable (mn cow : Nat) (hmn : 1 ≤ mn) (H : Heap) (fuel n a b : Nat) (h : Inner mn cow H fuel n)
    (ha : a < (H.get n).children.length) (hb : b < (H.get n).children.length) (hab : a ≠ b) :
    let r1 := (Cow.mutableChild cow n a) H
    let r2 := (Cow.mutableChild cow n b) r1.2
    r2.2.get n = ⟨(H.get n).items, setAt (setAt (H.get n).children a r1.1) b r2.1, some cow⟩ ∧
    r2.2.get r1.1 = ⟨(H.get ((H.get n).children.getD a n)).items, (H.get ((H.get n).children.getD a n)).children, some cow⟩ ∧
    r2.2.get r2.1 = ⟨(H.get ((H.get n).children.getD b n)).items, (H.get ((H.get n).children.getD b n)).children, some cow⟩ ∧
    (r1.1 ≠ r2.1 ∧ r1.1 ≠ n ∧ r2.1 ≠ n) ∧
    (r1.1 = (H.get n).children.getD a n ∨ H.get r1.1 = HNode.empty) ∧
    (r2.1 = (H.get n).children.getD b n ∨ H.get r2.1 = HNode.empty) ∧
    WFree r2.2 ∧ H.size ≤ r2.2.size ∧ Frame H r2.2 (fun x => x = n) := by
  obtain ⟨m1, m2, m3, m4, m5, m6, m7, m8, m9, m10⟩ := mutableChild_abs mn cow hmn H fuel n a h ha
  obtain ⟨c1, c2⟩ := mutableChild_cell mn cow hmn H fuel n a h ha
  generalize (Cow.mutableChild cow n a) H = r1 at m1 m2 m3 m4 m5 m6 m7 m8 m9 m10 c1 c2
  obtain ⟨ca, H1⟩ := r1
  simp only at m1 m2 m3 m4 m5 m6 m7 m8 m9 m10 c1 c2 ⊢
  have h1 : Inner mn cow H1 fuel n := ⟨by rw [m4]; exact h.kids, by rw [m4]; exact h.sorted, by simp only [Heap.tag]; rw [m1], m6⟩
  have hcs1 : (H1.get n).children = setAt (H.get n).children a ca := by rw [m1]
  have hb1 : b < (H1.get n).children.length := by rw [hcs1, setAt_length _ _ _ ha]; exact hb
  have hgb : (H1.get n).children.getD b n = (H.get n).children.getD b n := by
    rw [hcs1]; exact getD_setAt_ne _ _ _ _ _ (Ne.symm hab) ha
  obtain ⟨k1, k2, k3, k4, k5, k6, k7, k8, k9, k10⟩ := mutableChild_abs mn cow hmn H1 fuel n b h1 hb1
  obtain ⟨d1, d2⟩ := mutableChild_cell mn cow hmn H1 fuel n b h1 hb1
  generalize (Cow.mutableChild cow n b) H1 = r2 at k1 k2 k3 k4 k5 k6 k7 k8 k9 k10 d1 d2
  obtain ⟨cb, H2⟩ := r2
  simp only at k1 k2 k3 k4 k5 k6 k7 k8 k9 k10 d1 d2 ⊢
  rw [hgb] at d1 k10
  have hcam : (H.get n).children.getD a n ∈ (H.get n).children := getD_mem _ a n ha
  have hcbm : (H.get n).children.getD b n ∈ (H.get n).children := getD_mem _ b n hb
  have hpa : (H.get n).children[a]? = some ((H.get n).children.getD a n) := getD_getElem? _ a n ha
  have hpb : (H.get n).children[b]? = some ((H.get n).children.getD b n) := getD_getElem? _ b n hb
  have hcbok := (nodeOk_iff _ _ _ _).1 (h.childOk hcbm)
  -- the second child's cell in the first store
  have hcb1 : H1.get ((H.get n).children.getD b n) = H.get ((H.get n).children.getD b n) := by
    apply m8
    · intro e; exact h.notInChild hmn hcbm (by rw [e]; exact InSub.self H fuel n)
    · intro e; have := hcbok.1; rw [abs_items, e] at this; simp [HNode.empty] at this; omega
  rw [hcb1] at d1
  have hca1 : H1.get ca ≠ HNode.empty := by rw [c1]; simp [HNode.empty]
  have hca2 : H2.get ca = H1.get ca := k8 ca c2 hca1
  -- the second cell in terms of the original store
  have hcb0 : cb = (H.get n).children.getD b n ∨ H.get cb = HNode.empty := by
    rcases k10 with e | e
    · exact Or.inl e
    · rcases frame_empty m8 cb e with e2 | e2
      · exact absurd e2 d2
      · exact Or.inr e2
  have hne : ca ≠ cb := by
    intro e
    rcases k10 with e2 | e2
    · rcases m10 with e3 | e3
      · exact siblings_disjoint mn _ hmn H fuel n h.kids h.sorted a b _ _ ca hab hpa hpb
          (by rw [e3]; exact InSub.self H fuel _) (by rw [e, e2]; exact InSub.self H fuel _)
      · have := hcbok.1; rw [abs_items, ← e2, ← e, e3] at this; simp [HNode.empty] at this; omega
    · exact hca1 (by rw [e]; exact e2)
  refine ⟨by rw [k1, m1], by rw [hca2, c1], d1, ⟨hne, c2, d2⟩, m10, hcb0, k6, Nat.le_trans m7 k7, ?_⟩
  exact Frame.trans m8 k8 (fun x e => Or.inl e)

end Nv.C03.Cow
