import Nv.Proofs.C03Spec
/-!
C03 — `insert` refines `specInsert` and keeps the structural invariant. The code's top-down discipline
is the key: `insert` is only ever called on a node with fewer than `maxItems` items (root split,
`maybeSplitChild`), so a separator pushed up by a child split always fits.
-/
namespace Nv.C03

/-- the invariant of a node's children (Prop form of the recursive part of `nodeOk`) -/
def KidsOk (mn mx : Nat) : Nat → Node → Prop
  | 0, n => n.children = []
  | h + 1, n => n.children.length = n.items.length + 1 ∧ ∀ c ∈ n.children, nodeOk mn mx h c = true

theorem nodeOk_iff (mn mx : Nat) (h : Nat) (n : Node) :
    nodeOk mn mx h n = true ↔ mn ≤ n.items.length ∧ n.items.length ≤ mx ∧ KidsOk mn mx h n := by
  cases n with
  | mk is cs =>
    cases h with
    | zero =>
      simp only [nodeOk, KidsOk, Node.items, Node.children, Bool.and_eq_true, List.isEmpty_iff, decide_eq_true_eq]
      constructor
      · rintro ⟨⟨a, b⟩, c⟩; exact ⟨b, c, a⟩
      · rintro ⟨a, b, c⟩; exact ⟨⟨c, a⟩, b⟩
    | succ h =>
      simp only [nodeOk, KidsOk, Node.items, Node.children, Bool.and_eq_true, decide_eq_true_eq, List.all_eq_true]
      constructor
      · rintro ⟨⟨⟨a, b⟩, c⟩, d⟩; exact ⟨b, c, a, d⟩
      · rintro ⟨a, b, c, d⟩; exact ⟨⟨⟨c, a⟩, b⟩, d⟩

theorem rootOk_iff (mn mx : Nat) (r : Node) :
    rootOk mn mx r = true ↔
      r.items.length ≤ mx ∧ KidsOk mn mx (height r) r ∧ (r.children ≠ [] → 1 ≤ r.items.length) := by
  cases r with
  | mk is cs =>
    cases cs with
    | nil => simp [rootOk, KidsOk, height, Node.items, Node.children]
    | cons c cs =>
      simp only [rootOk, KidsOk, height, Node.items, Node.children, Bool.and_eq_true, decide_eq_true_eq,
        List.all_eq_true]
      constructor
      · rintro ⟨⟨⟨a, b⟩, c'⟩, d⟩; exact ⟨b, ⟨c', d⟩, fun _ => a⟩
      · rintro ⟨a, ⟨b, c'⟩, d⟩; exact ⟨⟨⟨d (by simp), a⟩, b⟩, c'⟩

theorem kidsOk_shape (mn mx : Nat) (h : Nat) (n : Node) (hk : KidsOk mn mx h n) : Shape h n := by
  cases n with
  | mk is cs =>
    cases h with
    | zero => simpa [KidsOk, Shape, Node.children] using hk
    | succ h =>
      simp only [KidsOk, Node.children, Node.items] at hk
      exact ⟨hk.1, fun c hc => shape_of_nodeOk mn mx h c (hk.2 c hc)⟩

/-! ### list surgery -/

theorem setAt_length {α} (l : List α) (i : Nat) (a : α) (h : i < l.length) : (setAt l i a).length = l.length := by
  simp [setAt]; omega

theorem insertAt_length {α} (l : List α) (i : Nat) (a : α) (h : i ≤ l.length) : (insertAt l i a).length = l.length + 1 := by
  simp [insertAt]; omega

theorem mem_setAt {α} (l : List α) (i : Nat) (a b : α) (h : b ∈ setAt l i a) : b = a ∨ b ∈ l := by
  simp only [setAt, List.mem_append, List.mem_cons] at h
  rcases h with h | h | h
  · exact Or.inr (List.mem_of_mem_take h)
  · exact Or.inl h
  · exact Or.inr (List.mem_of_mem_drop h)

theorem setAt_eq_splice {α} (l : List α) (i : Nat) (a : α) : setAt l i a = l.take i ++ a :: l.drop (i + 1) := rfl

/-! ### the three ways an insert changes a node's in-order list -/

/-- replacing the child at index `j` by one whose in-order list is `specInsert` of the old child's -/
theorem descend_spec (x : Item) (is : List Item) (cs : List Node) (j : Nat) (c' : Node)
    (hl : cs.length = is.length + 1) (hj : j ≤ is.length) (hs : Sorted (interleave is cs))
    (hlt : ∀ a ∈ is.take j, a.key < x.key) (hgt : ∀ b ∈ is.drop j, x.key < b.key)
    (hc' : c'.inorder = specInsert (cs.getD j default).inorder x) :
    interleave is (setAt cs j c') = specInsert (interleave is cs) x ∧
    specFind (interleave is cs) x.key = specFind (cs.getD j default).inorder x.key := by
  have hdec := interleave_at' j is cs hl hj
  rw [hdec] at hs
  have hL : ∀ a ∈ flatL (is.take j) (cs.take j), a.key < x.key :=
    flatL_lt x.key _ _ _ (by rw [List.append_assoc] at hs; exact hs) hlt
  have hR : ∀ b ∈ rightPart (is.drop j) (cs.drop (j + 1)), x.key < b.key :=
    mem_rightPart_gt x.key _ _ _ hs hgt
  have hnew : interleave is (setAt cs j c') =
      flatL (is.take j) (cs.take j) ++ c'.inorder ++ rightPart (is.drop j) (cs.drop (j + 1)) := by
    conv => lhs; rw [← List.take_append_drop j is]
    exact interleave_decomp _ _ _ _ _ (by simp; omega)
  constructor
  · rw [hnew, hdec, hc', specInsert_mid x _ _ _ hL hR]
  · rw [hdec]
    exact specFind_mid _ _ _ _ (fun a ha => by have := hL a ha; omega) (fun b hb => by have := hR b hb; omega)

/-- the key is in this node: replace the item -/
theorem found_spec (x y : Item) (is : List Item) (cs : List Node) (i : Nat)
    (hl : cs = [] ∨ cs.length = is.length + 1) (hs : Sorted (interleave is cs))
    (hy : is[i]? = some y) (hk : y.key = x.key) :
    interleave (setAt is i x) cs = specInsert (interleave is cs) x ∧ specFind (interleave is cs) x.key = some y := by
  have hi : i < is.length := (List.getElem?_eq_some_iff.1 hy).1
  have hyy : is[i] = y := (List.getElem?_eq_some_iff.1 hy).2
  have hsplit : is = is.take i ++ y :: is.drop (i + 1) := by
    have := list_split_at is i default hi
    rw [getD_eq_getElem is i default hi, hyy] at this; exact this
  rcases hl with rfl | hl
  · simp only [interleave_nil_right] at hs ⊢
    rw [hsplit] at hs
    have hL : ∀ a ∈ is.take i, a.key < x.key := fun a ha => by
      have := hs.lt_of_append ha (List.mem_cons_self); omega
    constructor
    · conv => rhs; rw [hsplit]
      rw [specInsert_at x y _ _ hL hk]; rfl
    · conv => lhs; rw [hsplit]
      exact specFind_at _ _ _ _ (fun a ha => by have := hL a ha; omega) hk
  · have hdec : interleave is cs = (flatL (is.take i) (cs.take i) ++ (cs.getD i default).inorder) ++
        y :: interleave (is.drop (i + 1)) (cs.drop (i + 1)) := by
      have := interleave_at' i is cs hl (by omega)
      rw [List.drop_eq_getElem_cons hi, hyy] at this
      simpa using this
    have hnew : interleave (setAt is i x) cs = (flatL (is.take i) (cs.take i) ++ (cs.getD i default).inorder) ++
        x :: interleave (is.drop (i + 1)) (cs.drop (i + 1)) := by
      have h2 := list_split_at cs i default (by omega)
      conv => lhs; rw [setAt_eq_splice, h2]
      rw [interleave_decomp _ _ _ _ _ (by simp; omega)]
      simp
    rw [hdec] at hs
    have hL : ∀ a ∈ flatL (is.take i) (cs.take i) ++ (cs.getD i default).inorder, a.key < x.key := fun a ha => by
      have := hs.lt_of_append ha (List.mem_cons_self); omega
    constructor
    · rw [hnew, hdec, specInsert_at x y _ _ hL hk]
    · rw [hdec]
      exact specFind_at _ _ _ _ (fun a ha => by have := hL a ha; omega) hk

/-- `node.split(mn)` of a full node: both halves have `mn` items, the in-order list is unchanged -/
theorem split_spec (mn : Nat) (h : Nat) (c : Node) (hk : KidsOk mn (2 * mn + 1) h c) (hlen : c.items.length = 2 * mn + 1) :
    c.inorder = (c.split mn).1.inorder ++ (c.split mn).2.1 :: (c.split mn).2.2.inorder ∧
    (c.split mn).1.items.length = mn ∧ (c.split mn).2.2.items.length = mn ∧
    KidsOk mn (2 * mn + 1) h (c.split mn).1 ∧ KidsOk mn (2 * mn + 1) h (c.split mn).2.2 ∧
    height (c.split mn).1 = height c := by
  cases c with
  | mk ci cc =>
    simp only [Node.items] at hlen
    have hmid : mn < ci.length := by omega
    cases h with
    | zero =>
      simp only [KidsOk, Node.children] at hk; subst hk
      simp only [Node.split, Node.items, Node.children, inorder_mk, List.take_nil, List.drop_nil, interleave_nil_right,
        KidsOk, height, List.length_take, List.length_drop]
      refine ⟨list_split_at ci mn default hmid, by omega, by omega, trivial, trivial, trivial⟩
    | succ h =>
      simp only [KidsOk, Node.children, Node.items] at hk
      have hdec : interleave ci cc = interleave (ci.take mn) (cc.take (mn + 1)) ++
          ci.getD mn default :: interleave (ci.drop (mn + 1)) (cc.drop (mn + 1)) := by
        have h1 := interleave_at' mn ci cc hk.1 (by omega)
        have h2 := interleave_at' mn (ci.take mn) (cc.take (mn + 1))
          (by rw [List.length_take, List.length_take]; omega) (by rw [List.length_take]; omega)
        have e1 : (ci.take mn).take mn = ci.take mn := by rw [List.take_take, Nat.min_self]
        have e2 : (cc.take (mn + 1)).take mn = cc.take mn := by simp [List.take_take]
        have e3 : (cc.take (mn + 1)).getD mn default = cc.getD mn default := by simp [List.getD]
        have e4 : (ci.take mn).drop mn = [] := by simp
        rw [e1, e2, e3, e4] at h2
        simp only [rightPart_nil, List.append_nil] at h2
        rw [h1, h2, show rightPart (ci.drop mn) (cc.drop (mn + 1)) =
            ci.getD mn default :: interleave (ci.drop (mn + 1)) (cc.drop (mn + 1)) from by
          rw [List.drop_eq_getElem_cons hmid, getD_eq_getElem ci mn default hmid]; rfl]
      simp only [Node.split, Node.items, Node.children, inorder_mk, KidsOk, List.length_take, List.length_drop]
      refine ⟨hdec, by omega, by omega, ⟨by omega, fun d hd => hk.2 d (List.mem_of_mem_take hd)⟩,
        ⟨by omega, fun d hd => hk.2 d (List.mem_of_mem_drop hd)⟩, ?_⟩
      cases cc with
      | nil => simp at hk
      | cons d ds => simp [height]

end Nv.C03

namespace Nv.C03

theorem sorted_of_sublist {a b : List Item} (h : List.Sublist a b) (hs : Sorted b) : Sorted a :=
  List.Pairwise.sublist h hs

/-- facts about the node right after `maybeSplitChild` split child `i` -/
theorem split_child_spec (mn : Nat) (h : Nat) (is : List Item) (cs : List Node) (i : Nat)
    (hk : KidsOk mn (2 * mn + 1) (h + 1) (.mk is cs)) (hi : i ≤ is.length)
    (hfull : (cs.getD i default).items.length = 2 * mn + 1) :
    interleave (insertAt is i ((cs.getD i default).split mn).2.1)
      (cs.take i ++ ((cs.getD i default).split mn).1 :: ((cs.getD i default).split mn).2.2 :: cs.drop (i + 1)) =
        interleave is cs ∧
    KidsOk mn (2 * mn + 1) (h + 1) (.mk (insertAt is i ((cs.getD i default).split mn).2.1)
      (cs.take i ++ ((cs.getD i default).split mn).1 :: ((cs.getD i default).split mn).2.2 :: cs.drop (i + 1))) := by
  simp only [KidsOk, Node.children, Node.items] at hk
  have hic : i < cs.length := by omega
  have hC : cs.getD i default ∈ cs := by rw [getD_eq_getElem cs i default hic]; exact List.getElem_mem hic
  have hCk := ((nodeOk_iff _ _ _ _).1 (hk.2 _ hC)).2.2
  obtain ⟨hin, hl1, hl2, hk1, hk2, _⟩ := split_spec mn h _ hCk hfull
  constructor
  · rw [interleave_at' i is cs hk.1 hi, hin]
    simp only [insertAt]
    rw [interleave_decomp _ _ _ _ _ (by simp; omega)]
    simp only [rightPart_cons, interleave_child_first, List.append_assoc, List.cons_append]
  · simp only [KidsOk, Node.children, Node.items]
    constructor
    · simp [insertAt]; omega
    · intro d hd
      simp only [List.mem_append, List.mem_cons] at hd
      rcases hd with hd | rfl | rfl | hd
      · exact hk.2 d (List.mem_of_mem_take hd)
      · exact (nodeOk_iff _ _ _ _).2 ⟨by omega, by omega, hk1⟩
      · exact (nodeOk_iff _ _ _ _).2 ⟨by omega, by omega, hk2⟩
      · exact hk.2 d (List.mem_of_mem_drop hd)

end Nv.C03
