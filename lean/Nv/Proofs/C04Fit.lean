import Nv.Proofs.C04
/-!
C04 — the ideal trim ("drop the coldest while it does not fit") is, for sizes ≥ 0, the same as
keeping entries from the hot end while they cumulatively fit (`takeFit`): the kept entries are the
longest prefix of the recency order whose total is within the capacity.
-/
namespace Nv.C04

theorem takeFit_all (cap : Int) (l : List Entry) (hnn : ∀ e ∈ l, 0 ≤ e.size) (h : total l ≤ cap) :
    takeFit cap l = l := by
  induction l generalizing cap with
  | nil => rfl
  | cons x l ih =>
    have hx := hnn x (by simp)
    have hl := total_nonneg l (fun e he => hnn e (by simp [he]))
    simp only [total_cons] at h
    have : x.size ≤ cap := by omega
    simp only [takeFit, this, if_true]
    rw [ih (cap - x.size) (fun e he => hnn e (by simp [he])) (by omega)]

theorem takeFit_append_over (cap : Int) (a : List Entry) (e : Entry) (hnn : ∀ x ∈ a, 0 ≤ x.size)
    (h : total (a ++ [e]) > cap) : takeFit cap (a ++ [e]) = takeFit cap a := by
  induction a generalizing cap with
  | nil =>
    have : ¬ e.size ≤ cap := by simp at h; omega
    simp [takeFit, this]
  | cons x a ih =>
    simp only [List.cons_append, takeFit]
    split
    · rw [ih (cap - x.size) (fun y hy => hnn y (by simp [hy])) (by simp [total_append] at h ⊢; omega)]
    · rfl

/-- for sizes ≥ 0 the two readings of "make it fit" agree -/
theorem trim_eq_takeFit (cap : Int) (r : List Entry) (hnn : ∀ e ∈ r, 0 ≤ e.size) :
    (trimCold cap r).1.reverse = takeFit cap r.reverse := by
  induction r with
  | nil => rfl
  | cons e r ih =>
    have hr : ∀ x ∈ r, 0 ≤ x.size := fun x hx => hnn x (by simp [hx])
    simp only [trimCold]
    split
    · rename_i hgt
      simp only [List.reverse_cons]
      rw [takeFit_append_over cap r.reverse e (by simpa using hr)
        (by rw [total_append, total_reverse]; simp at hgt ⊢; omega)]
      exact ih hr
    · rename_i hle
      rw [takeFit_all cap (e :: r).reverse (fun x hx => hnn x (by simp at hx ⊢; exact hx.symm)) (by rw [total_reverse]; omega)]

theorem takeFit_prefix (cap : Int) (l : List Entry) : ∃ t, takeFit cap l ++ t = l := by
  induction l generalizing cap with
  | nil => exact ⟨[], rfl⟩
  | cons x l ih =>
    simp only [takeFit]
    split
    · obtain ⟨t, ht⟩ := ih (cap - x.size); exact ⟨t, by simp [ht]⟩
    · exact ⟨x :: l, rfl⟩

theorem takeFit_fits (cap : Int) (hcap : 0 ≤ cap) (l : List Entry) : total (takeFit cap l) ≤ cap := by
  induction l generalizing cap with
  | nil => simpa [takeFit] using hcap
  | cons x l ih =>
    simp only [takeFit]
    split
    · have := ih (cap - x.size) (by omega); simp; omega
    · simpa using hcap

/-- maximality: the first entry not kept would not have fitted -/
theorem takeFit_maximal (cap : Int) (l : List Entry) (x : Entry) (t : List Entry)
    (h : takeFit cap l ++ x :: t = l) : total (takeFit cap l) + x.size > cap := by
  induction l generalizing cap with
  | nil => simp [takeFit] at h
  | cons y l ih =>
    simp only [takeFit] at h ⊢
    split
    · rename_i hy
      simp only [hy, if_true, List.cons_append, List.cons.injEq, true_and] at h
      have := ih (cap - y.size) h
      simp; omega
    · rename_i hy
      simp only [hy, if_false, List.nil_append, List.cons.injEq] at h
      rw [h.1]; simp; omega

end Nv.C04
