import Nv.Model.C17
/-!
C17 — helper lemmas: binary search returns the least index of a monotone predicate; the boundaries
`y·(i+1)` (last forced to 2^64−1) are strictly ascending; hence the partition theorems.
-/
namespace Nv.C17

/-! ### `sort.Search` -/

/-- Loop invariant of the binary search, for a predicate that is monotone on `[0, N)`. -/
theorem bsearch_spec (p : Nat → Bool) (N : Nat) (hmono : ∀ a b, a ≤ b → b < N → p a = true → p b = true) :
    ∀ (fuel i j : Nat), j - i ≤ fuel → i ≤ j → j ≤ N →
      (∀ k, k < i → p k = false) → (∀ k, j ≤ k → k < N → p k = true) →
      let r := bsearch p fuel i j
      i ≤ r ∧ r ≤ j ∧ (∀ k, k < r → p k = false) ∧ (∀ k, r ≤ k → k < N → p k = true) := by
  intro fuel
  induction fuel with
  | zero =>
    intro i j hf hij _ hlo hhi
    have : i = j := by omega
    subst this
    simp only [bsearch]
    exact ⟨Nat.le_refl _, Nat.le_refl _, hlo, hhi⟩
  | succ f ih =>
    intro i j hf hij hjN hlo hhi
    simp only [bsearch]
    split
    · rename_i hlt
      have hh1 : i ≤ (i + j) / 2 := by omega
      have hh2 : (i + j) / 2 < j := by omega
      split
      · rename_i hp
        have := ih i ((i + j) / 2) (by omega) hh1 (by omega) hlo
          (fun k hk hkN => hmono _ _ hk hkN hp)
        exact ⟨this.1, by omega, this.2.2.1, this.2.2.2⟩
      · rename_i hp
        have hpf : p ((i + j) / 2) = false := by simpa using hp
        have := ih ((i + j) / 2 + 1) j (by omega) (by omega) hjN
          (fun k hk => by
            cases hpk : p k with
            | false => rfl
            | true =>
              have := hmono k ((i + j) / 2) (by omega) (by omega) hpk
              rw [hpf] at this; cases this)
          hhi
        exact ⟨by omega, this.2.1, this.2.2.1, this.2.2.2⟩
    · have : i = j := by omega
      subst this
      exact ⟨Nat.le_refl _, Nat.le_refl _, hlo, hhi⟩

/-- the search only looks at indices below `N`: predicates that agree there give the same result -/
theorem bsearch_congr (p q : Nat → Bool) (N : Nat) (h : ∀ k, k < N → p k = q k) :
    ∀ (fuel i j : Nat), j ≤ N → bsearch p fuel i j = bsearch q fuel i j := by
  intro fuel
  induction fuel with
  | zero => intro i j _; rfl
  | succ f ih =>
    intro i j hj
    simp only [bsearch]
    split
    · rename_i hlt
      have : (i + j) / 2 < N := by omega
      rw [h _ this]
      split
      · exact ih _ _ (by omega)
      · exact ih _ _ hj
    · rfl

/-! ### boundaries -/

theorem yOf_pos (n : Nat) (h1 : 1 ≤ n) (h2 : n ≤ M64) : 1 ≤ yOf n := by
  unfold yOf
  exact (Nat.le_div_iff_mul_le (by omega)).2 (by omega)

theorem yOf_mul_le (n : Nat) : yOf n * n ≤ M64 := Nat.div_mul_le_self M64 n

theorem npsRaw_eq (n i : Nat) (hi : i + 1 ≤ n) : npsRaw n i = yOf n * (i + 1) := by
  unfold npsRaw
  apply Nat.mod_eq_of_lt
  have h1 : yOf n * (i + 1) ≤ yOf n * n := Nat.mul_le_mul_left _ hi
  have h2 := yOf_mul_le n
  have : M64 < 2 ^ 64 := by decide
  omega

def cfgOk : Cfg := ⟨true, .ge⟩

theorem proved_eq {c : Cfg} (h : Proved c) : c = cfgOk := by
  cases c; simp [Proved] at h; simp [cfgOk, h.1, h.2]

theorem nps_last (n : Nat) (h1 : 1 ≤ n) : nps cfgOk n (n - 1) = M64 := by
  have : n - 1 + 1 = n := by omega
  simp [nps, cfgOk, this]

theorem nps_inner (n i : Nat) (hi : i + 1 < n) : nps cfgOk n i = yOf n * (i + 1) := by
  have : ¬ (i + 1 = n) := by omega
  simp [nps, cfgOk, this, npsRaw_eq n i (by omega)]

theorem nps_le_max (n i : Nat) (hi : i < n) : nps cfgOk n i ≤ M64 := by
  by_cases h : i + 1 = n
  · simp [nps, cfgOk, h]
  · rw [nps_inner n i (by omega)]
    have h1 : yOf n * (i + 1) ≤ yOf n * n := Nat.mul_le_mul_left _ (by omega)
    have := yOf_mul_le n
    omega

theorem nps_strict (n : Nat) (h1 : 1 ≤ n) (h2 : n ≤ M64) (i j : Nat) (hij : i < j) (hj : j < n) :
    nps cfgOk n i < nps cfgOk n j := by
  have hy := yOf_pos n h1 h2
  rw [nps_inner n i (by omega)]
  by_cases hl : j + 1 = n
  · have : nps cfgOk n j = M64 := by simp [nps, cfgOk, hl]
    rw [this]
    -- y(i+1) ≤ y(n-1) = yn − y ≤ M − y < M
    have h3 : yOf n * (i + 1) + yOf n ≤ yOf n * n := by
      have : yOf n * (i + 1) + yOf n = yOf n * (i + 2) := by rw [Nat.mul_add, Nat.mul_add]; omega
      rw [this]; exact Nat.mul_le_mul_left _ (by omega)
    have := yOf_mul_le n
    omega
  · rw [nps_inner n j (by omega)]
    exact Nat.mul_lt_mul_of_pos_left (by omega) (by omega)

theorem nps_mono (n : Nat) (h1 : 1 ≤ n) (h2 : n ≤ M64) (i j : Nat) (hij : i ≤ j) (hj : j < n) :
    nps cfgOk n i ≤ nps cfgOk n j := by
  rcases Nat.lt_or_ge i j with h | h
  · exact Nat.le_of_lt (nps_strict n h1 h2 i j h hj)
  · have : i = j := by omega
    subst this; exact Nat.le_refl _

/-! ### the search on the boundaries -/

/-- `sort.Search` on the boundaries returns the least boundary index `≥ x`; it exists because the last is 2^64−1 -/
theorem search_least (n x : Nat) (h1 : 1 ≤ n) (h2 : n ≤ M64) (hx : x ≤ M64) :
    let r := searchUInt64s cfgOk n x
    r < n ∧ x ≤ nps cfgOk n r ∧ ∀ k, k < r → nps cfgOk n k < x := by
  have hmono : ∀ a b, a ≤ b → b < n → holds .ge (nps cfgOk n a) x = true → holds .ge (nps cfgOk n b) x = true := by
    intro a b hab hb ha
    simp only [holds, decide_eq_true_eq] at ha ⊢
    have := nps_mono n h1 h2 a b hab hb
    omega
  have hs := bsearch_spec (fun i => holds .ge (nps cfgOk n i) x) n hmono n 0 n (by omega) (by omega) (Nat.le_refl _)
    (fun k hk => by omega) (fun k hk hkn => by omega)
  simp only [] at hs
  obtain ⟨-, hrn, hlo, hhi⟩ := hs
  have hlast : holds .ge (nps cfgOk n (n - 1)) x = true := by
    rw [nps_last n h1]; simpa [holds] using hx
  have hr : searchUInt64s cfgOk n x < n := by
    rcases Nat.lt_or_ge (searchUInt64s cfgOk n x) n with h | h
    · exact h
    · have : searchUInt64s cfgOk n x = n := Nat.le_antisymm hrn h
      have hf := hlo (n - 1) (by
        show n - 1 < bsearch (fun i => holds .ge (nps cfgOk n i) x) n 0 n
        have : bsearch (fun i => holds .ge (nps cfgOk n i) x) n 0 n = n := this
        omega)
      have hf' : holds .ge (nps cfgOk n (n - 1)) x = false := hf
      rw [hlast] at hf'; cases hf'
  refine ⟨hr, ?_, ?_⟩
  · have := hhi (searchUInt64s cfgOk n x) (Nat.le_refl _) hr
    simpa [holds] using this
  · intro k hk
    have := hlo k hk
    simpa [holds] using this

theorem searchIndex_eq (n x : Nat) (h1 : 1 ≤ n) (h2 : n ≤ M64) (hx : x ≤ M64) :
    searchIndex cfgOk n x = searchUInt64s cfgOk n x := by
  have hlt : searchUInt64s cfgOk n x < n := (search_least n x h1 h2 hx).1
  have hn : ¬ (searchUInt64s cfgOk n x ≥ n) := by omega
  show clampSpec n (searchUInt64s cfgOk n x) = _
  simp [clampSpec, hn]

end Nv.C17
