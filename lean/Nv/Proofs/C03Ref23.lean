import Nv.Proofs.C03Ref22

/-! C03 refinement, part 23: every write operation refines its layer-A counterpart; the world invariant holds in every
world reached by clones and writes, for a free list of any capacity. -/

namespace Nv.C03.Cow
open Nv.C03

/-- the layer-A counterpart of a write operation -/
def applyA (t : Tree) : WOp → Tree × Option Item
  | .insert x => t.replaceOrInsert x
  | .remove typ => t.deleteItem typ
  | .clear _ => (t.clear, none)

theorem writeOK_remove (t : HTree) (H : Heap) (h : Nat) (w : TreeWF t H h) (typ : Rm) : WriteOK t H h (.remove typ) := by
  obtain ⟨h', _, _, c, _, _, _, g⟩ := deleteItemB_refines t H typ h w
  exact ⟨h', c, g⟩

theorem writeOK_all (t : HTree) (H : Heap) (h : Nat) (w : TreeWF t H h) (op : WOp) : WriteOK t H h op := by
  cases op with
  | insert x => exact writeOK_insert t H h w x
  | clear add => exact writeOK_clear t H h w add
  | remove typ => exact writeOK_remove t H h w typ

/-- **store → value refinement** of one write through one handle: the handle afterwards denotes what the layer-A
    operation makes of the tree it denoted before; the operation returns the same item; the handle stays well-formed -/
theorem write_refines (t : HTree) (H : Heap) (h : Nat) (w : TreeWF t H h) (op : WOp) :
    ∃ h', ((applyW t op) H).1.1.absAt ((applyW t op) H).2 h' = (applyA (t.absAt H h) op).1 ∧
      ((applyW t op) H).1.2 = (applyA (t.absAt H h) op).2 ∧
      TreeWF ((applyW t op) H).1.1 ((applyW t op) H).2 h' := by
  cases op with
  | insert x =>
    obtain ⟨h', a, b, c, _⟩ := replaceOrInsertB_refines t H x h w
    exact ⟨h', a, b, c⟩
  | remove typ =>
    obtain ⟨h', a, b, c, _⟩ := deleteItemB_refines t H typ h w
    exact ⟨h', a, b, c⟩
  | clear add =>
    obtain ⟨h', c, _⟩ := writeOK_clear t H h w add
    have hres : ((applyW t (.clear add)) H).1.1 = { t with root := none, length := 0 } := clearB_result t add H
    refine ⟨h', ?_, ?_, c⟩
    · rw [hres]; rfl
    · show ((clearB t add) H).1.2 = none
      unfold Cow.clearB
      cases t.root <;> rfl

theorem World.WR.step {w : World} (h : w.WR) (op : POp) : (w.step op).WR := by
  cases op with
  | write i wop =>
    cases hi : w.hs[i]? with
    | none =>
      have : w.step (.write i wop) = w := by simp only [World.step, hi]
      rw [this]; exact h
    | some t =>
      obtain ⟨hh, wt⟩ := h.trees i t hi
      exact (h.write i wop t hi hh (writeOK_all t w.H hh wt wop)).1
  | clone i => exact h.clone i

/-- every world reached from the empty tree by clones and writes satisfies the invariant — free list of any capacity -/
theorem World.WR.run (degree cap : Nat) (hd : 2 ≤ degree) (ops : List POp) :
    (ops.foldl World.step (World.init degree cap)).WR := by
  have gen : ∀ (ops : List POp) (w : World), w.WR → (ops.foldl World.step w).WR := by
    intro ops
    induction ops with
    | nil => intro w h; exact h
    | cons op ops ih => intro w h; exact ih _ (h.step op)
  exact gen ops _ (World.WR.init degree cap hd)

/-- one write in a world that satisfies the invariant: the writer's handle refines the layer-A operation, every other
    handle is unchanged and denotes, at every depth, what it denoted before -/
theorem World.WR.write_full {w : World} (h : w.WR) (i : Nat) (op : WOp) (t : HTree) (hi : w.hs[i]? = some t) :
    (∃ hh h', TreeWF t w.H hh ∧
      (w.step (.write i op)).hs[i]? = some ((applyW t op) w.H).1.1 ∧
      ((applyW t op) w.H).1.1.absAt (w.step (.write i op)).H h' = (applyA (t.absAt w.H hh) op).1 ∧
      ((applyW t op) w.H).1.2 = (applyA (t.absAt w.H hh) op).2) ∧
    ∀ (j : Nat) (u : HTree), j ≠ i → w.hs[j]? = some u →
      (w.step (.write i op)).hs[j]? = some u ∧
      ∀ r, u.root = some r → ∀ fuel,
        absNode (w.step (.write i op)).H fuel r = absNode w.H fuel r ∧
        heightB (w.step (.write i op)).H fuel r = heightB w.H fuel r := by
  obtain ⟨hh, wt⟩ := h.trees i t hi
  obtain ⟨_, hiso⟩ := h.write i op t hi hh (writeOK_all t w.H hh wt op)
  obtain ⟨h', a, b, _⟩ := write_refines t w.H hh wt op
  have hstep : w.step (.write i op) =
      { w with H := ((applyW t op) w.H).2, hs := w.hs.set i ((applyW t op) w.H).1.1 } := by
    simp only [World.step, hi]
  have hil : i < w.hs.length := by
    rcases Nat.lt_or_ge i w.hs.length with hl | hl
    · exact hl
    · rw [List.getElem?_eq_none hl] at hi; cases hi
  constructor
  · refine ⟨hh, h', wt, ?_, ?_, b⟩
    · rw [hstep]; simp [hil]
    · rw [hstep]; exact a
  · intro j u hji hj
    refine ⟨?_, fun r hr fuel => hiso j u r hji hj hr fuel⟩
    rw [hstep]
    simp only
    rw [List.getElem?_set_ne (fun e => hji e.symm)]; exact hj

end Nv.C03.Cow
