import Nv.Proofs.C03Ref1
/-! C03 — refinement B → A, part 2: cells inside a subtree of the store, and what the invariants of the tree they
denote say about them. -/
namespace Nv.C03.Cow
open Nv.C03

/-- `x` is one of the cells of the subtree of depth `fuel` hanging at cell `id` -/
def InSub (H : Heap) : Nat → Nat → Nat → Prop
  | 0, id, x => x = id
  | fuel + 1, id, x => x = id ∨ ∃ c ∈ (H.get id).children, InSub H fuel c x

theorem InSub.self (H : Heap) (fuel id : Nat) : InSub H fuel id id := by
  cases fuel <;> simp [InSub]

/-- the node a cell denotes depends only on the cells of its subtree -/
theorem abs_agree (H H' : Heap) : ∀ (fuel id : Nat), (∀ x, InSub H fuel id x → H'.get x = H.get x) →
    absNode H' fuel id = absNode H fuel id := by
  intro fuel
  induction fuel with
  | zero => intro id h; simp [absNode, h id (InSub.self H 0 id)]
  | succ fuel ih =>
    intro id h
    have hid := h id (InSub.self H _ id)
    simp only [absNode, hid]
    congr 1
    apply List.map_congr_left
    intro c hc
    exact ih c (fun x hx => h x (Or.inr ⟨c, hc, hx⟩))

/-- … and so does membership in the subtree -/
theorem inSub_agree (H H' : Heap) : ∀ (fuel id : Nat), (∀ x, InSub H fuel id x → H'.get x = H.get x) →
    ∀ y, InSub H' fuel id y → InSub H fuel id y := by
  intro fuel
  induction fuel with
  | zero => intro id _ y hy; exact hy
  | succ fuel ih =>
    intro id h y hy
    rcases hy with rfl | ⟨c, hc, hy⟩
    · exact Or.inl rfl
    · rw [h id (InSub.self H _ id)] at hc
      exact Or.inr ⟨c, hc, ih c (fun x hx => h x (Or.inr ⟨c, hc, hx⟩)) y hy⟩

theorem abs_items (H : Heap) (fuel id : Nat) : (absNode H fuel id).items = (H.get id).items := by
  cases fuel <;> simp [absNode]

theorem abs_children_length (H : Heap) (fuel id : Nat) :
    (absNode H fuel id).children.length = (H.get id).children.length := by
  cases fuel <;> simp [absNode]

theorem abs_succ (H : Heap) (fuel id : Nat) :
    absNode H (fuel + 1) id = .mk (H.get id).items ((H.get id).children.map (absNode H fuel)) := rfl

/-- a cell strictly inside a subtree whose nodes obey the occupancy bounds holds at least `mn` items, all of which
    occur in the in-order list of the subtree -/
theorem sub_items (mn mx : Nat) (H : Heap) : ∀ (fuel id x : Nat), KidsOk mn mx fuel (absNode H fuel id) →
    InSub H fuel id x → x ≠ id →
    mn ≤ (H.get x).items.length ∧ ∀ it ∈ (H.get x).items, it ∈ (absNode H fuel id).inorder := by
  intro fuel
  induction fuel with
  | zero => intro id x _ hx hne; exact absurd hx hne
  | succ fuel ih =>
    intro id x hk hx hne
    rcases hx with rfl | ⟨c, hc, hx⟩
    · exact absurd rfl hne
    · rw [abs_succ] at hk ⊢
      simp only [KidsOk, children_mk, items_mk, List.length_map] at hk
      have hcm : absNode H fuel c ∈ (H.get id).children.map (absNode H fuel) := List.mem_map.2 ⟨c, hc, rfl⟩
      have hcok := (nodeOk_iff _ _ _ _).1 (hk.2 _ hcm)
      have hsub : ∀ y ∈ (absNode H fuel c).inorder, y ∈ (Node.mk (H.get id).items ((H.get id).children.map (absNode H fuel))).inorder := by
        intro y hy
        rw [inorder_mk]
        exact mem_interleave_of_child _ _ _ y (by simpa using hk.1) hcm hy
      by_cases hxc : x = c
      · subst hxc
        refine ⟨by rw [← abs_items H fuel x]; exact hcok.1, fun it hit => hsub it ?_⟩
        apply mem_items_inorder' _ _ (kids_shape_or _ _ _ _ hcok.2.2)
        rw [abs_items]; exact hit
      · obtain ⟨h1, h2⟩ := ih c x hcok.2.2 hx hxc
        exact ⟨h1, fun it hit => hsub it (h2 it hit)⟩

/-- a cell without items (a fresh cell, a parked cell) is not strictly inside such a subtree -/
theorem empty_not_inside (mn mx : Nat) (hmn : 1 ≤ mn) (H : Heap) (fuel id x : Nat)
    (hk : KidsOk mn mx fuel (absNode H fuel id)) (hx : InSub H fuel id x) (he : (H.get x).items = []) : x = id := by
  by_cases hne : x = id
  · exact hne
  · have := (sub_items mn mx H fuel id x hk hx hne).1
    rw [he] at this; simp at this; omega

/-- no cell lies under two different children of a node with a strictly sorted in-order list -/
theorem siblings_disjoint (mn mx : Nat) (hmn : 1 ≤ mn) (H : Heap) (fuel id : Nat)
    (hk : KidsOk mn mx (fuel + 1) (absNode H (fuel + 1) id)) (hs : Sorted (absNode H (fuel + 1) id).inorder)
    (i j : Nat) (ci cj x : Nat) (hij : i ≠ j) (hi : (H.get id).children[i]? = some ci) (hj : (H.get id).children[j]? = some cj)
    (hxi : InSub H fuel ci x) (hxj : InSub H fuel cj x) : False := by
  rw [abs_succ] at hk hs
  simp only [KidsOk, children_mk, items_mk, List.length_map] at hk
  rw [inorder_mk] at hs
  have hl : ((H.get id).children.map (absNode H fuel)).length = (H.get id).items.length + 1 := by simpa using hk.1
  -- the cell has an item, and that item lies in both children's in-order lists
  have key : ∀ (c : Nat), c ∈ (H.get id).children → InSub H fuel c x →
      ∃ it, it ∈ (H.get x).items ∧ it ∈ (absNode H fuel c).inorder := by
    intro c hc hxc
    have hcm : absNode H fuel c ∈ (H.get id).children.map (absNode H fuel) := List.mem_map.2 ⟨c, hc, rfl⟩
    have hcok := (nodeOk_iff _ _ _ _).1 (hk.2 _ hcm)
    by_cases hx : x = c
    · subst hx
      have hne : (H.get x).items ≠ [] := by
        intro e; have := hcok.1; rw [abs_items, e] at this; simp at this; omega
      obtain ⟨it, hit⟩ := List.exists_mem_of_ne_nil _ hne
      exact ⟨it, hit, mem_items_inorder' _ _ (kids_shape_or _ _ _ _ hcok.2.2) (by rw [abs_items]; exact hit)⟩
    · obtain ⟨h1, h2⟩ := sub_items mn mx H fuel c x hcok.2.2 hxc hx
      have hne : (H.get x).items ≠ [] := by intro e; rw [e] at h1; simp at h1; omega
      obtain ⟨it, hit⟩ := List.exists_mem_of_ne_nil _ hne
      exact ⟨it, hit, h2 it hit⟩
  obtain ⟨it, _, hiti⟩ := key ci (List.mem_of_getElem? hi) hxi
  -- any item of the cell: take the same one for both sides
  have key2 : ∀ it ∈ (H.get x).items, ∀ (c : Nat), c ∈ (H.get id).children → InSub H fuel c x →
      it ∈ (absNode H fuel c).inorder := by
    intro it hit c hc hxc
    have hcm : absNode H fuel c ∈ (H.get id).children.map (absNode H fuel) := List.mem_map.2 ⟨c, hc, rfl⟩
    have hcok := (nodeOk_iff _ _ _ _).1 (hk.2 _ hcm)
    by_cases hx : x = c
    · subst hx
      exact mem_items_inorder' _ _ (kids_shape_or _ _ _ _ hcok.2.2) (by rw [abs_items]; exact hit)
    · exact (sub_items mn mx H fuel c x hcok.2.2 hxc hx).2 it hit
  obtain ⟨it, hit, _⟩ := key ci (List.mem_of_getElem? hi) hxi
  have h1 := key2 it hit ci (List.mem_of_getElem? hi) hxi
  have h2 := key2 it hit cj (List.mem_of_getElem? hj) hxj
  have gi : ((H.get id).children.map (absNode H fuel))[i]? = some (absNode H fuel ci) := by simp [hi]
  have gj : ((H.get id).children.map (absNode H fuel))[j]? = some (absNode H fuel cj) := by simp [hj]
  rcases Nat.lt_or_gt_of_ne hij with hlt | hgt
  · have := children_disjoint _ _ hl hs i j _ _ hlt gi gj it h1 it h2; omega
  · have := children_disjoint _ _ hl hs j i _ _ hgt gj gi it h2 it h1; omega

/-- a node with at least one item is not inside the subtree of one of its own children -/
theorem no_cycle (mn mx : Nat) (H : Heap) (fuel id c : Nat)
    (hk : KidsOk mn mx (fuel + 1) (absNode H (fuel + 1) id)) (hs : Sorted (absNode H (fuel + 1) id).inorder)
    (hne : (H.get id).items ≠ []) (hc : c ∈ (H.get id).children) (hin : InSub H fuel c id) : False := by
  rw [abs_succ] at hk hs
  simp only [KidsOk, children_mk, items_mk, List.length_map] at hk
  rw [inorder_mk] at hs
  have hl : ((H.get id).children.map (absNode H fuel)).length = (H.get id).items.length + 1 := by simpa using hk.1
  have hcm : absNode H fuel c ∈ (H.get id).children.map (absNode H fuel) := List.mem_map.2 ⟨c, hc, rfl⟩
  have hcok := (nodeOk_iff _ _ _ _).1 (hk.2 _ hcm)
  obtain ⟨it, hit⟩ := List.exists_mem_of_ne_nil _ hne
  have hin' : it ∈ (absNode H fuel c).inorder := by
    by_cases hx : id = c
    · exact mem_items_inorder' _ _ (kids_shape_or _ _ _ _ hcok.2.2) (by rw [abs_items, ← hx]; exact hit)
    · exact (sub_items mn mx H fuel c id hcok.2.2 hin hx).2 it hit
  exact item_not_in_child _ _ hl hs it hit _ hcm it hin' rfl

end Nv.C03.Cow
