import Nv.Model.C04
/-!
C04 — a wide cache is the product of its shards: running a script on the array routes every
operation to one shard, which sees exactly the sub-script of the operations routed to it.
-/
namespace Nv.C04

theorem routed_iff (idx : Nat → Nat) (i : Nat) (op : Op) (k : Nat) (hk : op.key? = some k) :
    routed idx i op = decide (idx k = i) := by simp [routed, hk]

theorem wide_run_per_shard (c : Cfg) (kd : Kind) (idx : Nat → Nat) (n : Nat) (hidx : ∀ k, idx k < n)
    (ops : List Op) (hkeyed : ∀ o ∈ ops, o.key?.isSome = true) :
    ∀ (w : Wide), w.shards.length = n →
    ∃ w' os, wideRun c kd idx w ops = some (w', os) ∧ w'.shards.length = n ∧
      ∀ i s, w.shards[i]? = some s →
        w'.shards[i]? = some (final (step c kd) s (shardOps idx i ops)) ∧
        ((ops.zip os).filter (fun p => routed idx i p.1)).map (·.2) = outs (step c kd) s (shardOps idx i ops) := by
  induction ops with
  | nil =>
    intro w hlen
    exact ⟨w, [], rfl, hlen, fun i s hs => ⟨by simpa [shardOps] using hs, by simp [shardOps]⟩⟩
  | cons op ops ih =>
    intro w hlen
    have hko := hkeyed op (by simp)
    obtain ⟨k, hk⟩ := Option.isSome_iff_exists.1 hko
    have hj : idx k < w.shards.length := by rw [hlen]; exact hidx k
    have hget : w.shards[idx k]? = some (w.shards[idx k]) := List.getElem?_eq_getElem hj
    have hstep : wideStep c kd idx w op =
        some (⟨w.shards.set (idx k) (step c kd w.shards[idx k] op).1⟩, (step c kd w.shards[idx k] op).2) := by
      simp [wideStep, hk, hget]
    obtain ⟨w', os, hrun, hlen', hsh⟩ := ih (fun o ho => hkeyed o (by simp [ho]))
      ⟨w.shards.set (idx k) (step c kd w.shards[idx k] op).1⟩ (by simpa using hlen)
    refine ⟨w', (step c kd w.shards[idx k] op).2 :: os, by simp [wideRun, hstep, hrun], hlen', ?_⟩
    intro i s hs
    by_cases hi : idx k = i
    · subst hi
      have hs' : s = w.shards[idx k] := by rw [hget] at hs; exact (Option.some.inj hs).symm
      subst hs'
      have hr : routed idx (idx k) op = true := by simp [routed_iff idx _ op k hk]
      have := hsh (idx k) (step c kd w.shards[idx k] op).1 (by simp [hj])
      simp only [shardOps, List.filter_cons, hr, if_true, final_cons, outs_cons, List.zip_cons_cons,
        List.map_cons] at this ⊢
      exact ⟨this.1, by rw [this.2]⟩
    · have hr : routed idx i op = false := by simp [routed_iff idx _ op k hk, hi]
      have := hsh i s (by simp [hi, hs])
      simp only [shardOps, List.filter_cons, hr, List.zip_cons_cons] at this ⊢
      simpa using this

end Nv.C04
