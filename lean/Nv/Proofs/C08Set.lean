import Nv.Proofs.C08Bits
/-! C08 — set/unset at both layers and the set algebra, as statements about membership. Core only. -/
namespace Nv.C08

/-! ### 64-bit layer -/

theorem set64_getLsbD (b : Bit64) (i : BitVec 8) (j : Nat) :
    (set64 b i).getLsbD j = (b.getLsbD j || (decide (i.toNat ≤ 63) && decide (i.toNat = j))) := by
  unfold set64
  rw [BitVec.ule_eq_decide]
  have h63 : (63#8 : BitVec 8).toNat = 63 := by decide
  rw [h63]
  by_cases h : i.toNat ≤ 63
  · simp only [h, decide_true, if_true, Bool.true_and]
    exact getLsbD_setbit b i.toNat j (by omega)
  · simp [h]

theorem unset64_getLsbD (b : Bit64) (i : BitVec 8) (j : Nat) :
    (unset64 b i).getLsbD j = (b.getLsbD j && !(decide (i.toNat ≤ 63) && decide (i.toNat = j))) := by
  unfold unset64
  rw [BitVec.ule_eq_decide]
  have h63 : (63#8 : BitVec 8).toNat = 63 := by decide
  rw [h63]
  by_cases h : i.toNat ≤ 63
  · simp only [h, decide_true, if_true, Bool.true_and]
    exact getLsbD_clear b i.toNat j
  · simp [h]

/-! ### truncated division by a positive literal, in terms omega understands -/

theorem tdiv_pos_lit (z d : Int) (_hd : 0 < d) :
    (0 ≤ z → z.tdiv d = z / d) ∧ (z < 0 → z.tdiv d = -((-z) / d)) := by
  constructor
  · intro h; exact Int.tdiv_eq_ediv_of_nonneg h
  · intro h
    have : z = -(-z) := by omega
    rw [this, Int.neg_tdiv, Int.tdiv_eq_ediv_of_nonneg (by omega)]; simp

theorem tmod_pos_lit (z d : Int) (_hd : 0 < d) :
    (0 ≤ z → z.tmod d = z % d) ∧ (z < 0 → z.tmod d = -((-z) % d)) := by
  constructor
  · intro h; exact Int.tmod_eq_emod_of_nonneg h
  · intro h
    have : z = -(-z) := by omega
    rw [this, Int.neg_tmod, Int.tmod_eq_emod_of_nonneg (by omega)]; simp

/-- index arithmetic of `SetI32`: in range ⇒ word `i/64`, bit `i%64`; out of range ⇒ guard fails or the byte exceeds 63 -/
theorem selI32_spec (i : BitVec 32) :
    (0 ≤ i.toInt ∧ i.toInt < 1024 →
      (selI32 i).1 = true ∧ (selI32 i).2.1.toNat = i.toInt.toNat / 64 ∧ (selI32 i).2.2.toNat = i.toInt.toNat % 64) ∧
    (¬(0 ≤ i.toInt ∧ i.toInt < 1024) → (selI32 i).1 = false ∨ 63 < (selI32 i).2.2.toNat) := by
  have h64 : (64#32 : BitVec 32).toInt = 64 := by decide
  have h0 : (0#32 : BitVec 32).toInt = 0 := by decide
  have h16 : (16#32 : BitVec 32).toInt = 16 := by decide
  have hdiv : (BitVec.sdiv i 64#32).toInt = i.toInt.tdiv 64 := by
    rw [BitVec.toInt_sdiv_of_ne_or_ne _ _ (Or.inr (by decide)), h64]
  have hmod : (BitVec.srem i 64#32).toInt = i.toInt.tmod 64 := by rw [BitVec.toInt_srem, h64]
  have hd := tdiv_pos_lit i.toInt 64 (by omega)
  have hm := tmod_pos_lit i.toInt 64 (by omega)
  have c1 := BitVec.toInt_eq_toNat_cond (BitVec.sdiv i 64#32)
  have c2 := BitVec.toInt_eq_toNat_cond (BitVec.srem i 64#32)
  have l1 := (BitVec.sdiv i 64#32).isLt
  have l2 := (BitVec.srem i 64#32).isLt
  have hz := BitVec.toInt_eq_toNat_cond i
  have lz := i.isLt
  unfold selI32
  simp only [BitVec.sle_eq_decide, BitVec.slt_eq_decide, h0, h16, hdiv]
  constructor
  · intro ⟨ha, hb⟩
    have e1 := hd.1 ha
    have e2 := hm.1 ha
    have hg : (0 ≤ i.toInt.tdiv 64 ∧ i.toInt.tdiv 64 < 16) := by omega
    simp only [hg.1, hg.2, decide_true, Bool.and_self, if_true, BitVec.toNat_setWidth, true_and]
    rw [hdiv, e1] at c1
    rw [hmod, e2] at c2
    constructor
    · split at c1 <;> omega
    · split at c2 <;> omega
  · intro hn
    by_cases hg : (0 ≤ i.toInt.tdiv 64 ∧ i.toInt.tdiv 64 < 16)
    · right
      simp only [hg.1, hg.2, decide_true, Bool.and_self, if_true, BitVec.toNat_setWidth]
      have hneg : i.toInt < 0 := by
        by_cases h : i.toInt < 0
        · exact h
        · have := hd.1 (by omega); omega
      have e1 := hd.2 hneg
      have e2 := hm.2 hneg
      rw [hmod, e2] at c2
      split at c2 <;> omega
    · left
      have : (decide (0 ≤ i.toInt.tdiv 64) && decide (i.toInt.tdiv 64 < 16)) = false := by
        simp only [Bool.and_eq_false_iff, decide_eq_false_iff_not]
        omega
      simp [this]

theorem selI16_spec (i : BitVec 16) :
    (0 ≤ i.toInt ∧ i.toInt < 1024 →
      (selI16 i).1 = true ∧ (selI16 i).2.1.toNat = i.toInt.toNat / 64 ∧ (selI16 i).2.2.toNat = i.toInt.toNat % 64) ∧
    (¬(0 ≤ i.toInt ∧ i.toInt < 1024) → (selI16 i).1 = false ∨ 63 < (selI16 i).2.2.toNat) := by
  have h64 : (64#16 : BitVec 16).toInt = 64 := by decide
  have h0 : (0#16 : BitVec 16).toInt = 0 := by decide
  have h16 : (16#16 : BitVec 16).toInt = 16 := by decide
  have hdiv : (BitVec.sdiv i 64#16).toInt = i.toInt.tdiv 64 := by
    rw [BitVec.toInt_sdiv_of_ne_or_ne _ _ (Or.inr (by decide)), h64]
  have hmod : (BitVec.srem i 64#16).toInt = i.toInt.tmod 64 := by rw [BitVec.toInt_srem, h64]
  have hd := tdiv_pos_lit i.toInt 64 (by omega)
  have hm := tmod_pos_lit i.toInt 64 (by omega)
  have c1 := BitVec.toInt_eq_toNat_cond (BitVec.sdiv i 64#16)
  have c2 := BitVec.toInt_eq_toNat_cond (BitVec.srem i 64#16)
  have l1 := (BitVec.sdiv i 64#16).isLt
  have l2 := (BitVec.srem i 64#16).isLt
  have hz := BitVec.toInt_eq_toNat_cond i
  have lz := i.isLt
  unfold selI16
  simp only [BitVec.sle_eq_decide, BitVec.slt_eq_decide, h0, h16, hdiv]
  constructor
  · intro ⟨ha, hb⟩
    have e1 := hd.1 ha
    have e2 := hm.1 ha
    have hg : (0 ≤ i.toInt.tdiv 64 ∧ i.toInt.tdiv 64 < 16) := by omega
    simp only [hg.1, hg.2, decide_true, Bool.and_self, if_true, BitVec.toNat_setWidth, true_and]
    rw [hdiv, e1] at c1
    rw [hmod, e2] at c2
    constructor
    · split at c1 <;> omega
    · split at c2 <;> omega
  · intro hn
    by_cases hg : (0 ≤ i.toInt.tdiv 64 ∧ i.toInt.tdiv 64 < 16)
    · right
      simp only [hg.1, hg.2, decide_true, Bool.and_self, if_true, BitVec.toNat_setWidth]
      have hneg : i.toInt < 0 := by
        by_cases h : i.toInt < 0
        · exact h
        · have := hd.1 (by omega); omega
      have e1 := hd.2 hneg
      have e2 := hm.2 hneg
      rw [hmod, e2] at c2
      split at c2 <;> omega
    · left
      have : (decide (0 ≤ i.toInt.tdiv 64) && decide (i.toInt.tdiv 64 < 16)) = false := by
        simp only [Bool.and_eq_false_iff, decide_eq_false_iff_not]
        omega
      simp [this]

/-! ### 1024-bit layer -/

/-- total word access -/
def word (b : Bit1024) (k : Nat) : Bit64 := if h : k < 16 then b[k] else 0#64

theorem mem1024_eq_word (b : Bit1024) (j : Nat) : mem1024 b j = (word b (j / 64)).getLsbD (j % 64) := by
  unfold mem1024 word
  split <;> simp

theorem word_modifyWord (b : Bit1024) (k : Nat) (f : Bit64 → Bit64) (k' : Nat) :
    word (modifyWord b k f) k' = if k' = k ∧ k < 16 then f (word b k) else word b k' := by
  unfold modifyWord word
  by_cases hk : k < 16
  · by_cases hk' : k' < 16
    · simp only [hk, hk', dite_true, Vector.getElem_set]
      by_cases e : k = k'
      · subst e; simp
      · have : ¬ k' = k := fun h => e h.symm
        simp [e, this]
    · have : ¬ k' = k := by omega
      simp [hk, hk', this]
  · simp [hk]

theorem set_generic (b : Bit1024) (r : Bool × Nat × BitVec 8) (z : Int) (j : Nat)
    (hin : 0 ≤ z ∧ z < 1024 → r.1 = true ∧ r.2.1 = z.toNat / 64 ∧ r.2.2.toNat = z.toNat % 64)
    (hout : ¬(0 ≤ z ∧ z < 1024) → r.1 = false ∨ 63 < r.2.2.toNat) :
    mem1024 (if r.1 then modifyWord b r.2.1 (set64 · r.2.2) else b) j =
      (mem1024 b j || decide (0 ≤ z ∧ z < 1024 ∧ z = (j : Int))) := by
  by_cases hz : 0 ≤ z ∧ z < 1024
  · obtain ⟨h1, h2, h3⟩ := hin hz
    simp only [h1, if_true, mem1024_eq_word, word_modifyWord, h2]
    have hk : z.toNat / 64 < 16 := by omega
    by_cases hj : j / 64 = z.toNat / 64
    · simp only [hj, hk, and_self, if_true, set64_getLsbD, h3]
      have h63 : z.toNat % 64 ≤ 63 := by omega
      congr 1
      simp only [h63, decide_true, Bool.true_and]
      apply decide_eq_decide.2
      omega
    · have : ¬ (0 ≤ z ∧ z < 1024 ∧ z = (j : Int)) := by omega
      simp [hj, this]
  · have hd : ¬ (0 ≤ z ∧ z < 1024 ∧ z = (j : Int)) := by omega
    simp only [hd, decide_false, Bool.or_false]
    rcases hout hz with h | h
    · simp [h]
    · split
      · simp only [mem1024_eq_word, word_modifyWord]
        split
        · rename_i hh
          rw [set64_getLsbD, hh.1]
          have : ¬ r.2.2.toNat ≤ 63 := by omega
          simp [this]
        · rfl
      · rfl

theorem unset_generic (b : Bit1024) (r : Bool × Nat × BitVec 8) (z : Int) (j : Nat)
    (hin : 0 ≤ z ∧ z < 1024 → r.1 = true ∧ r.2.1 = z.toNat / 64 ∧ r.2.2.toNat = z.toNat % 64)
    (hout : ¬(0 ≤ z ∧ z < 1024) → r.1 = false ∨ 63 < r.2.2.toNat) :
    mem1024 (if r.1 then modifyWord b r.2.1 (unset64 · r.2.2) else b) j =
      (mem1024 b j && !decide (0 ≤ z ∧ z < 1024 ∧ z = (j : Int))) := by
  by_cases hz : 0 ≤ z ∧ z < 1024
  · obtain ⟨h1, h2, h3⟩ := hin hz
    simp only [h1, if_true, mem1024_eq_word, word_modifyWord, h2]
    have hk : z.toNat / 64 < 16 := by omega
    by_cases hj : j / 64 = z.toNat / 64
    · simp only [hj, hk, and_self, if_true, unset64_getLsbD, h3]
      have h63 : z.toNat % 64 ≤ 63 := by omega
      congr 2
      simp only [h63, decide_true, Bool.true_and]
      apply decide_eq_decide.2
      omega
    · have : ¬ (0 ≤ z ∧ z < 1024 ∧ z = (j : Int)) := by omega
      simp [hj, this]
  · have hd : ¬ (0 ≤ z ∧ z < 1024 ∧ z = (j : Int)) := by omega
    simp only [hd, decide_false, Bool.not_false, Bool.and_true]
    rcases hout hz with h | h
    · simp [h]
    · split
      · simp only [mem1024_eq_word, word_modifyWord]
        split
        · rename_i hh
          rw [unset64_getLsbD, hh.1]
          have : ¬ r.2.2.toNat ≤ 63 := by omega
          simp [this]
        · rfl
      · rfl

theorem setI32_mem (b : Bit1024) (i : BitVec 32) (j : Nat) :
    mem1024 (setI32 b i) j = (mem1024 b j || decide (0 ≤ i.toInt ∧ i.toInt < 1024 ∧ i.toInt = (j : Int))) := by
  have h := selI32_spec i
  exact set_generic b ((selI32 i).1, (selI32 i).2.1.toNat, (selI32 i).2.2) i.toInt j h.1 h.2

theorem unsetI32_mem (b : Bit1024) (i : BitVec 32) (j : Nat) :
    mem1024 (unsetI32 b i) j = (mem1024 b j && !decide (0 ≤ i.toInt ∧ i.toInt < 1024 ∧ i.toInt = (j : Int))) := by
  have h := selI32_spec i
  exact unset_generic b ((selI32 i).1, (selI32 i).2.1.toNat, (selI32 i).2.2) i.toInt j h.1 h.2

theorem setI16_mem (b : Bit1024) (i : BitVec 16) (j : Nat) :
    mem1024 (setI16 b i) j = (mem1024 b j || decide (0 ≤ i.toInt ∧ i.toInt < 1024 ∧ i.toInt = (j : Int))) := by
  have h := selI16_spec i
  exact set_generic b ((selI16 i).1, (selI16 i).2.1.toNat, (selI16 i).2.2) i.toInt j h.1 h.2

theorem unsetI16_mem (b : Bit1024) (i : BitVec 16) (j : Nat) :
    mem1024 (unsetI16 b i) j = (mem1024 b j && !decide (0 ≤ i.toInt ∧ i.toInt < 1024 ∧ i.toInt = (j : Int))) := by
  have h := selI16_spec i
  exact unset_generic b ((selI16 i).1, (selI16 i).2.1.toNat, (selI16 i).2.2) i.toInt j h.1 h.2

theorem mem1024_lt (b : Bit1024) (j : Nat) (h : mem1024 b j = true) : j < 1024 := by
  unfold mem1024 at h
  split at h
  · omega
  · cases h

/-- two bitmaps with the same members are the same bitmap -/
theorem ext1024 (a b : Bit1024) (h : ∀ j, j < 1024 → mem1024 a j = mem1024 b j) : a = b := by
  apply Vector.ext
  intro k hk
  apply BitVec.eq_of_getLsbD_eq
  intro i hi
  have := h (64 * k + i) (by omega)
  simp only [mem1024_eq_word, word] at this
  have e1 : (64 * k + i) / 64 = k := by omega
  have e2 : (64 * k + i) % 64 = i := by omega
  simpa [e1, e2, hk] using this

theorem word_zipWith (f : Bit64 → Bit64 → Bit64) (hf : f 0#64 0#64 = 0#64) (a b : Bit1024) (k : Nat) :
    word (Vector.zipWith f a b) k = f (word a k) (word b k) := by
  unfold word
  split
  · simp
  · exact hf.symm

theorem and1024_mem (a b : Bit1024) (j : Nat) : mem1024 (and1024 a b) j = (mem1024 a j && mem1024 b j) := by
  simp only [mem1024_eq_word, and1024, word_zipWith and64 (by decide), and64, BitVec.getLsbD_and]

theorem or1024_mem (a b : Bit1024) (j : Nat) : mem1024 (or1024 a b) j = (mem1024 a j || mem1024 b j) := by
  simp only [mem1024_eq_word, or1024, word_zipWith or64 (by decide), or64, BitVec.getLsbD_or]

theorem reverse1024_mem (a : Bit1024) (j : Nat) (hj : j < 1024) : mem1024 (reverse1024 a) j = !mem1024 a j := by
  have hk : j / 64 < 16 := by omega
  have hi : j % 64 < 64 := by omega
  simp [mem1024, reverse1024, hk, reverse64, hi]

theorem orThenReverse1024_mem (a b : Bit1024) (j : Nat) (hj : j < 1024) :
    mem1024 (orThenReverse1024 a b) j = !(mem1024 a j || mem1024 b j) := by
  have hk : j / 64 < 16 := by omega
  have hi : j % 64 < 64 := by omega
  simp [mem1024, orThenReverse1024, hk, reverse64, or64, hi]

theorem equal1024_iff (a b : Bit1024) : equal1024 a b = true ↔ a = b := by
  unfold equal1024
  constructor
  · intro h; simpa using h
  · intro h; subst h; simp

end Nv.C08
