import Nv.Proofs.C01Lists
import Nv.Spec.C01
/-!
C01 — the model of the code (repaired guard) and the token-free reader/writer lock `Nv.C01.S` accept the same
action sequences and stay related: holders = inside, waiters = queue (a caller `(t, write)` of the lock is the
model's `(t, weight)`).
-/
namespace Nv.C01

/-- a lock caller as the model sees it: (id, weight) -/
def wt (rw : Nat) (c : C) : W := (c.1, weight rw c.2)
/-- tokens held by a list of lock callers -/
def tok (rw : Nat) (l : List C) : Nat := wsum (l.map (wt rw))

theorem tok_nil (rw : Nat) : tok rw [] = 0 := rfl
theorem tok_cons (rw : Nat) (c : C) (l : List C) : tok rw (c :: l) = weight rw c.2 + tok rw l := by
  simp [tok, wt, wsum_cons]
theorem tok_append (rw : Nat) (a b : List C) : tok rw (a ++ b) = tok rw a + tok rw b := by
  simp [tok, wsum_append]

theorem tok_ge_length (rw : Nat) (hrw : 1 ≤ rw) (l : List C) : l.length ≤ tok rw l := by
  induction l with
  | nil => simp [tok_nil]
  | cons c l ih =>
    rw [tok_cons]
    have := (weight_bounds rw hrw c.2).1
    simp; omega

theorem tok_readers (rw : Nat) (l : List C) (h : l.all (fun c => !c.2) = true) : tok rw l = l.length := by
  induction l with
  | nil => rfl
  | cons c l ih =>
    simp only [List.all_cons, Bool.and_eq_true] at h
    rw [tok_cons, ih h.2]
    have : c.2 = false := by simpa using h.1
    simp [weight, this]; omega

theorem tok_lt_all_readers (rw : Nat) (l : List C) (h : tok rw l < rw) : l.all (fun c => !c.2) = true := by
  induction l with
  | nil => rfl
  | cons c l ih =>
    rw [tok_cons] at h
    cases hc : c.2 with
    | true => simp [weight, hc] at h; omega
    | false =>
      simp only [List.all_cons, hc, Bool.not_false, Bool.true_and]
      exact ih (by omega)

/-- the code's token test is the lock's compatibility test -/
theorem fits_iff (rw : Nat) (hrw : 1 ≤ rw) (ins : List C) (wr : Bool) :
    weight rw wr ≤ rw - tok rw ins ↔ compatible rw ins wr = true := by
  have hlen := tok_ge_length rw hrw ins
  cases wr with
  | true =>
    simp only [weight, if_true, compatible]
    constructor
    · intro h
      have : tok rw ins = 0 := by omega
      have : ins.length = 0 := by omega
      simp [List.length_eq_zero_iff.1 this]
    · intro h
      have : ins = [] := by simpa using h
      subst this; simp [tok_nil]
  | false =>
    simp only [weight, compatible, Bool.false_eq_true, if_false, Bool.and_eq_true, decide_eq_true_eq]
    constructor
    · intro h
      have hall := tok_lt_all_readers rw ins (by omega)
      exact ⟨hall, by rw [← tok_readers rw ins hall]; omega⟩
    · intro ⟨hall, hl⟩
      rw [tok_readers rw ins hall]; omega

/-- `notifyWaiters` is `handOff` -/
theorem notify_handOff (rw : Nat) (hrw : 1 ≤ rw) : ∀ (q ins : List C),
    notify rw (tok rw ins) (ins.map (wt rw)) (q.map (wt rw)) =
      ⟨tok rw (handOff rw ins q).inside, (handOff rw ins q).inside.map (wt rw), (handOff rw ins q).queue.map (wt rw)⟩
  | [], ins => by simp [notify, handOff]
  | c :: q, ins => by
    simp only [List.map_cons, notify, handOff]
    by_cases hc : compatible rw ins c.2 = true
    · have hfit := (fits_iff rw hrw ins c.2).2 hc
      have hnb : ¬ (rw - tok rw ins < (wt rw c).2) := by simp only [wt]; omega
      simp only [hnb, if_false, hc, if_true]
      have ih := notify_handOff rw hrw q (ins ++ [c])
      rw [tok_append, List.map_append] at ih
      simpa [tok, wt, wsum_single] using ih
    · have hnf : ¬ (weight rw c.2 ≤ rw - tok rw ins) := fun h => hc ((fits_iff rw hrw ins c.2).1 h)
      have hb : rw - tok rw ins < (wt rw c).2 := by simp only [wt]; omega
      simp only [hb, if_true, hc]
      simp

/-- a queue that is empty or whose head is incompatible is left alone -/
theorem handOff_blocked (rw : Nat) (ins q : List C)
    (h : ∀ c rest, q = c :: rest → compatible rw ins c.2 = false) : handOff rw ins q = ⟨ins, q⟩ := by
  cases q with
  | nil => rfl
  | cons c rest => simp [handOff, h c rest rfl]

/-- model key and lock are related: same callers inside, same queue -/
def Rel (rw : Nat) (s : KS) (r : RW) : Prop :=
  s.holders = r.inside.map (wt rw) ∧ s.waiters = r.queue.map (wt rw)

theorem Rel.init (rw : Nat) : Rel rw KS.init RW.init := by
  simp [Rel, KS.init, RW.init, KS.holders, KS.waiters, KS.objs]

theorem any_map_wt (rw : Nat) (l : List C) (t : Tid) :
    (l.map (wt rw)).any (·.1 == t) = l.any (·.1 == t) := by
  induction l with
  | nil => rfl
  | cons c l ih => simp only [List.map_cons, List.any_cons, ih]; rfl

theorem filter_map_wt (rw : Nat) (l : List C) (t : Tid) :
    (l.map (wt rw)).filter (·.1 ≠ t) = (l.filter (·.1 ≠ t)).map (wt rw) := by
  induction l with
  | nil => rfl
  | cons c l ih =>
    have hfst : (wt rw c).1 = c.1 := rfl
    by_cases h : c.1 = t
    · simp only [List.map_cons, List.filter_cons, hfst, h, ne_eq, not_true_eq_false, decide_false,
        Bool.false_eq_true, if_false]
      exact ih
    · simp only [List.map_cons, List.filter_cons, hfst, h, ne_eq, not_false_eq_true, decide_true, if_true]
      rw [ih]

theorem enabled_rel (rw : Nat) (s : KS) (r : RW) (a : Act) (h : Rel rw s r) : s.enabled a = r.enabled a := by
  obtain ⟨h1, h2⟩ := h
  cases a <;>
    simp only [KS.enabled, RW.enabled, KS.listed, KS.holds, KS.waits, RW.isInside, RW.isQueued, h1, h2, any_map_wt]

/-- head of the model's queue is blocked ⇒ head of the lock's queue is incompatible -/
theorem head_incompatible (rw : Nat) (hrw : 1 ≤ rw) (ins q : List C) (cur : Nat) (hcur : cur = tok rw ins)
    (hhead : ∀ w ws, q.map (wt rw) = w :: ws → rw - cur < w.2) :
    ∀ c rest, q = c :: rest → compatible rw ins c.2 = false := by
  intro c rest hq
  have := hhead (wt rw c) (rest.map (wt rw)) (by rw [hq]; rfl)
  cases hc : compatible rw ins c.2 with
  | false => rfl
  | true =>
    have := (fits_iff rw hrw ins c.2).2 hc
    simp only [wt] at *
    omega

theorem kinv_cases {size : Nat} {s : KS} (h : KInv size s) :
    s = ⟨none, []⟩ ∨ ∃ o, s = ⟨some o, []⟩ ∧ SemOk size o ∧ 0 < o.cur := by
  obtain ⟨ho, hl⟩ := h
  cases hlive : s.live with
  | none => exact Or.inl (ks_eta s none hlive ho)
  | some o => exact Or.inr ⟨o, ks_eta s (some o) hlive ho, hl o hlive⟩

theorem kstep_rel (c : Cfg) (hc : Proved c) (rw : Nat) (hrw : 1 ≤ rw) (s : KS) (r : RW) (a : Act)
    (hinv : KInv rw s) (hrel : Rel rw s r) (hen : s.enabled a = true) :
    Rel rw (s.step c rw a) (r.step rw a) := by
  have hg : c.guard = .emptyAndIdle := hc
  obtain ⟨hh, hw⟩ := hrel
  cases a with
  | acquire t k wr =>
    have hb := weight_bounds rw hrw wr
    have hch := (acquire_char rw s t _ hb.1 hb.2 hinv).2.2
    simp only [KS.step, RW.step, RW.arrive]
    have hcond : (s.waiters = [] ∧ weight rw wr ≤ rw - wsum s.holders) ↔
        (r.queue = [] ∧ compatible rw r.inside wr = true) := by
      rw [hw, hh, List.map_eq_nil_iff]
      exact and_congr Iff.rfl (fits_iff rw hrw r.inside wr)
    by_cases hq : r.queue = [] ∧ compatible rw r.inside wr = true
    · have hq' := hcond.2 hq
      simp only [hq', and_self, if_true] at hch
      simp only [hq, and_self, if_true]
      exact ⟨by rw [hch.1, hh]; simp [wt], by rw [hch.2]; simp⟩
    · have hq' : ¬ (s.waiters = [] ∧ weight rw wr ≤ rw - wsum s.holders) := fun h => hq (hcond.1 h)
      simp only [hq', if_false] at hch
      simp only [hq, if_false]
      exact ⟨by rw [hch.1, hh], by rw [hch.2, hw]; simp [wt]⟩
  | release t k =>
    simp only [KS.step, RW.step, RW.leave, hg]
    obtain ⟨o, rfl, _, h1, h2, _⟩ := release_char rw s t hinv (by simpa [KS.enabled] using hen)
    obtain ⟨hok, _⟩ := hinv.2 o rfl
    simp only [holders_live, waiters_live] at hh hw
    have hrelease : o.release rw t =
        notify rw (tok rw (r.inside.filter (·.1 ≠ t))) ((r.inside.filter (·.1 ≠ t)).map (wt rw)) (r.queue.map (wt rw)) := by
      show notify rw (o.cur - wsum (o.holders.filter (·.1 = t))) (o.holders.filter (·.1 ≠ t)) o.waiters = _
      have hsplit := wsum_filter_split o.holders t
      have hcur : o.cur - wsum (o.holders.filter (·.1 = t)) = tok rw (r.inside.filter (·.1 ≠ t)) := by
        rw [tok, ← filter_map_wt, ← hh, hok.cur_eq]; omega
      rw [hcur, hh, filter_map_wt, hw]
    unfold Rel
    rw [h1, h2, hrelease, notify_handOff rw hrw]
    exact ⟨rfl, rfl⟩
  | cancel t k =>
    simp only [KS.step, RW.step, RW.abandon]
    cases hwt : s.waits t with
    | true =>
      obtain ⟨o, rfl, hinv', h1, h2, _⟩ := cancel_char rw s t hinv hwt
      obtain ⟨hok, _⟩ := hinv.2 o rfl
      simp only [holders_live, waiters_live] at hh hw
      have hcur : o.cur = tok rw r.inside := by rw [hok.cur_eq, hh]; rfl
      unfold Rel
      rw [h1, h2]
      unfold Sem.cancel
      split
      · rw [hcur, hh, hw, filter_map_wt, notify_handOff rw hrw]
        exact ⟨rfl, rfl⟩
      · rename_i hnc
        -- no re-notify: the filtered queue's head (if any) is blocked, so the lock admits nobody either
        have hok' := cancel_ok rw o t hok
        have hc' : o.cancel rw t = { o with waiters := o.waiters.filter (·.1 ≠ t) } := by
          unfold Sem.cancel; simp only [hnc, if_false]
        rw [hc'] at hok'
        have hblocked := head_incompatible rw hrw r.inside (r.queue.filter (·.1 ≠ t)) o.cur hcur
          (fun w ws hq => hok'.head w ws (by simp only; rw [hw, filter_map_wt]; exact hq))
        rw [handOff_blocked rw _ _ hblocked]
        exact ⟨hh, by simp only; rw [hw, filter_map_wt]⟩
    | false =>
      rw [cancel_noop rw s t hinv hwt]
      have hnotq : r.queue.filter (·.1 ≠ t) = r.queue := by
        rw [List.filter_eq_self]
        intro x hx
        simp only [KS.waits, hw, any_map_wt, List.any_eq_false] at hwt
        have := hwt x hx
        simpa using this
      rw [hnotq]
      rcases kinv_cases hinv with hs | ⟨o, hs, hok, _⟩
      · subst hs
        simp only [holders_none, waiters_none] at hh hw
        have hi : r.inside = [] := by simpa using hh.symm
        have hq : r.queue = [] := by simpa using hw.symm
        rw [hi, hq]; exact ⟨by simp [handOff], by simp [handOff]⟩
      · subst hs
        simp only [holders_live, waiters_live] at hh hw
        have hcur : o.cur = tok rw r.inside := by rw [hok.cur_eq, hh]; rfl
        have hblocked := head_incompatible rw hrw r.inside r.queue o.cur hcur
          (fun w ws hq => hok.head w ws (by rw [hw]; exact hq))
        rw [handOff_blocked rw _ _ hblocked]
        exact ⟨by rw [holders_live]; exact hh, by rw [waiters_live]; exact hw⟩

/-! ### runs -/

/-- two run results agree: both refused, or both accepted and related key by key -/
def Agree (rw : Nat) : Option State → Option SState → Prop
  | some s, some sp => ∀ k, Rel rw (s k) (sp k)
  | none, none => True
  | _, _ => False

theorem run_agree (c : Cfg) (hc : Proved c) (rw : Nat) (hrw : 1 ≤ rw) : ∀ (as : List Act) (s : State) (sp : SState),
    (M c rw).Reach s → (∀ k, Rel rw (s k) (sp k)) → Agree rw ((M c rw).run s as) ((S rw).run sp as)
  | [], s, sp, _, hrel => hrel
  | a :: as, s, sp, hreach, hrel => by
    have hen := enabled_rel rw (s a.key) (sp a.key) a (hrel a.key)
    have hkinv := reach_inv c hc rw hrw s hreach
    cases he : (s a.key).enabled a with
    | false =>
      have h1 : (M c rw).step s a = none := by show step c rw s a = none; simp [step, he]
      have h2 : (S rw).step sp a = none := by show sstep rw sp a = none; simp [sstep, ← hen, he]
      simp [LTS.run, h1, h2, Agree]
    | true =>
      have h1 : (M c rw).step s a = some (upd s a.key ((s a.key).step c rw a)) := by
        show step c rw s a = _; simp [step, he]
      have h2 : (S rw).step sp a = some (supd sp a.key ((sp a.key).step rw a)) := by
        show sstep rw sp a = _; simp [sstep, ← hen, he]
      simp only [LTS.run, h1, h2]
      apply run_agree c hc rw hrw as
      · exact LTS.Reach.step hreach h1
      · intro k
        by_cases hk : k = a.key
        · subst hk
          simp only [upd, supd, if_true]
          exact kstep_rel c hc rw hrw _ _ a (hkinv _) (hrel _) he
        · simp only [upd, supd, hk, if_false]; exact hrel k

end Nv.C01

namespace Nv.C01

/-! ### the reference machine itself excludes (independent of the model) -/

/-- one writer alone, or only readers and at most rwRatio of them -/
def SExcl (rw : Nat) (ins : List C) : Prop :=
  (∃ t, ins = [(t, true)]) ∨ (ins.all (fun c => !c.2) = true ∧ ins.length ≤ rw)

theorem sexcl_nil (rw : Nat) : SExcl rw [] := Or.inr ⟨rfl, Nat.zero_le _⟩

theorem sexcl_snoc (rw : Nat) (ins : List C) (c : C) (h : SExcl rw ins) (hc : compatible rw ins c.2 = true) :
    SExcl rw (ins ++ [c]) := by
  obtain ⟨t, wr⟩ := c
  cases wr with
  | true =>
    have : ins = [] := by simpa [compatible] using hc
    subst this
    exact Or.inl ⟨t, rfl⟩
  | false =>
    simp only [compatible, Bool.false_eq_true, if_false, Bool.and_eq_true, decide_eq_true_eq] at hc
    exact Or.inr ⟨by simp [List.all_append, hc.1], by simp; omega⟩

theorem sexcl_filter (rw : Nat) (ins : List C) (t : Tid) (h : SExcl rw ins) : SExcl rw (ins.filter (·.1 ≠ t)) := by
  rcases h with ⟨u, rfl⟩ | ⟨hall, hlen⟩
  · by_cases hu : u = t
    · simp [hu, sexcl_nil]
    · exact Or.inl ⟨u, by simp [hu]⟩
  · refine Or.inr ⟨?_, Nat.le_trans (List.length_filter_le _ _) hlen⟩
    rw [List.all_eq_true] at hall ⊢
    intro x hx
    exact hall x (List.mem_filter.1 hx).1

theorem sexcl_handOff (rw : Nat) : ∀ (q ins : List C), SExcl rw ins → SExcl rw (handOff rw ins q).inside
  | [], ins, h => h
  | c :: q, ins, h => by
    unfold handOff
    split
    · rename_i hc
      exact sexcl_handOff rw q _ (sexcl_snoc rw ins c h hc)
    · exact h

theorem sstep_some (rw : Nat) (s s' : SState) (a : Act) (h : sstep rw s a = some s') :
    s' = supd s a.key ((s a.key).step rw a) := by
  unfold sstep at h
  split at h
  · cases h; rfl
  · cases h

/-- exclusion holds in every reachable state of the reference machine -/
theorem spec_excl (rw : Nat) : ∀ sp, (S rw).Reach sp → ∀ k, SExcl rw (sp k).inside := by
  apply LTS.inv_of_step (S rw) (fun sp => ∀ k, SExcl rw (sp k).inside)
  · intro k; exact sexcl_nil rw
  · intro sp a sp' hinv hstep k
    have := sstep_some rw sp sp' a hstep
    subst this
    by_cases hk : k = a.key
    · subst hk
      simp only [supd, if_true]
      cases a with
      | acquire t k wr =>
        simp only [Act.key, RW.step, RW.arrive]
        by_cases hc : (sp k).queue = [] ∧ compatible rw (sp k).inside wr = true
        · simp only [hc, and_self, if_true]
          exact sexcl_snoc rw _ (t, wr) (hinv k) hc.2
        · simp only [hc, if_false]
          exact hinv k
      | release t k =>
        simp only [Act.key, RW.step, RW.leave]
        exact sexcl_handOff rw _ _ (sexcl_filter rw _ t (hinv k))
      | cancel t k =>
        simp only [Act.key, RW.step, RW.abandon]
        exact sexcl_handOff rw _ _ (hinv k)
    · simp only [supd, hk, if_false]; exact hinv k

end Nv.C01
