import Nv.Proofs.C03Ref3
/-! C03 — refinement B → A, part 4: a node of the store seen as a layer-A node; `mutableChild` does not change what the
node denotes. -/
namespace Nv.C03.Cow
open Nv.C03

theorem mutableChild_eq (cow n i : Nat) (H : Heap) :
    (Cow.mutableChild cow n i) H =
      (((Cow.mutableFor cow ((H.get n).children.getD i n)) H).1,
       ((Cow.wr n (H.get n).items (setAt (H.get n).children i ((Cow.mutableFor cow ((H.get n).children.getD i n)) H).1))
          ((Cow.mutableFor cow ((H.get n).children.getD i n)) H).2).2) := rfl

/-- what we know about an inner node of the store that denotes a well-formed layer-A node -/
structure Inner (mn cow : Nat) (H : Heap) (fuel n : Nat) : Prop where
  kids : KidsOk mn (2 * mn + 1) (fuel + 1) (absNode H (fuel + 1) n)
  sorted : Sorted (absNode H (fuel + 1) n).inorder
  own : H.tag n = some cow
  wf : WFree H

namespace Inner
variable {mn cow : Nat} {H : Heap} {fuel n : Nat}

theorem len (h : Inner mn cow H fuel n) : (H.get n).children.length = (H.get n).items.length + 1 := by
  have := h.kids; rw [abs_succ] at this
  simp only [KidsOk, children_mk, items_mk, List.length_map] at this
  exact this.1

theorem childOk (h : Inner mn cow H fuel n) {c : Nat} (hc : c ∈ (H.get n).children) :
    nodeOk mn (2 * mn + 1) fuel (absNode H fuel c) = true := by
  have := h.kids; rw [abs_succ] at this
  simp only [KidsOk, children_mk, items_mk] at this
  exact this.2 _ (List.mem_map.2 ⟨c, hc, rfl⟩)

theorem lt (h : Inner mn cow H fuel n) : n < H.size := tag_some_lt H n cow h.own

theorem notFree (h : Inner mn cow H fuel n) : n ∉ H.free := by
  intro hm
  have := (h.wf.2 n hm).2
  have h2 := h.own
  simp [Heap.tag, this, HNode.empty] at h2

/-- the node is not inside the subtree of any of its children -/
theorem ne_empty' (h : Inner mn cow H fuel n) : H.get n ≠ HNode.empty := by
  intro e
  have h2 := h.own
  simp [Heap.tag, e, HNode.empty] at h2

theorem notInChild (hmn : 1 ≤ mn) (h : Inner mn cow H fuel n) {c : Nat} (hc : c ∈ (H.get n).children) : ¬ InSub H fuel c n := by
  intro hin
  by_cases hne : (H.get n).items = []
  · have hcok := (nodeOk_iff _ _ _ _).1 (h.childOk hc)
    have e := empty_not_inside mn _ hmn H fuel c n hcok.2.2 hin hne
    have := hcok.1
    rw [abs_items, ← e, hne] at this
    simp at this; omega
  · exact no_cycle mn _ H fuel n c h.kids h.sorted hne hc hin

/-- a child's subtree survives any change that spares non-empty cells other than the node itself -/
theorem child_frame (hmn : 1 ≤ mn) (h : Inner mn cow H fuel n) {H' : Heap} (hf : Frame H H' (fun x => x = n))
    {c : Nat} (hc : c ∈ (H.get n).children) :
    absNode H' fuel c = absNode H fuel c ∧ ∀ y, InSub H' fuel c y → InSub H fuel c y :=
  abs_frame mn _ hmn hf fuel c (h.childOk hc) (fun x hx e => h.notInChild hmn hc (e ▸ hx))

end Inner

theorem map_setAt {α β} (f : α → β) (l : List α) (i : Nat) (a : α) : (setAt l i a).map f = setAt (l.map f) i (f a) := by
  simp [setAt, List.map_take, List.map_drop]

/-- replacing an element by one with the same image does not change the mapped list -/
theorem map_setAt_same {α β} (f g : α → β) (l : List α) (i : Nat) (a d : α) (hi : i < l.length)
    (hrest : ∀ y ∈ l, f y = g y) (ha : f a = g (l.getD i d)) : (setAt l i a).map f = l.map g := by
  have hsplit := list_split_at l i d hi
  conv => rhs; rw [hsplit]
  simp only [setAt, List.map_append, List.map_cons, ha]
  congr 1
  · exact List.map_congr_left (fun y hy => hrest y (List.mem_of_mem_take hy))
  · congr 1
    exact List.map_congr_left (fun y hy => hrest y (List.mem_of_mem_drop hy))

/-- `mutableChild`: the node denotes what it denoted; child `i` is now an owned cell denoting what the old child did -/
theorem mutableChild_abs (mn cow : Nat) (hmn : 1 ≤ mn) (H : Heap) (fuel n i : Nat) (h : Inner mn cow H fuel n)
    (hi : i < (H.get n).children.length) :
    let r := (Cow.mutableChild cow n i) H
    r.2.get n = ⟨(H.get n).items, setAt (H.get n).children i r.1, some cow⟩ ∧
    absNode r.2 fuel r.1 = absNode H fuel ((H.get n).children.getD i n) ∧
    (∀ c ∈ (H.get n).children, absNode r.2 fuel c = absNode H fuel c) ∧
    absNode r.2 (fuel + 1) n = absNode H (fuel + 1) n ∧
    r.2.tag r.1 = some cow ∧ WFree r.2 ∧ H.size ≤ r.2.size ∧
    Frame H r.2 (fun x => x = n) ∧
    (∀ y, InSub r.2 fuel r.1 y → y = r.1 ∨ InSub H fuel ((H.get n).children.getD i n) y) ∧
    (r.1 = (H.get n).children.getD i n ∨ H.get r.1 = HNode.empty) := by
  rw [mutableChild_eq]
  have hcm : (H.get n).children.getD i n ∈ (H.get n).children := getD_mem _ i n hi
  obtain ⟨m1, m2, m3, m4, m5, m6, m7, m8, _, m10⟩ := mutableFor_spec cow ((H.get n).children.getD i n) H h.wf
  generalize (Cow.mutableFor cow ((H.get n).children.getD i n)) H = r at m1 m2 m3 m4 m5 m6 m7 m8 m10
  obtain ⟨ch, Hm⟩ := r
  simp only at m1 m2 m3 m4 m5 m6 m7 m8 m10 ⊢
  generalize hc : (H.get n).children.getD i n = c at *
  have hnm : Hm.get n = H.get n := m10 n (fun hf => hf) h.ne_empty'
  have hnlt : n < Hm.size := Nat.lt_of_lt_of_le h.lt m6
  obtain ⟨w1, w2, w3, w4⟩ := wr_get Hm n (H.get n).items (setAt (H.get n).children i ch) hnlt
  have hnf : n ∉ Hm.free := by
    intro hm; have := (m7.2 n hm).2; rw [hnm] at this
    exact h.ne_empty' this
  have hwf1 := wr_wfree Hm n (H.get n).items (setAt (H.get n).children i ch) hnlt m7 hnf
  have hcown : (Hm.get n).cow = some cow := by rw [hnm]; exact h.own
  -- ch ≠ n : the new child is the old child (and the node is not its own child), or it held nothing
  have hchn : ch ≠ n := by
    rcases m5 with e | e
    · intro e2
      exact h.notInChild hmn hcm (by rw [← e, e2]; exact InSub.self H fuel n)
    · intro e2; rw [e2] at e; exact h.ne_empty' e
  generalize ((Cow.wr n (H.get n).items (setAt (H.get n).children i ch)) Hm).2 = H1 at w1 w2 w3 w4 hwf1 ⊢
  have hframe : Frame H H1 (fun x => x = n) := by
    intro x hx hne
    rw [w2 x hx]; exact m10 x (fun hf => hf) hne
  -- children of the node
  have hkids : ∀ c' ∈ (H.get n).children, absNode H1 fuel c' = absNode H fuel c' :=
    fun c' hc' => (h.child_frame hmn hframe hc').1
  have hch1 : H1.get ch = Hm.get ch := w2 ch hchn
  -- the new child denotes what the old one did
  have hchabs : absNode H1 fuel ch = absNode H fuel c := by
    cases fuel with
    | zero => simp [absNode, hch1, m2, m3]
    | succ f =>
      rw [abs_succ, abs_succ, hch1, m2, m3]
      congr 1
      apply List.map_congr_left
      intro g hg
      -- a grandchild: its subtree contains neither the node nor an item-less cell
      have hcok := (nodeOk_iff _ _ _ _).1 (h.childOk hcm)
      have hk := hcok.2.2
      rw [abs_succ] at hk
      simp only [KidsOk, children_mk, items_mk] at hk
      have hgok := hk.2 _ (List.mem_map.2 ⟨g, hg, rfl⟩)
      exact (abs_frame mn _ hmn hframe f g hgok (fun x hx e => h.notInChild hmn hcm (e ▸ Or.inr ⟨g, hg, hx⟩))).1
  have hnabs : absNode H1 (fuel + 1) n = absNode H (fuel + 1) n := by
    rw [abs_succ, abs_succ, w1]
    congr 1
    exact map_setAt_same _ _ _ i ch n hi hkids (by rw [hchabs, hc])
  refine ⟨by rw [w1, hcown], hchabs, hkids, hnabs, by simp only [Heap.tag]; rw [hch1]; exact m1, hwf1,
    by rw [w3]; exact m6, hframe, ?_, m5⟩
  -- the subtree of the new child
  intro y hy
  cases fuel with
  | zero => exact Or.inl hy
  | succ f =>
    rcases hy with rfl | ⟨g, hg, hy⟩
    · exact Or.inl rfl
    · rw [hch1, m3] at hg
      have hcok := (nodeOk_iff _ _ _ _).1 (h.childOk hcm)
      have hk := hcok.2.2
      rw [abs_succ] at hk
      simp only [KidsOk, children_mk, items_mk] at hk
      have hgok := hk.2 _ (List.mem_map.2 ⟨g, hg, rfl⟩)
      have := (abs_frame mn _ hmn hframe f g hgok (fun x hx e => h.notInChild hmn hcm (e ▸ Or.inr ⟨g, hg, hx⟩))).2 y hy
      exact Or.inr (Or.inr ⟨g, hg, this⟩)

end Nv.C03.Cow
