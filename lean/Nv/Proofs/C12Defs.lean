import Nv.Model.C12
/-! C12 — definitions used by the history-level theorems, and the few one-step facts the two heavy case analyses
(`Nv.Proofs.C12Cons`, `Nv.Proofs.C12Fifo`) need. -/
namespace Nv.C12

def LQ.items (s : LQ) : List Nat := s.ctrl ++ s.req

def popCount (y : Nat) : Out → Nat
  | .val v => if v = y then 1 else 0
  | .spun l _ => l.count y          -- items taken to make room for a retrying `*Anyway` add
  | _ => 0

/-- the add was accepted: at once, or after retrying while full -/
def okOut : Out → Bool
  | .ok => true
  | .spun _ .ok => true
  | _ => false

/-- 1 when the step is an add of `y` that was accepted (SyncQueue: not dropped because closed) -/
def addCount (y : Nat) (s : LQ) (op : Op) (o : Out) : Nat :=
  match op with
  | .add x | .prior x | .addCtrl x | .priorCtrl x | .addAny x _ | .addCtrlAny x _ =>
    if x = y ∧ okOut o = true ∧ (s.kind = .syncq → s.closed = false) then 1 else 0
  | _ => 0

def poppedOf : Out → List Nat
  | .val v => [v]
  | .spun l _ => l
  | _ => []

/-- the item an accepted back-insertion appends (SyncQueue: `Push` answers ok but drops the item when closed) -/
def acceptedOf (s : LQ) (op : Op) (o : Out) : List Nat :=
  match op with
  | .add x | .addAny x _ => if okOut o = true ∧ (s.kind = .syncq → s.closed = false) then [x] else []
  | _ => []

def noFront : Op → Bool
  | .prior _ | .addCtrl _ | .priorCtrl _ | .addCtrlAny _ _ => false
  | _ => true


/-- the two `*Anyway` adds (handled by a separate lemma in the conservation proof) -/
def isAny : Op → Bool
  | .addAny _ _ | .addCtrlAny _ _ => true
  | _ => false

theorem popAnyway_spec' (s : LQ) :
    popNow Shape.expected true s =
      match s.ctrl, s.req with
      | c :: cs, _ => some ({ s with ctrl := cs }, .val c)
      | [], r :: rs => some ({ s with req := rs }, .val r)
      | [], [] => if s.closed then some (s, .closed) else none := by
  unfold popNow takeFront LQ.isEmpty
  cases hc : s.ctrl <;> cases hr : s.req <;> simp [Shape.expected]

theorem closed_refuses' (s : LQ) (x : Nat) (hc : s.closed = true) : addReq Shape.expected s x = (s, .closed) := by
  simp [addReq, Shape.expected, hc]

end Nv.C12
