import Nv.Proofs.C01Inv
/-!
C01 — explicit list form of every step on one key (who is inside, who queues, in which order),
and the two list invariants that follow from it: weights are 1 or rwRatio, caller ids are unique.
-/
namespace Nv.C01

theorem release_lists (size : Nat) (o : Sem) (t : Tid) :
    ∃ m, (o.release size t).holders = o.holders.filter (·.1 ≠ t) ++ o.waiters.take m ∧
      (o.release size t).waiters = o.waiters.drop m := by
  unfold Sem.release
  exact ⟨_, notify_holders _ _ _ _, notify_waiters _ _ _ _⟩

theorem cancel_lists (size : Nat) (o : Sem) (t : Tid) :
    ∃ m, (o.cancel size t).holders = o.holders ++ (o.waiters.filter (·.1 ≠ t)).take m ∧
      (o.cancel size t).waiters = (o.waiters.filter (·.1 ≠ t)).drop m := by
  unfold Sem.cancel
  split
  · exact ⟨_, notify_holders _ _ _ _, notify_waiters _ _ _ _⟩
  · exact ⟨0, by simp, by simp⟩

/-- release on a key: the releaser leaves; the first `m` waiters, in queue order, join the holders -/
theorem release_step_lists (size : Nat) (s : KS) (t : Tid) (h : KInv size s) (hen : s.holds t = true) :
    ∃ m, (s.release size .emptyAndIdle t).holders = s.holders.filter (·.1 ≠ t) ++ s.waiters.take m ∧
      (s.release size .emptyAndIdle t).waiters = s.waiters.drop m := by
  obtain ⟨o, rfl, _, hh, hw, _⟩ := release_char size s t h hen
  obtain ⟨m, h1, h2⟩ := release_lists size o t
  exact ⟨m, by rw [hh, h1]; simp, by rw [hw, h2]; simp⟩

/-- cancel of a waiting caller: it leaves the queue; the first `m` of the others join the holders -/
theorem cancel_step_lists (size : Nat) (s : KS) (t : Tid) (h : KInv size s) (hw : s.waits t = true) :
    ∃ m, (s.cancel size t).holders = s.holders ++ (s.waiters.filter (·.1 ≠ t)).take m ∧
      (s.cancel size t).waiters = (s.waiters.filter (·.1 ≠ t)).drop m := by
  obtain ⟨o, rfl, _, hh, hww, _⟩ := cancel_char size s t h hw
  obtain ⟨m, h1, h2⟩ := cancel_lists size o t
  exact ⟨m, by rw [hh, h1]; simp, by rw [hww, h2]; simp⟩

/-- everybody the key knows: holders then queue -/
def KS.all (s : KS) : List W := s.holders ++ s.waiters

theorem acquire_all (size : Nat) (s : KS) (t : Tid) (n : Nat) (hn1 : 1 ≤ n) (hn2 : n ≤ size) (h : KInv size s) :
    ∀ x, x ∈ (s.acquire size t n).all ↔ x ∈ s.all ∨ x = (t, n) := by
  have hc := (acquire_char size s t n hn1 hn2 h).2.2
  intro x
  split at hc
  · rename_i hcond
    simp only [KS.all, hc.1, hc.2, hcond.1]
    simp
  · simp only [KS.all, hc.1, hc.2]
    simp [or_assoc]

theorem sublist_filter_append_take_drop (hs ws : List W) (t : Tid) (m : Nat) :
    ((hs.filter (·.1 ≠ t) ++ ws.take m) ++ ws.drop m).Sublist (hs ++ ws) := by
  rw [List.append_assoc, List.take_append_drop]
  exact List.Sublist.append List.filter_sublist (List.Sublist.refl _)

theorem sublist_append_filter_take_drop (hs ws : List W) (t : Tid) (m : Nat) :
    ((hs ++ (ws.filter (·.1 ≠ t)).take m) ++ (ws.filter (·.1 ≠ t)).drop m).Sublist (hs ++ ws) := by
  rw [List.append_assoc, List.take_append_drop]
  exact List.Sublist.append (List.Sublist.refl _) List.filter_sublist

/-- after a release or a cancel, the callers the key knows form a sublist of those it knew -/
theorem release_all_sublist (size : Nat) (s : KS) (t : Tid) (h : KInv size s) (hen : s.holds t = true) :
    (s.release size .emptyAndIdle t).all.Sublist s.all := by
  obtain ⟨m, h1, h2⟩ := release_step_lists size s t h hen
  simp only [KS.all, h1, h2]
  exact sublist_filter_append_take_drop _ _ _ _

theorem cancel_all_sublist (size : Nat) (s : KS) (t : Tid) (h : KInv size s) :
    (s.cancel size t).all.Sublist s.all := by
  cases hw : s.waits t with
  | false => rw [cancel_noop size s t h hw]; exact List.Sublist.refl _
  | true =>
    obtain ⟨m, h1, h2⟩ := cancel_step_lists size s t h hw
    simp only [KS.all, h1, h2]
    exact sublist_append_filter_take_drop _ _ _ _

/-- list invariants: every weight is 1 (reader) or rwRatio (writer); caller ids are pairwise different -/
def KInv2 (rw : Nat) (s : KS) : Prop :=
  (∀ x ∈ s.all, x.2 = 1 ∨ x.2 = rw) ∧ (s.all.map (·.1)).Nodup

theorem KInv2.init (rw : Nat) : KInv2 rw KS.init := by
  simp [KInv2, KS.all, KS.init, KS.holders, KS.waiters, KS.objs]

theorem not_listed_not_mem (s : KS) (t : Tid) (h : s.listed t = false) : t ∉ s.all.map (·.1) := by
  simp only [KS.listed, KS.holds, KS.waits, Bool.or_eq_false_iff] at h
  intro hm
  simp only [KS.all, List.map_append, List.mem_append, List.mem_map] at hm
  rcases hm with ⟨x, hx, rfl⟩ | ⟨x, hx, rfl⟩
  · have := h.1
    rw [List.any_eq_false] at this
    exact this x hx (by simp)
  · have := h.2
    rw [List.any_eq_false] at this
    exact this x hx (by simp)

theorem kstep_inv2 (c : Cfg) (hc : Proved c) (rw : Nat) (hrw : 1 ≤ rw) (s : KS) (a : Act)
    (hen : s.enabled a = true) (h : KInv rw s) (h2 : KInv2 rw s) : KInv2 rw (s.step c rw a) := by
  have hg : c.guard = .emptyAndIdle := hc
  obtain ⟨hwt, hnd⟩ := h2
  cases a with
  | acquire t k wr =>
    have hb := weight_bounds rw hrw wr
    have hall := acquire_all rw s t _ hb.1 hb.2 h
    have hfresh : t ∉ s.all.map (·.1) := not_listed_not_mem s t (by simpa [KS.enabled] using hen)
    simp only [KS.step]
    refine ⟨fun x hx => ?_, ?_⟩
    · rcases (hall x).1 hx with hx | rfl
      · exact hwt x hx
      · exact weight_cases rw wr
    · -- the new list is the old one with (t, n) inserted at the end of the holders or of the queue
      have hch := (acquire_char rw s t _ hb.1 hb.2 h).2.2
      split at hch
      · rename_i hcond
        simp only [KS.all, hch.1, hch.2, List.append_nil, List.map_append, List.map_cons, List.map_nil]
        simp only [KS.all, hcond.1, List.append_nil] at hnd hfresh
        rw [List.nodup_append]
        refine ⟨hnd, by simp, ?_⟩
        intro a ha b hb
        simp at hb; subst hb
        intro hab; subst hab; exact hfresh ha
      · simp only [KS.all, hch.1, hch.2, ← List.append_assoc, List.map_append, List.map_cons, List.map_nil]
        simp only [KS.all, List.map_append] at hnd hfresh
        rw [List.nodup_append]
        refine ⟨hnd, by simp, ?_⟩
        intro a ha b hb
        simp at hb; subst hb
        intro hab; subst hab; exact hfresh ha
  | release t k =>
    simp only [KS.step, hg]
    have hsub := release_all_sublist rw s t h (by simpa [KS.enabled] using hen)
    exact ⟨fun x hx => hwt x (hsub.subset hx), (hsub.map _).nodup hnd⟩
  | cancel t k =>
    simp only [KS.step]
    have hsub := cancel_all_sublist rw s t h
    exact ⟨fun x hx => hwt x (hsub.subset hx), (hsub.map _).nodup hnd⟩

theorem reach_inv2 (c : Cfg) (hc : Proved c) (rw : Nat) (hrw : 1 ≤ rw) :
    ∀ s, (M c rw).Reach s → ∀ k, KInv rw (s k) ∧ KInv2 rw (s k) := by
  apply LTS.inv_of_step (M c rw) (fun s => ∀ k, KInv rw (s k) ∧ KInv2 rw (s k))
  · intro k; exact ⟨KInv.init rw, KInv2.init rw⟩
  · intro s a s' hinv hstep k
    have hstep' : step c rw s a = some s' := hstep
    by_cases hk : k = a.key
    · subst hk
      rw [step_this_key c rw s s' a hstep']
      have hen := (step_some c rw s s' a hstep').1
      exact ⟨kstep_inv c hc rw hrw _ a hen (hinv _).1, kstep_inv2 c hc rw hrw _ a hen (hinv _).1 (hinv _).2⟩
    · rw [step_other_key c rw s s' a hstep' k hk]; exact hinv k

/-- a holder of weight `x.2` among holders of weight ≥ 1 leaves room for at most `wsum - x.2` others -/
theorem mem_wsum_bound (l : List W) (hp : ∀ h ∈ l, 1 ≤ h.2) (x : W) (hx : x ∈ l) :
    x.2 + (l.length - 1) ≤ wsum l := by
  induction l with
  | nil => cases hx
  | cons a rest ih =>
    rw [wsum_cons]
    have hlen : rest.length ≤ wsum rest := by
      clear ih hx
      induction rest with
      | nil => simp [wsum]
      | cons b r ihr =>
        rw [wsum_cons]
        have := hp b (by simp)
        have := ihr (fun h hh => hp h (by
          rcases List.mem_cons.1 hh with rfl | hh
          · simp
          · simp [hh]))
        simp; omega
    rcases List.mem_cons.1 hx with rfl | hx
    · simp; omega
    · have := ih (fun h hh => hp h (by simp [hh])) hx
      have := hp a (by simp)
      have : 1 ≤ rest.length := List.length_pos_of_mem hx
      simp; omega

theorem wsum_all_one (l : List W) (h : ∀ x ∈ l, x.2 = 1) : wsum l = l.length := by
  induction l with
  | nil => rfl
  | cons a rest ih =>
    rw [wsum_cons, h a (by simp), ih (fun x hx => h x (by simp [hx]))]
    simp; omega

end Nv.C01
