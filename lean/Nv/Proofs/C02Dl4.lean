import Nv.Proofs.C02Dl3
/-!
C02 — the acquisition-order discipline is preserved by every step; threads that are not blocked can step.
-/
namespace Nv.C02

def actor : Act → Tid
  | .call t _ _ => t
  | .reg t => t
  | .lock t => t
  | .uncall t _ _ => t
  | .rel t => t

theorem regKey_th (c : Cfg) (m : Mode) (t : Tid) (s : State) (k : Key) : (regKey c m t s k).1.th = s.th := by
  unfold regKey
  cases s.table k <;> simp only <;> split <;> rfl

theorem relKey_th_other (c : Cfg) (m : Mode) (t : Tid) (s : State) (k : Key) (u : Tid) (hu : u ≠ t) :
    (relKey c m t s k).th u = s.th u := by
  unfold relKey
  cases s.table k with
  | none => rfl
  | some o =>
    simp only
    split
    · split <;> simp [upd_other _ _ _ _ hu]
    · rfl

theorem relKey_phase (c : Cfg) (m : Mode) (t : Tid) (s : State) (k : Key) :
    ((relKey c m t s k).th t).phase = (s.th t).phase := by
  unfold relKey
  cases s.table k with
  | none => rfl
  | some o =>
    simp only
    split
    · split <;> simp
    · rfl

/-- a step changes only the thread that takes it -/
theorem step_th_other {c : Cfg} {n : Nat} {sh : Key → Nat} {s s' : State} {a : Act}
    (h : step c n sh s a = some s') (u : Tid) (hu : u ≠ actor a) : s'.th u = s.th u := by
  unfold step at h
  split at h
  · cases h
  · cases a with
    | call t m keys =>
      simp only at h; split at h
      · cases h; exact setTh_th_other _ _ _ _ hu
      · cases h
    | uncall t m keys =>
      simp only at h; split at h
      · cases h; exact setTh_th_other _ _ _ _ hu
      · cases h
    | reg t =>
      have hu : u ≠ t := hu
      simp only [stepReg] at h
      split at h
      · cases h; exact setTh_th_other _ _ _ _ hu
      · cases h; exact setTh_th_other _ _ _ _ hu
      · cases h; rw [setTh_th_other _ _ _ _ hu, regKey_th]
      · cases h
    | lock t =>
      have hu : u ≠ t := hu
      simp only [stepLock] at h
      split at h
      · cases h; exact setTh_th_other _ _ _ _ hu
      · split at h
        · cases h
        · cases h; rfl
        · cases h; rw [setTh_th_other _ _ _ _ hu]; rfl
      · cases h
    | rel t =>
      have hu : u ≠ t := hu
      simp only [stepRel] at h
      split at h
      · cases h; exact setTh_th_other _ _ _ _ hu
      · cases h; exact setTh_th_other _ _ _ _ hu
      · cases h; rw [setTh_th_other _ _ _ _ hu]; exact relKey_th_other _ _ _ _ _ _ hu
      · cases h

/-- what a disciplined caller promises: the keys of a call ascend in rank in the order the locker takes them, and
lie above every key the caller already holds -/
def okAct (c : Cfg) (n : Nat) (sh : Key → Nat) (rank : Key → Nat) (s : State) : Act → Prop
  | .call t _ keys =>
    (acqOrder c n sh keys).Pairwise (fun a b => rank a < rank b) ∧
    ∀ h ∈ heldKeys (s.th t), ∀ k ∈ acqOrder c n sh keys, rank h < rank k
  | _ => True

theorem ordTh_of_seq_nil (rank : Key → Nat) (th : Thread) (h : seqKeys th = []) : OrdTh rank th := by
  unfold OrdTh; rw [h]; exact ⟨List.Pairwise.nil, fun _ _ _ hk => by cases hk⟩

theorem ordered_step {c : Cfg} {n : Nat} {sh : Key → Nat} {rank : Key → Nat} {s s' : State} {a : Act}
    (hord : Ordered rank s) (hok : okAct c n sh rank s a) (h : step c n sh s a = some s') : Ordered rank s' := by
  intro u
  by_cases hu : u = actor a
  case neg => rw [step_th_other h u hu]; exact hord u
  case pos =>
      subst hu
      have old := hord (actor a)
      unfold step at h
      split at h
      · cases h
      · cases a with
        | call t m keys =>
          simp only at h; split at h
          · cases h
            simp only [actor, setTh_th_same]
            unfold OrdTh
            simp only [seqKeys, pend, future, List.map_nil, List.nil_append, heldKeys]
            exact hok
          · cases h
        | uncall t m keys =>
          simp only at h; split at h
          · cases h
            simp only [actor, setTh_th_same]
            exact ordTh_of_seq_nil _ _ (by simp [seqKeys, pend, future])
          · cases h
        | reg t =>
          simp only [actor] at old ⊢
          simp only [stepReg] at h
          split at h
          · next m all acc hph =>
            cases h
            simp only [setTh_th_same]
            unfold OrdTh at old ⊢
            simpa [seqKeys, pend, future, hph, heldKeys] using old
          · next m all gs acc hph =>
            cases h
            simp only [setTh_th_same]
            unfold OrdTh at old ⊢
            simpa [seqKeys, pend, future, hph, heldKeys] using old
          · next m all k ks gs acc hph =>
            cases h
            simp only [setTh_th_same]
            unfold OrdTh at old ⊢
            simp only [seqKeys, pend, future, hph, heldKeys, regKey_th, List.map_append, List.map_map, List.map_cons,
              List.map_nil, List.flatten_cons, List.append_assoc, List.cons_append, List.nil_append] at old ⊢
            exact old
          · cases h
        | lock t =>
          simp only [actor] at old ⊢
          simp only [stepLock] at h
          split at h
          · cases h
            simp only [setTh_th_same]
            exact ordTh_of_seq_nil _ _ (by simp [seqKeys, pend, future])
          · next m all k o rest hph =>
            split at h
            · cases h
            · cases h; exact old
            · cases h
              simp only [setTh_th_same, advance_acq hph]
              unfold OrdTh at old ⊢
              simp only [seqKeys, pend, future, hph, heldKeys, List.map_cons, List.map_map, List.append_nil,
                List.pairwise_cons, List.mem_cons] at old ⊢
              refine ⟨old.1.2, ?_⟩
              intro h' hh' k' hk'
              rcases hh' with rfl | hh'
              · exact old.1.1 k' hk'
              · exact old.2 h' hh' k' (.inr hk')
          · cases h
        | rel t =>
          simp only [actor] at old ⊢
          simp only [stepRel] at h
          split at h
          · cases h
            simp only [setTh_th_same]
            exact ordTh_of_seq_nil _ _ (by simp [seqKeys, pend, future])
          · cases h
            simp only [setTh_th_same]
            exact ordTh_of_seq_nil _ _ (by simp [seqKeys, pend, future])
          · cases h
            simp only [setTh_th_same]
            exact ordTh_of_seq_nil _ _ (by simp [seqKeys, pend, future])
          · cases h

theorem ordered_init (rank : Key → Nat) : Ordered rank State.init := fun _ =>
  ordTh_of_seq_nil _ _ (by simp [seqKeys, pend, future, State.init, Thread.init])

/-- a thread inside a call that is not asleep has an enabled step -/
theorem can_step {c : Cfg} {n : Nat} {sh : Key → Nat} {s : State} (hf : s.fault = false) (u : Tid)
    (hbusy : (s.th u).phase ≠ .idle) (hnb : ¬ blockedT s u) :
    ∃ a s', actor a = u ∧ step c n sh s a = some s' := by
  cases hph : (s.th u).phase with
  | idle => exact absurd hph hbusy
  | reg m all gs acc =>
    refine ⟨.reg u, ?_⟩
    simp only [actor, step, hf, Bool.false_eq_true, if_false, stepReg, hph, true_and]
    cases gs with
    | nil => exact ⟨_, rfl⟩
    | cons g gs => cases g <;> exact ⟨_, rfl⟩
  | rel m gs =>
    refine ⟨.rel u, ?_⟩
    simp only [actor, step, hf, Bool.false_eq_true, if_false, stepRel, hph, true_and]
    cases gs with
    | nil => exact ⟨_, rfl⟩
    | cons g gs => cases g <;> exact ⟨_, rfl⟩
  | acq m all todo =>
    refine ⟨.lock u, ?_⟩
    simp only [actor, step, hf, Bool.false_eq_true, if_false, stepLock, hph, true_and]
    cases todo with
    | nil => exact ⟨_, rfl⟩
    | cons p rest =>
      obtain ⟨k, o⟩ := p
      simp only
      cases hres : tryLock m u (s.objs o) with
      | blocked => exact absurd ⟨m, all, k, o, rest, hph, hres⟩ hnb
      | wait w1 => exact ⟨_, rfl⟩
      | enter w1 => exact ⟨_, rfl⟩

end Nv.C02
