import Nv.Proofs.C03Remove
import Nv.Proofs.C03Insert3
/-! C03 — `removeH` (all heights) and `deleteItem` on the whole tree (root collapse included). -/
namespace Nv.C03

theorem setAt_length_ge {α} (l : List α) (i : Nat) (a : α) : l.length ≤ (setAt l i a).length := by
  simp [setAt]; omega

theorem RemovePost.transfer {mn h : Nat} {typ : Rm} {is is' : List Item} {cs cs' : List Node} {r : Node × Option Item}
    (hin : interleave is' cs' = interleave is cs) (hlo : is.length ≤ is'.length + 1) (hhi : is'.length ≤ is.length)
    (hlo' : is'.length ≤ r.1.items.length) (D : RemovePost mn (h + 1) (.mk is' cs') typ r) :
    RemovePost mn (h + 1) (.mk is cs) typ r :=
  ⟨by rw [D.inorder, inorder_mk, inorder_mk, hin], by rw [D.ret, inorder_mk, inorder_mk, hin], D.kids,
    by simp only [items_mk]; omega, by have := D.hi; simp only [items_mk] at this ⊢; omega⟩

theorem removeH_spec (mn : Nat) (hmn : 1 ≤ mn) : ∀ (h : Nat) (n : Node) (typ : Rm),
    KidsOk mn (2 * mn + 1) h n → Sorted n.inorder → 1 ≤ n.items.length →
    RemovePost mn h n typ (removeH mn h n typ) := by
  intro h
  induction h with
  | zero =>
    intro n typ hk hs h1
    cases n with
    | mk is cs =>
      simp only [KidsOk, children_mk] at hk; subst hk
      simp only [inorder_mk, interleave_nil_right] at hs
      have := leaf_remove_spec is typ hs
      have hl := leafRemove_len is typ
      simp only [removeH]
      exact ⟨by simp [this], by simp [this], by simp [KidsOk], by simpa using hl.1, by simpa using hl.2⟩
  | succ h ih =>
    intro n typ hk hs h1
    cases n with
    | mk is cs =>
      have hk' := hk
      simp only [KidsOk, children_mk, items_mk] at hk
      simp only [inorder_mk] at hs
      simp only [items_mk] at h1
      cases cs with
      | nil => simp at hk
      | cons c0 cs0 =>
        have hsi := sorted_items is _ hs
        simp only [removeH]
        by_cases hsmall : ((c0 :: cs0).getD (locate is typ).1 default).items.length ≤ mn
        · -- grow first
          simp only [hsmall, decide_true, if_true]
          have G := grow_spec mn hmn h is (c0 :: cs0) typ (locate is typ).1 hk' hs h1 (locIs_locate is typ hsi)
            (locate_le is typ) hsmall
          generalize grow mn is (c0 :: cs0) (locate is typ).1 = g at G ⊢
          obtain ⟨is', cs'⟩ := g
          have D := descend_remove mn hmn h typ is' cs' ih G.kids (by rw [G.inorder]; exact hs) G.big
          have hlo := G.lo; have hhi := G.hi
          simp only at hlo hhi
          refine RemovePost.transfer G.inorder hlo hhi ?_ D
          split
          · exact setAt_length_ge _ _ _
          · exact Nat.le_refl _
        · simp only [hsmall, decide_false, Bool.false_eq_true, if_false]
          exact descend_remove mn hmn h typ is (c0 :: cs0) ih hk' hs (by omega)

/-! ### the whole tree -/

theorem collapse_spec (mn mx : Nat) (hmn : 1 ≤ mn) (h : Nat) (n : Node) (hk : KidsOk mn mx h n) (hlen : n.items.length ≤ mx) :
    (collapse n).inorder = n.inorder ∧ rootOk mn mx (collapse n) = true := by
  cases n with
  | mk is cs =>
    cases is with
    | cons i is =>
      have : collapse (.mk (i :: is) cs) = .mk (i :: is) cs := by cases cs <;> rfl
      rw [this]
      refine ⟨rfl, (rootOk_iff _ _ _).2 ⟨hlen, ?_, fun _ => by simp⟩⟩
      rw [height_of_kidsOk _ _ _ _ hk]; exact hk
    | nil =>
      cases cs with
      | nil =>
        refine ⟨rfl, ?_⟩
        simp [collapse, rootOk]
      | cons c cs =>
        simp only [collapse]
        cases h with
        | zero => simp [KidsOk] at hk
        | succ h =>
          simp only [KidsOk, children_mk, items_mk, List.length_cons, List.length_nil] at hk
          have hcs : cs = [] := by
            have := hk.1; cases cs with
            | nil => rfl
            | cons _ _ => simp at this
          subst hcs
          refine ⟨by simp, ?_⟩
          have hc := (nodeOk_iff _ _ _ _).1 (hk.2 c (by simp))
          apply (rootOk_iff _ _ _).2
          exact ⟨hc.2.1, by rw [height_of_kidsOk _ _ _ _ hc.2.2]; exact hc.2.2, fun _ => by have := hc.1; omega⟩

theorem tree_delete_spec (t : Tree) (typ : Rm) (h : t.ok = true) :
    (t.deleteItem typ).1.inorder = (specRemove t.inorder typ).1 ∧
    (t.deleteItem typ).2 = (specRemove t.inorder typ).2 ∧
    (t.deleteItem typ).1.ok = true ∧ (t.deleteItem typ).1.degree = t.degree := by
  cases hr : t.root with
  | none =>
    simp only [Tree.deleteItem, hr, Tree.inorder]
    refine ⟨?_, ?_, h, trivial⟩ <;> cases typ <;> simp [specRemove, specDelete, specFind]
  | some r =>
    obtain ⟨hd, hroot, hsr, hlen⟩ := ok_root t r hr h
    obtain ⟨hmx, hmn, h1⟩ := tree_bounds t hd
    have hroot' := hroot
    rw [hmx, hmn] at hroot'
    obtain ⟨hrlen, hrk, hrne⟩ := (rootOk_iff _ _ _).1 hroot'
    by_cases hemp : r.items.isEmpty = true
    · -- an empty root (after the last item was deleted): nothing to do
      simp only [Tree.deleteItem, hr, hemp, if_true, Tree.inorder]
      have hri : r.items = [] := by simpa using hemp
      have hrc : r.children = [] := by
        by_cases hc : r.children = []
        · exact hc
        · have := hrne hc; rw [hri] at this; simp at this
      have hin : r.inorder = [] := by
        cases r with
        | mk is cs => simp only [items_mk, children_mk] at hri hrc; subst hri; subst hrc; simp
      refine ⟨?_, ?_, h, trivial⟩ <;> rw [hin] <;> cases typ <;> simp [specRemove, specDelete, specFind]
    · simp only [Tree.deleteItem, hr, hemp, Bool.false_eq_true, if_false, Tree.inorder]
      have hne : 1 ≤ r.items.length := by
        cases hri : r.items with
        | nil => rw [hri] at hemp; simp at hemp
        | cons _ _ => simp
      have P := removeH_spec (t.degree - 1) h1 (height r) r typ hrk hsr hne
      rw [hmn]
      have C := collapse_spec (t.degree - 1) (2 * (t.degree - 1) + 1) h1 (height r) _ P.kids (by have := P.hi; omega)
      refine ⟨by rw [C.1, P.inorder], P.ret, ?_, trivial⟩
      apply ok_of_fields t.degree _ _ hd C.2
      · rw [C.1, P.inorder]
        cases typ with
        | item k => exact sorted_of_sublist List.filter_sublist hsr
        | min => exact sorted_of_sublist (List.drop_sublist 1 _) hsr
        | max => exact sorted_of_sublist (List.dropLast_sublist _) hsr
      · rw [C.1, P.inorder, P.ret, hlen]
        cases typ with
        | min => cases r.inorder <;> simp [specRemove]
        | max =>
          cases hl : r.inorder.getLast? with
          | none => rw [List.getLast?_eq_none_iff.1 hl]; simp [specRemove]
          | some z =>
            have : r.inorder ≠ [] := by intro e; rw [e] at hl; simp at hl
            simp [specRemove, hl]
        | item k =>
          simp only [specRemove]
          rw [specDelete_length k _ hsr]
          split <;> rename_i h1 <;> simp [h1]

end Nv.C03
