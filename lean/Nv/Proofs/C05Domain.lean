import Nv.Proofs.C05Elapsed
/-!
C05 — the comparison domain of the agreement theorem, restated on histories ("below the size bound" = every Set uses a
key of a fixed set `K` of at most `size` keys), and the redis corner cases the simulation relies on.
-/
namespace Nv.C05

/-! ### "below the size bound" on histories implies the state-level room clause of `admOp` -/

theorem room_of_key_bound {m : Mem} (hwf : WF m) {K : List Key} (hsub : ∀ a ∈ m.indexed, a ∈ K) (hK : K.Nodup)
    (hlen : K.length ≤ m.size) {k : Key} (hk : k ∈ K) (hnew : m.lookup k = none) : m.live.length < m.size := by
  have hni := lookup_none_iff.1 hnew
  have hnd : (keys m.live).Nodup := (wf_iff.1 hwf).1
  have h1 : (k :: keys m.live).Nodup := by
    refine List.nodup_cons.2 ⟨?_, hnd⟩
    intro hm; exact hni (by simp [Mem.indexed, hm])
  have h2 := nodup_subset_length h1 (l := K) (by
    intro a ha
    rcases List.mem_cons.1 ha with e | e
    · rw [e]; exact hk
    · exact hsub a (by simp [Mem.indexed, e]))
  simp only [List.length_cons, keys, List.length_map] at h2
  omega

theorem mem_indexed_iff {m : Mem} {a : Key} : a ∈ m.indexed ↔ ∃ n, m.lookup a = some n := by
  constructor
  · intro h
    cases hl : m.lookup a with
    | none => exact absurd h (lookup_none_iff.1 hl)
    | some n => exact ⟨n, rfl⟩
  · rintro ⟨n, hn⟩; exact lookup_mem_indexed hn

/-- only a Set can add a key to the index -/
theorem indexed_subset_step {c : Cfg} {m : Mem} (hwf : WF m) {K : List Key} (hsub : ∀ a ∈ m.indexed, a ∈ K) (now : Int)
    (op : Op) (hset : ∀ k v o, op = .set k v o → k ∈ K) : ∀ a ∈ (m.step c now op).1.indexed, a ∈ K := by
  intro a ha
  obtain ⟨n, hn⟩ := mem_indexed_iff.1 ha
  by_cases hk : opKey op = some a
  · cases op with
    | set k v o => simp [opKey] at hk; subst hk; exact hset _ v o rfl
    | get k o =>
      simp [opKey] at hk; subst hk
      cases hl : m.lookup k with
      | none => simp [Mem.step, Mem.get, hl] at hn
      | some x => exact hsub _ (lookup_mem_indexed hl)
    | remove k => simp [opKey] at hk; subst hk; simp [Mem.step, lookup_removeKey_self] at hn
    | clear => simp [opKey] at hk
    | tick _ => simp [opKey] at hk
  · exact hsub a (lookup_mem_indexed (lookup_step_other hwf hk hn))

/-- the comparison domain with the size clause on the history: every Set uses a key of `K` -/
def admOpK (K : List Key) (s : Sys) : Op → Prop
  | .set k _ o =>
    ((o.keepTTL = true ∧ o.mustNotExist = false) ∨ 0 < o.ttl.getD s.mem.dttl) ∧ offDeadline s.mem (secOf s.clock) k ∧
    (o.keepTTL = true → o.mustNotExist = false →
      ∃ n, s.mem.lookup k = some n ∧ expired (secOf s.clock) n.dl = false) ∧ k ∈ K
  | op => admOp s op

def AdmissibleK (c : Cfg) (K : List Key) : Sys → List Op → Prop
  | _, [] => True
  | s, op :: ops => admOpK K s op ∧ AdmissibleK c K (Sys.step c s op).1 ops

theorem sys_step_mem (c : Cfg) (s : Sys) (op : Op) : (Sys.step c s op).1.mem = (s.mem.step c (secOf s.clock) op).1 := by
  cases op <;> simp [Sys.step, Mem.step]

theorem admissibleK_imp {c : Cfg} {K : List Key} (hK : K.Nodup) : ∀ (ops : List Op) (s : Sys), WF s.mem →
    (∀ a ∈ s.mem.indexed, a ∈ K) → K.length ≤ s.mem.size → AdmissibleK c K s ops → Admissible c s ops := by
  intro ops
  induction ops with
  | nil => intro _ _ _ _ _; trivial
  | cons op ops ih =>
    intro s hwf hsub hlen h
    obtain ⟨h1, h2⟩ := h
    have hm := sys_step_mem c s op
    refine ⟨?_, ih _ (by rw [hm]; exact wf_step hwf _ _) ?_ (by rw [hm, step_size]; exact hlen) h2⟩
    · cases op with
      | set k v o =>
        obtain ⟨a, b, d, hk⟩ := h1
        exact ⟨a, b, d, fun hl => room_of_key_bound hwf hsub hK hlen hk hl⟩
      | get k o => exact h1
      | remove k => trivial
      | clear => trivial
      | tick n => trivial
    · rw [hm]
      apply indexed_subset_step hwf hsub
      intro k v o e
      subst e
      exact h1.2.2.2

/-- computable check of `AdmissibleK` (for the non-vacuity example) -/
def admOpKB (K : List Key) (s : Sys) : Op → Bool
  | .set k _ o =>
    ((o.keepTTL && !o.mustNotExist) || decide (0 < o.ttl.getD s.mem.dttl)) && offDeadlineB s.mem (secOf s.clock) k &&
    (!(o.keepTTL && !o.mustNotExist) ||
      (match s.mem.lookup k with
        | some n => !expired (secOf s.clock) n.dl
        | none => false)) && decide (k ∈ K)
  | op => admOpB s op

def admissibleKB (c : Cfg) (K : List Key) : Sys → List Op → Bool
  | _, [] => true
  | s, op :: ops => admOpKB K s op && admissibleKB c K (Sys.step c s op).1 ops

theorem admOpKB_sound {K : List Key} {s : Sys} {op : Op} (h : admOpKB K s op = true) : admOpK K s op := by
  cases op with
  | set k v o =>
    simp only [admOpKB, Bool.and_eq_true, Bool.or_eq_true, decide_eq_true_eq] at h
    obtain ⟨⟨⟨h1, h2⟩, h3⟩, h4⟩ := h
    refine ⟨h1.imp (fun ⟨a, b⟩ => ⟨a, by simpa using b⟩) id, offDeadlineB_sound h2, ?_, h4⟩
    intro hk hm
    rcases h3 with h3 | h3
    · simp [hk, hm] at h3
    · cases hl : s.mem.lookup k with
      | none => simp [hl] at h3
      | some n => rw [hl] at h3; exact ⟨n, rfl, by simpa using h3⟩
  | get k o => exact admOpB_sound (op := .get k o) h
  | remove k => trivial
  | clear => trivial
  | tick n => trivial

theorem admissibleKB_sound {c : Cfg} {K : List Key} : ∀ (ops : List Op) (s : Sys),
    admissibleKB c K s ops = true → AdmissibleK c K s ops := by
  intro ops
  induction ops with
  | nil => intro _ _; trivial
  | cons op ops ih =>
    intro s h
    simp only [admissibleKB, Bool.and_eq_true] at h
    exact ⟨admOpKB_sound h.1, ih _ h.2⟩

/-! ### redis corner cases behind the simulation (all by unfolding the `Rds` model) -/

/-- KEEPTTL on a live key without ttl: it stays without ttl -/
theorem rSet_keepttl_persistent {now : Int} {k : Key} {v : Val} {st : List REntry} {e : REntry}
    (h : rLive now k st = some e) (hp : e.exp = none) :
    rSet now k v .keepttl false st = (⟨k, v, none⟩ :: rErase k st, .ok) := by simp [rSet, h, hp]

/-- KEEPTTL on a live key with a ttl keeps exactly that expiry -/
theorem rSet_keepttl_live {now : Int} {k : Key} {v : Val} {st : List REntry} {e : REntry}
    (h : rLive now k st = some e) : rSet now k v .keepttl false st = (⟨k, v, e.exp⟩ :: rErase k st, .ok) := by
  simp [rSet, h]

/-- KEEPTTL on an absent or expired key stores it WITHOUT expiry (memory gives a fresh deadline: outside the domain) -/
theorem rSet_keepttl_absent {now : Int} {k : Key} {v : Val} {st : List REntry} (h : rLive now k st = none) :
    rSet now k v .keepttl false st = (⟨k, v, none⟩ :: rErase k st, .ok) := by simp [rSet, h]

/-- a plain SET replaces the entry and drops any ttl; SET EX n replaces the ttl by now + n s -/
theorem rSet_plain_drops_ttl (now : Int) (k : Key) (v : Val) (st : List REntry) :
    rSet now k v .plain false st = (⟨k, v, none⟩ :: rErase k st, .ok) := by simp [rSet]

theorem rSet_ex_replaces_ttl (now : Int) (k : Key) (v : Val) (st : List REntry) {n : Int} (hn : 0 < n) :
    rSet now k v (.ex n) false st = (⟨k, v, some (now + n * 1000)⟩ :: rErase k st, .ok) := by
  have : ¬ n ≤ 0 := by omega
  simp [rSet, this]

/-- SET … NX on an expired key succeeds (lazy expiry counts as absent) -/
theorem rSet_nx_expired {now : Int} {k : Key} {v : Val} {st : List REntry} (h : rLive now k st = none) {n : Int}
    (hn : 0 < n) : rSet now k v (.ex n) true st = (⟨k, v, some (now + n * 1000)⟩ :: rErase k st, .ok) := by
  have : ¬ n ≤ 0 := by omega
  simp [rSet, this, h]

/-- GETDEL on an expired key: nil, and the entry is gone -/
theorem rGetDel_expired {now : Int} {k : Key} {st : List REntry} {e : REntry} (hf : rFind k st = some e)
    (he : rExpired now e.exp = true) : rGetDel now k st = (rErase k st, .nil) := by
  simp [rGetDel, rLive, hf, he]

theorem rFind_erase_self' (k : Key) (st : List REntry) : rFind k (rErase k st) = none := by
  induction st with
  | nil => rfl
  | cons e st ih =>
    simp only [rErase]; split
    · exact ih
    · rename_i h; simp [rFind, h, ih]

/-- after any GETDEL of `k`, every later GETDEL / GET of `k` (at any time) returns nil -/
theorem rGetDel_then_nil (now now' : Int) (k : Key) (st : List REntry) :
    (rGetDel now' k (rGetDel now k st).1).2 = .nil ∧ (rGet now' k (rGetDel now k st).1).2 = .nil := by
  have h1 : (rGetDel now k st).1 = rErase k st := by unfold rGetDel; split <;> rfl
  rw [h1]
  simp [rGetDel, rGet, rLive, rFind_erase_self']

/-- EXPIRE on an absent / expired key does nothing (reply 0); a non-positive time deletes the key -/
theorem rExpire_absent {now : Int} {k : Key} {st : List REntry} (h : rLive now k st = none) (s : Int) :
    rExpire now k s st = (rErase k st, .int 0) := by simp [rExpire, h]

theorem rExpire_nonpos_deletes {now : Int} {k : Key} {st : List REntry} {e : REntry} (h : rLive now k st = some e)
    {s : Int} (hs : s ≤ 0) : rExpire now k s st = (rErase k st, .int 1) := by simp [rExpire, h, hs]

theorem rExpire_sets_ttl {now : Int} {k : Key} {st : List REntry} {e : REntry} (h : rLive now k st = some e)
    {s : Int} (hs : 0 < s) : rExpire now k s st = (⟨k, e.val, some (now + s * 1000)⟩ :: rErase k st, .int 1) := by
  have : ¬ s ≤ 0 := by omega
  simp [rExpire, h, this]

end Nv.C05
