import Nv.Proofs.C02Inv4
/-!
C02 — second invariant, used by the deadlock-freedom theorem: who stands behind `rw.w` owners, sleeping readers and
outstanding wake-up tokens.
-/
namespace Nv.C02

structure Inv2 (s : State) : Prop where
  /-- the owner of `rw.w` either holds the write lock or is inside `Lock()` on this very object -/
  ownW : ∀ o u, (s.objs o).wOwner = some u →
    (s.objs o).writer = some u ∨ ∃ all k rest, (s.th u).phase = .acq .w all ((k, o) :: rest)
  tokLe : ∀ o, (s.objs o).tokens ≤ (s.objs o).pendR.length
  tokGe : ∀ o, (s.objs o).wOwner = none → (s.objs o).pendR.length ≤ (s.objs o).tokens
  pendRPh : ∀ o p, p ∈ (s.objs o).pendR → ∃ all k rest, (s.th p).phase = .acq .r all ((k, o) :: rest)
  pendRNd : ∀ o, (s.objs o).pendR.Nodup

theorem inv2_init : Inv2 State.init := by
  constructor <;> simp [State.init, Wrap.empty]

def notLocking (th : Thread) : Prop := ∀ m all k o rest, th.phase ≠ .acq m all ((k, o) :: rest)

/-- a step of thread `t`, not inside a blocking call, that leaves the RWMutex part of every object alone -/
theorem inv2_frame {s s' : State} (h2 : Inv2 s) (t : Tid)
    (hobj : ∀ o, (s'.objs o).wOwner = (s.objs o).wOwner ∧ (s'.objs o).writer = (s.objs o).writer ∧
      (s'.objs o).tokens = (s.objs o).tokens ∧ (s'.objs o).pendR = (s.objs o).pendR)
    (hth : ∀ u, u ≠ t → s'.th u = s.th u) (hph : notLocking (s.th t)) : Inv2 s' := by
  constructor
  · intro o u h
    rw [(hobj o).1] at h; rw [(hobj o).2.1]
    rcases h2.ownW o u h with h' | ⟨all, k, rest, h'⟩
    · exact .inl h'
    · by_cases e : u = t
      · subst e; exact absurd h' (hph _ _ _ _ _)
      · right; rw [hth u e]; exact ⟨all, k, rest, h'⟩
  · intro o; rw [(hobj o).2.2.1, (hobj o).2.2.2]; exact h2.tokLe o
  · intro o h; rw [(hobj o).1] at h; rw [(hobj o).2.2.1, (hobj o).2.2.2]; exact h2.tokGe o h
  · intro o p h
    rw [(hobj o).2.2.2] at h
    obtain ⟨all, k, rest, h'⟩ := h2.pendRPh o p h
    by_cases e : p = t
    · subst e; exact absurd h' (hph _ _ _ _ _)
    · rw [hth p e]; exact ⟨all, k, rest, h'⟩
  · intro o; rw [(hobj o).2.2.2]; exact h2.pendRNd o

theorem bump_rw (m : Mode) (t : Tid) (w : Wrap) :
    (bump m t w).wOwner = w.wOwner ∧ (bump m t w).writer = w.writer ∧ (bump m t w).tokens = w.tokens ∧
    (bump m t w).pendR = w.pendR := by cases m <;> simp [bump]

theorem inv2_stepReg {c : Cfg} (hc : Proved c) {s s' : State} (hI : Inv s) (h2 : Inv2 s) (t : Tid)
    (h : stepReg c s t = some s') : Inv2 s' := by
  have hcnt : c.countAt ≠ .afterBlock := by rw [hc.2.1]; decide
  unfold stepReg at h
  split at h
  · next m all acc hph =>
    cases h
    apply inv2_frame h2 t
    · intro o; exact ⟨rfl, rfl, rfl, rfl⟩
    · intro u hu; exact setTh_th_other _ _ _ _ hu
    · intro m all k o rest e; rw [hph] at e; cases e
  · next m all gs acc hph =>
    cases h
    apply inv2_frame h2 t
    · intro o; exact ⟨rfl, rfl, rfl, rfl⟩
    · intro u hu; exact setTh_th_other _ _ _ _ hu
    · intro m all k o rest e; rw [hph] at e; cases e
  · next m all k ks gs acc hph =>
    cases h
    apply inv2_frame h2 t
    · intro o
      cases htk : s.table k with
      | some o1 =>
        simp only [regKey, htk, hcnt, if_false, setTh_objs, setObj_objs]
        split
        · next e => subst e; exact bump_rw m t _
        · exact ⟨rfl, rfl, rfl, rfl⟩
      | none =>
        simp only [regKey, htk, hcnt, if_false, setTh_objs, setObj_objs]
        split
        · next e =>
          subst e
          have := hI.fresh s.next (Nat.le_refl _)
          rw [this]
          simp only [upd_same]
          exact bump_rw m t _
        · next e => simp [upd_other _ _ _ _ e]
    · intro u hu
      rw [setTh_th_other _ _ _ _ hu]
      cases htk : s.table k <;> simp [regKey, htk, hcnt, setObj]
    · intro m all k o rest e; rw [hph] at e; cases e
  · cases h

end Nv.C02
