import Nv.Proofs.C03Basic
/-!
C03 — descending `iterate`: pruning lemma (tree walk = flat loop over the reversed in-order list minus
the pruned suffix) and the flat loop against the specification.
-/
namespace Nv.C03
variable {σ : Type}

/-- the descending loop body run over a plain (descending) list -/
def flatDesc (q : Q σ) : List Item → R σ → R σ
  | [], r => r
  | i :: is, r =>
    if r.ok then (if skipDesc q r i then flatDesc q is r else flatDesc q is (stepDesc q r i)) else r

theorem flatDesc_not_ok (q : Q σ) (l : List Item) (r : R σ) (h : r.ok = false) : flatDesc q l r = r := by
  cases l <;> simp [flatDesc, h]

theorem flatDesc_append (q : Q σ) (a b : List Item) (r : R σ) :
    flatDesc q (a ++ b) r = flatDesc q b (flatDesc q a r) := by
  induction a generalizing r with
  | nil => rfl
  | cons i is ih =>
    simp only [List.cons_append, flatDesc]
    split
    · split <;> exact ih _
    · rename_i h; simp at h; rw [flatDesc_not_ok q b r h]

theorem descLoop_leaf (visit : Node → R σ → R σ) (q : Q σ) (is : List Item) (r : R σ) (hr : r.ok = true) :
    descLoop visit q is [] r = flatDesc q is r := by
  induction is generalizing r with
  | nil => simp [descLoop, flatDesc]
  | cons i is ih =>
    simp only [descLoop, flatDesc, hr, if_true]
    split
    · exact ih _ hr
    · split
      · rename_i h; exact ih _ h
      · rename_i h; simp at h; rw [flatDesc_not_ok q is _ h]

/-- the items at or before the start pivot -/
def leStart (q : Q σ) (x : Item) : Bool :=
  match q.start with
  | some s => decide (x.key ≤ s)
  | none => true

/-- reversed in-order list from reversed item and child lists -/
def interleaveD : List Item → List Node → List Item
  | is, [] => is
  | [], c :: _ => c.inorder.reverse
  | i :: is, c :: cs => c.inorder.reverse ++ i :: interleaveD is cs

@[simp] theorem interleaveD_nil_right (is : List Item) : interleaveD is [] = is := by cases is <;> simp [interleaveD]
@[simp] theorem interleaveD_nil_cons (c : Node) (cs : List Node) : interleaveD [] (c :: cs) = c.inorder.reverse := by
  simp [interleaveD]
@[simp] theorem interleaveD_cons_cons (i : Item) (is : List Item) (c : Node) (cs : List Node) :
    interleaveD (i :: is) (c :: cs) = c.inorder.reverse ++ i :: interleaveD is cs := by simp [interleaveD]

theorem interleaveD_snoc : ∀ (is : List Item) (cs : List Node) (i : Item) (c : Node), cs.length = is.length + 1 →
    interleaveD (is ++ [i]) (cs ++ [c]) = interleaveD is cs ++ i :: c.inorder.reverse
  | _, [], _, _, h => by simp at h
  | [], [d], i, c, _ => by simp
  | [], _ :: _ :: _, _, _, h => by simp at h
  | j :: js, d :: ds, i, c, h => by
    simp [interleaveD_snoc js ds i c (by simpa using h)]

theorem interleave_reverse : ∀ (is : List Item) (cs : List Node), cs.length = is.length + 1 →
    (interleave is cs).reverse = interleaveD is.reverse cs.reverse
  | _, [], h => by simp at h
  | [], [c], _ => by simp
  | [], _ :: _ :: _, h => by simp at h
  | i :: is, c :: cs, h => by
    have hl : cs.length = is.length + 1 := by simpa using h
    simp only [interleave_cons_cons, List.reverse_append, List.reverse_cons, List.append_assoc]
    rw [interleave_reverse is cs hl, interleaveD_snoc _ _ _ _ (by simp [hl])]
    simp

/-- the loop over (reversed) items and children equals the flat loop, given that each child's walk does -/
theorem descLoop_flat (visit : Node → R σ → R σ) (q : Q σ) :
    ∀ (is : List Item) (cs : List Node) (r : R σ), cs.length = is.length + 1 → (∀ i ∈ is, leStart q i = true) →
      (∀ c ∈ cs, ∀ r, r.ok = true → visit c r = flatDesc q (c.inorder.filter (leStart q)).reverse r) →
      (interleaveD is cs).Pairwise (fun a b => b.key < a.key) → r.ok = true →
      descLoop visit q is cs r = flatDesc q ((interleaveD is cs).filter (leStart q)) r
  | _, [], _, hl, _, _, _, _ => by simp at hl
  | [], [c], r, _, _, hv, _, hr => by simp [descLoop, hv c (by simp) r hr]
  | [], _ :: _ :: _, _, hl, _, _, _, _ => by simp at hl
  | i :: is, c :: cs, r, hl, hg, hv, hp, hr => by
    have hgi : leStart q i = true := hg i (by simp)
    simp only [interleaveD_cons_cons] at hp
    have hp' := List.pairwise_append.1 hp
    have ih := fun r hr => descLoop_flat visit q is cs r (by simpa using hl) (fun j hj => hg j (by simp [hj]))
      (fun d hd => hv d (by simp [hd])) (List.pairwise_cons.1 hp'.2.1).2 hr
    have key : (∀ r' : R σ, skipDesc q r' i = false) ∨ c.inorder.filter (leStart q) = [] := by
      cases hq : q.start with
      | none => left; intro r'; simp [skipDesc, hq]
      | some s =>
        by_cases hlt : i.key < s
        · left; intro r'; simp [skipDesc, hq, hlt]
        · right
          apply List.filter_eq_nil_iff.2
          intro x hx
          have := hp'.2.2 x (by simpa using hx) i (by simp)
          simp [leStart, hq]; omega
    simp only [descLoop, interleaveD_cons_cons, List.filter_append, List.filter_cons, hgi, if_true,
      flatDesc_append, List.filter_reverse]
    rcases key with key | key
    · simp only [key, Bool.false_eq_true, if_false, flatDesc]
      rw [hv c (by simp) r hr]
      split
      · rename_i h1
        split
        · rename_i h2; exact ih _ h2
        · rename_i h2; simp at h2; rw [flatDesc_not_ok _ _ _ h2]
      · rfl
    · have hvc : visit c r = r := by rw [hv c (by simp) r hr, key]; simp [flatDesc]
      simp only [key, List.reverse_nil, flatDesc, hr, if_true, hvc]
      split
      · exact ih _ hr
      · split
        · rename_i h2; exact ih _ h2
        · rename_i h2; simp at h2; rw [flatDesc_not_ok _ _ _ h2]

theorem filter_le_eq_nil_of_gt (q : Q σ) (s : Int) (hq : q.start = some s) (l : List Item) (h : ∀ x ∈ l, s < x.key) :
    l.filter (leStart q) = [] := by
  apply List.filter_eq_nil_iff.2
  intro x hx
  have := h x hx
  simp [leStart, hq]; omega

/-- number of items the descending loop runs over -/
def descCnt (is : List Item) (s : Int) : Nat :=
  if (findIdx is s).2 then (findIdx is s).1 + 1 else (findIdx is s).1

theorem descCnt_le (is : List Item) (s : Int) : descCnt is s ≤ is.length := by
  unfold descCnt
  split
  · rename_i h
    obtain ⟨x, hx, _⟩ := (findIdx_found is s).1 h
    have := (List.getElem?_eq_some_iff.1 hx).1
    omega
  · exact findIdx_le is s

theorem descCnt_take_le (is : List Item) (s : Int) : ∀ x ∈ is.take (descCnt is s), x.key ≤ s := by
  unfold descCnt
  split
  · rename_i h
    obtain ⟨y, hy, hk⟩ := (findIdx_found is s).1 h
    have hlt := (List.getElem?_eq_some_iff.1 hy).1
    intro x hx
    rw [List.take_add_one, hy] at hx
    simp only [Option.toList_some, List.mem_append, List.mem_singleton] at hx
    rcases hx with hx | rfl
    · have := findIdx_take_lt is s x hx; omega
    · omega
  · intro x hx; have := findIdx_take_lt is s x hx; omega

theorem descCnt_drop_gt (is : List Item) (s : Int) (hs : Sorted is) : ∀ x ∈ is.drop (descCnt is s), s < x.key := by
  unfold descCnt
  split
  · rename_i h
    obtain ⟨y, hy, hk⟩ := (findIdx_found is s).1 h
    have hlt := (List.getElem?_eq_some_iff.1 hy).1
    have hyy := (List.getElem?_eq_some_iff.1 hy).2
    intro x hx
    have hd : is.drop (findIdx is s).1 = y :: is.drop ((findIdx is s).1 + 1) := by
      rw [← hyy]; exact List.drop_eq_getElem_cons hlt
    have hsd : Sorted (is.drop (findIdx is s).1) := by
      rw [← List.take_append_drop (findIdx is s).1 is] at hs; exact hs.append_right
    rw [hd] at hsd
    have := hsd.head_lt hx; omega
  · rename_i h
    exact findIdx_not_found_gt is s hs (by simpa using h)

theorem interleave_take (n : Nat) (is : List Item) (cs : List Node) (h : cs.length = is.length + 1) (hn : n ≤ is.length) :
    interleave is cs = interleave (is.take n) (cs.take (n + 1)) ++
      (match is.drop n with
       | [] => []
       | i :: rest => i :: interleave rest (cs.drop (n + 1))) := by
  have h1 := interleave_at n is cs h hn
  have h2 := interleave_at n (is.take n) (cs.take (n + 1)) (by rw [List.length_take, List.length_take]; omega)
    (by rw [List.length_take]; omega)
  have e1 : (is.take n).take n = is.take n := by rw [List.take_take, Nat.min_self]
  have e2 : (cs.take (n + 1)).take n = cs.take n := by simp [List.take_take]
  have e3 : (cs.take (n + 1)).getD n default = cs.getD n default := by
    simp [List.getD]
  have e4 : (is.take n).drop n = [] := by simp
  rw [e1, e2, e3, e4] at h2
  simp only [List.append_nil] at h2
  rw [h1, h2]
  cases is.drop n <;> rfl

/-- everything in a sorted in-order tail beyond an item above `s` is above `s` -/
theorem tail_gt (s : Int) (is : List Item) (cs : List Node) (n : Nat) (pre : List Item)
    (hs : Sorted (pre ++ (match is.drop n with
       | [] => []
       | i :: rest => i :: interleave rest (cs.drop (n + 1)))))
    (hgt : ∀ x ∈ is.drop n, s < x.key) :
    ∀ x ∈ (match is.drop n with
       | [] => ([] : List Item)
       | i :: rest => i :: interleave rest (cs.drop (n + 1))), s < x.key := by
  cases hd : is.drop n with
  | nil => simp
  | cons i rest =>
    rw [hd] at hs hgt
    simp only at hs ⊢
    intro x hx
    have hi := hgt i (by simp)
    rcases List.mem_cons.1 hx with rfl | hx
    · exact hi
    · have := hs.append_right.head_lt hx; omega

/-- pruning lemma, descending -/
theorem iterDesc_flat (q : Q σ) : ∀ (h : Nat) (n : Node) (r : R σ), Shape h n → Sorted n.inorder → r.ok = true →
    iterDesc q h n r = flatDesc q (n.inorder.filter (leStart q)).reverse r
  | 0, .mk is cs, r, hsh, hso, hr => by
    simp only [Shape] at hsh; subst hsh
    simp only [inorder_mk, interleave_nil_right] at hso ⊢
    cases hq : q.start with
    | none =>
      have : is.filter (leStart q) = is := List.filter_eq_self.2 (fun x _ => by simp [leStart, hq])
      simp [iterDesc, hq, this, descLoop_leaf _ q _ r hr]
    | some s =>
      simp only [iterDesc, hq]
      have : is.filter (leStart q) = is.take (descCnt is s) := by
        conv => lhs; rw [← List.take_append_drop (descCnt is s) is]
        rw [List.filter_append, filter_le_eq_nil_of_gt q s hq _ (descCnt_drop_gt is s hso), List.append_nil]
        apply List.filter_eq_self.2
        intro x hx
        have := descCnt_take_le is s x hx
        simp [leStart, hq]; omega
      rw [this]
      exact descLoop_leaf _ q _ r hr
  | h + 1, .mk is cs, r, hsh, hso, hr => by
    simp only [Shape] at hsh
    simp only [inorder_mk] at hso ⊢
    have hchild : ∀ c ∈ cs, ∀ r : R σ, r.ok = true →
        iterDesc q h c r = flatDesc q (c.inorder.filter (leStart q)).reverse r :=
      fun c hc r hr => iterDesc_flat q h c r (hsh.2 c hc) (sorted_child is cs hso c hc hsh.1) hr
    cases hq : q.start with
    | none =>
      simp only [iterDesc, hq]
      have e1 : is.take is.length = is := List.take_length
      have e2 : cs.take (is.length + 1) = cs := by rw [← hsh.1]; exact List.take_length
      rw [e1, e2, ← List.filter_reverse, interleave_reverse is cs hsh.1]
      refine descLoop_flat _ q _ _ r (by simp; omega) (fun i _ => by simp [leStart, hq])
        (fun c hc => hchild c (by simpa using hc)) ?_ hr
      rw [← interleave_reverse is cs hsh.1, List.pairwise_reverse]
      exact hso
    | some s =>
      simp only [iterDesc, hq]
      have hle := descCnt_le is s
      have hitems := sorted_items is cs hso
      change descLoop _ q (is.take (descCnt is s)).reverse (cs.take (descCnt is s + 1)).reverse r = _
      rw [interleave_take (descCnt is s) is cs hsh.1 hle] at hso ⊢
      rw [List.filter_append, filter_le_eq_nil_of_gt q s hq _
        (tail_gt s is cs _ _ hso (descCnt_drop_gt is s hitems)), List.append_nil]
      have hl : (cs.take (descCnt is s + 1)).length = (is.take (descCnt is s)).length + 1 := by simp; omega
      rw [← List.filter_reverse, interleave_reverse _ _ hl]
      refine descLoop_flat _ q _ _ r (by simp; omega) ?_
        (fun c hc => hchild c (List.mem_of_mem_take (by simpa using hc))) ?_ hr
      · intro i hi
        have := descCnt_take_le is s i (by simpa using hi)
        simp [leStart, hq]; omega
      · rw [← interleave_reverse _ _ hl, List.pairwise_reverse]
        exact hso.append_left

/-! ### the flat loop against the specification -/

theorem stepDesc_run (q : Q σ) (x : Item) (xs : List Item) (r : R σ)
    (ih : ∀ r' : R σ, r'.ok = true → (flatDesc q xs r').st = runCb q.cb (xs.takeWhile (beforeStop .desc q.stop)) r'.st) :
    (flatDesc q xs (stepDesc q r x)).st = runCb q.cb ((x :: xs).takeWhile (beforeStop .desc q.stop)) r.st := by
  simp only [stepDesc]
  by_cases hp : pastStopDesc q x = true
  · have hb : beforeStop .desc q.stop x = false := by
      unfold pastStopDesc at hp; unfold beforeStop
      cases hst : q.stop <;> simp_all
    simp only [hp, if_true, List.takeWhile_cons, hb, Bool.false_eq_true, if_false, runCb]
    rw [flatDesc_not_ok _ _ _ rfl]
  · have hb : beforeStop .desc q.stop x = true := by
      unfold pastStopDesc at hp; unfold beforeStop
      cases hst : q.stop <;> simp_all
    simp only [(by simpa using hp : pastStopDesc q x = false), Bool.false_eq_true, if_false, List.takeWhile_cons, hb, if_true, runCb]
    cases hcb : (q.cb r.st x).2 with
    | true => simp only [if_true]; rw [ih _ rfl]
    | false => simp only [Bool.false_eq_true, if_false]; rw [flatDesc_not_ok _ _ _ rfl]

/-- when no item can be skipped the callback consumes the items before `stop` -/
theorem flatDesc_run (q : Q σ) (l : List Item) (hns : ∀ x ∈ l, ∀ r : R σ, skipDesc q r x = false) (r : R σ)
    (hr : r.ok = true) :
    (flatDesc q l r).st = runCb q.cb (l.takeWhile (beforeStop .desc q.stop)) r.st := by
  induction l generalizing r with
  | nil => simp [flatDesc, runCb]
  | cons x xs ih =>
    simp only [flatDesc, hr, if_true, hns x (by simp) r, Bool.false_eq_true, if_false]
    exact stepDesc_run q x xs r (fun r' hr' => ih (fun y hy => hns y (by simp [hy])) r' hr')

/-- descending flat loop from a pivot: the item equal to the pivot — necessarily the first — is skipped
    unless the scan is inclusive and `hit` is not yet set -/
theorem flatDesc_pivot (q : Q σ) (s : Int) (hq : q.start = some s) (l : List Item)
    (hs : l.Pairwise (fun a b => b.key < a.key)) (hle : ∀ x ∈ l, x.key ≤ s) (hit : Bool) (st : σ) :
    (flatDesc q l ⟨hit, true, st⟩).st =
      runCb q.cb ((l.filter (fun x => decide (x.key < s) || ((q.incl && !hit) && x.key == s))).takeWhile
        (beforeStop .desc q.stop)) st := by
  cases l with
  | nil => simp [flatDesc, runCb]
  | cons x xs =>
    have hxs : ∀ y ∈ xs, y.key < s := by
      intro y hy
      have := (List.pairwise_cons.1 hs).1 y hy
      have := hle x (by simp); omega
    have hns : ∀ y ∈ xs, ∀ r : R σ, skipDesc q r y = false := by
      intro y hy r; simp [skipDesc, hq, hxs y hy]
    have htail : xs.filter (fun y => decide (y.key < s) || ((q.incl && !hit) && y.key == s)) = xs := by
      apply List.filter_eq_self.2
      intro y hy; simp [hxs y hy]
    by_cases hx : x.key < s
    · have hfl : (x :: xs).filter (fun y => decide (y.key < s) || ((q.incl && !hit) && y.key == s)) = x :: xs := by
        simp [hx, htail]
      rw [hfl]
      exact flatDesc_run q (x :: xs) (by
        intro y hy r
        rcases List.mem_cons.1 hy with rfl | hy
        · simp [skipDesc, hq, hx]
        · exact hns y hy r) _ rfl
    · have hxe : x.key = s := by have := hle x (by simp); omega
      by_cases he : (q.incl && !hit) = true
      · have hfl : (x :: xs).filter (fun y => decide (y.key < s) || ((q.incl && !hit) && y.key == s)) = x :: xs := by
          have hp : (decide (x.key < s) || ((q.incl && !hit) && x.key == s)) = true := by simp [hxe, he]
          rw [List.filter_cons, if_pos hp, htail]
        have hsk : skipDesc q ⟨hit, true, st⟩ x = false := by
          simp only [Bool.and_eq_true, Bool.not_eq_true'] at he
          simp [skipDesc, hq, hxe, he.1, he.2]
        rw [hfl]
        simp only [flatDesc, if_true, hsk, Bool.false_eq_true, if_false]
        exact stepDesc_run q x xs _ (fun r' hr' => flatDesc_run q xs hns r' hr')
      · have he' : (q.incl && !hit) = false := by simpa using he
        have hfl : (x :: xs).filter (fun y => decide (y.key < s) || ((q.incl && !hit) && y.key == s)) = xs := by
          have hp : ¬ (decide (x.key < s) || ((q.incl && !hit) && x.key == s)) = true := by simp [hxe, he']
          rw [List.filter_cons, if_neg hp, htail]
        have hsk : skipDesc q ⟨hit, true, st⟩ x = true := by
          cases hi : q.incl <;> cases hh : hit <;> simp_all [skipDesc]
        rw [hfl]
        simp only [flatDesc, if_true, hsk]
        exact flatDesc_run q xs hns _ rfl

end Nv.C03
