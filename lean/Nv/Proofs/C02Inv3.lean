import Nv.Proofs.C02Inv2
/-!
C02 — invariant preservation for one iteration of an unlock loop.
-/
namespace Nv.C02

theorem eq_of_nodup_map {α β} {f : α → β} : ∀ {l : List α}, (l.map f).Nodup → ∀ {a b}, a ∈ l → b ∈ l → f a = f b → a = b
  | [], _, _, _, ha, _, _ => by cases ha
  | x :: l, h, a, b, ha, hb, e => by
    simp only [List.map_cons, List.nodup_cons, List.mem_map, not_exists, not_and] at h
    rcases List.mem_cons.1 ha with rfl | ha' <;> rcases List.mem_cons.1 hb with rfl | hb'
    · rfl
    · exact absurd e.symm (h.1 b hb')
    · exact absurd e (h.1 a ha')
    · exact eq_of_nodup_map h.2 ha' hb' e

theorem unbump_fields (m : Mode) (t : Tid) (w : Wrap) :
    (unbump m t w).writer = w.writer ∧ (unbump m t w).wOwner = w.wOwner ∧ (unbump m t w).readers = w.readers ∧
    (unbump m t w).tokens = w.tokens := by cases m <;> simp [unbump]

theorem leave_regs (m : Mode) (t : Tid) (w : Wrap) :
    (leave m t w).regW = w.regW ∧ (leave m t w).regR = w.regR ∧ (leave m t w).rc = w.rc ∧ (leave m t w).wc = w.wc := by
  cases m <;> simp [leave]

theorem length_erase_int {l : List Tid} {t : Tid} (h : t ∈ l) : ((l.erase t).length : Int) = (l.length : Int) - 1 := by
  have h1 := List.length_erase_of_mem h
  have h2 : 0 < l.length := List.length_pos_of_mem h
  omega

/-- one iteration of an unlock loop on a key the thread holds -/
theorem inv_delRef {c : Cfg} (hc : Proved c) {s : State} (hI : Inv s) (t : Tid) (m : Mode) (k : Key) (ks : List Key)
    (gs : List (List Key)) (hph : (s.th t).phase = .rel m ((k :: ks) :: gs)) (o : ObjId)
    (hheld : (k, o, m) ∈ (s.th t).held)
    (s' : State)
    (q1 : s'.objs = upd s.objs o (unbump m t (leave m t (s.objs o)))) (q2 : s'.next = s.next)
    (q3 : s'.table = if freeCond c (unbump m t (leave m t (s.objs o))) then upd s.table k none else s.table)
    (q4 : s'.th = upd s.th t ⟨.rel m (ks :: gs), (s.th t).held.filter (fun e => e.1 ≠ k)⟩) (q5 : s'.fault = s.fault) :
    Inv s' := by
  have hrefsT : refs (s.th t) = (s.th t).held := by simp [refs, pend, hph]
  have hrefsT' : refs (⟨.rel m (ks :: gs), (s.th t).held.filter (fun e => e.1 ≠ k)⟩ : Thread) =
      (s.th t).held.filter (fun e => e.1 ≠ k) := by simp [refs, pend]
  have htk : s.table k = some o := hI.refTab t k o m (by rw [hrefsT]; exact hheld)
  have ho : o < s.next := hI.tRange k o htk
  have hknd : ((s.th t).held.map (·.1)).Nodup := by
    have := hI.keysNd t
    simpa [allKeys, hrefsT, future, hph] using this
  -- entries of `t` with key `k` / object `o` are the one being released
  have F1 : ∀ o' m', (k, o', m') ∈ (s.th t).held → o' = o ∧ m' = m := by
    intro o' m' h
    have := eq_of_nodup_map hknd h hheld rfl
    simp at this; exact this
  have F3 : ∀ k' m', (k', o, m') ∈ (s.th t).held → k' = k := by
    intro k' m' h
    exact hI.tInj k' k o (hI.refTab t k' o m' (by rw [hrefsT]; exact h)) htk
  have F4 : ∀ k' o' m', (k', o', m') ∈ (s.th t).held.filter (fun e => e.1 ≠ k) ↔ (k', o', m') ∈ (s.th t).held ∧ k' ≠ k := by
    intro k' o' m'; simp [List.mem_filter]
  have F5 : ∀ k' m', (k', o, m') ∉ (s.th t).held.filter (fun e => e.1 ≠ k) := by
    intro k' m' h
    rw [F4] at h; exact h.2 (F3 k' m' h.1)
  have F6 : ∀ k' o' m', o' ≠ o → ((k', o', m') ∈ (s.th t).held.filter (fun e => e.1 ≠ k) ↔ (k', o', m') ∈ (s.th t).held) := by
    intro k' o' m' hne
    rw [F4]; constructor
    · exact fun h => h.1
    · intro h; refine ⟨h, fun e => ?_⟩
      subst e; exact hne (F1 o' m' h).1
  have htreg : m = .w → t ∈ (s.objs o).regW := fun e => (hI.regW t o).2 ⟨k, by rw [hrefsT]; subst e; exact hheld⟩
  have htregR : m = .r → t ∈ (s.objs o).regR := fun e => (hI.regR t o).2 ⟨k, by rw [hrefsT]; subst e; exact hheld⟩
  have hnotW : m = .r → t ∉ (s.objs o).regW := by
    intro e hm
    obtain ⟨k', hk'⟩ := (hI.regW t o).1 hm
    rw [hrefsT] at hk'
    have := F3 k' _ hk'; subst this
    have := (F1 o .w hk').2; subst e; cases this
  have hnotR : m = .w → t ∉ (s.objs o).regR := by
    intro e hm
    obtain ⟨k', hk'⟩ := (hI.regR t o).1 hm
    rw [hrefsT] at hk'
    have := F3 k' _ hk'; subst this
    have := (F1 o .r hk').2; subst e; cases this
  have hholdW : m = .w → (s.objs o).writer = some t := fun e => (hI.holdW t o).2 ⟨k, by subst e; exact hheld⟩
  have hholdR : m = .r → t ∈ (s.objs o).readers := fun e => (hI.holdR t o).2 ⟨k, by subst e; exact hheld⟩
  -- the new object
  have W2 : (unbump m t (leave m t (s.objs o))).regW = (if m = .w then (s.objs o).regW.erase t else (s.objs o).regW) := by
    cases m <;> simp [unbump, leave]
  have R2 : (unbump m t (leave m t (s.objs o))).regR = (if m = .r then (s.objs o).regR.erase t else (s.objs o).regR) := by
    cases m <;> simp [unbump, leave]
  have memW2 : ∀ u, u ∈ (unbump m t (leave m t (s.objs o))).regW ↔ u ≠ t ∧ u ∈ (s.objs o).regW := by
    intro u; rw [W2]; split
    · exact (hI.ndW o).mem_erase_iff
    · next e =>
      have e : m = .r := by
        cases m with
        | r => rfl
        | w => exact absurd rfl e
      constructor
      · intro h; exact ⟨fun e' => hnotW e (e' ▸ h), h⟩
      · exact fun h => h.2
  have memR2 : ∀ u, u ∈ (unbump m t (leave m t (s.objs o))).regR ↔ u ≠ t ∧ u ∈ (s.objs o).regR := by
    intro u; rw [R2]; split
    · exact (hI.ndR o).mem_erase_iff
    · next e =>
      have e : m = .w := by
        cases m with
        | w => rfl
        | r => exact absurd rfl e
      constructor
      · intro h; exact ⟨fun e' => hnotR e (e' ▸ h), h⟩
      · exact fun h => h.2
  have cW2 : (unbump m t (leave m t (s.objs o))).wc = ((unbump m t (leave m t (s.objs o))).regW.length : Int) := by
    have := hI.cntW o
    cases m
    · simpa [unbump, leave] using this
    · simp only [unbump, leave]; rw [this, length_erase_int (htreg rfl)]
  have cR2 : (unbump m t (leave m t (s.objs o))).rc = ((unbump m t (leave m t (s.objs o))).regR.length : Int) := by
    have := hI.cntR o
    cases m
    · simp only [unbump, leave]; rw [this, length_erase_int (htregR rfl)]
    · simpa [unbump, leave] using this
  -- if the entry is freed nobody else is registered on it
  have hfree : freeCond c (unbump m t (leave m t (s.objs o))) = true →
      ∀ u, u ∉ (unbump m t (leave m t (s.objs o))).regW ∧ u ∉ (unbump m t (leave m t (s.objs o))).regR := by
    intro hf u
    simp only [freeCond, hc.1, Bool.and_eq_true, beq_iff_eq] at hf
    rw [cW2, cR2] at hf
    have h1 : (unbump m t (leave m t (s.objs o))).regR = [] := List.eq_nil_of_length_eq_zero (by omega)
    have h2 : (unbump m t (leave m t (s.objs o))).regW = [] := List.eq_nil_of_length_eq_zero (by omega)
    rw [h1, h2]; simp
  have htab' : ∀ k', k' ≠ k → s'.table k' = s.table k' := by
    intro k' hne; rw [q3]; split
    · exact upd_other _ _ _ _ hne
    · rfl
  have htabsub : ∀ k' o', s'.table k' = some o' → s.table k' = some o' := by
    intro k' o' h; rw [q3] at h; split at h
    · rw [upd_apply] at h; split at h
      · cases h
      · exact h
    · exact h
  have hthT : s'.th t = ⟨.rel m (ks :: gs), (s.th t).held.filter (fun e => e.1 ≠ k)⟩ := by rw [q4]; simp
  have hthO : ∀ u, u ≠ t → s'.th u = s.th u := fun u hu => by rw [q4]; exact upd_other _ _ _ _ hu
  have hobjO : s'.objs o = unbump m t (leave m t (s.objs o)) := by rw [q1]; simp
  have hobjN : ∀ o', o' ≠ o → s'.objs o' = s.objs o' := fun o' h => by rw [q1]; exact upd_other _ _ _ _ h
  constructor
  · intro o' h
    rw [q2] at h
    have hne : o' ≠ o := fun e => by subst e; exact absurd h (Nat.not_le.2 ho)
    rw [hobjN o' hne]; exact hI.fresh o' h
  · intro k' o' h; rw [q2]; exact hI.tRange k' o' (htabsub k' o' h)
  · intro k1 k2 o' h1 h2; exact hI.tInj k1 k2 o' (htabsub _ _ h1) (htabsub _ _ h2)
  · intro u k' o' m' h
    by_cases hu : u = t
    · subst hu
      rw [hthT, hrefsT', F4] at h
      rw [htab' k' h.2]; exact hI.refTab u k' o' m' (by rw [hrefsT]; exact h.1)
    · rw [hthO u hu] at h
      have hold := hI.refTab u k' o' m' h
      by_cases hk : k' = k
      · subst hk
        rw [htk] at hold; cases hold
        rw [q3]; split
        · next hf =>
          exfalso
          have := hfree hf u
          cases m'
          · exact this.2 ((memR2 u).2 ⟨hu, (hI.regR u o).2 ⟨k', h⟩⟩)
          · exact this.1 ((memW2 u).2 ⟨hu, (hI.regW u o).2 ⟨k', h⟩⟩)
        · exact htk
      · rw [htab' k' hk]; exact hold
  · intro u o'
    by_cases e1 : o' = o
    · subst e1
      rw [hobjO, memW2, hI.regW u o']
      by_cases hu : u = t
      · subst hu; rw [hthT, hrefsT']
        constructor
        · exact fun h => absurd rfl h.1
        · rintro ⟨k', h⟩; exact absurd h (F5 k' _)
      · rw [hthO u hu]; simp [hu]
    · rw [hobjN o' e1, hI.regW u o']
      by_cases hu : u = t
      · subst hu; rw [hthT, hrefsT', hrefsT]
        simp only [F6 _ o' _ e1]
      · rw [hthO u hu]
  · intro u o'
    by_cases e1 : o' = o
    · subst e1
      rw [hobjO, memR2, hI.regR u o']
      by_cases hu : u = t
      · subst hu; rw [hthT, hrefsT']
        constructor
        · exact fun h => absurd rfl h.1
        · rintro ⟨k', h⟩; exact absurd h (F5 k' _)
      · rw [hthO u hu]; simp [hu]
    · rw [hobjN o' e1, hI.regR u o']
      by_cases hu : u = t
      · subst hu; rw [hthT, hrefsT', hrefsT]
        simp only [F6 _ o' _ e1]
      · rw [hthO u hu]
  · intro o'
    by_cases e1 : o' = o
    · subst e1; rw [hobjO, W2]; split
      · exact (hI.ndW o').erase t
      · exact hI.ndW o'
    · rw [hobjN o' e1]; exact hI.ndW o'
  · intro o'
    by_cases e1 : o' = o
    · subst e1; rw [hobjO, R2]; split
      · exact (hI.ndR o').erase t
      · exact hI.ndR o'
    · rw [hobjN o' e1]; exact hI.ndR o'
  · intro o'
    by_cases e1 : o' = o
    · subst e1; rw [hobjO]; exact cW2
    · rw [hobjN o' e1]; exact hI.cntW o'
  · intro o'
    by_cases e1 : o' = o
    · subst e1; rw [hobjO]; exact cR2
    · rw [hobjN o' e1]; exact hI.cntR o'
  · intro u o'
    by_cases e1 : o' = o
    · subst e1
      rw [hobjO, (unbump_fields m t _).1]
      by_cases hu : u = t
      · subst hu; rw [hthT]
        constructor
        · intro h
          exfalso
          cases m
          · simp only [leave] at h
            obtain ⟨k', hk'⟩ := (hI.holdW u o').1 h
            have := F3 k' _ hk'; subst this
            have := (F1 o' .w hk').2; cases this
          · simp [leave] at h
        · rintro ⟨k', h⟩; exact absurd h (F5 k' _)
      · rw [hthO u hu, ← hI.holdW u o']
        cases m
        · simp [leave]
        · simp only [leave]
          constructor
          · intro h; cases h
          · intro h; rw [hholdW rfl] at h; cases h; exact absurd rfl hu
    · rw [hobjN o' e1, hI.holdW u o']
      by_cases hu : u = t
      · subst hu; rw [hthT]; simp only [F6 _ o' _ e1]
      · rw [hthO u hu]
  · intro u o'
    by_cases e1 : o' = o
    · subst e1
      rw [hobjO, (unbump_fields m t _).2.2.1]
      by_cases hu : u = t
      · subst hu; rw [hthT]
        constructor
        · intro h
          exfalso
          cases m
          · simp only [leave] at h
            exact absurd rfl ((hI.rdNd o').mem_erase_iff.1 h).1
          · simp only [leave] at h
            obtain ⟨k', hk'⟩ := (hI.holdR u o').1 h
            have := F3 k' _ hk'; subst this
            have := (F1 o' .r hk').2; cases this
        · rintro ⟨k', h⟩; exact absurd h (F5 k' _)
      · rw [hthO u hu, ← hI.holdR u o']
        cases m
        · simp only [leave]
          rw [(hI.rdNd o').mem_erase_iff]; simp [hu]
        · simp [leave]
    · rw [hobjN o' e1, hI.holdR u o']
      by_cases hu : u = t
      · subst hu; rw [hthT]; simp only [F6 _ o' _ e1]
      · rw [hthO u hu]
  · intro o'
    by_cases e1 : o' = o
    · subst e1; rw [hobjO, (unbump_fields m t _).2.2.1]
      cases m
      · simp only [leave]; exact (hI.rdNd o').erase t
      · simp only [leave]; exact hI.rdNd o'
    · rw [hobjN o' e1]; exact hI.rdNd o'
  · intro u
    by_cases hu : u = t
    · subst hu; rw [hthT]
      simp only [allKeys, hrefsT', future, List.append_nil]
      exact List.Nodup.sublist (List.filter_sublist.map _) hknd
    · rw [hthO u hu]; exact hI.keysNd u
  · intro u m' gs'
    by_cases hu : u = t
    · subst hu; rw [hthT]
      intro h; cases h
      obtain ⟨hnd, hall⟩ := hI.relOk u m _ hph
      simp only [List.flatten_cons, List.cons_append, List.nodup_cons] at hnd
      refine ⟨by simpa using hnd.2, ?_⟩
      intro k' hk'
      have hk'' : k' ∈ ((k :: ks) :: gs).flatten := by simp; right; simpa using hk'
      obtain ⟨o', ho'⟩ := hall k' hk''
      refine ⟨o', (F4 _ _ _).2 ⟨ho', ?_⟩⟩
      intro e; subst e; exact hnd.1 (by simpa using hk')
    · rw [hthO u hu]; exact hI.relOk u m' gs'
  · intro u m' all todo
    by_cases hu : u = t
    · subst hu; rw [hthT]; intro h; cases h
    · rw [hthO u hu]; exact hI.acqAll u m' all todo
  · intro u m' all gs' acc
    by_cases hu : u = t
    · subst hu; rw [hthT]; intro h; cases h
    · rw [hthO u hu]; exact hI.regAll u m' all gs' acc
  · intro o' u
    by_cases e1 : o' = o
    · subst e1
      rw [hobjO]
      obtain ⟨a, b, c', d⟩ := unbump_fields m t (leave m t (s.objs o'))
      rw [a, b, c', d]
      cases m
      · simp only [leave]
        intro h
        have := (hI.wOk o' u h).2.1
        have h2 := hholdR rfl
        rw [this] at h2; cases h2
      · simp [leave]
    · rw [hobjN o' e1]; exact hI.wOk o' u
  · rw [q5]; exact hI.noFault
  · intro k' o' h
    by_cases e1 : o' = o
    · subst e1
      have hk' : k' = k := hI.tInj k' k o' (htabsub _ _ h) htk
      subst hk'
      rw [hobjO]
      rw [q3] at h
      split at h
      · simp at h
      · next hf =>
        simp only [freeCond, hc.1, Bool.and_eq_true, beq_iff_eq, not_and] at hf
        rw [cW2, cR2] at hf
        by_cases hr : (unbump m t (leave m t (s.objs o'))).regR = []
        · left
          intro hw
          rw [hr, hw] at hf; simp at hf
        · exact .inr hr
    · rw [hobjN o' e1]; exact hI.tabLive k' o' (htabsub _ _ h)


theorem inv_stepRel {c : Cfg} (hc : Proved c) {s s' : State} (hI : Inv s) (t : Tid)
    (h : stepRel c s t = some s') : Inv s' := by
  unfold stepRel at h
  split at h
  · next m hph =>
    cases h
    apply inv_setTh hI t
    · rfl
    · intro e; simp [refs, pend, hph]
    · have := hI.keysNd t
      simpa [allKeys, refs, pend, future, hph] using this
    · intro m gs h; cases h
    · intro m all todo h; cases h
    · intro m all gs acc h; cases h
  · next m gs hph =>
    cases h
    apply inv_setTh hI t
    · rfl
    · intro e; simp [refs, pend, hph]
    · have := hI.keysNd t
      simpa [allKeys, refs, pend, future, hph] using this
    · intro m' gs' h
      cases h
      simpa using hI.relOk t m ([] :: gs) hph
    · intro m all todo h; cases h
    · intro m all gs acc h; cases h
  · next m k ks gs hph =>
    cases h
    obtain ⟨_, hall⟩ := hI.relOk t m _ hph
    obtain ⟨o, hheld⟩ := hall k (by simp)
    have htk : s.table k = some o := hI.refTab t k o m (by simp [refs, hheld])
    have hhold : isHolder m t (s.objs o) := by
      cases m
      · exact (hI.holdR t o).2 ⟨k, hheld⟩
      · exact (hI.holdW t o).2 ⟨k, hheld⟩
    apply inv_delRef hc hI t m k ks gs hph o hheld
    · simp only [relKey, htk, hhold, if_true, setTh]
      split <;> rfl
    · simp only [relKey, htk, hhold, if_true, setTh]
      split <;> rfl
    · simp only [relKey, htk, hhold, if_true, setTh]
      split
      · simp
      · simp
    · simp only [relKey, htk, hhold, if_true, setTh]
      funext u
      split <;> (simp only [upd_apply]; split <;> simp_all)
    · simp only [relKey, htk, hhold, if_true, setTh]
      split <;> rfl
  · cases h

end Nv.C02
