import Nv.Proofs.C14Accepted
/-! C14 — the executor: where a call with a given hash is accepted, hence where it runs. -/
namespace Nv.C14

theorem step_accepted (cfg : Cfg) (l l' : Lane) (a : LAct) (h : l.step cfg a = some l')
    (hns : ∀ id enq, a ≠ .submit id enq) : l'.accepted = l.accepted := by
  cases a with
  | submit id enq => exact absurd rfl (hns id enq)
  | pop take =>
    rcases (pop_effect cfg l l' take h).2 with ⟨e, _⟩ | ⟨c, rest, _, e⟩
    · subst e; rfl
    · subst e; exact (take_static l c rest).2.2.2.2.2
  | finish id r =>
    simp only [Lane.step] at h
    split at h
    · cases h; rfl
    · split at h
      · cases h; rfl
      · cases h
  | recv id pick => obtain ⟨c, r, _, _, e, _⟩ := recv_effect cfg l l' id pick h; subst e; rfl
  | cancel id => rw [cancel_effect cfg l l' id h]
  | stop => rw [stop_effect cfg l l' h]
  | run => rcases run_effect cfg l l' h with e | e | ⟨e, _⟩ <;> subst e <;> rfl
  | pop2 =>
    simp only [Lane.step] at h
    repeat' split at h
    all_goals first
      | (cases h; done)
      | (cases h; rfl)

theorem submit_accepted (cfg : Cfg) (l l' : Lane) (id : Nat) (enq : Bool) (h : l.step cfg (.submit id enq) = some l') :
    l'.accepted = l.accepted ∨ l'.accepted = l.accepted ++ [id] := by
  rcases (submit_effect cfg l l' id enq h).2 with ⟨e, _⟩ | ⟨r, e, _⟩
  · subst e; exact Or.inr rfl
  · subst e; exact Or.inl rfl

theorem allLanes_getElem' (cfg : Cfg) (a : LAct) (ha : ∀ l : Lane, (l.step cfg a).isSome) :
    ∀ (ls : List Lane) (i : Nat) (l' : Lane),
    (allLanes cfg a ls)[i]? = some l' → ∃ l, ls[i]? = some l ∧ l.step cfg a = some l'
  | [], i, l', h => by simp [allLanes] at h
  | l :: ls, 0, l', h => by
    simp only [allLanes, List.getElem?_cons_zero, Option.some.injEq] at h
    refine ⟨l, rfl, ?_⟩
    have := ha l
    cases hst : l.step cfg a with
    | none => rw [hst] at this; cases this
    | some l1 => rw [hst] at h; simp only at h; rw [h]
  | l :: ls, i + 1, l', h => by
    simp only [allLanes, List.getElem?_cons_succ] at h
    obtain ⟨l0, h0, h1⟩ := allLanes_getElem' cfg a ha ls i l' h
    exact ⟨l0, by simpa using h0, h1⟩

/-- the ghost maps of the executor are consistent with where calls were accepted -/
structure EInv (slot : Slot) (x : Exec) : Prop where
  hash_lt : ∀ p ∈ x.hashes, p.1 < x.next
  hash_fun : ∀ id h h', (id, h) ∈ x.hashes → (id, h') ∈ x.hashes → h = h'
  acc_hash : ∀ i l, x.lanes[i]? = some l → ∀ id ∈ l.accepted,
    ∃ h, (id, h) ∈ x.hashes ∧ laneOf slot x.kind x.nlanes h = some i

theorem einv_init (slot : Slot) (k : Kind) (nlanes cap : Nat) : EInv slot (Exec.init k nlanes cap) := by
  refine ⟨by simp [Exec.init], by simp [Exec.init], ?_⟩
  intro i l hl id hid
  have hinit : ∀ (n : Nat) (l : Lane), l ∈ mkLanes k cap n → l.accepted = [] := by
    intro n
    induction n with
    | zero => intro l h; simp [mkLanes] at h
    | succ n ih =>
      intro l h
      simp only [mkLanes, List.mem_append, List.mem_singleton] at h
      rcases h with h | h
      · exact ih l h
      · subst h; rfl
  have := hinit nlanes l (List.mem_of_getElem? hl)
  rw [this] at hid; cases hid

theorem einv_keep {slot : Slot} {x : Exec} {lanes' : List Lane} (h : EInv slot x)
    (hl : ∀ (i : Nat) (l' : Lane), lanes'[i]? = some l' → ∃ l : Lane, x.lanes[i]? = some l ∧ l'.accepted = l.accepted) :
    EInv slot { x with lanes := lanes' } := by
  refine ⟨h.hash_lt, h.hash_fun, fun i l' hl' id hid => ?_⟩
  obtain ⟨l, h0, e⟩ := hl i l' hl'
  rw [e] at hid
  exact h.acc_hash i l h0 id hid

theorem einv_step (cfg : Cfg) (slot : Slot) (x x' : Exec) (a : XAct) (h : EInv slot x)
    (hs : Exec.step cfg slot x a = some x') : EInv slot x' := by
  cases a with
  | submit hash enq =>
    simp only [Exec.step] at hs
    split at hs
    · -- caller panicked: only the ghost map grows
      cases hs
      refine ⟨fun p hp => ?_, fun id h1 h2 hm1 hm2 => ?_, fun i l hl id hid => ?_⟩
      · simp only [List.mem_append, List.mem_singleton] at hp ⊢
        rcases hp with hp | hp
        · have := h.hash_lt p hp; omega
        · subst hp; simp
      · simp only [List.mem_append, List.mem_singleton, Prod.mk.injEq] at hm1 hm2
        rcases hm1 with hm1 | hm1 <;> rcases hm2 with hm2 | hm2
        · exact h.hash_fun id h1 h2 hm1 hm2
        · have := h.hash_lt _ hm1; simp only at this; omega
        · have := h.hash_lt _ hm2; simp only at this; omega
        · rw [hm1.2, hm2.2]
      · obtain ⟨hh, hm, hl'⟩ := h.acc_hash i l hl id hid
        exact ⟨hh, List.mem_append_left _ hm, hl'⟩
    · rename_i i hi
      split at hs
      · cases hs
      · rename_i l0 hl0
        split at hs
        · cases hs
        · rename_i l1 hl1
          cases hs
          have hlt0 : i < x.lanes.length := (List.getElem?_eq_some_iff.1 hl0).1
          refine ⟨fun p hp => ?_, fun id h1 h2 hm1 hm2 => ?_, fun j l hl id hid => ?_⟩
          · simp only [List.mem_append, List.mem_singleton] at hp ⊢
            rcases hp with hp | hp
            · have := h.hash_lt p hp; omega
            · subst hp; simp
          · simp only [List.mem_append, List.mem_singleton, Prod.mk.injEq] at hm1 hm2
            rcases hm1 with hm1 | hm1 <;> rcases hm2 with hm2 | hm2
            · exact h.hash_fun id h1 h2 hm1 hm2
            · have := h.hash_lt _ hm1; simp only at this; omega
            · have := h.hash_lt _ hm2; simp only at this; omega
            · rw [hm1.2, hm2.2]
          · simp only at hl ⊢
            by_cases hji : j = i
            · subst hji
              rw [List.getElem?_set_self hlt0] at hl
              cases hl
              rcases submit_accepted cfg l0 l1 x.next enq hl1 with e | e
              · rw [e] at hid
                obtain ⟨hh, hm, hl'⟩ := h.acc_hash j l0 hl0 id hid
                exact ⟨hh, List.mem_append_left _ hm, hl'⟩
              · rw [e] at hid
                rcases List.mem_append.1 hid with hid | hid
                · obtain ⟨hh, hm, hl'⟩ := h.acc_hash j l0 hl0 id hid
                  exact ⟨hh, List.mem_append_left _ hm, hl'⟩
                · simp only [List.mem_singleton] at hid
                  subst hid
                  exact ⟨hash, by simp, hi⟩
            · rw [List.getElem?_set_ne (fun e => hji e.symm)] at hl
              obtain ⟨hh, hm, hl'⟩ := h.acc_hash j l hl id hid
              exact ⟨hh, List.mem_append_left _ hm, hl'⟩
  | lane i a =>
    simp only [Exec.step] at hs
    split at hs
    · cases hs
    · rename_i hloc
      split at hs
      · cases hs
      · rename_i l0 hl0
        split at hs
        · cases hs
        · rename_i l1 hl1
          cases hs
          have hlt0 : i < x.lanes.length := (List.getElem?_eq_some_iff.1 hl0).1
          have hns : ∀ id enq, a ≠ .submit id enq := by
            intro id enq e; subst e; simp [isLocal] at hloc
          refine einv_keep h (fun j l' hl' => ?_)
          by_cases hji : j = i
          · subst hji
            rw [List.getElem?_set_self hlt0] at hl'
            cases hl'
            exact ⟨l0, hl0, step_accepted cfg l0 l1 a hl1 hns⟩
          · rw [List.getElem?_set_ne (fun e => hji e.symm)] at hl'
            exact ⟨l', hl', rfl⟩
  | stop =>
    simp only [Exec.step, Option.some.injEq] at hs
    subst hs
    refine einv_keep h (fun j l' hl' => ?_)
    obtain ⟨l0, h0, h1⟩ := allLanes_getElem' cfg .stop (by intro l; simp [Lane.step]) x.lanes j l' hl'
    exact ⟨l0, h0, step_accepted cfg l0 l' .stop h1 (by intro _ _ e; cases e)⟩
  | run =>
    simp only [Exec.step, Option.some.injEq] at hs
    subst hs
    refine einv_keep h (fun j l' hl' => ?_)
    have hen : ∀ l : Lane, (l.step cfg .run).isSome := by
      intro l; simp only [Lane.step]; split
      · rfl
      · split <;> rfl
    obtain ⟨l0, h0, h1⟩ := allLanes_getElem' cfg .run hen x.lanes j l' hl'
    exact ⟨l0, h0, step_accepted cfg l0 l' .run h1 (by intro _ _ e; cases e)⟩

end Nv.C14
