import Nv.Proofs.C16Sess
/-!
C16 — quiescent states and the progress measure of one session (proved configuration).
-/
namespace Nv.C16

/-- the only quiescent states that are not `ended` -/
def waiting (s : Sess) : Prop :=
  s.onceDone = false ∧ s.exits = 0 ∧ s.decs = 0 ∧ s.closes = 0 ∧ s.recvPc = .reading ∧ s.peerClosed = false ∧
  ((s.sendPc = .idle ∧ s.q = [] ∧ s.qClosed = false) ∨
   (∃ x, s.sendPc = .writing x ∧ s.peerDrain = false ∧ s.wfault = false))

theorem sendStepP_none {s : Sess} (hs : sendStepP s = none) :
    (s.sendPc = .idle ∧ s.q = [] ∧ s.qClosed = false) ∨
    (∃ x, s.sendPc = .writing x ∧ s.wfault = false ∧ s.peerClosed = false ∧ s.closes = 0 ∧ s.peerDrain = false) ∨
    s.sendPc = .done := by
  unfold sendStepP at hs
  split at hs
  · rename_i hpc
    split at hs
    · rename_i hq
      split at hs
      · cases hs
      · left; simp_all
    · split at hs <;> cases hs
  · rename_i x hpc
    split at hs
    · cases hs
    · split at hs
      · cases hs
      · right; left; exact ⟨x, by simp_all⟩
  · cases hs
  · right; right; assumption

theorem recvStepP_none {s : Sess} (hr : recvStepP s = none) :
    (s.recvPc = .reading ∧ s.peerClosed = false ∧ s.closes = 0) ∨ s.recvPc = .done := by
  unfold recvStepP at hr
  split at hr
  · split at hr
    · cases hr
    · left; simp_all
  · cases hr
  · right; assumption

theorem quiescentP_cases {s : Sess} (h : SInv s) (hs : sendStepP s = none) (hr : recvStepP s = none) :
    ended s ∨ waiting s := by
  obtain ⟨h1, h2, h3, h4, h5, h6, h7⟩ := h
  unfold ended waiting
  rcases sendStepP_none hs with ⟨a1, a2, a3⟩ | ⟨x, a1, a2, a3, a4, a5⟩ | a1 <;>
  rcases recvStepP_none hr with ⟨b1, b2, b3⟩ | b1 <;>
  cases ho : s.onceDone <;> simp_all

theorem measure_quitP (s : Sess) : (quitP s).q = s.q ∧ (quitP s).sendPc = s.sendPc ∧ (quitP s).recvPc = s.recvPc := by
  unfold quitP; split <;> simp

theorem measure_sendStepP {s s' : Sess} (hs : sendStepP s = some s') : measure s' < measure s := by
  have hq := measure_quitP s
  unfold sendStepP at hs
  unfold measure
  split at hs
  · split at hs
    · split at hs
      · cases hs; simp_all [SendPc.weight]
      · cases hs
    · split at hs <;> (cases hs; simp_all [SendPc.weight]; try omega)
  · split at hs
    · cases hs; simp_all [SendPc.weight]
    · split at hs
      · cases hs; simp_all [SendPc.weight]
      · cases hs
  · cases hs; simp_all [SendPc.weight]
  · cases hs

theorem measure_recvStepP {s s' : Sess} (hs : recvStepP s = some s') : measure s' < measure s := by
  have hq := measure_quitP s
  unfold recvStepP at hs
  unfold measure
  split at hs
  · split at hs
    · cases hs; simp_all [RecvPc.weight]
    · cases hs
  · cases hs; simp_all [RecvPc.weight]
  · cases hs

end Nv.C16
