import Nv.Proofs.C16Sess
/-!
C16 — quiescent states and the progress measure of one session (proved configuration, exit callback returns).
-/
set_option linter.unusedSimpArgs false
namespace Nv.C16

/-- the only quiescent states that are not `ended` -/
def waiting (s : Sess) : Prop :=
  s.onceTaken = false ∧ s.exits = 0 ∧ s.decs = 0 ∧ s.closes = 0 ∧ s.recvPc = .reading ∧ s.peerClosed = false ∧
  ((s.sendPc = .idle ∧ s.q = [] ∧ s.qClosed = false) ∨
   (∃ x, s.sendPc = .writing x ∧ s.peerDrain = false ∧ s.wfault = false))

theorem sendStepP_none {s : Sess} (hs : sendStepP s = none) :
    (s.sendPc = .idle ∧ s.q = [] ∧ s.qClosed = false) ∨
    (∃ x, s.sendPc = .writing x ∧ s.wfault = false ∧ s.peerClosed = false ∧ s.closes = 0 ∧ s.peerDrain = false) ∨
    (s.sendPc = .quitting .enter ∧ s.onceDone = false ∧ s.onceTaken = true) ∨
    s.sendPc = .quitting .stuck ∨ s.sendPc = .done := by
  unfold sendStepP at hs
  split at hs
  · rename_i hpc
    split at hs
    · split at hs
      · cases hs
      · left; simp_all
    · split at hs <;> cases hs
  · rename_i x hpc
    split at hs
    · cases hs
    · split at hs
      · cases hs
      · right; left; exact ⟨x, by simp_all⟩
  · rename_i hpc
    split at hs
    · cases hs
    · split at hs
      · right; right; left; simp_all
      · cases hs
  · cases hs
  · cases hs
  · cases hs
  · right; right; right; left; assumption
  · right; right; right; right; assumption

theorem recvStepP_none {s : Sess} (hr : recvStepP s = none) :
    (s.recvPc = .reading ∧ s.peerClosed = false ∧ s.closes = 0) ∨
    (∃ p, s.recvPc = .quitting p .enter ∧ s.onceDone = false ∧ s.onceTaken = true) ∨
    (∃ p, s.recvPc = .quitting p .stuck) ∨ s.recvPc = .done := by
  unfold recvStepP at hr
  split at hr
  · split at hr
    · cases hr
    · left; simp_all
  · rename_i p hpc
    split at hr
    · cases hr
    · split at hr
      · right; left; exact ⟨p, by simp_all⟩
      · cases hr
  · cases hr
  · cases hr
  · cases hr
  · rename_i p hpc; right; right; left; exact ⟨p, hpc⟩
  · right; right; right; assumption

/-- nobody is inside the body of the once: it is either untouched or finished -/
theorem no_owner {s : Sess} (h : SInv s) (hs : ∀ st, s.sendPc = .quitting st → st = .enter)
    (hr : ∀ p st, s.recvPc = .quitting p st → st = .enter) (hd : s.onceDone = false) : s.onceTaken = false := by
  cases ht : s.onceTaken
  · rfl
  · exfalso
    obtain ⟨_, o⟩ := h.mid ht hd
    rcases o with ⟨st, o, ne⟩ | ⟨p, st, o, ne⟩
    · exact ne (hs st o)
    · exact ne (hr p st o)

theorem quiescentP_cases {s : Sess} (h : SInv s) (hs : sendStepP s = none) (hr : recvStepP s = none) :
    ended s ∨ waiting s := by
  have hcl := once_of_closes h
  have hS := h
  obtain ⟨h1, h2, h3, h4, h5, h6, h7, h8, h9⟩ := h
  unfold ended waiting
  rcases sendStepP_none hs with ⟨a1, a2, a3⟩ | ⟨x, a1, a2, a3, a4, a5⟩ | ⟨a1, a2, a3⟩ | a1 | a1
  · -- send parked on an empty open queue
    have hd : s.onceDone = false := by
      cases hd : s.onceDone
      · rfl
      · have := (h6 hd).2.2.2.2; simp [a3] at this
    rcases recvStepP_none hr with ⟨b1, b2, b3⟩ | ⟨p, b1, b2, b3⟩ | ⟨p, b1⟩ | b1
    · have ht := no_owner hS (by intro st e; rw [a1] at e; cases e) (by intro p st e; rw [b1] at e; cases e) hd
      obtain ⟨_, e0, d0, c0⟩ := h5 ht
      right; exact ⟨ht, e0, d0, c0, b1, b2, Or.inl ⟨a1, a2, a3⟩⟩
    · exfalso
      have ht := no_owner hS (by intro st e; rw [a1] at e; cases e) (by intro p' st e; rw [b1] at e; cases e; rfl) hd
      simp [ht] at b3
    · exfalso; have := (h9 p .stuck b1 (by simp)).2.2.1; simp [stageOk] at this
    · exfalso; have := h4 b1; simp [hd] at this
  · -- send blocked writing to a peer that does not read
    have hd : s.onceDone = false := by
      cases hd : s.onceDone
      · rfl
      · have := (h6 hd).2.2.2.1; omega
    rcases recvStepP_none hr with ⟨b1, b2, b3⟩ | ⟨p, b1, b2, b3⟩ | ⟨p, b1⟩ | b1
    · have ht := no_owner hS (by intro st e; rw [a1] at e; cases e) (by intro p st e; rw [b1] at e; cases e) hd
      obtain ⟨_, e0, d0, c0⟩ := h5 ht
      right; exact ⟨ht, e0, d0, c0, b1, b2, Or.inr ⟨x, a1, a5, a2⟩⟩
    · exfalso
      have ht := no_owner hS (by intro st e; rw [a1] at e; cases e) (by intro p' st e; rw [b1] at e; cases e; rfl) hd
      simp [ht] at b3
    · exfalso; have := (h9 p .stuck b1 (by simp)).2.2.1; simp [stageOk] at this
    · exfalso; have := h4 b1; simp [hd] at this
  · -- send blocked in exitOnce.Do: the owner must be the receive loop, which can move
    exfalso
    rcases recvStepP_none hr with ⟨b1, b2, b3⟩ | ⟨p, b1, b2, b3⟩ | ⟨p, b1⟩ | b1
    · have ht := no_owner hS (by intro st e; rw [a1] at e; cases e; rfl) (by intro p st e; rw [b1] at e; cases e) a2
      simp [ht] at a3
    · have ht := no_owner hS (by intro st e; rw [a1] at e; cases e; rfl) (by intro p' st e; rw [b1] at e; cases e; rfl) a2
      simp [ht] at a3
    · have := (h9 p .stuck b1 (by simp)).2.2.1; simp [stageOk] at this
    · have := h4 b1; simp [a2] at this
  · exfalso; have := (h8 .stuck a1 (by simp)).2.2.1; simp [stageOk] at this
  · -- send loop finished
    have hd := h3 a1
    obtain ⟨_, e1, d1, c1, _⟩ := h6 hd
    rcases recvStepP_none hr with ⟨b1, b2, b3⟩ | ⟨p, b1, b2, b3⟩ | ⟨p, b1⟩ | b1
    · omega
    · simp [hd] at b2
    · exfalso; have := (h9 p .stuck b1 (by simp)).2.2.1; simp [stageOk] at this
    · left; exact ⟨e1, d1, c1, a1, b1, h2⟩

theorem measure_sendStepP {s s' : Sess} (hs : sendStepP s = some s') : measure s' < measure s := by
  unfold sendStepP at hs
  unfold measure
  split at hs
  · split at hs
    · split at hs
      · cases hs; simp_all [SendPc.weight, QStage.weight]
      · cases hs
    · split at hs <;> (cases hs; simp_all [SendPc.weight, QStage.weight]; try omega)
  · split at hs
    · cases hs; simp_all [SendPc.weight, QStage.weight]
    · split at hs
      · cases hs; simp_all [SendPc.weight, QStage.weight]
      · cases hs
  · split at hs
    · cases hs; simp_all [SendPc.weight, QStage.weight]
    · split at hs
      · cases hs
      · cases hs; simp_all [SendPc.weight, QStage.weight]
  · cases hs; simp_all [SendPc.weight, QStage.weight]
  · cases hs; simp_all [SendPc.weight, QStage.weight]
  · cases hs; simp_all [SendPc.weight, QStage.weight]
  · cases hs
  · cases hs

theorem measure_recvStepP {s s' : Sess} (hs : recvStepP s = some s') : measure s' < measure s := by
  unfold recvStepP at hs
  unfold measure
  split at hs
  · split at hs
    · cases hs; simp_all [RecvPc.weight, QStage.weight]
    · cases hs
  · split at hs
    · cases hs; simp_all [RecvPc.weight, QStage.weight]
    · split at hs
      · cases hs
      · cases hs; simp_all [RecvPc.weight, QStage.weight]
  · cases hs; simp_all [RecvPc.weight, QStage.weight]
  · cases hs; simp_all [RecvPc.weight, QStage.weight]
  · cases hs; simp_all [RecvPc.weight, QStage.weight]
  · cases hs
  · cases hs

end Nv.C16
