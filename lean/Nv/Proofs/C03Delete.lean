import Nv.Proofs.C03Insert2
/-!
C03 — `remove` / `growChildAndRemove` refine the sorted-set deletions and keep the structural invariant.
The dual of insert's discipline: before descending into a child the code makes sure it has more than
`minItems` items (steal from the left sibling, steal from the right sibling, or merge).
-/
namespace Nv.C03

/-! ### specification of the three removals -/

def specRemove (l : List Item) : Rm → List Item × Option Item
  | .item k => (specDelete l k, specFind l k)
  | .min => (l.drop 1, l.head?)
  | .max => (l.dropLast, l.getLast?)

theorem specDelete_append (k : Int) (a b : List Item) : specDelete (a ++ b) k = specDelete a k ++ specDelete b k := by
  simp [specDelete]

theorem specDelete_none (k : Int) (l : List Item) (h : ∀ a ∈ l, a.key ≠ k) : specDelete l k = l := by
  apply List.filter_eq_self.2
  intro a ha; simpa using h a ha

theorem specDelete_at (k : Int) (y : Item) (L R : List Item) (hl : ∀ a ∈ L, a.key ≠ k) (hr : ∀ a ∈ R, a.key ≠ k)
    (hy : y.key = k) : specDelete (L ++ y :: R) k = L ++ R := by
  rw [specDelete_append, specDelete_none k L hl]
  simp [specDelete, hy]
  intro a ha; exact hr a ha

theorem specDelete_length (k : Int) : ∀ (l : List Item), Sorted l →
    (specDelete l k).length = if (specFind l k).isSome then l.length - 1 else l.length
  | [], _ => by simp [specDelete, specFind]
  | a :: l, hs => by
    by_cases hk : a.key = k
    · have hne : ∀ b ∈ l, b.key ≠ k := fun b hb => by have := hs.head_lt hb; omega
      have h1 : specDelete (a :: l) k = l := by
        have := specDelete_at k a [] l (by simp) hne hk
        simpa using this
      have h2 : specFind (a :: l) k = some a := by simp [specFind, hk]
      rw [h1, h2]; simp
    · have h1 : specDelete (a :: l) k = a :: specDelete l k := by simp [specDelete, hk]
      have h2 : specFind (a :: l) k = specFind l k := by simp [specFind, List.find?_cons, hk]
      rw [h1, h2, List.length_cons, specDelete_length k l hs.tail]
      cases hf : specFind l k with
      | none => simp
      | some z =>
        have : l ≠ [] := by intro e; rw [e] at hf; simp [specFind] at hf
        have := List.length_pos_iff.2 this
        simp; omega

/-- the outer parts `L`, `R` cannot be affected by the removal -/
def SideOk (typ : Rm) (L R : List Item) : Prop :=
  match typ with
  | .item k => (∀ a ∈ L, a.key ≠ k) ∧ (∀ a ∈ R, a.key ≠ k)
  | .min => L = []
  | .max => R = []

/-- removal inside the middle part when the outer parts cannot be affected -/
theorem specRemove_mid (typ : Rm) (L M R : List Item) (hM : M ≠ []) (h : SideOk typ L R) :
    specRemove (L ++ M ++ R) typ = (L ++ (specRemove M typ).1 ++ R, (specRemove M typ).2) := by
  cases typ with
  | item k =>
    simp only [SideOk] at h
    simp only [specRemove, specDelete_append, specDelete_none k L h.1, specDelete_none k R h.2]
    rw [specFind_mid k L M R h.1 h.2]
  | min =>
    simp only [SideOk] at h; subst h
    cases M with
    | nil => exact absurd rfl hM
    | cons m M => simp [specRemove]
  | max =>
    simp only [SideOk] at h; subst h
    simp only [specRemove, List.append_nil]
    rw [List.dropLast_append_of_ne_nil hM, List.getLast?_append]
    cases hg : M.getLast? with
    | none => exact absurd (List.getLast?_eq_none_iff.1 hg) hM
    | some z => simp

/-! ### characterisation of `findIdx` -/

theorem findIdx_eq (is : List Item) (k : Int) (j : Nat) (hj : j ≤ is.length)
    (hlt : ∀ a ∈ is.take j, a.key < k) (hge : ∀ b ∈ is.drop j, k ≤ b.key) : (findIdx is k).1 = j := by
  induction is generalizing j with
  | nil => simp at hj; subst hj; simp [findIdx]
  | cons y ys ih =>
    cases j with
    | zero =>
      have := hge y (by simp)
      simp only [findIdx]
      split
      · rfl
      · split
        · rfl
        · omega
    | succ j =>
      have hy := hlt y (by simp)
      have h1 : ¬ k < y.key := by omega
      have h2 : ¬ y.key = k := by omega
      simp only [findIdx, h1, h2, if_false]
      rw [ih j (by simpa using hj) (fun a ha => hlt a (by simp [ha])) (fun b hb => hge b (by simpa using hb))]

/-! ### leaves -/

theorem leaf_remove_spec (is : List Item) (typ : Rm) (hs : Sorted is) :
    leafRemove is typ = specRemove is typ := by
  cases typ with
  | min => simp [leafRemove, specRemove]
  | max => simp [leafRemove, specRemove]
  | item k =>
    simp only [leafRemove, specRemove]
    cases hf : (findIdx is k).2 with
    | true =>
      obtain ⟨y, hy, hky⟩ := (findIdx_found is k).1 hf
      have hi : (findIdx is k).1 < is.length := (List.getElem?_eq_some_iff.1 hy).1
      have hyy : is[(findIdx is k).1] = y := (List.getElem?_eq_some_iff.1 hy).2
      have hsplit : is = is.take (findIdx is k).1 ++ y :: is.drop ((findIdx is k).1 + 1) := by
        have := list_split_at is _ default hi
        rw [getD_eq_getElem is _ default hi, hyy] at this; exact this
      have hs' := hs; rw [hsplit] at hs'
      have hL : ∀ a ∈ is.take (findIdx is k).1, a.key ≠ k := fun a ha => by
        have := hs'.lt_of_append ha (List.mem_cons_self); omega
      have hR : ∀ a ∈ is.drop ((findIdx is k).1 + 1), a.key ≠ k := fun a ha => by
        have := hs'.append_right.head_lt ha; omega
      simp only [if_true, removeAt, hy]
      conv => rhs; rw [hsplit]
      rw [specDelete_at k y _ _ hL hR hky, specFind_at k y _ _ hL hky]
    | false =>
      have hlt' := findIdx_take_lt is k
      have hgt' := findIdx_not_found_gt is k hs hf
      have hne : ∀ a ∈ is, a.key ≠ k := by
        intro a ha
        rw [← List.take_append_drop (findIdx is k).1 is] at ha
        rcases List.mem_append.1 ha with ha | ha
        · have := hlt' a ha; omega
        · have := hgt' a ha; omega
      simp only [Bool.false_eq_true, if_false]
      rw [specDelete_none k is hne, specFind_none k is hne]

end Nv.C03
