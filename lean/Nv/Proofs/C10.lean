import Nv.Model.C10
/-!
C10 — helper lemmas for `Nv/Props/C10.lean`: little-endian and varint round trips, the buffer primitives on
`encoding ++ rest`, truncated encodings, `ReWrite`, and the chunk-pulling loop of the stream reader.
Core Lean only.
-/
namespace Nv.C10

/-! ### little endian -/

theorem leBytes_length (n x : Nat) : (leBytes n x).length = n := by
  induction n generalizing x with
  | zero => rfl
  | succ n ih => simp [leBytes, ih]

theorem leVal_leBytes (n x : Nat) : leVal (leBytes n x) = x % 256 ^ n := by
  induction n generalizing x with
  | zero => simp [leBytes, leVal, Nat.mod_one]
  | succ n ih =>
    simp only [leBytes, leVal, ih]
    have h256 : 256 ^ (n + 1) = 256 * 256 ^ n := by rw [Nat.pow_succ, Nat.mul_comm]
    rw [h256, Nat.mod_mul]
    simp

theorem leVal_lt (bs : Bytes) : leVal bs < 256 ^ bs.length := by
  induction bs with
  | nil => simp [leVal]
  | cons b bs ih =>
    have hb := b.toNat_lt
    simp only [leVal, List.length_cons, Nat.pow_succ]
    omega

/-- decoding then re-encoding gives the bytes back: the fixed-width encodings are canonical -/
theorem leBytes_leVal (bs : Bytes) : leBytes bs.length (leVal bs) = bs := by
  induction bs with
  | nil => rfl
  | cons b bs ih =>
    have hb := b.toNat_lt
    simp only [List.length_cons, leBytes, leVal]
    have h1 : (b.toNat + 256 * leVal bs) % 256 = b.toNat := by omega
    have h2 : (b.toNat + 256 * leVal bs) / 256 = leVal bs := by omega
    rw [h1, h2, ih]
    simp

/-! ### buffer primitives on `encoding ++ rest` -/

theorem bufRead_append (n : Nat) (e rest : Bytes) (h : e.length = n) :
    bufRead n (e ++ rest) = (.ok e, rest) := by
  unfold bufRead
  by_cases h0 : n = 0
  · subst h0; have : e = [] := List.length_eq_zero_iff.1 h; simp [this]
  · have hne : e ≠ [] := by intro he; subst he; simp at h; omega
    simp [hne, ← h]

theorem bufNext_append (n : Nat) (e rest : Bytes) (h : e.length = n) :
    bufNext n (e ++ rest) = (.ok e, rest) := by
  unfold bufNext
  simp [← h]

theorem bufFixed_leBytes (n x : Nat) (rest : Bytes) :
    bufFixed n (leBytes n x ++ rest) = (.ok (x % 256 ^ n), rest) := by
  simp [bufFixed, bufRead_append n _ rest (leBytes_length n x), Out.map, leVal_leBytes]

/-- a read of `n` bytes from fewer than `n` bytes is an error -/
theorem bufRead_short (n : Nat) (bs : Bytes) (h : bs.length < n) : ∃ e, (bufRead n bs).1 = .err e := by
  unfold bufRead
  have h0 : n ≠ 0 := by omega
  by_cases he : bs.isEmpty = true
  · exact ⟨.eof, by simp [h0, he]⟩
  · exact ⟨.empty, by simp [h0, he, h]⟩

theorem bufFixed_short (n : Nat) (bs : Bytes) (h : bs.length < n) : ∃ e, (bufFixed n bs).1 = .err e := by
  obtain ⟨e, he⟩ := bufRead_short n bs h
  exact ⟨e, by simp [bufFixed, he, Out.map]⟩

theorem bufNext_short (n : Nat) (bs : Bytes) (h : bs.length < n) : (bufNext n bs).1 = .err .empty := by
  simp [bufNext, h]

/-! ### varints -/

theorem mul_split (x mul : Nat) : x % 128 * mul + x / 128 * (mul * 128) = x * mul := by
  have h := Nat.div_add_mod x 128
  calc x % 128 * mul + x / 128 * (mul * 128)
      = (128 * (x / 128) + x % 128) * mul := by
        rw [Nat.add_mul, Nat.add_comm, Nat.mul_comm mul 128, ← Nat.mul_assoc, Nat.mul_comm (x / 128) 128]
    _ = x * mul := by rw [h]

theorem toNat_ofNat_lt (x : Nat) (h : x < 256) : (UInt8.ofNat x).toNat = x := by
  simp [Nat.mod_eq_of_lt h]

/-- `ReadUvarint` takes back what `PutUvarint` wrote, with `k+1` iterations left and `x` fitting into them -/
theorem uvarintDecF_enc (k : Nat) : ∀ (f x acc mul : Nat) (rest : Bytes), x < 2 * 128 ^ k → k ≤ f →
    uvarintDecF (k + 1) acc mul (uvarintEncF f x ++ rest) = (.ok (acc + x * mul), rest) := by
  induction k with
  | zero =>
    intro f x acc mul rest hx _
    have hx2 : x < 2 := by simpa using hx
    have hb : (UInt8.ofNat x).toNat = x := toNat_ofNat_lt x (by omega)
    cases f with
    | zero =>
      have h128 : x < 128 := by omega
      have h1 : ¬ 1 < x := by omega
      simp [uvarintEncF, uvarintDecF, hb, h128, h1]
    | succ f =>
      have h128 : x < 128 := by omega
      have h1 : ¬ 1 < x := by omega
      simp [uvarintEncF, uvarintDecF, hb, h128, h1]
  | succ k ih =>
    intro f x acc mul rest hx hf
    cases f with
    | zero => omega
    | succ f =>
      by_cases hlt : x < 128
      · have hb : (UInt8.ofNat x).toNat = x := toNat_ofNat_lt x (by omega)
        simp [uvarintEncF, uvarintDecF, hlt, hb]
      · have hb : (UInt8.ofNat (x % 128 + 128)).toNat = x % 128 + 128 := toNat_ofNat_lt _ (by omega)
        have hdiv : x / 128 < 2 * 128 ^ k := by
          apply Nat.div_lt_of_lt_mul
          rw [Nat.pow_succ] at hx
          omega
        have hnot : ¬ (x % 128 + 128 < 128) := by omega
        simp only [uvarintEncF, hlt, if_false, List.cons_append, uvarintDecF, hb, hnot]
        rw [ih f (x / 128) _ (mul * 128) rest hdiv (by omega)]
        have := mul_split x mul
        simp only [Nat.add_sub_cancel]
        congr 2
        omega

theorem uvarint_roundtrip (x : UInt64) (rest : Bytes) : uvarintDec (uvarintEnc x ++ rest) = (.ok x, rest) := by
  have hx : x.toNat < 2 * 128 ^ 9 := by have := x.toNat_lt; omega
  simp [uvarintDec, uvarintEnc, uvarintDecF_enc 9 9 x.toNat 0 1 rest hx (Nat.le_refl _), Out.map]

theorem unzigzag_zigzag (x : Int) : unzigzag (zigzag x) = x := by
  unfold zigzag unzigzag
  split <;> split <;> omega

theorem zigzag_lt (x : Int64) : zigzag x.toInt < 2 ^ 64 := by
  have h1 := x.le_toInt
  have h2 := x.toInt_lt
  unfold zigzag
  split <;> omega

theorem varint_roundtrip (x : Int64) (rest : Bytes) : varintDec (varintEnc x ++ rest) = (.ok x, rest) := by
  have h := zigzag_lt x
  have hn : (UInt64.ofNat (zigzag x.toInt)).toNat = zigzag x.toInt := by
    simp [Nat.mod_eq_of_lt h]
  simp [varintDec, varintEnc, uvarint_roundtrip, Out.map, hn, unzigzag_zigzag]

/-! ### round trip of one value -/

theorem lstr_len_lt (l : UInt32) (s : Bytes) (h : s.length ≤ l.toNat) : s.length < 2 ^ 32 := by
  have := l.toNat_lt; omega

theorem writeOk_of_valid (v : Val) (h : Valid v) : writeOk v = true := by
  cases v <;> simp [writeOk]
  case lstr l s =>
    have h' : s.length ≤ l.toNat := h
    have := lstr_len_lt l s h'
    rw [Nat.mod_eq_of_lt (by simpa using this)]; exact h'

theorem roundtrip_one (v : Val) (rest : Bytes) (h : Valid v) :
    decBuf (tyOf v) (enc v ++ rest) = (.ok v, rest) := by
  cases v with
  | bool b => cases b <;> simp [tyOf, enc, decBuf, bufReadByte, Out.map]
  | u8 x => simp [tyOf, enc, decBuf, bufReadByte, Out.map]
  | u16 x => simp [tyOf, enc, decBuf, bufFixed_leBytes, Out.map]
  | i16 x => simp [tyOf, enc, decBuf, bufFixed_leBytes, Out.map]
  | u32 x => simp [tyOf, enc, decBuf, bufFixed_leBytes, Out.map]
  | i32 x => simp [tyOf, enc, decBuf, bufFixed_leBytes, Out.map]
  | u64 x => simp [tyOf, enc, decBuf, bufFixed_leBytes, Out.map]
  | i64 x => simp [tyOf, enc, decBuf, bufFixed_leBytes, Out.map]
  | f64 x => simp [tyOf, enc, decBuf, bufFixed_leBytes, Out.map]
  | varU64 x => simp [tyOf, enc, decBuf, uvarint_roundtrip, Out.map]
  | varI64 x => simp [tyOf, enc, decBuf, varint_roundtrip, Out.map]
  | varU32 x => simp [tyOf, enc, decBuf, uvarint_roundtrip, Out.map]
  | varI32 x => simp [tyOf, enc, decBuf, varint_roundtrip, Out.map]
  | str s =>
    have hs : s.length < 2 ^ 32 := h
    have h4 : s.length % 2 ^ 32 % 256 ^ 4 % 2 ^ 32 = s.length := by omega
    simp only [tyOf, enc, decBuf, List.append_assoc, bufFixed_leBytes, bufStrBody, h4,
      bufNext_append s.length s rest rfl, Out.map]
  | lstr l s =>
    have hl : s.length ≤ l.toNat := h
    have hs : s.length < 2 ^ 32 := lstr_len_lt l s hl
    have h4 : s.length % 2 ^ 32 % 256 ^ 4 % 2 ^ 32 = s.length := by omega
    have hn : ¬ (s.length > l.toNat) := by omega
    simp only [tyOf, enc, decBuf, List.append_assoc, bufFixed_leBytes, bufStrBody, h4, hn, if_false,
      bufNext_append s.length s rest rfl, Out.map]
  | raw p => simp [tyOf, enc, decBuf, bufRead_append p.length p rest rfl, Out.map]

/-! ### programs; truncated encodings -/

theorem writeAll_valid (vs : List Val) (buf : Bytes) (h : ∀ v ∈ vs, Valid v) :
    writeAll vs buf = buf ++ vs.flatMap enc := by
  induction vs generalizing buf with
  | nil => simp [writeAll]
  | cons v vs ih =>
    have hv := writeOk_of_valid v (h v (by simp))
    simp only [writeAll, write, hv, if_true]
    rw [ih _ (fun w hw => h w (by simp [hw]))]
    simp

theorem readAll_roundtrip (vs : List Val) (rest : Bytes) (h : ∀ v ∈ vs, Valid v) :
    readAll (vs.map tyOf) (vs.flatMap enc ++ rest) = (vs.map .ok, rest) := by
  induction vs with
  | nil => simp [readAll]
  | cons v vs ih =>
    simp only [List.map_cons, List.flatMap_cons, List.append_assoc, readAll]
    rw [roundtrip_one v _ (h v (by simp))]
    simp only
    rw [ih (fun w hw => h w (by simp [hw]))]

/-- every strict prefix of an unsigned varint is an error -/
theorem uvarintDecF_trunc (k : Nat) : ∀ (f x acc mul n : Nat), x < 2 * 128 ^ k → k ≤ f →
    n < (uvarintEncF f x).length → ∃ e, (uvarintDecF (k + 1) acc mul ((uvarintEncF f x).take n)).1 = .err e := by
  induction k with
  | zero =>
    intro f x acc mul n hx _ hn
    have h128 : x < 128 := by simp at hx; omega
    have hlen : (uvarintEncF f x).length = 1 := by cases f <;> simp [uvarintEncF, h128]
    have : n = 0 := by omega
    subst this
    simp only [List.take_zero, uvarintDecF]; exact ⟨_, rfl⟩
  | succ k ih =>
    intro f x acc mul n hx hf hn
    cases f with
    | zero => omega
    | succ f =>
      by_cases hlt : x < 128
      · have : n = 0 := by simp [uvarintEncF, hlt] at hn; exact hn
        subst this
        simp only [List.take_zero, uvarintDecF]; exact ⟨_, rfl⟩
      · cases n with
        | zero => simp only [List.take_zero, uvarintDecF]; exact ⟨_, rfl⟩
        | succ n =>
          have hb : (UInt8.ofNat (x % 128 + 128)).toNat = x % 128 + 128 := toNat_ofNat_lt _ (by omega)
          have hdiv : x / 128 < 2 * 128 ^ k := by
            apply Nat.div_lt_of_lt_mul
            rw [Nat.pow_succ] at hx
            omega
          have hnot : ¬ (x % 128 + 128 < 128) := by omega
          have hn' : n < (uvarintEncF f (x / 128)).length := by
            simp [uvarintEncF, hlt] at hn; exact hn
          obtain ⟨e, he⟩ := ih f (x / 128) (acc + (x % 128 + 128 - 128) * mul) (mul * 128) n hdiv (by omega) hn'
          exact ⟨e, by simp only [uvarintEncF, hlt, if_false, List.take_succ_cons, uvarintDecF, hb, hnot]; exact he⟩

theorem uvarintDec_trunc (x : UInt64) (n : Nat) (hn : n < (uvarintEnc x).length) :
    ∃ e, (uvarintDec ((uvarintEnc x).take n)).1 = .err e := by
  have hx : x.toNat < 2 * 128 ^ 9 := by have := x.toNat_lt; omega
  obtain ⟨e, he⟩ := uvarintDecF_trunc 9 9 x.toNat 0 1 n hx (Nat.le_refl _) hn
  exact ⟨e, by simp only [uvarintDec, uvarintEnc]; rw [he]; rfl⟩

theorem varintDec_trunc (x : Int64) (n : Nat) (hn : n < (varintEnc x).length) :
    ∃ e, (varintDec ((varintEnc x).take n)).1 = .err e := by
  obtain ⟨e, he⟩ := uvarintDec_trunc _ n hn
  exact ⟨e, by simp only [varintDec, varintEnc]; rw [he]; rfl⟩

theorem fixed_trunc (w x n : Nat) (hn : n < w) : ∃ e, (bufFixed w ((leBytes w x).take n)).1 = .err e :=
  bufFixed_short w _ (by simp [leBytes_length]; omega)

theorem truncated_one (v : Val) (n : Nat) (h : Valid v) (hn : n < (enc v).length) :
    ∃ e, (decBuf (tyOf v) ((enc v).take n)).1 = .err e := by
  cases v with
  | bool b =>
    have : n = 0 := by simp [enc] at hn; exact hn
    subst this; exact ⟨.eof, by simp [tyOf, decBuf, bufReadByte, Out.map]⟩
  | u8 x =>
    have : n = 0 := by simp [enc] at hn; exact hn
    subst this; exact ⟨.eof, by simp [tyOf, decBuf, bufReadByte, Out.map]⟩
  | u16 x =>
    obtain ⟨e, he⟩ := fixed_trunc 2 x.toNat n (by simpa [enc, leBytes_length] using hn)
    exact ⟨e, by simp only [tyOf, decBuf, enc, he, Out.map]⟩
  | i16 x =>
    obtain ⟨e, he⟩ := fixed_trunc 2 x.toUInt16.toNat n (by simpa [enc, leBytes_length] using hn)
    exact ⟨e, by simp only [tyOf, decBuf, enc, he, Out.map]⟩
  | u32 x =>
    obtain ⟨e, he⟩ := fixed_trunc 4 x.toNat n (by simpa [enc, leBytes_length] using hn)
    exact ⟨e, by simp only [tyOf, decBuf, enc, he, Out.map]⟩
  | i32 x =>
    obtain ⟨e, he⟩ := fixed_trunc 4 x.toUInt32.toNat n (by simpa [enc, leBytes_length] using hn)
    exact ⟨e, by simp only [tyOf, decBuf, enc, he, Out.map]⟩
  | u64 x =>
    obtain ⟨e, he⟩ := fixed_trunc 8 x.toNat n (by simpa [enc, leBytes_length] using hn)
    exact ⟨e, by simp only [tyOf, decBuf, enc, he, Out.map]⟩
  | i64 x =>
    obtain ⟨e, he⟩ := fixed_trunc 8 x.toUInt64.toNat n (by simpa [enc, leBytes_length] using hn)
    exact ⟨e, by simp only [tyOf, decBuf, enc, he, Out.map]⟩
  | f64 x =>
    obtain ⟨e, he⟩ := fixed_trunc 8 x.toNat n (by simpa [enc, leBytes_length] using hn)
    exact ⟨e, by simp only [tyOf, decBuf, enc, he, Out.map]⟩
  | varU64 x =>
    obtain ⟨e, he⟩ := uvarintDec_trunc x n hn
    exact ⟨e, by simp only [tyOf, decBuf, enc, he, Out.map]⟩
  | varI64 x =>
    obtain ⟨e, he⟩ := varintDec_trunc x n hn
    exact ⟨e, by simp only [tyOf, decBuf, enc, he, Out.map]⟩
  | varU32 x =>
    obtain ⟨e, he⟩ := uvarintDec_trunc x.toUInt64 n hn
    exact ⟨e, by simp only [tyOf, decBuf, enc, he, Out.map]⟩
  | varI32 x =>
    obtain ⟨e, he⟩ := varintDec_trunc x.toInt64 n hn
    exact ⟨e, by simp only [tyOf, decBuf, enc, he, Out.map]⟩
  | str s =>
    have hs : s.length < 2 ^ 32 := h
    have h4 : s.length % 2 ^ 32 % 256 ^ 4 % 2 ^ 32 = s.length := by omega
    simp only [enc, List.length_append, leBytes_length] at hn
    by_cases h4n : n < 4
    · obtain ⟨e, he⟩ := bufFixed_short 4 ((enc (.str s)).take n) (by simp [enc, leBytes_length]; omega)
      refine ⟨e, ?_⟩
      simp only [tyOf, decBuf]
      split
      · rename_i e' r' heq; rw [heq] at he; simpa using he
      · rename_i n' r' heq; rw [heq] at he; simp at he
    · have htake : (enc (.str s)).take n = leBytes 4 (s.length % 2 ^ 32) ++ s.take (n - 4) := by
        simp only [enc]
        rw [List.take_append, leBytes_length, List.take_of_length_le (by simp [leBytes_length]; omega)]
      refine ⟨.empty, ?_⟩
      simp only [tyOf, decBuf, htake, bufFixed_leBytes, bufStrBody, h4]
      rw [bufNext_short _ _ (by simp; omega)]
      rfl
  | lstr l s =>
    have hl : s.length ≤ l.toNat := h
    have hs : s.length < 2 ^ 32 := lstr_len_lt l s hl
    have h4 : s.length % 2 ^ 32 % 256 ^ 4 % 2 ^ 32 = s.length := by omega
    have hnl : ¬ (s.length > l.toNat) := by omega
    simp only [enc, List.length_append, leBytes_length] at hn
    by_cases h4n : n < 4
    · obtain ⟨e, he⟩ := bufFixed_short 4 ((enc (.lstr l s)).take n) (by simp [enc, leBytes_length]; omega)
      refine ⟨e, ?_⟩
      simp only [tyOf, decBuf]
      split
      · rename_i e' r' heq; rw [heq] at he; simpa using he
      · rename_i n' r' heq; rw [heq] at he; simp at he
    · have htake : (enc (.lstr l s)).take n = leBytes 4 (s.length % 2 ^ 32) ++ s.take (n - 4) := by
        simp only [enc]
        rw [List.take_append, leBytes_length, List.take_of_length_le (by simp [leBytes_length]; omega)]
      refine ⟨.empty, ?_⟩
      simp only [tyOf, decBuf, htake, bufFixed_leBytes, bufStrBody, h4, hnl, if_false]
      rw [bufNext_short _ _ (by simp; omega)]
      rfl
  | raw p =>
    obtain ⟨e, he⟩ := bufRead_short p.length (p.take n) (by simp [enc] at hn; simp; omega)
    exact ⟨e, by simp only [tyOf, decBuf, enc, he, Out.map]⟩


/-! ### reads only consume from the front -/

theorem bufRead_suffix (n : Nat) (bs : Bytes) : (bufRead n bs).2 <:+ bs := by
  unfold bufRead
  split
  · exact List.suffix_refl _
  · split
    · exact List.nil_suffix
    · split
      · exact List.nil_suffix
      · exact List.drop_suffix _ _

theorem bufNext_suffix (n : Nat) (bs : Bytes) : (bufNext n bs).2 <:+ bs := by
  unfold bufNext
  split
  · exact List.nil_suffix
  · exact List.drop_suffix _ _

theorem bufReadByte_suffix (bs : Bytes) : (bufReadByte bs).2 <:+ bs := by
  cases bs with
  | nil => exact List.nil_suffix
  | cons b rest => exact List.suffix_cons _ _

theorem uvarintDecF_suffix (k acc mul : Nat) (bs : Bytes) : (uvarintDecF k acc mul bs).2 <:+ bs := by
  induction bs generalizing k acc mul with
  | nil => cases k <;> simp [uvarintDecF]
  | cons b rest ih =>
    cases k with
    | zero => simp [uvarintDecF]
    | succ k =>
      simp only [uvarintDecF]
      split
      · exact List.suffix_cons _ _
      · exact List.IsSuffix.trans (ih _ _ _) (List.suffix_cons _ _)

theorem bufFixed_suffix (n : Nat) (bs : Bytes) : (bufFixed n bs).2 <:+ bs := bufRead_suffix n bs

theorem decBuf_suffix (ty : Ty) (bs : Bytes) : (decBuf ty bs).2 <:+ bs := by
  cases ty with
  | bool => exact bufReadByte_suffix bs
  | u8 => exact bufReadByte_suffix bs
  | u16 => exact bufRead_suffix _ bs
  | i16 => exact bufRead_suffix _ bs
  | u32 => exact bufRead_suffix _ bs
  | i32 => exact bufRead_suffix _ bs
  | u64 => exact bufRead_suffix _ bs
  | i64 => exact bufRead_suffix _ bs
  | f64 => exact bufRead_suffix _ bs
  | varU64 => exact uvarintDecF_suffix _ _ _ bs
  | varI64 => exact uvarintDecF_suffix _ _ _ bs
  | varU32 => exact uvarintDecF_suffix _ _ _ bs
  | varI32 => exact uvarintDecF_suffix _ _ _ bs
  | str =>
    have h := bufFixed_suffix 4 bs
    simp only [decBuf]
    split
    · rename_i e r heq; rw [heq] at h; exact h
    · rename_i n r heq; rw [heq] at h
      exact List.IsSuffix.trans (bufNext_suffix _ _) h
  | lstr l =>
    have h := bufFixed_suffix 4 bs
    simp only [decBuf]
    split
    · rename_i e r heq; rw [heq] at h; exact h
    · rename_i n r heq; rw [heq] at h
      split
      · exact h
      · exact List.IsSuffix.trans (bufNext_suffix _ _) h
  | read n => exact bufRead_suffix _ bs
  | readN n =>
    simp only [decBuf]; split
    · exact List.suffix_refl _
    · exact bufRead_suffix _ bs
  | zreadN n =>
    simp only [decBuf]; split
    · exact List.suffix_refl _
    · exact bufNext_suffix _ bs

theorem readAll_length (ts : List Ty) (bs : Bytes) : (readAll ts bs).1.length = ts.length := by
  induction ts generalizing bs with
  | nil => rfl
  | cons t ts ih => simp [readAll, ih]

theorem readAll_suffix (ts : List Ty) (bs : Bytes) : (readAll ts bs).2 <:+ bs := by
  induction ts generalizing bs with
  | nil => exact List.suffix_refl _
  | cons t ts ih => exact List.IsSuffix.trans (ih _) (decBuf_suffix t bs)

/-! ### ReWrite -/

theorem rewrite_in_range (pos : Nat) (p buf : Bytes) (h : pos + p.length ≤ buf.length) :
    rewrite (pos : Int) p buf = some (buf.take pos ++ p ++ buf.drop (pos + p.length)) := by
  unfold rewrite
  have h2 : p.take (buf.length - pos) = p := List.take_of_length_le (by omega)
  simp [h2]
  omega

theorem splice_length (pos : Nat) (p buf : Bytes) (h : pos + p.length ≤ buf.length) :
    (buf.take pos ++ p ++ buf.drop (pos + p.length)).length = buf.length := by
  simp; omega

theorem splice_get_inside (pos : Nat) (p buf : Bytes) (h : pos + p.length ≤ buf.length) (j : Nat) (hj : j < p.length) :
    (buf.take pos ++ p ++ buf.drop (pos + p.length))[pos + j]? = p[j]? := by
  have hl : (buf.take pos).length = pos := by simp; omega
  rw [List.append_assoc, List.getElem?_append_right (by omega), hl, List.getElem?_append_left (by omega)]
  congr 1; omega

theorem splice_get_outside (pos : Nat) (p buf : Bytes) (h : pos + p.length ≤ buf.length) (i : Nat)
    (hi : i < pos ∨ pos + p.length ≤ i) :
    (buf.take pos ++ p ++ buf.drop (pos + p.length))[i]? = buf[i]? := by
  have hl : (buf.take pos).length = pos := by simp; omega
  rcases hi with hi | hi
  · rw [List.append_assoc, List.getElem?_append_left (by omega), List.getElem?_take]
    simp [hi]
  · rw [List.getElem?_append_right (by simp; omega)]
    simp only [List.length_append, hl, List.getElem?_drop]
    congr 1; omega



/-! ### the stream reader -/

/-- the `io.ReadFull` loop delivers exactly the first `n` bytes of the concatenated chunks (or all of them) -/
theorem pull_spec (n : Nat) (cs : List Bytes) :
    (pull n cs).1 = cs.flatten.take n ∧ (pull n cs).2.flatten = cs.flatten.drop n := by
  induction cs generalizing n with
  | nil => simp [pull]
  | cons c rest ih =>
    simp only [pull]
    split
    · rename_i h0; subst h0; simp
    · split
      · rename_i h0 hlt
        obtain ⟨ih1, ih2⟩ := ih (n - c.length)
        constructor
        · simp only [ih1, List.flatten_cons]
          rw [List.take_append, List.take_of_length_le (l := c) (by omega)]
        · simp only [ih2, List.flatten_cons]
          rw [List.drop_append, List.drop_of_length_le (l := c) (by omega)]
          simp
      · rename_i h0 hge
        have hle : n ≤ c.length := by omega
        constructor
        · simp only [List.flatten_cons]
          rw [List.take_append, show n - c.length = 0 by omega]
          simp
        · simp only [List.flatten_cons]
          rw [List.drop_append, show n - c.length = 0 by omega]
          split
          · simp
          · have : c.length = n := by omega
            simp [List.drop_of_length_le (l := c) (Nat.le_of_eq this)]

/-- simulation between a stream result and a buffer result: outcomes agree, the same bytes are left -/
def Sim {α} [DecidableEq α] (r : Out α × Src) (b : Out α × Bytes) : Prop :=
  Out.agree r.1 b.1 = true ∧ r.2.flat = b.2

theorem agree_map {α β} [DecidableEq α] [DecidableEq β] (f : α → β) (a b : Out α) (h : Out.agree a b = true) :
    Out.agree (a.map f) (b.map f) = true := by
  cases a <;> cases b <;> simp_all [Out.agree, Out.map]

theorem Sim.map {α β} [DecidableEq α] [DecidableEq β] (f : α → β) {r : Out α × Src} {b : Out α × Bytes}
    (h : Sim r b) : Sim (r.1.map f, r.2) (b.1.map f, b.2) :=
  ⟨agree_map f _ _ h.1, h.2⟩

theorem flat_mk (e : Bool) (q : List Bytes) (f : Bool) : (Src.mk e q f).flat = q.flatten := rfl

theorem streamRead_sim (c : Cfg) (hc : c.strategy = .full) (n : Nat) (s : Src) :
    Sim (streamRead c n s) (bufRead n s.flat) := by
  obtain ⟨p1, p2⟩ := pull_spec n s.chunks
  have p1' : (pull n s.chunks).1 = s.flat.take n := p1
  have p2' : (pull n s.chunks).2.flatten = s.flat.drop n := p2
  unfold Sim streamRead bufRead
  by_cases h0 : n = 0
  · simp [h0, Out.agree]
  · simp only [h0, if_false, hc]
    rw [p1']
    generalize s.flat = bs at *
    generalize (pull n s.chunks).2 = q at *
    by_cases hlen : bs.length < n
    · have hl : ¬ (bs.take n).length = n := by rw [List.length_take]; omega
      have hd : bs.drop n = [] := List.drop_of_length_le (by omega)
      rw [if_neg hl]
      cases bs with
      | nil => cases hf : s.fail <;> simp [hf, Out.agree, flat_mk, p2']
      | cons a t =>
        have : (List.take n (a :: t)).isEmpty = false := by
          cases n with
          | zero => omega
          | succ n => rfl
        have hlen' : t.length + 1 < n := by simpa using hlen
        cases hf : s.fail <;> simp [hf, this, hlen', Out.agree, flat_mk, p2', hd]
    · have hl : (bs.take n).length = n := by rw [List.length_take]; omega
      rw [if_pos hl]
      cases bs with
      | nil => simp at hlen; omega
      | cons a t =>
        have hlen' : ¬ t.length + 1 < n := by simpa using hlen
        simp [hlen', Out.agree, flat_mk, p2']



theorem bufRead_vs_bufNext (n : Nat) (hn : n ≠ 0) (bs : Bytes) :
    Out.agree (bufRead n bs).1 (bufNext n bs).1 = true ∧ (bufRead n bs).2 = (bufNext n bs).2 := by
  unfold bufRead bufNext
  have hpos : 0 < n := Nat.pos_of_ne_zero hn
  cases bs with
  | nil => simp [hn, hpos, Out.agree]
  | cons a t =>
    by_cases h : t.length + 1 < n
    · simp [hn, h, Out.agree]
    · simp [hn, h, Out.agree]

theorem Out.map_map {α β γ} (f : α → β) (g : β → γ) (o : Out α) : (o.map f).map g = o.map (fun x => g (f x)) := by
  cases o <;> rfl

theorem streamReadN_sim (c : Cfg) (hc : c.strategy = .full) (n : Int) (s : Src) :
    Sim (streamReadN c n s) (if n ≤ 0 then (.err .wrongNum, s.flat) else bufRead n.toNat s.flat) := by
  unfold streamReadN
  by_cases h : n ≤ 0
  · simp [h, Sim, Out.agree]
  · simp only [h, if_false]; exact streamRead_sim c hc _ s

theorem streamZReadN_sim (c : Cfg) (hc : Proved c) (n : Int) (s : Src) :
    Sim (streamZReadN c n s) (if n < 0 then (.err .wrongNum, s.flat) else bufNext n.toNat s.flat) := by
  unfold streamZReadN
  by_cases h0 : n = 0
  · subst h0; simp [hc.2, Sim, Out.agree, bufNext]
  · have hne : ¬ (n = 0 ∧ c.zeroLen = .accept) := fun h => h0 h.1
    simp only [hne, if_false]
    have hs := streamReadN_sim c hc.1 n s
    by_cases hneg : n < 0
    · have : n ≤ 0 := by omega
      simpa [hneg, this] using hs
    · have hpos : ¬ n ≤ 0 := by omega
      simp only [hpos, if_false] at hs
      simp only [hneg, if_false]
      have hb := bufRead_vs_bufNext n.toNat (by omega) s.flat
      refine ⟨?_, hs.2.trans hb.2⟩
      have h1 := hs.1
      have h2 := hb.1
      revert h1 h2
      cases (streamReadN c n s).1 <;> cases (bufRead n.toNat s.flat).1 <;> cases (bufNext n.toNat s.flat).1 <;>
        simp [Out.agree]
      intro h1 h2; exact h1.trans h2

theorem bufReadByte_eq (bs : Bytes) :
    bufReadByte bs = ((bufRead 1 bs).1.map (fun p => p.headD 0), (bufRead 1 bs).2) := by
  cases bs with
  | nil => simp [bufReadByte, bufRead, Out.map]
  | cons a t => simp [bufReadByte, bufRead, Out.map]

theorem Sim.of_eq {α} [DecidableEq α] {r : Out α × Src} {b b' : Out α × Bytes} (h : Sim r b) (e : b = b') : Sim r b' :=
  e ▸ h

/-- the body of a string once its length is known -/
theorem strBody_sim (c : Cfg) (hc : Proved c) (m : Nat) (s : Src) (rest : Bytes) (hs : s.flat = rest) :
    Sim (streamZReadN c (m : Int) s) (bufStrBody m rest) := by
  subst hs
  have h := streamZReadN_sim c hc (m : Int) s
  have hneg : ¬ ((m : Int) < 0) := by omega
  simpa [hneg, bufStrBody] using h

theorem decStream_sim (c : Cfg) (hc : Proved c) (ty : Ty) (hty : ty.streamable = true) (s : Src) :
    Sim (decStream c ty s) (decBuf ty s.flat) := by
  have fixed : ∀ n, Sim (streamFixed c n s) (bufFixed n s.flat) := fun n => (streamRead_sim c hc.1 n s).map leVal
  cases ty with
  | bool => simp only [decStream, decBuf, bufReadByte_eq, Out.map_map]; exact (streamRead_sim c hc.1 1 s).map _
  | u8 => simp only [decStream, decBuf, bufReadByte_eq, Out.map_map]; exact (streamRead_sim c hc.1 1 s).map _
  | u16 => exact (fixed 2).map _
  | i16 => exact (fixed 2).map _
  | u32 => exact (fixed 4).map _
  | i32 => exact (fixed 4).map _
  | u64 => exact (fixed 8).map _
  | i64 => exact (fixed 8).map _
  | f64 => exact (fixed 8).map _
  | varU64 => simp [Ty.streamable] at hty
  | varI64 => simp [Ty.streamable] at hty
  | varU32 => simp [Ty.streamable] at hty
  | varI32 => simp [Ty.streamable] at hty
  | str =>
    have hf := fixed 4
    simp only [decStream, decBuf]
    cases hsf : streamFixed c 4 s with
    | mk o s' =>
      cases hbf : bufFixed 4 s.flat with
      | mk o' r' =>
        rw [hsf, hbf] at hf
        cases o <;> cases o' <;> simp [Sim, Out.agree] at hf
        · rename_i n n'
          obtain ⟨hn, hr⟩ := hf
          subst hn
          exact (strBody_sim c hc _ s' r' hr).map _
        · exact ⟨rfl, hf⟩
  | lstr l =>
    have hf := fixed 4
    simp only [decStream, decBuf]
    cases hsf : streamFixed c 4 s with
    | mk o s' =>
      cases hbf : bufFixed 4 s.flat with
      | mk o' r' =>
        rw [hsf, hbf] at hf
        cases o <;> cases o' <;> simp [Sim, Out.agree] at hf
        · rename_i n n'
          obtain ⟨hn, hr⟩ := hf
          subst hn
          simp only
          split
          · exact ⟨rfl, hr⟩
          · exact (strBody_sim c hc _ s' r' hr).map _
        · exact ⟨rfl, hf⟩
  | read n => exact (streamRead_sim c hc.1 n s).map _
  | readN n =>
    have h := (streamReadN_sim c hc.1 n s).map Val.raw
    simp only [decStream, decBuf]
    by_cases hn : n ≤ 0
    · simpa [hn, Out.map] using h
    · simpa [hn] using h
  | zreadN n =>
    have h := (streamZReadN_sim c hc n s).map Val.raw
    simp only [decStream, decBuf]
    by_cases hn : n < 0
    · simpa [hn, Out.map] using h
    · simpa [hn] using h

theorem readAllStream_sim (c : Cfg) (hc : Proved c) (ts : List Ty) (hts : ∀ t ∈ ts, t.streamable = true) (s : Src) :
    agreeAll (readAllStream c ts s).1 (readAll ts s.flat).1 = true ∧
    (readAllStream c ts s).2.flat = (readAll ts s.flat).2 := by
  induction ts generalizing s with
  | nil => simp [readAllStream, readAll, agreeAll]
  | cons t ts ih =>
    have h1 := decStream_sim c hc t (hts t (by simp)) s
    have h2 := ih (fun u hu => hts u (by simp [hu])) (decStream c t s).2
    rw [h1.2] at h2
    simp only [readAllStream, readAll, agreeAll]
    exact ⟨by simp [h1.1, h2.1], h2.2⟩

theorem agree_symm_trans {α} [DecidableEq α] (a b c : Out α) (h1 : Out.agree a b = true) (h2 : Out.agree c b = true) :
    Out.agree a c = true := by
  cases a <;> cases b <;> cases c <;> simp_all [Out.agree]

theorem uvarintEncF_length_le (f x : Nat) : (uvarintEncF f x).length ≤ f + 1 := by
  induction f generalizing x with
  | zero => simp [uvarintEncF]
  | succ f ih =>
    simp only [uvarintEncF]
    split
    · simp
    · simp; exact ih _

/-- the loop bound of `uvarintEncF` is never what stops it: once the fuel covers the value, more fuel changes nothing -/
theorem uvarintEncF_fuel_succ (f : Nat) : ∀ x, x < 2 * 128 ^ f → uvarintEncF (f + 1) x = uvarintEncF f x := by
  induction f with
  | zero =>
    intro x hx
    have : x < 128 := by simp at hx; omega
    simp [uvarintEncF, this]
  | succ f ih =>
    intro x hx
    by_cases hlt : x < 128
    · simp [uvarintEncF, hlt]
    · have hdiv : x / 128 < 2 * 128 ^ f := by
        apply Nat.div_lt_of_lt_mul
        rw [Nat.pow_succ] at hx
        omega
      have := ih (x / 128) hdiv
      rw [uvarintEncF, if_neg hlt, this]
      conv => rhs; rw [uvarintEncF, if_neg hlt]

theorem uvarintEncF_fuel (x : UInt64) (k : Nat) : uvarintEncF (9 + k) x.toNat = uvarintEnc x := by
  induction k with
  | zero => rfl
  | succ k ih =>
    have hx : x.toNat < 2 * 128 ^ (9 + k) := by
      have h1 := x.toNat_lt
      have h2 : 128 ^ 9 ≤ 128 ^ (9 + k) := Nat.pow_le_pow_right (by omega) (by omega)
      omega
    rw [← ih, ← uvarintEncF_fuel_succ (9 + k) x.toNat hx]; rfl

/-! ### histories -/
theorem history_refines_fifo (ops : List BOp) (hops : ∀ o ∈ ops, o.valid) (q : List Val) (hq : ∀ v ∈ q, Valid v) :
    history (q.flatMap enc) q ops = ((fifoSpec q ops).1.map .ok, (fifoSpec q ops).2.flatMap enc) := by
  induction ops generalizing q with
  | nil => simp [history, fifoSpec]
  | cons o ops ih =>
    have hrest : ∀ o' ∈ ops, o'.valid := fun o' h => hops o' (by simp [h])
    cases o with
    | w v =>
      have hv : Valid v := hops (.w v) (by simp)
      have hw := writeOk_of_valid v hv
      simp only [history, fifoSpec, write, hw, if_true]
      have := ih hrest (q ++ [v]) (by intro u hu; simp at hu; rcases hu with hu | hu; exact hq u hu; exact hu ▸ hv)
      simpa using this
    | r =>
      cases q with
      | nil => simpa [history, fifoSpec] using ih hrest [] (by simp)
      | cons v q =>
        have hv : Valid v := hq v (by simp)
        have h1 : decBuf (tyOf v) ((v :: q).flatMap enc) = (.ok v, q.flatMap enc) := by
          simpa using roundtrip_one v (q.flatMap enc) hv
        simp only [history, fifoSpec, h1]
        rw [ih hrest q (fun u hu => hq u (by simp [hu]))]
        simp


/-- with the `ErrUnexpectedEOF → ErrByteBufferEmpty` mapping the raw read agrees with the buffer also in the error kind -/
theorem streamRead_exact (c : Cfg) (hc : c.strategy = .full) (hm : c.mapShort = true) (n : Nat) (s : Src)
    (hnf : s.fail = false) : (streamRead c n s).1 = (bufRead n s.flat).1 := by
  obtain ⟨p1, p2⟩ := pull_spec n s.chunks
  have p1' : (pull n s.chunks).1 = s.flat.take n := p1
  unfold streamRead bufRead
  by_cases h0 : n = 0
  · simp [h0]
  · simp only [h0, if_false, hc, hm, if_true, hnf]
    rw [p1']
    generalize s.flat = bs at *
    by_cases hlen : bs.length < n
    · have hl : ¬ (bs.take n).length = n := by rw [List.length_take]; omega
      rw [if_neg hl]
      cases bs with
      | nil => simp
      | cons a t =>
        have : (List.take n (a :: t)).isEmpty = false := by
          cases n with
          | zero => omega
          | succ n => rfl
        have hlen' : t.length + 1 < n := by simpa using hlen
        simp [this, hlen']
    · have hl : (bs.take n).length = n := by rw [List.length_take]; omega
      rw [if_pos hl]
      cases bs with
      | nil => simp at hlen; omega
      | cons a t =>
        have hlen' : ¬ t.length + 1 < n := by simpa using hlen
        simp [hlen']

theorem decStream_exact (c : Cfg) (hc : c.strategy = .full) (hm : c.mapShort = true) (ty : Ty)
    (hty : ty.fixedLike = true) (s : Src) (hnf : s.fail = false) : (decStream c ty s).1 = (decBuf ty s.flat).1 := by
  have hr := fun n => streamRead_exact c hc hm n s hnf
  cases ty <;> simp [Ty.fixedLike] at hty <;>
    simp only [decStream, decBuf, streamFixed, bufFixed, bufReadByte_eq, Out.map_map, hr, streamReadN]
  case readN n =>
    by_cases hn : n ≤ 0
    · simp [hn, Out.map]
    · simp [hn, hr]

/-! ### panicking primitives; raw readers; truncated lists -/

theorem goInt64 (n : Nat) (h : n < 2 ^ 32) : goInt 64 n = (n : Int) := by
  have : n < 2 ^ (64 - 1) := by omega
  simp [goInt, this]

theorem nextChecked_nat (k : Nat) (bs : Bytes) : nextChecked (k : Int) bs = some (bufNext k bs) := by
  have hneg : ¬ ((k : Int) < 0) := by omega
  simp only [nextChecked, goNext, hneg, if_false, Option.map_some, Int.toNat_natCast, bufNext]
  by_cases h : bs.length < k
  · have h1 : ((bs.take k).length : Int) ≠ (k : Int) := by rw [List.length_take]; omega
    rw [if_pos h1, if_pos h, List.drop_of_length_le (Nat.le_of_lt h)]
  · have h1 : ¬ ((bs.take k).length : Int) ≠ (k : Int) := by rw [List.length_take]; omega
    rw [if_neg h1, if_neg h]

theorem decBufP_eq (ty : Ty) (bs : Bytes) : decBufP 64 ty bs = some (decBuf ty bs) := by
  cases ty with
  | str =>
    simp only [decBufP, decBuf]
    split
    · rfl
    · rename_i n rest _
      rw [goInt64 _ (Nat.mod_lt _ (by decide)), nextChecked_nat]; rfl
  | lstr l =>
    simp only [decBufP, decBuf]
    split
    · rfl
    · rename_i n rest _
      split
      · rfl
      · rw [goInt64 _ (Nat.mod_lt _ (by decide)), nextChecked_nat]; rfl
  | readN n =>
    simp only [decBufP, decBuf]
    split
    · rfl
    · rename_i h
      have : ¬ n < 0 := by omega
      simp [goMake, this]
  | zreadN n =>
    simp only [decBufP, decBuf]
    split
    · rfl
    · rename_i h
      have hn : ((n.toNat : Nat) : Int) = n := Int.toNat_of_nonneg (by omega)
      have := nextChecked_nat n.toNat bs
      rw [hn] at this
      rw [this]; rfl
  | _ => rfl

theorem streamReadNP_eq (c : Cfg) (n : Int) (s : Src) : streamReadNP c n s = some (streamReadN c n s) := by
  unfold streamReadNP streamReadN
  split
  · rfl
  · rename_i h
    have : ¬ n < 0 := by omega
    simp [goMake, this]

theorem rewrite_none_iff (pos : Int) (p buf : Bytes) : rewrite pos p buf = none ↔ (pos < 0 ∨ pos > buf.length) := by
  unfold rewrite
  split <;> simp_all

/-! raw bytes through the three raw readers -/
theorem raw_roundtrip_readN (p rest : Bytes) (h : p ≠ []) :
    decBuf (.readN p.length) (p ++ rest) = (.ok (.raw p), rest) := by
  have hl : ¬ ((p.length : Int) ≤ 0) := by
    have : p.length ≠ 0 := fun h0 => h (List.length_eq_zero_iff.1 h0)
    omega
  simp only [decBuf, hl, if_false, Int.toNat_natCast, bufRead_append p.length p rest rfl, Out.map]

theorem raw_roundtrip_zreadN (p rest : Bytes) :
    decBuf (.zreadN p.length) (p ++ rest) = (.ok (.raw p), rest) := by
  have hl : ¬ ((p.length : Int) < 0) := by omega
  simp [decBuf, hl, bufNext_append p.length p rest rfl, Out.map]

/-! truncation of the encoding of a list of values -/
theorem truncated_list (vs : List Val) (h : ∀ v ∈ vs, Valid v) (n : Nat) (hn : n < (vs.flatMap enc).length) :
    ∃ pre v post e tail, vs = pre ++ v :: post ∧
      (pre.flatMap enc).length ≤ n ∧ n < (pre.flatMap enc).length + (enc v).length ∧
      (readAll (vs.map tyOf) ((vs.flatMap enc).take n)).1 = pre.map .ok ++ .err e :: tail := by
  induction vs generalizing n with
  | nil => simp at hn
  | cons v vs ih =>
    have hv := h v (by simp)
    simp only [List.flatMap_cons, List.length_append] at hn
    by_cases hlt : n < (enc v).length
    · obtain ⟨e, he⟩ := truncated_one v n hv hlt
      refine ⟨[], v, vs, e, (readAll (vs.map tyOf) (decBuf (tyOf v) ((enc v).take n)).2).1, rfl, by simp, by simpa using hlt, ?_⟩
      simp only [List.flatMap_cons, List.map_cons, readAll, List.map_nil, List.nil_append]
      rw [List.take_append_of_le_length (Nat.le_of_lt hlt), he]
    · have hge : (enc v).length ≤ n := by omega
      obtain ⟨pre, w, post, e, tail, hvs, h1, h2, hr⟩ :=
        ih (fun u hu => h u (by simp [hu])) (n - (enc v).length) (by omega)
      refine ⟨v :: pre, w, post, e, tail, by simp [hvs], by simp only [List.flatMap_cons, List.length_append]; omega, by simp only [List.flatMap_cons, List.length_append]; omega, ?_⟩
      simp only [List.flatMap_cons, List.map_cons, readAll]
      rw [List.take_append, List.take_of_length_le hge, roundtrip_one v _ hv]
      simp only [hr, List.cons_append]

/-! ### pattern digests, self-aliasing ReWrite, stream round trip of lists -/

theorem digestPatLoop_eq (seed : Nat) : ∀ (k i h : Nat),
    digestPatLoop seed k i h = ((List.range' i k).map (patByte seed)).foldl digestStep h := by
  intro k
  induction k with
  | zero => intro i h; simp [digestPatLoop]
  | succ k ih => intro i h; simp [digestPatLoop, ih, List.range'_succ]

/-- the index loop computes the digest of the materialised pattern -/
theorem digestPat_eq (seed n : Nat) : digestPat seed n = digest (pat seed n) := by
  simp [digestPat, digest, pat, digestPatLoop_eq, List.range_eq_range']

theorem pat_length (seed n : Nat) : (pat seed n).length = n := by simp [pat]

theorem rewriteSelf_in_range (pos frm to : Nat) (buf : Bytes) (h1 : frm ≤ to) (h2 : to ≤ buf.length)
    (h3 : pos + (to - frm) ≤ buf.length) :
    ∃ buf', rewriteSelf (pos : Int) frm to buf = some buf' ∧ buf'.length = buf.length ∧
      (∀ j, j < to - frm → buf'[pos + j]? = buf[frm + j]?) ∧
      (∀ i, i < pos ∨ pos + (to - frm) ≤ i → buf'[i]? = buf[i]?) := by
  have hl : ((buf.take to).drop frm).length = to - frm := by simp; omega
  refine ⟨_, rewrite_in_range pos _ buf (by omega), splice_length pos _ buf (by omega), ?_, ?_⟩
  · intro j hj
    rw [splice_get_inside pos _ buf (by omega) j (by omega)]
    rw [List.getElem?_drop, List.getElem?_take]
    have : frm + j < to := by omega
    simp [this]
  · intro i hi
    exact splice_get_outside pos _ buf (by omega) i (by omega)

theorem agreeAll_ok (xs : List (Out Val)) (vs : List Val) (h : agreeAll xs (vs.map .ok) = true) : xs = vs.map .ok := by
  induction vs generalizing xs with
  | nil => cases xs <;> simp_all [agreeAll]
  | cons v vs ih =>
    cases xs with
    | nil => simp [agreeAll] at h
    | cons x xs =>
      simp only [List.map_cons, agreeAll, Bool.and_eq_true] at h
      have hx : x = .ok v := by
        cases x with
        | ok a => simp [Out.agree] at h; rw [h.1]
        | err e => simp [Out.agree] at h
      rw [hx, ih xs h.2]; rfl

/-- a stream carrying the encodings of a list of values, however fragmented, reads them all back and is then exhausted -/
theorem stream_roundtrip_list (c : Cfg) (hc : Proved c) (vs : List Val) (hv : ∀ v ∈ vs, Valid v)
    (hs : ∀ v ∈ vs, (tyOf v).streamable = true) (s : Src) (hflat : s.flat = vs.flatMap enc) :
    (readAllStream c (vs.map tyOf) s).1 = vs.map .ok ∧ (readAllStream c (vs.map tyOf) s).2.flat = [] := by
  have hts : ∀ t ∈ vs.map tyOf, t.streamable = true := by
    intro t ht; obtain ⟨v, hvm, rfl⟩ := List.mem_map.1 ht; exact hs v hvm
  obtain ⟨a, r⟩ := readAllStream_sim c hc (vs.map tyOf) hts s
  have hb := readAll_roundtrip vs [] hv
  rw [List.append_nil] at hb
  rw [hflat, hb] at a r
  exact ⟨agreeAll_ok _ _ a, r⟩

/-! ### overflowing varints; failing sources -/

/-- `k` continuation bytes with `k` iterations left: the loop ends with the overflow error -/
theorem uvarintDecF_all_continuation (cs : Bytes) (hc : ∀ b ∈ cs, 128 ≤ b.toNat) (acc mul : Nat) (rest : Bytes) :
    uvarintDecF cs.length acc mul (cs ++ rest) = (.err .overflow, rest) := by
  induction cs generalizing acc mul with
  | nil => simp [uvarintDecF]
  | cons b cs ih =>
    have hb : ¬ b.toNat < 128 := by have := hc b (by simp); omega
    simp only [List.length_cons, List.cons_append, uvarintDecF, hb, if_false]
    exact ih (fun x hx => hc x (by simp [hx])) _ _

/-- ten continuation bytes (`0xFF…`, `0x80…`): `ReadUvarint` reports overflow after consuming exactly those ten -/
theorem uvarint_ten_continuation_overflows (cs rest : Bytes) (hl : cs.length = 10) (hc : ∀ b ∈ cs, 128 ≤ b.toNat) :
    uvarintDec (cs ++ rest) = (.err .overflow, rest) := by
  have := uvarintDecF_all_continuation cs hc 0 1 rest
  rw [hl] at this
  simp [uvarintDec, this, Out.map]

theorem uvarintDecF_last_byte_overflow (cs : Bytes) (hc : ∀ b ∈ cs, 128 ≤ b.toNat) (b : UInt8) (h1 : b.toNat < 128)
    (h2 : 1 < b.toNat) (acc mul : Nat) (rest : Bytes) :
    uvarintDecF (cs.length + 1) acc mul (cs ++ b :: rest) = (.err .overflow, rest) := by
  induction cs generalizing acc mul with
  | nil => simp [uvarintDecF, h1, h2]
  | cons c cs ih =>
    have hb : ¬ c.toNat < 128 := by have := hc c (by simp); omega
    simp only [List.length_cons, List.cons_append, uvarintDecF, hb, if_false]
    exact ih (fun x hx => hc x (by simp [hx])) _ _

/-- nine continuation bytes and a tenth byte above 1: more than 64 bits — overflow -/
theorem uvarint_tenth_byte_overflows (cs rest : Bytes) (b : UInt8) (hl : cs.length = 9) (hc : ∀ x ∈ cs, 128 ≤ x.toNat)
    (h1 : b.toNat < 128) (h2 : 1 < b.toNat) : uvarintDec (cs ++ b :: rest) = (.err .overflow, rest) := by
  have := uvarintDecF_last_byte_overflow cs hc b h1 h2 0 1 rest
  rw [hl] at this
  simp [uvarintDec, this, Out.map]

/-- all four BufferX varint readers report the overflow (never a value) -/
theorem decBuf_varint_overflow (ty : Ty) (hty : ty.isVarint = true) (bs rest : Bytes)
    (h : uvarintDec bs = (.err .overflow, rest)) : decBuf ty bs = (.err .overflow, rest) := by
  cases ty <;> simp [Ty.isVarint] at hty <;> simp [decBuf, varintDec, h, Out.map]

/-! a source that fails -/

theorem streamRead_source_failure (c : Cfg) (hc : c.strategy = .full) (n : Nat) (s : Src) (hf : s.fail = true)
    (hn : s.flat.length < n) : (streamRead c n s).1 = .err .io := by
  obtain ⟨p1, _⟩ := pull_spec n s.chunks
  have p1' : (pull n s.chunks).1 = s.flat.take n := p1
  have h0 : n ≠ 0 := by omega
  have hl : ¬ min n s.flat.length = n := by omega
  simp [streamRead, h0, hc, p1', hl, hf]

theorem agree_ok_left {α} [DecidableEq α] (a b : Out α) (v : α) (h : Out.agree a b = true) (ha : a = .ok v) : b = .ok v := by
  subst ha
  cases b <;> simp_all [Out.agree]

theorem agree_err_right {α} [DecidableEq α] (a b : Out α) (e : Err) (h : Out.agree a b = true) (hb : b = .err e) :
    ∃ e', a = .err e' := by
  subst hb
  cases a with
  | ok v => simp [Out.agree] at h
  | err e' => exact ⟨e', rfl⟩

end Nv.C10
