import Nv.Model.C02
/-!
C02 — the inductive invariant of the keylock transition system (for `Proved` configurations).
-/
namespace Nv.C02

/-- (key, object, mode) triples a thread is registered on but does not hold yet -/
def pend : Phase → List (Key × ObjId × Mode)
  | .reg m _ _ acc => acc.map (fun e => (e.1, e.2, m))
  | .acq m _ todo => todo.map (fun e => (e.1, e.2, m))
  | _ => []

/-- keys of the current call not yet registered -/
def future : Phase → List Key
  | .reg _ _ gs _ => gs.flatten
  | _ => []

/-- everything a thread is registered on: held or still to be locked -/
def refs (th : Thread) : List (Key × ObjId × Mode) := th.held ++ pend th.phase

def allKeys (th : Thread) : List Key := (refs th).map (·.1) ++ future th.phase

structure Inv (s : State) : Prop where
  fresh : ∀ o, s.next ≤ o → s.objs o = Wrap.empty
  tRange : ∀ k o, s.table k = some o → o < s.next
  tInj : ∀ k1 k2 o, s.table k1 = some o → s.table k2 = some o → k1 = k2
  refTab : ∀ t k o m, (k, o, m) ∈ refs (s.th t) → s.table k = some o
  regW : ∀ t o, t ∈ (s.objs o).regW ↔ ∃ k, (k, o, Mode.w) ∈ refs (s.th t)
  regR : ∀ t o, t ∈ (s.objs o).regR ↔ ∃ k, (k, o, Mode.r) ∈ refs (s.th t)
  ndW : ∀ o, (s.objs o).regW.Nodup
  ndR : ∀ o, (s.objs o).regR.Nodup
  cntW : ∀ o, (s.objs o).wc = (s.objs o).regW.length
  cntR : ∀ o, (s.objs o).rc = (s.objs o).regR.length
  holdW : ∀ t o, (s.objs o).writer = some t ↔ ∃ k, (k, o, Mode.w) ∈ (s.th t).held
  holdR : ∀ t o, t ∈ (s.objs o).readers ↔ ∃ k, (k, o, Mode.r) ∈ (s.th t).held
  rdNd : ∀ o, (s.objs o).readers.Nodup
  keysNd : ∀ t, (allKeys (s.th t)).Nodup
  relOk : ∀ t m gs, (s.th t).phase = .rel m gs → gs.flatten.Nodup ∧ ∀ k ∈ gs.flatten, ∃ o, (k, o, m) ∈ (s.th t).held
  acqAll : ∀ t m all todo, (s.th t).phase = .acq m all todo → ∀ k ∈ all, k ∈ todo.map (·.1) ∨ holdsIn (s.th t) m k
  regAll : ∀ t m all gs acc, (s.th t).phase = .reg m all gs acc → ∀ k ∈ all, k ∈ gs.flatten ∨ k ∈ acc.map (·.1)
  wOk : ∀ o t, (s.objs o).writer = some t → (s.objs o).wOwner = some t ∧ (s.objs o).readers = [] ∧ (s.objs o).tokens = 0
  noFault : s.fault = false
  tabLive : ∀ k o, s.table k = some o → (s.objs o).regW ≠ [] ∨ (s.objs o).regR ≠ []

theorem inv_init : Inv State.init := by
  constructor <;> simp [State.init, Wrap.empty, Thread.init, refs, pend, allKeys, future]


@[simp] theorem setTh_objs (s : State) (t : Tid) (x : Thread) : (setTh s t x).objs = s.objs := rfl
@[simp] theorem setTh_table (s : State) (t : Tid) (x : Thread) : (setTh s t x).table = s.table := rfl
@[simp] theorem setTh_next (s : State) (t : Tid) (x : Thread) : (setTh s t x).next = s.next := rfl
@[simp] theorem setTh_fault (s : State) (t : Tid) (x : Thread) : (setTh s t x).fault = s.fault := rfl
@[simp] theorem setTh_th_same (s : State) (t : Tid) (x : Thread) : (setTh s t x).th t = x := by simp [setTh]
theorem setTh_th_other (s : State) (t u : Tid) (x : Thread) (h : u ≠ t) : (setTh s t x).th u = s.th u := by
  simp [setTh, upd, h]

/-- a purely thread-local step: same holdings, same registrations -/
theorem inv_setTh {s : State} (hI : Inv s) (t : Tid) (th' : Thread)
    (hheld : th'.held = (s.th t).held)
    (hrefs : ∀ e, e ∈ refs th' ↔ e ∈ refs (s.th t))
    (hnd : (allKeys th').Nodup)
    (hrel : ∀ m gs, th'.phase = .rel m gs → gs.flatten.Nodup ∧ ∀ k ∈ gs.flatten, ∃ o, (k, o, m) ∈ th'.held)
    (hacq : ∀ m all todo, th'.phase = .acq m all todo → ∀ k ∈ all, k ∈ todo.map (·.1) ∨ holdsIn th' m k)
    (hreg : ∀ m all gs acc, th'.phase = .reg m all gs acc → ∀ k ∈ all, k ∈ gs.flatten ∨ k ∈ acc.map (·.1)) :
    Inv (setTh s t th') := by
  have hth : ∀ u, (setTh s t th').th u = if u = t then th' else s.th u := by
    intro u; by_cases h : u = t
    · subst h; simp
    · simp [setTh_th_other _ _ _ _ h, h]
  constructor
  · exact hI.fresh
  · exact hI.tRange
  · exact hI.tInj
  · intro u k o m h
    rw [hth] at h
    split at h
    · next e => subst e; exact hI.refTab _ k o m ((hrefs _).1 h)
    · exact hI.refTab u k o m h
  · intro u o
    rw [hth]; split
    · next e => subst e; simp only [setTh_objs, hI.regW, hrefs]
    · exact hI.regW u o
  · intro u o
    rw [hth]; split
    · next e => subst e; simp only [setTh_objs, hI.regR, hrefs]
    · exact hI.regR u o
  · exact hI.ndW
  · exact hI.ndR
  · exact hI.cntW
  · exact hI.cntR
  · intro u o
    rw [hth]; split
    · next e => subst e; simp only [setTh_objs, hI.holdW, hheld]
    · exact hI.holdW u o
  · intro u o
    rw [hth]; split
    · next e => subst e; simp only [setTh_objs, hI.holdR, hheld]
    · exact hI.holdR u o
  · exact hI.rdNd
  · intro u; rw [hth]; split
    · exact hnd
    · exact hI.keysNd u
  · intro u m gs; rw [hth]; split
    · exact hrel m gs
    · exact hI.relOk u m gs
  · intro u m all todo; rw [hth]; split
    · exact hacq m all todo
    · exact hI.acqAll u m all todo
  · intro u m all gs acc; rw [hth]; split
    · exact hreg m all gs acc
    · exact hI.regAll u m all gs acc
  · exact hI.wOk
  · exact hI.noFault
  · exact hI.tabLive


@[simp] theorem setObj_table (s : State) (o : ObjId) (w : Wrap) : (setObj s o w).table = s.table := rfl
@[simp] theorem setObj_next (s : State) (o : ObjId) (w : Wrap) : (setObj s o w).next = s.next := rfl
@[simp] theorem setObj_fault (s : State) (o : ObjId) (w : Wrap) : (setObj s o w).fault = s.fault := rfl
@[simp] theorem setObj_th (s : State) (o : ObjId) (w : Wrap) : (setObj s o w).th = s.th := rfl
theorem setObj_objs (s : State) (o o' : ObjId) (w : Wrap) :
    (setObj s o w).objs o' = if o' = o then w else s.objs o' := rfl

/-- a step inside `rwLocker.Lock/RLock` that only queues the caller or takes `rw.w` -/
theorem inv_setObj {s : State} (hI : Inv s) (o : ObjId) (w1 : Wrap) (ho : o < s.next)
    (h1 : w1.regW = (s.objs o).regW) (h2 : w1.regR = (s.objs o).regR)
    (h3 : w1.rc = (s.objs o).rc) (h4 : w1.wc = (s.objs o).wc)
    (h5 : w1.writer = (s.objs o).writer) (h6 : w1.readers = (s.objs o).readers)
    (hw : ∀ t, w1.writer = some t → w1.wOwner = some t ∧ w1.readers = [] ∧ w1.tokens = 0) :
    Inv (setObj s o w1) := by
  have hobj : ∀ o', (setObj s o w1).objs o' = if o' = o then w1 else s.objs o' := fun o' => rfl
  constructor
  · intro o' h; rw [hobj]; split
    · next e => subst e; exact absurd h (Nat.not_le.2 ho)
    · exact hI.fresh o' h
  · exact hI.tRange
  · exact hI.tInj
  · exact hI.refTab
  · intro t o'; rw [hobj]; split
    · next e => subst e; rw [h1]; exact hI.regW t o'
    · exact hI.regW t o'
  · intro t o'; rw [hobj]; split
    · next e => subst e; rw [h2]; exact hI.regR t o'
    · exact hI.regR t o'
  · intro o'; rw [hobj]; split
    · next e => subst e; rw [h1]; exact hI.ndW o'
    · exact hI.ndW o'
  · intro o'; rw [hobj]; split
    · next e => subst e; rw [h2]; exact hI.ndR o'
    · exact hI.ndR o'
  · intro o'; rw [hobj]; split
    · next e => subst e; rw [h1, h4]; exact hI.cntW o'
    · exact hI.cntW o'
  · intro o'; rw [hobj]; split
    · next e => subst e; rw [h2, h3]; exact hI.cntR o'
    · exact hI.cntR o'
  · intro t o'; rw [hobj]; split
    · next e => subst e; rw [h5]; exact hI.holdW t o'
    · exact hI.holdW t o'
  · intro t o'; rw [hobj]; split
    · next e => subst e; rw [h6]; exact hI.holdR t o'
    · exact hI.holdR t o'
  · intro o'; rw [hobj]; split
    · next e => subst e; rw [h6]; exact hI.rdNd o'
    · exact hI.rdNd o'
  · exact hI.keysNd
  · exact hI.relOk
  · exact hI.acqAll
  · exact hI.regAll
  · intro o' t; rw [hobj]; split
    · exact hw t
    · exact hI.wOk o' t
  · exact hI.noFault
  · intro k' o' h; rw [hobj]; split
    · next e => subst e; rw [h1, h2]; exact hI.tabLive k' o' h
    · exact hI.tabLive k' o' h


theorem advance_acq {th : Thread} {m all k o rest} (h : th.phase = .acq m all ((k, o) :: rest)) :
    advance th = ⟨.acq m all rest, (k, o, m) :: th.held⟩ := by
  simp [advance, h]

theorem mem_refs_acq {th : Thread} {m all todo} (h : th.phase = .acq m all todo) (e : Key × ObjId × Mode) :
    e ∈ refs th ↔ e ∈ th.held ∨ ∃ p ∈ todo, e = (p.1, p.2, m) := by
  simp only [refs, h, pend, List.mem_append, List.mem_map]
  constructor
  · rintro (h | ⟨p, hp, rfl⟩)
    · exact .inl h
    · exact .inr ⟨p, hp, rfl⟩
  · rintro (h | ⟨p, hp, rfl⟩)
    · exact .inl h
    · exact .inr ⟨p, hp, rfl⟩

/-- the caller obtains the lock on the head of its todo list -/
theorem inv_enter {s : State} (hI : Inv s) (t : Tid) (m : Mode) (all : List Key) (k : Key) (o : ObjId)
    (rest : List (Key × ObjId)) (hph : (s.th t).phase = .acq m all ((k, o) :: rest)) (w1 : Wrap)
    (h1 : w1.regW = (s.objs o).regW) (h2 : w1.regR = (s.objs o).regR)
    (h3 : w1.rc = (s.objs o).rc) (h4 : w1.wc = (s.objs o).wc)
    (hW : ∀ u, w1.writer = some u ↔ ((s.objs o).writer = some u ∨ (m = .w ∧ u = t)))
    (hR : ∀ u, u ∈ w1.readers ↔ (u ∈ (s.objs o).readers ∨ (m = .r ∧ u = t)))
    (hRnd : w1.readers.Nodup)
    (hw : ∀ u, w1.writer = some u → w1.wOwner = some u ∧ w1.readers = [] ∧ w1.tokens = 0) :
    Inv (setTh (setObj s o w1) t (advance (s.th t))) := by
  rw [advance_acq hph]
  have hobj : ∀ o', (setTh (setObj s o w1) t ⟨.acq m all rest, (k, o, m) :: (s.th t).held⟩).objs o' =
      if o' = o then w1 else s.objs o' := fun o' => rfl
  have hth : ∀ u, (setTh (setObj s o w1) t ⟨.acq m all rest, (k, o, m) :: (s.th t).held⟩).th u =
      if u = t then ⟨.acq m all rest, (k, o, m) :: (s.th t).held⟩ else s.th u := by
    intro u; by_cases h : u = t
    · subst h; simp
    · simp [setTh_th_other _ _ _ _ h, h]
  have hrefs : ∀ e, e ∈ refs (⟨.acq m all rest, (k, o, m) :: (s.th t).held⟩ : Thread) ↔ e ∈ refs (s.th t) := by
    intro e
    rw [mem_refs_acq hph, mem_refs_acq (th := ⟨.acq m all rest, (k, o, m) :: (s.th t).held⟩) rfl]
    simp only [List.mem_cons]
    constructor
    · rintro ((rfl | h) | ⟨p, hp, rfl⟩)
      · exact .inr ⟨(k, o), .inl rfl, rfl⟩
      · exact .inl h
      · exact .inr ⟨p, .inr hp, rfl⟩
    · rintro (h | ⟨p, (rfl | hp), rfl⟩)
      · exact .inl (.inr h)
      · exact .inl (.inl rfl)
      · exact .inr ⟨p, hp, rfl⟩
  have hhead : (k, o, m) ∈ refs (s.th t) := (mem_refs_acq hph _).2 (.inr ⟨(k, o), by simp, rfl⟩)
  have ho : o < s.next := hI.tRange k o (hI.refTab t k o m hhead)
  constructor
  · intro o' h; rw [hobj]; split
    · next e => subst e; exact absurd h (Nat.not_le.2 ho)
    · exact hI.fresh o' h
  · exact hI.tRange
  · exact hI.tInj
  · intro u k' o' m' h
    rw [hth] at h; split at h
    · next e => subst e; exact hI.refTab _ k' o' m' ((hrefs _).1 h)
    · exact hI.refTab u k' o' m' h
  · intro u o'
    rw [hobj, hth]
    have : (∃ k', (k', o', Mode.w) ∈ refs (if u = t then (⟨.acq m all rest, (k, o, m) :: (s.th t).held⟩ : Thread) else s.th u)) ↔
        ∃ k', (k', o', Mode.w) ∈ refs (s.th u) := by
      split
      · next e => subst e; simp only [hrefs]
      · rfl
    rw [this]; split
    · next e => subst e; rw [h1]; exact hI.regW u o'
    · exact hI.regW u o'
  · intro u o'
    rw [hobj, hth]
    have : (∃ k', (k', o', Mode.r) ∈ refs (if u = t then (⟨.acq m all rest, (k, o, m) :: (s.th t).held⟩ : Thread) else s.th u)) ↔
        ∃ k', (k', o', Mode.r) ∈ refs (s.th u) := by
      split
      · next e => subst e; simp only [hrefs]
      · rfl
    rw [this]; split
    · next e => subst e; rw [h2]; exact hI.regR u o'
    · exact hI.regR u o'
  · intro o'; rw [hobj]; split
    · next e => subst e; rw [h1]; exact hI.ndW o'
    · exact hI.ndW o'
  · intro o'; rw [hobj]; split
    · next e => subst e; rw [h2]; exact hI.ndR o'
    · exact hI.ndR o'
  · intro o'; rw [hobj]; split
    · next e => subst e; rw [h1, h4]; exact hI.cntW o'
    · exact hI.cntW o'
  · intro o'; rw [hobj]; split
    · next e => subst e; rw [h2, h3]; exact hI.cntR o'
    · exact hI.cntR o'
  · intro u o'
    rw [hobj, hth]
    by_cases e1 : o' = o
    · subst e1
      by_cases e2 : u = t
      · subst e2
        simp only [if_true, List.mem_cons]
        rw [hW, hI.holdW u o']
        cases m
        · simp
          
          
        · constructor
          · intro _; exact ⟨k, .inl rfl⟩
          · intro _; exact .inr ⟨rfl, rfl⟩
      · simp only [e2, if_true, if_false]
        rw [hW, hI.holdW u o']; simp [e2]
    · simp only [e1, if_false]
      by_cases e2 : u = t
      · subst e2; simp only [if_true, List.mem_cons]
        rw [hI.holdW u o']
        constructor
        · rintro ⟨k', h⟩; exact ⟨k', .inr h⟩
        · rintro ⟨k', h | h⟩
          · exact absurd (by simpa using congrArg (fun x => x.2.1) h) e1
          · exact ⟨k', h⟩
      · simp only [e2, if_false]; exact hI.holdW u o'
  · intro u o'
    rw [hobj, hth]
    by_cases e1 : o' = o
    · subst e1
      by_cases e2 : u = t
      · subst e2
        simp only [if_true, List.mem_cons]
        rw [hR, hI.holdR u o']
        cases m
        · constructor
          · intro _; exact ⟨k, .inl rfl⟩
          · intro _; exact .inr ⟨rfl, rfl⟩
        · simp
          
          
      · simp only [e2, if_true, if_false]
        rw [hR, hI.holdR u o']; simp [e2]
    · simp only [e1, if_false]
      by_cases e2 : u = t
      · subst e2; simp only [if_true, List.mem_cons]
        rw [hI.holdR u o']
        constructor
        · rintro ⟨k', h⟩; exact ⟨k', .inr h⟩
        · rintro ⟨k', h | h⟩
          · exact absurd (by simpa using congrArg (fun x => x.2.1) h) e1
          · exact ⟨k', h⟩
      · simp only [e2, if_false]; exact hI.holdR u o'
  · intro o'; rw [hobj]; split
    · exact hRnd
    · exact hI.rdNd o'
  · intro u; rw [hth]; split
    · have := hI.keysNd t
      simp only [allKeys, refs, hph, pend, future, List.map_append, List.map_cons, List.map_map, List.append_nil] at this ⊢
      simp only [List.cons_append]
      exact (List.perm_middle.nodup_iff).1 this
    · exact hI.keysNd u
  · intro u m' gs; rw [hth]; split
    · intro h; cases h
    · exact hI.relOk u m' gs
  · intro u m' all' todo; rw [hth]; split
    · intro h k' hk'
      cases h
      rcases hI.acqAll t m all ((k, o) :: rest) hph k' hk' with h | h
      · simp only [List.map_cons, List.mem_cons] at h
        rcases h with rfl | h
        · exact .inr ⟨o, by simp⟩
        · exact .inl h
      · rcases h with ⟨o2, h2⟩
        exact .inr ⟨o2, by simp [h2]⟩
    · exact hI.acqAll u m' all' todo
  · intro u m' all' gs acc; rw [hth]; split
    · intro h; cases h
    · exact hI.regAll u m' all' gs acc
  · intro o' u; rw [hobj]; split
    · exact hw u
    · exact hI.wOk o' u
  · exact hI.noFault
  · intro k' o' h; rw [hobj]; split
    · next e => subst e; rw [h1, h2]; exact hI.tabLive k' o' h
    · exact hI.tabLive k' o' h


/-- a key being acquired is not already held by the same thread -/
theorem not_held_of_todo {s : State} (hI : Inv s) {t m all k o rest}
    (hph : (s.th t).phase = .acq m all ((k, o) :: rest)) (k' : Key) (m' : Mode) :
    (k', o, m') ∉ (s.th t).held := by
  intro hmem
  have hhead : (k, o, m) ∈ refs (s.th t) := (mem_refs_acq hph _).2 (.inr ⟨(k, o), by simp, rfl⟩)
  have h1 := hI.refTab t k o m hhead
  have h2 := hI.refTab t k' o m' (by simp [refs, hmem])
  have hk : k' = k := hI.tInj k' k o h2 h1
  subst hk
  have := hI.keysNd t
  simp only [allKeys, refs, hph, pend, future, List.map_append, List.map_cons, List.map_map, List.append_nil] at this
  rw [List.nodup_append] at this
  exact this.2.2 k' (List.mem_map.2 ⟨(k', o, m'), hmem, rfl⟩) k' (by simp) rfl

theorem tryLock_wait {m : Mode} {t : Tid} {w w1 : Wrap} (h : tryLock m t w = .wait w1) :
    w1.regW = w.regW ∧ w1.regR = w.regR ∧ w1.rc = w.rc ∧ w1.wc = w.wc ∧ w1.writer = w.writer ∧
    w1.readers = w.readers ∧ w1.tokens = w.tokens ∧ (w1.wOwner = w.wOwner ∨ w.wOwner = none) := by
  cases m
  · simp only [tryLock, tryR] at h
    repeat' split at h
    all_goals first | (cases h; simp) | cases h
  · simp only [tryLock, tryW] at h
    repeat' split at h
    all_goals first | (cases h; simp_all) | cases h

theorem tryLock_enter_w {t : Tid} {w w1 : Wrap} (h : tryLock .w t w = .enter w1) :
    w.wOwner = some t ∧ w.readers = [] ∧ w.tokens = 0 ∧ w1 = { w with writer := some t } := by
  simp only [tryLock, tryW] at h
  repeat' split at h
  all_goals first | (cases h; simp_all) | cases h

theorem tryLock_enter_r {t : Tid} {w w1 : Wrap} (h : tryLock .r t w = .enter w1) :
    (w.wOwner = none ∨ w.tokens > 0) ∧ w1.regW = w.regW ∧ w1.regR = w.regR ∧ w1.rc = w.rc ∧ w1.wc = w.wc ∧
    w1.writer = w.writer ∧ w1.readers = t :: w.readers ∧ w1.wOwner = w.wOwner := by
  simp only [tryLock, tryR] at h
  repeat' split at h
  all_goals first | (cases h; simp_all) | cases h

theorem inv_stepLock {c : Cfg} (hc : Proved c) {s s' : State} (hI : Inv s) (t : Tid)
    (h : stepLock c s t = some s') : Inv s' := by
  have hcnt : c.countAt ≠ .afterBlock := by rw [hc.2.1]; decide
  unfold stepLock at h
  split at h
  · next m all hph =>
    cases h
    apply inv_setTh hI t
    · rfl
    · intro e; simp [refs, pend, hph]
    · have := hI.keysNd t
      simpa [allKeys, refs, pend, future, hph] using this
    · intro m gs h; cases h
    · intro m all todo h; cases h
    · intro m all gs acc h; cases h
  · next m all k o rest hph =>
    have hhead : (k, o, m) ∈ refs (s.th t) := (mem_refs_acq hph _).2 (.inr ⟨(k, o), by simp, rfl⟩)
    have ho : o < s.next := hI.tRange k o (hI.refTab t k o m hhead)
    have hnr : t ∉ (s.objs o).readers := fun hm => by
      obtain ⟨k', hk'⟩ := (hI.holdR t o).1 hm
      exact not_held_of_todo hI hph k' .r hk'
    have hwok := hI.wOk o
    cases hres : tryLock m t (s.objs o) with
    | blocked => rw [hres] at h; cases h
    | wait w1 =>
      rw [hres] at h; cases h
      obtain ⟨a1, a2, a3, a4, a5, a6, a7, a8⟩ := tryLock_wait hres
      apply inv_setObj hI o w1 ho a1 a2 a3 a4 a5 a6
      intro u hu
      rw [a5] at hu
      have := hwok u hu
      rw [a6, a7]
      refine ⟨?_, this.2.1, this.2.2⟩
      rcases a8 with a8 | a8
      · rw [a8]; exact this.1
      · rw [a8] at this; cases this.1
    | enter w1 =>
      rw [hres] at h
      simp only [hcnt, if_false] at h
      cases h
      cases m with
      | w =>
        obtain ⟨hown, hrd, htok, rfl⟩ := tryLock_enter_w hres
        apply inv_enter hI t .w all k o rest hph <;> try rfl
        · intro u
          constructor
          · intro hu; exact .inr ⟨rfl, by cases hu; rfl⟩
          · rintro (hu | ⟨_, rfl⟩)
            · have := (hwok u hu).1; rw [hown] at this; cases this; rfl
            · rfl
        · intro u; simp
        · exact hI.rdNd o
        · intro u hu
          cases hu
          exact ⟨hown, hrd, htok⟩
      | r =>
        obtain ⟨hfree, a1, a2, a3, a4, a5, a6, _⟩ := tryLock_enter_r hres
        have a7 : (s.objs o).writer = none := by
          cases hwr : (s.objs o).writer with
          | none => rfl
          | some u =>
            have := hwok u hwr
            rcases hfree with hf | hf
            · rw [hf] at this; cases this.1
            · omega
        apply inv_enter hI t .r all k o rest hph w1 a1 a2 a3 a4
        · intro u; rw [a5]; simp
        · intro u; rw [a6]; simp [or_comm]
        · rw [a6]; exact List.nodup_cons.2 ⟨hnr, hI.rdNd o⟩
        · intro u hu; rw [a5, a7] at hu; cases hu
  · cases h

end Nv.C02
