import Nv.Proofs.C03Cow2
/-! C03, layer B — the frame theorem for whole operations and what it means for another tree that
shares cells with the writer (clone isolation). -/
namespace Nv.C03.Cow
open Nv.C03

variable {H0 : Heap} {cow : Nat}

theorem Pres.read {α : Type} (f : Heap → α) : Pres H0 cow (fun H => (f H, H) : M α) (fun _ => True) :=
  fun _ hi => ⟨hi, trivial⟩

theorem Pres.replaceOrInsertB (t : HTree) (x : Item) (ht : t.cow = cow) :
    Pres H0 cow (replaceOrInsertB t x) (fun r => r.1.cow = cow) := by
  unfold Cow.replaceOrInsertB
  subst ht
  cases t.root with
  | none =>
    simp only []
    apply Pres.bind Pres.newNode; intro r hr
    apply Pres.bind (Pres.wr r _ _ hr); intro _ _
    exact Pres.pure _ rfl
  | some r0 =>
    simp only []
    apply Pres.bind (Pres.mutableFor _); intro r hr
    apply Pres.rd_bind; intro nd _
    apply Pres.bind (Q := Writable H0 t.cow)
    · apply Pres.ite
      · intro _
        apply Pres.bind (Pres.splitB _ _ hr); intro s hs
        apply Pres.bind Pres.newNode; intro nr hnr
        apply Pres.bind (Pres.wr nr _ _ hnr); intro _ _
        exact Pres.pure _ hnr
      · intro _; exact Pres.pure _ hr
    · intro root hroot
      apply Pres.bind (Pres.read _); intro h _
      apply Pres.bind (Pres.insertB _ _ _ _ hroot); intro out _
      exact Pres.pure _ rfl

theorem Pres.deleteItemB (t : HTree) (typ : Rm) (ht : t.cow = cow) :
    Pres H0 cow (deleteItemB t typ) (fun r => r.1.cow = cow) := by
  unfold Cow.deleteItemB
  subst ht
  cases t.root with
  | none => simp only []; exact Pres.pure _ rfl
  | some r0 =>
    simp only []
    apply Pres.rd_bind; intro nd0 _
    apply Pres.ite
    · intro _; exact Pres.pure _ rfl
    · intro _
      apply Pres.bind (Pres.mutableFor _); intro r hr
      apply Pres.bind (Pres.read _); intro h _
      apply Pres.bind (Pres.removeB _ _ _ _ hr); intro out _
      apply Pres.rd_bind; intro nd _
      apply Pres.bind (Q := fun _ => True)
      · cases nd.items with
        | cons a l => simp only []; exact Pres.pure _ trivial
        | nil =>
          cases nd.children with
          | nil => simp only []; exact Pres.pure _ trivial
          | cons c cs =>
            simp only []
            apply Pres.bind (Pres.freeNode _); intro _ _
            exact Pres.pure _ trivial
      · intro root _
        exact Pres.pure _ rfl

theorem pres_foldlM_reset (fuel : Nat)
    (ih : ∀ id, Pres H0 cow (resetB cow fuel id) (fun _ => True)) :
    ∀ (l : List Nat) (acc : Bool),
      Pres H0 cow (l.foldlM (fun (acc : Bool) c => if acc then resetB cow fuel c else (pure false : M Bool)) acc)
        (fun _ => True)
  | [], acc => by simp only [List.foldlM_nil]; exact Pres.pure _ trivial
  | c :: l, acc => by
    simp only [List.foldlM_cons]
    apply Pres.bind (Q := fun _ => True)
    · apply Pres.ite
      · intro _; exact ih c
      · intro _; exact Pres.pure _ trivial
    · intro acc' _; exact pres_foldlM_reset fuel ih l acc'

theorem Pres.resetB : ∀ (fuel id : Nat), Pres H0 cow (resetB cow fuel id) (fun _ => True) := by
  intro fuel
  induction fuel with
  | zero =>
    intro id
    unfold Cow.resetB
    apply Pres.bind (Pres.freeNodeT _); intro _ _
    exact Pres.pure _ trivial
  | succ fuel ih =>
    intro id
    unfold Cow.resetB
    apply Pres.rd_bind; intro nd _
    apply Pres.bind (pres_foldlM_reset fuel ih _ _); intro go _
    apply Pres.ite
    · intro _
      apply Pres.bind (Pres.freeNodeT _); intro _ _
      exact Pres.pure _ trivial
    · intro _; exact Pres.pure _ trivial

theorem Pres.clearB (t : HTree) (add : Bool) (ht : t.cow = cow) :
    Pres H0 cow (clearB t add) (fun r => r.1.cow = cow) := by
  unfold Cow.clearB
  subst ht
  cases t.root with
  | none => simp only []; exact Pres.pure _ rfl
  | some r =>
    simp only []
    apply Pres.bind (Pres.read _); intro h _
    apply Pres.bind (Q := fun _ => True)
    · apply Pres.ite
      · intro _; exact Pres.resetB _ _
      · intro _; exact Pres.pure _ trivial
    · intro _ _; exact Pres.pure _ rfl

/-- the write operations of a tree (`Clear` is one of them) -/
inductive WOp
  | insert (x : Item)
  | remove (typ : Rm)
  | clear (addNodesToFreelist : Bool)

def applyW (t : HTree) : WOp → M (HTree × Option Item)
  | .insert x => replaceOrInsertB t x
  | .remove typ => deleteItemB t typ
  | .clear add => clearB t add

theorem Pres.applyW (t : HTree) (op : WOp) (ht : t.cow = cow) : Pres H0 cow (applyW t op) (fun r => r.1.cow = cow) := by
  cases op with
  | insert x => exact Pres.replaceOrInsertB t x ht
  | remove typ => exact Pres.deleteItemB t typ ht
  | clear add => exact Pres.clearB t add ht

/-- **Frame theorem.** A write operation of the tree tagged `t.cow` changes no cell of the store that
    existed before, is not owned by `t.cow`, and is not parked in the free list. -/
theorem frame_write (t : HTree) (op : WOp) (H : Heap) (id : Nat) (hid : id < H.size)
    (htag : H.tag id ≠ some t.cow) (hfree : id ∉ H.free) :
    ((applyW t op) H).2.get id = H.get id := by
  have := (Pres.applyW (H0 := H) t op rfl H (Inv.init H t.cow)).1
  apply this.agree id hid
  rintro (h | h | h)
  · omega
  · exact htag h
  · exact hfree h

/-! ### what another tree sees -/

/-- cells reachable from `r` through child pointers -/
inductive Reach (H : Heap) : Nat → Nat → Prop
  | refl (r : Nat) : Reach H r r
  | step {r a c : Nat} : Reach H r a → c ∈ (H.get a).children → Reach H r c

theorem Reach.head {H : Heap} {r c id : Nat} (hc : c ∈ (H.get r).children) (h : Reach H c id) : Reach H r id := by
  induction h with
  | refl => exact Reach.step (Reach.refl r) hc
  | step _ hmem ih => exact Reach.step ih hmem

/-- everything reachable from `r` existed, is not owned by `cow`, and is not parked -/
def Sep (H : Heap) (cow : Nat) (r : Nat) : Prop :=
  ∀ id, Reach H r id → id < H.size ∧ H.tag id ≠ some cow ∧ id ∉ H.free

theorem read_agree (H H' : Heap) : ∀ (fuel r : Nat), (∀ id, Reach H r id → H'.get id = H.get id) →
    absNode H' fuel r = absNode H fuel r ∧ heightB H' fuel r = heightB H fuel r := by
  intro fuel
  induction fuel with
  | zero => intro r hag; simp [absNode, heightB, hag r (Reach.refl r)]
  | succ fuel ih =>
    intro r hag
    have hr := hag r (Reach.refl r)
    have hch : ∀ c ∈ (H.get r).children, absNode H' fuel c = absNode H fuel c ∧ heightB H' fuel c = heightB H fuel c :=
      fun c hc => ih c (fun id hid => hag id (Reach.head hc hid))
    constructor
    · simp only [absNode, hr]
      congr 1
      apply List.map_congr_left
      intro c hc; exact (hch c hc).1
    · simp only [heightB, hr]
      cases hcs : (H.get r).children with
      | nil => rfl
      | cons c cs => simp only []; rw [(hch c (by rw [hcs]; simp)).2]

theorem reach_agree (H H' : Heap) (r : Nat) (hag : ∀ id, Reach H r id → H'.get id = H.get id) :
    ∀ id, Reach H' r id → Reach H r id := by
  intro id h
  induction h with
  | refl => exact Reach.refl r
  | step _ hmem ih => exact Reach.step ih (by rw [hag _ ih] at hmem; exact hmem)

/-- one write by the tree tagged `t.cow` leaves every reading of a separated root unchanged, and the root
    stays separated -/
theorem write_isolated (t : HTree) (op : WOp) (H : Heap) (r : Nat) (hsep : Sep H t.cow r) :
    (∀ fuel, absNode ((applyW t op) H).2 fuel r = absNode H fuel r ∧
             heightB ((applyW t op) H).2 fuel r = heightB H fuel r) ∧
    Sep ((applyW t op) H).2 ((applyW t op) H).1.1.cow r := by
  have hag : ∀ id, Reach H r id → ((applyW t op) H).2.get id = H.get id :=
    fun id hid => frame_write t op H id (hsep id hid).1 (hsep id hid).2.1 (hsep id hid).2.2
  have P := Pres.applyW (H0 := H) t op rfl H (Inv.init H t.cow)
  refine ⟨fun fuel => read_agree H _ fuel r hag, ?_⟩
  rw [P.2]
  intro id hid
  have hold := reach_agree H _ r hag id hid
  obtain ⟨h1, h2, h3⟩ := hsep id hold
  have hnw : ¬ Writable H t.cow id := by
    rintro (h | h | h)
    · omega
    · exact h2 h
    · exact h3 h
  refine ⟨by have := P.1.size; omega, ?_, fun hf => hnw (P.1.freeW id hf)⟩
  intro htag; exact hnw (P.1.tagW id htag)

/-- any number of writes by one tree -/
def runW (t : HTree) (H : Heap) : List WOp → HTree × Heap
  | [] => (t, H)
  | op :: ops => runW ((applyW t op) H).1.1 ((applyW t op) H).2 ops

theorem writes_isolated (ops : List WOp) : ∀ (t : HTree) (H : Heap) (r : Nat), Sep H t.cow r →
    ∀ fuel, absNode (runW t H ops).2 fuel r = absNode H fuel r ∧ heightB (runW t H ops).2 fuel r = heightB H fuel r := by
  induction ops with
  | nil => intro t H r _ fuel; exact ⟨rfl, rfl⟩
  | cons op ops ih =>
    intro t H r hsep fuel
    obtain ⟨h1, h2⟩ := write_isolated t op H r hsep
    have := ih _ _ r h2 fuel
    simp only [runW]
    exact ⟨this.1.trans (h1 fuel).1, this.2.trans (h1 fuel).2⟩

/-- `Clone` hands out two tags no cell carries: every root whose cells exist and are not parked is
    separated from both new tags -/
theorem clone_sep (H : Heap) (t : HTree) (c1 c2 : Nat) (r : Nat)
    (hfresh : ∀ id, H.tag id ≠ some c1 ∧ H.tag id ≠ some c2)
    (hlive : ∀ id, Reach H r id → id < H.size ∧ id ∉ H.free) :
    Sep H (cloneB t c1 c2).1.cow r ∧ Sep H (cloneB t c1 c2).2.cow r :=
  ⟨fun id hid => ⟨(hlive id hid).1, (hfresh id).1, (hlive id hid).2⟩,
   fun id hid => ⟨(hlive id hid).1, (hfresh id).2, (hlive id hid).2⟩⟩

/-! ### what a whole history guarantees about tags -/

/-- every owner tag in the store is below `k` -/
def TagsBelow (H : Heap) (k : Nat) : Prop := ∀ id c, H.tag id = some c → c < k

/-- a write by a tree whose tag is below `k` keeps all tags below `k` (tags only ever become the writer's) -/
theorem write_tagsBelow (t : HTree) (op : WOp) (H : Heap) (k : Nat) (ht : t.cow < k) (h : TagsBelow H k) :
    TagsBelow ((applyW t op) H).2 k ∧ ((applyW t op) H).1.1.cow = t.cow := by
  have P := Pres.applyW (H0 := H) t op rfl H (Inv.init H t.cow)
  refine ⟨fun id c hc => ?_, P.2⟩
  rcases P.1.tagF id c hc with h1 | h1
  · exact h id c h1
  · omega

/-- so the two tags `Clone` takes (the counter `k` and `k+1`) are carried by no cell: the `hfresh` hypothesis of
    `clone_sep` holds in every store reached by writes of trees with tags below the counter -/
theorem tagsBelow_fresh (H : Heap) (k : Nat) (h : TagsBelow H k) :
    ∀ id, H.tag id ≠ some k ∧ H.tag id ≠ some (k + 1) := by
  intro id
  constructor
  · intro e; have := h id k e; omega
  · intro e; have := h id (k + 1) e; omega

theorem tagsBelow_mono (H : Heap) (k k' : Nat) (hk : k ≤ k') (h : TagsBelow H k) : TagsBelow H k' :=
  fun id c hc => Nat.lt_of_lt_of_le (h id c hc) hk

theorem tagsBelow_init (cap : Nat) : TagsBelow (Heap.init cap) 1 := by
  intro id c hc
  simp [Heap.tag, Heap.get, Heap.init, HNode.empty] at hc

/-! ### programs over several handles -/

structure World where
  H : Heap
  hs : List HTree
  next : Nat            -- the next unused owner tag

inductive POp
  | write (i : Nat) (op : WOp)
  | clone (i : Nat)

def World.step (w : World) : POp → World
  | .write i op => match w.hs[i]? with
    | some t => { w with H := ((applyW t op) w.H).2, hs := w.hs.set i ((applyW t op) w.H).1.1 }
    | none => w
  | .clone i => match w.hs[i]? with
    | some t => { w with hs := (w.hs.set i (cloneB t w.next (w.next + 1)).1) ++ [(cloneB t w.next (w.next + 1)).2],
                         next := w.next + 2 }
    | none => w

def World.init (degree cap : Nat) : World := ⟨Heap.init cap, [⟨degree, none, 0, 0⟩], 1⟩

def World.Good (w : World) : Prop := TagsBelow w.H w.next ∧ ∀ t ∈ w.hs, t.cow < w.next

theorem World.good_step (w : World) (op : POp) (h : w.Good) : (w.step op).Good := by
  cases op with
  | write i wop =>
    simp only [World.step]
    cases hi : w.hs[i]? with
    | none => exact h
    | some t =>
      have ht : t.cow < w.next := h.2 t (List.mem_of_getElem? hi)
      obtain ⟨h1, h2⟩ := write_tagsBelow t wop w.H w.next ht h.1
      refine ⟨h1, fun t' ht' => ?_⟩
      rcases List.mem_or_eq_of_mem_set ht' with ht' | rfl
      · exact h.2 t' ht'
      · rw [h2]; exact ht
  | clone i =>
    simp only [World.step]
    cases hi : w.hs[i]? with
    | none => exact h
    | some t =>
      refine ⟨tagsBelow_mono _ _ (w.next + 2) (by omega) h.1, fun t' ht' => ?_⟩
      show t'.cow < w.next + 2
      have ht'' : t' ∈ (w.hs.set i (cloneB t w.next (w.next + 1)).1) ++ [(cloneB t w.next (w.next + 1)).2] := ht'
      simp only [List.mem_append, List.mem_singleton] at ht''
      rcases ht'' with ht'' | rfl
      · rcases List.mem_or_eq_of_mem_set ht'' with ht'' | rfl
        · have := h.2 t' ht''; omega
        · simp [cloneB]
      · simp [cloneB]

theorem World.good_run (degree cap : Nat) (ops : List POp) : (ops.foldl World.step (World.init degree cap)).Good := by
  have gen : ∀ (ops : List POp) (w : World), w.Good → (ops.foldl World.step w).Good := by
    intro ops
    induction ops with
    | nil => intro w h; exact h
    | cons op ops ih => intro w h; exact ih _ (World.good_step w op h)
  refine gen ops _ ⟨tagsBelow_init cap, ?_⟩
  intro t ht; simp [World.init] at ht; subst ht; simp [World.init]

/-! ### a decidable sufficient test for `Sep` (used for the non-vacuity example) -/

theorem Reach.cases_head {H : Heap} {r id : Nat} (h : Reach H r id) :
    id = r ∨ ∃ c ∈ (H.get r).children, Reach H c id := by
  induction h with
  | refl => exact Or.inl rfl
  | step hra hmem ih =>
    rename_i a c
    rcases ih with rfl | ⟨c', hc', hr⟩
    · exact Or.inr ⟨c, hmem, Reach.refl c⟩
    · exact Or.inr ⟨c', hc', Reach.step hr hmem⟩

/-- `p` holds on every cell within `fuel` pointer steps of `id`, and no pointer leaves that depth -/
def allReach (H : Heap) (p : Nat → Bool) : Nat → Nat → Bool
  | 0, id => p id && (H.get id).children.isEmpty
  | fuel + 1, id => p id && (H.get id).children.all (allReach H p fuel)

theorem allReach_sound (H : Heap) (p : Nat → Bool) : ∀ (fuel r : Nat), allReach H p fuel r = true →
    ∀ id, Reach H r id → p id = true := by
  intro fuel
  induction fuel with
  | zero =>
    intro r h id hr
    simp only [allReach, Bool.and_eq_true, List.isEmpty_iff] at h
    rcases hr.cases_head with rfl | ⟨c, hc, _⟩
    · exact h.1
    · rw [h.2] at hc; simp at hc
  | succ fuel ih =>
    intro r h id hr
    simp only [allReach, Bool.and_eq_true, List.all_eq_true] at h
    rcases hr.cases_head with rfl | ⟨c, hc, hr'⟩
    · exact h.1
    · exact ih c (h.2 c hc) id hr'

def sepTest (H : Heap) (cow : Nat) (id : Nat) : Bool :=
  decide (id < H.size) && decide (H.tag id ≠ some cow) && decide (id ∉ H.free)

theorem sep_of_test (H : Heap) (cow fuel r : Nat) (h : allReach H (sepTest H cow) fuel r = true) : Sep H cow r := by
  intro id hid
  have := allReach_sound H _ fuel r h id hid
  simp only [sepTest, Bool.and_eq_true, decide_eq_true_eq] at this
  exact ⟨this.1.1, this.1.2, this.2⟩

end Nv.C03.Cow
