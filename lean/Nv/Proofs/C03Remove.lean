import Nv.Proofs.C03Grow3
/-! C03 — `removeH` against `specRemove`, by induction on the height. -/
namespace Nv.C03

structure RemovePost (mn : Nat) (h : Nat) (n : Node) (typ : Rm) (r : Node × Option Item) : Prop where
  inorder : r.1.inorder = (specRemove n.inorder typ).1
  ret : r.2 = (specRemove n.inorder typ).2
  kids : KidsOk mn (2 * mn + 1) h r.1
  lo : n.items.length ≤ r.1.items.length + 1
  hi : r.1.items.length ≤ n.items.length

theorem interleave_set_child (is : List Item) (cs : List Node) (j : Nat) (c' : Node)
    (hl : cs.length = is.length + 1) (hj : j ≤ is.length) :
    interleave is (setAt cs j c') =
      flatL (is.take j) (cs.take j) ++ c'.inorder ++ rightPart (is.drop j) (cs.drop (j + 1)) := by
  conv => lhs; rw [← List.take_append_drop j is]
  exact interleave_decomp _ _ _ _ _ (by simp; omega)

theorem leafRemove_len (is : List Item) (typ : Rm) :
    is.length ≤ (leafRemove is typ).1.length + 1 ∧ (leafRemove is typ).1.length ≤ is.length := by
  cases typ with
  | min => simp [leafRemove]; omega
  | max => simp [leafRemove]; omega
  | item k =>
    simp only [leafRemove]
    split
    · rename_i hf
      obtain ⟨y, hy, _⟩ := (findIdx_found is k).1 hf
      have hi : (findIdx is k).1 < is.length := (List.getElem?_eq_some_iff.1 hy).1
      simp [removeAt_length _ _ hi]; omega
    · simp

theorem inorder_ne_nil (n : Node) (hsh : n.children = [] ∨ n.children.length = n.items.length + 1)
    (h : 1 ≤ n.items.length) : n.inorder ≠ [] := by
  cases hi : n.items with
  | nil => rw [hi] at h; simp at h
  | cons a _ =>
    intro e
    have := mem_items_inorder' n a hsh (by rw [hi]; simp)
    rw [e] at this; simp at this

/-- the second half of `remove` on an inner node: the selected child has more than `minItems` items -/
theorem descend_remove (mn : Nat) (hmn : 1 ≤ mn) (h : Nat) (typ : Rm) (is : List Item) (cs : List Node)
    (ih : ∀ (n : Node) (typ : Rm), KidsOk mn (2 * mn + 1) h n → Sorted n.inorder → 1 ≤ n.items.length →
      RemovePost mn h n typ (removeH mn h n typ))
    (hk : KidsOk mn (2 * mn + 1) (h + 1) (.mk is cs)) (hs : Sorted (interleave is cs))
    (hbig : mn < (cs.getD (locate is typ).1 default).items.length) :
    RemovePost mn (h + 1) (.mk is cs) typ
      (if (locate is typ).2 then
        (.mk (setAt is (locate is typ).1 ((removeH mn h (cs.getD (locate is typ).1 default) .max).2.getD default))
            (setAt cs (locate is typ).1 (removeH mn h (cs.getD (locate is typ).1 default) .max).1),
          is[(locate is typ).1]?)
      else
        (.mk is (setAt cs (locate is typ).1 (removeH mn h (cs.getD (locate is typ).1 default) typ).1),
          (removeH mn h (cs.getD (locate is typ).1 default) typ).2)) := by
  simp only [KidsOk, children_mk, items_mk] at hk
  have hsi := sorted_items is cs hs
  have hi := locate_le is typ
  have hic : (locate is typ).1 < cs.length := by omega
  obtain ⟨hmC, hxC, hKC⟩ := (nodeOk_iff _ _ _ _).1 (hk.2 _ (getD_mem cs _ default hic))
  have hCs : Sorted (cs.getD (locate is typ).1 default).inorder := sorted_child is cs hs _ (getD_mem cs _ default hic) hk.1
  have hCne : (cs.getD (locate is typ).1 default).inorder ≠ [] :=
    inorder_ne_nil _ (kids_shape_or _ _ _ _ hKC) (by omega)
  have hdec := interleave_at' (locate is typ).1 is cs hk.1 hi
  have kidsSet : ∀ (c' : Node) (is' : List Item), is'.length = is.length →
      KidsOk mn (2 * mn + 1) h c' → (cs.getD (locate is typ).1 default).items.length ≤ c'.items.length + 1 →
      c'.items.length ≤ (cs.getD (locate is typ).1 default).items.length →
      KidsOk mn (2 * mn + 1) (h + 1) (.mk is' (setAt cs (locate is typ).1 c')) := by
    intro c' is' hl' hk' hlo' hhi'
    simp only [KidsOk, children_mk, items_mk, setAt_length _ _ _ hic, hl']
    refine ⟨hk.1, fun d hd => ?_⟩
    rcases mem_setAt _ _ _ _ hd with rfl | hd
    · exact (nodeOk_iff _ _ _ _).2 ⟨by omega, by omega, hk'⟩
    · exact hk.2 d hd
  cases hf : (locate is typ).2 with
  | true =>
    -- only `removeItem` can find the item here
    cases typ with
    | min => simp [locate] at hf
    | max => simp [locate] at hf
    | item k =>
      simp only [locate] at hf hdec hCs hCne hKC hmC hxC hbig hic hi kidsSet ⊢
      simp only [if_true]
      obtain ⟨y, hy, hky⟩ := (findIdx_found is k).1 hf
      have hil : (findIdx is k).1 < is.length := (List.getElem?_eq_some_iff.1 hy).1
      have hyy : is[(findIdx is k).1] = y := (List.getElem?_eq_some_iff.1 hy).2
      have r := ih _ .max hKC hCs (by omega)
      have hdrop : is.drop (findIdx is k).1 = y :: is.drop ((findIdx is k).1 + 1) := by
        rw [← hyy]; exact List.drop_eq_getElem_cons hil
      -- the predecessor
      obtain ⟨p, hp⟩ : ∃ p, (cs.getD (findIdx is k).1 default).inorder.getLast? = some p := by
        rw [List.getLast?_eq_some_getLast hCne]; exact ⟨_, rfl⟩
      have hCsplit : (cs.getD (findIdx is k).1 default).inorder =
          (removeH mn h (cs.getD (findIdx is k).1 default) .max).1.inorder ++ [p] := by
        rw [r.inorder]; simp only [specRemove]
        obtain ⟨ys, hys⟩ := List.getLast?_eq_some_iff.1 hp
        rw [hys]; simp
      have hret : (removeH mn h (cs.getD (findIdx is k).1 default) .max).2 = some p := by
        rw [r.ret]; simpa [specRemove] using hp
      rw [hdec, hdrop] at hs
      simp only [rightPart_cons] at hs hdec
      have hnew : interleave (setAt is (findIdx is k).1 p)
            (setAt cs (findIdx is k).1 (removeH mn h (cs.getD (findIdx is k).1 default) .max).1) =
          flatL (is.take (findIdx is k).1) (cs.take (findIdx is k).1) ++
            (cs.getD (findIdx is k).1 default).inorder ++
            interleave (is.drop ((findIdx is k).1 + 1)) (cs.drop ((findIdx is k).1 + 1)) := by
        rw [interleave_set_child _ _ _ _ (by rw [setAt_length _ _ _ hil]; exact hk.1)
          (by rw [setAt_length _ _ _ hil]; omega),
          take_setAt _ _ _ (by omega), drop_setAt _ _ _ (by omega), hCsplit]
        simp
      have hL : ∀ a ∈ flatL (is.take (findIdx is k).1) (cs.take (findIdx is k).1) ++
          (cs.getD (findIdx is k).1 default).inorder, a.key ≠ k := fun a ha => by
        have := hs.lt_of_append ha List.mem_cons_self; omega
      have hR : ∀ a ∈ interleave (is.drop ((findIdx is k).1 + 1)) (cs.drop ((findIdx is k).1 + 1)), a.key ≠ k :=
        fun a ha => by have := hs.append_right.head_lt ha; omega
      refine ⟨?_, ?_, ?_, by simp [setAt_length _ _ _ hil], by simp [setAt_length _ _ _ hil]⟩
      · simp only [inorder_mk, hret, Option.getD_some, specRemove]
        rw [hnew, hdec, hdrop]
        simp only [rightPart_cons]
        rw [specDelete_at k y _ _ hL hR hky]
      · simp only [inorder_mk, specRemove]
        rw [hdec, hdrop]
        simp only [rightPart_cons]
        rw [specFind_at k y _ _ hL hky, hy]
      · exact kidsSet _ _ (setAt_length _ _ _ hil) r.kids r.lo r.hi
  | false =>
    simp only [Bool.false_eq_true, if_false]
    have r := ih _ typ hKC hCs (by omega)
    have hnew := interleave_set_child is cs (locate is typ).1
      (removeH mn h (cs.getD (locate is typ).1 default) typ).1 hk.1 hi
    have hside : SideOk typ (flatL (is.take (locate is typ).1) (cs.take (locate is typ).1))
        (rightPart (is.drop (locate is typ).1) (cs.drop ((locate is typ).1 + 1))) := by
      cases typ with
      | min => simp [locate, SideOk]
      | max => simp [locate, SideOk]
      | item k =>
        simp only [locate, SideOk] at hf hdec ⊢
        rw [hdec] at hs
        have hL := flatL_lt k _ _ _ (by rw [List.append_assoc] at hs; exact hs) (findIdx_take_lt is k)
        have hR := mem_rightPart_gt k _ _ _ hs (findIdx_not_found_gt is k hsi hf)
        exact ⟨fun a ha => by have := hL a ha; omega, fun a ha => by have := hR a ha; omega⟩
    have hspec := specRemove_mid typ _ _ _ hCne hside
    refine ⟨?_, ?_, kidsSet _ _ rfl r.kids r.lo r.hi, by simp, by simp⟩
    · simp only [inorder_mk]
      rw [hnew, hdec, hspec, r.inorder]
    · simp only [inorder_mk]
      rw [hdec, hspec, r.ret]

end Nv.C03
