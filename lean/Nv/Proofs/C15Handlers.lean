import Nv.Proofs.C15
/-! C15 — every handler keeps its worker's cache coherent with the store and touches the store only at its key. -/
namespace Nv.C15

/-- guarantee of a handler run from context `c` to `c'` on key `k` -/
structure HOk (k : Key) (c c' : Ctx) : Prop where
  coh : CohC c.store c.cache → CohC c'.store c'.cache
  frame : Frame k c.store c'.store
  ents : ∀ p, p ∈ c'.cache.ents → p ∈ c.cache.ents ∨ p.1 = k

theorem HOk.refl (k : Key) (c : Ctx) : HOk k c c := ⟨id, Frame.refl _ _, fun _ h => Or.inl h⟩

theorem ents_cSet {c : Cache} {k : Key} {v : Val} (p : Key × Val) (h : p ∈ (cSet c k v).ents) :
    p ∈ c.ents ∨ p.1 = k := by
  rcases mem_cSet h with e | e
  · right; rw [e]
  · left; exact e.1

/-- a mutating callback followed by `ca.Set` on success only -/
theorem mut_then_set {k : Key} {c c1 : Ctx} {r : Except Err Val} (hs : MutSpec k c c1 r) :
    HOk k c (match r with | .error _ => c1 | .ok nv => setCache c1 k nv) := by
  obtain ⟨hca, hfr, hok, herr⟩ := hs
  cases r with
  | error e =>
    refine ⟨fun h => ?_, hfr, fun p hp => ?_⟩
    · simp only
      rw [herr e rfl, hca]; exact h
    · simp only [hca] at hp; exact Or.inl hp
  | ok nv =>
    refine ⟨fun h => ?_, hfr, fun p hp => ?_⟩
    · simp only [setCache]
      exact cohC_cSet (by rw [hca]; exact h) hfr (hok nv rfl)
    · simp only [setCache, hca] at hp; exact ents_cSet p hp

/-- a mutating callback without a cache write, when the cache holds nothing for the key -/
theorem mut_no_set {k : Key} {c c1 : Ctx} (hs : c1.cache = c.cache ∧ Frame k c.store c1.store) (hn : NoKey c.cache k) :
    HOk k c c1 := by
  obtain ⟨hca, hfr⟩ := hs
  refine ⟨fun h => ?_, hfr, fun p hp => ?_⟩
  · rw [hca]; exact cohC_frame h hfr hn
  · rw [hca] at hp; exact Or.inl hp

theorem HOk.trans {k : Key} {a b c : Ctx} (h1 : HOk k a b) (h2 : HOk k b c) : HOk k a c :=
  ⟨fun h => h2.coh (h1.coh h), h1.frame.trans h2.frame, fun p hp => by
    rcases h2.ents p hp with e | e
    · exact h1.ents p e
    · exact Or.inr e⟩

/-- a successful load followed by `ca.Set` -/
theorem load_then_set {k : Key} {c c1 : Ctx} {v : Val} (h : callLoad c k = (.ok v, c1)) :
    HOk k c (setCache c1 k v) := by
  obtain ⟨hst, hca, hok, _⟩ := callLoad_spec h
  refine ⟨fun hc => ?_, by simp only [setCache, hst]; exact Frame.refl _ _, fun p hp => ?_⟩
  · simp only [setCache, hst, hca]
    exact cohC_cSet hc (Frame.refl _ _) (hok v rfl)
  · simp only [setCache, hca] at hp; exact ents_cSet p hp

theorem load_same {k : Key} {c c1 : Ctx} {r : Except Err Val} (h : callLoad c k = (r, c1)) : HOk k c c1 := by
  obtain ⟨hst, hca, _, _⟩ := callLoad_spec h
  refine ⟨fun hc => by rw [hst, hca]; exact hc, by rw [hst]; exact Frame.refl _ _, fun p hp => by rw [hca] at hp; exact Or.inl hp⟩

theorem hLoad_ok (c : Ctx) (k : Key) : HOk k c (hLoad c k).1 := by
  unfold hLoad
  have hg : HOk k c { c with cache := (cGet c.cache k).2 } := ⟨fun h => cohC_cGet k h, Frame.refl _ _, fun _ hp => Or.inl (mem_cGet hp)⟩
  split
  · rename_i v ca heq
    have : ca = (cGet c.cache k).2 := by rw [heq]
    subst this; exact hg
  · rename_i ca heq
    have : ca = (cGet c.cache k).2 := by rw [heq]
    subst this
    split
    · rename_i e c1 h; exact hg.trans (load_same h)
    · rename_i v c1 h; exact hg.trans (load_then_set h)

theorem hAdd_ok (c : Ctx) (k : Key) (v : Val) : HOk k c (hAdd c k v).1 := by
  unfold hAdd
  split
  · exact HOk.refl k c
  · split
    · rename_i e c1 h; exact mut_then_set (callAdd_spec h)
    · rename_i v' c1 h; exact mut_then_set (callAdd_spec h)

theorem upd_tail (c : Ctx) (k : Key) (v e0 : Val) :
    HOk k c (match callUpd c k v e0 with
      | (.error e, c) => ((c, Res.err e) : Ctx × Res)
      | (.ok nv, c) => (setCache c k nv, .ok nv)).1 := by
  split
  · rename_i e c1 h; exact mut_then_set (callUpd_spec h)
  · rename_i nv c1 h; exact mut_then_set (callUpd_spec h)

theorem add_tail (c : Ctx) (k : Key) (v : Val) :
    HOk k c (match callAdd c k v with
      | (.error e, c) => ((c, Res.err e) : Ctx × Res)
      | (.ok nv, c) => (setCache c k nv, .ok nv)).1 := by
  split
  · rename_i e c1 h; exact mut_then_set (callAdd_spec h)
  · rename_i nv c1 h; exact mut_then_set (callAdd_spec h)

theorem upsert_tail (c : Ctx) (k : Key) (v : Val) (e0 : Val) :
    HOk k c (match callUpsert c k v (some e0) with
      | (.error e, c) => ((c, Res.err e) : Ctx × Res)
      | (.ok nv, c) => (setCache c k nv, .ok nv)).1 := by
  split
  · rename_i e c1 h; exact mut_then_set (callUpsert_spec h)
  · rename_i nv c1 h; exact mut_then_set (callUpsert_spec h)

theorem hUpdate_ok (c : Ctx) (k : Key) (v : Val) : HOk k c (hUpdate c k v).1 := by
  unfold hUpdate
  split
  · exact upd_tail c k v _
  · split
    · rename_i e c1 h; exact load_same h
    · rename_i cur c1 h; exact (load_same h).trans (upd_tail c1 k v cur)

theorem hDelete_ok (cfg : Cfg) (hd : DelOk cfg) (c : Ctx) (k : Key) : HOk k c (hDelete cfg c k).1 := by
  unfold hDelete
  rcases hd with hd | hd <;> simp only [hd]
  · split
    · rename_i e c1 h
      obtain ⟨hca, hfr, _, herr⟩ := callDel_spec h
      refine ⟨fun hc => ?_, hfr, fun p hp => by rw [hca] at hp; exact Or.inl hp⟩
      rw [herr e rfl, hca]; exact hc
    · rename_i u c1 h
      obtain ⟨hca, hfr, _, _⟩ := callDel_spec h
      refine ⟨fun hc => ?_, hfr, fun p hp => ?_⟩
      · simp only [hca]
        exact cohC_cDelete hc hfr
      · simp only [hca] at hp; exact Or.inl (mem_sErase hp).1
  · -- cache first
    have h0 : HOk k c { c with cache := cDelete c.cache k } :=
      ⟨fun h => cohC_cDelete h (Frame.refl _ _), Frame.refl _ _, fun _ hp => Or.inl (mem_sErase hp).1⟩
    split
    · rename_i e c1 h
      obtain ⟨hca, hfr, _, herr⟩ := callDel_spec h
      refine h0.trans ⟨fun hc => ?_, hfr, fun p hp => by rw [hca] at hp; exact Or.inl hp⟩
      rw [herr e rfl, hca]; exact hc
    · rename_i u c1 h
      obtain ⟨hca, hfr, _, _⟩ := callDel_spec h
      refine h0.trans ⟨fun hc => ?_, hfr, fun p hp => by rw [hca] at hp; exact Or.inl hp⟩
      rw [hca]; exact cohC_frame hc hfr (noKey_cDelete _ _)

theorem hUpdOrAdd_ok (c : Ctx) (k : Key) (v : Val) : HOk k c (hUpdOrAdd c k v).1 := by
  unfold hUpdOrAdd
  split
  · exact upd_tail c k v _
  · split
    · rename_i c1 h; exact (load_same h).trans (add_tail c1 k v)
    · rename_i e c1 _ h; exact load_same h
    · rename_i cur c1 h; exact (load_same h).trans (upd_tail c1 k v cur)

theorem hUpsertThenLoad_ok (c : Ctx) (k : Key) (v : Val) : HOk k c (hUpsertThenLoad c k v).1 := by
  unfold hUpsertThenLoad
  split
  · exact upsert_tail c k v _
  · rename_i hpk
    have hn := noKey_of_cPeek_none hpk
    split
    · rename_i e c1 h; exact mut_no_set (callUpsert_frame h) hn
    · rename_i nv c1 h
      have h1 := mut_no_set (callUpsert_frame h) hn
      split
      · rename_i e c2 h2; exact h1.trans (load_same h2)
      · rename_i cur c2 h2; exact h1.trans (load_then_set h2)

theorem hUpsertThenRenew_ok (c : Ctx) (k : Key) (v : Val) : HOk k c (hUpsertThenRenew c k v).1 := by
  unfold hUpsertThenRenew
  split
  · exact upsert_tail c k v _
  · rename_i hpk
    have hn := noKey_of_cPeek_none hpk
    split
    · rename_i e c1 h; exact mut_no_set (callUpsert_frame h) hn
    · rename_i nv c1 h; exact mut_no_set (callUpsert_frame h) hn

theorem handle_ok (cfg : Cfg) (hd : DelOk cfg) (c : Ctx) (op : Op) : HOk op.key c (handle cfg c op).1 := by
  cases op with
  | get k =>
    simp only [handle, Op.key]
    have hg : HOk k c { c with cache := (cGet c.cache k).2 } := ⟨fun h => cohC_cGet k h, Frame.refl _ _, fun _ hp => Or.inl (mem_cGet hp)⟩
    split
    · rename_i v ca heq
      have : ca = (cGet c.cache k).2 := by rw [heq]
      subst this; exact hg
    · rename_i ca heq
      have : ca = (cGet c.cache k).2 := by rw [heq]
      subst this; exact hg.trans (hLoad_ok _ k)
  | add k v => exact hAdd_ok c k v
  | upd k v => exact hUpdate_ok c k v
  | del k => exact hDelete_ok cfg hd c k
  | uoa k v => exact hUpdOrAdd_ok c k v
  | utl k v => exact hUpsertThenLoad_ok c k v
  | utr k v => exact hUpsertThenRenew_ok c k v

end Nv.C15
