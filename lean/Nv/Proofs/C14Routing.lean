import Nv.Proofs.C14
/-! C14 — result routing: what a caller receives comes from its own call's cell or its own context. -/
namespace Nv.C14

theorem finIds_append (a b : List Ev) : finIds (a ++ b) = finIds a ++ finIds b := by
  induction a with
  | nil => rfl
  | cons e es ih => cases e <;> simp [finIds, ih]

theorem getCall_some {l : Lane} {id : Nat} {c : CallRec} (h : getCall l id = some c) : c ∈ l.calls ∧ c.id = id := by
  unfold getCall at h
  refine ⟨List.mem_of_find?_eq_some h, ?_⟩
  have := List.find?_some h
  simpa using this

theorem mem_updCall {calls : List CallRec} {id : Nat} {f : CallRec → CallRec} {rec : CallRec}
    (h : rec ∈ updCall calls id f) : ∃ r0 ∈ calls, rec = if r0.id == id then f r0 else r0 := by
  unfold updCall at h
  rcases List.mem_map.1 h with ⟨r0, hr0, e⟩
  exact ⟨r0, hr0, e.symm⟩

theorem cancelled_updCall {calls : List CallRec} {id i : Nat} {f : CallRec → CallRec}
    (hf : ∀ c, (f c).id = c.id ∧ (c.ctxDone = true → (f c).ctxDone = true)) (h : Cancelled calls i) :
    Cancelled (updCall calls id f) i := by
  obtain ⟨rec, hm, hid, hd⟩ := h
  refine ⟨if rec.id == id then f rec else rec, ?_, ?_, ?_⟩
  · unfold updCall; exact List.mem_map.2 ⟨rec, hm, rfl⟩
  · split
    · rw [(hf rec).1]; exact hid
    · exact hid
  · split
    · exact (hf rec).2 hd
    · exact hd

theorem cancelled_append {calls : List CallRec} {i : Nat} (x : CallRec) (h : Cancelled calls i) :
    Cancelled (calls ++ [x]) i := by
  obtain ⟨rec, hm, hid, hd⟩ := h
  exact ⟨rec, List.mem_append_left _ hm, hid, hd⟩

/-- where the content of a result cell comes from -/
def CellOk (l : Lane) : Prop :=
  ∀ rec ∈ l.calls, ∀ r, rec.cell = some r →
    (isCalleeRes r = true ∧ Ev.fin rec.id r ∈ l.log) ∨ (r = .ctx ∧ Cancelled l.calls rec.id)

/-- where a value handed to a caller comes from -/
def RetOk (l : Lane) : Prop :=
  ∀ id r, Ev.ret id r ∈ l.log →
    (isCalleeRes r = true ∧ Ev.fin id r ∈ l.log) ∨ (r = .ctx ∧ Cancelled l.calls id) ∨
    (r = .closed ∧ l.stopped = true) ∨ r = .full

/-- the callee of a call returns at most once: returned ids + the running one = started ids -/
def FinOk (l : Lane) : Prop := finIds l.log ++ (consRunning l.cons).toList = startIds l.log

structure RInv (l : Lane) : Prop where
  cell : CellOk l
  ret : RetOk l
  fin : FinOk l

theorem rinv_init (k : Kind) (cap idx : Nat) : RInv (Lane.init k cap idx) := by
  refine ⟨?_, ?_, rfl⟩
  · intro rec hm; simp [Lane.init] at hm
  · intro id r hm; simp [Lane.init] at hm

/-- a step that only appends non-`ret` events, keeps `stopped`, and maps the call records by functions that
keep id / cell / ctxDone-monotone preserves `CellOk` and `RetOk` -/
theorem cellOk_mono {l l' : Lane} (h : CellOk l)
    (hlog : ∀ e, e ∈ l.log → e ∈ l'.log)
    (hcalls : ∀ rec ∈ l'.calls, (rec.cell = none) ∨ ∃ r0 ∈ l.calls, rec.id = r0.id ∧ rec.cell = r0.cell)
    (hcan : ∀ i, Cancelled l.calls i → Cancelled l'.calls i) : CellOk l' := by
  intro rec hm r hr
  rcases hcalls rec hm with hnone | ⟨r0, hr0, hid, hcell⟩
  · rw [hnone] at hr; cases hr
  · rw [hcell] at hr
    rcases h r0 hr0 r hr with ⟨h1, h2⟩ | ⟨h1, h2⟩
    · exact Or.inl ⟨h1, by rw [hid]; exact hlog _ h2⟩
    · exact Or.inr ⟨h1, by rw [hid]; exact hcan _ h2⟩

theorem retOk_mono {l l' : Lane} (h : RetOk l)
    (hlog : ∀ e, e ∈ l.log → e ∈ l'.log)
    (hnew : ∀ id r, Ev.ret id r ∈ l'.log → Ev.ret id r ∈ l.log ∨
      ((isCalleeRes r = true ∧ Ev.fin id r ∈ l'.log) ∨ (r = .ctx ∧ Cancelled l'.calls id) ∨
       (r = .closed ∧ l'.stopped = true) ∨ r = .full))
    (hcan : ∀ i, Cancelled l.calls i → Cancelled l'.calls i)
    (hstop : l.stopped = true → l'.stopped = true) : RetOk l' := by
  intro id r hm
  rcases hnew id r hm with hold | hn
  · rcases h id r hold with ⟨a, b⟩ | ⟨a, b⟩ | ⟨a, b⟩ | a
    · exact Or.inl ⟨a, hlog _ b⟩
    · exact Or.inr (Or.inl ⟨a, hcan _ b⟩)
    · exact Or.inr (Or.inr (Or.inl ⟨a, hstop b⟩))
    · exact Or.inr (Or.inr (Or.inr a))
  · exact hn

theorem upd_same_cell {calls : List CallRec} {id : Nat} {f : CallRec → CallRec}
    (hf : ∀ c, (f c).id = c.id ∧ (f c).cell = c.cell) :
    ∀ rec ∈ updCall calls id f, (rec.cell = none) ∨ ∃ r0 ∈ calls, rec.id = r0.id ∧ rec.cell = r0.cell := by
  intro rec hm
  obtain ⟨r0, hr0, e⟩ := mem_updCall hm
  refine Or.inr ⟨r0, hr0, ?_⟩
  subst e
  split
  · exact hf r0
  · exact ⟨rfl, rfl⟩

theorem rinv_step (cfg : Cfg) (l l' : Lane) (a : LAct) (_hi : LInv l) (h : RInv l) (hs : l.step cfg a = some l') :
    RInv l' := by
  obtain ⟨hc, hr, hf⟩ := h
  cases a with
  | submit id enq =>
    obtain ⟨_, he⟩ := submit_effect cfg l l' id enq hs
    rcases he with ⟨e, _⟩ | ⟨r, e, hwhy⟩
    · subst e
      refine ⟨?_, ?_, hf⟩
      · refine cellOk_mono hc (fun _ h => h) ?_ (fun i h => cancelled_append _ h)
        intro rec hm
        simp only [Lane.accept, List.mem_append, List.mem_singleton] at hm
        rcases hm with hm | hm
        · exact Or.inr ⟨rec, hm, rfl, rfl⟩
        · subst hm; exact Or.inl rfl
      · exact retOk_mono hr (fun _ h => h) (fun _ _ h => Or.inl h) (fun i h => cancelled_append _ h) (fun h => h)
    · subst e
      refine ⟨?_, ?_, ?_⟩
      · refine cellOk_mono hc (fun _ h => List.mem_append_left _ h) ?_ (fun i h => cancelled_append _ h)
        intro rec hm
        simp only [Lane.reject, List.mem_append, List.mem_singleton] at hm
        rcases hm with hm | hm
        · exact Or.inr ⟨rec, hm, rfl, rfl⟩
        · subst hm; exact Or.inl rfl
      · refine retOk_mono hr (fun _ h => List.mem_append_left _ h) ?_ (fun i h => cancelled_append _ h) (fun h => h)
        intro i r' hm
        simp only [Lane.reject, List.mem_append, List.mem_singleton] at hm
        rcases hm with hm | hm
        · exact Or.inl hm
        · cases hm
          right
          rcases hwhy with e | ⟨e, hst⟩
          · exact Or.inr (Or.inr (Or.inr e))
          · exact Or.inr (Or.inr (Or.inl ⟨e, hst⟩))
      · simpa [FinOk, Lane.reject, finIds_append, startIds_append, finIds, startIds] using hf
  | pop take =>
    obtain ⟨hcons, he⟩ := pop_effect cfg l l' take hs
    rcases he with ⟨e, _, _⟩ | ⟨c, rest, hq, e⟩
    · subst e
      refine ⟨?_, ?_, ?_⟩
      · exact cellOk_mono hc (fun _ h => List.mem_append_left _ h) (fun rec hm => Or.inr ⟨rec, hm, rfl, rfl⟩) (fun _ h => h)
      · refine retOk_mono hr (fun _ h => List.mem_append_left _ h) ?_ (fun _ h => h) (fun h => h)
        intro i r' hm
        simp only [Lane.doExit, List.mem_append, List.mem_singleton] at hm
        rcases hm with hm | hm
        · exact Or.inl hm
        · cases hm
      · simp only [FinOk, Lane.doExit, finIds_append, startIds_append, finIds, startIds, consRunning, List.append_nil]
        simpa [FinOk, hcons, consRunning] using hf
    · subst e
      unfold Lane.take
      split
      · -- skipped: cell := ctx, justified by the call's own cancelled context
        rename_i hsk
        have hcan : Cancelled l.calls c := by
          unfold Lane.skips at hsk
          simp only [Bool.and_eq_true] at hsk
          have h2 := hsk.2
          split at h2
          · rename_i r0 hg
            exact ⟨r0, (getCall_some hg).1, (getCall_some hg).2, h2⟩
          · cases h2
        have hmono : ∀ i, Cancelled l.calls i → Cancelled (updCall l.calls c (fun r => { r with cell := some .ctx })) i :=
          fun i h => cancelled_updCall (fun _ => ⟨rfl, fun h => h⟩) h
        refine ⟨?_, ?_, ?_⟩
        · intro rec hm r hr
          obtain ⟨r0, hr0, e⟩ := mem_updCall hm
          by_cases hid : (r0.id == c) = true
          · rw [if_pos hid] at e
            have hidc : r0.id = c := by simpa using hid
            rw [e] at hr ⊢
            simp only at hr
            cases hr
            refine Or.inr ⟨rfl, ?_⟩
            simp only [hidc]
            exact hmono c hcan
          · rw [if_neg hid] at e
            rw [e] at hr ⊢
            rcases hc r0 hr0 r hr with ⟨a, b⟩ | ⟨a, b⟩
            · exact Or.inl ⟨a, b⟩
            · exact Or.inr ⟨a, hmono _ b⟩
        · exact retOk_mono hr (fun _ h => h) (fun _ _ h => Or.inl h) hmono (fun h => h)
        · simpa [FinOk] using hf
      · refine ⟨?_, ?_, ?_⟩
        · exact cellOk_mono hc (fun _ h => List.mem_append_left _ h) (fun rec hm => Or.inr ⟨rec, hm, rfl, rfl⟩) (fun _ h => h)
        · refine retOk_mono hr (fun _ h => List.mem_append_left _ h) ?_ (fun _ h => h) (fun h => h)
          intro i r' hm
          simp only [List.mem_append, List.mem_singleton] at hm
          rcases hm with hm | hm
          · exact Or.inl hm
          · cases hm
        · simp only [FinOk, finIds_append, startIds_append, finIds, startIds, consRunning, Option.toList, List.append_nil]
          have : finIds l.log = startIds l.log := by simpa [FinOk, hcons, consRunning] using hf
          rw [this]
  | finish id r =>
    obtain ⟨hcons, hres, e⟩ := finish_effect cfg l l' id r _hi.cons2_none hs
    subst e
    have hmono : ∀ i, Cancelled l.calls i → Cancelled (updCall l.calls id (fun c => { c with cell := some r })) i :=
      fun i h => cancelled_updCall (fun _ => ⟨rfl, fun h => h⟩) h
    refine ⟨?_, ?_, ?_⟩
    · intro rec hm r' hr'
      obtain ⟨r0, hr0, e⟩ := mem_updCall hm
      by_cases hid : (r0.id == id) = true
      · rw [if_pos hid] at e
        have hidc : r0.id = id := by simpa using hid
        rw [e] at hr' ⊢
        simp only at hr'
        cases hr'
        exact Or.inl ⟨hres, by simp [hidc]⟩
      · rw [if_neg hid] at e
        rw [e] at hr' ⊢
        rcases hc r0 hr0 r' hr' with ⟨a, b⟩ | ⟨a, b⟩
        · exact Or.inl ⟨a, List.mem_append_left _ b⟩
        · exact Or.inr ⟨a, hmono _ b⟩
    · refine retOk_mono hr (fun _ h => List.mem_append_left _ h) ?_ hmono (fun h => h)
      intro i r' hm
      simp only [List.mem_append, List.mem_singleton] at hm
      rcases hm with hm | hm
      · exact Or.inl hm
      · cases hm
    · simp only [FinOk, finIds_append, startIds_append, finIds, startIds, consRunning, Option.toList, List.append_nil]
      simpa [FinOk, hcons, consRunning] using hf
  | recv id pick =>
    obtain ⟨c, r, hg, _, e, hwhy⟩ := recv_effect cfg l l' id pick hs
    subst e
    have hmono : ∀ i, Cancelled l.calls i → Cancelled (updCall l.calls id (fun c => { c with waiting := false })) i :=
      fun i h => cancelled_updCall (fun _ => ⟨rfl, fun h => h⟩) h
    obtain ⟨hcm, hcid⟩ := getCall_some hg
    refine ⟨?_, ?_, ?_⟩
    · exact cellOk_mono hc (fun _ h => List.mem_append_left _ h) (upd_same_cell (fun _ => ⟨rfl, rfl⟩)) hmono
    · refine retOk_mono hr (fun _ h => List.mem_append_left _ h) ?_ hmono (fun h => h)
      intro i r' hm
      simp only [List.mem_append, List.mem_singleton] at hm
      rcases hm with hm | hm
      · exact Or.inl hm
      · cases hm
        right
        rcases hwhy with ⟨_, hcell⟩ | ⟨_, hd, e⟩ | ⟨_, _, hst, e⟩
        · rcases hc c hcm r hcell with ⟨a, b⟩ | ⟨a, b⟩
          · exact Or.inl ⟨a, by rw [hcid] at b; exact List.mem_append_left _ b⟩
          · exact Or.inr (Or.inl ⟨a, by rw [hcid] at b; exact hmono _ b⟩)
        · exact Or.inr (Or.inl ⟨e, hmono _ ⟨c, hcm, hcid, hd⟩⟩)
        · exact Or.inr (Or.inr (Or.inl ⟨e, hst⟩))
    · simpa [FinOk, finIds_append, startIds_append, finIds, startIds] using hf
  | cancel id =>
    rw [cancel_effect cfg l l' id hs]
    have hmono : ∀ i, Cancelled l.calls i → Cancelled (updCall l.calls id (fun c => { c with ctxDone := true })) i :=
      fun i h => cancelled_updCall (fun _ => ⟨rfl, fun _ => rfl⟩) h
    refine ⟨?_, ?_, hf⟩
    · exact cellOk_mono hc (fun _ h => h) (upd_same_cell (fun _ => ⟨rfl, rfl⟩)) hmono
    · exact retOk_mono hr (fun _ h => h) (fun _ _ h => Or.inl h) hmono (fun h => h)
  | stop =>
    rw [stop_effect cfg l l' hs]
    refine ⟨?_, ?_, hf⟩
    · exact cellOk_mono hc (fun _ h => h) (fun rec hm => Or.inr ⟨rec, hm, rfl, rfl⟩) (fun _ h => h)
    · exact retOk_mono hr (fun _ h => h) (fun _ _ h => Or.inl h) (fun _ h => h) (fun _ => rfl)
  | run =>
    rcases run_effect cfg l l' hs with e | e | ⟨e, _, _⟩ <;> subst e
    · exact ⟨hc, hr, hf⟩
    · exact ⟨hc, hr, hf⟩
    · exact ⟨hc, hr, hf⟩
  | pop2 => rw [pop2_disabled cfg l _hi.cons2_none] at hs; cases hs

theorem rinv_reach (cfg : Cfg) (k : Kind) (cap idx : Nat) (hg : RunGuarded cfg k) (l : Lane)
    (hr : (laneLTS cfg k cap idx).Reach l) : LInv l ∧ RInv l := by
  have : (LInv l ∧ RInv l) ∧ l.kind = k := by
    induction hr with
    | init => exact ⟨⟨linv_init k cap idx, rinv_init k cap idx⟩, rfl⟩
    | step _ hstep ih =>
      exact ⟨⟨linv_step cfg _ _ _ (by rw [ih.2]; exact hg) ih.1.1 hstep, rinv_step cfg _ _ _ ih.1.1 ih.1.2 hstep⟩,
        (step_static cfg _ _ _ hstep).1.trans ih.2⟩
  exact this.1

theorem mem_finIds : ∀ (es : List Ev) (i : Nat) (x : Res), Ev.fin i x ∈ es → i ∈ finIds es
  | [], _, _, h => by cases h
  | e :: es, i, x, h => by
    rcases List.mem_cons.1 h with g | g
    · subst g; simp [finIds]
    · have hin := mem_finIds es i x g
      cases e <;> simp [finIds, hin]

/-- the callee of a call returns one value: two `fin` events of the same call carry the same result -/
theorem fin_unique_aux : ∀ (log : List Ev), (finIds log).Nodup → ∀ id r r', Ev.fin id r ∈ log → Ev.fin id r' ∈ log → r = r'
  | [], _, _, _, _, h, _ => by cases h
  | e :: es, hn, id, r, r', h1, h2 => by
    rcases List.mem_cons.1 h1 with g1 | g1 <;> rcases List.mem_cons.1 h2 with g2 | g2
    · rw [← g1] at g2; cases g2; rfl
    · subst g1
      simp only [finIds, List.nodup_cons] at hn
      exact absurd (mem_finIds es _ _ g2) hn.1
    · subst g2
      simp only [finIds, List.nodup_cons] at hn
      exact absurd (mem_finIds es _ _ g1) hn.1
    · have hn' : (finIds es).Nodup := by
        cases e <;> simp only [finIds] at hn
        · exact hn
        · exact (List.nodup_cons.1 hn).2
        · exact hn
        · exact hn
      exact fin_unique_aux es hn' id r r' g1 g2

end Nv.C14
