import Nv.Proofs.C01Sem
/-!
C01 — the per-key inductive invariant under the repaired delete guard, explicit descriptions of what
each step does to the holders and the queue of a key, and the lift to the map (`Key → KS`) and to the
sharded maps.
-/
namespace Nv.C01

/-! ### views of a key without orphans -/

@[simp] theorem holders_live (o : Sem) : (⟨some o, []⟩ : KS).holders = o.holders := by
  simp [KS.holders, KS.objs]
@[simp] theorem waiters_live (o : Sem) : (⟨some o, []⟩ : KS).waiters = o.waiters := by
  simp [KS.waiters, KS.objs]
@[simp] theorem holders_none : (⟨none, []⟩ : KS).holders = [] := by simp [KS.holders, KS.objs]
@[simp] theorem waiters_none : (⟨none, []⟩ : KS).waiters = [] := by simp [KS.waiters, KS.objs]

/-- per-key invariant: no orphan objects; the object in the map is numerically sound and somebody holds it -/
def KInv (size : Nat) (s : KS) : Prop :=
  s.orphans = [] ∧ ∀ o, s.live = some o → SemOk size o ∧ 0 < o.cur

theorem KInv.init (size : Nat) : KInv size KS.init := ⟨rfl, fun o h => by cases h⟩

theorem weight_bounds (rw : Nat) (hrw : 1 ≤ rw) (wr : Bool) : 1 ≤ weight rw wr ∧ weight rw wr ≤ rw := by
  cases wr <;> simp [weight] <;> omega

theorem weight_cases (rw : Nat) (wr : Bool) : weight rw wr = 1 ∨ weight rw wr = rw := by
  cases wr <;> simp [weight]

theorem acquire_cur_ge (size : Nat) (o : Sem) (t : Tid) (n : Nat) : o.cur ≤ (o.acquire size t n).cur := by
  unfold Sem.acquire
  split
  · simp
  · split <;> simp

theorem cancel_cur_ge (size : Nat) (o : Sem) (t : Tid) : o.cur ≤ (o.cancel size t).cur := by
  unfold Sem.cancel
  split
  · rw [notify_cur]; omega
  · simp

theorem ks_eta (s : KS) (o : Option Sem) (h1 : s.live = o) (h2 : s.orphans = []) : s = ⟨o, []⟩ := by
  cases s; simp_all

/-! ### what each step does (repaired guard, invariant assumed) -/

/-- acquire: granted at once iff nobody waits and it fits; otherwise queued at the back -/
theorem acquire_char (size : Nat) (s : KS) (t : Tid) (n : Nat) (hn1 : 1 ≤ n) (hn2 : n ≤ size) (h : KInv size s) :
    KInv size (s.acquire size t n) ∧ (s.acquire size t n).present = true ∧
    (if s.waiters = [] ∧ n ≤ size - wsum s.holders
      then (s.acquire size t n).holders = s.holders ++ [(t, n)] ∧ (s.acquire size t n).waiters = []
      else (s.acquire size t n).holders = s.holders ∧ (s.acquire size t n).waiters = s.waiters ++ [(t, n)]) := by
  obtain ⟨ho, hl⟩ := h
  cases hlive : s.live with
  | none =>
    have hs := ks_eta s none hlive ho
    subst hs
    simp only [KS.acquire, acquire_fresh size t n hn2]
    refine ⟨⟨rfl, fun o heq => ?_⟩, rfl, ?_⟩
    · cases heq; exact ⟨fresh_ok size t n hn1 hn2, by simp; omega⟩
    · simp [wsum, hn2]
  | some o =>
    have hs := ks_eta s (some o) hlive ho
    subst hs
    obtain ⟨hok, hpos⟩ := hl o rfl
    simp only [KS.acquire, holders_live, waiters_live]
    refine ⟨⟨rfl, fun o' heq => ?_⟩, rfl, ?_⟩
    · cases heq
      exact ⟨acquire_ok size o t n hn1 hn2 hok, Nat.lt_of_lt_of_le hpos (acquire_cur_ge size o t n)⟩
    · rw [← hok.cur_eq]
      unfold Sem.acquire
      by_cases hc : size - o.cur ≥ n ∧ o.waiters = []
      · simp only [hc, and_self, if_true]
      · have hc' : ¬ (o.waiters = [] ∧ n ≤ size - o.cur) := fun h => hc ⟨h.2, h.1⟩
        have hns : ¬ n > size := by omega
        simp only [hc, hc', hns, if_false]
        simp

/-- release by a holder: the releaser leaves, a prefix of the queue is admitted in order; the entry disappears
    exactly when nobody is left -/
theorem release_char (size : Nat) (s : KS) (t : Tid) (h : KInv size s) (hen : s.holds t = true) :
    ∃ o, s = ⟨some o, []⟩ ∧
      KInv size (s.release size .emptyAndIdle t) ∧
      (s.release size .emptyAndIdle t).holders = (o.release size t).holders ∧
      (s.release size .emptyAndIdle t).waiters = (o.release size t).waiters ∧
      ((s.release size .emptyAndIdle t).present = false ↔
        ((o.release size t).holders = [] ∧ (o.release size t).waiters = [])) := by
  obtain ⟨ho, hl⟩ := h
  cases hlive : s.live with
  | none =>
    have hs := ks_eta s none hlive ho
    subst hs
    simp [KS.holds] at hen
  | some o =>
    have hs := ks_eta s (some o) hlive ho
    subst hs
    obtain ⟨hok, _⟩ := hl o rfl
    have hin : holdsIn t o = true := by simpa [KS.holds, holdsIn] using hen
    have hok' := release_ok size o t hok
    refine ⟨o, rfl, ?_⟩
    simp only [KS.release, hin, if_true]
    cases hg : guardOk .emptyAndIdle (o.release size t) with
    | true =>
      have hw : (o.release size t).waiters = [] := by
        simp [guardOk] at hg; exact hg.1
      have hc : (o.release size t).cur = 0 := by
        simp [guardOk] at hg; exact hg.2
      have hh : (o.release size t).holders = [] :=
        wsum_zero_nil _ hok'.hpos (by rw [← hok'.cur_eq, hc])
      have href : referenced (o.release size t) = false := by simp [referenced, hh, hw]
      simp only [if_true, KS.deleteLive, href]
      refine ⟨⟨rfl, fun o' heq => by cases heq⟩, ?_, ?_, ?_⟩
      · simp [hh]
      · simp [hw]
      · simp [KS.present, hh, hw]
    | false =>
      simp only [Bool.false_eq_true, if_false]
      have hpos : 0 < (o.release size t).cur := by
        by_cases hw : (o.release size t).waiters = []
        · have : ¬ ((o.release size t).cur = 0) := by
            intro hc; simp [guardOk, hw, hc] at hg
          omega
        · exact hok'.cur_pos_of_waiters hw
      refine ⟨⟨rfl, fun o' heq => by cases heq; exact ⟨hok', hpos⟩⟩, by simp, by simp, ?_⟩
      simp only [KS.present, Option.isSome_some, Bool.true_eq_false, false_iff]
      intro hcon
      have := hok'.cur_eq
      rw [hcon.1] at this
      simp [wsum] at this
      omega

/-- cancel by a waiter: it leaves the queue; if it was the head, a prefix of the rest is admitted -/
theorem cancel_char (size : Nat) (s : KS) (t : Tid) (h : KInv size s) (hw : s.waits t = true) :
    ∃ o, s = ⟨some o, []⟩ ∧
      KInv size (s.cancel size t) ∧
      (s.cancel size t).holders = (o.cancel size t).holders ∧
      (s.cancel size t).waiters = (o.cancel size t).waiters ∧
      (s.cancel size t).present = true := by
  obtain ⟨ho, hl⟩ := h
  cases hlive : s.live with
  | none =>
    have hs := ks_eta s none hlive ho
    subst hs
    simp [KS.waits] at hw
  | some o =>
    have hs := ks_eta s (some o) hlive ho
    subst hs
    obtain ⟨hok, hpos⟩ := hl o rfl
    have hin : waitsIn t o = true := by simpa [KS.waits, waitsIn] using hw
    refine ⟨o, rfl, ?_⟩
    simp only [KS.cancel, hin, if_true]
    exact ⟨⟨rfl, fun o' heq => by cases heq; exact ⟨cancel_ok size o t hok, Nat.lt_of_lt_of_le hpos (cancel_cur_ge size o t)⟩⟩,
      by simp, by simp, rfl⟩

/-- cancel by somebody who is not waiting (already admitted): nothing changes -/
theorem cancel_noop (size : Nat) (s : KS) (t : Tid) (h : KInv size s) (hw : s.waits t = false) :
    s.cancel size t = s := by
  obtain ⟨ho, _⟩ := h
  cases hlive : s.live with
  | none =>
    have hs := ks_eta s none hlive ho
    subst hs
    simp [KS.cancel, KS.cancelOrphan]
  | some o =>
    have hs := ks_eta s (some o) hlive ho
    subst hs
    have hin : waitsIn t o = false := by simpa [KS.waits, waitsIn] using hw
    simp [KS.cancel, hin, KS.cancelOrphan]

/-- every enabled step preserves the per-key invariant -/
theorem kstep_inv (c : Cfg) (hc : Proved c) (rw : Nat) (hrw : 1 ≤ rw) (s : KS) (a : Act)
    (hen : s.enabled a = true) (h : KInv rw s) : KInv rw (s.step c rw a) := by
  have hg : c.guard = .emptyAndIdle := hc
  cases a with
  | acquire t k wr =>
    have hb := weight_bounds rw hrw wr
    exact (acquire_char rw s t _ hb.1 hb.2 h).1
  | release t k =>
    simp only [KS.step, hg]
    obtain ⟨_, _, hinv, _⟩ := release_char rw s t h (by simpa [KS.enabled] using hen)
    exact hinv
  | cancel t k =>
    simp only [KS.step]
    cases hw : s.waits t with
    | true =>
      obtain ⟨_, _, hinv, _⟩ := cancel_char rw s t h hw
      exact hinv
    | false => rw [cancel_noop rw s t h hw]; exact h

/-! ### the map -/

theorem upd_same (s : State) (k : Key) (v : KS) : upd s k v k = v := by simp [upd]
theorem upd_other (s : State) (k k' : Key) (v : KS) (h : k' ≠ k) : upd s k v k' = s k' := by simp [upd, h]

theorem step_some (c : Cfg) (rw : Nat) (s s' : State) (a : Act) (h : step c rw s a = some s') :
    (s a.key).enabled a = true ∧ s' = upd s a.key ((s a.key).step c rw a) := by
  unfold step at h
  split at h
  · rename_i he; cases h; exact ⟨he, rfl⟩
  · cases h

/-- a step only touches the key it names -/
theorem step_other_key (c : Cfg) (rw : Nat) (s s' : State) (a : Act) (h : step c rw s a = some s')
    (k : Key) (hk : k ≠ a.key) : s' k = s k := by
  obtain ⟨_, rfl⟩ := step_some c rw s s' a h
  exact upd_other _ _ _ _ hk

theorem step_this_key (c : Cfg) (rw : Nat) (s s' : State) (a : Act) (h : step c rw s a = some s') :
    s' a.key = (s a.key).step c rw a := by
  obtain ⟨_, rfl⟩ := step_some c rw s s' a h
  exact upd_same _ _ _

/-- the invariant holds for every key in every reachable state of the map -/
theorem reach_inv (c : Cfg) (hc : Proved c) (rw : Nat) (hrw : 1 ≤ rw) :
    ∀ s, (M c rw).Reach s → ∀ k, KInv rw (s k) := by
  apply LTS.inv_of_step (M c rw) (fun s => ∀ k, KInv rw (s k))
  · intro k; exact KInv.init rw
  · intro s a s' hinv hstep k
    have hstep' : step c rw s a = some s' := hstep
    by_cases hk : k = a.key
    · subst hk
      rw [step_this_key c rw s s' a hstep']
      exact kstep_inv c hc rw hrw _ a (step_some c rw s s' a hstep').1 (hinv _)
    · rw [step_other_key c rw s s' a hstep' k hk]; exact hinv k

/-! ### the sharded maps -/

theorem wstep_some (c : Cfg) (rw : Nat) (idx : Key → Nat) (ws ws' : WState) (a : Act)
    (h : wstep c rw idx ws a = some ws') :
    ∃ s', step c rw (ws (idx a.key)) a = some s' ∧ ws' = wupd ws (idx a.key) s' := by
  unfold wstep at h
  split at h
  · cases h
  · rename_i s' hs; cases h; exact ⟨s', hs, rfl⟩

/-- every shard of a reachable sharded map is a reachable single map -/
theorem wide_shard_reach (c : Cfg) (rw : Nat) (idx : Key → Nat) :
    ∀ ws, (MW c rw idx).Reach ws → ∀ i, (M c rw).Reach (ws i) := by
  apply LTS.inv_of_step (MW c rw idx) (fun ws => ∀ i, (M c rw).Reach (ws i))
  · intro i; exact LTS.Reach.init
  · intro ws a ws' hinv hstep i
    obtain ⟨s', hs, rfl⟩ := wstep_some c rw idx ws ws' a hstep
    by_cases hi : i = idx a.key
    · subst hi
      simp only [wupd, if_true]
      exact LTS.Reach.step (hinv _) hs
    · simp only [wupd, hi, if_false]; exact hinv i

/-- a key never appears in a shard it does not route to -/
theorem wide_other_shard_untouched (c : Cfg) (rw : Nat) (idx : Key → Nat) :
    ∀ ws, (MW c rw idx).Reach ws → ∀ i k, i ≠ idx k → ws i k = KS.init := by
  apply LTS.inv_of_step (MW c rw idx) (fun ws => ∀ i k, i ≠ idx k → ws i k = KS.init)
  · intro i k _; rfl
  · intro ws a ws' hinv hstep i k hik
    obtain ⟨s', hs, rfl⟩ := wstep_some c rw idx ws ws' a hstep
    by_cases hi : i = idx a.key
    · subst hi
      simp only [wupd, if_true]
      have hk : k ≠ a.key := fun h => hik (by rw [h])
      rw [step_other_key c rw _ s' a hs k hk]
      exact hinv _ k hik
    · simp only [wupd, hi, if_false]; exact hinv i k hik

theorem wstepR_some (c : Cfg) (rw : Nat) (idx : Key → Nat) (routable : Key → Bool) (ws ws' : WState) (a : Act)
    (h : wstepR c rw idx routable ws a = some ws') : routable a.key = true ∧ wstep c rw idx ws a = some ws' := by
  unfold wstepR at h
  split at h
  · rename_i hr; exact ⟨hr, h⟩
  · cases h

/-- every run of the sharded map with partial routing is a run of the sharded map -/
theorem wideR_reach (c : Cfg) (rw : Nat) (idx : Key → Nat) (routable : Key → Bool) :
    ∀ ws, (MWR c rw idx routable).Reach ws → (MW c rw idx).Reach ws := by
  apply LTS.inv_of_step (MWR c rw idx routable) (fun ws => (MW c rw idx).Reach ws)
  · exact LTS.Reach.init
  · intro ws a ws' hinv hstep
    exact LTS.Reach.step hinv (wstepR_some c rw idx routable ws ws' a hstep).2

/-- a key remap cannot route is unknown to every shard, for ever -/
theorem wideR_unroutable_untouched (c : Cfg) (rw : Nat) (idx : Key → Nat) (routable : Key → Bool) :
    ∀ ws, (MWR c rw idx routable).Reach ws → ∀ k, routable k = false → ∀ i, ws i k = KS.init := by
  apply LTS.inv_of_step (MWR c rw idx routable) (fun ws => ∀ k, routable k = false → ∀ i, ws i k = KS.init)
  · intro k _ i; rfl
  · intro ws a ws' hinv hstep k hk i
    obtain ⟨hr, hw⟩ := wstepR_some c rw idx routable ws ws' a hstep
    obtain ⟨s', hs, rfl⟩ := wstep_some c rw idx ws _ a hw
    have hne : k ≠ a.key := fun h => by rw [h, hr] at hk; cases hk
    by_cases hi : i = idx a.key
    · subst hi
      simp only [wupd, if_true]
      rw [step_other_key c rw _ s' a hs k hne]
      exact hinv k hk _
    · simp only [wupd, hi, if_false]; exact hinv k hk i

/-- with pure routing, whatever the router's internal state does and whatever other containers do, the shards
    evolve exactly as in `MW` with that routing function -/
theorem pure_router_reach {ρ : Type} (c : Cfg) (rw : Nat) (R : Router ρ) (r0 : ρ) (idx : Key → Nat)
    (hp : R.Pure idx) : ∀ s, (MWH c rw R r0).Reach s → (MW c rw idx).Reach s.1 := by
  apply LTS.inv_of_step (MWH c rw R r0) (fun s => (MW c rw idx).Reach s.1)
  · exact LTS.Reach.init
  · intro s a s' hinv hst
    cases a with
    | other =>
      have : s' = (s.1, R.other s.2) := by
        have h : hstep c rw R s .other = some s' := hst
        simp [Nv.C01.hstep] at h; exact h.symm
      rw [this]; exact hinv
    | act a =>
      have h : hstep c rw R s (.act a) = some s' := hst
      simp only [Nv.C01.hstep, hp s.2 a.key] at h
      split at h
      · cases h
      · rename_i s1 hs1
        cases h
        apply LTS.Reach.step hinv (a := a)
        show wstep c rw idx s.1 a = _
        simp [wstep, hs1]

/-- the sharded map is step for step the single map obtained by reading every key from its shard -/
theorem wide_step_proj (c : Cfg) (rw : Nat) (idx : Key → Nat) (ws ws' : WState) (a : Act)
    (h : wstep c rw idx ws a = some ws') : step c rw (wproj idx ws) a = some (wproj idx ws') := by
  obtain ⟨s', hs, rfl⟩ := wstep_some c rw idx ws ws' a h
  obtain ⟨hen, rfl⟩ := step_some c rw _ s' a hs
  have hen' : ((wproj idx ws) a.key).enabled a = true := hen
  unfold step
  simp only [hen', if_true]
  congr 1
  funext k
  by_cases hk : k = a.key
  · subst hk; simp [wproj, wupd, upd]
  · by_cases hi : idx k = idx a.key
    · simp [wproj, wupd, upd, hk, hi]
    · simp [wproj, wupd, upd, hk, hi]

theorem wide_refines_single (c : Cfg) (rw : Nat) (idx : Key → Nat) :
    ∀ ws, (MW c rw idx).Reach ws → (M c rw).Reach (wproj idx ws) := by
  apply LTS.inv_of_step (MW c rw idx) (fun ws => (M c rw).Reach (wproj idx ws))
  · exact LTS.Reach.init
  · intro ws a ws' hinv hstep
    exact LTS.Reach.step hinv (wide_step_proj c rw idx ws ws' a hstep)

end Nv.C01
