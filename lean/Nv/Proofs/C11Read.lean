import Nv.Proofs.C11Sim
/-! C11 — simulation of the read-side operations. -/
namespace Nv.C11
open Spec

theorem drop_take_length {α} (l : List α) (k : Nat) : l.drop (l.take k).length = l.drop k := by
  rw [List.length_take]
  by_cases h : k ≤ l.length
  · rw [Nat.min_eq_left h]
  · rw [Nat.min_eq_right (by omega), List.drop_length, List.drop_eq_nil_of_le (by omega)]

/-- the last byte handed out sits just before the new offset -/
theorem lastOfTaken_rel {i : St} (k : Nat) :
    LastRel { i with off := i.off + ((i.buf.drop i.off).take k).length,
                     lastRead := if ((i.buf.drop i.off).take k).length > 0 then -1 else 0 }
      (lastOfTaken ((i.buf.drop i.off).take k)) := by
  unfold lastOfTaken
  cases hl : ((i.buf.drop i.off).take k).getLast? with
  | none =>
    have : (i.buf.drop i.off).take k = [] := by simpa using hl
    simp [LastRel, this]
  | some b =>
    have hne : (i.buf.drop i.off).take k ≠ [] := by intro h; simp [h] at hl
    have hpos : 0 < ((i.buf.drop i.off).take k).length := List.length_pos_iff.2 hne
    rw [List.getLast?_eq_getElem?] at hl
    simp only [LastRel, hpos, if_true, true_and]
    refine ⟨by omega, ?_⟩
    rw [List.getElem?_take] at hl
    split at hl
    · rw [List.getElem?_drop] at hl
      rw [← hl]; congr 1; omega
    · cases hl


theorem sim_read {t : Bool} {i : St} {s : SSt} (R : Rel t i s) (k : Nat) :
    StepOk false (read i k) (Spec.step s (.read k)) := by
  have h1 := R.inv.off_le
  have hd := R.data
  unfold read Spec.step
  simp only
  by_cases he : i.buf.length ≤ i.off
  · have hl : s.data.length = 0 := by rw [hd]; simp; omega
    simp only [he, hl, if_true]
    refine ⟨rfl, inv_reset (inv_lastRead R.inv 0), ?_, fun _ => ?_⟩
    · simp [reset]
    · simp [LastRel, reset]
  · have hl : ¬ s.data.length = 0 := by rw [hd]; simp; omega
    simp only [he, hl, if_false]
    rw [hd]
    refine ⟨rfl, ⟨?_, ?_, R.inv.cap_le, R.inv.nil_cap⟩, ?_, fun _ => lastOfTaken_rel k⟩
    · simp; omega
    · exact R.inv.len_le
    · simp only
      rw [← List.drop_drop, drop_take_length]

theorem sim_next {t : Bool} {i : St} {s : SSt} (R : Rel t i s) (n : Int) :
    StepOk false (next i n) (Spec.step s (.next n)) := by
  have h1 := R.inv.off_le
  have hd := R.data
  unfold next Spec.step
  simp only
  by_cases hn : n < 0
  · simp only [hn, if_true]
    exact ⟨rfl, inv_lastRead R.inv 0, hd, fun _ => rfl⟩
  · simp only [hn, if_false]
    rw [hd]
    refine ⟨rfl, ⟨?_, ?_, R.inv.cap_le, R.inv.nil_cap⟩, ?_, fun _ => lastOfTaken_rel n.toNat⟩
    · simp; omega
    · exact R.inv.len_le
    · simp only
      rw [← List.drop_drop, drop_take_length]

theorem sim_readByte {t : Bool} {i : St} {s : SSt} (R : Rel t i s) :
    StepOk false (readByte i) (Spec.step s .readByte) := by
  have h1 := R.inv.off_le
  have hd := R.data
  unfold readByte Spec.step
  simp only
  rw [hd]
  cases hx : i.buf.drop i.off with
  | nil =>
    refine ⟨rfl, inv_reset R.inv, ?_, fun _ => ?_⟩
    · simp [reset]
    · simp [LastRel, reset]
  | cons b rest =>
    have hlen : i.off < i.buf.length := by
      have : (i.buf.drop i.off).length = rest.length + 1 := by rw [hx]; simp
      simp at this; omega
    refine ⟨rfl, ⟨?_, R.inv.len_le, R.inv.cap_le, R.inv.nil_cap⟩, ?_, fun _ => ?_⟩
    · simp; omega
    · simp only
      rw [← List.drop_drop, hx]; rfl
    · simp only [LastRel, true_and]
      refine ⟨by omega, ?_⟩
      have : (i.buf.drop i.off)[0]? = some b := by rw [hx]; rfl
      rw [List.getElem?_drop] at this
      simpa using this

end Nv.C11
