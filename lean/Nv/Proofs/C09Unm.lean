import Nv.Model.C09
import Nv.Proofs.C08Set
/-! C09 — `Unmarshal`: never panics; when it succeeds the bitmap is exactly the set the bytes denote. Core only. -/
namespace Nv.C09
open Nv.C08

theorem rd16_some (buf : List Byte) (off : Nat) (h : off + 2 ≤ buf.length) : ∃ v, rd16 buf off = some v := by
  unfold rd16
  have hl : (buf.drop off).length = buf.length - off := List.length_drop ..
  match hd : buf.drop off with
  | [] => rw [hd] at hl; simp at hl; omega
  | [_] => rw [hd] at hl; simp at hl; omega
  | lo :: hi :: _ => exact ⟨hi ++ lo, rfl⟩

theorem rd64_some (buf : List Byte) (off : Nat) (h : off + 8 ≤ buf.length) : ∃ v, rd64 buf off = some v := by
  unfold rd64
  have hl : (buf.drop off).length = buf.length - off := List.length_drop ..
  match hd : buf.drop off with
  | b0 :: b1 :: b2 :: b3 :: b4 :: b5 :: b6 :: b7 :: _ => exact ⟨_, rfl⟩
  | [] => rw [hd] at hl; simp at hl; omega
  | [_] => rw [hd] at hl; simp at hl; omega
  | [_, _] => rw [hd] at hl; simp at hl; omega
  | [_, _, _] => rw [hd] at hl; simp at hl; omega
  | [_, _, _, _] => rw [hd] at hl; simp at hl; omega
  | [_, _, _, _, _] => rw [hd] at hl; simp at hl; omega
  | [_, _, _, _, _, _] => rw [hd] at hl; simp at hl; omega
  | [_, _, _, _, _, _, _] => rw [hd] at hl; simp at hl; omega

theorem unmSparse_no_panic (buf : List Byte) : ∀ (idxs : List Nat) (b : Bit1024),
    (∀ i ∈ idxs, i * 2 + 2 ≤ buf.length) → unmSparse buf idxs b ≠ .panic
  | [], b, _ => by simp [unmSparse]
  | i :: is, b, h => by
    obtain ⟨v, hv⟩ := rd16_some buf (i * 2) (h i (by simp))
    unfold unmSparse
    rw [hv]
    simp only
    split
    · simp
    · exact unmSparse_no_panic buf is _ (fun j hj => h j (by simp [hj]))

theorem unmDense_no_panic (buf : List Byte) : ∀ (idxs : List Nat) (b : Bit1024),
    (∀ i ∈ idxs, i < 16 ∧ i * 8 + 8 ≤ buf.length) → unmDense buf idxs b ≠ .panic
  | [], b, _ => by simp [unmDense]
  | i :: is, b, h => by
    have hi := h i (by simp)
    obtain ⟨v, hv⟩ := rd64_some buf (i * 8) hi.2
    unfold unmDense
    rw [hv]
    simp only [hi.1, dite_true]
    exact unmDense_no_panic buf is _ (fun j hj => h j (by simp [hj]))

/-- `Unmarshal` of arbitrary bytes never panics, into any bitmap -/
theorem unmarshal_no_panic (b : Bit1024) (buf : List Byte) : unmarshal b buf ≠ .panic := by
  unfold unmarshal
  simp only
  split; · simp
  split; · simp
  split; · simp
  split
  · apply unmSparse_no_panic
    intro i hi
    have := List.mem_range.1 hi
    omega
  · apply unmDense_no_panic
    intro i hi
    have := List.mem_range.1 hi
    omega

/-- an `int16` element in 0..1023 is the 16-bit pattern of that number -/
theorem elem_eq (v : BitVec 16) (j : Nat) (hj : j < 1024) :
    (0 ≤ v.toInt ∧ v.toInt < 1024 ∧ v.toInt = (j : Int)) ↔ v = BitVec.ofNat 16 j := by
  have c := BitVec.toInt_eq_toNat_cond v
  have l := v.isLt
  constructor
  · intro ⟨h1, h2, h3⟩
    apply BitVec.eq_of_toNat_eq
    rw [BitVec.toNat_ofNat]
    split at c <;> omega
  · intro h
    have : v.toNat = j := by rw [h, BitVec.toNat_ofNat]; omega
    split at c <;> omega

theorem unmSparse_ok (buf : List Byte) : ∀ (idxs : List Nat) (b b' : Bit1024), unmSparse buf idxs b = .ok b' →
    ∀ j, j < 1024 → (mem1024 b' j = true ↔
      (mem1024 b j = true ∨ ∃ k, k ∈ idxs ∧ rd16 buf (k * 2) = some (BitVec.ofNat 16 j)))
  | [], b, b', h, j, _ => by
    simp only [unmSparse, URes.ok.injEq] at h
    subst h; simp
  | i :: is, b, b', h, j, hj => by
    unfold unmSparse at h
    split at h
    · cases h
    · rename_i v hv
      split at h
      · cases h
      · rename_i hvalid
        have ih := unmSparse_ok buf is _ b' h j hj
        rw [ih, setI16_mem]
        have hrange : 0 ≤ v.toInt ∧ v.toInt < 1024 := by omega
        constructor
        · rintro (h1 | ⟨k, hk, hr⟩)
          · simp only [Bool.or_eq_true, decide_eq_true_eq] at h1
            rcases h1 with h1 | h1
            · exact Or.inl h1
            · exact Or.inr ⟨i, by simp, by rw [hv, (elem_eq v j hj).1 h1]⟩
          · exact Or.inr ⟨k, by simp [hk], hr⟩
        · rintro (h1 | ⟨k, hk, hr⟩)
          · left; simp [h1]
          · rcases List.mem_cons.1 hk with e | hk'
            · subst e
              rw [hv] at hr
              have : v = BitVec.ofNat 16 j := by simpa using hr
              left
              simp only [Bool.or_eq_true, decide_eq_true_eq]
              exact Or.inr ((elem_eq v j hj).2 this)
            · exact Or.inr ⟨k, hk', hr⟩

theorem unmDense_ok (buf : List Byte) : ∀ (idxs : List Nat) (b b' : Bit1024), unmDense buf idxs b = .ok b' →
    ∀ k, k < 16 → word b' k = if k ∈ idxs then (rd64 buf (k * 8)).getD 0#64 else word b k
  | [], b, b', h, k, _ => by
    simp only [unmDense, URes.ok.injEq] at h
    subst h; simp
  | i :: is, b, b', h, k, hk => by
    unfold unmDense at h
    split at h
    · cases h
    · rename_i v hv
      split at h
      · rename_i hi
        have ih := unmDense_ok buf is _ b' h k hk
        rw [ih]
        by_cases hkis : k ∈ is
        · simp [hkis]
        · simp only [hkis, if_false, List.mem_cons]
          by_cases e : k = i
          · subst e; simp [word, hk, hv]
          · have : ¬ i = k := fun h => e h.symm
            simp [word, hk, e, this]
      · cases h

theorem mem_empty1024 (j : Nat) : mem1024 empty1024 j = false := by
  unfold mem1024 empty1024
  split <;> simp

/-- **exactness**: when `Unmarshal` into a fresh bitmap succeeds, the bitmap is exactly the set the bytes denote -/
theorem unmarshal_exact (buf : List Byte) (b' : Bit1024) (h : unmarshal empty1024 buf = .ok b') :
    ∀ i, i < 1024 → (mem1024 b' i = true ↔ (buf ≠ [] ∧ denotes buf i)) := by
  intro i hi
  unfold unmarshal at h
  simp only at h
  split at h
  · rename_i h0
    have : buf = [] := List.length_eq_zero_iff.1 h0
    cases h; simp [this, mem_empty1024]
  · rename_i h0
    have hne : buf ≠ [] := fun e => h0 (by simp [e])
    split at h; · cases h
    split at h; · cases h
    split at h
    · rename_i hlt
      rw [unmSparse_ok buf _ _ _ h i hi]
      simp only [mem_empty1024, Bool.false_eq_true, false_or, denotes, hlt, if_true, List.mem_range, hne, ne_eq,
        not_false_eq_true, true_and]
    · rename_i hlt
      have hk : i / 64 < 16 := by omega
      have hw := unmDense_ok buf _ _ _ h (i / 64) hk
      simp only [List.mem_range, hk, if_true] at hw
      rw [mem1024_eq_word, hw]
      simp only [denotes, hlt, if_false, hne, ne_eq, not_false_eq_true, true_and]
      constructor
      · intro hb
        cases hr : rd64 buf (i / 64 * 8) with
        | none => rw [hr] at hb; simp at hb
        | some v => rw [hr] at hb; exact ⟨v, rfl, by simpa using hb⟩
      · rintro ⟨v, hv, hb⟩
        rw [hv]; simpa using hb

/-- `Unmarshal` into an arbitrary (non-fresh) bitmap, as the code behaves: the receiver is **not** cleared. No bytes
    leave it untouched; the sparse form (< 128 bytes) *adds* the listed elements to what was there; only the dense form
    (128 bytes) overwrites all 16 words. Hence "yields exactly the set the bytes denote" needs a fresh target. -/
theorem unmarshal_into (b : Bit1024) (buf : List Byte) (b' : Bit1024) (h : unmarshal b buf = .ok b') :
    ∀ i, i < 1024 → (mem1024 b' i = true ↔
      (if buf = [] then mem1024 b i = true
       else if buf.length < 128 then (mem1024 b i = true ∨ denotes buf i)
       else denotes buf i)) := by
  intro i hi
  unfold unmarshal at h
  simp only at h
  split at h
  · rename_i h0
    have : buf = [] := List.length_eq_zero_iff.1 h0
    cases h; simp [this]
  · rename_i h0
    have hne : buf ≠ [] := fun e => h0 (by simp [e])
    split at h; · cases h
    split at h; · cases h
    split at h
    · rename_i hlt
      rw [unmSparse_ok buf _ _ _ h i hi]
      simp only [denotes, hlt, if_true, List.mem_range, hne, if_false]
    · rename_i hlt
      have hk : i / 64 < 16 := by omega
      have hw := unmDense_ok buf _ _ _ h (i / 64) hk
      simp only [List.mem_range, hk, if_true] at hw
      rw [mem1024_eq_word, hw]
      simp only [denotes, hlt, if_false, hne]
      constructor
      · intro hb
        cases hr : rd64 buf (i / 64 * 8) with
        | none => rw [hr] at hb; simp at hb
        | some v => rw [hr] at hb; exact ⟨v, rfl, by simpa using hb⟩
      · rintro ⟨v, hv, hb⟩
        rw [hv]; simpa using hb

/-- what makes `Unmarshal` fail: too long, odd length, or (sparse form) an element outside 0..1023 -/
theorem unmarshal_rejects (b : Bit1024) (buf : List Byte) (h : buf.length > 128 ∨ buf.length % 2 = 1) :
    ∃ e, unmarshal b buf = .err e b := by
  unfold unmarshal
  simp only
  have h0 : buf.length ≠ 0 := by omega
  simp only [h0, if_false]
  by_cases hl : buf.length > 128
  · exact ⟨.range buf.length, by simp [hl]⟩
  · have : buf.length % 2 ≠ 0 := by omega
    exact ⟨.length buf.length, by simp [hl, this]⟩

end Nv.C09
