import Nv.Model.C12
import Nv.Proofs.C12Defs
/-! C12 — one-step FIFO equation for every operation without front insertion (case analysis). -/
namespace Nv.C12

theorem addReq_cases (t : LQ) (x : Nat) :
    addReq Shape.expected t x = ({ t with req := t.req ++ [x] }, .ok) ∨
    addReq Shape.expected t x = (t, .closed) ∨ addReq Shape.expected t x = (t, .full) := by
  unfold addReq
  simp only [Shape.expected, if_true]
  by_cases h1 : t.closed = true
  · simp [h1]
  · by_cases h2 : fullAt t.reqCap t.req.length = true
    · simp [h1, h2]
    · simp [h1, h2]

theorem popAnyway_cons (s : LQ) (v : Nat) (t : List Nat) (hc : s.ctrl = []) (hr : s.req = v :: t) :
    popNow Shape.expected true s = some ({ s with req := t }, .val v) := by
  rw [popAnyway_spec']; simp [hc, hr]

theorem popAnyway_nil (s : LQ) (hc : s.ctrl = []) (hr : s.req = []) :
    popNow Shape.expected true s = if s.closed then some (s, .closed) else none := by
  rw [popAnyway_spec']; simp [hc, hr]

theorem drainFor_fifo (x : Nat) : ∀ (n : Nat) (s : LQ) (acc : List Nat), s.ctrl = [] →
    (drainFor (fun t => addReq Shape.expected t x) (popNow Shape.expected true) n s acc).1.ctrl = [] ∧
    (drainFor (fun t => addReq Shape.expected t x) (popNow Shape.expected true) n s acc).1.kind = s.kind ∧
    poppedOf (drainFor (fun t => addReq Shape.expected t x) (popNow Shape.expected true) n s acc).2 ++
      (drainFor (fun t => addReq Shape.expected t x) (popNow Shape.expected true) n s acc).1.req =
    acc.reverse ++ s.req ++
      (if okOut (drainFor (fun t => addReq Shape.expected t x) (popNow Shape.expected true) n s acc).2 = true then [x] else []) := by
  intro n
  induction n with
  | zero => intro s acc hc; simp [drainFor, poppedOf, okOut, hc]
  | succ n ih =>
    intro s acc hc
    cases hr : s.req with
    | nil =>
      unfold drainFor
      rw [popAnyway_nil s hc hr]
      cases s.closed <;> simp [poppedOf, okOut, hc, hr]
    | cons v t =>
      unfold drainFor
      rw [popAnyway_cons s v t hc hr]
      simp only
      rcases addReq_cases { s with req := t } x with h | h | h
      · simp only [h]; simp [isFullOut, spinEnd, poppedOf, okOut, hc]
      · simp only [h]; simp [isFullOut, spinEnd, poppedOf, okOut, hc]
      · simp only [h, isFullOut, if_true]
        have := ih { s with req := t } (v :: acc) hc
        refine ⟨this.1, this.2.1, ?_⟩
        rw [this.2.2]; simp

theorem addAnyway_fifo (x : Nat) (rp : Bool) (s : LQ) (hc : s.ctrl = []) :
    (addAnyway (fun t => addReq Shape.expected t x) (popNow Shape.expected true) rp s).1.ctrl = [] ∧
    (addAnyway (fun t => addReq Shape.expected t x) (popNow Shape.expected true) rp s).1.kind = s.kind ∧
    poppedOf (addAnyway (fun t => addReq Shape.expected t x) (popNow Shape.expected true) rp s).2 ++
      (addAnyway (fun t => addReq Shape.expected t x) (popNow Shape.expected true) rp s).1.req =
    s.req ++ (if okOut (addAnyway (fun t => addReq Shape.expected t x) (popNow Shape.expected true) rp s).2 = true then [x] else []) := by
  unfold addAnyway
  rcases addReq_cases s x with h | h | h
  · simp only [h]; simp [isFullOut, poppedOf, okOut, hc]
  · simp only [h]; simp [isFullOut, poppedOf, okOut, hc]
  · simp only [h, isFullOut, Bool.not_true, Bool.false_eq_true, if_false]
    cases rp with
    | true => simpa using drainFor_fifo x (s.size + 1) s [] hc
    | false =>
      simp only [Bool.false_eq_true, if_false]
      have hcl : (addReq Shape.expected (closeQ s) x) = (closeQ s, .closed) := closed_refuses' (closeQ s) x rfl
      rw [hcl]; simp [poppedOf, okOut, spinEnd, closeQ, hc]

/-- one step: handed out ++ new queue = old queue ++ accepted -/
theorem step_fifo (s : LQ) (op : Op) (hc : s.ctrl = []) (hop : noFront op = true) :
    (step Cfg.expected s op).1.ctrl = [] ∧ (step Cfg.expected s op).1.kind = s.kind ∧
    poppedOf (step Cfg.expected s op).2 ++ (step Cfg.expected s op).1.req =
      s.req ++ acceptedOf s op (step Cfg.expected s op).2 := by
  cases op with
  | addAny x rp =>
    have h := addAnyway_fifo x rp s hc
    cases hk : s.kind <;> simp only [step, hk, Cfg.expected, stepPipe, stepMQ, stepSync, acceptedOf]
    case syncq => simp [poppedOf, okOut, hc]
    all_goals
      refine ⟨h.1, by rw [h.2.1]; exact hk, ?_⟩
      rw [h.2.2]; simp [hk]
  | prior x => simp [noFront] at hop
  | addCtrl x => simp [noFront] at hop
  | priorCtrl x => simp [noFront] at hop
  | addCtrlAny x rp => simp [noFront] at hop
  | _ =>
    obtain ⟨k, ctrl, req, cc, rc, cl, clr⟩ := s
    simp only at hc; subst hc
    cases k <;>
      simp only [step, Cfg.expected, stepPipe, stepMQ, stepSync, addReq, popNow, takeFront,
        orBlock, closeQ, tryClose, tryClear, syncPush, syncPopNow, syncTryPop, Shape.expected, SyncShape.expected,
        LQ.isEmpty, poppedOf, acceptedOf, okOut, if_true, Bool.false_and, Bool.true_and, Bool.not_true,
        Bool.not_false] <;>
      (try cases cl) <;> (try cases clr) <;> (try cases req) <;>
      simp [okOut, poppedOf] <;> (try split) <;> (try simp_all [okOut, poppedOf])


end Nv.C12
