import Nv.Proofs.C20Fmt
/-! C20 — helper lemmas: `time.ParseDuration (d.String()) = d` on the models (every int64 duration). -/
namespace Nv.C20

theorem baseVal_shift (base : Nat) : ∀ (s : Bytes) (x : Nat), baseVal base x s = x * base ^ s.length + baseVal base 0 s
  | [], x => by simp [baseVal]
  | c :: cs, x => by
    rw [baseVal_cons, baseVal_cons, baseVal_shift base cs (x * base + _), baseVal_shift base cs (0 * base + _)]
    simp only [List.length_cons, Nat.pow_succ]
    grind

/-- the rest of the text does not continue the digit run -/
def NoDigitHead (rest : Bytes) : Prop := ∀ c cs, rest = c :: cs → isDig c = false

theorem isDig_of_dec {c : Nat} (h : 48 ≤ c ∧ c ≤ 57) : isDig c = true := by simp [isDig, h.1, h.2]

theorem leadingInt_digits : ∀ (ds : Bytes) (x : Nat) (rest : Bytes), (∀ c ∈ ds, 48 ≤ c ∧ c ≤ 57) → NoDigitHead rest →
    baseVal 10 x ds ≤ 2 ^ 63 → leadingInt x (ds ++ rest) = some (baseVal 10 x ds, rest)
  | [], x, rest, _, hr, _ => by
    cases rest with
    | nil => rfl
    | cons c cs => simp [leadingInt, hr c cs rfl, baseVal]
  | c :: cs, x, rest, hd, hr, hv => by
    have hc := hd c (by simp)
    rw [baseVal_cons, digitVal_of_dec hc] at hv ⊢
    simp only [Option.getD_some] at hv ⊢
    have hmono := baseVal_ge 10 (by omega) cs (x * 10 + (c - 48))
    simp only [List.cons_append, leadingInt, isDig_of_dec hc, if_true]
    rw [if_neg (by omega), if_neg (by omega)]
    exact leadingInt_digits cs _ rest (fun y hy => hd y (by simp [hy])) hr hv

theorem leadingFraction_digits : ∀ (ds : Bytes) (x sc : Nat) (rest : Bytes), (∀ c ∈ ds, 48 ≤ c ∧ c ≤ 57) → NoDigitHead rest →
    baseVal 10 x ds < 10 ^ 18 → leadingFraction x sc false (ds ++ rest) = (baseVal 10 x ds, sc * 10 ^ ds.length, rest)
  | [], x, sc, rest, _, hr, _ => by
    cases rest with
    | nil => simp [leadingFraction, baseVal]
    | cons c cs => simp [leadingFraction, hr c cs rfl, baseVal]
  | c :: cs, x, sc, rest, hd, hr, hv => by
    have hc := hd c (by simp)
    rw [baseVal_cons, digitVal_of_dec hc] at hv ⊢
    simp only [Option.getD_some] at hv ⊢
    have hmono := baseVal_ge 10 (by omega) cs (x * 10 + (c - 48))
    simp only [List.cons_append, leadingFraction, isDig_of_dec hc, if_true, Bool.false_eq_true, if_false]
    rw [if_neg (by omega), if_neg (by omega)]
    rw [leadingFraction_digits cs _ _ rest (fun y hy => hd y (by simp [hy])) hr hv]
    simp only [List.length_cons, Nat.pow_succ]
    congr 2
    grind

/-- where a unit name stops: at the end, at a digit or at a period -/
def UnitStop (rest : Bytes) : Prop := ∀ c cs, rest = c :: cs → (c = 46 ∨ isDig c = true)

theorem spanUnit_stop {rest : Bytes} (h : UnitStop rest) : spanUnit rest = ([], rest) := by
  cases rest with
  | nil => rfl
  | cons c cs =>
    rcases h c cs rfl with h | h <;> simp [spanUnit, h]

theorem spanUnit_append : ∀ (u rest : Bytes), (∀ c ∈ u, c ≠ 46 ∧ isDig c = false) → UnitStop rest →
    spanUnit (u ++ rest) = (u, rest)
  | [], rest, _, hr => spanUnit_stop hr
  | c :: cs, rest, hu, hr => by
    have hc := hu c (by simp)
    simp only [List.cons_append, spanUnit, hc.1, hc.2, decide_false, Bool.or_self, Bool.false_eq_true, if_false,
      spanUnit_append cs rest (fun y hy => hu y (by simp [hy])) hr]

/-! ### the fraction printed by `fmtFrac` -/

theorem digitChar_dec {d : Nat} (h : d < 10) : digitChar d = 48 + d := by simp [digitChar, h]

theorem fracDigits_dec : ∀ (p v : Nat), ∀ c ∈ fracDigits p v, 48 ≤ c ∧ c ≤ 57
  | 0, _ => by intro c hc; cases hc
  | p + 1, v => by
    intro c hc
    simp only [fracDigits] at hc
    split at hc
    · cases hc
    · rcases List.mem_cons.1 hc with rfl | hc
      · have : v / 10 ^ p % 10 < 10 := Nat.mod_lt _ (by omega)
        rw [digitChar_dec this]; omega
      · exact fracDigits_dec p v c hc

theorem fracDigits_length : ∀ (p v : Nat), (fracDigits p v).length ≤ p
  | 0, _ => by simp [fracDigits]
  | p + 1, v => by
    simp only [fracDigits]
    split
    · simp
    · simp only [List.length_cons]; have := fracDigits_length p v; omega

/-- the printed fraction, padded back to `p` digits, is `v mod 10^p` -/
theorem fracDigits_val : ∀ (p v : Nat),
    baseVal 10 0 (fracDigits p v) * 10 ^ (p - (fracDigits p v).length) = v % 10 ^ p
  | 0, v => by simp [fracDigits, baseVal, Nat.mod_one]
  | p + 1, v => by
    simp only [fracDigits]
    split
    · rename_i h0; simp [baseVal, h0]
    · have ih := fracDigits_val p v
      have hl := fracDigits_length p v
      have hd : v / 10 ^ p % 10 < 10 := Nat.mod_lt _ (by omega)
      rw [baseVal_cons, digitVal_of_dec (by rw [digitChar_dec hd]; omega), baseVal_shift]
      simp only [Option.getD_some, List.length_cons, Nat.zero_mul, Nat.zero_add]
      have e1 : digitChar (v / 10 ^ p % 10) - 48 = v / 10 ^ p % 10 := by rw [digitChar_dec hd]; omega
      rw [e1, show p + 1 - ((fracDigits p v).length + 1) = p - (fracDigits p v).length by omega, Nat.add_mul, ih,
        Nat.mul_assoc, ← Nat.pow_add, show (fracDigits p v).length + (p - (fracDigits p v).length) = p by omega,
        Nat.mod_pow_succ]
      grind

end Nv.C20

namespace Nv.C20

theorem fracDigits_ne_nil : ∀ (p v : Nat), v % 10 ^ p ≠ 0 → fracDigits p v ≠ []
  | 0, v, h => by simp [Nat.mod_one] at h
  | p + 1, v, h => by simp [fracDigits, h]

theorem fmtNat10_facts (n : Nat) (hn : n < 2 ^ 64) :
    fmtNat 10 n ≠ [] ∧ (∀ c ∈ fmtNat 10 n, 48 ≤ c ∧ c ≤ 57) ∧ baseVal 10 0 (fmtNat 10 n) = n := by
  have sp := fmtNat_spec 10 (by omega) (by omega) n hn
  exact ⟨sp.1, (baseDigits10_iff _).1 sp.2.1, sp.2.2⟩

theorem startsNum_fmtNat (n : Nat) (hn : n < 2 ^ 64) (t : Bytes) : startsNum (fmtNat 10 n ++ t) = true := by
  obtain ⟨hne, hd, _⟩ := fmtNat10_facts n hn
  cases h : fmtNat 10 n with
  | nil => exact absurd h hne
  | cons c cs =>
    have := hd c (by rw [h]; simp)
    simp [startsNum, isDig_of_dec this]

theorem fractionPart_nodot {s : Bytes} (h : ∀ c cs, s = c :: cs → c ≠ 46) : fractionPart s = (0, 1, s, false) := by
  cases s with
  | nil => rfl
  | cons c cs =>
    unfold fractionPart
    split
    · rename_i t heq
      simp only [List.cons.injEq] at heq
      exact absurd heq.1 (h c cs rfl)
    · rfl

theorem noDigitHead_unit {u rest : Bytes} (hune : u ≠ []) (huc : ∀ c ∈ u, c ≠ 46 ∧ isDig c = false) :
    NoDigitHead (u ++ rest) := by
  intro c cs h
  cases u with
  | nil => exact absurd rfl hune
  | cons a as =>
    simp only [List.cons_append, List.cons.injEq] at h
    rw [← h.1]; exact (huc a (by simp)).2

theorem head_unit_ne_dot {u rest : Bytes} (hune : u ≠ []) (huc : ∀ c ∈ u, c ≠ 46 ∧ isDig c = false) :
    ∀ c cs, u ++ rest = c :: cs → c ≠ 46 := by
  intro c cs h
  cases u with
  | nil => exact absurd rfl hune
  | cons a as =>
    simp only [List.cons_append, List.cons.injEq] at h
    rw [← h.1]; exact (huc a (by simp)).1

/-- one component without a fraction: `<n><unit>` -/
theorem parseComponent_plain (n U : Nat) (u rest : Bytes) (hn : n ≤ 2 ^ 63) (hu : unitOf u = some U) (hune : u ≠ [])
    (huc : ∀ c ∈ u, c ≠ 46 ∧ isDig c = false) (hr : UnitStop rest) (hfit : n ≤ 2 ^ 63 / U) :
    parseComponent (fmtNat 10 n ++ (u ++ rest)) = some (n * U, rest) := by
  obtain ⟨hne, hd, hv⟩ := fmtNat10_facts n (by omega)
  have hli := leadingInt_digits (fmtNat 10 n) 0 (u ++ rest) hd (noDigitHead_unit hune huc) (by rw [hv]; exact hn)
  rw [hv] at hli
  have hlen : ((u ++ rest).length != (fmtNat 10 n ++ (u ++ rest)).length) = true := by
    have : 0 < (fmtNat 10 n).length := List.length_pos_iff.2 hne
    simp only [List.length_append, bne_iff_ne, ne_eq]; omega
  have huemp : u.isEmpty = false := by cases u with | nil => exact absurd rfl hune | cons _ _ => rfl
  unfold parseComponent
  simp only [startsNum_fmtNat n (by omega), Bool.not_true, Bool.false_eq_true, if_false, hli,
    fractionPart_nodot (head_unit_ne_dot hune huc), hlen, Bool.not_false, Bool.and_true, Bool.false_and,
    spanUnit_append u rest huc hr, huemp, hu, Nat.lt_irrefl, false_and]
  rw [if_neg (by omega)]

/-- one component with a fraction: `<n>.<frac><unit>` where the unit is 10^p ns and the fraction has at most p digits -/
theorem parseComponent_frac (n p w : Nat) (u rest : Bytes) (hn : n ≤ 2 ^ 63) (hp : p ≤ 9) (hu : unitOf u = some (10 ^ p))
    (hune : u ≠ []) (huc : ∀ c ∈ u, c ≠ 46 ∧ isDig c = false) (hr : UnitStop rest) (hfit : n ≤ 2 ^ 63 / 10 ^ p)
    (hw : w % 10 ^ p ≠ 0) (htot : n * 10 ^ p + w % 10 ^ p ≤ 2 ^ 63) :
    parseComponent (fmtNat 10 n ++ (46 :: (fracDigits p w ++ (u ++ rest)))) = some (n * 10 ^ p + w % 10 ^ p, rest) := by
  obtain ⟨hne, hd, hv⟩ := fmtNat10_facts n (by omega)
  have hdot : NoDigitHead (46 :: (fracDigits p w ++ (u ++ rest))) := by
    intro c cs h; simp only [List.cons.injEq] at h; rw [← h.1]; rfl
  have hli := leadingInt_digits (fmtNat 10 n) 0 _ hd hdot (by rw [hv]; exact hn)
  rw [hv] at hli
  have hfne := fracDigits_ne_nil p w hw
  have hfl := fracDigits_length p w
  have hfv := fracDigits_val p w
  have hpos : 0 < 10 ^ (p - (fracDigits p w).length) := Nat.pow_pos (by omega)
  have hmod : w % 10 ^ p < 10 ^ p := Nat.mod_lt _ (Nat.pow_pos (by omega))
  have hp9 : 10 ^ p ≤ 10 ^ 9 := Nat.pow_le_pow_right (by omega) hp
  have hfle : baseVal 10 0 (fracDigits p w) ≤ w % 10 ^ p := by
    rw [← hfv]; exact Nat.le_mul_of_pos_right _ hpos
  have hfpos : 0 < baseVal 10 0 (fracDigits p w) := by
    rcases Nat.eq_zero_or_pos (baseVal 10 0 (fracDigits p w)) with h0 | h0
    · rw [h0, Nat.zero_mul] at hfv; exact absurd hfv.symm hw
    · exact h0
  have hlf := leadingFraction_digits (fracDigits p w) 0 1 (u ++ rest) (fracDigits_dec p w) (noDigitHead_unit hune huc)
    (by omega)
  have hfp : fractionPart (46 :: (fracDigits p w ++ (u ++ rest))) =
      (baseVal 10 0 (fracDigits p w), 10 ^ (fracDigits p w).length, u ++ rest, true) := by
    have hlen : ((u ++ rest).length != (fracDigits p w ++ (u ++ rest)).length) = true := by
      have : 0 < (fracDigits p w).length := List.length_pos_iff.2 hfne
      simp only [List.length_append, bne_iff_ne, ne_eq]; omega
    simp only [fractionPart, hlf, Nat.one_mul, hlen]
  have hdiv : baseVal 10 0 (fracDigits p w) * 10 ^ p / 10 ^ (fracDigits p w).length = w % 10 ^ p := by
    have : 10 ^ p = 10 ^ (p - (fracDigits p w).length) * 10 ^ (fracDigits p w).length := by
      rw [← Nat.pow_add]; congr 1; omega
    have h2 : baseVal 10 0 (fracDigits p w) * 10 ^ p =
        baseVal 10 0 (fracDigits p w) * 10 ^ (p - (fracDigits p w).length) * 10 ^ (fracDigits p w).length := by
      rw [Nat.mul_assoc, ← this]
    rw [h2, Nat.mul_div_cancel _ (Nat.pow_pos (by omega)), hfv]
  have huemp : u.isEmpty = false := by cases u with | nil => exact absurd rfl hune | cons _ _ => rfl
  unfold parseComponent
  simp only [startsNum_fmtNat n (by omega), Bool.not_true, Bool.false_eq_true, if_false, hli, hfp,
    Bool.and_false, spanUnit_append u rest huc hr, huemp, hu, hfpos, if_true, hdiv, true_and]
  rw [if_neg (by omega), if_neg (by omega)]

theorem parseDurLoop_step (fuel d v : Nat) (s rest : Bytes) (hs : s ≠ []) (hc : parseComponent s = some (v, rest))
    (hd : d + v ≤ 2 ^ 63) : parseDurLoop (fuel + 1) d s = parseDurLoop fuel (d + v) rest := by
  cases s with
  | nil => exact absurd rfl hs
  | cons c cs =>
    simp only [parseDurLoop, hc]
    rw [Nat.mod_eq_of_lt (by omega), if_neg (by omega)]

end Nv.C20

namespace Nv.C20

/-- `<n>[.<frac>]<unit>` as printed by `Duration.String` for a unit of 10^p ns -/
theorem parseComponent_fmtFrac (n p w : Nat) (u rest : Bytes) (hn : n ≤ 2 ^ 63) (hp : p ≤ 9) (hu : unitOf u = some (10 ^ p))
    (hune : u ≠ []) (huc : ∀ c ∈ u, c ≠ 46 ∧ isDig c = false) (hr : UnitStop rest) (hfit : n ≤ 2 ^ 63 / 10 ^ p)
    (htot : n * 10 ^ p + w % 10 ^ p ≤ 2 ^ 63) :
    parseComponent (fmtNat 10 n ++ (fmtFrac p w ++ (u ++ rest))) = some (n * 10 ^ p + w % 10 ^ p, rest) := by
  unfold fmtFrac
  split
  · rename_i h0
    rw [h0, Nat.add_zero, List.nil_append]
    exact parseComponent_plain n (10 ^ p) u rest hn hu hune huc hr hfit
  · rename_i h0
    rw [List.cons_append]
    exact parseComponent_frac n p w u rest hn hp hu hune huc hr hfit h0 htot

theorem unitStop_nil : UnitStop [] := by intro c cs h; cases h

theorem unitStop_fmtNat (n : Nat) (hn : n < 2 ^ 64) (t : Bytes) : UnitStop (fmtNat 10 n ++ t) := by
  obtain ⟨hne, hd, _⟩ := fmtNat10_facts n hn
  intro c cs h
  cases hf : fmtNat 10 n with
  | nil => exact absurd hf hne
  | cons a as =>
    rw [hf] at h
    simp only [List.cons_append, List.cons.injEq] at h
    rw [← h.1]
    exact Or.inr (isDig_of_dec (hd a (by rw [hf]; simp)))

theorem length_fmtNat_pos (n : Nat) (hn : n < 2 ^ 64) : 1 ≤ (fmtNat 10 n).length :=
  List.length_pos_iff.2 (fmtNat10_facts n hn).1

/-- the magnitude printed by `Duration.String` parses back, given enough fuel -/
theorem parseDurLoop_durMag (u : Nat) (hu0 : 0 < u) (hu : u ≤ 2 ^ 63) (fuel : Nat) (hf : (durMag u).length < fuel) :
    parseDurLoop fuel 0 (durMag u) = some u := by
  have uns : unitOf [110, 115] = some 1 := by decide
  have uus : unitOf [194, 181, 115] = some (10 ^ 3) := by decide
  have ums : unitOf [109, 115] = some (10 ^ 6) := by decide
  have us : unitOf [115] = some (10 ^ 9) := by decide
  have um : unitOf [109] = some 60000000000 := by decide
  have uh : unitOf [104] = some 3600000000000 := by decide
  have cns : ∀ c ∈ [110, 115], c ≠ 46 ∧ isDig c = false := by decide
  have cus : ∀ c ∈ [194, 181, 115], c ≠ 46 ∧ isDig c = false := by decide
  have cms : ∀ c ∈ [109, 115], c ≠ 46 ∧ isDig c = false := by decide
  have cs : ∀ c ∈ [115], c ≠ 46 ∧ isDig c = false := by decide
  have cm : ∀ c ∈ [109], c ≠ 46 ∧ isDig c = false := by decide
  have ch : ∀ c ∈ [104], c ≠ 46 ∧ isDig c = false := by decide
  unfold durMag at hf ⊢
  rw [if_neg (by omega)] at hf ⊢
  split at hf
  · -- nanoseconds
    rename_i h1
    have hc := parseComponent_plain u 1 [110, 115] [] (by omega) uns (by simp) cns unitStop_nil (by omega)
    rw [List.append_nil] at hc
    have hl := length_fmtNat_pos u (by omega)
    obtain ⟨f, rfl⟩ : ∃ f, fuel = f + 2 := ⟨fuel - 2, by simp only [List.length_append] at hf; omega⟩
    rw [if_pos h1, parseDurLoop_step (f + 1) 0 (u * 1) _ [] (by simp) hc (by omega)]
    simp [parseDurLoop]
  · rename_i h1
    rw [if_neg h1]
    split at hf
    · -- microseconds
      rename_i h2
      have hc := parseComponent_fmtFrac (u / 1000) 3 u [194, 181, 115] [] (by omega) (by omega) uus (by simp) cus
        unitStop_nil (by omega) (by omega)
      rw [List.append_nil] at hc
      have hl := length_fmtNat_pos (u / 1000) (by omega)
      obtain ⟨f, rfl⟩ : ∃ f, fuel = f + 2 := ⟨fuel - 2, by simp only [List.length_append] at hf; omega⟩
      rw [if_pos h2, List.append_assoc, parseDurLoop_step (f + 1) 0 _ _ [] (by simp) hc (by omega)]
      simp only [parseDurLoop, Nat.zero_add, Option.some.injEq]; omega
    · rename_i h2
      rw [if_neg h2]
      split at hf
      · -- milliseconds
        rename_i h3
        have hc := parseComponent_fmtFrac (u / 1000000) 6 u [109, 115] [] (by omega) (by omega) ums (by simp) cms
          unitStop_nil (by omega) (by omega)
        rw [List.append_nil] at hc
        have hl := length_fmtNat_pos (u / 1000000) (by omega)
        obtain ⟨f, rfl⟩ : ∃ f, fuel = f + 2 := ⟨fuel - 2, by simp only [List.length_append] at hf; omega⟩
        rw [if_pos h3, List.append_assoc, parseDurLoop_step (f + 1) 0 _ _ [] (by simp) hc (by omega)]
        simp only [parseDurLoop, Nat.zero_add, Option.some.injEq]; omega
      · -- a second or more
        rename_i h3
        rw [if_neg h3]
        simp only [] at hf ⊢
        -- the seconds component, after `d` nanoseconds of hours and minutes
        have hsec : ∀ (f d : Nat), d + (u / 1000000000 % 60) * 10 ^ 9 + u % 10 ^ 9 ≤ 2 ^ 63 →
            parseDurLoop (f + 2) d (fmtNat 10 (u / 1000000000 % 60) ++ fmtFrac 9 u ++ [115]) =
              some (d + ((u / 1000000000 % 60) * 10 ^ 9 + u % 10 ^ 9)) := by
          intro f d hd
          have hc := parseComponent_fmtFrac (u / 1000000000 % 60) 9 u [115] [] (by omega) (by omega) us (by simp) cs
            unitStop_nil (by omega) (by omega)
          rw [List.append_nil] at hc
          rw [List.append_assoc, parseDurLoop_step (f + 1) d _ _ [] (by simp) hc (by omega)]
          simp [parseDurLoop]
        have hl1 := length_fmtNat_pos (u / 1000000000 % 60) (by omega)
        split at hf
        · -- seconds only
          rename_i hm
          obtain ⟨f, rfl⟩ : ∃ f, fuel = f + 2 := ⟨fuel - 2, by simp only [List.length_append] at hf; omega⟩
          rw [if_pos hm, hsec f 0 (by omega)]
          simp only [Nat.zero_add, Option.some.injEq]; omega
        · rename_i hm
          rw [if_neg hm]
          have hl2 := length_fmtNat_pos (u / 1000000000 / 60 % 60) (by omega)
          split at hf
          · -- minutes and seconds
            rename_i hh
            have hc := parseComponent_plain (u / 1000000000 / 60 % 60) 60000000000 [109]
              (fmtNat 10 (u / 1000000000 % 60) ++ fmtFrac 9 u ++ [115]) (by omega) um (by simp) cm
              (by rw [List.append_assoc]; exact unitStop_fmtNat _ (by omega) _) (by omega)
            obtain ⟨f, rfl⟩ : ∃ f, fuel = f + 3 := ⟨fuel - 3, by simp only [List.length_append] at hf; omega⟩
            rw [if_pos hh, List.append_assoc, parseDurLoop_step (f + 2) 0 _ _ _ (by simp) hc (by omega),
              hsec f _ (by omega)]
            simp only [Nat.zero_add, Option.some.injEq]; omega
          · -- hours, minutes and seconds
            rename_i hh
            have hl3 := length_fmtNat_pos (u / 1000000000 / 60 / 60) (by omega)
            have hcm := parseComponent_plain (u / 1000000000 / 60 % 60) 60000000000 [109]
              (fmtNat 10 (u / 1000000000 % 60) ++ fmtFrac 9 u ++ [115]) (by omega) um (by simp) cm
              (by rw [List.append_assoc]; exact unitStop_fmtNat _ (by omega) _) (by omega)
            have hch := parseComponent_plain (u / 1000000000 / 60 / 60) 3600000000000 [104]
              (fmtNat 10 (u / 1000000000 / 60 % 60) ++ ([109] ++ (fmtNat 10 (u / 1000000000 % 60) ++ fmtFrac 9 u ++ [115])))
              (by omega) uh (by simp) ch (unitStop_fmtNat _ (by omega) _) (by omega)
            obtain ⟨f, rfl⟩ : ∃ f, fuel = f + 4 := ⟨fuel - 4, by simp only [List.length_append] at hf; omega⟩
            rw [if_neg hh]
            have hre : fmtNat 10 (u / 1000000000 / 60 / 60) ++ [104] ++ (fmtNat 10 (u / 1000000000 / 60 % 60) ++ [109]) ++
                (fmtNat 10 (u / 1000000000 % 60) ++ fmtFrac 9 u ++ [115]) =
                fmtNat 10 (u / 1000000000 / 60 / 60) ++ ([104] ++ (fmtNat 10 (u / 1000000000 / 60 % 60) ++
                  ([109] ++ (fmtNat 10 (u / 1000000000 % 60) ++ fmtFrac 9 u ++ [115])))) := by
              simp only [List.append_assoc]
            rw [hre, parseDurLoop_step (f + 3) 0 _ _ _ (by simp) hch (by omega),
              parseDurLoop_step (f + 2) _ _ _ _ (by simp) hcm (by omega), hsec f _ (by omega)]
            simp only [Nat.zero_add, Option.some.injEq]; omega

end Nv.C20

namespace Nv.C20

/-- starts with a decimal digit and has at least two characters -/
def DigitHead2 (t : Bytes) : Prop := ∃ c cs, t = c :: cs ∧ (48 ≤ c ∧ c ≤ 57) ∧ cs ≠ []

theorem digitHead2_fmtNat (n : Nat) (hn : n < 2 ^ 64) (t : Bytes) (ht : t ≠ []) : DigitHead2 (fmtNat 10 n ++ t) := by
  obtain ⟨hne, hd, _⟩ := fmtNat10_facts n hn
  cases hf : fmtNat 10 n with
  | nil => exact absurd hf hne
  | cons a as => exact ⟨a, as ++ t, rfl, hd a (by rw [hf]; simp), by simp [ht]⟩

theorem digitHead2_durMag (u : Nat) (hu0 : 0 < u) (hu : u ≤ 2 ^ 63) : DigitHead2 (durMag u) := by
  unfold durMag
  rw [if_neg (by omega)]
  split
  · exact digitHead2_fmtNat _ (by omega) _ (by simp)
  · split
    · rw [List.append_assoc]; exact digitHead2_fmtNat _ (by omega) _ (by simp)
    · split
      · rw [List.append_assoc]; exact digitHead2_fmtNat _ (by omega) _ (by simp)
      · simp only []
        split
        · rw [List.append_assoc]; exact digitHead2_fmtNat _ (by omega) _ (by simp)
        · split
          · rw [List.append_assoc]; exact digitHead2_fmtNat _ (by omega) _ (by simp)
          · rw [List.append_assoc, List.append_assoc]; exact digitHead2_fmtNat _ (by omega) _ (by simp)

/-- `time.ParseDuration(d.String()) = d` for every int64 duration (on the models) -/
theorem parseDuration_durString (d : Int) (hlo : -(2 ^ 63 : Int) ≤ d) (hhi : d < 2 ^ 63) :
    parseDuration (durString d) = .ok d := by
  unfold durString
  split
  · -- negative
    rename_i hneg
    have hu0 : 0 < (-d).toNat := by omega
    have hu : (-d).toNat ≤ 2 ^ 63 := by omega
    obtain ⟨c, cs, hform, hdig, hcs⟩ := digitHead2_durMag _ hu0 hu
    have hloop := parseDurLoop_durMag _ hu0 hu ((durMag (-d).toNat).length + 1) (by omega)
    have h48 : durMag (-d).toNat ≠ [48] := by rw [hform]; intro h; simp only [List.cons.injEq] at h; exact hcs h.2
    have hemp : (durMag (-d).toNat).isEmpty = false := by rw [hform]; rfl
    simp only [parseDuration, splitSign, h48, if_false, hemp, Bool.false_eq_true, hloop, if_true, Res.ok.injEq]
    omega
  · rename_i hpos
    by_cases h0 : d = 0
    · subst h0; decide
    · have hu0 : 0 < d.toNat := by omega
      have hu : d.toNat ≤ 2 ^ 63 := by omega
      obtain ⟨c, cs, hform, hdig, hcs⟩ := digitHead2_durMag _ hu0 hu
      have hloop := parseDurLoop_durMag _ hu0 hu ((durMag d.toNat).length + 1) (by omega)
      have h48 : durMag d.toNat ≠ [48] := by rw [hform]; intro h; simp only [List.cons.injEq] at h; exact hcs h.2
      have hemp : (durMag d.toNat).isEmpty = false := by rw [hform]; rfl
      have hmatch : splitSign (durMag d.toNat) = (false, durMag d.toNat) := by
        rw [hform]
        unfold splitSign
        split
        · rename_i r heq; simp only [List.cons.injEq] at heq; omega
        · rename_i r heq; simp only [List.cons.injEq] at heq; omega
        · rfl
      unfold parseDuration
      rw [hmatch]
      simp only [h48, if_false, hemp, Bool.false_eq_true, hloop]
      rw [if_neg (by omega)]
      congr 1; omega

theorem durString_length (d : Int) (hlo : -(2 ^ 63 : Int) ≤ d) (hhi : d < 2 ^ 63) : 2 ≤ (durString d).length := by
  unfold durString
  split
  · obtain ⟨c, cs, hform, _, hcs⟩ := digitHead2_durMag (-d).toNat (by omega) (by omega)
    rw [hform]; simp
  · by_cases h0 : d = 0
    · subst h0; decide
    · obtain ⟨c, cs, hform, _, hcs⟩ := digitHead2_durMag d.toNat (by omega) (by omega)
      rw [hform]
      cases cs with
      | nil => exact absurd rfl hcs
      | cons _ _ => simp

end Nv.C20
