import Nv.Proofs.C16World
/-!
C16 — the loops' steps commute (except in one race that scripts never reach), so running them to quiescence
gives one result whatever the schedule. Proved configuration.
-/
set_option linter.unusedSimpArgs false
namespace Nv.C16

/-- no write can complete: the peer does not read, or the write fails -/
def blocked (s : Sess) : Prop := s.peerDrain = false ∨ s.wfault = true ∨ s.peerClosed = true

/-- no race between a write that can complete and a read loop about to close the connection: while the read loop
    is on its way to `quit` and the connection is still open, the send loop cannot deliver anything -/
def NoRace (s : Sess) : Prop :=
  (∃ p, s.recvPc = .quitting p) → s.closes = 0 →
    blocked s ∨ (s.sendPc = .idle ∧ s.q = []) ∨ s.sendPc = .quitting ∨ s.sendPc = .done

theorem quitP_idem (s : Sess) : quitP (quitP s) = quitP s := by
  unfold quitP; split <;> simp_all

theorem diamond {s a b : Sess} (hS : SInv s) (hK : NoRace s) (ha : sendStepP s = some a) (hb : recvStepP s = some b) :
    ∃ d, recvStepP a = some d ∧ sendStepP b = some d := by
  unfold NoRace at hK
  unfold sendStepP at ha
  unfold recvStepP at hb
  cases hr : s.recvPc with
  | done => simp [hr] at hb
  | reading =>
    simp only [hr] at hb
    split at hb
    · rename_i hcond
      cases hb
      cases hs : s.sendPc with
      | done => simp [hs] at ha
      | idle =>
        simp only [hs] at ha
        split at ha
        · split at ha
          · cases ha; simp [sendStepP, recvStepP, hs, hr, *]
          · cases ha
        · split at ha <;> (cases ha; simp [sendStepP, recvStepP, hs, hr, *])
      | writing x =>
        simp only [hs] at ha
        split at ha
        · cases ha; simp [sendStepP, recvStepP, hs, hr, *]
        · split at ha
          · cases ha; simp [sendStepP, recvStepP, hs, hr, *]
          · cases ha
      | quitting =>
        simp only [hs] at ha
        cases ha
        cases ho : s.onceDone <;> simp_all [sendStepP, recvStepP, quitP]
    · cases hb
  | quitting p =>
    simp only [hr] at hb
    cases hb
    have hK' := hK ⟨p, hr⟩
    obtain ⟨h1, h2, h3, h4, h5, h6, h7⟩ := hS
    cases hs : s.sendPc with
    | done => simp [hs] at ha
    | idle =>
      simp only [hs] at ha
      split at ha
      · split at ha
        · cases ha
          cases ho : s.onceDone <;> simp_all [sendStepP, recvStepP, quitP]
        · cases ha
      · rename_i x rest hq
        cases ho : s.onceDone <;> split at ha <;> (cases ha; simp_all [sendStepP, recvStepP, quitP])
    | writing x =>
      simp only [hs] at ha
      cases ho : s.onceDone
      · have hc0 : s.closes = 0 := by simp_all
        split at ha
        · cases ha; simp_all [sendStepP, recvStepP, quitP]
        · rename_i hn
          exfalso
          split at ha
          · rcases hK' hc0 with hbl | ⟨h, _⟩ | h | h
            · unfold blocked at hbl; rcases hbl with hbl | hbl | hbl <;> simp_all
            · simp_all
            · simp_all
            · simp_all
          · cases ha
      · split at ha
        · cases ha; simp_all [sendStepP, recvStepP, quitP]
        · exfalso; simp_all
    | quitting =>
      simp only [hs] at ha
      cases ha
      cases ho : s.onceDone <;> simp_all [sendStepP, recvStepP, quitP]

theorem blocked_quitP (s : Sess) : blocked (quitP s) ↔ blocked s := by
  unfold blocked quitP; split <;> simp

theorem norace_sendStepP {s a : Sess} (_hS : SInv s) (hK : NoRace s) (ha : sendStepP s = some a) : NoRace a := by
  unfold NoRace at hK ⊢
  unfold sendStepP at ha
  intro ⟨p, hp⟩ hc
  cases hs : s.sendPc with
  | done => simp [hs] at ha
  | idle =>
    simp only [hs] at ha
    split at ha
    · split at ha
      · cases ha; simp
      · cases ha
    · rename_i x rest hq
      split at ha <;>
      · cases ha
        simp only at hp hc
        rcases hK ⟨p, hp⟩ hc with h | ⟨_, h⟩ | h | h
        · left; exact h
        · simp_all
        · simp_all
        · simp_all
  | writing x =>
    simp only [hs] at ha
    split at ha
    · cases ha; simp
    · split at ha
      · rename_i hn hd
        cases ha
        simp only at hp hc
        rcases hK ⟨p, hp⟩ hc with hbl | ⟨h, _⟩ | h | h
        · left; exact hbl
        · simp_all
        · simp_all
        · simp_all
      · cases ha
  | quitting =>
    simp only [hs] at ha
    cases ha; simp

theorem norace_recvStepP {s b : Sess} (_hK : NoRace s) (hb : recvStepP s = some b) : NoRace b := by
  unfold NoRace
  unfold recvStepP at hb
  intro ⟨p, hp⟩ hc
  cases hr : s.recvPc with
  | done => simp [hr] at hb
  | reading =>
    simp only [hr] at hb
    split at hb
    · rename_i hcond
      cases hb
      simp only at hp hc
      -- the read loop left `reading` because the peer closed (the connection is still open here)
      have hpc : s.peerClosed = true := by simp_all
      left; right; right; exact hpc
    · cases hb
  | quitting q =>
    simp only [hr] at hb
    cases hb
    simp at hp

/-! ### runs of loop steps -/

inductive IRun : Sess → Sess → Prop
  | refl (s : Sess) : IRun s s
  | send {s a t : Sess} : sendStepP s = some a → IRun a t → IRun s t
  | recv {s b t : Sess} : recvStepP s = some b → IRun b t → IRun s t

def normalP (s : Sess) : Prop := sendStepP s = none ∧ recvStepP s = none

theorem exists_normal : ∀ (n : Nat) (s : Sess), measure s ≤ n → ∃ t, IRun s t ∧ normalP t
  | 0, s, h => by
    cases h1 : sendStepP s with
    | some a => have := measure_sendStepP h1; omega
    | none =>
      cases h2 : recvStepP s with
      | some b => have := measure_recvStepP h2; omega
      | none => exact ⟨s, IRun.refl s, h1, h2⟩
  | n + 1, s, h => by
    cases h1 : sendStepP s with
    | some a =>
      have := measure_sendStepP h1
      obtain ⟨t, r, ht⟩ := exists_normal n a (by omega)
      exact ⟨t, IRun.send h1 r, ht⟩
    | none =>
      cases h2 : recvStepP s with
      | some b =>
        have := measure_recvStepP h2
        obtain ⟨t, r, ht⟩ := exists_normal n b (by omega)
        exact ⟨t, IRun.recv h2 r, ht⟩
      | none => exact ⟨s, IRun.refl s, h1, h2⟩

/-- whatever the schedule of the two loops, the state at quiescence is the same -/
theorem normal_unique : ∀ (n : Nat) (s t1 t2 : Sess), measure s ≤ n → SInv s → NoRace s →
    IRun s t1 → normalP t1 → IRun s t2 → normalP t2 → t1 = t2
  | 0, s, t1, t2, hm, _, _, r1, _, r2, _ => by
    cases r1 with
    | refl => cases r2 with
      | refl => rfl
      | send h _ => have := measure_sendStepP h; omega
      | recv h _ => have := measure_recvStepP h; omega
    | send h _ => have := measure_sendStepP h; omega
    | recv h _ => have := measure_recvStepP h; omega
  | n + 1, s, t1, t2, hm, hS, hK, r1, n1, r2, n2 => by
    cases r1 with
    | refl =>
      cases r2 with
      | refl => rfl
      | send h _ => rw [n1.1] at h; cases h
      | recv h _ => rw [n1.2] at h; cases h
    | send ha ra =>
      rename_i a
      have hma := measure_sendStepP ha
      cases r2 with
      | refl => rw [n2.1] at ha; cases ha
      | send ha' ra' =>
        rw [ha] at ha'; cases ha'
        exact normal_unique n a t1 t2 (by omega) (sinv_sendStepP hS ha) (norace_sendStepP hS hK ha) ra n1 ra' n2
      | recv hb rb =>
        rename_i b
        have hmb := measure_recvStepP hb
        obtain ⟨d, hd1, hd2⟩ := diamond hS hK ha hb
        obtain ⟨nd, rd, nnd⟩ := exists_normal (measure d) d (Nat.le_refl _)
        have e1 := normal_unique n a t1 nd (by omega) (sinv_sendStepP hS ha) (norace_sendStepP hS hK ha) ra n1 (IRun.recv hd1 rd) nnd
        have e2 := normal_unique n b t2 nd (by omega) (sinv_recvStepP hS hb) (norace_recvStepP hK hb) rb n2 (IRun.send hd2 rd) nnd
        rw [e1, e2]
    | recv hb rb =>
      rename_i b
      have hmb := measure_recvStepP hb
      cases r2 with
      | refl => rw [n2.2] at hb; cases hb
      | recv hb' rb' =>
        rw [hb] at hb'; cases hb'
        exact normal_unique n b t1 t2 (by omega) (sinv_recvStepP hS hb) (norace_recvStepP hK hb) rb n1 rb' n2
      | send ha ra =>
        rename_i a
        have hma := measure_sendStepP ha
        obtain ⟨d, hd1, hd2⟩ := diamond hS hK ha hb
        obtain ⟨nd, rd, nnd⟩ := exists_normal (measure d) d (Nat.le_refl _)
        have e1 := normal_unique n b t1 nd (by omega) (sinv_recvStepP hS hb) (norace_recvStepP hK hb) rb n1 (IRun.send hd2 rd) nnd
        have e2 := normal_unique n a t2 nd (by omega) (sinv_sendStepP hS ha) (norace_sendStepP hS hK ha) ra n2 (IRun.recv hd1 rd) nnd
        rw [e1, e2]

/-- a quiescent state followed by one environment event has no race -/
theorem norace_after_event {s : Sess} (h : ended s ∨ waiting s) (e : Env) : NoRace (envStep s e) := by
  unfold NoRace blocked
  intro ⟨p, hp⟩ hc
  rcases h with he | hw
  · exfalso
    unfold ended at he
    cases e <;> simp only [envStep] at hp hc <;> (try split at hp) <;> simp_all
  · unfold waiting at hw
    obtain ⟨_, _, _, _, w5, w6, w7⟩ := hw
    rcases w7 with ⟨a1, a2, a3⟩ | ⟨x, a1, a2, a3⟩
    · cases e <;> simp only [envStep] at hp hc ⊢ <;> (try split) <;> simp_all
    · cases e <;> simp only [envStep] at hp hc ⊢ <;> (try split) <;> simp_all

theorem irun_settleN {c : Cfg} (hc : Proved c) : ∀ (n : Nat) (s : Sess), IRun s (settleN c n s)
  | 0, s => IRun.refl s
  | n + 1, s => by
    simp only [settleN]
    cases h1 : sendStep c s with
    | some a => rw [sendStep_proved hc] at h1; exact IRun.send h1 (irun_settleN hc n a)
    | none =>
      simp only
      cases h2 : recvStep c s with
      | some b => rw [recvStep_proved hc] at h2; exact IRun.recv h2 (irun_settleN hc n b)
      | none => exact IRun.refl s

end Nv.C16
