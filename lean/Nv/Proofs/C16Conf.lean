import Nv.Proofs.C16World
/-!
C16 — the loops' steps commute (except in one race that scripts never reach, and the race for `exitOnce`, whose
two outcomes meet again when both loops have finished), so running them to quiescence gives one result whatever
the schedule. Proved configuration, exit callback returns.
-/
set_option linter.unusedSimpArgs false
set_option linter.unusedVariables false
namespace Nv.C16

/-- no write can complete: the peer does not read, or the write fails -/
def blocked (s : Sess) : Prop := s.peerDrain = false ∨ s.wfault = true ∨ s.peerClosed = true

/-- no race between a write that can complete and a read loop about to close the connection: while the read loop
    is on its way through `quit` and the connection is still open, the send loop cannot deliver anything -/
def NoRace (s : Sess) : Prop :=
  (∃ p st, s.recvPc = .quitting p st) → s.closes = 0 →
    blocked s ∨ (s.sendPc = .idle ∧ s.q = []) ∨ (∃ st, s.sendPc = .quitting st) ∨ s.sendPc = .done

/-! ### runs of loop steps -/

inductive IRun : Sess → Sess → Prop
  | refl (s : Sess) : IRun s s
  | send {s a t : Sess} : sendStepP s = some a → IRun a t → IRun s t
  | recv {s b t : Sess} : recvStepP s = some b → IRun b t → IRun s t

def normalP (s : Sess) : Prop := sendStepP s = none ∧ recvStepP s = none

theorem IRun.trans {s t u : Sess} (h1 : IRun s t) (h2 : IRun t u) : IRun s u := by
  induction h1 with
  | refl => exact h2
  | send h _ ih => exact IRun.send h (ih h2)
  | recv h _ ih => exact IRun.recv h (ih h2)

/-- both loops arrive at `exitOnce.Do` together: whichever wins, the session ends in the same state -/
theorem once_race {s : Sess} (p : Bool) (hs : s.sendPc = .quitting .enter) (hr : s.recvPc = .quitting p .enter)
    (ht : s.onceTaken = false) (hd : s.onceDone = false) {a b : Sess}
    (ha : sendStepP s = some a) (hb : recvStepP s = some b) : ∃ d, IRun a d ∧ IRun b d := by
  simp [sendStepP, hs, ht, hd] at ha
  simp [recvStepP, hr, ht, hd] at hb
  subst ha; subst hb
  refine ⟨{ s with onceTaken := true, onceDone := true, exits := s.exits + 1, decs := s.decs + 1, qClosed := true,
                   closes := s.closes + 1, sendPc := .done, recvPc := .done }, ?_, ?_⟩
  · refine IRun.send (a := _) (by simp [sendStepP]; rfl) ?_
    refine IRun.send (a := _) (by simp [sendStepP]; rfl) ?_
    refine IRun.send (a := _) (by simp [sendStepP]; rfl) ?_
    refine IRun.recv (b := _) (by simp [recvStepP, hr]; rfl) ?_
    exact IRun.refl _
  · refine IRun.recv (b := _) (by simp [recvStepP]; rfl) ?_
    refine IRun.recv (b := _) (by simp [recvStepP]; rfl) ?_
    refine IRun.recv (b := _) (by simp [recvStepP]; rfl) ?_
    refine IRun.send (a := _) (by simp [sendStepP, hs]; rfl) ?_
    exact IRun.refl _

theorem join1 {a b : Sess} (h : ∃ d, recvStepP a = some d ∧ sendStepP b = some d) : ∃ d, IRun a d ∧ IRun b d := by
  obtain ⟨d, h1, h2⟩ := h
  exact ⟨d, IRun.recv h1 (IRun.refl d), IRun.send h2 (IRun.refl d)⟩

/-- diamond: two enabled loop steps can be completed to a common state -/
theorem diamond {s a b : Sess} (hS : SInv s) (hK : NoRace s) (ha : sendStepP s = some a) (hb : recvStepP s = some b) :
    ∃ d, IRun a d ∧ IRun b d := by
  have hS' := hS
  have ha0 := ha
  have hb0 := hb
  obtain ⟨h1, h2, h3, h4, h5, h6, h7, h8, h9⟩ := hS
  unfold NoRace blocked at hK
  cases hr : s.recvPc with
  | done => simp [recvStepP, hr] at hb
  | reading =>
    -- the receive step only changes recvPc; no send step looks at it
    have hb' := hb
    simp only [recvStepP, hr] at hb
    split at hb
    · rename_i hcond
      cases hb
      cases hs : s.sendPc with
      | done => simp [sendStepP, hs] at ha
      | idle =>
        simp only [sendStepP, hs] at ha
        split at ha
        · split at ha
          · cases ha; apply join1; clear h7 h8 h9 hK hS'; simp_all [sendStepP, recvStepP, partialWrite]
          · cases ha
        · split at ha <;> (cases ha; apply join1; clear h7 h8 h9 hK hS'; simp_all [sendStepP, recvStepP, partialWrite])
      | writing x =>
        simp only [sendStepP, hs] at ha
        split at ha
        · cases ha; apply join1; clear h7 h8 h9 hK hS'; simp_all [sendStepP, recvStepP, partialWrite]
        · split at ha
          · cases ha; apply join1; clear h7 h8 h9 hK hS'; simp_all [sendStepP, recvStepP, partialWrite]
          · cases ha
      | quitting st =>
        cases st <;> simp only [sendStepP, hs] at ha
        · split at ha
          · cases ha; apply join1; clear h7 h8 h9 hK hS'; simp_all [sendStepP, recvStepP, partialWrite]
          · split at ha
            · cases ha
            · cases ha; apply join1; clear h7 h8 h9 hK hS'; simp_all [sendStepP, recvStepP, partialWrite]
        · cases ha; apply join1; clear h7 h8 h9 hK hS'; simp_all [sendStepP, recvStepP, partialWrite]
        · cases ha; apply join1; clear h7 h8 h9 hK hS'; simp_all [sendStepP, recvStepP, partialWrite]
        · cases ha; apply join1; clear h7 h8 h9 hK hS'; simp_all [sendStepP, recvStepP, partialWrite]
        · cases ha
    · cases hb
  | quitting p st =>
    have hK' := hK ⟨p, st, hr⟩
    cases st with
    | stuck => simp [recvStepP, hr] at hb
    | enter =>
      simp only [recvStepP, hr] at hb
      split at hb
      · -- the once is finished: the receive loop just leaves
        rename_i hd
        cases hb
        cases hs : s.sendPc with
        | done => simp [sendStepP, hs] at ha
        | idle =>
          simp only [sendStepP, hs] at ha
          split at ha
          · split at ha
            · cases ha; apply join1; clear h7 h8 h9 hK hS'; simp_all [sendStepP, recvStepP, partialWrite]
            · cases ha
          · split at ha <;> (cases ha; apply join1; clear h7 h8 h9 hK hS'; simp_all [sendStepP, recvStepP, partialWrite])
        | writing x =>
          simp only [sendStepP, hs] at ha
          split at ha
          · cases ha; apply join1; clear h7 h8 h9 hK hS'; simp_all [sendStepP, recvStepP, partialWrite]
          · exfalso
            have := (h6 hd).2.2.2.1
            simp_all
        | quitting st' =>
          cases st' <;> simp only [sendStepP, hs] at ha
          · simp only [hd, if_true] at ha
            cases ha; apply join1; clear h7 h8 h9 hK hS'; simp_all [sendStepP, recvStepP, partialWrite]
          all_goals (exfalso; have := (h8 _ hs (by simp)).2.1; simp [hd] at this)
      · rename_i hd
        split at hb
        · cases hb
        · -- the receive loop takes the once
          rename_i ht
          have ht' : s.onceTaken = false := by simpa using ht
          have hd' : s.onceDone = false := by simpa using hd
          obtain ⟨_, e0, d0, c0⟩ := h5 ht'
          cases hs : s.sendPc with
          | done => simp [sendStepP, hs] at ha
          | idle =>
            cases hb
            simp only [sendStepP, hs] at ha
            split at ha
            · split at ha
              · cases ha; apply join1; clear h7 h8 h9 hK hS'; simp_all [sendStepP, recvStepP, partialWrite]
              · cases ha
            · split at ha <;> (cases ha; apply join1; clear h7 h8 h9 hK hS'; simp_all [sendStepP, recvStepP, partialWrite])
          | writing x =>
            cases hb
            simp only [sendStepP, hs] at ha
            split at ha
            · cases ha; apply join1; clear h7 h8 h9 hK hS'; simp_all [sendStepP, recvStepP, partialWrite]
            · split at ha
              · exfalso
                rcases hK' c0 with hbl | ⟨h, _⟩ | ⟨st, h⟩ | h
                · rcases hbl with hbl | hbl | hbl <;> simp_all
                · simp_all
                · simp_all
                · simp_all
              · cases ha
          | quitting st' =>
            cases st' with
            | enter => exact once_race p hs hr ht' hd' ha0 hb0
            | stuck => simp [sendStepP, hs] at ha
            | _ => exfalso; have := (h8 _ hs (by simp)).1; simp [ht'] at this
    | dec =>
      simp only [recvStepP, hr] at hb
      cases hb
      obtain ⟨o1, o2, ⟨d0, c0⟩, o4⟩ := h9 p .dec hr (by simp)
      cases hs : s.sendPc with
      | done => simp [sendStepP, hs] at ha
      | idle =>
        simp only [sendStepP, hs] at ha
        split at ha
        · split at ha
          · cases ha; apply join1; clear h7 h8 h9 hK hS'; simp_all [sendStepP, recvStepP, partialWrite]
          · cases ha
        · split at ha <;> (cases ha; apply join1; clear h7 h8 h9 hK hS'; simp_all [sendStepP, recvStepP, partialWrite])
      | writing x =>
        simp only [sendStepP, hs] at ha
        split at ha
        · cases ha; apply join1; clear h7 h8 h9 hK hS'; simp_all [sendStepP, recvStepP, partialWrite]
        · split at ha
          · cases ha; apply join1; clear h7 h8 h9 hK hS'; simp_all [sendStepP, recvStepP, partialWrite]
          · cases ha
      | quitting st' =>
        have := o4 st' hs; subst this
        simp [sendStepP, hs, o1, o2] at ha
    | closeQ =>
      simp only [recvStepP, hr] at hb
      cases hb
      obtain ⟨o1, o2, ⟨d0, c0⟩, o4⟩ := h9 p .closeQ hr (by simp)
      cases hs : s.sendPc with
      | done => simp [sendStepP, hs] at ha
      | idle =>
        simp only [sendStepP, hs] at ha
        split at ha
        · split at ha
          · cases ha; apply join1; clear h7 h8 h9 hK hS'; simp_all [sendStepP, recvStepP, partialWrite]
          · cases ha
        · split at ha <;> (cases ha; apply join1; clear h7 h8 h9 hK hS'; simp_all [sendStepP, recvStepP, partialWrite])
      | writing x =>
        simp only [sendStepP, hs] at ha
        split at ha
        · cases ha; apply join1; clear h7 h8 h9 hK hS'; simp_all [sendStepP, recvStepP, partialWrite]
        · split at ha
          · cases ha; apply join1; clear h7 h8 h9 hK hS'; simp_all [sendStepP, recvStepP, partialWrite]
          · cases ha
      | quitting st' =>
        have := o4 st' hs; subst this
        simp [sendStepP, hs, o1, o2] at ha
    | closeConn =>
      simp only [recvStepP, hr] at hb
      cases hb
      obtain ⟨o1, o2, ⟨d0, c0, qc⟩, o4⟩ := h9 p .closeConn hr (by simp)
      cases hs : s.sendPc with
      | done => simp [sendStepP, hs] at ha
      | idle =>
        simp only [sendStepP, hs] at ha
        split at ha
        · split at ha
          · cases ha; apply join1; clear h7 h8 h9 hK hS'; simp_all [sendStepP, recvStepP, partialWrite]
          · first | (cases ha; done) | (exfalso; simp_all)
        · split at ha <;> (cases ha; apply join1; clear h7 h8 h9 hK hS'; simp_all [sendStepP, recvStepP, partialWrite])
      | writing x =>
        simp only [sendStepP, hs] at ha
        split at ha
        · cases ha; apply join1; clear h7 h8 h9 hK hS'; simp_all [sendStepP, recvStepP, partialWrite]
        · split at ha
          · exfalso
            rcases hK' c0 with hbl | ⟨h, _⟩ | ⟨st, h⟩ | h
            · rcases hbl with hbl | hbl | hbl <;> simp_all
            · simp_all
            · simp_all
            · simp_all
          · cases ha
      | quitting st' =>
        have := o4 st' hs; subst this
        simp [sendStepP, hs, o1, o2] at ha

theorem norace_sendStepP {s a : Sess} (hK : NoRace s) (ha : sendStepP s = some a) : NoRace a := by
  have key : a.recvPc = s.recvPc ∧ a.peerDrain = s.peerDrain ∧ a.wfault = s.wfault ∧ a.peerClosed = s.peerClosed ∧
      (a.closes = 0 → s.closes = 0) ∧
      ((s.sendPc = .idle ∧ s.q = []) ∨ (∃ st, s.sendPc = .quitting st) ∨ s.sendPc = .done →
        (∃ st, a.sendPc = .quitting st) ∨ a.sendPc = .done) ∧
      (blocked s → True) := by
    unfold sendStepP at ha
    repeat' split at ha
    all_goals first | (cases ha; simp_all; done) | cases ha
  obtain ⟨k1, k2, k3, k4, k5, k6, _⟩ := key
  unfold NoRace blocked at hK ⊢
  intro hq hc
  rw [k1] at hq
  rcases hK hq (k5 hc) with h | h
  · left; rw [k2, k3, k4]; exact h
  · right; right; exact k6 h

theorem norace_recvStepP {s b : Sess} (hK : NoRace s) (hb : recvStepP s = some b) : NoRace b := by
  unfold NoRace blocked at hK ⊢
  unfold recvStepP at hb
  intro hq hc
  cases hr : s.recvPc with
  | done => simp [hr] at hb
  | reading =>
    simp only [hr] at hb
    split at hb
    · rename_i hcond
      cases hb
      simp only at hc
      have hpc : s.peerClosed = true := by simp_all
      left; right; right; exact hpc
    · cases hb
  | quitting p st =>
    have hK' := hK ⟨p, st, hr⟩
    cases st <;> simp only [hr] at hb
    · split at hb
      · cases hb; simp at hq
      · split at hb
        · cases hb
        · cases hb; exact hK' hc
    · cases hb; exact hK' hc
    · cases hb; exact hK' hc
    · cases hb; simp at hq
    · cases hb

theorem exists_normal : ∀ (n : Nat) (s : Sess), measure s ≤ n → ∃ t, IRun s t ∧ normalP t
  | 0, s, h => by
    cases h1 : sendStepP s with
    | some a => have := measure_sendStepP h1; omega
    | none =>
      cases h2 : recvStepP s with
      | some b => have := measure_recvStepP h2; omega
      | none => exact ⟨s, IRun.refl s, h1, h2⟩
  | n + 1, s, h => by
    cases h1 : sendStepP s with
    | some a =>
      have := measure_sendStepP h1
      obtain ⟨t, r, ht⟩ := exists_normal n a (by omega)
      exact ⟨t, IRun.send h1 r, ht⟩
    | none =>
      cases h2 : recvStepP s with
      | some b =>
        have := measure_recvStepP h2
        obtain ⟨t, r, ht⟩ := exists_normal n b (by omega)
        exact ⟨t, IRun.recv h2 r, ht⟩
      | none => exact ⟨s, IRun.refl s, h1, h2⟩

theorem irun_measure {s t : Sess} (r : IRun s t) : measure t ≤ measure s := by
  induction r with
  | refl => exact Nat.le_refl _
  | send h _ ih => have := measure_sendStepP h; omega
  | recv h _ ih => have := measure_recvStepP h; omega

theorem irun_inv {s t : Sess} (r : IRun s t) (hS : SInv s) (hK : NoRace s) : SInv t ∧ NoRace t := by
  induction r with
  | refl => exact ⟨hS, hK⟩
  | send h _ ih => exact ih (sinv_sendStepP hS h) (norace_sendStepP hK h)
  | recv h _ ih => exact ih (sinv_recvStepP hS h) (norace_recvStepP hK h)

/-- whatever the schedule of the two loops, the state at quiescence is the same -/
theorem normal_unique : ∀ (n : Nat) (s t1 t2 : Sess), measure s ≤ n → SInv s → NoRace s →
    IRun s t1 → normalP t1 → IRun s t2 → normalP t2 → t1 = t2
  | 0, s, t1, t2, hm, _, _, r1, _, r2, _ => by
    cases r1 with
    | refl => cases r2 with
      | refl => rfl
      | send h _ => have := measure_sendStepP h; omega
      | recv h _ => have := measure_recvStepP h; omega
    | send h _ => have := measure_sendStepP h; omega
    | recv h _ => have := measure_recvStepP h; omega
  | n + 1, s, t1, t2, hm, hS, hK, r1, n1, r2, n2 => by
    cases r1 with
    | refl =>
      cases r2 with
      | refl => rfl
      | send h _ => rw [n1.1] at h; cases h
      | recv h _ => rw [n1.2] at h; cases h
    | send ha ra =>
      rename_i a
      have hma := measure_sendStepP ha
      cases r2 with
      | refl => rw [n2.1] at ha; cases ha
      | send ha' ra' =>
        rw [ha] at ha'; cases ha'
        exact normal_unique n a t1 t2 (by omega) (sinv_sendStepP hS ha) (norace_sendStepP hK ha) ra n1 ra' n2
      | recv hb rb =>
        rename_i b
        have hmb := measure_recvStepP hb
        obtain ⟨d, hd1, hd2⟩ := diamond hS hK ha hb
        obtain ⟨nd, rd, nnd⟩ := exists_normal (measure d) d (Nat.le_refl _)
        have e1 := normal_unique n a t1 nd (by omega) (sinv_sendStepP hS ha) (norace_sendStepP hK ha) ra n1 (hd1.trans rd) nnd
        have e2 := normal_unique n b t2 nd (by omega) (sinv_recvStepP hS hb) (norace_recvStepP hK hb) rb n2 (hd2.trans rd) nnd
        rw [e1, e2]
    | recv hb rb =>
      rename_i b
      have hmb := measure_recvStepP hb
      cases r2 with
      | refl => rw [n2.2] at hb; cases hb
      | recv hb' rb' =>
        rw [hb] at hb'; cases hb'
        exact normal_unique n b t1 t2 (by omega) (sinv_recvStepP hS hb) (norace_recvStepP hK hb) rb n1 rb' n2
      | send ha ra =>
        rename_i a
        have hma := measure_sendStepP ha
        obtain ⟨d, hd1, hd2⟩ := diamond hS hK ha hb
        obtain ⟨nd, rd, nnd⟩ := exists_normal (measure d) d (Nat.le_refl _)
        have e1 := normal_unique n b t1 nd (by omega) (sinv_recvStepP hS hb) (norace_recvStepP hK hb) rb n1 (hd2.trans rd) nnd
        have e2 := normal_unique n a t2 nd (by omega) (sinv_sendStepP hS ha) (norace_sendStepP hK ha) ra n2 (hd1.trans rd) nnd
        rw [e1, e2]

/-- a quiescent state followed by one environment event has no race -/
theorem norace_after_event {s : Sess} (h : ended s ∨ waiting s) (e : Env) : NoRace (envStep s e) := by
  unfold NoRace blocked
  intro ⟨p, st, hp⟩ hc
  rcases h with he | hw
  · exfalso
    unfold ended at he
    cases e <;> simp only [envStep] at hp hc <;> (try split at hp) <;> simp_all
  · unfold waiting at hw
    obtain ⟨_, _, _, _, w5, w6, w7⟩ := hw
    rcases w7 with ⟨a1, a2, a3⟩ | ⟨x, a1, a2, a3⟩
    · cases e <;> simp only [envStep] at hp hc ⊢ <;> (try split) <;> simp_all
    · cases e <;> simp only [envStep] at hp hc ⊢ <;> (try split) <;> simp_all

theorem irun_settleN {c : Cfg} (hc : Proved c) : ∀ (n : Nat) (s : Sess), SInv s → IRun s (settleN c n s)
  | 0, s, _ => IRun.refl s
  | n + 1, s, hS => by
    simp only [settleN]
    cases h1 : sendStep c s with
    | some a =>
      rw [sendStep_proved hc s hS.exit_ret] at h1
      exact IRun.send h1 (irun_settleN hc n a (sinv_sendStepP hS h1))
    | none =>
      simp only
      cases h2 : recvStep c s with
      | some b =>
        rw [recvStep_proved hc s hS.exit_ret hS.not_crashed] at h2
        exact IRun.recv h2 (irun_settleN hc n b (sinv_recvStepP hS h2))
      | none => exact IRun.refl s

end Nv.C16
