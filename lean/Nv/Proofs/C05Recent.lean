import Nv.Proofs.C05Mem
import Nv.Proofs.C05Hist
/-! C05 — recency: a hit / overwrite moves the key to the front; a Set of a new key evicts at most the tail. -/
namespace Nv.C05

/-- after `touch` of a key that is on the list, its node is the head of the list -/
theorem touch_head {m : Mem} {n x : Node} (h : findKey n.key m.live = some x) :
    (m.touch n).live = n :: eraseKey n.key m.live := by
  simp [Mem.touch, h]

/-- with the index written before the eviction, a Set of a new key pushes it to the front and drops exactly the
    tail of the recency list, and only when the list is full -/
theorem insertNew_live {c : Cfg} (hc : c.indexOrder = .beforeEvict) (m : Mem) (n : Node) :
    (m.live.length < m.size ∧ (m.insertNew c n).live = n :: m.live) ∨
    (m.size ≤ m.live.length ∧ (m.insertNew c n).live = (n :: m.live).dropLast) := by
  rcases insertNew_cases c m n with ⟨hgt, e⟩ | ⟨_, hne, _⟩ | ⟨hle, e⟩
  · right; rw [e]; exact ⟨by omega, rfl⟩
  · exact absurd hc hne
  · left; rw [e]; exact ⟨by omega, rfl⟩

/-- a node that is not the last of a full list survives a Set of a new key, one place further back -/
theorem insertNew_keeps {c : Cfg} (hc : c.indexOrder = .beforeEvict) (m : Mem) (n x : Node) (pre post : List Node)
    (hl : m.live = pre ++ x :: post) (hroom : pre.length + 1 < m.size ∨ post ≠ []) :
    ∃ post', (m.insertNew c n).live = (n :: pre) ++ x :: post' := by
  rcases insertNew_live hc m n with ⟨_, e⟩ | ⟨hfull, e⟩
  · exact ⟨post, by rw [e, hl]; rfl⟩
  · have hpost : post ≠ [] := by
      rcases hroom with h | h
      · intro hp; subst hp; rw [hl] at hfull; simp at hfull; omega
      · exact h
    refine ⟨post.dropLast, ?_⟩
    rw [e, hl]
    have : n :: (pre ++ x :: post) = (n :: pre ++ [x]) ++ post := by simp
    rw [this, List.dropLast_append_of_ne_nil hpost]; simp

theorem eraseKey_append (k : Key) (a b : List Node) : eraseKey k (a ++ b) = eraseKey k a ++ eraseKey k b := by
  induction a with
  | nil => rfl
  | cons y a ih => simp only [List.cons_append, eraseKey]; split <;> simp [ih]

/-- `x` is on the recency list with at most `i` nodes in front of it -/
def At (m : Mem) (x : Node) (i : Nat) : Prop := ∃ pre post, m.live = pre ++ x :: post ∧ pre.length ≤ i

theorem at_removeKey {m : Mem} {x : Node} {i : Nat} (h : At m x i) {k' : Key} (hk : x.key ≠ k') :
    At (m.removeKey k') x i := by
  obtain ⟨pre, post, hl, hi⟩ := h
  refine ⟨eraseKey k' pre, eraseKey k' post, ?_, Nat.le_trans (eraseKey_length_le _ _) hi⟩
  simp [Mem.removeKey, hl, eraseKey_append, eraseKey, hk]

theorem at_touch {m : Mem} {x : Node} {i : Nat} (h : At m x i) (hb : Bounded m) {n y : Node}
    (hy : m.lookup n.key = some y) (hk : x.key ≠ n.key) : At (m.touch n) x (i + 1) := by
  obtain ⟨pre, post, hl, hi⟩ := h
  have hlive : findKey n.key m.live = some y := by
    simp only [Mem.lookup, hb.1, findKey] at hy
    split at hy
    · rename_i z hz; rw [hz, hy]
    · cases hy
  refine ⟨n :: eraseKey n.key pre, eraseKey n.key post, ?_, ?_⟩
  · rw [touch_head hlive, hl]; simp [eraseKey_append, eraseKey, hk]
  · have := eraseKey_length_le n.key pre; simp only [List.length_cons]; omega

theorem at_insertNew {c : Cfg} (hc : c.indexOrder = .beforeEvict) {m : Mem} {x : Node} {i : Nat} (h : At m x i)
    (hi : i + 1 < m.size) (n : Node) : At (m.insertNew c n) x (i + 1) := by
  obtain ⟨pre, post, hl, hp⟩ := h
  obtain ⟨post', e⟩ := insertNew_keeps hc m n x pre post hl (Or.inl (by omega))
  exact ⟨n :: pre, post', e, by simp only [List.length_cons]; omega⟩

theorem at_mono {m : Mem} {x : Node} {i j : Nat} (h : At m x i) (hij : i ≤ j) : At m x j := by
  obtain ⟨pre, post, hl, hp⟩ := h; exact ⟨pre, post, hl, Nat.le_trans hp hij⟩

/-- one call that does not address the key of `x` (and is not Clear) moves `x` back by at most one place and never
    drops it while fewer than `size − 1` nodes are in front of it -/
theorem at_step {c : Cfg} (hc : c.indexOrder = .beforeEvict) {m : Mem} (hb : Bounded m) {x : Node} {i : Nat}
    (h : At m x i) (hi : i + 1 < m.size) (now : Int) (op : Op) (hop : opKey op ≠ some x.key) (hcl : op ≠ .clear) :
    At (m.step c now op).1 x (i + 1) := by
  cases op with
  | clear => exact absurd rfl hcl
  | tick _ => exact at_mono h (Nat.le_succ i)
  | remove k' =>
    have hk : x.key ≠ k' := fun e => hop (by simp [opKey, e])
    exact at_mono (at_removeKey h hk) (Nat.le_succ i)
  | get k' o =>
    have hk : x.key ≠ k' := fun e => hop (by simp [opKey, e])
    simp only [Mem.step, Mem.get]
    split
    · exact at_mono h (Nat.le_succ i)
    · rename_i y hy
      have hky := lookup_key hy
      split
      · exact at_mono (at_removeKey h hk) (Nat.le_succ i)
      · split
        · exact at_mono (at_removeKey h hk) (Nat.le_succ i)
        · apply at_touch h hb (y := y)
          · split <;> simpa [hky] using hy
          · split <;> simpa [hky] using hk
  | set k' v o =>
    have hk : x.key ≠ k' := fun e => hop (by simp [opKey, e])
    simp only [Mem.step, Mem.set]
    have hp : At (m.preSet c now k') x i := by
      unfold Mem.preSet; split
      · unfold Mem.purgeIfExpired; split
        · split
          · exact at_removeKey h hk
          · exact h
        · exact h
      · exact h
    have hbp := bounded_preSet (c := c) hb now k'
    have hsz := size_preSet c m now k'
    generalize m.preSet c now k' = m' at hp hbp hsz
    unfold Mem.setCore
    split
    · rename_i y hy
      have hky := lookup_key hy
      split
      · exact at_mono hp (Nat.le_succ i)
      · exact at_touch hp hbp (y := y) (by simpa [hky] using hy) (by simpa [hky] using hk)
    · exact at_insertNew hc hp (by omega) _

/-! ### the full recency clause: the nodes ahead of `x` are among the distinct keys touched since -/

/-- `x` is on the recency list and every node ahead of it has its key in `S` -/
def Ahead (m : Mem) (x : Node) (S : List Key) : Prop :=
  ∃ pre post, m.live = pre ++ x :: post ∧ ∀ n ∈ pre, n.key ∈ S

theorem mem_addKey {k a : Key} {S : List Key} : a ∈ addKey k S ↔ a = k ∨ a ∈ S := by
  unfold addKey; split
  · rename_i h; constructor
    · intro ha; exact Or.inr ha
    · rintro (e | ha)
      · subst e; exact h
      · exact ha
  · simp

theorem nodup_addKey {k : Key} {S : List Key} (h : S.Nodup) : (addKey k S).Nodup := by
  unfold addKey; split
  · exact h
  · rename_i hk; exact List.nodup_cons.2 ⟨hk, h⟩

theorem length_addKey_ge (k : Key) (S : List Key) : S.length ≤ (addKey k S).length := by
  unfold addKey; split <;> simp

theorem touchedBy_nodup : ∀ (ops : List Op) (S : List Key), S.Nodup → (touchedBy S ops).Nodup := by
  intro ops
  induction ops with
  | nil => intro S h; exact h
  | cons op ops ih =>
    intro S h
    simp only [touchedBy]
    apply ih
    split
    · exact nodup_addKey h
    · exact h

theorem touchedBy_length_ge : ∀ (ops : List Op) (S : List Key), S.length ≤ (touchedBy S ops).length := by
  intro ops
  induction ops with
  | nil => intro S; exact Nat.le_refl _
  | cons op ops ih =>
    intro S
    simp only [touchedBy]
    split
    · exact Nat.le_trans (length_addKey_ge _ S) (ih _)
    · exact ih _

theorem ahead_mono {m : Mem} {x : Node} {S S' : List Key} (h : Ahead m x S) (hs : ∀ a ∈ S, a ∈ S') : Ahead m x S' := by
  obtain ⟨pre, post, hl, hp⟩ := h
  exact ⟨pre, post, hl, fun n hn => hs _ (hp n hn)⟩

theorem mem_eraseKey {k : Key} {l : List Node} {n : Node} (h : n ∈ eraseKey k l) : n ∈ l :=
  (eraseKey_sublist k l).subset h

theorem ahead_removeKey {m : Mem} {x : Node} {S : List Key} (h : Ahead m x S) {k' : Key} (hk : x.key ≠ k') :
    Ahead (m.removeKey k') x S := by
  obtain ⟨pre, post, hl, hp⟩ := h
  refine ⟨eraseKey k' pre, eraseKey k' post, ?_, fun n hn => hp n (mem_eraseKey hn)⟩
  simp [Mem.removeKey, hl, eraseKey_append, eraseKey, hk]

theorem ahead_touch {m : Mem} {x : Node} {S : List Key} (h : Ahead m x S) (hb : Bounded m) {n y : Node}
    (hy : m.lookup n.key = some y) (hk : x.key ≠ n.key) : Ahead (m.touch n) x (addKey n.key S) := by
  obtain ⟨pre, post, hl, hp⟩ := h
  have hlive : findKey n.key m.live = some y := by
    simp only [Mem.lookup, hb.1, findKey] at hy
    split at hy
    · rename_i z hz; rw [hz, hy]
    · cases hy
  refine ⟨n :: eraseKey n.key pre, eraseKey n.key post, ?_, ?_⟩
  · rw [touch_head hlive, hl]; simp [eraseKey_append, eraseKey, hk]
  · intro a ha
    rcases List.mem_cons.1 ha with e | e
    · subst e; exact mem_addKey.2 (Or.inl rfl)
    · exact mem_addKey.2 (Or.inr (hp a (mem_eraseKey e)))

/-- the keys ahead of `x` are distinct and lie in `S`, so there are at most `|S|` of them -/
theorem ahead_insertNew {c : Cfg} (hc : c.indexOrder = .beforeEvict) {m : Mem} (hwf : WF m) {x : Node} {S : List Key}
    (h : Ahead m x S) (n : Node) (hnew : m.lookup n.key = none) (hcard : (addKey n.key S).length < m.size) :
    Ahead (m.insertNew c n) x (addKey n.key S) := by
  obtain ⟨pre, post, hl, hp⟩ := h
  have hni := lookup_none_iff.1 hnew
  simp only [Mem.indexed, List.mem_append, not_or] at hni
  have hnd : (keys m.live).Nodup := (wf_iff.1 hwf).1
  have hpre : (keys pre).Nodup := by
    rw [hl] at hnd
    simp only [keys, List.map_append] at hnd
    exact (List.nodup_append.1 hnd).1
  have hnk : n.key ∉ keys pre := by
    intro hm; apply hni.1; rw [hl]; simp only [keys, List.map_append, List.mem_append]; exact Or.inl hm
  have hlen : (n.key :: keys pre).length ≤ (addKey n.key S).length := by
    apply nodup_subset_length (List.nodup_cons.2 ⟨hnk, hpre⟩)
    intro a ha
    rcases List.mem_cons.1 ha with e | e
    · exact mem_addKey.2 (Or.inl e)
    · simp only [keys, List.mem_map] at e
      obtain ⟨y, hy, rfl⟩ := e
      exact mem_addKey.2 (Or.inr (hp y hy))
  have hroom : pre.length + 1 < m.size := by
    simp only [List.length_cons, keys, List.length_map] at hlen; omega
  obtain ⟨post', e⟩ := insertNew_keeps hc m n x pre post hl (Or.inl hroom)
  refine ⟨n :: pre, post', e, ?_⟩
  intro a ha
  rcases List.mem_cons.1 ha with e' | e'
  · subst e'; exact mem_addKey.2 (Or.inl rfl)
  · exact mem_addKey.2 (Or.inr (hp a e'))

/-- one call that neither addresses the key of `x` nor is a Clear keeps `x` on the list, with only touched keys ahead -/
theorem ahead_step {c : Cfg} (hc : c.indexOrder = .beforeEvict) {m : Mem} (hwf : WF m) (hb : Bounded m) {x : Node}
    {S : List Key} (h : Ahead m x S) (now : Int) (op : Op) (hop : opKey op ≠ some x.key) (hcl : op ≠ .clear)
    (hcard : (match opKey op with | some k => addKey k S | none => S).length < m.size) :
    Ahead (m.step c now op).1 x (match opKey op with | some k => addKey k S | none => S) := by
  cases op with
  | clear => exact absurd rfl hcl
  | tick _ => exact h
  | remove k' =>
    have hk : x.key ≠ k' := fun e => hop (by simp [opKey, e])
    exact ahead_mono (ahead_removeKey h hk) (fun a ha => mem_addKey.2 (Or.inr ha))
  | get k' o =>
    have hk : x.key ≠ k' := fun e => hop (by simp [opKey, e])
    have up : ∀ {m'}, Ahead m' x S → Ahead m' x (addKey k' S) :=
      fun h' => ahead_mono h' (fun a ha => mem_addKey.2 (Or.inr ha))
    simp only [Mem.step, Mem.get, opKey]
    split
    · exact up h
    · rename_i y hy
      have hky := lookup_key hy
      split
      · exact up (ahead_removeKey h hk)
      · split
        · exact up (ahead_removeKey h hk)
        · cases hu : o.update with
          | none =>
            have := ahead_touch (n := y) h hb (y := y) (by simpa [hky] using hy) (by simpa [hky] using hk)
            simpa [hky] using this
          | some t =>
            have := ahead_touch (n := { y with dl := deadline now (getTtl m.dttl t) }) h hb (y := y)
              (by simpa [hky] using hy) (by simpa [hky] using hk)
            simpa [hky] using this
  | set k' v o =>
    have hk : x.key ≠ k' := fun e => hop (by simp [opKey, e])
    have up : ∀ {m'}, Ahead m' x S → Ahead m' x (addKey k' S) :=
      fun h' => ahead_mono h' (fun a ha => mem_addKey.2 (Or.inr ha))
    simp only [Mem.step, Mem.set, opKey] at hcard ⊢
    have hp : Ahead (m.preSet c now k') x S := by
      unfold Mem.preSet; split
      · unfold Mem.purgeIfExpired; split
        · split
          · exact ahead_removeKey h hk
          · exact h
        · exact h
      · exact h
    have hbp := bounded_preSet (c := c) hb now k'
    have hwp := wf_preSet (c := c) hwf now k'
    have hsz := size_preSet c m now k'
    generalize m.preSet c now k' = m' at hp hbp hwp hsz
    unfold Mem.setCore
    split
    · rename_i y hy
      have hky := lookup_key hy
      split
      · exact up hp
      · have := ahead_touch (n := { y with val := v, dl := if o.keepTTL = true then y.dl else deadline now (setTtl m' o) })
          hp hbp (y := y) (by simpa [hky] using hy) (by simpa [hky] using hk)
        simpa [hky] using this
    · rename_i hn
      exact ahead_insertNew hc hwp hp ⟨k', v, deadline now (setTtl m' o)⟩ hn (by simpa [hsz] using hcard)

theorem ahead_lookup {m : Mem} (hwf : WF m) {x : Node} {S : List Key} (h : Ahead m x S) : m.lookup x.key = some x := by
  obtain ⟨pre, post, hl, -⟩ := h
  have hnd : (keys m.live).Nodup := (wf_iff.1 hwf).1
  rw [hl] at hnd
  simp only [keys, List.map_append, List.map_cons] at hnd
  have hnot : x.key ∉ keys pre := by
    intro hm
    exact (List.nodup_append.1 hnd).2.2 x.key hm x.key (by simp) rfl
  have : findKey x.key m.live = some x := by
    rw [hl]
    clear hl hnd
    induction pre with
    | nil => simp [findKey]
    | cons a pre ih =>
      simp only [keys, List.map_cons, List.mem_cons, not_or] at hnot
      have : ¬ a.key = x.key := fun e => hnot.1 e.symm
      simp only [List.cons_append, findKey, this, if_false]
      exact ih (by simpa [keys] using hnot.2)
  simp [Mem.lookup, this]

theorem ahead_run {c : Cfg} (hc : c.indexOrder = .beforeEvict) {x : Node} : ∀ (ops : List Op) (s : MSys) (S : List Key),
    WF s.mem → Bounded s.mem → Ahead s.mem x S → (∀ op ∈ ops, opKey op ≠ some x.key ∧ op ≠ .clear) →
    (touchedBy S ops).length < s.mem.size → Ahead (final (MSys.step c) s ops).mem x (touchedBy S ops) := by
  intro ops
  induction ops with
  | nil => intro s S _ _ h _ _; exact h
  | cons op ops ih =>
    intro s S hwf hb h hops hcard
    rw [final_cons]
    simp only [touchedBy] at hcard ⊢
    obtain ⟨hm, _⟩ := msys_step_mem c s op
    have hsz : (MSys.step c s op).1.mem.size = s.mem.size := by rw [hm]; exact step_size _ _ _ _
    apply ih
    · rw [hm]; exact wf_step hwf _ _
    · rw [hm]; exact bounded_step hc hb _ _
    · rw [hm]
      exact ahead_step hc hwf hb h _ op (hops op (by simp)).1 (hops op (by simp)).2
        (Nat.lt_of_le_of_lt (touchedBy_length_ge ops _) hcard)
    · intro o ho; exact hops o (by simp [ho])
    · rw [hsz]; exact hcard

/-- a successful Set leaves the key's node at the head of the recency list (size ≥ 1) -/
theorem set_head {c : Cfg} (hc : c.indexOrder = .beforeEvict) {m : Mem} (hb : Bounded m) (hs : 1 ≤ m.size) (now : Int)
    (k : Key) (v : Val) (o : SetOpt) (hok : (m.set c now k v o).2 = .ok) :
    ∃ x rest, (m.set c now k v o).1.live = x :: rest ∧ x.key = k := by
  have hbp := bounded_preSet (c := c) hb now k
  have hsz := size_preSet c m now k
  simp only [Mem.set] at hok ⊢
  generalize m.preSet c now k = m' at hbp hsz hok
  unfold Mem.setCore at hok ⊢
  split
  · rename_i y hy
    have hky := lookup_key hy
    split
    · rename_i hm; simp [hy, hm] at hok
    · have hlive : findKey k m'.live = some y := by
        have := hy
        simp only [Mem.lookup, hbp.1, findKey] at this
        split at this
        · rename_i z hz; rw [hz, this]
        · cases this
      refine ⟨_, _, touch_head (n := { y with val := v, dl := if o.keepTTL = true then y.dl else deadline now (setTtl m' o) })
        (x := y) (by simpa [hky] using hlive), by simp [hky]⟩
  · rcases insertNew_live hc m' ⟨k, v, deadline now (setTtl m' o)⟩ with ⟨_, e⟩ | ⟨hfull, e⟩
    · exact ⟨_, _, e, rfl⟩
    · have hne : m'.live ≠ [] := by
        intro h0; rw [h0] at hfull; simp at hfull; omega
      rw [List.dropLast_cons_of_ne_nil hne] at e
      exact ⟨_, _, e, rfl⟩

theorem writesTtl_of_opKey {k : Key} {op : Op} (h : opKey op ≠ some k) : writesTtl k op = false := by
  cases op with
  | set k' v o => simp only [writesTtl, decide_eq_false_iff_not]; intro e; exact h (by simp [opKey, e])
  | get k' o =>
    have : ¬ k' = k := fun e => h (by simp [opKey, e])
    simp [writesTtl, this]
  | remove _ => rfl
  | clear => rfl
  | tick _ => rfl

end Nv.C05
