import Nv.Proofs.C05Mem
/-! C05 — recency: a hit / overwrite moves the key to the front; a Set of a new key evicts at most the tail. -/
namespace Nv.C05

/-- after `touch` of a key that is on the list, its node is the head of the list -/
theorem touch_head {m : Mem} {n x : Node} (h : findKey n.key m.live = some x) :
    (m.touch n).live = n :: eraseKey n.key m.live := by
  simp [Mem.touch, h]

/-- with the index written before the eviction, a Set of a new key pushes it to the front and drops exactly the
    tail of the recency list, and only when the list is full -/
theorem insertNew_live {c : Cfg} (hc : c.indexOrder = .beforeEvict) (m : Mem) (n : Node) :
    (m.live.length < m.size ∧ (m.insertNew c n).live = n :: m.live) ∨
    (m.size ≤ m.live.length ∧ (m.insertNew c n).live = (n :: m.live).dropLast) := by
  rcases insertNew_cases c m n with ⟨hgt, e⟩ | ⟨_, hne, _⟩ | ⟨hle, e⟩
  · right; rw [e]; exact ⟨by omega, rfl⟩
  · exact absurd hc hne
  · left; rw [e]; exact ⟨by omega, rfl⟩

/-- a node that is not the last of a full list survives a Set of a new key, one place further back -/
theorem insertNew_keeps {c : Cfg} (hc : c.indexOrder = .beforeEvict) (m : Mem) (n x : Node) (pre post : List Node)
    (hl : m.live = pre ++ x :: post) (hroom : pre.length + 1 < m.size ∨ post ≠ []) :
    ∃ post', (m.insertNew c n).live = (n :: pre) ++ x :: post' := by
  rcases insertNew_live hc m n with ⟨_, e⟩ | ⟨hfull, e⟩
  · exact ⟨post, by rw [e, hl]; rfl⟩
  · have hpost : post ≠ [] := by
      rcases hroom with h | h
      · intro hp; subst hp; rw [hl] at hfull; simp at hfull; omega
      · exact h
    refine ⟨post.dropLast, ?_⟩
    rw [e, hl]
    have : n :: (pre ++ x :: post) = (n :: pre ++ [x]) ++ post := by simp
    rw [this, List.dropLast_append_of_ne_nil hpost]; simp

theorem eraseKey_append (k : Key) (a b : List Node) : eraseKey k (a ++ b) = eraseKey k a ++ eraseKey k b := by
  induction a with
  | nil => rfl
  | cons y a ih => simp only [List.cons_append, eraseKey]; split <;> simp [ih]

/-- `x` is on the recency list with at most `i` nodes in front of it -/
def At (m : Mem) (x : Node) (i : Nat) : Prop := ∃ pre post, m.live = pre ++ x :: post ∧ pre.length ≤ i

theorem at_removeKey {m : Mem} {x : Node} {i : Nat} (h : At m x i) {k' : Key} (hk : x.key ≠ k') :
    At (m.removeKey k') x i := by
  obtain ⟨pre, post, hl, hi⟩ := h
  refine ⟨eraseKey k' pre, eraseKey k' post, ?_, Nat.le_trans (eraseKey_length_le _ _) hi⟩
  simp [Mem.removeKey, hl, eraseKey_append, eraseKey, hk]

theorem at_touch {m : Mem} {x : Node} {i : Nat} (h : At m x i) (hb : Bounded m) {n y : Node}
    (hy : m.lookup n.key = some y) (hk : x.key ≠ n.key) : At (m.touch n) x (i + 1) := by
  obtain ⟨pre, post, hl, hi⟩ := h
  have hlive : findKey n.key m.live = some y := by
    simp only [Mem.lookup, hb.1, findKey] at hy
    split at hy
    · rename_i z hz; rw [hz, hy]
    · cases hy
  refine ⟨n :: eraseKey n.key pre, eraseKey n.key post, ?_, ?_⟩
  · rw [touch_head hlive, hl]; simp [eraseKey_append, eraseKey, hk]
  · have := eraseKey_length_le n.key pre; simp only [List.length_cons]; omega

theorem at_insertNew {c : Cfg} (hc : c.indexOrder = .beforeEvict) {m : Mem} {x : Node} {i : Nat} (h : At m x i)
    (hi : i + 1 < m.size) (n : Node) : At (m.insertNew c n) x (i + 1) := by
  obtain ⟨pre, post, hl, hp⟩ := h
  obtain ⟨post', e⟩ := insertNew_keeps hc m n x pre post hl (Or.inl (by omega))
  exact ⟨n :: pre, post', e, by simp only [List.length_cons]; omega⟩

theorem at_mono {m : Mem} {x : Node} {i j : Nat} (h : At m x i) (hij : i ≤ j) : At m x j := by
  obtain ⟨pre, post, hl, hp⟩ := h; exact ⟨pre, post, hl, Nat.le_trans hp hij⟩

/-- one call that does not address the key of `x` (and is not Clear) moves `x` back by at most one place and never
    drops it while fewer than `size − 1` nodes are in front of it -/
theorem at_step {c : Cfg} (hc : c.indexOrder = .beforeEvict) {m : Mem} (hb : Bounded m) {x : Node} {i : Nat}
    (h : At m x i) (hi : i + 1 < m.size) (now : Int) (op : Op) (hop : opKey op ≠ some x.key) (hcl : op ≠ .clear) :
    At (m.step c now op).1 x (i + 1) := by
  cases op with
  | clear => exact absurd rfl hcl
  | tick _ => exact at_mono h (Nat.le_succ i)
  | remove k' =>
    have hk : x.key ≠ k' := fun e => hop (by simp [opKey, e])
    exact at_mono (at_removeKey h hk) (Nat.le_succ i)
  | get k' o =>
    have hk : x.key ≠ k' := fun e => hop (by simp [opKey, e])
    simp only [Mem.step, Mem.get]
    split
    · exact at_mono h (Nat.le_succ i)
    · rename_i y hy
      have hky := lookup_key hy
      split
      · exact at_mono (at_removeKey h hk) (Nat.le_succ i)
      · split
        · exact at_mono (at_removeKey h hk) (Nat.le_succ i)
        · apply at_touch h hb (y := y)
          · split <;> simpa [hky] using hy
          · split <;> simpa [hky] using hk
  | set k' v o =>
    have hk : x.key ≠ k' := fun e => hop (by simp [opKey, e])
    simp only [Mem.step, Mem.set]
    have hp : At (m.preSet c now k') x i := by
      unfold Mem.preSet; split
      · unfold Mem.purgeIfExpired; split
        · split
          · exact at_removeKey h hk
          · exact h
        · exact h
      · exact h
    have hbp := bounded_preSet (c := c) hb now k'
    have hsz := size_preSet c m now k'
    generalize m.preSet c now k' = m' at hp hbp hsz
    unfold Mem.setCore
    split
    · rename_i y hy
      have hky := lookup_key hy
      split
      · exact at_mono hp (Nat.le_succ i)
      · exact at_touch hp hbp (y := y) (by simpa [hky] using hy) (by simpa [hky] using hk)
    · exact at_insertNew hc hp (by omega) _

end Nv.C05
