import Nv.Proofs.C03Remove2
/-! C03 — `Get`, `Min`, `Max` against the sorted list. -/
namespace Nv.C03

theorem getH_spec (mn mx : Nat) (k : Int) : ∀ (h : Nat) (n : Node), KidsOk mn mx h n → Sorted n.inorder →
    getH k h n = specFind n.inorder k := by
  intro h
  induction h with
  | zero =>
    intro n hk hs
    cases n with
    | mk is cs =>
      simp only [KidsOk, children_mk] at hk; subst hk
      simp only [inorder_mk, interleave_nil_right] at hs ⊢
      simp only [getH]
      cases hf : (findIdx is k).2 with
      | true =>
        obtain ⟨y, hy, hky⟩ := (findIdx_found is k).1 hf
        have := found_spec ⟨k, 0⟩ y is [] _ (Or.inl rfl) (by simpa using hs) hy hky
        simp only [interleave_nil_right] at this
        simp [hy, this.2]
      | false =>
        simp only [Bool.false_eq_true, if_false]
        symm; apply specFind_none
        intro a ha
        rw [← List.take_append_drop (findIdx is k).1 is] at ha
        rcases List.mem_append.1 ha with ha | ha
        · have := findIdx_take_lt is k a ha; omega
        · have := findIdx_not_found_gt is k hs hf a ha; omega
  | succ h ih =>
    intro n hk hs
    cases n with
    | mk is cs =>
      simp only [KidsOk, children_mk, items_mk] at hk
      simp only [inorder_mk] at hs ⊢
      cases cs with
      | nil => simp at hk
      | cons c0 cs0 =>
        simp only [getH]
        cases hf : (findIdx is k).2 with
        | true =>
          obtain ⟨y, hy, hky⟩ := (findIdx_found is k).1 hf
          have := found_spec ⟨k, 0⟩ y is (c0 :: cs0) _ (Or.inr hk.1) hs hy hky
          simp [hy, this.2]
        | false =>
          simp only [Bool.false_eq_true, if_false]
          have hi := findIdx_le is k
          have hic : (findIdx is k).1 < (c0 :: cs0).length := by omega
          have hC := getD_mem (c0 :: cs0) (findIdx is k).1 default hic
          have hCk := ((nodeOk_iff _ _ _ _).1 (hk.2 _ hC)).2.2
          rw [ih _ hCk (sorted_child is _ hs _ hC hk.1)]
          have d := descend_spec ⟨k, 0⟩ is (c0 :: cs0) (findIdx is k).1
            (.mk (specInsert ((c0 :: cs0).getD (findIdx is k).1 default).inorder ⟨k, 0⟩) []) hk.1 hi hs
            (findIdx_take_lt is k) (findIdx_not_found_gt is k (sorted_items _ _ hs) hf) (by simp)
          exact d.2.symm

theorem minH_spec (mn mx : Nat) (hmn : 1 ≤ mn) : ∀ (h : Nat) (n : Node), KidsOk mn mx h n →
    minH h n = n.inorder.head? := by
  intro h
  induction h with
  | zero =>
    intro n hk
    cases n with
    | mk is cs => simp only [KidsOk, children_mk] at hk; subst hk; simp [minH]
  | succ h ih =>
    intro n hk
    cases n with
    | mk is cs =>
      simp only [KidsOk, children_mk, items_mk] at hk
      cases cs with
      | nil => simp at hk
      | cons c cs =>
        have hc := (nodeOk_iff _ _ _ _).1 (hk.2 c (by simp))
        have hne := inorder_ne_nil c (kids_shape_or _ _ _ _ hc.2.2) (by omega)
        simp only [minH, inorder_mk, interleave_child_first, ih c hc.2.2]
        cases hci : c.inorder with
        | nil => exact absurd hci hne
        | cons a l => simp

theorem maxH_spec (mn mx : Nat) (hmn : 1 ≤ mn) : ∀ (h : Nat) (n : Node), KidsOk mn mx h n →
    maxH h n = n.inorder.getLast? := by
  intro h
  induction h with
  | zero =>
    intro n hk
    cases n with
    | mk is cs => simp only [KidsOk, children_mk] at hk; subst hk; simp [maxH]
  | succ h ih =>
    intro n hk
    cases n with
    | mk is cs =>
      simp only [KidsOk, children_mk, items_mk] at hk
      cases cs with
      | nil => simp at hk
      | cons c cs =>
        have hlast : (c :: cs).getLast?.getD default = (c :: cs).getD is.length default := by
          rw [List.getLast?_eq_getElem?, hk.1]; simp [List.getD]
        have hmem := getD_mem (c :: cs) is.length default (by omega)
        have hc := (nodeOk_iff _ _ _ _).1 (hk.2 _ hmem)
        have hne := inorder_ne_nil _ (kids_shape_or _ _ _ _ hc.2.2) (by omega)
        simp only [maxH, inorder_mk, hlast, ih _ hc.2.2]
        rw [interleave_at' is.length is (c :: cs) hk.1 (Nat.le_refl _)]
        simp only [List.drop_length, rightPart_nil, List.append_nil, List.getLast?_append]
        cases hg : ((c :: cs).getD is.length default).inorder.getLast? with
        | none => exact absurd (List.getLast?_eq_none_iff.1 hg) hne
        | some z => simp

theorem tree_get_spec (t : Tree) (k : Int) (h : t.ok = true) : t.get k = specFind t.inorder k := by
  cases hr : t.root with
  | none => simp [Tree.get, Tree.inorder, hr, specFind]
  | some r =>
    obtain ⟨hd, hroot, hsr, _⟩ := ok_root t r hr h
    obtain ⟨_, hrk, _⟩ := (rootOk_iff _ _ _).1 hroot
    simp only [Tree.get, Tree.inorder, hr]
    exact getH_spec _ _ k _ r hrk hsr

theorem tree_min_max_spec (t : Tree) (h : t.ok = true) : t.min = t.inorder.head? ∧ t.max = t.inorder.getLast? := by
  cases hr : t.root with
  | none => simp [Tree.min, Tree.max, Tree.inorder, hr]
  | some r =>
    obtain ⟨hd, hroot, hsr, _⟩ := ok_root t r hr h
    obtain ⟨hmx, hmn, h1⟩ := tree_bounds t hd
    rw [hmn] at hroot
    obtain ⟨_, hrk, _⟩ := (rootOk_iff _ _ _).1 hroot
    simp only [Tree.min, Tree.max, Tree.inorder, hr]
    exact ⟨minH_spec _ _ h1 _ r hrk, maxH_spec _ _ h1 _ r hrk⟩

/-- the most recently stored item is the one found -/
theorem specFind_specInsert (x : Item) : ∀ (l : List Item), Sorted l → specFind (specInsert l x) x.key = some x
  | [], _ => by simp [specInsert, specFind]
  | a :: l, hs => by
    simp only [specInsert]
    split
    · simp [specFind]
    · split
      · simp [specFind]
      · rename_i h1 h2
        have hne : ¬ a.key = x.key := fun e => h2 e.symm
        have := specFind_specInsert x l hs.tail
        simp only [specFind] at this ⊢
        simp [List.find?_cons, hne, this]

theorem specFind_specInsert_ne (x : Item) (k : Int) (hk : k ≠ x.key) : ∀ (l : List Item),
    specFind (specInsert l x) k = specFind l k
  | [] => by
    have hx : ¬ x.key = k := fun e => hk e.symm
    simp [specInsert, specFind, List.find?_cons, hx]
  | a :: l => by
    have hx : ¬ x.key = k := fun e => hk e.symm
    simp only [specInsert]
    split
    · simp [specFind, List.find?_cons, hx]
    · split
      · rename_i h1 h2
        have : ¬ a.key = k := by omega
        simp [specFind, List.find?_cons, hx, this]
      · have := specFind_specInsert_ne x k hk l
        simp only [specFind] at this ⊢
        simp only [List.find?_cons]
        split
        · rfl
        · exact this

end Nv.C03
