import Nv.Proofs.C03Delete
/-!
C03 — the three rebalancing moves of `growChildAndRemove` act on an adjacent pair of children and the
separator between them; each keeps the pair's in-order list.
-/
namespace Nv.C03

theorem interleave_append : ∀ (ai : List Item) (ac : List Node) (sep : Item) (bi : List Item) (bc : List Node),
    ac.length = ai.length + 1 →
    interleave (ai ++ sep :: bi) (ac ++ bc) = interleave ai ac ++ sep :: interleave bi bc
  | _, [], _, _, _, h => by simp at h
  | [], [c], sep, bi, bc, _ => by simp
  | [], _ :: _ :: _, _, _, _, h => by simp at h
  | a :: ai, c :: ac, sep, bi, bc, h => by
    simp [interleave_append ai ac sep bi bc (by simpa using h)]

theorem mem_items_inorder : ∀ (is : List Item) (cs : List Node) (x : Item), cs = [] ∨ cs.length = is.length + 1 →
    x ∈ is → x ∈ interleave is cs
  | is, [], x, _, hx => by simpa using hx
  | [], _ :: _, x, _, hx => by simp at hx
  | i :: is, c :: cs, x, h, hx => by
    have h' : cs = [] ∨ cs.length = is.length + 1 := by
      rcases h with h | h
      · simp at h
      · right; simpa using h
    simp only [interleave_cons_cons, List.mem_append, List.mem_cons]
    rcases List.mem_cons.1 hx with rfl | hx
    · right; left; rfl
    · right; right
      rcases h' with rfl | h'
      · simpa using hx
      · exact mem_items_inorder is cs x (Or.inr h') hx

/-- in-order list around the adjacent children `j`, `j+1` -/
theorem interleave_pair (j : Nat) (is : List Item) (cs : List Node) (hl : cs.length = is.length + 1) (hj : j < is.length) :
    interleave is cs = flatL (is.take j) (cs.take j) ++
      ((cs.getD j default).inorder ++ is.getD j default :: (cs.getD (j + 1) default).inorder) ++
      rightPart (is.drop (j + 1)) (cs.drop (j + 1 + 1)) := by
  rw [interleave_at' j is cs hl (by omega)]
  have h1 : is.drop j = is.getD j default :: is.drop (j + 1) := by
    rw [getD_eq_getElem is j default hj]; exact List.drop_eq_getElem_cons hj
  have hj1 : j + 1 < cs.length := by omega
  have h2 : cs.drop (j + 1) = cs.getD (j + 1) default :: cs.drop (j + 1 + 1) := by
    rw [getD_eq_getElem cs (j + 1) default hj1]; exact List.drop_eq_getElem_cons hj1
  rw [h1, h2]
  simp [interleave_child_first]

/-- a node rebuilt with the pair replaced by a new pair -/
theorem interleave_pair_set (j : Nat) (is : List Item) (cs : List Node) (hl : cs.length = is.length + 1) (hj : j < is.length)
    (a b : Node) (sep : Item) :
    interleave (setAt is j sep) (cs.take j ++ a :: b :: cs.drop (j + 1 + 1)) = flatL (is.take j) (cs.take j) ++
      (a.inorder ++ sep :: b.inorder) ++ rightPart (is.drop (j + 1)) (cs.drop (j + 1 + 1)) := by
  simp only [setAt]
  rw [interleave_decomp _ _ _ _ _ (by simp; omega)]
  simp [interleave_child_first]

/-- a node rebuilt with the pair merged into one child -/
theorem interleave_pair_merge (j : Nat) (is : List Item) (cs : List Node) (hl : cs.length = is.length + 1) (hj : j < is.length)
    (m : Node) :
    interleave (removeAt is j) (cs.take j ++ m :: cs.drop (j + 1 + 1)) = flatL (is.take j) (cs.take j) ++
      m.inorder ++ rightPart (is.drop (j + 1)) (cs.drop (j + 1 + 1)) := by
  simp only [removeAt]
  rw [interleave_decomp _ _ _ _ _ (by simp; omega)]

/-! ### the local moves -/

theorem dropLast_getLast {α} [Inhabited α] (l : List α) (h : l ≠ []) : l.dropLast ++ [l.getLast?.getD default] = l := by
  rw [List.getLast?_eq_some_getLast h]; simp [List.dropLast_concat_getLast h]

/-- steal from the left sibling -/
theorem steal_left_spec (mn mx : Nat) (h : Nat) (a b : Node) (sep : Item) (ha : KidsOk mn mx h a) (hb : KidsOk mn mx h b)
    (hne : a.items ≠ []) :
    (Node.mk a.items.dropLast a.children.dropLast).inorder ++ (a.items.getLast?.getD default) ::
        (Node.mk (sep :: b.items) (a.children.getLast?.toList ++ b.children)).inorder =
      a.inorder ++ sep :: b.inorder ∧
    KidsOk mn mx h (.mk a.items.dropLast a.children.dropLast) ∧
    KidsOk mn mx h (.mk (sep :: b.items) (a.children.getLast?.toList ++ b.children)) := by
  cases a with
  | mk ai ac =>
    cases b with
    | mk bi bc =>
      simp only [Node.items, Node.children] at hne ⊢
      cases h with
      | zero =>
        simp only [KidsOk, Node.children] at ha hb; subst ha; subst hb
        simp only [inorder_mk, List.dropLast_nil, List.getLast?_nil, Option.toList_none, List.append_nil,
          interleave_nil_right, KidsOk, Node.children, and_true]
        conv => rhs; rw [← dropLast_getLast ai hne]
        simp
      | succ h =>
        simp only [KidsOk, Node.children, Node.items] at ha hb
        have hacne : ac ≠ [] := by intro e; rw [e] at ha; simp at ha
        have hai := dropLast_getLast ai hne
        have hac := dropLast_getLast ac hacne
        have hgl : ac.getLast?.toList = [ac.getLast?.getD default] := by
          rw [List.getLast?_eq_some_getLast hacne]; simp
        refine ⟨?_, ?_, ?_⟩
        · simp only [inorder_mk, hgl, List.singleton_append, interleave_cons_cons]
          conv => rhs; rw [← hai, ← hac]
          have hl : ac.dropLast.length = ai.dropLast.length + 1 := by
            have := ha.1; have := List.length_pos_iff.2 hne; simp; omega
          have := interleave_append ai.dropLast ac.dropLast (ai.getLast?.getD default) [] [ac.getLast?.getD default] hl
          simp only [interleave_nil_cons] at this
          rw [this]; simp
        · simp only [KidsOk, Node.children, Node.items, List.length_dropLast]
          exact ⟨by have := List.length_pos_iff.2 hne; omega, fun c hc => ha.2 c ((List.dropLast_sublist ac).subset hc)⟩
        · simp only [KidsOk, Node.children, Node.items, hgl, List.singleton_append, List.length_cons, List.mem_cons]
          refine ⟨by omega, ?_⟩
          rintro c (rfl | hc)
          · apply ha.2
            rw [List.getLast?_eq_some_getLast hacne]; simp
          · exact hb.2 c hc

/-- steal from the right sibling -/
theorem steal_right_spec (mn mx : Nat) (h : Nat) (a b : Node) (sep : Item) (ha : KidsOk mn mx h a) (hb : KidsOk mn mx h b)
    (hne : b.items ≠ []) :
    (Node.mk (a.items ++ [sep]) (a.children ++ b.children.take 1)).inorder ++ (b.items.head?.getD default) ::
        (Node.mk (b.items.drop 1) (b.children.drop 1)).inorder =
      a.inorder ++ sep :: b.inorder ∧
    KidsOk mn mx h (.mk (a.items ++ [sep]) (a.children ++ b.children.take 1)) ∧
    KidsOk mn mx h (.mk (b.items.drop 1) (b.children.drop 1)) := by
  cases a with
  | mk ai ac =>
    cases b with
    | mk bi bc =>
      simp only [Node.items, Node.children] at hne ⊢
      cases bi with
      | nil => exact absurd rfl hne
      | cons bh bt =>
        cases h with
        | zero =>
          simp only [KidsOk, Node.children] at ha hb; subst ha; subst hb
          simp [KidsOk, Node.children]
        | succ h =>
          simp only [KidsOk, Node.children, Node.items] at ha hb
          cases bc with
          | nil => simp at hb
          | cons g gc =>
            refine ⟨?_, ?_, ?_⟩
            · simp only [inorder_mk, List.take_succ_cons, List.take_zero, List.head?_cons, Option.getD_some,
                List.drop_succ_cons, List.drop_zero, interleave_cons_cons]
              have := interleave_append ai ac sep [] [g] ha.1
              simp only [interleave_nil_cons] at this
              rw [this]; simp
            · simp only [KidsOk, Node.children, Node.items, List.take_succ_cons, List.take_zero, List.length_append,
                List.length_cons, List.length_nil, List.mem_append, List.mem_cons, List.not_mem_nil, or_false]
              refine ⟨by omega, ?_⟩
              rintro c (hc | rfl)
              · exact ha.2 c hc
              · exact hb.2 c (by simp)
            · simp only [KidsOk, Node.children, Node.items, List.drop_succ_cons, List.drop_zero]
              refine ⟨by simpa using hb.1, fun c hc => hb.2 c (by simp [hc])⟩

/-- merge with the right sibling -/
theorem merge_spec (mn mx : Nat) (h : Nat) (a b : Node) (sep : Item) (ha : KidsOk mn mx h a) (hb : KidsOk mn mx h b) :
    (Node.mk (a.items ++ sep :: b.items) (a.children ++ b.children)).inorder = a.inorder ++ sep :: b.inorder ∧
    KidsOk mn mx h (.mk (a.items ++ sep :: b.items) (a.children ++ b.children)) := by
  cases a with
  | mk ai ac =>
    cases b with
    | mk bi bc =>
      simp only [Node.items, Node.children]
      cases h with
      | zero =>
        simp only [KidsOk, Node.children] at ha hb; subst ha; subst hb
        simp [KidsOk, Node.children]
      | succ h =>
        simp only [KidsOk, Node.children, Node.items] at ha hb
        refine ⟨by simp only [inorder_mk]; exact interleave_append ai ac sep bi bc ha.1, ?_⟩
        simp only [KidsOk, Node.children, Node.items, List.length_append, List.length_cons, List.mem_append]
        refine ⟨by omega, ?_⟩
        rintro c (hc | hc)
        · exact ha.2 c hc
        · exact hb.2 c hc

end Nv.C03
