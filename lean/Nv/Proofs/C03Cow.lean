import Nv.Model.C03Cow
/-!
C03, layer B — the frame discipline of copy-on-write. Fix the store `H0` at the start of an operation
of the tree tagged `cow`. A cell is *writable* if it lies beyond `H0`, is owned by `cow` in `H0`, or is
parked in `H0`'s free list. `Inv` says the current store still agrees with `H0` on every other cell, and
that every cell currently owned by `cow` or parked is writable. Every primitive preserves `Inv`
provided its write targets are writable, and `mutableFor`/`newNode` only ever return writable cells.
-/
namespace Nv.C03.Cow
open Nv.C03

def Writable (H0 : Heap) (cow : Nat) (id : Nat) : Prop :=
  H0.size ≤ id ∨ H0.tag id = some cow ∨ id ∈ H0.free

structure Inv (H0 : Heap) (cow : Nat) (H : Heap) : Prop where
  size : H0.size ≤ H.size
  agree : ∀ id, id < H0.size → ¬ Writable H0 cow id → H.get id = H0.get id
  tagW : ∀ id, H.tag id = some cow → Writable H0 cow id
  freeW : ∀ id ∈ H.free, Writable H0 cow id
  /-- owner tags only ever become `cow` (or disappear) -/
  tagF : ∀ id c, H.tag id = some c → H0.tag id = some c ∨ c = cow

theorem Inv.init (H0 : Heap) (cow : Nat) : Inv H0 cow H0 :=
  ⟨Nat.le_refl _, fun _ _ _ => rfl, fun _ h => Or.inr (Or.inl h), fun _ h => Or.inr (Or.inr h), fun _ _ h => Or.inl h⟩

/-- running `m` keeps the invariant and its result satisfies `Q` -/
def Pres {α : Type} (H0 : Heap) (cow : Nat) (m : M α) (Q : α → Prop) : Prop :=
  ∀ H, Inv H0 cow H → Inv H0 cow (m H).2 ∧ Q (m H).1

variable {H0 : Heap} {cow : Nat}

theorem Pres.pure {α : Type} {Q : α → Prop} (a : α) (h : Q a) : Pres H0 cow (pure a : M α) Q :=
  fun _ hi => ⟨hi, h⟩

theorem Pres.bind {α β : Type} {m : M α} {f : α → M β} {Q : α → Prop} {R : β → Prop}
    (hm : Pres H0 cow m Q) (hf : ∀ a, Q a → Pres H0 cow (f a) R) : Pres H0 cow (m >>= f) R :=
  fun H hi => hf _ (hm H hi).2 _ (hm H hi).1

theorem Pres.weaken {α : Type} {m : M α} {Q R : α → Prop} (hm : Pres H0 cow m Q) (h : ∀ a, Q a → R a) :
    Pres H0 cow m R := fun H hi => ⟨(hm H hi).1, h _ (hm H hi).2⟩

theorem Pres.ite {α : Type} {c : Prop} [Decidable c] {m1 m2 : M α} {Q : α → Prop}
    (h1 : c → Pres H0 cow m1 Q) (h2 : ¬ c → Pres H0 cow m2 Q) : Pres H0 cow (if c then m1 else m2) Q := by
  split
  · exact h1 ‹_›
  · exact h2 ‹_›

theorem Pres.rd (id : Nat) : Pres H0 cow (rd id) (fun _ => True) := fun _ hi => ⟨hi, trivial⟩

/-! ### store lemmas -/

theorem get_set_self (l : List HNode) (id : Nat) (n : HNode) (h : id < l.length) : (l.set id n).getD id HNode.empty = n := by
  simp [List.getD, h]

theorem get_set_ne (l : List HNode) (id j : Nat) (n : HNode) (h : j ≠ id) :
    (l.set id n).getD j HNode.empty = l.getD j HNode.empty := by
  simp [List.getD, List.getElem?_set_ne (Ne.symm h)]

theorem get_ge (l : List HNode) (j : Nat) (h : l.length ≤ j) : l.getD j HNode.empty = HNode.empty := by
  simp [List.getD, List.getElem?_eq_none h]

/-- the tag of a cell after one cell of the store was replaced -/
theorem tag_set (l : List HNode) (id j : Nat) (n : HNode) :
    ((l.set id n).getD j HNode.empty).cow = if j = id ∧ id < l.length then n.cow else (l.getD j HNode.empty).cow := by
  by_cases hji : j = id
  · subst hji
    by_cases hl : j < l.length
    · rw [get_set_self l j n hl]; simp [hl]
    · have h1 : (l.set j n).getD j HNode.empty = HNode.empty := get_ge _ _ (by simp; omega)
      have h2 : l.getD j HNode.empty = HNode.empty := get_ge _ _ (by omega)
      rw [h1, h2]; simp [hl]
  · rw [get_set_ne l id j n hji]; simp [hji]

theorem tag_some_lt (H : Heap) (id c : Nat) (h : H.tag id = some c) : id < H.size := by
  by_cases hl : id < H.size
  · exact hl
  · have : H.get id = HNode.empty := get_ge _ _ (by simpa [Heap.size] using hl)
    simp [Heap.tag, this, HNode.empty] at h

theorem not_writable_lt {id : Nat} (h : ¬ Writable H0 cow id) : id < H0.size := by
  by_cases hl : id < H0.size
  · exact hl
  · exact absurd (Or.inl (by omega)) h

/-- overwriting a writable cell -/
theorem Pres.wr (id : Nat) (is : List Item) (cs : List Nat) (hw : Writable H0 cow id) :
    Pres H0 cow (wr id is cs) (fun _ => True) := by
  intro H hi
  refine ⟨⟨?_, ?_, ?_, ?_, ?_⟩, trivial⟩
  · simpa [Cow.wr, Heap.size] using hi.size
  · intro j hj hnw
    have hne : j ≠ id := fun e => hnw (e ▸ hw)
    have : (Cow.wr id is cs H).2.get j = H.get j := get_set_ne _ _ _ _ hne
    rw [this]; exact hi.agree j hj hnw
  · intro j hj
    by_cases hji : j = id
    · exact hji ▸ hw
    · have : (Cow.wr id is cs H).2.tag j = H.tag j := congrArg HNode.cow (get_set_ne _ _ _ _ hji)
      exact hi.tagW j (this ▸ hj)
  · intro j hj; exact hi.freeW j (by simpa [Cow.wr] using hj)
  · intro j c hj
    have : (Cow.wr id is cs H).2.tag j = H.tag j := by
      show ((H.nodes.set id _).getD j HNode.empty).cow = _
      rw [tag_set]; split
      · rename_i h; rw [h.1]; rfl
      · rfl
    exact hi.tagF j c (this ▸ hj)

/-- `newNode` returns a writable cell -/
theorem Pres.newNode : Pres H0 cow (newNode cow) (Writable H0 cow) := by
  intro H hi
  unfold Cow.newNode
  cases hf : H.free with
  | nil =>
    simp only
    refine ⟨⟨?_, ?_, ?_, ?_, ?_⟩, Or.inl hi.size⟩
    · simp [Heap.size]; have := hi.size; simp [Heap.size] at this; omega
    · intro j hj hnw
      have hjl : j < H.nodes.length := by have := hi.size; simp only [Heap.size] at this hj; omega
      have : (Heap.get { H with nodes := H.nodes ++ [⟨[], [], some cow⟩], free := [] } j) = H.get j := by
        simp [Heap.get, List.getD, List.getElem?_append_left hjl]
      rw [this]; exact hi.agree j hj hnw
    · intro j hj
      by_cases hjl : j < H.nodes.length
      · have : (Heap.tag { H with nodes := H.nodes ++ [⟨[], [], some cow⟩], free := [] } j) = H.tag j := by
          simp [Heap.tag, Heap.get, List.getD, List.getElem?_append_left hjl]
        exact hi.tagW j (this ▸ hj)
      · exact Or.inl (by have := hi.size; simp only [Heap.size] at this ⊢; omega)
    · intro j hj; simp [hf] at hj
    · intro j c hj
      by_cases hjl : j < H.nodes.length
      · have : (Heap.tag { H with nodes := H.nodes ++ [⟨[], [], some cow⟩], free := [] } j) = H.tag j := by
          simp [Heap.tag, Heap.get, List.getD, List.getElem?_append_left hjl]
        exact hi.tagF j c (this ▸ hj)
      · by_cases hje : j = H.nodes.length
        · have : (Heap.tag { H with nodes := H.nodes ++ [⟨[], [], some cow⟩], free := [] } j) = some cow := by
            simp [Heap.tag, Heap.get, List.getD, hje]
          rw [this] at hj; right; exact (Option.some.inj hj).symm
        · have : (Heap.tag { H with nodes := H.nodes ++ [⟨[], [], some cow⟩], free := [] } j) = none := by
            have hl : (H.nodes ++ [(⟨[], [], some cow⟩ : HNode)]).length ≤ j := by simp; omega
            show ((H.nodes ++ [(⟨[], [], some cow⟩ : HNode)]).getD j HNode.empty).cow = none
            rw [get_ge _ _ hl]; rfl
          rw [this] at hj; cases hj
  | cons id rest =>
    simp only
    have hw : Writable H0 cow id := hi.freeW id (by simp [hf])
    refine ⟨⟨?_, ?_, ?_, ?_, ?_⟩, hw⟩
    · simpa [Heap.size] using hi.size
    · intro j hj hnw
      have hne : j ≠ id := fun e => hnw (e ▸ hw)
      have : (Heap.get { H with free := rest, nodes := H.nodes.set id ⟨[], [], some cow⟩ } j) = H.get j :=
        get_set_ne _ _ _ _ hne
      rw [this]; exact hi.agree j hj hnw
    · intro j hj
      by_cases hji : j = id
      · exact hji ▸ hw
      · have : (Heap.tag { H with free := rest, nodes := H.nodes.set id ⟨[], [], some cow⟩ } j) = H.tag j :=
          congrArg HNode.cow (get_set_ne _ _ _ _ hji)
        exact hi.tagW j (this ▸ hj)
    · intro j hj; exact hi.freeW j (by simp [hf, hj])
    · intro j c hj
      have : (Heap.tag { H with free := rest, nodes := H.nodes.set id ⟨[], [], some cow⟩ } j) =
          if j = id ∧ id < H.nodes.length then some cow else H.tag j := tag_set _ _ _ _
      rw [this] at hj
      split at hj
      · right; exact (Option.some.inj hj).symm
      · exact hi.tagF j c hj

/-- `freeNode` clears (and perhaps parks) only a cell owned by `cow` -/
theorem Pres.freeNode (id : Nat) : Pres H0 cow (freeNode cow id) (fun _ => True) := by
  intro H hi
  unfold Cow.freeNode
  by_cases ho : (H.get id).cow = some cow
  · have hw : Writable H0 cow id := hi.tagW id ho
    simp only [ho, if_true]
    have key : ∀ fr : List Nat, (∀ j ∈ fr, Writable H0 cow j) →
        Inv H0 cow { H with nodes := H.nodes.set id HNode.empty, free := fr } := by
      intro fr hfr
      refine ⟨?_, ?_, ?_, hfr, ?_⟩
      rotate_right
      · intro j c hj
        have : (Heap.tag { H with nodes := H.nodes.set id HNode.empty, free := fr } j) =
            if j = id ∧ id < H.nodes.length then HNode.empty.cow else H.tag j := tag_set _ _ _ _
        rw [this] at hj
        split at hj
        · simp [HNode.empty] at hj
        · exact hi.tagF j c hj
      · simpa [Heap.size] using hi.size
      · intro j hj hnw
        have hne : j ≠ id := fun e => hnw (e ▸ hw)
        have : (Heap.get { H with nodes := H.nodes.set id HNode.empty, free := fr } j) = H.get j :=
          get_set_ne _ _ _ _ hne
        rw [this]; exact hi.agree j hj hnw
      · intro j hj
        by_cases hji : j = id
        · exact hji ▸ hw
        · have : (Heap.tag { H with nodes := H.nodes.set id HNode.empty, free := fr } j) = H.tag j :=
            congrArg HNode.cow (get_set_ne _ _ _ _ hji)
          exact hi.tagW j (this ▸ hj)
    split
    · exact ⟨key _ (fun j hj => by
        rcases List.mem_cons.1 hj with rfl | hj
        · exact hw
        · exact hi.freeW j hj), trivial⟩
    · exact ⟨key _ hi.freeW, trivial⟩
  · simp only [ho, if_false]; exact ⟨hi, trivial⟩

/-- `freeNodeT` is `freeNode` plus a report -/
theorem Pres.freeNodeT (id : Nat) : Pres H0 cow (freeNodeT cow id) (fun _ => True) := by
  intro H hi
  have h := Pres.freeNode (H0 := H0) (cow := cow) id H hi
  unfold Cow.freeNode at h
  unfold Cow.freeNodeT
  by_cases ho : (H.get id).cow = some cow
  · simp only [ho, if_true] at h ⊢
    split
    · rename_i hl; simp only [hl, if_true] at h; exact ⟨h.1, trivial⟩
    · rename_i hl; simp only [hl, if_false] at h; exact ⟨h.1, trivial⟩
  · simp only [ho, if_false]; exact ⟨hi, trivial⟩

end Nv.C03.Cow
