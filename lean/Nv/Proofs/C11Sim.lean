import Nv.Proofs.C11Grow
/-! C11 — the simulation relation between the implementation model and the abstract buffer, operation by operation. -/
namespace Nv.C11
open Spec

/-- what `lastRead` must mean for `Unread*` to agree with the abstract buffer -/
def LastRel (i : St) : Last → Prop
  | .invalid => i.lastRead = 0
  | .read b => i.lastRead = -1 ∧ 1 ≤ i.off ∧ i.buf[i.off - 1]? = some b
  | .rune bs => i.lastRead = (bs.length : Int) ∧ 1 ≤ bs.length ∧ bs.length ≤ i.off ∧
      (i.buf.drop (i.off - bs.length)).take bs.length = bs

/-- simulation relation; `t` = a `Grow` happened and no operation since has (re)assigned `lastRead`
    (then `off` may have moved under a still-valid `lastRead`: nothing is claimed about it) -/
structure Rel (t : Bool) (i : St) (s : SSt) : Prop where
  inv : Inv i
  data : s.data = i.buf.drop i.off
  last : t = false → LastRel i s.last

theorem rel_zero : Rel false St.zero SSt.empty := ⟨inv_zero, rfl, fun _ => rfl⟩

theorem encodeRune_length_le (r : Int) : (encodeRune r).length ≤ 4 := by
  unfold encodeRune
  simp only
  split
  · simp
  · split
    · simp
    · split <;> split <;> simp

/-- storing `p` (at most the `n` bytes made room for) behind the unread bytes -/
theorem put_rel {t : Bool} {i s1 : St} {s : SSt} {n m : Nat} {p : Bytes} (R : Rel t i s)
    (g : Grown { i with lastRead := 0 } s1 n m) (hp : p.length ≤ n) :
    Rel false { s1 with buf := s1.buf.take m ++ p } ⟨s.data ++ p, .invalid⟩ := by
  have h1 := g.off_le; have h2 := g.len; have h3 := g.inv.len_le
  refine ⟨⟨?_, ?_, g.inv.cap_le, g.inv.nil_cap⟩, ?_, ?_⟩
  · simp; omega
  · simp; omega
  · simp only
    rw [List.drop_append_of_le_length (by simp; omega), g.data, R.data]
  · intro _
    rcases g.last with l | l <;> simpa [LastRel] using l

/-- conclusion of one simulated step: same output, related successor states -/
def StepOk (t' : Bool) (ri : St × Out) (rs : SSt × Out) : Prop := ri.2 = rs.2 ∧ Rel t' ri.1 rs.1

theorem inv_lastRead {i : St} (h : Inv i) (x : Int) : Inv { i with lastRead := x } :=
  ⟨h.off_le, h.len_le, h.cap_le, h.nil_cap⟩

theorem sim_write {c : Cfg} (hs : c.small ≤ allocLimit) {t : Bool} {i : St} {s : SSt} (R : Rel t i s) (p : Bytes)
    (hmem : (write c i p).2 ≠ .panic .tooLarge) :
    StepOk false (write c i p) (⟨s.data ++ p, .invalid⟩, .nErr p.length .nil) := by
  unfold write at hmem ⊢
  cases hg : growFor c { i with lastRead := 0 } p.length with
  | mk s1 r =>
    cases r with
    | none => simp [hg] at hmem
    | some m =>
      have g := growFor_some hs (inv_lastRead R.inv 0) hg
      exact ⟨rfl, put_rel R g (Nat.le_refl _)⟩

theorem sim_writeByte {c : Cfg} (hs : c.small ≤ allocLimit) {t : Bool} {i : St} {s : SSt} (R : Rel t i s) (b : UInt8)
    (hmem : (writeByte c i b).2 ≠ .panic .tooLarge) :
    StepOk false (writeByte c i b) (⟨s.data ++ [b], .invalid⟩, .err .nil) := by
  unfold writeByte at hmem ⊢
  cases hg : growFor c { i with lastRead := 0 } 1 with
  | mk s1 r =>
    cases r with
    | none => simp [hg] at hmem
    | some m =>
      have g := growFor_some hs (inv_lastRead R.inv 0) hg
      exact ⟨rfl, put_rel R g (by simp)⟩

theorem encodeRune_single {r : Int} (h0 : 0 ≤ r) (h1 : r < 128) : encodeRune r = [UInt8.ofNat (r % 256).toNat] := by
  unfold encodeRune
  simp only
  have e : (r % 4294967296).toNat = (r % 256).toNat := by omega
  have h2 : (r % 256).toNat ≤ 127 := by omega
  rw [e, if_pos h2]

theorem sim_writeRune {c : Cfg} (hc : Proved c) {t : Bool} {i : St} {s : SSt} (R : Rel t i s) (r : Int)
    (hmem : (writeRune c i r).2 ≠ .panic .tooLarge) :
    StepOk false (writeRune c i r) (⟨s.data ++ encodeRune r, .invalid⟩, .nErr (encodeRune r).length .nil) := by
  have hs := hc.2.2.2
  unfold writeRune at hmem ⊢
  by_cases hsing : isSingle c r = true
  · simp only [hsing, if_true] at hmem ⊢
    have hr : 0 ≤ r ∧ r < 128 := by
      unfold isSingle at hsing
      rw [hc.1] at hsing
      simpa using hsing
    have hmem' : (writeByte c i (UInt8.ofNat (r % 256).toNat)).2 ≠ .panic .tooLarge := by
      intro hp
      apply hmem
      cases hw : writeByte c i (UInt8.ofNat (r % 256).toNat) with
      | mk s1 o => rw [hw] at hp; simp only at hp; subst hp; rfl
    have k := sim_writeByte hs R (UInt8.ofNat (r % 256).toNat) hmem'
    rw [encodeRune_single hr.1 hr.2]
    cases hw : writeByte c i (UInt8.ofNat (r % 256).toNat) with
    | mk s1 o =>
      rw [hw] at k
      obtain ⟨k1, k2⟩ := k
      simp only at k1 k2
      subst k1
      exact ⟨rfl, k2⟩
  · simp only [hsing, Bool.false_eq_true, if_false] at hmem ⊢
    cases hg : growFor c { i with lastRead := 0 } 4 with
    | mk s1 rr =>
      cases rr with
      | none => simp [hg] at hmem
      | some m =>
        have g := growFor_some hs (inv_lastRead R.inv 0) hg
        exact ⟨rfl, put_rel R g (encodeRune_length_le r)⟩

end Nv.C11
