import Nv.Proofs.C02Inv3
/-!
C02 — key order of a call (`calculateSortedMultiKeys`), call/return steps, and the invariant for every reachable state.
-/
namespace Nv.C02

theorem flatten_filterMap_groups (g : Nat → List Key) (is : List Nat) :
    (is.filterMap (fun i => if g i = [] then none else some (g i))).flatten = is.flatMap g := by
  induction is with
  | nil => rfl
  | cons i is ih =>
    by_cases h : g i = []
    · simp [h, ih]
    · simp [h, ih]

theorem flatten_groupsAsc (n : Nat) (sh : Key → Nat) (keys : List Key) :
    (groupsAsc n sh keys).flatten = (List.range n).flatMap (fun i => keys.filter (fun k => sh k = i)) := by
  unfold groupsAsc
  exact flatten_filterMap_groups (fun i => keys.filter (fun k => sh k = i)) (List.range n)

theorem mem_flatMap_filter (sh : Key → Nat) (keys : List Key) (is : List Nat) (k : Key) :
    k ∈ is.flatMap (fun i => keys.filter (fun k => sh k = i)) ↔ k ∈ keys ∧ sh k ∈ is := by
  simp only [List.mem_flatMap, List.mem_filter, decide_eq_true_eq]
  constructor
  · rintro ⟨i, hi, hk, rfl⟩; exact ⟨hk, hi⟩
  · rintro ⟨hk, hi⟩; exact ⟨sh k, hi, hk, rfl⟩

theorem nodup_flatMap_filter (sh : Key → Nat) (keys : List Key) (hk : keys.Nodup) :
    ∀ (is : List Nat), is.Nodup → (is.flatMap (fun i => keys.filter (fun k => sh k = i))).Nodup
  | [], _ => by simp
  | i :: is, h => by
    rw [List.nodup_cons] at h
    simp only [List.flatMap_cons]
    rw [List.nodup_append]
    refine ⟨List.Nodup.sublist List.filter_sublist hk, nodup_flatMap_filter sh keys hk is h.2, ?_⟩
    intro a ha b hb e
    subst e
    simp only [List.mem_filter, decide_eq_true_eq] at ha
    rw [mem_flatMap_filter] at hb
    rw [ha.2] at hb
    exact h.1 hb.2

theorem flatten_groups (c : Cfg) (n : Nat) (sh : Key → Nat) (keys : List Key) :
    (groups c n sh keys).flatten = (shardOrder c n).flatMap (fun i => keys.filter (fun k => sh k = i)) := by
  unfold groups shardOrder
  cases c.grpSort
  · exact flatten_groupsAsc n sh keys
  · simp only [groupsAsc]
    rw [← List.filterMap_reverse]
    exact flatten_filterMap_groups (fun i => keys.filter (fun k => sh k = i)) (List.range n).reverse
  · exact flatten_groupsAsc n sh keys

theorem mem_shardOrder (c : Cfg) (n i : Nat) : i ∈ shardOrder c n ↔ i < n := by
  unfold shardOrder; cases c.grpSort <;> simp

theorem nodup_shardOrder (c : Cfg) (n : Nat) : (shardOrder c n).Nodup := by
  unfold shardOrder
  cases c.grpSort
  · exact List.nodup_range
  · exact List.pairwise_reverse.2 (List.nodup_range.imp (fun h => Ne.symm h))
  · exact List.nodup_range

/-- whatever the comparator, a call touches exactly its keys (routing returns a shard index `< n`) … -/
theorem mem_groups_flatten (c : Cfg) (n : Nat) (sh : Key → Nat) (keys : List Key) (k : Key) :
    k ∈ (groups c n sh keys).flatten ↔ k ∈ keys ∧ sh k < n := by
  rw [flatten_groups, mem_flatMap_filter, mem_shardOrder]

/-- … each once -/
theorem nodup_groups_flatten (c : Cfg) (n : Nat) (sh : Key → Nat) (keys : List Key) (h : keys.Nodup) :
    (groups c n sh keys).flatten.Nodup := by
  rw [flatten_groups]; exact nodup_flatMap_filter sh keys h _ (nodup_shardOrder c n)

/-- every step of the transition system preserves the invariant (`sh k < n`: the routing function returns a shard index) -/
theorem inv_step {c : Cfg} (hc : Proved c) (n : Nat) (sh : Key → Nat) (hsh : ∀ k, sh k < n) {s s' : State} (hI : Inv s)
    (a : Act) (h : step c n sh s a = some s') : Inv s' := by
  unfold step at h
  split at h
  · cases h
  · cases a with
    | call t m keys =>
      simp only at h
      split at h
      · next hok =>
        cases h
        obtain ⟨hidle, hnd, hnh⟩ := hok
        apply inv_setTh hI t
        · rfl
        · intro e; simp [refs, pend, hidle]
        · have := hI.keysNd t
          simp only [allKeys, refs, pend, future, hidle, List.append_nil, List.map_nil] at this ⊢
          rw [List.nodup_append]
          refine ⟨this, nodup_groups_flatten c n sh keys hnd, ?_⟩
          intro a ha b hb e
          subst e
          exact hnh a ((mem_groups_flatten c n sh keys a).1 hb).1 (by simpa [heldKeys] using ha)
        · intro m gs h; cases h
        · intro m all todo h; cases h
        · intro m' all gs acc h k hk
          cases h
          exact .inl ((mem_groups_flatten c n sh keys k).2 ⟨hk, hsh k⟩)
      · cases h
    | reg t => exact inv_stepReg hc hI t h
    | lock t => exact inv_stepLock hc hI t h
    | uncall t m keys =>
      simp only at h
      split at h
      · next hok =>
        cases h
        obtain ⟨hidle, hnd, hh⟩ := hok
        apply inv_setTh hI t
        · rfl
        · intro e; simp [refs, pend, hidle]
        · have := hI.keysNd t
          simpa [allKeys, refs, pend, future, hidle] using this
        · intro m' gs h
          cases h
          refine ⟨nodup_groups_flatten c n sh keys hnd, ?_⟩
          intro k hk
          exact hh k ((mem_groups_flatten c n sh keys k).1 hk).1
        · intro m all todo h; cases h
        · intro m all gs acc h; cases h
      · cases h
    | rel t => exact inv_stepRel hc hI t h

/-- the invariant holds in every reachable state of every keylock transition system -/
theorem inv_reach {c : Cfg} (hc : Proved c) (n : Nat) (sh : Key → Nat) (hsh : ∀ k, sh k < n) :
    ∀ s, (lts c n sh).Reach s → Inv s :=
  LTS.inv_of_step (lts c n sh) Inv inv_init (fun _ a _ hI h => inv_step hc n sh hsh hI a h)

end Nv.C02
