import Nv.Proofs.C05Hist
import Nv.Proofs.C05Agree
/-! C05 — expiry stated on histories: the deadline of a key is (clock reading at its latest Set) + ttl. -/
namespace Nv.C05

/-- if `k` is indexed at all, its node carries value `v` and deadline `dl` -/
def Tracks (m : Mem) (k : Key) (v : Val) (dl : Deadline) : Prop := ∀ n, m.lookup k = some n → n.val = v ∧ n.dl = dl

/-- a call that does not address `k` can only leave its index entry as it is, or drop it -/
theorem lookup_step_other {c : Cfg} {m : Mem} (hwf : WF m) {now : Int} {op : Op} {k : Key} {n : Node}
    (hop : opKey op ≠ some k) (h : (m.step c now op).1.lookup k = some n) : m.lookup k = some n := by
  cases op with
  | set k' v o =>
    have hne : k ≠ k' := fun e => hop (by simp [opKey, e])
    simp only [Mem.step, Mem.set] at h
    have hp : ∀ x, (m.preSet c now k').lookup k = some x → m.lookup k = some x := by
      intro x hx
      unfold Mem.preSet at hx; split at hx
      · unfold Mem.purgeIfExpired at hx
        split at hx
        · split at hx
          · rwa [lookup_removeKey_ne m hne] at hx
          · exact hx
        · exact hx
      · exact hx
    have hwf' : WF (m.preSet c now k') := wf_preSet hwf now k'
    generalize m.preSet c now k' = m' at hp hwf' h
    apply hp
    unfold Mem.setCore at h
    split at h
    · rename_i x hx
      split at h
      · exact h
      · have hk := lookup_key hx
        rwa [lookup_touch_ne] at h
        simpa [hk] using hne
    · rename_i hn
      rcases lookup_insertNew hwf' hn h with ⟨e, _⟩ | ⟨_, e⟩
      · exact absurd e hne
      · exact e
  | get k' o =>
    have hne : k ≠ k' := fun e => hop (by simp [opKey, e])
    simp only [Mem.step] at h
    unfold Mem.get at h
    split at h
    · exact h
    · rename_i x hx
      have hkx := lookup_key hx
      split at h
      · rwa [lookup_removeKey_ne m hne] at h
      · split at h
        · rwa [lookup_removeKey_ne m hne] at h
        · rwa [lookup_touch_ne] at h
          split <;> simpa [hkx] using hne
  | remove k' =>
    have hne : k ≠ k' := fun e => hop (by simp [opKey, e])
    simp only [Mem.step] at h
    rwa [lookup_removeKey_ne m hne] at h
  | clear => simp [Mem.step, Mem.clear, Mem.lookup, findKey] at h
  | tick _ => exact h

theorem tracks_step {c : Cfg} {m : Mem} (hwf : WF m) {k : Key} {v : Val} {dl : Deadline} (h : Tracks m k v dl)
    (now : Int) {op : Op} (hop : writesTtl k op = false) : Tracks (m.step c now op).1 k v dl := by
  by_cases hk : opKey op = some k
  · cases op with
    | set k' v' o => simp [opKey] at hk; simp [writesTtl, hk] at hop
    | get k' o =>
      simp [opKey] at hk; subst hk
      have hu : o.update = none := by
        cases hu : o.update with
        | none => rfl
        | some t => simp [writesTtl, hu] at hop
      intro n hn
      simp only [Mem.step] at hn
      cases hl : m.lookup k' with
      | none => simp only [Mem.get, hl] at hn; cases hn
      | some x =>
        have hkx := lookup_key hl
        cases he : expired now x.dl
        · by_cases hr : o.remove = true
          · simp only [Mem.get, hl, he, hr, if_true, Bool.false_eq_true, if_false, lookup_removeKey_self] at hn
            cases hn
          · simp only [Mem.get, hl, he, hr, hu, Bool.false_eq_true, if_false] at hn
            rw [← hkx, lookup_touch_self] at hn
            cases hn; exact h _ hl
        · simp only [Mem.get, hl, he, if_true, lookup_removeKey_self] at hn
          cases hn
    | remove k' =>
      simp [opKey] at hk; subst hk
      intro n hn; simp [Mem.step, lookup_removeKey_self] at hn
    | clear => simp [opKey] at hk
    | tick _ => simp [opKey] at hk
  · intro n hn
    exact h n (lookup_step_other hwf hk hn)

theorem tracks_run {c : Cfg} {k : Key} {v : Val} {dl : Deadline} : ∀ (ops : List Op) (s : MSys), WF s.mem →
    Tracks s.mem k v dl → (∀ op ∈ ops, writesTtl k op = false) → Tracks (final (MSys.step c) s ops).mem k v dl := by
  intro ops
  induction ops with
  | nil => intro s _ h _; exact h
  | cons op ops ih =>
    intro s hwf h hops
    rw [final_cons]
    obtain ⟨hm, _⟩ := msys_step_mem c s op
    apply ih
    · rw [hm]; exact wf_step hwf _ _
    · rw [hm]; exact tracks_step hwf h _ (hops op (by simp))
    · intro o ho; exact hops o (by simp [ho])

/-- a successful Set without keep-ttl leaves `k` (if indexed at all) with exactly the new value and `now + ttl` -/
theorem tracks_after_set {c : Cfg} {m : Mem} (hwf : WF m) {now : Int} {k : Key} {v : Val} {o : SetOpt}
    (hk : o.keepTTL = false) (hok : (m.set c now k v o).2 = .ok) :
    Tracks (m.set c now k v o).1 k v (deadline now (o.ttl.getD m.dttl)) := by
  have hd := dttl_preSet c m now k
  have hwf' : WF (m.preSet c now k) := wf_preSet hwf now k
  simp only [Mem.set] at hok ⊢
  generalize m.preSet c now k = m' at hd hwf' hok ⊢
  intro n hn
  unfold Mem.setCore at hok hn
  split at hn
  · rename_i x hx
    have hkx := lookup_key hx
    split at hn
    · rename_i hm; simp [hx, hm] at hok
    · rw [← hkx] at hn
      have := lookup_touch_self m' { x with val := v, dl := if o.keepTTL = true then x.dl else deadline now (setTtl m' o) }
      simp only at this
      rw [this] at hn
      cases hn
      simp [hk, setTtl, hd]
  · rename_i hnew
    rcases lookup_insertNew hwf' hnew hn with ⟨_, e⟩ | ⟨e, _⟩
    · subst e; simp [setTtl, hd]
    · exact absurd rfl e

theorem msys_dttl (c : Cfg) : ∀ (ops : List Op) (s : MSys), (final (MSys.step c) s ops).mem.dttl = s.mem.dttl := by
  intro ops
  induction ops with
  | nil => intro s; rfl
  | cons op ops ih =>
    intro s
    rw [final_cons, ih]
    cases op <;> simp only [MSys.step] <;> first | rfl | exact step_dttl _ _ _ _

end Nv.C05
