import Nv.Proofs.C01Lists
/-!
C01 — arrival order, stated with ghost arrival stamps.

`MG` is the map's transition system `M` with two ghost fields per key that the code does not have: a counter
`next` and the stamp given to each caller when its acquire section ran (`stamp`). The ghost never influences
a step (`ghost_faithful`: every run of `M` is the projection of a run of `MG`, and vice versa).
Invariant proved for every reachable state: the queue is sorted by arrival, and nobody inside the critical
section arrived later than somebody who is still waiting — i.e. nobody is ever admitted past an earlier arrival
that is still blocked.
-/
namespace Nv.C01

structure GState where
  st : State
  next : Key → Nat
  stamp : Key → Tid → Nat

def ginit : GState := ⟨init, fun _ => 0, fun _ _ => 0⟩

/-- ghost update: an acquire stamps its caller with the key's counter and advances it -/
def ghostNext (g : GState) : Act → Key → Nat
  | .acquire _ k _, k' => if k' = k then g.next k + 1 else g.next k'
  | _, k' => g.next k'

def restamp (stamp : Tid → Nat) (t : Tid) (v : Nat) : Tid → Nat := fun t' => if t' = t then v else stamp t'

theorem restamp_same (stamp : Tid → Nat) (t : Tid) (v : Nat) : restamp stamp t v t = v := by simp [restamp]
theorem restamp_other (stamp : Tid → Nat) (t : Tid) (v : Nat) (x : Tid) (h : x ≠ t) :
    restamp stamp t v x = stamp x := by simp [restamp, h]

def ghostStamp (g : GState) : Act → Key → Tid → Nat
  | .acquire t k _, k' => if k' = k then restamp (g.stamp k) t (g.next k) else g.stamp k'
  | _, k' => g.stamp k'

def gstep (c : Cfg) (rw : Nat) (g : GState) (a : Act) : Option GState :=
  match step c rw g.st a with
  | none => none
  | some s' => some ⟨s', ghostNext g a, ghostStamp g a⟩

def MG (c : Cfg) (rw : Nat) : LTS GState Act := ⟨ginit, gstep c rw⟩

theorem gstep_some (c : Cfg) (rw : Nat) (g g' : GState) (a : Act) (h : gstep c rw g a = some g') :
    step c rw g.st a = some g'.st ∧ g'.next = ghostNext g a ∧ g'.stamp = ghostStamp g a := by
  unfold gstep at h
  split at h
  · cases h
  · rename_i s' hs; cases h; exact ⟨hs, rfl, rfl⟩

/-- the ghost is faithful: projecting a ghost run gives a run of the map … -/
theorem ghost_proj_reach (c : Cfg) (rw : Nat) : ∀ g, (MG c rw).Reach g → (M c rw).Reach g.st := by
  apply LTS.inv_of_step (MG c rw) (fun g => (M c rw).Reach g.st)
  · exact LTS.Reach.init
  · intro g a g' hinv hstep
    exact LTS.Reach.step hinv (gstep_some c rw g g' a hstep).1

/-- … and every run of the map is the projection of a ghost run -/
theorem ghost_faithful (c : Cfg) (rw : Nat) : ∀ (as : List Act) (g : GState) (s' : State),
    (M c rw).run g.st as = some s' → ∃ g', (MG c rw).run g as = some g' ∧ g'.st = s'
  | [], g, s', h => by
    simp only [LTS.run, Option.some.injEq] at h
    exact ⟨g, rfl, h⟩
  | a :: as, g, s', h => by
    simp only [LTS.run] at h
    split at h
    · cases h
    · rename_i s1 hs1
      have hs1' : step c rw g.st a = some s1 := hs1
      have hg : (MG c rw).step g a = some ⟨s1, ghostNext g a, ghostStamp g a⟩ := by
        show gstep c rw g a = _
        simp [gstep, hs1']
      obtain ⟨g', hrun, hst⟩ := ghost_faithful c rw as ⟨s1, ghostNext g a, ghostStamp g a⟩ s' h
      exact ⟨g', by simp only [LTS.run, hg]; exact hrun, hst⟩

/-- arrival-order invariant of one key -/
def FifoInv (s : KS) (next : Nat) (stamp : Tid → Nat) : Prop :=
  (∀ x ∈ s.all, stamp x.1 < next) ∧
  s.waiters.Pairwise (fun a b => stamp a.1 < stamp b.1) ∧
  (∀ h ∈ s.holders, ∀ w ∈ s.waiters, stamp h.1 < stamp w.1)

theorem pairwise_take_drop {α} (R : α → α → Prop) (l : List α) (m : Nat) (h : l.Pairwise R) :
    ∀ a ∈ l.take m, ∀ b ∈ l.drop m, R a b := by
  rw [← List.take_append_drop m l, List.pairwise_append] at h
  exact h.2.2

theorem fifo_release (size : Nat) (s : KS) (t : Tid) (next : Nat) (stamp : Tid → Nat)
    (h : KInv size s) (hen : s.holds t = true) (hf : FifoInv s next stamp) :
    FifoInv (s.release size .emptyAndIdle t) next stamp := by
  obtain ⟨hlt, hpw, hhw⟩ := hf
  obtain ⟨m, h1, h2⟩ := release_step_lists size s t h hen
  have hsub := release_all_sublist size s t h hen
  refine ⟨fun x hx => hlt x (hsub.subset hx), ?_, ?_⟩
  · rw [h2]; exact hpw.sublist (List.drop_sublist _ _)
  · intro a ha b hb
    rw [h1] at ha; rw [h2] at hb
    rcases List.mem_append.1 ha with ha | ha
    · exact hhw a (List.mem_filter.1 ha).1 b (List.mem_of_mem_drop hb)
    · exact pairwise_take_drop _ _ m hpw a ha b hb

theorem fifo_cancel (size : Nat) (s : KS) (t : Tid) (next : Nat) (stamp : Tid → Nat)
    (h : KInv size s) (hf : FifoInv s next stamp) : FifoInv (s.cancel size t) next stamp := by
  cases hw : s.waits t with
  | false => rw [cancel_noop size s t h hw]; exact hf
  | true =>
    obtain ⟨hlt, hpw, hhw⟩ := hf
    obtain ⟨m, h1, h2⟩ := cancel_step_lists size s t h hw
    have hsub := cancel_all_sublist size s t h
    have hpw' : (s.waiters.filter (·.1 ≠ t)).Pairwise (fun a b => stamp a.1 < stamp b.1) :=
      hpw.sublist List.filter_sublist
    refine ⟨fun x hx => hlt x (hsub.subset hx), ?_, ?_⟩
    · rw [h2]; exact hpw'.sublist (List.drop_sublist _ _)
    · intro a ha b hb
      rw [h1] at ha; rw [h2] at hb
      rcases List.mem_append.1 ha with ha | ha
      · exact hhw a ha b (List.mem_filter.1 (List.mem_of_mem_drop hb)).1
      · exact pairwise_take_drop _ _ m hpw' a ha b hb

theorem fifo_acquire (size : Nat) (s : KS) (t : Tid) (n : Nat) (hn1 : 1 ≤ n) (hn2 : n ≤ size) (next : Nat)
    (stamp : Tid → Nat) (h : KInv size s) (hfresh : s.listed t = false) (hf : FifoInv s next stamp) :
    FifoInv (s.acquire size t n) (next + 1) (restamp stamp t next) := by
  obtain ⟨hlt, hpw, hhw⟩ := hf
  have hnot := not_listed_not_mem s t hfresh
  have hold : ∀ x ∈ s.all, restamp stamp t next x.1 = stamp x.1 := by
    intro x hx
    have : x.1 ≠ t := fun heq => hnot (by rw [← heq]; exact List.mem_map_of_mem hx)
    exact restamp_other _ _ _ _ this
  have hall := acquire_all size s t n hn1 hn2 h
  have hch := (acquire_char size s t n hn1 hn2 h).2.2
  refine ⟨?_, ?_, ?_⟩
  · intro x hx
    rcases (hall x).1 hx with hx | rfl
    · rw [hold x hx]; exact Nat.lt_succ_of_lt (hlt x hx)
    · simp [restamp_same]
  · split at hch
    · rw [hch.2]; exact List.Pairwise.nil
    · rw [hch.2, List.pairwise_append]
      refine ⟨?_, by simp, ?_⟩
      · exact hpw.imp_of_mem (fun {a b} ha hb hab => by
          rw [hold a (by simp [KS.all, ha]), hold b (by simp [KS.all, hb])]; exact hab)
      · intro a ha b hb
        simp at hb; subst hb
        rw [hold a (by simp [KS.all, ha]), restamp_same]
        exact hlt a (by simp [KS.all, ha])
  · split at hch
    · rw [hch.2]; intro _ _ b hb; cases hb
    · rw [hch.1, hch.2]
      intro a ha b hb
      rw [hold a (by simp [KS.all, ha])]
      rcases List.mem_append.1 hb with hb | hb
      · rw [hold b (by simp [KS.all, hb])]; exact hhw a ha b hb
      · simp at hb; subst hb
        rw [restamp_same]; exact hlt a (by simp [KS.all, ha])

theorem fifo_init (stamp : Tid → Nat) : FifoInv KS.init 0 stamp := by
  simp [FifoInv, KS.all, KS.init, KS.holders, KS.waiters, KS.objs]

/-- the arrival-order invariant holds for every key in every reachable ghost state -/
theorem reach_fifo (c : Cfg) (hc : Proved c) (rw : Nat) (hrw : 1 ≤ rw) :
    ∀ g, (MG c rw).Reach g → ∀ k, FifoInv (g.st k) (g.next k) (g.stamp k) := by
  have key : ∀ g, (MG c rw).Reach g → (M c rw).Reach g.st ∧ ∀ k, FifoInv (g.st k) (g.next k) (g.stamp k) := by
    apply LTS.inv_of_step (MG c rw)
      (fun g => (M c rw).Reach g.st ∧ ∀ k, FifoInv (g.st k) (g.next k) (g.stamp k))
    · exact ⟨LTS.Reach.init, fun k => fifo_init _⟩
    · intro g a g' ⟨hreach, hinv⟩ hstep
      obtain ⟨hs, hn, hst⟩ := gstep_some c rw g g' a hstep
      refine ⟨LTS.Reach.step hreach hs, fun k => ?_⟩
      have hkinv := reach_inv c hc rw hrw g.st hreach
      have hg : c.guard = .emptyAndIdle := hc
      rw [hn, hst]
      by_cases hk : k = a.key
      · subst hk
        rw [step_this_key c rw g.st g'.st a hs]
        have hen := (step_some c rw g.st g'.st a hs).1
        cases a with
        | acquire t k wr =>
          have hb := weight_bounds rw hrw wr
          simp only [Act.key, KS.step, ghostNext, ghostStamp, if_true]
          exact fifo_acquire rw _ t _ hb.1 hb.2 _ _ (hkinv k) (by simpa [KS.enabled, Act.key] using hen) (hinv k)
        | release t k =>
          simp only [Act.key, KS.step, ghostNext, ghostStamp, hg]
          exact fifo_release rw _ t _ _ (hkinv k) (by simpa [KS.enabled, Act.key] using hen) (hinv k)
        | cancel t k =>
          simp only [Act.key, KS.step, ghostNext, ghostStamp]
          exact fifo_cancel rw _ t _ _ (hkinv k) (hinv k)
      · rw [step_other_key c rw g.st g'.st a hs k hk]
        have := hinv k
        cases a with
        | acquire t k' wr =>
          simp only [Act.key] at hk
          simpa only [ghostNext, ghostStamp, hk, if_false] using this
        | release t k' => simpa only [ghostNext, ghostStamp] using this
        | cancel t k' => simpa only [ghostNext, ghostStamp] using this
  intro g hr
  exact (key g hr).2

end Nv.C01
