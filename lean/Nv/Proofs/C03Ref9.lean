import Nv.Proofs.C03Ref8

/-! C03 refinement, part 9: the leftmost path of a well-formed subtree has pairwise different, allocated cells, so the
store is at least as large as the height and `heightB H H.size` is the height. -/

namespace Nv.C03.Cow
open Nv.C03

theorem nodup_bound : ∀ (N : Nat) (l : List Nat), l.Nodup → (∀ a ∈ l, a < N) → l.length ≤ N := by
  intro N
  induction N with
  | zero =>
    intro l _ h
    cases l with
    | nil => simp
    | cons a _ => exact absurd (h a (by simp)) (Nat.not_lt_zero _)
  | succ N ih =>
    intro l hn h
    by_cases hm : N ∈ l
    · have h1 := ih (l.erase N) (hn.erase N) (by
        intro a ha
        have hne : a ≠ N := fun e => by rw [e] at ha; exact (hn.mem_erase_iff.1 ha).1 rfl
        have := h a (List.mem_of_mem_erase ha); omega)
      rw [List.length_erase_of_mem hm] at h1
      omega
    · have := ih l hn (by
        intro a ha
        have hne : a ≠ N := fun e => hm (e ▸ ha)
        have := h a ha; omega)
      omega

/-- the cells on the leftmost path -/
def spine (H : Heap) : Nat → Nat → List Nat
  | 0, n => [n]
  | f + 1, n => n :: spine H f ((H.get n).children.headD n)

theorem spine_length (H : Heap) : ∀ (f n : Nat), (spine H f n).length = f + 1 := by
  intro f
  induction f with
  | zero => intro n; rfl
  | succ f ih => intro n; simp [spine, ih]

theorem spine_facts (mn mx : Nat) (hmn : 1 ≤ mn) (H : Heap) : ∀ (f n : Nat), KidsOk mn mx f (absNode H f n) →
    Sorted (absNode H f n).inorder → ((H.get n).items ≠ [] ∨ f = 0) →
    (∀ F, f ≤ F → heightB H F n = f) ∧ (spine H f n).Nodup ∧ (∀ y ∈ spine H f n, InSub H f n y) := by
  intro f
  induction f with
  | zero =>
    intro n hk _ _
    refine ⟨?_, by simp [spine], by intro y hy; simpa [spine, InSub] using hy⟩
    intro F _
    have hleaf : (H.get n).children = [] := by simpa [KidsOk, absNode] using hk
    cases F with
    | zero => rfl
    | succ F => simp [heightB, hleaf]
  | succ f ih =>
    intro n hk hs hne
    have hne : (H.get n).items ≠ [] := by rcases hne with e | e; exact e; omega
    have hk' := hk
    rw [abs_succ] at hk'
    simp only [KidsOk, children_mk, items_mk, List.length_map] at hk'
    cases hcs : (H.get n).children with
    | nil => rw [hcs] at hk'; simp at hk'
    | cons c rest =>
      have hcm : c ∈ (H.get n).children := by rw [hcs]; simp
      have hcok := (nodeOk_iff _ _ _ _).1 (hk'.2 _ (List.mem_map.2 ⟨c, hcm, rfl⟩))
      have hsc : Sorted (absNode H f c).inorder := by
        have hs' := hs; rw [abs_succ, inorder_mk] at hs'
        exact sorted_child _ _ hs' _ (List.mem_map.2 ⟨c, hcm, rfl⟩) (by simpa using hk'.1)
      have hcne : (H.get c).items ≠ [] := by
        intro e; have := hcok.1; rw [abs_items, e] at this; simp at this; omega
      obtain ⟨i1, i2, i3⟩ := ih c hcok.2.2 hsc (Or.inl hcne)
      refine ⟨?_, ?_, ?_⟩
      · intro F hF
        cases F with
        | zero => omega
        | succ F => simp only [heightB, hcs]; rw [i1 F (by omega)]
      · simp only [spine, hcs, List.headD_cons]
        refine List.nodup_cons.2 ⟨?_, i2⟩
        intro hm
        exact no_cycle mn mx H f n c hk hs hne hcm (i3 n hm)
      · intro y hy
        simp only [spine, hcs, List.headD_cons, List.mem_cons] at hy
        rcases hy with e | hy
        · exact e ▸ InSub.self H (f + 1) n
        · exact Or.inr ⟨c, hcm, i3 y hy⟩

/-- the store holds at least `height + 1` cells, so `heightB` with the store size as fuel is the height -/
theorem heightB_ge (mn mx : Nat) (hmn : 1 ≤ mn) (H : Heap) (f n : Nat) (hk : KidsOk mn mx f (absNode H f n))
    (hs : Sorted (absNode H f n).inorder) (hne : (H.get n).items ≠ [] ∨ f = 0) (hlt : n < H.size)
    (F : Nat) (hF : H.size ≤ F) : heightB H F n = f := by
  obtain ⟨i1, i2, i3⟩ := spine_facts mn mx hmn H f n hk hs hne
  apply i1
  have := nodup_bound H.size (spine H f n) i2 (by
    intro y hy
    by_cases e : y = n
    · exact e ▸ hlt
    · have := (sub_items mn mx H f n y hk (i3 y hy) e).1
      by_cases hl : y < H.size
      · exact hl
      · have hg : H.get y = HNode.empty := get_ge _ _ (by simpa [Heap.size] using hl)
        rw [hg] at this; simp [HNode.empty] at this; omega)
  rw [spine_length] at this
  omega

theorem heightB_eq (mn mx : Nat) (hmn : 1 ≤ mn) (H : Heap) (f n : Nat) (hk : KidsOk mn mx f (absNode H f n))
    (hs : Sorted (absNode H f n).inorder) (hne : (H.get n).items ≠ [] ∨ f = 0) (hlt : n < H.size) :
    heightB H H.size n = f := heightB_ge mn mx hmn H f n hk hs hne hlt H.size (Nat.le_refl _)

end Nv.C03.Cow
