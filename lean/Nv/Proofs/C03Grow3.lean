import Nv.Proofs.C03Grow2
/-! C03 — `grow_spec`: the rebalancing step keeps the node's in-order list and invariant and leaves the
child that `remove` selects next with more than `minItems` items. -/
namespace Nv.C03

@[simp] theorem items_mk (is : List Item) (cs : List Node) : (Node.mk is cs).items = is := rfl
@[simp] theorem children_mk (is : List Item) (cs : List Node) : (Node.mk is cs).children = cs := rfl

theorem mem_take_mono {α} {l : List α} {a : α} {j k : Nat} (h : a ∈ l.take j) (hjk : j ≤ k) : a ∈ l.take k := by
  have : l.take j = (l.take k).take j := by rw [List.take_take, Nat.min_eq_left hjk]
  rw [this] at h; exact List.mem_of_mem_take h

theorem mem_drop_mono {α} {l : List α} {a : α} {j k : Nat} (h : a ∈ l.drop k) (hjk : j ≤ k) : a ∈ l.drop j := by
  have : l.drop k = (l.drop j).drop (k - j) := by rw [List.drop_drop]; congr 1; omega
  rw [this] at h; exact List.mem_of_mem_drop h

theorem mem_items_inorder' (n : Node) (x : Item) (hsh : n.children = [] ∨ n.children.length = n.items.length + 1)
    (hx : x ∈ n.items) : x ∈ n.inorder := by
  cases n with
  | mk is cs => simpa using mem_items_inorder is cs x hsh hx

theorem pair_order (P A B S : List Item) (sep : Item) (hs : Sorted (P ++ (A ++ sep :: B) ++ S)) :
    (∀ x ∈ A, x.key < sep.key) ∧ (∀ y ∈ B, sep.key < y.key) := by
  have h1 : Sorted (A ++ sep :: B) := hs.append_left.append_right
  exact ⟨fun x hx => h1.lt_of_append hx List.mem_cons_self, fun y hy => h1.append_right.head_lt hy⟩

theorem kids_shape_or (mn mx h : Nat) (n : Node) (hk : KidsOk mn mx h n) :
    n.children = [] ∨ n.children.length = n.items.length + 1 := by
  cases h with
  | zero => exact Or.inl hk
  | succ h => exact Or.inr hk.1

theorem mem_getLast?_getD (l : List Item) (h : l ≠ []) : l.getLast?.getD default ∈ l := by
  rw [List.getLast?_eq_some_getLast h]; simp

theorem mem_head?_getD (l : List Item) (h : l ≠ []) : l.head?.getD default ∈ l := by
  cases l with
  | nil => exact absurd rfl h
  | cons a l => simp

theorem grow_spec (mn : Nat) (hmn : 1 ≤ mn) (h : Nat) (is : List Item) (cs : List Node) (typ : Rm) (i : Nat)
    (hk : KidsOk mn (2 * mn + 1) (h + 1) (.mk is cs)) (hs : Sorted (interleave is cs)) (h1 : 1 ≤ is.length)
    (hloc : LocIs is typ i) (hi : i ≤ is.length) (hsmall : (cs.getD i default).items.length ≤ mn) :
    GrowPost mn h is cs typ (grow mn is cs i) := by
  simp only [KidsOk, Node.children, Node.items] at hk
  have hn : ∀ j, j < cs.length → mn ≤ (cs.getD j default).items.length ∧
      (cs.getD j default).items.length ≤ 2 * mn + 1 ∧ KidsOk mn (2 * mn + 1) h (cs.getD j default) :=
    fun j hj => (nodeOk_iff _ _ _ _).1 (hk.2 _ (getD_mem cs j default hj))
  unfold grow
  by_cases hA : 0 < i ∧ mn < (cs.getD (i - 1) default).items.length
  · -- steal from the left sibling
    simp only [hA, and_self, if_true]
    obtain ⟨j, rfl⟩ : ∃ j, i = j + 1 := ⟨i - 1, by omega⟩
    simp only [Nat.add_sub_cancel] at hA ⊢
    have hj : j < is.length := by omega
    obtain ⟨hma, hxa, hKa⟩ := hn j (by omega)
    obtain ⟨hmb, hxb, hKb⟩ := hn (j + 1) (by omega)
    have hane : (cs.getD j default).items ≠ [] := by
      intro e; rw [e] at hA; simp at hA
    obtain ⟨hin, hka, hkb⟩ := steal_left_spec mn (2 * mn + 1) h _ _ (is.getD j default) hKa hKb hane
    have hpair := interleave_pair j is cs hk.1 hj
    have hset := interleave_pair_set j is cs hk.1 hj
      (.mk (cs.getD j default).items.dropLast (cs.getD j default).children.dropLast)
      (.mk (is.getD j default :: (cs.getD (j + 1) default).items)
        ((cs.getD j default).children.getLast?.toList ++ (cs.getD (j + 1) default).children))
      ((cs.getD j default).items.getLast?.getD default)
    have hjc : j ≤ cs.length := by omega
    refine ⟨by rw [hset, hpair, hin], ?_, by simp [setAt_length _ _ _ hj], by simp [setAt_length _ _ _ hj], ?_⟩
    · simp only [KidsOk, children_mk, items_mk, setAt_length _ _ _ hj]
      refine ⟨by simp; omega, ?_⟩
      intro c hc
      simp only [List.mem_append, List.mem_cons] at hc
      rcases hc with hc | rfl | rfl | hc
      · exact hk.2 c (List.mem_of_mem_take hc)
      · exact (nodeOk_iff _ _ _ _).2 ⟨by simp only [items_mk, List.length_dropLast, List.length_cons, List.length_append, List.length_drop, List.length_nil]; omega, by simp only [items_mk, List.length_dropLast, List.length_cons, List.length_append, List.length_drop, List.length_nil]; omega, hka⟩
      · exact (nodeOk_iff _ _ _ _).2 ⟨by simp only [items_mk, List.length_dropLast, List.length_cons, List.length_append, List.length_drop, List.length_nil]; omega, by simp only [items_mk, List.length_dropLast, List.length_cons, List.length_append, List.length_drop, List.length_nil]; omega, hkb⟩
      · exact hk.2 c (List.mem_of_mem_drop hc)
    · have hl : LocIs (setAt is j ((cs.getD j default).items.getLast?.getD default)) typ (j + 1) := by
        cases typ with
        | min => simp [LocIs] at hloc
        | max => simp only [LocIs] at hloc ⊢; rw [setAt_length _ _ _ hj]; exact hloc
        | item k =>
          simp only [LocIs] at hloc ⊢
          rw [setAt_length _ _ _ hj, take_succ_setAt _ _ _ (by omega), drop_succ_setAt _ _ _ (by omega)]
          refine ⟨hloc.1, ?_, hloc.2.2⟩
          intro a ha
          have hsep : (is.getD j default).key < k := hloc.2.1 _ (mem_take_succ is j default hj)
          rcases List.mem_append.1 ha with ha | ha
          · exact hloc.2.1 a (mem_take_mono ha (by omega))
          · simp only [List.mem_singleton] at ha; subst ha
            rw [hpair] at hs
            have := (pair_order _ _ _ _ _ hs).1 _
              (mem_items_inorder' _ _ (kids_shape_or _ _ _ _ hKa) (mem_getLast?_getD _ hane))
            omega
      rw [locate_of_locIs _ _ _ hl, getD_pre1 _ _ _ _ _ _ (length_take_le cs j hjc)]
      simp only [items_mk, List.length_dropLast, List.length_cons, List.length_append, List.length_drop, List.length_nil]; omega
  · simp only [hA, if_false]
    by_cases hB : i < is.length ∧ mn < (cs.getD (i + 1) default).items.length
    · -- steal from the right sibling
      simp only [hB, and_self, if_true]
      have hj : i < is.length := hB.1
      obtain ⟨hma, hxa, hKa⟩ := hn i (by omega)
      obtain ⟨hmb, hxb, hKb⟩ := hn (i + 1) (by omega)
      have hbne : (cs.getD (i + 1) default).items ≠ [] := by
        intro e; rw [e] at hB; simp at hB
      obtain ⟨hin, hka, hkb⟩ := steal_right_spec mn (2 * mn + 1) h _ _ (is.getD i default) hKa hKb hbne
      have hpair := interleave_pair i is cs hk.1 hj
      have hset := interleave_pair_set i is cs hk.1 hj
        (.mk ((cs.getD i default).items ++ [is.getD i default])
          ((cs.getD i default).children ++ (cs.getD (i + 1) default).children.take 1))
        (.mk ((cs.getD (i + 1) default).items.drop 1) ((cs.getD (i + 1) default).children.drop 1))
        ((cs.getD (i + 1) default).items.head?.getD default)
      have hic : i ≤ cs.length := by omega
      refine ⟨by rw [hset, hpair, hin], ?_, by simp [setAt_length _ _ _ hj], by simp [setAt_length _ _ _ hj], ?_⟩
      · simp only [KidsOk, children_mk, items_mk, setAt_length _ _ _ hj]
        refine ⟨by simp; omega, ?_⟩
        intro c hc
        simp only [List.mem_append, List.mem_cons] at hc
        rcases hc with hc | rfl | rfl | hc
        · exact hk.2 c (List.mem_of_mem_take hc)
        · exact (nodeOk_iff _ _ _ _).2 ⟨by simp only [items_mk, List.length_dropLast, List.length_cons, List.length_append, List.length_drop, List.length_nil]; omega, by simp only [items_mk, List.length_dropLast, List.length_cons, List.length_append, List.length_drop, List.length_nil]; omega, hka⟩
        · exact (nodeOk_iff _ _ _ _).2 ⟨by simp only [items_mk, List.length_dropLast, List.length_cons, List.length_append, List.length_drop, List.length_nil]; omega, by simp only [items_mk, List.length_dropLast, List.length_cons, List.length_append, List.length_drop, List.length_nil]; omega, hkb⟩
        · exact hk.2 c (List.mem_of_mem_drop hc)
      · have hl : LocIs (setAt is i ((cs.getD (i + 1) default).items.head?.getD default)) typ i := by
          cases typ with
          | min => simpa [LocIs] using hloc
          | max => simp only [LocIs] at hloc; omega
          | item k =>
            simp only [LocIs] at hloc ⊢
            rw [setAt_length _ _ _ hj, take_setAt _ _ _ (by omega), drop_setAt _ _ _ (by omega)]
            refine ⟨hloc.1, hloc.2.1, ?_⟩
            intro b hb
            have hsep : k ≤ (is.getD i default).key := hloc.2.2 _ (mem_drop_self is i default hj)
            rcases List.mem_cons.1 hb with rfl | hb
            · rw [hpair] at hs
              have := (pair_order _ _ _ _ _ hs).2 _
                (mem_items_inorder' _ _ (kids_shape_or _ _ _ _ hKb) (mem_head?_getD _ hbne))
              omega
            · exact hloc.2.2 b (mem_drop_mono hb (by omega))
        rw [locate_of_locIs _ _ _ hl, getD_pre _ _ _ _ _ (length_take_le cs i hic)]
        simp only [items_mk, List.length_append, List.length_cons, List.length_nil]; omega
    · -- merge
      simp only [hB, if_false]
      generalize hjdef : (if is.length ≤ i then i - 1 else i) = j
      have hj : j < is.length := by rw [← hjdef]; split <;> omega
      obtain ⟨hma, hxa, hKa⟩ := hn j (by omega)
      obtain ⟨hmb, hxb, hKb⟩ := hn (j + 1) (by omega)
      have hlens : (cs.getD j default).items.length = mn ∧ (cs.getD (j + 1) default).items.length = mn := by
        by_cases hil : is.length ≤ i
        · have hji : j = i - 1 := by rw [← hjdef]; simp [hil]
          have hi0 : 0 < i := by omega
          have e1 : j + 1 = i := by omega
          rw [e1]
          have : ¬ mn < (cs.getD (i - 1) default).items.length := fun hh => hA ⟨hi0, hh⟩
          rw [← hji] at this
          exact ⟨by omega, by have := (hn i (by omega)).1; omega⟩
        · have hji : j = i := by rw [← hjdef]; simp [hil]
          rw [hji]
          have : ¬ mn < (cs.getD (i + 1) default).items.length := fun hh => hB ⟨by omega, hh⟩
          have := (hn (i + 1) (by omega)).1
          have := (hn i (by omega)).1
          exact ⟨by omega, by omega⟩
      obtain ⟨hin, hkm⟩ := merge_spec mn (2 * mn + 1) h _ _ (is.getD j default) hKa hKb
      have hpair := interleave_pair j is cs hk.1 hj
      have hset := interleave_pair_merge j is cs hk.1 hj
        (.mk ((cs.getD j default).items ++ is.getD j default :: (cs.getD (j + 1) default).items)
          ((cs.getD j default).children ++ (cs.getD (j + 1) default).children))
      have hjc : j ≤ cs.length := by omega
      refine ⟨by rw [hset, hpair, hin], ?_, by simp [removeAt_length _ _ hj]; omega,
        by simp [removeAt_length _ _ hj], ?_⟩
      · simp only [KidsOk, children_mk, items_mk, removeAt_length _ _ hj]
        refine ⟨by simp; omega, ?_⟩
        intro c hc
        simp only [List.mem_append, List.mem_cons] at hc
        rcases hc with hc | rfl | hc
        · exact hk.2 c (List.mem_of_mem_take hc)
        · exact (nodeOk_iff _ _ _ _).2 ⟨by simp only [items_mk, List.length_dropLast, List.length_cons, List.length_append, List.length_drop, List.length_nil]; omega, by simp only [items_mk, List.length_dropLast, List.length_cons, List.length_append, List.length_drop, List.length_nil]; omega, hkm⟩
        · exact hk.2 c (List.mem_of_mem_drop hc)
      · have hl : LocIs (removeAt is j) typ j := by
          cases typ with
          | min =>
            simp only [LocIs] at hloc ⊢; subst hloc
            rw [← hjdef]; split <;> omega
          | max =>
            simp only [LocIs] at hloc ⊢
            rw [removeAt_length _ _ hj, ← hjdef, hloc]; simp
          | item k =>
            simp only [LocIs] at hloc ⊢
            rw [removeAt_length _ _ hj, take_removeAt _ _ (by omega), drop_removeAt _ _ (by omega)]
            by_cases hil : is.length ≤ i
            · have hji : j = i - 1 := by rw [← hjdef]; simp [hil]
              have hie : i = is.length := by omega
              refine ⟨by omega, fun a ha => hloc.2.1 a ?_, ?_⟩
              · exact mem_take_mono ha (by omega)
              · have : is.drop (j + 1) = [] := by apply List.drop_eq_nil_of_le; omega
                rw [this]; simp
            · have hji : j = i := by rw [← hjdef]; simp [hil]
              subst hji
              exact ⟨by omega, hloc.2.1, fun b hb => hloc.2.2 b (mem_drop_mono hb (by omega))⟩
        rw [locate_of_locIs _ _ _ hl, getD_pre _ _ _ _ _ (length_take_le cs j hjc)]
        simp only [items_mk, List.length_dropLast, List.length_cons, List.length_append, List.length_drop, List.length_nil]; omega

end Nv.C03
