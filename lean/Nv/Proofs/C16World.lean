import Nv.Proofs.C16Term
import Nv.Proofs.C16Flush
/-!
C16 — settling, and the manager's count over many sessions. Proved configuration, exit callback returns.
-/
namespace Nv.C16

/-! ### settling reaches a quiescent state -/

theorem quiescent_proved {c : Cfg} (hc : Proved c) {s : Sess} (h : SInv s) :
    quiescent c s ↔ (sendStepP s = none ∧ recvStepP s = none) := by
  unfold quiescent; rw [sendStep_proved hc s h.exit_ret, recvStep_proved hc s h.exit_ret h.not_crashed]

theorem settleN_quiescent {c : Cfg} (hc : Proved c) : ∀ (n : Nat) (s : Sess), SInv s → measure s ≤ n →
    quiescent c (settleN c n s) ∧ SInv (settleN c n s)
  | 0, s, hS, h => by
    simp only [settleN]
    refine ⟨?_, hS⟩
    rw [quiescent_proved hc hS]
    have h0 : measure s = 0 := by omega
    unfold measure at h0
    have hs : s.sendPc = .done := by
      cases hp : s.sendPc with
      | done => rfl
      | quitting st => rw [hp] at h0; cases st <;> simp [SendPc.weight, QStage.weight] at h0 <;> omega
      | _ => rw [hp] at h0; simp only [SendPc.weight] at h0; omega
    have hr : s.recvPc = .done := by
      cases hp : s.recvPc with
      | done => rfl
      | quitting p st => rw [hp] at h0; cases st <;> simp [RecvPc.weight, QStage.weight] at h0 <;> omega
      | _ => rw [hp] at h0; simp only [RecvPc.weight] at h0; omega
    simp [sendStepP, recvStepP, hs, hr]
  | n + 1, s, hS, h => by
    simp only [settleN]
    cases h1 : sendStep c s with
    | some s' =>
      simp only
      rw [sendStep_proved hc s hS.exit_ret] at h1
      have := measure_sendStepP h1
      exact settleN_quiescent hc n s' (sinv_sendStepP hS h1) (by omega)
    | none =>
      simp only
      cases h2 : recvStep c s with
      | some s' =>
        simp only
        rw [recvStep_proved hc s hS.exit_ret hS.not_crashed] at h2
        have := measure_recvStepP h2
        exact settleN_quiescent hc n s' (sinv_recvStepP hS h2) (by omega)
      | none => exact ⟨⟨h1, h2⟩, hS⟩

theorem settleN_reach {c : Cfg} : ∀ (n : Nat) (s : Sess), (sessLTS c).Reach s → (sessLTS c).Reach (settleN c n s)
  | 0, _, h => h
  | n + 1, s, h => by
    simp only [settleN]
    cases h1 : sendStep c s with
    | some s' => exact settleN_reach n s' (LTS.Reach.step (a := Act.sendStep) h h1)
    | none =>
      simp only
      cases h2 : recvStep c s with
      | some s' => exact settleN_reach n s' (LTS.Reach.step (a := Act.recvStep) h h2)
      | none => exact h

/-! ### lists of sessions -/

theorem liveCount_append (l : List Sess) (s : Sess) : liveCount (l ++ [s]) = liveCount l + (1 - (s.decs : Int)) := by
  induction l with
  | nil => simp [liveCount]
  | cons x xs ih => simp only [List.cons_append, liveCount, ih]; omega

theorem liveCount_set : ∀ (l : List Sess) (k : Nat) (s s' : Sess), l[k]? = some s →
    liveCount (l.set k s') = liveCount l + (s.decs : Int) - (s'.decs : Int)
  | [], _, _, _, h => by simp at h
  | x :: xs, 0, s, s', h => by
    simp only [List.getElem?_cons_zero, Option.some.injEq] at h
    subst h
    simp only [List.set_cons_zero, liveCount]; omega
  | x :: xs, k + 1, s, s', h => by
    simp only [List.getElem?_cons_succ] at h
    simp only [List.set_cons_succ, liveCount, liveCount_set xs k s s' h]; omega

theorem liveCount_eq_alive : ∀ (l : List Sess), (∀ s ∈ l, SInv s) → liveCount l = (aliveNum l : Int)
  | [], _ => rfl
  | x :: xs, h => by
    have hx := counters_le_one (h x (by simp))
    have ih := liveCount_eq_alive xs (fun s hs => h s (by simp [hs]))
    simp only [liveCount, aliveNum, ih]
    split <;> omega

theorem decs_mono_P {c : Cfg} (hc : Proved c) {s s' : Sess} {a : Act} (hS : SInv s) (hs : step c s a = some s') :
    s.decs ≤ s'.decs := by
  cases a with
  | env e =>
    simp only [step, Option.some.injEq] at hs; subst hs
    cases e <;> simp only [envStep] <;> (try split) <;> simp
  | sendStep =>
    rw [step, sendStep_proved hc s hS.exit_ret] at hs
    unfold sendStepP at hs
    repeat' split at hs
    all_goals first | cases hs; simp | cases hs
  | recvStep =>
    rw [step, recvStep_proved hc s hS.exit_ret hS.not_crashed] at hs
    unfold recvStepP at hs
    repeat' split at hs
    all_goals first | cases hs; simp | cases hs

end Nv.C16
