import Nv.Proofs.C16Term
import Nv.Proofs.C16Flush
/-!
C16 — settling, and the manager's count over many sessions. Proved configuration.
-/
namespace Nv.C16

/-! ### settling reaches a quiescent state -/

theorem quiescent_proved {c : Cfg} (hc : Proved c) (s : Sess) :
    quiescent c s ↔ (sendStepP s = none ∧ recvStepP s = none) := by
  unfold quiescent; rw [sendStep_proved hc, recvStep_proved hc]

theorem settleN_quiescent {c : Cfg} (hc : Proved c) : ∀ (n : Nat) (s : Sess), measure s ≤ n → quiescent c (settleN c n s)
  | 0, s, h => by
    simp only [settleN]
    rw [quiescent_proved hc]
    have h0 : measure s = 0 := by omega
    unfold measure at h0
    have hs : s.sendPc = .done := by
      cases hp : s.sendPc <;> first | rfl | (rw [hp] at h0; simp only [SendPc.weight] at h0; omega)
    have hr : s.recvPc = .done := by
      cases hp : s.recvPc <;> first | rfl | (rw [hp] at h0; simp only [RecvPc.weight] at h0; omega)
    simp [sendStepP, recvStepP, hs, hr]
  | n + 1, s, h => by
    simp only [settleN]
    cases h1 : sendStep c s with
    | some s' =>
      simp only
      apply settleN_quiescent hc n s'
      rw [sendStep_proved hc] at h1
      have := measure_sendStepP h1; omega
    | none =>
      simp only
      cases h2 : recvStep c s with
      | some s' =>
        simp only
        apply settleN_quiescent hc n s'
        rw [recvStep_proved hc] at h2
        have := measure_recvStepP h2; omega
      | none => exact ⟨h1, h2⟩

theorem settleN_reach {c : Cfg} : ∀ (n : Nat) (s : Sess), (sessLTS c).Reach s → (sessLTS c).Reach (settleN c n s)
  | 0, _, h => h
  | n + 1, s, h => by
    simp only [settleN]
    cases h1 : sendStep c s with
    | some s' => exact settleN_reach n s' (LTS.Reach.step (a := Act.sendStep) h h1)
    | none =>
      simp only
      cases h2 : recvStep c s with
      | some s' => exact settleN_reach n s' (LTS.Reach.step (a := Act.recvStep) h h2)
      | none => exact h

/-! ### lists of sessions -/

theorem liveCount_append (l : List Sess) (s : Sess) : liveCount (l ++ [s]) = liveCount l + (1 - (s.decs : Int)) := by
  induction l with
  | nil => simp [liveCount]
  | cons x xs ih => simp only [List.cons_append, liveCount, ih]; omega

theorem liveCount_set : ∀ (l : List Sess) (k : Nat) (s s' : Sess), l[k]? = some s →
    liveCount (l.set k s') = liveCount l + (s.decs : Int) - (s'.decs : Int)
  | [], _, _, _, h => by simp at h
  | x :: xs, 0, s, s', h => by
    simp only [List.getElem?_cons_zero, Option.some.injEq] at h
    subst h
    simp only [List.set_cons_zero, liveCount]; omega
  | x :: xs, k + 1, s, s', h => by
    simp only [List.getElem?_cons_succ] at h
    simp only [List.set_cons_succ, liveCount, liveCount_set xs k s s' h]; omega

theorem liveCount_eq_alive : ∀ (l : List Sess), (∀ s ∈ l, SInv s) → liveCount l = (aliveNum l : Int)
  | [], _ => rfl
  | x :: xs, h => by
    have hx := h x (by simp)
    have ih := liveCount_eq_alive xs (fun s hs => h s (by simp [hs]))
    obtain ⟨h1, h2, _⟩ := hx
    simp only [liveCount, aliveNum, ih]
    cases ho : x.onceDone <;> simp [ho] at h1 <;> simp [h2, h1]

theorem decs_mono_P {c : Cfg} (hc : Proved c) {s s' : Sess} {a : Act} (hs : step c s a = some s') : s.decs ≤ s'.decs := by
  have hq : s.decs ≤ (quitP s).decs := by unfold quitP; split <;> simp
  cases a with
  | env e =>
    simp only [step, Option.some.injEq] at hs; subst hs
    cases e <;> simp only [envStep] <;> (try split) <;> simp
  | sendStep =>
    rw [step, sendStep_proved hc] at hs
    unfold sendStepP at hs
    split at hs
    · split at hs
      · split at hs <;> cases hs; simp
      · split at hs <;> (cases hs; simp)
    · split at hs
      · cases hs; simp
      · split at hs <;> cases hs; simp
    · cases hs; simpa using hq
    · cases hs
  | recvStep =>
    rw [step, recvStep_proved hc] at hs
    unfold recvStepP at hs
    split at hs
    · split at hs <;> cases hs; simp
    · cases hs; simpa using hq
    · cases hs

end Nv.C16
