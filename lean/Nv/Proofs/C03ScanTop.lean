import Nv.Proofs.C03ScanAsc
import Nv.Proofs.C03ScanDesc
/-!
C03 — `iterate` of a whole (sub)tree against the specification, and the two callbacks used by the
code: the collecting one and `iterWalk`'s counting/filtering one.
-/
namespace Nv.C03
variable {σ : Type}

/-- the pivot is included iff the scan is inclusive — or, ascending, `hit` was already set by the caller;
    descending, inclusive and `hit` not set -/
def effIncl : Dir → Bool → Bool → Bool
  | .asc, incl, hit => incl || hit
  | .desc, incl, hit => incl && !hit

theorem node_iterate_asc (q : Q σ) (n : Node) (hit : Bool) (st : σ) (hsh : Shape (height n) n)
    (hso : Sorted n.inorder) :
    n.iterate .asc q hit st =
      runCb q.cb ((specScan n.inorder .asc q.start (q.incl || hit)).takeWhile (beforeStop .asc q.stop)) st := by
  simp only [Node.iterate]
  rw [iterAsc_flat q (height n) n _ hsh hso rfl]
  cases hq : q.start with
  | none =>
    have : n.inorder.filter (geStart q) = n.inorder := List.filter_eq_self.2 (fun x _ => by simp [geStart, hq])
    rw [this, flatAsc_run q _ _ rfl (Or.inl hq)]; simp [specScan]
  | some s =>
    have hfs : Sorted (n.inorder.filter (geStart q)) := List.Pairwise.sublist List.filter_sublist hso
    have hge : ∀ x ∈ n.inorder.filter (geStart q), s ≤ x.key := by
      intro x hx
      have := (List.mem_filter.1 hx).2
      simpa [geStart, hq] using this
    cases he : (q.incl || hit) with
    | true =>
      rw [flatAsc_run q _ _ rfl (Or.inr (by simpa using he))]
      simp only [specScan]
      congr 2
      apply List.filter_congr
      intro x _
      simp only [geStart, hq, Bool.true_and]
      by_cases h1 : s < x.key
      · simp [h1]; omega
      · by_cases h2 : x.key = s
        · simp [h2]
        · have h3 : ¬ s ≤ x.key := by omega
          simp [h1, h2, h3]
    | false =>
      simp only [Bool.or_eq_false_iff] at he
      rw [he.2, flatAsc_excl q s hq he.1 _ hfs hge st]
      simp only [specScan, List.filter_filter]
      congr 2
      apply List.filter_congr
      intro x _
      simp only [geStart, hq, Bool.false_and, Bool.or_false]
      by_cases h1 : s < x.key
      · simp [h1]; omega
      · simp [h1]

theorem node_iterate_desc (q : Q σ) (n : Node) (hit : Bool) (st : σ) (hsh : Shape (height n) n)
    (hso : Sorted n.inorder) :
    n.iterate .desc q hit st =
      runCb q.cb ((specScan n.inorder .desc q.start (q.incl && !hit)).takeWhile (beforeStop .desc q.stop)) st := by
  simp only [Node.iterate]
  rw [iterDesc_flat q (height n) n _ hsh hso rfl]
  cases hq : q.start with
  | none =>
    have : n.inorder.filter (leStart q) = n.inorder := List.filter_eq_self.2 (fun x _ => by simp [leStart, hq])
    rw [this, flatDesc_run q _ (fun x _ r => by simp [skipDesc, hq]) _ rfl]; simp [specScan]
  | some s =>
    have hfs : ((n.inorder.filter (leStart q)).reverse).Pairwise (fun a b => b.key < a.key) := by
      rw [List.pairwise_reverse]; exact List.Pairwise.sublist List.filter_sublist hso
    have hle : ∀ x ∈ (n.inorder.filter (leStart q)).reverse, x.key ≤ s := by
      intro x hx
      have := (List.mem_filter.1 (List.mem_reverse.1 hx)).2
      simpa [leStart, hq] using this
    rw [flatDesc_pivot q s hq _ hfs hle hit st]
    simp only [specScan, List.filter_reverse, List.filter_filter]
    congr 3
    apply List.filter_congr
    intro x _
    simp only [leStart, hq]
    by_cases h1 : x.key < s
    · have h3 : x.key ≤ s := by omega
      simp [h1, h3]
    · by_cases h2 : x.key = s
      · simp [h2]
      · have h3 : ¬ x.key ≤ s := by omega
        simp [h1, h2, h3]

@[simp] theorem beforeStop_none (d : Dir) : beforeStop d none = fun _ => true := by
  funext x; cases d <;> rfl
@[simp] theorem beforeStop_asc (t : Int) : beforeStop .asc (some t) = fun x => decide (x.key < t) := by
  funext x; rfl
@[simp] theorem beforeStop_desc (t : Int) : beforeStop .desc (some t) = fun x => decide (t < x.key) := by
  funext x; rfl
@[simp] theorem takeWhile_true (l : List Item) : l.takeWhile (fun _ => true) = l := by
  induction l with
  | nil => rfl
  | cons x xs ih => simp [List.takeWhile_cons, ih]

/-! ### callbacks -/

theorem runCb_collect (cont : Item → Bool) (l : List Item) (acc : List Item) :
    runCb (collect cont) l acc = acc ++ visited cont l := by
  induction l generalizing acc with
  | nil => simp [runCb, visited]
  | cons x xs ih =>
    cases hc : cont x with
    | true => simp [runCb, collect, visited, hc, ih]
    | false => simp [runCb, collect, visited, hc]

/-- `iterWalk`'s closure: collects the first `n` items accepted by the filter (comparison `>=` or `==`) -/
theorem runCb_walk (cmp : LimitCmp) (hc : cmp = .ge ∨ cmp = .eq) (n : Nat) (f : Item → Bool) (l : List Item)
    (c : Nat) (acc : List Item) (hcn : c ≤ n) :
    (runCb (walkCb cmp n f) l (c, acc)).2 = acc ++ (l.filter f).take (n - c) := by
  induction l generalizing c acc with
  | nil => simp [runCb]
  | cons x xs ih =>
    have hreach : cmp.reached c n = decide (c = n) := by
      rcases hc with rfl | rfl
      · simp only [LimitCmp.reached]; congr 1; apply propext; omega
      · simp [LimitCmp.reached]
    simp only [runCb, walkCb, hreach]
    by_cases hcn' : c = n
    · simp [hcn']
    · simp only [hcn', decide_false, Bool.false_eq_true, if_false]
      by_cases hf : f x = true
      · simp only [hf, if_true]
        rw [ih (c + 1) _ (by omega)]
        have : n - c = (n - (c + 1)) + 1 := by omega
        rw [List.filter_cons_of_pos hf, this, List.take_succ_cons]
        simp
      · simp only [hf, Bool.false_eq_true, if_false, if_true]
        rw [ih c _ hcn, List.filter_cons_of_neg hf]

end Nv.C03
