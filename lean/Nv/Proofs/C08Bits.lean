import Nv.Model.C08
/-! C08 — bit-level lemmas: `bit i`, set/clear, membership lists, first/last set bit. Core only. -/
namespace Nv.C08

theorem bit_eq_twoPow (i : Nat) : bit i = BitVec.twoPow 64 i := by
  unfold bit; rw [BitVec.twoPow_eq]

theorem getLsbD_bit (i j : Nat) : (bit i).getLsbD j = (decide (i < 64) && decide (i = j)) := by
  rw [bit_eq_twoPow, BitVec.getLsbD_twoPow]

theorem twoPow_ne_zero {i : Nat} (h : i < 64) : BitVec.twoPow 64 i ≠ 0#64 := by
  intro h0
  have := congrArg (fun x => x.getLsbD i) h0
  simp [h] at this

/-- the test `w & u64Tab[i] != 0` reads bit `i` -/
theorem test_bit (w : Bit64) {i : Nat} (h : i < 64) : (w &&& bit i != 0#64) = w.getLsbD i := by
  rw [bit_eq_twoPow, BitVec.and_twoPow]
  cases hb : w.getLsbD i
  · simp
  · simp [twoPow_ne_zero h]

/-- `w &= ^u64Tab[i]` clears exactly bit `i` -/
theorem getLsbD_clear (w : Bit64) (i j : Nat) :
    (w &&& ~~~(bit i)).getLsbD j = (w.getLsbD j && !decide (i = j)) := by
  rw [BitVec.getLsbD_and, BitVec.getLsbD_not, getLsbD_bit]
  by_cases hj : j < 64
  · by_cases hi : i < 64 <;> by_cases hij : i = j <;> simp [hj, hi, hij]
  · have : w.getLsbD j = false := BitVec.getLsbD_of_ge w j (by omega)
    simp [this]

theorem getLsbD_setbit (w : Bit64) (i j : Nat) (hi : i < 64) :
    (w ||| bit i).getLsbD j = (w.getLsbD j || decide (i = j)) := by
  rw [BitVec.getLsbD_or, getLsbD_bit]; simp [hi]

theorem exists_bit_of_ne_zero {w : Bit64} (h : w ≠ 0#64) : ∃ j, j < 64 ∧ w.getLsbD j = true := by
  apply Classical.byContradiction
  intro hn
  apply h
  apply BitVec.eq_of_getLsbD_eq
  intro i hi
  cases hb : w.getLsbD i
  · simp
  · exact absurd ⟨i, hi, hb⟩ hn

theorem members_zero : members 0#64 = [] := by decide

theorem members_eq_nil_iff (w : Bit64) : members w = [] ↔ w = 0#64 := by
  constructor
  · intro h
    apply Classical.byContradiction
    intro hne
    obtain ⟨j, hj, hb⟩ := exists_bit_of_ne_zero hne
    have : j ∈ members w := by
      unfold members; exact List.mem_filter.2 ⟨List.mem_range.2 hj, hb⟩
    rw [h] at this; cases this
  · intro h; rw [h]; exact members_zero

/-! ### generic: the first element satisfying `p` in a duplicate-free list heads the filtered list -/

theorem filter_of_find {L : List Nat} (hnd : L.Nodup) {p : Nat → Bool} {i : Nat} (h : L.find? p = some i) :
    L.filter p = i :: L.filter (fun j => p j && !decide (i = j)) := by
  induction L with
  | nil => simp at h
  | cons a L ih =>
    have hnd' := (List.nodup_cons.1 hnd)
    by_cases hpa : p a = true
    · have : a = i := by simpa [List.find?, hpa] using h
      subst this
      have : L.filter (fun j => p j && !decide (a = j)) = L.filter p := by
        apply List.filter_congr
        intro j hj
        have : a ≠ j := fun e => hnd'.1 (e ▸ hj)
        simp [this]
      simp [hpa, this]
    · have hpa' : p a = false := by simpa using hpa
      have h' : L.find? p = some i := by simpa [List.find?, hpa'] using h
      rw [List.filter_cons, List.filter_cons]
      simp only [hpa', Bool.false_and, Bool.false_eq_true, if_false]
      exact ih hnd'.2 h'

theorem find_isSome_of_mem {L : List Nat} {p : Nat → Bool} {j : Nat} (hj : j ∈ L) (hp : p j = true) :
    ∃ i, L.find? p = some i := by
  cases h : L.find? p with
  | some i => exact ⟨i, rfl⟩
  | none =>
    have := List.find?_eq_none.1 h j hj
    simp [hp] at this

theorem order_nodup (rev : Bool) : (order rev).Nodup := by
  cases rev <;> decide

theorem mem_order {rev : Bool} {j : Nat} : j ∈ order rev ↔ j < 64 := by
  cases rev <;> simp [order]

theorem order_lt {rev : Bool} : ∀ i ∈ order rev, i < 64 := fun _ h => mem_order.1 h

/-- index chosen by the sparse loop: lowest set bit going forward, highest going backward -/
def firstIdx (rev : Bool) (w : Bit64) : Nat := if rev then bitlen64 w - 1 else tz64 w

theorem firstIdx_spec (rev : Bool) {w : Bit64} (h : w ≠ 0#64) :
    (order rev).find? w.getLsbD = some (firstIdx rev w) := by
  obtain ⟨j, hj, hb⟩ := exists_bit_of_ne_zero h
  obtain ⟨i, hi⟩ := find_isSome_of_mem (L := order rev) (p := w.getLsbD) (mem_order.2 hj) hb
  rw [hi]
  cases rev
  · simp only [order, Bool.false_eq_true, if_false] at hi
    simp [firstIdx, tz64, hi]
  · simp only [order, if_true] at hi
    simp [firstIdx, bitlen64, hi]

/-- the filtered scan order of a word: its members ascending, or descending -/
theorem filter_order (rev : Bool) (w : Bit64) :
    (order rev).filter w.getLsbD = if rev then (members w).reverse else members w := by
  cases rev
  · simp [order, members]
  · simp [order, members, List.filter_reverse]

theorem filter_clear {L : List Nat} (w : Bit64) (i : Nat) :
    L.filter (w &&& ~~~(bit i)).getLsbD = L.filter (fun j => w.getLsbD j && !decide (i = j)) := by
  apply List.filter_congr
  intro j _
  exact getLsbD_clear w i j

theorem filter_clear_not_mem {L : List Nat} (w : Bit64) {i : Nat} (hi : i ∉ L) :
    L.filter (w &&& ~~~(bit i)).getLsbD = L.filter w.getLsbD := by
  apply List.filter_congr
  intro j hj
  rw [getLsbD_clear]
  have : i ≠ j := fun e => hi (e ▸ hj)
  simp [this]

theorem popcount_full : popcount (~~~(0#64)) = 64 := by decide

theorem len64_eq (b : Bit64) : len64 b = (members b).length := by
  unfold len64 full
  split
  · rename_i h
    have : b = ~~~(0#64) := by simpa using h
    rw [this]; exact popcount_full.symm
  · rfl

end Nv.C08
