import Nv.Proofs.C15Generic
/-!
C15 — handlers are local: what a handler does depends on the store only through the row of its own key (and on its
worker's cache). Together with the frame (`HOk.frame`: it writes the store at its key only) this makes operations of
different workers commute.
-/
namespace Nv.C15

/-- `c'` is `c` with a store that may differ anywhere except at `k` -/
structure Near (k : Key) (c c' : Ctx) : Prop where
  cache : c'.cache = c.cache
  faults : c'.faults = c.faults
  trace : c'.trace = c.trace
  row : sGet c'.store k = sGet c.store k

theorem Near.withCache {k : Key} {c c' : Ctx} (h : Near k c c') (ca : Cache) :
    Near k { c with cache := ca } { c' with cache := ca } := ⟨rfl, h.faults, h.trace, h.row⟩

theorem Near.setCache {k : Key} {c c' : Ctx} (h : Near k c c') (v : Val) : Near k (setCache c k v) (setCache c' k v) := by
  refine ⟨?_, h.faults, h.trace, h.row⟩
  simp only [Nv.C15.setCache, h.cache]

/-- same result, and the contexts stay near -/
def Same (k : Key) (r r' : Ctx × Res) : Prop := r'.2 = r.2 ∧ Near k r.1 r'.1

theorem call_near {k : Key} {c c' : Ctx} (h : Near k c c') (cb : Cb) :
    (c'.call cb).1 = (c.call cb).1 ∧ Near k (c.call cb).2 (c'.call cb).2 := by
  obtain ⟨h1, h2, h3, h4⟩ := h
  unfold Ctx.call
  rw [h2]
  cases c.faults with
  | nil => exact ⟨rfl, ⟨h1, rfl, by simp only [h3], h4⟩⟩
  | cons f fs => exact ⟨rfl, ⟨h1, rfl, by simp only [h3], h4⟩⟩

theorem Near.setRow {k : Key} {c c' : Ctx} (h : Near k c c') (v : Val) :
    Near k { c with store := sSet c.store k v } { c' with store := sSet c'.store k v } :=
  ⟨h.cache, h.faults, h.trace, by simp [sGet_sSet]⟩

theorem Near.eraseRow {k : Key} {c c' : Ctx} (h : Near k c c') :
    Near k { c with store := sErase c.store k } { c' with store := sErase c'.store k } :=
  ⟨h.cache, h.faults, h.trace, by simp [sGet_sErase]⟩

theorem callLoad_near {k : Key} {c c' : Ctx} (h : Near k c c') :
    (callLoad c' k).1 = (callLoad c k).1 ∧ Near k (callLoad c k).2 (callLoad c' k).2 := by
  obtain ⟨hf, hn⟩ := call_near h .load
  unfold callLoad
  simp only [hf]
  split
  · exact ⟨rfl, hn⟩
  · rw [hn.row]
    split <;> exact ⟨rfl, hn⟩

theorem callAdd_near {k : Key} {c c' : Ctx} (v : Val) (h : Near k c c') :
    (callAdd c' k v).1 = (callAdd c k v).1 ∧ Near k (callAdd c k v).2 (callAdd c' k v).2 := by
  obtain ⟨hf, hn⟩ := call_near h .add
  unfold callAdd
  simp only [hf]
  split
  · exact ⟨rfl, hn⟩
  · rw [hn.row]
    split
    · exact ⟨rfl, hn⟩
    · exact ⟨rfl, hn.setRow v⟩

theorem callUpd_near {k : Key} {c c' : Ctx} (v e : Val) (h : Near k c c') :
    (callUpd c' k v e).1 = (callUpd c k v e).1 ∧ Near k (callUpd c k v e).2 (callUpd c' k v e).2 := by
  obtain ⟨hf, hn⟩ := call_near h .upd
  unfold callUpd
  simp only [hf]
  split
  · exact ⟨rfl, hn⟩
  · rw [hn.row]
    split
    · exact ⟨rfl, hn⟩
    · exact ⟨rfl, hn.setRow _⟩

theorem callUpsert_near {k : Key} {c c' : Ctx} (v : Val) (e : Option Val) (h : Near k c c') :
    (callUpsert c' k v e).1 = (callUpsert c k v e).1 ∧ Near k (callUpsert c k v e).2 (callUpsert c' k v e).2 := by
  obtain ⟨hf, hn⟩ := call_near h .upsert
  unfold callUpsert
  simp only [hf]
  split
  · exact ⟨rfl, hn⟩
  · cases e with
    | some e0 => exact ⟨rfl, hn.setRow _⟩
    | none =>
      simp only [hn.row, true_and]
      exact hn.setRow _

theorem callDel_near {k : Key} {c c' : Ctx} (h : Near k c c') :
    (callDel c' k).1 = (callDel c k).1 ∧ Near k (callDel c k).2 (callDel c' k).2 := by
  obtain ⟨hf, hn⟩ := call_near h .del
  unfold callDel
  simp only [hf]
  split
  · exact ⟨rfl, hn⟩
  · exact ⟨rfl, hn.eraseRow⟩

theorem Same.refl' {k : Key} {c c' : Ctx} (h : Near k c c') (r : Res) : Same k (c, r) (c', r) := ⟨rfl, h⟩

/-- the common tail of the handlers: error → pass on; value → cache it -/
theorem tail_near {k : Key} {p p' : Except Err Val × Ctx} : p'.1 = p.1 → Near k p.2 p'.2 →
    Same k
      (match p with
        | (.error e, c) => ((c, Res.err e) : Ctx × Res)
        | (.ok nv, c) => (setCache c k nv, .ok nv))
      (match p' with
        | (.error e, c) => ((c, Res.err e) : Ctx × Res)
        | (.ok nv, c) => (setCache c k nv, .ok nv)) := by
  rcases p with ⟨r, c⟩
  rcases p' with ⟨r', c'⟩
  intro h1 h2
  simp only at h1 h2
  subst h1
  cases r' with
  | error e => exact ⟨rfl, h2⟩
  | ok nv => exact ⟨rfl, h2.setCache nv⟩

theorem hLoad_near {k : Key} {c c' : Ctx} (h : Near k c c') : Same k (hLoad c k) (hLoad c' k) := by
  unfold hLoad
  rw [h.cache]
  cases hg : cGet c.cache k with
  | mk o ca =>
    cases o with
    | some v => exact ⟨rfl, h.withCache ca⟩
    | none =>
      have hn := callLoad_near (h.withCache ca)
      exact tail_near hn.1 hn.2

theorem hAdd_near {k : Key} {c c' : Ctx} (v : Val) (h : Near k c c') : Same k (hAdd c k v) (hAdd c' k v) := by
  unfold hAdd
  rw [h.cache]
  cases cPeek c.cache k with
  | some _ => exact ⟨rfl, h⟩
  | none =>
    have hn := callAdd_near v h
    exact tail_near hn.1 hn.2

theorem upd_tail_near {k : Key} {c c' : Ctx} (v e : Val) (h : Near k c c') :
    Same k
      (match callUpd c k v e with
        | (.error e, c) => ((c, Res.err e) : Ctx × Res)
        | (.ok nv, c) => (setCache c k nv, .ok nv))
      (match callUpd c' k v e with
        | (.error e, c) => ((c, Res.err e) : Ctx × Res)
        | (.ok nv, c) => (setCache c k nv, .ok nv)) :=
  tail_near (callUpd_near v e h).1 (callUpd_near v e h).2

theorem add_tail_near {k : Key} {c c' : Ctx} (v : Val) (h : Near k c c') :
    Same k
      (match callAdd c k v with
        | (.error e, c) => ((c, Res.err e) : Ctx × Res)
        | (.ok nv, c) => (setCache c k nv, .ok nv))
      (match callAdd c' k v with
        | (.error e, c) => ((c, Res.err e) : Ctx × Res)
        | (.ok nv, c) => (setCache c k nv, .ok nv)) :=
  tail_near (callAdd_near v h).1 (callAdd_near v h).2

theorem hUpdate_near {k : Key} {c c' : Ctx} (v : Val) (h : Near k c c') : Same k (hUpdate c k v) (hUpdate c' k v) := by
  unfold hUpdate
  rw [h.cache]
  cases cPeek c.cache k with
  | some pre => exact upd_tail_near v pre h
  | none =>
    have hn := callLoad_near h
    simp only
    revert hn
    generalize callLoad c k = p
    generalize callLoad c' k = p'
    rcases p with ⟨r, c1⟩
    rcases p' with ⟨r', c1'⟩
    intro hn
    obtain ⟨h1, h2⟩ := hn
    simp only at h1 h2
    subst h1
    cases r' with
    | error e => exact ⟨rfl, h2⟩
    | ok cur => exact upd_tail_near v cur h2

theorem hDelete_near (cfg : Cfg) {k : Key} {c c' : Ctx} (h : Near k c c') : Same k (hDelete cfg c k) (hDelete cfg c' k) := by
  have key : ∀ {d d' : Ctx}, Near k d d' →
      (callDel d' k).1 = (callDel d k).1 ∧ Near k (callDel d k).2 (callDel d' k).2 := fun hd => callDel_near hd
  unfold hDelete
  rw [h.cache]
  cases cfg.delOrder with
  | cacheFirst =>
    simp only
    have hn := key (h.withCache (cDelete c.cache k))
    revert hn
    generalize callDel { c with cache := cDelete c.cache k } k = p
    generalize callDel { c' with cache := cDelete c.cache k } k = p'
    rcases p with ⟨r, c1⟩
    rcases p' with ⟨r', c1'⟩
    intro hn
    obtain ⟨h1, h2⟩ := hn
    simp only at h1 h2
    subst h1
    cases r' <;> exact ⟨rfl, h2⟩
  | storeFirst =>
    simp only
    have hn := key h
    revert hn
    generalize callDel c k = p
    generalize callDel c' k = p'
    rcases p with ⟨r, c1⟩
    rcases p' with ⟨r', c1'⟩
    intro hn
    obtain ⟨h1, h2⟩ := hn
    simp only at h1 h2
    subst h1
    cases r' with
    | error e => exact ⟨rfl, h2⟩
    | ok u =>
      refine ⟨rfl, ?_⟩
      simp only [h2.cache]
      exact h2.withCache _
  | noDelete =>
    simp only
    have hn := key h
    revert hn
    generalize callDel c k = p
    generalize callDel c' k = p'
    rcases p with ⟨r, c1⟩
    rcases p' with ⟨r', c1'⟩
    intro hn
    obtain ⟨h1, h2⟩ := hn
    simp only at h1 h2
    subst h1
    cases r' <;> exact ⟨rfl, h2⟩
  | unknown =>
    simp only
    have hn := key h
    revert hn
    generalize callDel c k = p
    generalize callDel c' k = p'
    rcases p with ⟨r, c1⟩
    rcases p' with ⟨r', c1'⟩
    intro hn
    obtain ⟨h1, h2⟩ := hn
    simp only at h1 h2
    subst h1
    cases r' <;> exact ⟨rfl, h2⟩

theorem upsert_tail_near {k : Key} {c c' : Ctx} (v : Val) (e : Option Val) (h : Near k c c') :
    Same k
      (match callUpsert c k v e with
        | (.error e, c) => ((c, Res.err e) : Ctx × Res)
        | (.ok nv, c) => (setCache c k nv, .ok nv))
      (match callUpsert c' k v e with
        | (.error e, c) => ((c, Res.err e) : Ctx × Res)
        | (.ok nv, c) => (setCache c k nv, .ok nv)) :=
  tail_near (callUpsert_near v e h).1 (callUpsert_near v e h).2

theorem load_tail_near {k : Key} {c c' : Ctx} (h : Near k c c') :
    Same k
      (match callLoad c k with
        | (.error e, c) => ((c, Res.err e) : Ctx × Res)
        | (.ok nv, c) => (setCache c k nv, .ok nv))
      (match callLoad c' k with
        | (.error e, c) => ((c, Res.err e) : Ctx × Res)
        | (.ok nv, c) => (setCache c k nv, .ok nv)) :=
  tail_near (callLoad_near h).1 (callLoad_near h).2

theorem hUpdOrAdd_near {k : Key} {c c' : Ctx} (v : Val) (h : Near k c c') : Same k (hUpdOrAdd c k v) (hUpdOrAdd c' k v) := by
  unfold hUpdOrAdd
  rw [h.cache]
  cases cPeek c.cache k with
  | some pre => exact upd_tail_near v pre h
  | none =>
    have hn := callLoad_near h
    simp only
    revert hn
    generalize callLoad c k = p
    generalize callLoad c' k = p'
    rcases p with ⟨r, c1⟩
    rcases p' with ⟨r', c1'⟩
    intro hn
    obtain ⟨h1, h2⟩ := hn
    simp only at h1 h2
    subst h1
    cases r' with
    | error e =>
      cases e with
      | notFound => exact add_tail_near v h2
      | inj => exact ⟨rfl, h2⟩
      | «exists» => exact ⟨rfl, h2⟩
      | dup => exact ⟨rfl, h2⟩
    | ok cur => exact upd_tail_near v cur h2

theorem hUpsertThenLoad_near {k : Key} {c c' : Ctx} (v : Val) (h : Near k c c') :
    Same k (hUpsertThenLoad c k v) (hUpsertThenLoad c' k v) := by
  unfold hUpsertThenLoad
  rw [h.cache]
  cases cPeek c.cache k with
  | some pre => exact upsert_tail_near v (some pre) h
  | none =>
    have hn := callUpsert_near v none h
    simp only
    revert hn
    generalize callUpsert c k v none = p
    generalize callUpsert c' k v none = p'
    rcases p with ⟨r, c1⟩
    rcases p' with ⟨r', c1'⟩
    intro hn
    obtain ⟨h1, h2⟩ := hn
    simp only at h1 h2
    subst h1
    cases r' with
    | error e => exact ⟨rfl, h2⟩
    | ok nv => exact load_tail_near h2

theorem hUpsertThenRenew_near {k : Key} {c c' : Ctx} (v : Val) (h : Near k c c') :
    Same k (hUpsertThenRenew c k v) (hUpsertThenRenew c' k v) := by
  unfold hUpsertThenRenew
  rw [h.cache]
  cases cPeek c.cache k with
  | some pre => exact upsert_tail_near v (some pre) h
  | none =>
    have hn := callUpsert_near v none h
    simp only
    revert hn
    generalize callUpsert c k v none = p
    generalize callUpsert c' k v none = p'
    rcases p with ⟨r, c1⟩
    rcases p' with ⟨r', c1'⟩
    intro hn
    obtain ⟨h1, h2⟩ := hn
    simp only at h1 h2
    subst h1
    cases r' with
    | error e => exact ⟨rfl, h2⟩
    | ok nv => exact ⟨rfl, h2⟩

/-- `handle_local`: a handler reads the store only at its own key — run from two contexts whose stores agree at that key
(and are arbitrary elsewhere) it returns the same result, leaves the same cache, consumes the same faults, calls the same
callbacks, and leaves the same row at its key -/
theorem handle_near (cfg : Cfg) {c c' : Ctx} (op : Op) (h : Near op.key c c') :
    Same op.key (handle cfg c op) (handle cfg c' op) := by
  cases op with
  | get k =>
    simp only [Op.key] at h
    simp only [handle, Op.key]
    rw [h.cache]
    cases hg : cGet c.cache k with
    | mk o ca =>
      cases o with
      | some v => exact ⟨rfl, h.withCache ca⟩
      | none => exact hLoad_near (h.withCache ca)
  | add k v => exact hAdd_near v h
  | upd k v => exact hUpdate_near v h
  | del k => exact hDelete_near cfg h
  | uoa k v => exact hUpdOrAdd_near v h
  | utl k v => exact hUpsertThenLoad_near v h
  | utr k v => exact hUpsertThenRenew_near v h

end Nv.C15
