import Nv.Proofs.C05Basic
/-! C05 — invariants of the in-memory cache: well-formed index (`WF`), the size bound (`Bounded`). -/
namespace Nv.C05

theorem wf_iff {m : Mem} : WF m ↔ (keys m.live).Nodup ∧ (keys m.ghost).Nodup ∧
    ∀ a, a ∈ keys m.live → a ∉ keys m.ghost := by
  unfold WF
  rw [List.nodup_append]
  constructor
  · rintro ⟨h1, h2, h3⟩; exact ⟨h1, h2, fun a ha hb => h3 a ha a hb rfl⟩
  · rintro ⟨h1, h2, h3⟩; exact ⟨h1, h2, fun a ha b hb e => h3 a ha (e ▸ hb)⟩

theorem wf_new (size : Nat) (dttl : Int) : WF (Mem.new size dttl) := by simp [WF, Mem.new, keys]

theorem wf_removeKey {m : Mem} (h : WF m) (k : Key) : WF (m.removeKey k) := by
  rw [wf_iff] at h ⊢
  obtain ⟨h1, h2, h3⟩ := h
  refine ⟨(keys_eraseKey_sublist k _).nodup h1, (keys_eraseKey_sublist k _).nodup h2, ?_⟩
  intro a ha hb
  simp only [Mem.removeKey] at ha hb
  exact h3 a (mem_keys_eraseKey.1 ha).1 (mem_keys_eraseKey.1 hb).1

theorem wf_clear (m : Mem) : WF m.clear := by simp [WF, Mem.clear, keys]

theorem wf_touch {m : Mem} (h : WF m) (n : Node) : WF (m.touch n) := by
  rw [wf_iff] at h ⊢
  obtain ⟨h1, h2, h3⟩ := h
  unfold Mem.touch
  split
  · rename_i x hx
    have hin : n.key ∈ keys m.live := (findKey_isSome_iff (k := n.key) (l := m.live)).1 (by rw [hx]; rfl)
    refine ⟨?_, h2, ?_⟩
    · simp only [keys, List.map_cons, List.nodup_cons]
      refine ⟨?_, (keys_eraseKey_sublist n.key _).nodup h1⟩
      intro hm
      exact (mem_keys_eraseKey.1 hm).2 rfl
    · intro a ha
      simp only [keys, List.map_cons, List.mem_cons] at ha
      rcases ha with ha | ha
      · subst ha; exact h3 _ hin
      · exact h3 a (mem_keys_eraseKey.1 ha).1
  · rename_i hx
    have hnot : n.key ∉ keys m.live := findKey_none_iff.1 hx
    refine ⟨h1, ?_, ?_⟩
    · simp only [keys, List.map_cons, List.nodup_cons]
      refine ⟨?_, (keys_eraseKey_sublist n.key _).nodup h2⟩
      intro hm
      exact (mem_keys_eraseKey.1 hm).2 rfl
    · intro a ha hb
      simp only [keys, List.map_cons, List.mem_cons] at hb
      rcases hb with hb | hb
      · subst hb; exact hnot ha
      · exact h3 a ha (mem_keys_eraseKey.1 hb).1

theorem wf_insertNew {c : Cfg} {m : Mem} (h : WF m) {n : Node} (hnew : m.lookup n.key = none) :
    WF (m.insertNew c n) := by
  have hni := lookup_none_iff.1 hnew
  simp only [Mem.indexed, List.mem_append, not_or] at hni
  rw [wf_iff] at h
  obtain ⟨h1, h2, h3⟩ := h
  have hcons : (keys (n :: m.live)).Nodup := by
    simp only [keys, List.map_cons, List.nodup_cons]; exact ⟨hni.1, h1⟩
  rcases insertNew_cases c m n with ⟨_, e⟩ | ⟨hl, _, e⟩ | ⟨_, e⟩ <;> rw [e, wf_iff]
  · refine ⟨((List.dropLast_sublist _).map _).nodup hcons, h2, ?_⟩
    intro a ha
    have := ((List.dropLast_sublist (n :: m.live)).map (·.key)).subset ha
    simp only [List.map_cons, List.mem_cons] at this
    rcases this with e | e
    · subst e; exact hni.2
    · exact h3 a e
  · refine ⟨by simp [keys], ?_, by simp [keys]⟩
    simp only [keys, List.map_cons, List.nodup_cons]; exact ⟨hni.2, h2⟩
  · refine ⟨hcons, h2, ?_⟩
    intro a ha
    simp only [keys, List.map_cons, List.mem_cons] at ha
    rcases ha with e | e
    · subst e; exact hni.2
    · exact h3 a e

theorem wf_purge {m : Mem} (h : WF m) (now : Int) (k : Key) : WF (m.purgeIfExpired now k) := by
  unfold Mem.purgeIfExpired
  split
  · split
    · exact wf_removeKey h k
    · exact h
  · exact h

theorem wf_preSet {c : Cfg} {m : Mem} (h : WF m) (now : Int) (k : Key) : WF (m.preSet c now k) := by
  unfold Mem.preSet
  split
  · exact wf_purge h now k
  · exact h

theorem wf_setCore {c : Cfg} {m : Mem} (h : WF m) (now : Int) (k : Key) (v : Val) (o : SetOpt) :
    WF (m.setCore c now k v o).1 := by
  unfold Mem.setCore
  split
  · split
    · exact h
    · exact wf_touch h _
  · rename_i hn; exact wf_insertNew h hn

theorem wf_set {c : Cfg} {m : Mem} (h : WF m) (now : Int) (k : Key) (v : Val) (o : SetOpt) :
    WF (m.set c now k v o).1 := wf_setCore (wf_preSet h now k) now k v o

theorem wf_get {m : Mem} (h : WF m) (now : Int) (k : Key) (o : GetOpt) : WF (m.get now k o).1 := by
  unfold Mem.get
  split
  · exact h
  · split
    · exact wf_removeKey h k
    · split
      · exact wf_removeKey h k
      · exact wf_touch h _

theorem wf_step {c : Cfg} {m : Mem} (h : WF m) (now : Int) (op : Op) : WF (m.step c now op).1 := by
  cases op with
  | set k v o => exact wf_set h now k v o
  | get k o => exact wf_get h now k o
  | remove k => exact wf_removeKey h k
  | clear => exact wf_clear m
  | tick _ => exact h

/-! ### the size bound (index written before the eviction) -/

def Bounded (m : Mem) : Prop := m.ghost = [] ∧ m.live.length ≤ m.size

theorem bounded_new (size : Nat) (dttl : Int) : Bounded (Mem.new size dttl) := by simp [Bounded, Mem.new]

theorem bounded_removeKey {m : Mem} (h : Bounded m) (k : Key) : Bounded (m.removeKey k) := by
  obtain ⟨h1, h2⟩ := h
  refine ⟨by simp [Mem.removeKey, h1, eraseKey], ?_⟩
  have := eraseKey_length_le k m.live
  simp only [Mem.removeKey]; omega

theorem bounded_touch {m : Mem} (h : Bounded m) {n x : Node} (hx : m.lookup n.key = some x) : Bounded (m.touch n) := by
  obtain ⟨h1, h2⟩ := h
  have hl : findKey n.key m.live = some x := by
    simp only [Mem.lookup, h1, findKey] at hx
    split at hx
    · rename_i y hy; rw [hy, hx]
    · cases hx
  unfold Mem.touch
  rw [hl]
  refine ⟨h1, ?_⟩
  have := eraseKey_length_lt hl
  simp only [List.length_cons]; omega

theorem bounded_insertNew {c : Cfg} (hc : c.indexOrder = .beforeEvict) {m : Mem} (h : Bounded m) (n : Node) :
    Bounded (m.insertNew c n) := by
  obtain ⟨h1, h2⟩ := h
  rcases insertNew_cases c m n with ⟨_, e⟩ | ⟨_, hne, _⟩ | ⟨hle, e⟩
  · rw [e]; refine ⟨h1, ?_⟩
    simp only [List.length_dropLast, List.length_cons]; omega
  · exact absurd hc hne
  · rw [e]; exact ⟨h1, by simpa using hle⟩

theorem size_removeKey (m : Mem) (k : Key) : (m.removeKey k).size = m.size := rfl
theorem size_touch (m : Mem) (n : Node) : (m.touch n).size = m.size := by unfold Mem.touch; split <;> rfl
theorem size_insertNew (c : Cfg) (m : Mem) (n : Node) : (m.insertNew c n).size = m.size := by
  rcases insertNew_cases c m n with ⟨_, e⟩ | ⟨_, _, e⟩ | ⟨_, e⟩ <;> rw [e]
theorem size_purge (m : Mem) (now : Int) (k : Key) : (m.purgeIfExpired now k).size = m.size := by
  unfold Mem.purgeIfExpired; split
  · split <;> rfl
  · rfl

theorem dttl_purge (m : Mem) (now : Int) (k : Key) : (m.purgeIfExpired now k).dttl = m.dttl := by
  unfold Mem.purgeIfExpired; split
  · split <;> rfl
  · rfl
theorem size_preSet (c : Cfg) (m : Mem) (now : Int) (k : Key) : (m.preSet c now k).size = m.size := by
  unfold Mem.preSet; split
  · exact size_purge m now k
  · rfl
theorem dttl_preSet (c : Cfg) (m : Mem) (now : Int) (k : Key) : (m.preSet c now k).dttl = m.dttl := by
  unfold Mem.preSet; split
  · exact dttl_purge m now k
  · rfl

theorem bounded_purge {m : Mem} (h : Bounded m) (now : Int) (k : Key) : Bounded (m.purgeIfExpired now k) := by
  unfold Mem.purgeIfExpired
  split
  · split
    · exact bounded_removeKey h k
    · exact h
  · exact h

theorem bounded_preSet {c : Cfg} {m : Mem} (h : Bounded m) (now : Int) (k : Key) : Bounded (m.preSet c now k) := by
  unfold Mem.preSet
  split
  · exact bounded_purge h now k
  · exact h

theorem bounded_setCore {c : Cfg} (hc : c.indexOrder = .beforeEvict) {m : Mem} (h : Bounded m) (now : Int) (k : Key)
    (v : Val) (o : SetOpt) : Bounded (m.setCore c now k v o).1 := by
  unfold Mem.setCore
  split
  · rename_i x hx
    split
    · exact h
    · exact bounded_touch (n := { x with val := v, dl := if o.keepTTL then x.dl else deadline now (setTtl m o) }) h
        (by simpa [lookup_key hx] using hx)
  · exact bounded_insertNew hc h _

theorem bounded_set {c : Cfg} (hc : c.indexOrder = .beforeEvict) {m : Mem} (h : Bounded m) (now : Int) (k : Key)
    (v : Val) (o : SetOpt) : Bounded (m.set c now k v o).1 := bounded_setCore hc (bounded_preSet h now k) now k v o

theorem bounded_get {m : Mem} (h : Bounded m) (now : Int) (k : Key) (o : GetOpt) : Bounded (m.get now k o).1 := by
  unfold Mem.get
  split
  · exact h
  · rename_i x hx
    have hk := lookup_key hx
    split
    · exact bounded_removeKey h k
    · split
      · exact bounded_removeKey h k
      · apply bounded_touch h (x := x)
        split <;> simpa [hk] using hx

theorem bounded_step {c : Cfg} (hc : c.indexOrder = .beforeEvict) {m : Mem} (h : Bounded m) (now : Int) (op : Op) :
    Bounded (m.step c now op).1 := by
  cases op with
  | set k v o => exact bounded_set hc h now k v o
  | get k o => exact bounded_get h now k o
  | remove k => exact bounded_removeKey h k
  | clear => exact ⟨rfl, Nat.zero_le _⟩
  | tick _ => exact h

end Nv.C05
