import Nv.Proofs.C03Ref11

/-! C03 refinement, part 12: programs of clones and writes over any number of handles sharing one store and one free
list of ANY capacity. The invariant `World.WR`: every handle denotes a well-formed tree; the cells it reaches exist,
are not parked, and carry no OTHER handle's tag; parked cells hold nothing. A write that satisfies `WriteOK` (what the
refinement theorems give) keeps it, and leaves every other handle's tree as it was. -/

namespace Nv.C03.Cow
open Nv.C03

structure World.WR (w : World) : Prop where
  good : w.Good
  wf : WFree w.H
  distinct : ∀ (i j : Nat) (a b : HTree), w.hs[i]? = some a → w.hs[j]? = some b → i ≠ j → a.cow ≠ b.cow
  trees : ∀ (j : Nat) (u : HTree), w.hs[j]? = some u → ∃ h, TreeWF u w.H h
  own : ∀ (j : Nat) (u : HTree), w.hs[j]? = some u → ∀ r, u.root = some r → ∀ id, Reach w.H r id →
    id < w.H.size ∧ id ∉ w.H.free ∧ ∀ cc, w.H.tag id = some cc → IsCur w cc → cc = u.cow

/-- a root of another handle is separated from the writer's tag -/
theorem World.WR.sep {w : World} (h : w.WR) {i j : Nat} {t u : HTree} (hi : w.hs[i]? = some t) (hj : w.hs[j]? = some u)
    (hij : j ≠ i) {r : Nat} (hr : u.root = some r) : Sep w.H t.cow r := by
  intro id hid
  obtain ⟨h1, h2, h3⟩ := h.own j u hj r hr id hid
  refine ⟨h1, ?_, h2⟩
  intro htag
  have := h3 t.cow htag ⟨i, t, hi, rfl⟩
  exact h.distinct i j t u hi hj (fun e => hij e.symm) this

/-- what a write has to deliver about the writer's own tree (the refinement theorems deliver it) -/
def WriteOK (t : HTree) (H : Heap) (h : Nat) (op : WOp) : Prop :=
  ∃ h', TreeWF ((applyW t op) H).1.1 ((applyW t op) H).2 h' ∧
    ∀ r', ((applyW t op) H).1.1.root = some r' →
      ∀ y, InSub ((applyW t op) H).2 h' r' y → (∃ r, t.root = some r ∧ InSub H h r y) ∨ H.get y = HNode.empty

theorem writeOK_insert (t : HTree) (H : Heap) (h : Nat) (w : TreeWF t H h) (x : Item) : WriteOK t H h (.insert x) := by
  obtain ⟨h', _, _, c, _, _, _, g⟩ := replaceOrInsertB_refines t H x h w
  exact ⟨h', c, fun r' hr' => (g r' hr').2⟩

theorem writeOK_clear (t : HTree) (H : Heap) (h : Nat) (w : TreeWF t H h) (add : Bool) : WriteOK t H h (.clear add) := by
  have hres : ((applyW t (.clear add)) H).1.1 = { t with root := none, length := 0 } := clearB_result t add H
  refine ⟨0, ⟨?_, ?_, PW.clearB t add H w.wf⟩, ?_⟩
  · rw [hres]
    have := w.degree
    simp [HTree.absAt, Tree.ok, this]
  · intro r hr; rw [hres] at hr; cases hr
  · intro r hr; rw [hres] at hr; cases hr

/-- **one write**: the world invariant is kept, and every other handle reads the same tree at every depth -/
theorem World.WR.write {w : World} (h : w.WR) (i : Nat) (op : WOp) (t : HTree) (hi : w.hs[i]? = some t)
    (hh : Nat) (hok : WriteOK t w.H hh op) :
    (w.step (.write i op)).WR ∧
    ∀ (j : Nat) (u : HTree) (r : Nat), j ≠ i → w.hs[j]? = some u → u.root = some r → ∀ fuel,
      absNode (w.step (.write i op)).H fuel r = absNode w.H fuel r ∧
      heightB (w.step (.write i op)).H fuel r = heightB w.H fuel r := by
  have hstep : w.step (.write i op) =
      { w with H := ((applyW t op) w.H).2, hs := w.hs.set i ((applyW t op) w.H).1.1 } := by
    simp only [World.step, hi]
  have hgood := World.good_step w (.write i op) h.good
  rw [hstep] at hgood ⊢
  obtain ⟨h', hT, hR⟩ := hok
  have P := Pres.applyW (H0 := w.H) t op rfl w.H (Inv.init w.H t.cow)
  have hcow : ((applyW t op) w.H).1.1.cow = t.cow := P.2
  have hother : ∀ (j : Nat) (u : HTree) (r : Nat), j ≠ i → w.hs[j]? = some u → u.root = some r →
      (∀ id, Reach w.H r id → ((applyW t op) w.H).2.get id = w.H.get id) := by
    intro j u r hji hj hr id hid
    have hs := h.sep hi hj hji hr id hid
    exact frame_write t op w.H id hs.1 hs.2.1 hs.2.2
  have hcur : ∀ cc, IsCur { w with H := ((applyW t op) w.H).2, hs := w.hs.set i ((applyW t op) w.H).1.1 } cc →
      IsCur w cc := by
    rintro cc ⟨j, u, hj, hu⟩
    rcases get_set_cases hj with ⟨rfl, rfl, _⟩ | ⟨_, hj'⟩
    · exact ⟨j, t, hi, by rw [← hu, hcow]⟩
    · exact ⟨j, u, hj', hu⟩
  refine ⟨⟨hgood, hT.wf, ?_, ?_, ?_⟩, fun j u r hji hj hr fuel => read_agree w.H _ fuel r (hother j u r hji hj hr)⟩
  · -- distinct tags
    intro a b x y ha hb hab
    rcases get_set_cases ha with ⟨rfl, rfl, _⟩ | ⟨hai, ha'⟩
    · rcases get_set_cases hb with ⟨rfl, _, _⟩ | ⟨_, hb'⟩
      · exact absurd rfl hab
      · rw [hcow]; exact h.distinct a b t y hi hb' hab
    · rcases get_set_cases hb with ⟨rfl, rfl, _⟩ | ⟨_, hb'⟩
      · rw [hcow]; exact h.distinct a b x t ha' hi hab
      · exact h.distinct a b x y ha' hb' hab
  · -- every handle denotes a well-formed tree
    intro j u hj
    rcases get_set_cases hj with ⟨rfl, rfl, _⟩ | ⟨hji, hj'⟩
    · exact ⟨h', hT⟩
    · obtain ⟨hu, wu⟩ := h.trees j u hj'
      refine ⟨hu, ⟨?_, ?_, hT.wf⟩⟩
      · have : u.absAt ((applyW t op) w.H).2 hu = u.absAt w.H hu := by
          unfold HTree.absAt
          cases hr : u.root with
          | none => rfl
          | some r => simp only [Option.map]; rw [(read_agree w.H _ hu r (hother j u r hji hj' hr)).1]
        rw [this]; exact wu.ok
      · intro r hr
        rw [(read_agree w.H _ hu r (hother j u r hji hj' hr)).1]
        exact ⟨(wu.height r hr).1, Nat.lt_of_lt_of_le (wu.height r hr).2.1 P.1.size,
          ((write_isolated t op w.H r (h.sep hi hj' hji hr)).2 r (Reach.refl r)).2.2⟩
  · -- every handle's reachable cells
    intro j u hj r hr id hid
    rcases get_set_cases hj with ⟨rfl, rfl, _⟩ | ⟨hji, hj'⟩
    · -- the writer
      have hrw := hT.rootWF hr
      have hmn : 1 ≤ ((applyW t op) w.H).1.1.degree - 1 := by have := hT.degree; omega
      have hin := reach_inSub _ _ _ h' r id hrw.kids hid
      have hsubs := hR r hr
      have hidne : id ≠ r → ((applyW t op) w.H).2.get id ≠ HNode.empty := by
        intro e
        have := (sub_items _ _ _ h' r id hrw.kids hin e).1
        intro e2; rw [e2] at this; simp [HNode.empty] at this; omega
      refine ⟨?_, ?_, ?_⟩
      · by_cases e : id = r
        · rw [e]; exact (hT.height r hr).2.1
        · by_cases hl : id < ((applyW t op) w.H).2.size
          · exact hl
          · exact absurd (get_ge _ _ (by simpa [Heap.size] using hl)) (hidne e)
      · by_cases e : id = r
        · rw [e]; exact (hT.height r hr).2.2
        · intro hm; exact hidne e (hT.wf.2 id hm).2
      · intro cc htag hc
        rw [hcow]
        rcases P.1.tagF id cc htag with h0 | h0
        · rcases hsubs id hin with ⟨r0, hr0, hin0⟩ | e
          · exact (h.own j t hi r0 hr0 id (inSub_reach _ _ _ _ hin0)).2.2 cc h0 (hcur cc hc)
          · simp only [Heap.tag] at h0; rw [e] at h0; simp [HNode.empty] at h0
        · exact h0
    · -- another handle: nothing it reaches was touched
      have hag := hother j u r hji hj' hr
      have hold := reach_agree w.H _ r hag id hid
      obtain ⟨h1, _, h3⟩ := h.own j u hj' r hr id hold
      have hsep' := (write_isolated t op w.H r (h.sep hi hj' hji hr)).2 id hid
      refine ⟨hsep'.1, hsep'.2.2, ?_⟩
      intro cc htag hc
      have : w.H.tag id = some cc := by
        have := hag id hold
        simp only [Heap.tag] at htag ⊢
        rw [← this]; exact htag
      exact h3 cc this (hcur cc hc)

theorem World.WR.clone {w : World} (h : w.WR) (i : Nat) : (w.step (.clone i)).WR := by
  have hgood := World.good_step w (.clone i) h.good
  cases hi : w.hs[i]? with
  | none =>
    have : w.step (.clone i) = w := by simp only [World.step, hi]
    rw [this]; exact h
  | some t =>
    have hstep : w.step (.clone i) =
        { w with hs := (w.hs.set i (cloneB t w.next (w.next + 1)).1) ++ [(cloneB t w.next (w.next + 1)).2],
                 next := w.next + 2 } := by simp only [World.step, hi]
    rw [hstep] at hgood ⊢
    have hil : i < w.hs.length := by
      rcases Nat.lt_or_ge i w.hs.length with hl | hl
      · exact hl
      · rw [List.getElem?_eq_none hl] at hi; cases hi
    have hsrc : ∀ (j : Nat) (u : HTree),
        ((w.hs.set i (cloneB t w.next (w.next + 1)).1) ++ [(cloneB t w.next (w.next + 1)).2])[j]? = some u →
        (j ≠ i ∧ w.hs[j]? = some u) ∨
        (u.root = t.root ∧ u.degree = t.degree ∧ u.length = t.length ∧ (u.cow = w.next ∨ u.cow = w.next + 1) ∧
          (j = i ∨ j = w.hs.length)) := by
      intro j u hj
      rcases get_snoc_cases hj with ⟨_, hj'⟩ | ⟨hjl, rfl⟩
      · rcases get_set_cases hj' with ⟨rfl, rfl, _⟩ | ⟨hji, hj''⟩
        · right; exact ⟨rfl, rfl, rfl, Or.inl rfl, Or.inl rfl⟩
        · left; exact ⟨hji, hj''⟩
      · right; exact ⟨rfl, rfl, rfl, Or.inr rfl, Or.inr (by simpa using hjl)⟩
    have hlt : ∀ (j : Nat) (u : HTree), w.hs[j]? = some u → u.cow < w.next :=
      fun j u hj => h.good.2 u (List.mem_of_getElem? hj)
    refine ⟨hgood, h.wf, ?_, ?_, ?_⟩
    · -- distinct tags
      intro a b x y ha hb hab
      rcases hsrc a x ha with ⟨hai, ha'⟩ | ⟨_, _, _, hxc, hap⟩
      · rcases hsrc b y hb with ⟨hbi, hb'⟩ | ⟨_, _, _, hyc, _⟩
        · exact h.distinct a b x y ha' hb' hab
        · have := hlt a x ha'; rcases hyc with e | e <;> omega
      · rcases hsrc b y hb with ⟨hbi, hb'⟩ | ⟨_, _, _, hyc, hbp⟩
        · have := hlt b y hb'; rcases hxc with e | e <;> omega
        · rcases get_snoc_cases ha with ⟨hal, ha'⟩ | ⟨hae, rfl⟩
          · rcases get_snoc_cases hb with ⟨hbl, hb'⟩ | ⟨hbe, rfl⟩
            · simp only [List.length_set] at hal hbl
              rcases hap with rfl | e
              · rcases hbp with rfl | e
                · exact absurd rfl hab
                · omega
              · omega
            · rcases get_set_cases ha' with ⟨_, rfl, _⟩ | ⟨hne, _⟩
              · simp [cloneB]
              · rcases hap with e | e
                · exact absurd e hne
                · omega
          · rcases get_snoc_cases hb with ⟨hbl, hb'⟩ | ⟨hbe, rfl⟩
            · rcases get_set_cases hb' with ⟨_, rfl, _⟩ | ⟨hne, _⟩
              · simp [cloneB]
              · rcases hbp with e | e
                · exact absurd e hne
                · omega
            · omega
    · -- trees: a handle denotes what its source denotes (the tag plays no role)
      intro j u hj
      rcases hsrc j u hj with ⟨_, hj'⟩ | ⟨hur, hud, hul, _, _⟩
      · exact h.trees j u hj'
      · obtain ⟨ht, wt⟩ := h.trees i t hi
        refine ⟨ht, ⟨?_, ?_, wt.wf⟩⟩
        · have : u.absAt w.H ht = t.absAt w.H ht := by unfold HTree.absAt; rw [hur, hud, hul]
          rw [this]; exact wt.ok
        · intro r hr; exact wt.height r (hur ▸ hr)
    · -- reachable cells
      intro j u hj r hr id hid
      have hcurOld : ∀ cc, w.H.tag id = some cc →
          IsCur { w with hs := (w.hs.set i (cloneB t w.next (w.next + 1)).1) ++ [(cloneB t w.next (w.next + 1)).2],
                         next := w.next + 2 } cc →
          ∃ (k : Nat) (v : HTree), k ≠ i ∧ w.hs[k]? = some v ∧ v.cow = cc := by
        rintro cc htag ⟨k, v, hk, hv⟩
        have hb := h.good.1 id cc htag
        rcases hsrc k v hk with ⟨hki, hk'⟩ | ⟨_, _, _, hvc, _⟩
        · exact ⟨k, v, hki, hk', hv⟩
        · rcases hvc with e | e <;> omega
      rcases hsrc j u hj with ⟨hji, hj'⟩ | ⟨hur, _, _, _, _⟩
      · obtain ⟨h1, h2, h3⟩ := h.own j u hj' r hr id hid
        refine ⟨h1, h2, fun cc htag hc => ?_⟩
        obtain ⟨k, v, _, hk, hv⟩ := hcurOld cc htag hc
        exact h3 cc htag ⟨k, v, hk, hv⟩
      · obtain ⟨h1, h2, h3⟩ := h.own i t hi r (hur ▸ hr) id hid
        refine ⟨h1, h2, fun cc htag hc => ?_⟩
        obtain ⟨k, v, hki, hk, hv⟩ := hcurOld cc htag hc
        have := h3 cc htag ⟨k, v, hk, hv⟩
        exact absurd (hv.trans this) (h.distinct k i v t hk hi hki)

theorem World.WR.init (degree cap : Nat) (hd : 2 ≤ degree) : (World.init degree cap).WR := by
  refine ⟨(World.good_run degree cap []), ⟨by simp [World.init, Heap.init], by simp [World.init, Heap.init]⟩, ?_, ?_, ?_⟩
  · intro i j a b ha hb hab
    have hi0 : i = 0 := by
      cases i with
      | zero => rfl
      | succ k => simp [World.init] at ha
    have hj0 : j = 0 := by
      cases j with
      | zero => rfl
      | succ k => simp [World.init] at hb
    omega
  · intro j u hj
    cases j with
    | zero =>
      simp [World.init] at hj; subst hj
      refine ⟨0, ⟨by simp [HTree.absAt, Tree.ok, hd], (fun r hr => by cases hr),
        ⟨List.nodup_nil, fun id hid => by simp [World.init, Heap.init] at hid⟩⟩⟩
    | succ k => simp [World.init] at hj
  · intro j u hj r hr
    cases j with
    | zero => simp [World.init] at hj; subst hj; simp at hr
    | succ k => simp [World.init] at hj

/-- the write operations whose store → value refinement is proved -/
def WOp.refined : WOp → Prop
  | .insert _ => True
  | .clear _ => True
  | .remove _ => False

def POp.refined : POp → Prop
  | .write _ op => op.refined
  | .clone _ => True

theorem writeOK_refined (t : HTree) (H : Heap) (h : Nat) (w : TreeWF t H h) (op : WOp) (hop : op.refined) :
    WriteOK t H h op := by
  cases op with
  | insert x => exact writeOK_insert t H h w x
  | clear add => exact writeOK_clear t H h w add
  | remove typ => exact hop.elim

theorem World.WR.step_refined {w : World} (h : w.WR) (op : POp) (hop : op.refined) : (w.step op).WR := by
  cases op with
  | write i wop =>
    cases hi : w.hs[i]? with
    | none =>
      have : w.step (.write i wop) = w := by simp only [World.step, hi]
      rw [this]; exact h
    | some t =>
      obtain ⟨hh, wt⟩ := h.trees i t hi
      exact (h.write i wop t hi hh (writeOK_refined t w.H hh wt wop hop)).1
  | clone i => exact h.clone i

theorem World.WR.run_refined (degree cap : Nat) (hd : 2 ≤ degree) (ops : List POp) (hops : ∀ op ∈ ops, op.refined) :
    (ops.foldl World.step (World.init degree cap)).WR := by
  have gen : ∀ (ops : List POp) (w : World), (∀ op ∈ ops, op.refined) → w.WR → (ops.foldl World.step w).WR := by
    intro ops
    induction ops with
    | nil => intro w _ h; exact h
    | cons op ops ih =>
      intro w hops h
      exact ih _ (fun o ho => hops o (List.mem_cons_of_mem _ ho)) (h.step_refined op (hops op List.mem_cons_self))
  exact gen ops _ hops (World.WR.init degree cap hd)

end Nv.C03.Cow
