import Nv.Proofs.C04
/-!
C04 — one step of the implementation-shaped model simulates one step of the ideal LRU
(and keeps the invariant), for every operation inside the property's quantifier.
-/
namespace Nv.C04

theorem inv_touch {kd : Kind} {s : Lru} (hi : Inv kd s) {k : Nat} {e : Entry} (hf : find? k s.list = some e) :
    Inv kd { s with list := e :: removeKey e.key s.list } := by
  have ⟨hm, hk⟩ := find_some hf
  subst hk
  have ht := total_removeKey hf
  refine ⟨?_, ?_, ?_, hi.cap_nonneg, ?_, ?_, hi.cap_lt⟩
  · simp [hi.size_eq, ht]; omega
  · intro x hx; simp at hx
    rcases hx with rfl | hx
    · exact hi.nonneg _ hm
    · exact hi.nonneg _ (mem_removeKey hx)
  · have := hi.fits; simp [ht]; omega
  · intro hk x hx; simp at hx
    rcases hx with rfl | hx
    · exact hi.unit hk _ hm
    · exact hi.unit hk _ (mem_removeKey hx)
  · simp only [List.map_cons, List.nodup_cons]
    exact ⟨key_not_mem_removeKey _ _ hi.nodup, nodup_removeKey _ _ hi.nodup⟩

theorem addNew_sim {c : Cfg} {kd : Kind} {s : Lru} (hc : c.evictWhile = .gt) (hi : Inv kd s)
    (k v : Nat) (sz : Int) (hsz : 0 ≤ sz) (hsz2 : sz < 2 ^ 62) (hf : find? k s.list = none) :
    Inv kd (addNew c kd s k v sz).1 ∧ abs (addNew c kd s k v sz).1 = ((abs s).insert kd k v sz).1 ∧
      (addNew c kd s k v sz).2.1 = ((abs s).insert kd k v sz).2.map (·.val) ∧ (addNew c kd s k v sz).2.2 = false := by
  have h0 := szOf_nonneg kd sz hsz
  have h1 := szOf_lt kd sz hsz2
  have ht0 := total_nonneg s.list hi.nonneg
  have hfit := hi.fits
  have hcl := hi.cap_lt
  have hw : wrap64 (s.size + szOf kd sz) = szOf kd sz + total s.list := by
    rw [hi.size_eq, wrap64_id _ (by omega) (by omega)]; omega
  have hp : Pre kd { s with list := ⟨k, v, szOf kd sz⟩ :: s.list, size := wrap64 (s.size + szOf kd sz) } :=
    pre_push hi k v (szOf kd sz) h0 (by intro h; subst h; rfl) s.list (fun _ h => h)
      (key_not_mem_of_none hf) hi.nodup _ hw (by omega)
  have := checkCapacity_inv hc hp
  simpa [addNew, Ideal.insert, abs, removeKey_of_none hf] using this

theorem update_sim {c : Cfg} {kd : Kind} {s : Lru} (hc : Proved kd c) (hi : Inv kd s)
    (k v : Nat) (sz : Int) (hsz : 0 ≤ sz) (hsz2 : sz < 2 ^ 62) {old : Entry} (hf : find? k s.list = some old) :
    Inv kd (updateInPlace c kd s old v sz).1 ∧
      abs (updateInPlace c kd s old v sz).1 = ((abs s).insert kd k v sz).1 ∧
      (updateInPlace c kd s old v sz).2.1 = ((abs s).insert kd k v sz).2.map (·.val) ∧
      (updateInPlace c kd s old v sz).2.2 = false := by
  obtain ⟨hgt, -, -, -, hupd⟩ := hc
  have ⟨hm, hk⟩ := find_some hf
  subst hk
  have ht := total_removeKey hf
  cases kd with
  | sized =>
    have ho0 := hi.nonneg _ hm
    have hr0 := total_nonneg (removeKey old.key s.list) (fun x hx => hi.nonneg x (mem_removeKey hx))
    have hfit := hi.fits
    have hcl := hi.cap_lt
    have hw : wrap64 (s.size + wrap64 (sz - old.size)) = sz + total (removeKey old.key s.list) := by
      rw [wrap64_id (sz - old.size) (by omega) (by omega), hi.size_eq, wrap64_id _ (by omega) (by omega)]; omega
    have hp : Pre .sized { s with list := ⟨old.key, v, sz⟩ :: removeKey old.key s.list, size := wrap64 (s.size + wrap64 (sz - old.size)) } :=
      pre_push hi old.key v sz hsz (by intro h; cases h) _ (fun _ h => mem_removeKey h)
        (key_not_mem_removeKey _ _ hi.nodup) (nodup_removeKey _ _ hi.nodup) _ hw (by omega)
    have := checkCapacity_inv hgt hp
    simpa [updateInPlace, hupd rfl, Ideal.insert, abs, szOf] using this
  | tiny =>
    have h1 : old.size = 1 := hi.unit rfl _ hm
    have hi1 : Inv .tiny { s with list := ⟨old.key, v, 1⟩ :: removeKey old.key s.list } := by
      refine ⟨?_, ?_, ?_, hi.cap_nonneg, ?_, ?_, hi.cap_lt⟩
      · simp [hi.size_eq, ht, h1]; omega
      · intro x hx; simp at hx
        rcases hx with rfl | hx
        · simp
        · exact hi.nonneg _ (mem_removeKey hx)
      · have := hi.fits; simp [ht, h1]; omega
      · intro _ x hx; simp at hx
        rcases hx with rfl | hx
        · rfl
        · exact hi.unit rfl _ (mem_removeKey hx)
      · simp only [List.map_cons, List.nodup_cons]
        exact ⟨key_not_mem_removeKey _ _ hi.nodup, nodup_removeKey _ _ hi.nodup⟩
    have hfit : Ideal.fit { abs s with entries := ⟨old.key, v, 1⟩ :: removeKey old.key s.list } =
        ({ abs s with entries := ⟨old.key, v, 1⟩ :: removeKey old.key s.list }, []) :=
      fit_noop (by simpa [abs] using hi1.fits)
    have hres : updateInPlace c .tiny s old v sz =
        ({ s with list := ⟨old.key, v, 1⟩ :: removeKey old.key s.list }, [], false) := by
      by_cases hu : c.updateChecks = true
      · have hn := checkCapacity_noop (c := c) hgt hi1
        simp only [updateInPlace, hu, if_true, hn]
      · simp only [updateInPlace, hu]; rfl
    rw [hres]
    refine ⟨hi1, ?_, ?_, rfl⟩
    · simp only [Ideal.insert, szOf]; rw [show (abs s).entries = s.list from rfl, hfit]; rfl
    · simp only [Ideal.insert, szOf]; rw [show (abs s).entries = s.list from rfl, hfit]; rfl

/-- set-like operations: look the key up, update in place or add -/
theorem insert_sim {c : Cfg} {kd : Kind} {s : Lru} (hc : Proved kd c) (hi : Inv kd s) (k v : Nat) (sz : Int) (hsz : 0 ≤ sz)
    (hsz2 : sz < 2 ^ 62) :
    let r := upsert c kd s k v sz
    Inv kd r.1 ∧ abs r.1 = ((abs s).insert kd k v sz).1 ∧ r.2.1 = ((abs s).insert kd k v sz).2.map (·.val) ∧ r.2.2 = false := by
  simp only [upsert]
  cases hf : find? k s.list with
  | some old => exact update_sim hc hi k v sz hsz hsz2 hf
  | none => exact addNew_sim hc.1 hi k v sz hsz hsz2 hf

theorem step_sim {c : Cfg} {kd : Kind} (hc : Proved kd c) (s : Lru) (op : Op) (hi : Inv kd s) (hok : op.sizeOk = true) :
    Inv kd (step c kd s op).1 ∧ abs (step c kd s op).1 = (specStep kd (abs s) op).1 ∧
      (step c kd s op).2 = (specStep kd (abs s) op).2 := by
  have hc' := hc
  obtain ⟨hgt, hget, hpeek, hsia, -⟩ := hc'
  cases op with
  | set k v sz =>
    have hb : 0 ≤ sz ∧ sz < 2 ^ 62 := by simpa [Op.sizeOk] using hok
    have h := insert_sim hc hi k v sz hb.1 hb.2
    simp only [] at h
    simp only [step, specStep]
    refine ⟨h.1, h.2.1, ?_⟩
    rw [h.2.2.2]; rfl
  | setGetRemoved k v sz =>
    have hb : 0 ≤ sz ∧ sz < 2 ^ 62 := by simpa [Op.sizeOk] using hok
    have h := insert_sim hc hi k v sz hb.1 hb.2
    simp only [] at h
    simp only [step, specStep]
    refine ⟨h.1, h.2.1, ?_⟩
    rw [h.2.2.2, h.2.2.1]; rfl
  | setIfAbsent k v sz =>
    simp only [step, specStep, show (abs s).entries = s.list from rfl]
    cases hf : find? k s.list with
    | some old =>
      simp only [hsia, if_true]
      exact ⟨inv_touch hi hf, by first | rfl | trivial, by first | rfl | trivial⟩
    | none =>
      have hb : 0 ≤ sz ∧ sz < 2 ^ 62 := by simpa [Op.sizeOk] using hok
      have h := addNew_sim hgt hi k v sz hb.1 hb.2 hf
      refine ⟨h.1, h.2.1, ?_⟩
      rw [h.2.2.2]; rfl
  | get k =>
    simp only [step, specStep, show (abs s).entries = s.list from rfl]
    cases hf : find? k s.list with
    | some e => simp only [hget, if_true]; exact ⟨inv_touch hi hf, by first | rfl | trivial, by first | rfl | trivial⟩
    | none => exact ⟨hi, by first | rfl | trivial, by first | rfl | trivial⟩
  | peek k =>
    simp only [step, specStep, show (abs s).entries = s.list from rfl]
    cases hf : find? k s.list with
    | some e => simp only [hpeek]; exact ⟨hi, by first | rfl | trivial, by first | rfl | trivial⟩
    | none => exact ⟨hi, by first | rfl | trivial, by first | rfl | trivial⟩
  | exist k => exact ⟨hi, by first | rfl | trivial, by first | rfl | trivial⟩
  | delete k =>
    simp only [step, specStep, show (abs s).entries = s.list from rfl]
    cases hf : find? k s.list with
    | some e =>
      have ⟨hm, hk⟩ := find_some hf
      have ht := total_removeKey hf
      have hd := dec_eq hi.unit e hm
      have hn := hi.nonneg e hm
      have hr0 := total_nonneg (removeKey k s.list) (fun x hx => hi.nonneg x (mem_removeKey hx))
      have hfit := hi.fits
      have hcl := hi.cap_lt
      refine ⟨⟨?_, ?_, ?_, hi.cap_nonneg, ?_, nodup_removeKey _ _ hi.nodup, hi.cap_lt⟩, rfl, rfl⟩
      · show wrap64 (s.size - decOf kd e) = total (removeKey k s.list)
        rw [hi.size_eq, hd, wrap64_id _ (by omega) (by omega), ht]
      · intro x hx; exact hi.nonneg _ (mem_removeKey hx)
      · have := hi.fits; simp [ht]; omega
      · intro h x hx; exact hi.unit h _ (mem_removeKey hx)
    | none =>
      refine ⟨hi, ?_, rfl⟩
      simp [abs, removeKey_of_none hf]
  | clear =>
    refine ⟨⟨rfl, by simp [step], by simpa [step] using hi.cap_nonneg, hi.cap_nonneg, by simp [step], by simp [step], hi.cap_lt⟩, rfl, rfl⟩
  | setCapacity cap =>
    have hb : 0 ≤ cap ∧ cap < 2 ^ 62 := by simpa [Op.sizeOk] using hok
    have hp : Pre kd { s with capacity := cap } :=
      ⟨hi.size_eq, hi.nonneg, hb.1, hi.unit, hi.nodup, hb.2, by have := hi.fits; have := hi.cap_lt; show total s.list < 2 ^ 63; omega⟩
    have h := checkCapacity_inv hgt hp
    simp only [step, specStep]
    refine ⟨h.1, h.2.1, ?_⟩
    rw [h.2.2.2]; rfl
  | setF k => exact ⟨hi, rfl, rfl⟩
  | setGetRemovedF k => exact ⟨hi, rfl, rfl⟩
  | setIfAbsentF k =>
    simp only [step, specStep, show (abs s).entries = s.list from rfl]
    cases hf : find? k s.list with
    | some old =>
      simp only [hsia, if_true]
      exact ⟨inv_touch hi hf, by first | rfl | trivial, by first | rfl | trivial⟩
    | none => exact ⟨hi, by first | rfl | trivial, by first | rfl | trivial⟩
  | keys => exact ⟨hi, by first | rfl | trivial, by first | rfl | trivial⟩
  | items => exact ⟨hi, by first | rfl | trivial, by first | rfl | trivial⟩
  | stats => exact ⟨hi, rfl, by simp [step, specStep, abs, hi.size_eq]⟩

theorem inv_new (kd : Kind) (cap : Int) (h : 0 ≤ cap) (h2 : cap < 2 ^ 62) : Inv kd (Lru.new cap) :=
  ⟨rfl, by simp [Lru.new], by simpa [Lru.new] using h, h, by simp [Lru.new], by simp [Lru.new], h2⟩

end Nv.C04
