import Nv.Proofs.C03Cow7
/-! C03, layer B — `Clone` keeps the world invariant; every world reached from the empty tree (free list of capacity 0)
satisfies it; the isolation theorem for arbitrary programs. -/
namespace Nv.C03.Cow
open Nv.C03

theorem get_snoc_cases {α} {l : List α} {b u : α} {j : Nat} (h : (l ++ [b])[j]? = some u) :
    (j < l.length ∧ l[j]? = some u) ∨ (j = l.length ∧ u = b) := by
  by_cases hj : j < l.length
  · left; rw [List.getElem?_append_left hj] at h; exact ⟨hj, h⟩
  · right
    rw [List.getElem?_append_right (Nat.le_of_not_lt hj)] at h
    by_cases he : j = l.length
    · subst he; simp at h; exact ⟨rfl, h.symm⟩
    · have : j - l.length ≠ 0 := by omega
      cases hk : j - l.length with
      | zero => exact absurd hk this
      | succ k => rw [hk] at h; simp at h

theorem World.WI.clone {w : World} (h : w.WI) (i : Nat) : (w.step (.clone i)).WI := by
  have hgood := World.good_step w (.clone i) h.good
  cases hi : w.hs[i]? with
  | none =>
    have : w.step (.clone i) = w := by simp only [World.step, hi]
    rw [this]; exact h
  | some t =>
    have hstep : w.step (.clone i) =
        { w with hs := (w.hs.set i (cloneB t w.next (w.next + 1)).1) ++ [(cloneB t w.next (w.next + 1)).2],
                 next := w.next + 2 } := by simp only [World.step, hi]
    rw [hstep] at hgood ⊢
    have hil : i < w.hs.length := by
      rcases Nat.lt_or_ge i w.hs.length with hl | hl
      · exact hl
      · rw [List.getElem?_eq_none hl] at hi; cases hi
    -- every handle of the new world comes from an old one with the same root; its tag is old (and then the index
    -- differs from `i`) or one of the two fresh tags
    have hsrc : ∀ (j : Nat) (u : HTree),
        ((w.hs.set i (cloneB t w.next (w.next + 1)).1) ++ [(cloneB t w.next (w.next + 1)).2])[j]? = some u →
        (j ≠ i ∧ w.hs[j]? = some u) ∨ (u.root = t.root ∧ (u.cow = w.next ∨ u.cow = w.next + 1) ∧ (j = i ∨ j = w.hs.length)) := by
      intro j u hj
      rcases get_snoc_cases hj with ⟨_, hj'⟩ | ⟨hjl, rfl⟩
      · rcases get_set_cases hj' with ⟨rfl, rfl, _⟩ | ⟨hji, hj''⟩
        · right; exact ⟨rfl, Or.inl rfl, Or.inl rfl⟩
        · left; exact ⟨hji, hj''⟩
      · right; exact ⟨rfl, Or.inr rfl, Or.inr (by simpa using hjl)⟩
    have hlt : ∀ (j : Nat) (u : HTree), w.hs[j]? = some u → u.cow < w.next :=
      fun j u hj => h.good.2 u (List.mem_of_getElem? hj)
    refine ⟨hgood, h.nofree, ?_, ?_⟩
    · -- distinct tags
      intro a b x y ha hb hab
      rcases hsrc a x ha with ⟨hai, ha'⟩ | ⟨_, hxc, hap⟩
      · rcases hsrc b y hb with ⟨hbi, hb'⟩ | ⟨_, hyc, _⟩
        · exact h.distinct a b x y ha' hb' hab
        · have := hlt a x ha'; rcases hyc with e | e <;> omega
      · rcases hsrc b y hb with ⟨hbi, hb'⟩ | ⟨_, hyc, hbp⟩
        · have := hlt b y hb'; rcases hxc with e | e <;> omega
        · -- both are the two fresh handles: their positions decide their tags
          rcases get_snoc_cases ha with ⟨hal, ha'⟩ | ⟨hae, rfl⟩
          · rcases get_snoc_cases hb with ⟨hbl, hb'⟩ | ⟨hbe, rfl⟩
            · simp only [List.length_set] at hal hbl
              rcases hap with rfl | e
              · rcases hbp with rfl | e
                · exact absurd rfl hab
                · omega
              · omega
            · rcases get_set_cases ha' with ⟨_, rfl, _⟩ | ⟨hne, _⟩
              · simp [cloneB]
              · rcases hap with e | e
                · exact absurd e hne
                · omega
          · rcases get_snoc_cases hb with ⟨hbl, hb'⟩ | ⟨hbe, rfl⟩
            · rcases get_set_cases hb' with ⟨_, rfl, _⟩ | ⟨hne, _⟩
              · simp [cloneB]
              · rcases hbp with e | e
                · exact absurd e hne
                · omega
            · omega
    · -- reachable cells
      intro j u hj r hr id hid
      have hcurOld : ∀ cc, w.H.tag id = some cc →
          IsCur { w with hs := (w.hs.set i (cloneB t w.next (w.next + 1)).1) ++ [(cloneB t w.next (w.next + 1)).2],
                         next := w.next + 2 } cc →
          ∃ (k : Nat) (v : HTree), k ≠ i ∧ w.hs[k]? = some v ∧ v.cow = cc := by
        rintro cc htag ⟨k, v, hk, hv⟩
        have hb := h.good.1 id cc htag
        rcases hsrc k v hk with ⟨hki, hk'⟩ | ⟨_, hvc, _⟩
        · exact ⟨k, v, hki, hk', hv⟩
        · rcases hvc with e | e <;> omega
      rcases hsrc j u hj with ⟨hji, hj'⟩ | ⟨hur, _, _⟩
      · obtain ⟨h1, h2⟩ := h.own j u hj' r hr id hid
        refine ⟨h1, fun cc htag hc => ?_⟩
        obtain ⟨k, v, _, hk, hv⟩ := hcurOld cc htag hc
        exact h2 cc htag ⟨k, v, hk, hv⟩
      · obtain ⟨h1, h2⟩ := h.own i t hi r (hur ▸ hr) id hid
        refine ⟨h1, fun cc htag hc => ?_⟩
        obtain ⟨k, v, hki, hk, hv⟩ := hcurOld cc htag hc
        have := h2 cc htag ⟨k, v, hk, hv⟩
        exact absurd (hv.trans this) (h.distinct k i v t hk hi hki)

theorem World.WI.init (degree : Nat) : (World.init degree 0).WI := by
  refine ⟨(World.good_run degree 0 []), ⟨rfl, rfl⟩, ?_, ?_⟩
  · intro i j a b ha hb hab
    have hi0 : i = 0 := by
      cases i with
      | zero => rfl
      | succ k => simp [World.init] at ha
    have hj0 : j = 0 := by
      cases j with
      | zero => rfl
      | succ k => simp [World.init] at hb
    omega
  · intro j u hj r hr
    cases j with
    | zero => simp [World.init] at hj; subst hj; simp at hr
    | succ k => simp [World.init] at hj

/-- every world reached from the empty tree by clones and writes (free list of capacity 0) satisfies the invariant -/
theorem World.WI.run (degree : Nat) (ops : List POp) : (ops.foldl World.step (World.init degree 0)).WI := by
  have gen : ∀ (ops : List POp) (w : World), w.WI → (ops.foldl World.step w).WI := by
    intro ops
    induction ops with
    | nil => intro w h; exact h
    | cons op ops ih =>
      intro w h
      apply ih
      cases op with
      | write i wop =>
        cases hi : w.hs[i]? with
        | none =>
          have : w.step (.write i wop) = w := by simp only [World.step, hi]
          rw [this]; exact h
        | some t => exact (h.write i wop t hi).1
      | clone i => exact h.clone i
  exact gen ops _ (World.WI.init degree)

end Nv.C03.Cow
