import Nv.Proofs.C08Chain
/-! C08 — how `Len` moves under set / unset, and membership after whole set histories. Core only. -/
namespace Nv.C08

theorem filter_add_one (p : Nat → Bool) (k : Nat) : ∀ n, k < n →
    ((List.range n).filter (fun j => p j || decide (k = j))).length =
      ((List.range n).filter p).length + (if p k then 0 else 1)
  | 0, h => by omega
  | n + 1, h => by
    rw [List.range_succ, List.filter_append, List.filter_append, List.length_append, List.length_append]
    by_cases e : k = n
    · subst e
      have : (List.range k).filter (fun j => p j || decide (k = j)) = (List.range k).filter p := by
        apply List.filter_congr
        intro j hj
        have : k ≠ j := by have := List.mem_range.1 hj; omega
        simp [this]
      rw [this]
      cases hp : p k <;> simp [hp]
    · rw [filter_add_one p k n (by omega)]
      have : ¬ k = n := e
      cases hp : p k <;> cases hn : p n <;> simp [hn, this] <;> omega

theorem filter_remove_one (p : Nat → Bool) (k : Nat) : ∀ n, k < n →
    ((List.range n).filter (fun j => p j && !decide (k = j))).length + (if p k then 1 else 0) =
      ((List.range n).filter p).length
  | 0, h => by omega
  | n + 1, h => by
    rw [List.range_succ, List.filter_append, List.filter_append, List.length_append, List.length_append]
    by_cases e : k = n
    · subst e
      have : (List.range k).filter (fun j => p j && !decide (k = j)) = (List.range k).filter p := by
        apply List.filter_congr
        intro j hj
        have : k ≠ j := by have := List.mem_range.1 hj; omega
        simp [this]
      rw [this]
      cases hp : p k <;> simp [hp]
    · have ih := filter_remove_one p k n (by omega)
      have : ¬ k = n := e
      cases hp : p k <;> cases hn : p n <;> simp [hp, hn, this] at ih ⊢ <;> omega

theorem decide_range_eq (z : Int) (hz : 0 ≤ z ∧ z < 1024) (j : Nat) :
    decide (0 ≤ z ∧ z < 1024 ∧ z = (j : Int)) = decide (z.toNat = j) := by
  apply decide_eq_decide.2; omega

end Nv.C08
