import Nv.Proofs.C20Strconv
/-! C20 — helper lemmas: Format{Int,Uint} produce digit strings that ParseInt/ParseUint read back; signed parse. -/
namespace Nv.C20

theorem digitVal_digitChar {d : Nat} (h : d < 36) : digitVal (digitChar d) = some d := by
  unfold digitChar digitVal
  split
  · rw [if_pos (by omega)]; congr 1; omega
  · rw [if_neg (by omega), if_pos (by omega)]; congr 1; omega

theorem digitChar_not_sign {d : Nat} (h : d < 36) : digitChar d ≠ 43 ∧ digitChar d ≠ 45 ∧ digitChar d ≠ 34 ∧ digitChar d ≠ 47 := by
  unfold digitChar; split <;> omega

/-- the formatter's output: non-empty, all digits of the base, value n -/
theorem digitsFuel_spec (base : Nat) (h2 : 2 ≤ base) (h36 : base ≤ 36) : ∀ (f n : Nat), n < base ^ (f + 1) →
    digitsFuel base (f + 1) n ≠ [] ∧ BaseDigits base (digitsFuel base (f + 1) n) ∧
    baseVal base 0 (digitsFuel base (f + 1) n) = n
  | 0, n, hn => by
    have hn' : n < base := by simpa using hn
    simp only [digitsFuel, if_pos hn']
    refine ⟨by simp, ?_, ?_⟩
    · intro c hc
      simp only [List.mem_singleton] at hc
      subst hc
      exact ⟨n, digitVal_digitChar (by omega), hn'⟩
    · simp [baseVal, digitVal_digitChar (show n < 36 by omega)]
  | f + 1, n, hn => by
    rw [digitsFuel]
    split
    · rename_i hn'
      refine ⟨by simp, ?_, ?_⟩
      · intro c hc
        simp only [List.mem_singleton] at hc
        subst hc
        exact ⟨n, digitVal_digitChar (by omega), hn'⟩
      · simp [baseVal, digitVal_digitChar (show n < 36 by omega)]
    · have hdiv : n / base < base ^ (f + 1) := by
        apply Nat.div_lt_of_lt_mul
        rw [Nat.pow_succ] at hn
        rw [Nat.mul_comm]; exact hn
      have ih := digitsFuel_spec base h2 h36 f (n / base) hdiv
      have hm : n % base < base := Nat.mod_lt _ (by omega)
      refine ⟨by simp, ?_, ?_⟩
      · intro c hc
        rcases List.mem_append.1 hc with hc | hc
        · exact ih.2.1 c hc
        · simp only [List.mem_singleton] at hc
          subst hc
          exact ⟨n % base, digitVal_digitChar (by omega), hm⟩
      · rw [baseVal_append, ih.2.2]
        simp only [baseVal, List.foldl_cons, List.foldl_nil, digitVal_digitChar (show n % base < 36 by omega),
          Option.getD_some]
        have := Nat.div_add_mod n base
        rw [Nat.mul_comm] at this
        exact this

theorem fmtNat_spec (base : Nat) (h2 : 2 ≤ base) (h36 : base ≤ 36) (n : Nat) (hn : n < 2 ^ 64) :
    fmtNat base n ≠ [] ∧ BaseDigits base (fmtNat base n) ∧ baseVal base 0 (fmtNat base n) = n := by
  have : n < base ^ (63 + 1) := Nat.lt_of_lt_of_le hn (Nat.pow_le_pow_left h2 64)
  exact digitsFuel_spec base h2 h36 63 n this

/-- the first character of a formatted number is a digit, hence neither `+` nor `-` -/
theorem baseDigits_head_not_sign {base : Nat} {c : Nat} {cs : Bytes} (h : BaseDigits base (c :: cs)) : c ≠ 43 ∧ c ≠ 45 := by
  obtain ⟨d, hd, _⟩ := h c (by simp)
  constructor <;> (intro hc; subst hc; simp [digitVal] at hd)

theorem parseUint_complete (base bits : Nat) (hb : 1 ≤ base) {s : Bytes} (hne : s ≠ []) (hd : BaseDigits base s)
    (hv : baseVal base 0 s < 2 ^ bits) : parseUint base bits s = .ok (baseVal base 0 s) := by
  cases s with
  | nil => exact absurd rfl hne
  | cons c cs => simp only [parseUint]; exact parseUintLoop_complete base bits hb _ 0 hd hv

theorem parseUint_ok (base bits : Nat) {s : Bytes} {m : Nat} (h : parseUint base bits s = .ok m) :
    s ≠ [] ∧ BaseDigits base s ∧ baseVal base 0 s = m ∧ m < 2 ^ bits := by
  cases s with
  | nil => simp [parseUint] at h
  | cons c cs =>
    simp only [parseUint] at h
    exact ⟨by simp, parseUintLoop_ok base bits _ 0 m (Nat.two_pow_pos bits) h⟩

theorem signedOf_ok {bits : Nat} {neg : Bool} {r : Res Nat} {v : Int} (h : signedOf bits neg r = .ok v) :
    ∃ un, r = .ok un ∧ ((neg = false ∧ un < 2 ^ (bits - 1) ∧ v = (un : Int)) ∨
      (neg = true ∧ un ≤ 2 ^ (bits - 1) ∧ v = -(un : Int))) := by
  cases r with
  | err e => simp [signedOf] at h
  | panic => simp [signedOf] at h
  | ok un =>
    refine ⟨un, rfl, ?_⟩
    cases neg with
    | false =>
      simp only [signedOf, Bool.false_eq_true, if_false] at h
      split at h
      · cases h
      · left; simp only [Res.ok.injEq] at h; exact ⟨rfl, by omega, h.symm⟩
    | true =>
      simp only [signedOf, if_true] at h
      split at h
      · cases h
      · right; simp only [Res.ok.injEq] at h; exact ⟨rfl, by omega, h.symm⟩

/-- `ParseInt(s, base, bits)` sound: sign + digits, exact value, in range -/
theorem parseInt_ok (base bits : Nat) {s : Bytes} {v : Int} (h : parseInt base bits s = .ok v) :
    ∃ (neg : Bool) (t : Bytes), (s = t ∨ s = 43 :: t ∨ s = 45 :: t) ∧ (neg = true ↔ s = 45 :: t) ∧
      t ≠ [] ∧ BaseDigits base t ∧
      v = (if neg then -(baseVal base 0 t : Int) else (baseVal base 0 t : Int)) ∧
      -(2 ^ (bits - 1) : Int) ≤ v ∧ v < 2 ^ (bits - 1) := by
  cases s with
  | nil => simp [parseInt] at h
  | cons c rest =>
    simp only [parseInt] at h
    split at h
    · rename_i hc
      subst hc
      obtain ⟨un, hr, hcase⟩ := signedOf_ok h
      have hu := parseUint_ok base bits hr
      rcases hcase with ⟨_, hlt, hv⟩ | ⟨hn, _, _⟩
      · refine ⟨false, rest, Or.inr (Or.inl rfl), by simp, hu.1, hu.2.1, ?_, ?_, ?_⟩
        · simp [hu.2.2.1, hv]
        · rw [hv]; have : (0:Int) ≤ (un : Int) := Int.natCast_nonneg un; have : (0:Int) < 2 ^ (bits - 1) := Int.pow_pos (by omega); omega
        · rw [hv]; exact_mod_cast hlt
      · cases hn
    · split at h
      · rename_i _ hc
        subst hc
        obtain ⟨un, hr, hcase⟩ := signedOf_ok h
        have hu := parseUint_ok base bits hr
        rcases hcase with ⟨hn, _, _⟩ | ⟨_, hle, hv⟩
        · cases hn
        · refine ⟨true, rest, Or.inr (Or.inr rfl), by simp, hu.1, hu.2.1, ?_, ?_, ?_⟩
          · simp [hu.2.2.1, hv]
          · rw [hv]; have : (un : Int) ≤ (2 : Int) ^ (bits - 1) := by exact_mod_cast hle
            omega
          · rw [hv]; have : (0:Int) ≤ (un : Int) := Int.natCast_nonneg un; have : (0:Int) < 2 ^ (bits - 1) := Int.pow_pos (by omega); omega
      · rename_i h43 h45
        obtain ⟨un, hr, hcase⟩ := signedOf_ok h
        have hu := parseUint_ok base bits hr
        rcases hcase with ⟨_, hlt, hv⟩ | ⟨hn, _, _⟩
        · refine ⟨false, c :: rest, Or.inl rfl, ?_, hu.1, hu.2.1, ?_, ?_, ?_⟩
          · constructor
            · intro hh; cases hh
            · intro hh; simp only [List.cons.injEq] at hh; exact absurd hh.1 h45
          · simp [hu.2.2.1, hv]
          · rw [hv]; have : (0:Int) ≤ (un : Int) := Int.natCast_nonneg un; have : (0:Int) < 2 ^ (bits - 1) := Int.pow_pos (by omega); omega
          · rw [hv]; exact_mod_cast hlt
        · cases hn

/-- `ParseInt` complete, non-negative: digits (not starting with a sign) whose value fits -/
theorem parseInt_complete_pos (base bits : Nat) (hb : 1 ≤ base) (hbits : 1 ≤ bits) {t : Bytes} (hne : t ≠ [])
    (hd : BaseDigits base t) (hv : baseVal base 0 t < 2 ^ (bits - 1)) :
    parseInt base bits t = .ok (baseVal base 0 t : Int) := by
  cases t with
  | nil => exact absurd rfl hne
  | cons c cs =>
    have hs := baseDigits_head_not_sign hd
    have hlt : baseVal base 0 (c :: cs) < 2 ^ bits :=
      Nat.lt_of_lt_of_le hv (Nat.pow_le_pow_right (by omega) (by omega))
    simp only [parseInt, if_neg hs.1, if_neg hs.2, parseUint_complete base bits hb hne hd hlt, signedOf,
      Bool.false_eq_true, if_false]
    rw [if_neg (by omega)]

/-- `ParseInt` complete, negative: `-` + digits whose value is at most 2^(bits-1) -/
theorem parseInt_complete_neg (base bits : Nat) (hb : 1 ≤ base) (hbits : 1 ≤ bits) {t : Bytes} (hne : t ≠ [])
    (hd : BaseDigits base t) (hv : baseVal base 0 t ≤ 2 ^ (bits - 1)) :
    parseInt base bits (45 :: t) = .ok (-(baseVal base 0 t : Int)) := by
  have hlt : baseVal base 0 t < 2 ^ bits := by
    have : 2 ^ (bits - 1) < 2 ^ bits := Nat.pow_lt_pow_right (by omega) (by omega)
    omega
  simp only [parseInt, show (45 : Nat) ≠ 43 by decide, if_false, if_true,
    parseUint_complete base bits hb hne hd hlt, signedOf]
  rw [if_neg (by omega)]

/-- `+` + digits -/
theorem parseInt_complete_plus (base bits : Nat) (hb : 1 ≤ base) (hbits : 1 ≤ bits) {t : Bytes} (hne : t ≠ [])
    (hd : BaseDigits base t) (hv : baseVal base 0 t < 2 ^ (bits - 1)) :
    parseInt base bits (43 :: t) = .ok (baseVal base 0 t : Int) := by
  have hlt : baseVal base 0 t < 2 ^ bits :=
    Nat.lt_of_lt_of_le hv (Nat.pow_le_pow_right (by omega) (by omega))
  simp only [parseInt, if_true, parseUint_complete base bits hb hne hd hlt, signedOf, Bool.false_eq_true, if_false]
  rw [if_neg (by omega)]

/-- Format then Parse, unsigned, any base 2…36 -/
theorem parseUint_fmtNat (base : Nat) (h2 : 2 ≤ base) (h36 : base ≤ 36) (n : Nat) (hn : n < 2 ^ 64) :
    parseUint base 64 (fmtNat base n) = .ok n := by
  have sp := fmtNat_spec base h2 h36 n hn
  have := parseUint_complete base 64 (by omega) sp.1 sp.2.1 (by rw [sp.2.2]; exact hn)
  rw [sp.2.2] at this; exact this

/-- Format then Parse, signed, any base 2…36 -/
theorem parseInt_fmtInt (base : Nat) (h2 : 2 ≤ base) (h36 : base ≤ 36) (v : Int)
    (hlo : -(2 ^ 63 : Int) ≤ v) (hhi : v < 2 ^ 63) : parseInt base 64 (fmtInt base v) = .ok v := by
  unfold fmtInt
  split
  · rename_i hneg
    have hn : (-v).toNat ≤ 2 ^ 63 := by omega
    have sp := fmtNat_spec base h2 h36 (-v).toNat (by omega)
    have := parseInt_complete_neg base 64 (by omega) (by omega) sp.1 sp.2.1 (by rw [sp.2.2]; exact hn)
    rw [sp.2.2] at this
    rw [this]; congr 1; omega
  · rename_i hpos
    have hn : v.toNat < 2 ^ 63 := by omega
    have sp := fmtNat_spec base h2 h36 v.toNat (by omega)
    have := parseInt_complete_pos base 64 (by omega) (by omega) sp.1 sp.2.1 (by rw [sp.2.2]; exact hn)
    rw [sp.2.2] at this
    rw [this]; congr 1; omega

end Nv.C20
