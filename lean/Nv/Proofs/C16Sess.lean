import Nv.Model.C16
/-!
C16 — one session under a proved configuration: the configuration is eliminated once
(`quit_proved`, `sendStep_proved`, `recvStep_proved`), then the state invariant `SInv`.
Helper lemmas for `Nv.Props.C16`.
-/
namespace Nv.C16

/-- `quit` as the property wants it: everything, exactly once -/
def quitP (s : Sess) : Sess :=
  if s.onceDone then s else
    { s with onceDone := true, exits := s.exits + 1, decs := s.decs + 1, qClosed := true, closes := s.closes + 1 }

theorem quit_proved {c : Cfg} (hc : Proved c) (s : Sess) : quit c s = quitP s := by
  obtain ⟨_, _, h3, h4, h5, h6, h7, _⟩ := hc
  unfold quit quitP
  cases h : s.onceDone <;> simp [h3, h4, h5, h6, h7]

/-- `loopSend` of a proved configuration -/
def sendStepP (s : Sess) : Option Sess :=
  match s.sendPc with
  | .idle =>
    match s.q with
    | [] => if s.qClosed then some { s with sendPc := .quitting } else none
    | x :: rest => if x = [] then some { s with q := rest } else some { s with q := rest, sendPc := .writing x }
  | .writing x =>
    if s.wfault || s.peerClosed || s.closes != 0 then some { s with sendPc := .quitting }
    else if s.peerDrain then some { s with sendPc := .idle, delivered := s.delivered ++ x }
    else none
  | .quitting => some { quitP s with sendPc := .done }
  | .done => none

theorem sendStep_proved {c : Cfg} (hc : Proved c) (s : Sess) : sendStep c s = sendStepP s := by
  have hq := quit_proved hc s
  obtain ⟨p1, p2, _, _, _, _, _, p8, _⟩ := hc
  unfold sendStep sendStepP
  cases h1 : s.sendPc with
  | idle =>
    cases h2 : s.q with
    | nil => rfl
    | cons x rest => simp [p1, p2]
  | writing x => rfl
  | quitting => simp [p8, hq]
  | done => rfl

/-- `loopReceive` of a proved configuration -/
def recvStepP (s : Sess) : Option Sess :=
  match s.recvPc with
  | .reading => if s.peerClosed || s.closes != 0 then some { s with recvPc := .quitting false } else none
  | .quitting _ => some { quitP s with recvPc := .done }
  | .done => none

theorem recvStep_proved {c : Cfg} (hc : Proved c) (s : Sess) : recvStep c s = recvStepP s := by
  have hq := quit_proved hc s
  obtain ⟨_, _, _, _, _, _, _, _, p9, p10, _⟩ := hc
  unfold recvStep recvStepP
  cases h1 : s.recvPc with
  | reading => rfl
  | quitting p => simp [p9, p10, hq]
  | done => rfl

/-- state invariant of a session under a proved configuration -/
structure SInv (s : Sess) : Prop where
  exits_eq : s.exits = if s.onceDone then 1 else 0
  decs_eq : s.decs = s.exits
  closes_eq : s.closes = s.exits
  once_closed : s.onceDone = true → s.qClosed = true
  send_done : s.sendPc = .done → s.onceDone = true
  recv_done : s.recvPc = .done → s.onceDone = true
  not_crashed : s.crashed = false

theorem sinv_init : SInv Sess.init := by
  constructor <;> simp [Sess.init]

theorem sinv_quitP {s : Sess} (h : SInv s) : SInv (quitP s) ∧ (quitP s).onceDone = true := by
  unfold quitP
  obtain ⟨h1, h2, h3, h4, h5, h6, h7⟩ := h
  cases ho : s.onceDone
  · simp only [ho, Bool.false_eq_true, if_false] at h1 ⊢
    refine ⟨⟨?_, ?_, ?_, ?_, ?_, ?_, ?_⟩, trivial⟩ <;> simp_all
  · simp only [if_true]
    exact ⟨⟨h1, h2, h3, h4, h5, h6, h7⟩, ho⟩

theorem sinv_env {s : Sess} (h : SInv s) (e : Env) : SInv (envStep s e) := by
  obtain ⟨h1, h2, h3, h4, h5, h6, h7⟩ := h
  cases e <;> simp only [envStep]
  all_goals (try split)
  all_goals (constructor <;> simp_all)

theorem sinv_sendStepP {s s' : Sess} (h : SInv s) (hs : sendStepP s = some s') : SInv s' := by
  have hq := sinv_quitP h
  obtain ⟨h1, h2, h3, h4, h5, h6, h7⟩ := h
  unfold sendStepP at hs
  split at hs
  · split at hs
    · split at hs
      · cases hs; constructor <;> simp_all
      · cases hs
    · split at hs <;> (cases hs; constructor <;> simp_all)
  · split at hs
    · cases hs; constructor <;> simp_all
    · split at hs
      · cases hs; constructor <;> simp_all
      · cases hs
  · cases hs
    obtain ⟨⟨q1, q2, q3, q4, q5, q6, q7⟩, q8⟩ := hq
    constructor <;> simp_all
  · cases hs

theorem sinv_recvStepP {s s' : Sess} (h : SInv s) (hs : recvStepP s = some s') : SInv s' := by
  have hq := sinv_quitP h
  obtain ⟨h1, h2, h3, h4, h5, h6, h7⟩ := h
  unfold recvStepP at hs
  split at hs
  · split at hs
    · cases hs; constructor <;> simp_all
    · cases hs
  · cases hs
    obtain ⟨⟨q1, q2, q3, q4, q5, q6, q7⟩, q8⟩ := hq
    constructor <;> simp_all
  · cases hs

theorem sinv_step {c : Cfg} (hc : Proved c) {s s' : Sess} {a : Act} (h : SInv s) (hs : step c s a = some s') : SInv s' := by
  cases a with
  | env e => simp only [step, Option.some.injEq] at hs; subst hs; exact sinv_env h e
  | sendStep => rw [step, sendStep_proved hc] at hs; exact sinv_sendStepP h hs
  | recvStep => rw [step, recvStep_proved hc] at hs; exact sinv_recvStepP h hs

/-- every reachable state of one session satisfies the invariant -/
theorem sinv_reach {c : Cfg} (hc : Proved c) : ∀ s, (sessLTS c).Reach s → SInv s :=
  (sessLTS c).inv_of_step SInv sinv_init (fun _ _ _ h hs => sinv_step hc h hs)

end Nv.C16
