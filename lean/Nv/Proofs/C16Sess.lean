import Nv.Model.C16
/-!
C16 — one session under a proved configuration and an exit callback that returns: the configuration is
eliminated once (`sendStep_proved`, `recvStep_proved`), then the state invariant `SInv`.
`quit` is four steps of the thread that won `exitOnce`; the other loop's `quit` blocks until it has finished.
Helper lemmas for `Nv.Props.C16`.
-/
namespace Nv.C16

/-- `loopSend` of a proved configuration (OnExit returns) -/
def sendStepP (s : Sess) : Option Sess :=
  match s.sendPc with
  | .idle =>
    match s.q with
    | [] => if s.qClosed then some { s with sendPc := .quitting .enter } else none
    | x :: rest => if x = [] then some { s with q := rest } else some { s with q := rest, sendPc := .writing x }
  | .writing x =>
    if s.wfault || s.peerClosed || s.closes != 0 then
      some { s with sendPc := .quitting .enter, delivered := s.delivered ++ partialWrite s x }
    else if s.peerDrain then some { s with sendPc := .idle, delivered := s.delivered ++ x }
    else none
  | .quitting .enter =>
    if s.onceDone then some { s with sendPc := .done }
    else if s.onceTaken then none
    else some { s with onceTaken := true, exits := s.exits + 1, sendPc := .quitting .dec }
  | .quitting .dec => some { s with decs := s.decs + 1, sendPc := .quitting .closeQ }
  | .quitting .closeQ => some { s with qClosed := true, sendPc := .quitting .closeConn }
  | .quitting .closeConn => some { s with closes := s.closes + 1, onceDone := true, sendPc := .done }
  | .quitting .stuck => none
  | .done => none

/-- `loopReceive` of a proved configuration (OnExit returns) -/
def recvStepP (s : Sess) : Option Sess :=
  match s.recvPc with
  | .reading => if s.peerClosed || s.closes != 0 then some { s with recvPc := .quitting false .enter } else none
  | .quitting p .enter =>
    if s.onceDone then some { s with recvPc := .done }
    else if s.onceTaken then none
    else some { s with onceTaken := true, exits := s.exits + 1, recvPc := .quitting p .dec }
  | .quitting p .dec => some { s with decs := s.decs + 1, recvPc := .quitting p .closeQ }
  | .quitting p .closeQ => some { s with qClosed := true, recvPc := .quitting p .closeConn }
  | .quitting _ .closeConn => some { s with closes := s.closes + 1, onceDone := true, recvPc := .done }
  | .quitting _ .stuck => none
  | .done => none

theorem sendStep_proved {c : Cfg} (hc : Proved c) (s : Sess) (hx : s.onExit = .returns) :
    sendStep c s = sendStepP s := by
  obtain ⟨p1, p2, p3, p4, p5, p6, p7, p8, _⟩ := hc
  unfold sendStep sendStepP
  cases h1 : s.sendPc with
  | idle =>
    cases h2 : s.q with
    | nil => rfl
    | cons x rest => simp [p1, p2]
  | writing x => rfl
  | quitting st =>
    cases ho : s.onceDone <;> cases ht : s.onceTaken <;> cases st <;> simp [quitStep, p3, p4, p5, p6, p7, p8, hx, ho, ht]
  | done => rfl

theorem recvStep_proved {c : Cfg} (hc : Proved c) (s : Sess) (hx : s.onExit = .returns) (hn : s.crashed = false) :
    recvStep c s = recvStepP s := by
  obtain ⟨_, _, p3, p4, p5, p6, p7, _, p9, p10, _⟩ := hc
  unfold recvStep recvStepP
  cases h1 : s.recvPc with
  | reading => rfl
  | quitting p st =>
    cases ho : s.onceDone <;> cases ht : s.onceTaken <;> cases st <;> simp [quitStep, p3, p4, p5, p6, p7, p9, p10, hx, hn, ho, ht]
  | done => rfl

/-- what the counters must be while the owner of the once is at a stage -/
def stageOk (s : Sess) : QStage → Prop
  | .enter => True
  | .dec => s.decs = 0 ∧ s.closes = 0
  | .closeQ => s.decs = 1 ∧ s.closes = 0
  | .closeConn => s.decs = 1 ∧ s.closes = 0 ∧ s.qClosed = true
  | .stuck => False

/-- state invariant of a session under a proved configuration -/
structure SInv (s : Sess) : Prop where
  exit_ret : s.onExit = .returns
  not_crashed : s.crashed = false
  send_done : s.sendPc = .done → s.onceDone = true
  recv_done : s.recvPc = .done → s.onceDone = true
  fresh : s.onceTaken = false → s.onceDone = false ∧ s.exits = 0 ∧ s.decs = 0 ∧ s.closes = 0
  fin : s.onceDone = true → s.onceTaken = true ∧ s.exits = 1 ∧ s.decs = 1 ∧ s.closes = 1 ∧ s.qClosed = true
  mid : s.onceTaken = true → s.onceDone = false → s.exits = 1 ∧
    ((∃ st, s.sendPc = .quitting st ∧ st ≠ .enter) ∨ (∃ p st, s.recvPc = .quitting p st ∧ st ≠ .enter))
  sOwner : ∀ st, s.sendPc = .quitting st → st ≠ .enter →
    s.onceTaken = true ∧ s.onceDone = false ∧ stageOk s st ∧ (∀ p st', s.recvPc = .quitting p st' → st' = .enter)
  rOwner : ∀ p st, s.recvPc = .quitting p st → st ≠ .enter →
    s.onceTaken = true ∧ s.onceDone = false ∧ stageOk s st ∧ (∀ st', s.sendPc = .quitting st' → st' = .enter)

theorem sinv_init : SInv Sess.init := by
  constructor <;> simp [Sess.init]

theorem sinv_recv_enter {s : Sess} (h : SInv s) (hr : s.recvPc = .reading) (p : Bool) (f : Bool) :
    SInv { s with recvPc := .quitting p .enter, faulted := f } := by
  obtain ⟨h1, h2, h3, h4, h5, h6, h7, h8, h9⟩ := h
  refine ⟨h1, h2, h3, by simp, h5, h6, ?_, ?_, by simp⟩
  · intro a b
    obtain ⟨e, o⟩ := h7 a b
    refine ⟨e, ?_⟩
    rcases o with o | ⟨p', st, o, _⟩
    · exact Or.inl o
    · rw [hr] at o; cases o
  · intro st a b
    obtain ⟨x1, x2, x3, _⟩ := h8 st a b
    exact ⟨x1, x2, x3, by intro p' st' e; simp at e; exact e.2.symm⟩

theorem sinv_env {s : Sess} (h : SInv s) (e : Env) : SInv (envStep s e) := by
  have h' := h
  obtain ⟨h1, h2, h3, h4, h5, h6, h7, h8, h9⟩ := h
  cases e <;> simp only [envStep]
  case send bs => split <;> exact ⟨h1, h2, h3, h4, h5, h6, h7, h8, h9⟩
  case close =>
    refine ⟨h1, h2, h3, h4, h5, ?_, h7, ?_, ?_⟩
    · intro a; obtain ⟨x1, x2, x3, x4, _⟩ := h6 a; exact ⟨x1, x2, x3, x4, rfl⟩
    · intro st a b
      obtain ⟨x1, x2, x3, x4⟩ := h8 st a b
      refine ⟨x1, x2, ?_, x4⟩
      cases st <;> simp_all [stageOk]
    · intro p st a b
      obtain ⟨x1, x2, x3, x4⟩ := h9 p st a b
      refine ⟨x1, x2, ?_, x4⟩
      cases st <;> simp_all [stageOk]
  case peerClose => exact ⟨h1, h2, h3, h4, h5, h6, h7, h8, h9⟩
  case peerDrain => exact ⟨h1, h2, h3, h4, h5, h6, h7, h8, h9⟩
  case peerHold => exact ⟨h1, h2, h3, h4, h5, h6, h7, h8, h9⟩
  case peerData => split <;> exact ⟨h1, h2, h3, h4, h5, h6, h7, h8, h9⟩
  case readFail =>
    split
    · rename_i hr; exact sinv_recv_enter h' hr false true
    · exact ⟨h1, h2, h3, h4, h5, h6, h7, h8, h9⟩
  case handlerPanic =>
    split
    · rename_i hr; exact sinv_recv_enter h' hr true true
    · exact ⟨h1, h2, h3, h4, h5, h6, h7, h8, h9⟩
  case writeFail => exact ⟨h1, h2, h3, h4, h5, h6, h7, h8, h9⟩
  case writeFailAfter n => split <;> exact ⟨h1, h2, h3, h4, h5, h6, h7, h8, h9⟩

/-- the send loop moves among idle / writing / `quitting enter` (queue and delivered bytes may change) -/
theorem sinv_send_move {s : Sess} (h : SInv s) (hold : ∀ st, s.sendPc = .quitting st → st = .enter) (_hnd : s.sendPc ≠ .done)
    (new : SendPc) (hnew : ∀ st, new = .quitting st → st = .enter) (hnn : new ≠ .done) (q' : List (List Nat)) (d' : List Nat) :
    SInv { s with sendPc := new, q := q', delivered := d' } := by
  obtain ⟨h1, h2, h3, h4, h5, h6, h7, h8, h9⟩ := h
  refine ⟨h1, h2, fun a => absurd a hnn, h4, h5, h6, ?_, ?_, ?_⟩
  · intro a b
    obtain ⟨e, o⟩ := h7 a b
    refine ⟨e, ?_⟩
    rcases o with ⟨st, o, ne⟩ | o
    · exact absurd (hold st o) ne
    · exact Or.inr o
  · intro st a b; exact absurd (hnew st a) b
  · intro p st a b
    obtain ⟨x1, x2, x3, _⟩ := h9 p st a b
    exact ⟨x1, x2, x3, fun st' e => hnew st' e⟩

theorem sinv_sendStepP {s s' : Sess} (h : SInv s) (hs : sendStepP s = some s') : SInv s' := by
  have h' := h
  obtain ⟨h1, h2, h3, h4, h5, h6, h7, h8, h9⟩ := h
  unfold sendStepP at hs
  cases hp : s.sendPc with
  | idle =>
    have hold : ∀ st, s.sendPc = .quitting st → st = .enter := by intro st e; rw [hp] at e; cases e
    have hnd : s.sendPc ≠ .done := by rw [hp]; simp
    simp only [hp] at hs
    split at hs
    · split at hs
      · cases hs; exact sinv_send_move h' hold hnd _ (by intro st e; cases e; rfl) (by simp) s.q s.delivered
      · cases hs
    · split at hs
      · cases hs
        exact sinv_send_move h' hold hnd .idle (by intro st e; cases e) (by simp) _ s.delivered
      · cases hs
        exact sinv_send_move h' hold hnd _ (by intro st e; cases e) (by simp) _ s.delivered
  | writing x =>
    have hold : ∀ st, s.sendPc = .quitting st → st = .enter := by intro st e; rw [hp] at e; cases e
    have hnd : s.sendPc ≠ .done := by rw [hp]; simp
    simp only [hp] at hs
    split at hs
    · cases hs; exact sinv_send_move h' hold hnd _ (by intro st e; cases e; rfl) (by simp) s.q _
    · split at hs
      · cases hs; exact sinv_send_move h' hold hnd _ (by intro st e; cases e) (by simp) s.q _
      · cases hs
  | done => simp [hp] at hs
  | quitting st =>
    cases st with
    | stuck => simp [hp] at hs
    | enter =>
      simp only [hp] at hs
      split at hs
      · rename_i hd
        cases hs
        obtain ⟨f1, f2, f3, f4, f5⟩ := h6 hd
        refine ⟨h1, h2, fun _ => hd, h4, h5, h6, ?_, ?_, ?_⟩
        · intro _ b; simp [hd] at b
        · intro st a; cases a
        · intro p st a b; have := (h9 p st a b).2.1; simp [hd] at this
      · rename_i hd
        split at hs
        · cases hs
        · rename_i ht
          cases hs
          have ht' : s.onceTaken = false := by simpa using ht
          have hd' : s.onceDone = false := by simpa using hd
          obtain ⟨_, e0, d0, c0⟩ := h5 ht'
          refine ⟨h1, h2, by simp, ?_, by simp, by simp [hd'], ?_, ?_, ?_⟩
          · intro a; have := h4 a; simp [hd'] at this
          · intro _ _; exact ⟨by simp [e0], Or.inl ⟨.dec, rfl, by simp⟩⟩
          · intro st a _
            cases a
            refine ⟨rfl, hd', ⟨d0, c0⟩, ?_⟩
            intro p st' e
            cases hst : decide (st' = .enter) with
            | true => simpa using hst
            | false =>
              have := (h9 p st' e (by simpa using hst)).1
              simp [ht'] at this
          · intro p st a b
            have := (h9 p st a b).1
            simp [ht'] at this
    | dec =>
      simp only [hp] at hs
      cases hs
      obtain ⟨o1, o2, ⟨d0, c0⟩, o4⟩ := h8 .dec hp (by simp)
      obtain ⟨e1, _⟩ := h7 o1 o2
      refine ⟨h1, h2, by simp, h4, by simp [o1], by simp [o2], ?_, ?_, ?_⟩
      · intro _ _; exact ⟨e1, Or.inl ⟨.closeQ, rfl, by simp⟩⟩
      · intro st a _; cases a; exact ⟨o1, o2, ⟨by simp [d0], c0⟩, o4⟩
      · intro p st a b; have := o4 p st a; exact absurd this b
    | closeQ =>
      simp only [hp] at hs
      cases hs
      obtain ⟨o1, o2, ⟨d1, c0⟩, o4⟩ := h8 .closeQ hp (by simp)
      obtain ⟨e1, _⟩ := h7 o1 o2
      refine ⟨h1, h2, by simp, h4, by simp [o1], by simp [o2], ?_, ?_, ?_⟩
      · intro _ _; exact ⟨e1, Or.inl ⟨.closeConn, rfl, by simp⟩⟩
      · intro st a _; cases a; exact ⟨o1, o2, ⟨d1, c0, rfl⟩, o4⟩
      · intro p st a b; have := o4 p st a; exact absurd this b
    | closeConn =>
      simp only [hp] at hs
      cases hs
      obtain ⟨o1, o2, ⟨d1, c0, qc⟩, o4⟩ := h8 .closeConn hp (by simp)
      obtain ⟨e1, _⟩ := h7 o1 o2
      refine ⟨h1, h2, by simp, by simp, by simp [o1], ?_, by simp, ?_, ?_⟩
      · intro _; exact ⟨o1, e1, d1, by simp [c0], qc⟩
      · intro st a; cases a
      · intro p st a b; have := o4 p st a; exact absurd this b

theorem sinv_recvStepP {s s' : Sess} (h : SInv s) (hs : recvStepP s = some s') : SInv s' := by
  have h' := h
  obtain ⟨h1, h2, h3, h4, h5, h6, h7, h8, h9⟩ := h
  unfold recvStepP at hs
  cases hp : s.recvPc with
  | reading =>
    simp only [hp] at hs
    split at hs
    · cases hs; exact sinv_recv_enter h' hp false s.faulted
    · cases hs
  | done => simp [hp] at hs
  | quitting p st =>
    cases st with
    | stuck => simp [hp] at hs
    | enter =>
      simp only [hp] at hs
      split at hs
      · rename_i hd
        cases hs
        refine ⟨h1, h2, h3, fun _ => hd, h5, h6, ?_, ?_, ?_⟩
        · intro _ b; simp [hd] at b
        · intro st a b; have := (h8 st a b).2.1; simp [hd] at this
        · intro p st a; cases a
      · rename_i hd
        split at hs
        · cases hs
        · rename_i ht
          cases hs
          have ht' : s.onceTaken = false := by simpa using ht
          have hd' : s.onceDone = false := by simpa using hd
          obtain ⟨_, e0, d0, c0⟩ := h5 ht'
          refine ⟨h1, h2, ?_, by simp, by simp, by simp [hd'], ?_, ?_, ?_⟩
          · intro a; have := h3 a; simp [hd'] at this
          · intro _ _; exact ⟨by simp [e0], Or.inr ⟨p, .dec, rfl, by simp⟩⟩
          · intro st a b
            have := (h8 st a b).1
            simp [ht'] at this
          · intro p' st a _
            cases a
            refine ⟨rfl, hd', ⟨d0, c0⟩, ?_⟩
            intro st' e
            cases hst : decide (st' = .enter) with
            | true => simpa using hst
            | false =>
              have := (h8 st' e (by simpa using hst)).1
              simp [ht'] at this
    | dec =>
      simp only [hp] at hs
      cases hs
      obtain ⟨o1, o2, ⟨d0, c0⟩, o4⟩ := h9 p .dec hp (by simp)
      obtain ⟨e1, _⟩ := h7 o1 o2
      refine ⟨h1, h2, h3, by simp, by simp [o1], by simp [o2], ?_, ?_, ?_⟩
      · intro _ _; exact ⟨e1, Or.inr ⟨p, .closeQ, rfl, by simp⟩⟩
      · intro st a b; have := o4 st a; exact absurd this b
      · intro p' st a _; cases a; exact ⟨o1, o2, ⟨by simp [d0], c0⟩, o4⟩
    | closeQ =>
      simp only [hp] at hs
      cases hs
      obtain ⟨o1, o2, ⟨d1, c0⟩, o4⟩ := h9 p .closeQ hp (by simp)
      obtain ⟨e1, _⟩ := h7 o1 o2
      refine ⟨h1, h2, h3, by simp, by simp [o1], by simp [o2], ?_, ?_, ?_⟩
      · intro _ _; exact ⟨e1, Or.inr ⟨p, .closeConn, rfl, by simp⟩⟩
      · intro st a b; have := o4 st a; exact absurd this b
      · intro p' st a _; cases a; exact ⟨o1, o2, ⟨d1, c0, rfl⟩, o4⟩
    | closeConn =>
      simp only [hp] at hs
      cases hs
      obtain ⟨o1, o2, ⟨d1, c0, qc⟩, o4⟩ := h9 p .closeConn hp (by simp)
      obtain ⟨e1, _⟩ := h7 o1 o2
      refine ⟨h1, h2, by simp, by simp, by simp [o1], ?_, by simp, ?_, ?_⟩
      · intro _; exact ⟨o1, e1, d1, by simp [c0], qc⟩
      · intro st a b; have := o4 st a; exact absurd this b
      · intro p' st a; cases a

theorem sinv_step {c : Cfg} (hc : Proved c) {s s' : Sess} {a : Act} (h : SInv s) (hs : step c s a = some s') : SInv s' := by
  cases a with
  | env e => simp only [step, Option.some.injEq] at hs; subst hs; exact sinv_env h e
  | sendStep => rw [step, sendStep_proved hc s h.exit_ret] at hs; exact sinv_sendStepP h hs
  | recvStep => rw [step, recvStep_proved hc s h.exit_ret h.not_crashed] at hs; exact sinv_recvStepP h hs

/-- every reachable state of one session (exit callback returns) satisfies the invariant -/
theorem sinv_reach {c : Cfg} (hc : Proved c) : ∀ s, (sessLTS c).Reach s → SInv s :=
  (sessLTS c).inv_of_step SInv sinv_init (fun _ _ _ h hs => sinv_step hc h hs)

/-- the three counters move together: 0 before the once is taken, 1 after it has finished -/
theorem counters_le_one {s : Sess} (h : SInv s) : s.exits ≤ 1 ∧ s.decs ≤ 1 ∧ s.closes ≤ 1 := by
  obtain ⟨h1, h2, h3, h4, h5, h6, h7, h8, h9⟩ := h
  cases ht : s.onceTaken
  · obtain ⟨_, a, b, c⟩ := h5 ht; omega
  · cases hd : s.onceDone
    · obtain ⟨e1, o⟩ := h7 ht hd
      rcases o with ⟨st, o, ne⟩ | ⟨p, st, o, ne⟩
      · obtain ⟨_, _, ok, _⟩ := h8 st o ne
        cases st <;> simp [stageOk] at ok ne <;> omega
      · obtain ⟨_, _, ok, _⟩ := h9 p st o ne
        cases st <;> simp [stageOk] at ok ne <;> omega
    · obtain ⟨_, a, b, c, _⟩ := h6 hd; omega

theorem once_of_closes {s : Sess} (hS : SInv s) (h : s.closes ≠ 0) : s.onceDone = true := by
  obtain ⟨h1, h2, h3, h4, h5, h6, h7, h8, h9⟩ := hS
  cases ht : s.onceTaken
  · obtain ⟨_, _, _, c⟩ := h5 ht; exact absurd c h
  · cases hd : s.onceDone
    · exfalso
      obtain ⟨e1, o⟩ := h7 ht hd
      rcases o with ⟨st, o, ne⟩ | ⟨p, st, o, ne⟩
      · obtain ⟨_, _, ok, _⟩ := h8 st o ne
        cases st <;> simp [stageOk] at ok ne <;> omega
      · obtain ⟨_, _, ok, _⟩ := h9 p st o ne
        cases st <;> simp [stageOk] at ok ne <;> omega
    · rfl

end Nv.C16
