import Nv.Proofs.C03Insert
/-! C03 — `insertH` against `specInsert`, by induction on the height. -/
namespace Nv.C03

/-- what `insertH` guarantees for a node that is not full -/
structure InsertPost (mn : Nat) (x : Item) (h : Nat) (n : Node) (r : Node × Option Item) : Prop where
  inorder : r.1.inorder = specInsert n.inorder x
  ret : r.2 = specFind n.inorder x.key
  kids : KidsOk mn (2 * mn + 1) h r.1
  lo : n.items.length ≤ r.1.items.length
  hi : r.1.items.length ≤ n.items.length + 1

theorem take_pre {α} (A r : List α) (i : Nat) (hA : A.length = i) : (A ++ r).take i = A := by
  subst hA; simp
theorem drop_pre {α} (A r : List α) (i : Nat) (hA : A.length = i) : (A ++ r).drop i = r := by
  subst hA; simp
theorem take_pre1 {α} (A r : List α) (a : α) (i : Nat) (hA : A.length = i) : (A ++ a :: r).take (i + 1) = A ++ [a] := by
  have : A ++ a :: r = (A ++ [a]) ++ r := by simp
  rw [this]; exact take_pre _ _ _ (by simp [hA])
theorem drop_pre1 {α} (A r : List α) (a : α) (i : Nat) (hA : A.length = i) : (A ++ a :: r).drop (i + 1) = r := by
  have : A ++ a :: r = (A ++ [a]) ++ r := by simp
  rw [this]; exact drop_pre _ _ _ (by simp [hA])
theorem drop_pre2 {α} (A r : List α) (a b : α) (i : Nat) (hA : A.length = i) :
    (A ++ a :: b :: r).drop (i + 1 + 1) = r := by
  have : A ++ a :: b :: r = (A ++ [a, b]) ++ r := by simp
  rw [this]; exact drop_pre _ _ _ (by simp [hA])
theorem getD_pre {α} (A r : List α) (a d : α) (i : Nat) (hA : A.length = i) : (A ++ a :: r).getD i d = a := by
  subst hA; simp [List.getD]
theorem getD_pre1 {α} (A r : List α) (a b d : α) (i : Nat) (hA : A.length = i) :
    (A ++ a :: b :: r).getD (i + 1) d = b := by
  have : A ++ a :: b :: r = (A ++ [a]) ++ b :: r := by simp
  rw [this]; exact getD_pre _ _ _ _ _ (by simp [hA])

theorem length_take_le {α} (l : List α) (i : Nat) (hi : i ≤ l.length) : (l.take i).length = i := by
  simp; omega

theorem take_insertAt (is : List Item) (i : Nat) (m : Item) (hi : i ≤ is.length) :
    (insertAt is i m).take i = is.take i := take_pre _ _ _ (length_take_le is i hi)

theorem take_succ_insertAt (is : List Item) (i : Nat) (m : Item) (hi : i ≤ is.length) :
    (insertAt is i m).take (i + 1) = is.take i ++ [m] := take_pre1 _ _ _ _ (length_take_le is i hi)

theorem drop_insertAt (is : List Item) (i : Nat) (m : Item) (hi : i ≤ is.length) :
    (insertAt is i m).drop i = m :: is.drop i := drop_pre _ _ _ (length_take_le is i hi)

theorem drop_succ_insertAt (is : List Item) (i : Nat) (m : Item) (hi : i ≤ is.length) :
    (insertAt is i m).drop (i + 1) = is.drop i := drop_pre1 _ _ _ _ (length_take_le is i hi)

theorem setAt_splice2 (cs : List Node) (i : Nat) (a b c' : Node) (hi : i ≤ cs.length) :
    setAt (cs.take i ++ a :: b :: cs.drop (i + 1)) i c' = cs.take i ++ c' :: b :: cs.drop (i + 1) := by
  simp only [setAt]
  rw [take_pre _ _ _ (length_take_le cs i hi), drop_pre1 _ _ _ _ (length_take_le cs i hi)]

theorem setAt_splice2' (cs : List Node) (i : Nat) (a b c' : Node) (hi : i ≤ cs.length) :
    setAt (cs.take i ++ a :: b :: cs.drop (i + 1)) (i + 1) c' = cs.take i ++ a :: c' :: cs.drop (i + 1) := by
  simp only [setAt]
  rw [take_pre1 _ _ _ _ (length_take_le cs i hi), drop_pre2 _ _ _ _ _ (length_take_le cs i hi)]
  simp

theorem getD_splice2 (cs : List Node) (i : Nat) (a b : Node) (hi : i ≤ cs.length) :
    (cs.take i ++ a :: b :: cs.drop (i + 1)).getD i default = a ∧
    (cs.take i ++ a :: b :: cs.drop (i + 1)).getD (i + 1) default = b :=
  ⟨getD_pre _ _ _ _ _ (length_take_le cs i hi), getD_pre1 _ _ _ _ _ _ (length_take_le cs i hi)⟩

theorem setAt_insertAt (is : List Item) (i : Nat) (m x : Item) (hi : i ≤ is.length) :
    setAt (insertAt is i m) i x = insertAt is i x := by
  simp only [setAt, insertAt]
  rw [take_pre _ _ _ (length_take_le is i hi), drop_pre1 _ _ _ _ (length_take_le is i hi)]

/-- `insertH` on a node with room: the in-order list becomes `specInsert`, the returned item is the one
    that had the key, the children invariant is kept and the node gains at most one item -/
theorem insertH_spec (mn : Nat) (hmn : 1 ≤ mn) (x : Item) : ∀ (h : Nat) (n : Node),
    KidsOk mn (2 * mn + 1) h n → n.items.length < 2 * mn + 1 → Sorted n.inorder →
    InsertPost mn x h n (insertH (2 * mn + 1) x h n) := by
  intro h
  induction h with
  | zero =>
    intro n hk hlt hs
    cases n with
    | mk is cs =>
      simp only [KidsOk, Node.children] at hk; subst hk
      simp only [Node.items] at hlt
      simp only [inorder_mk, interleave_nil_right] at hs
      cases hf : (findIdx is x.key).2 with
      | true =>
        obtain ⟨y, hy, hky⟩ := (findIdx_found is x.key).1 hf
        have hi : (findIdx is x.key).1 < is.length := (List.getElem?_eq_some_iff.1 hy).1
        have := found_spec x y is [] _ (Or.inl rfl) (by simpa using hs) hy hky
        simp only [interleave_nil_right] at this
        simp only [insertH, hf, if_true]
        exact ⟨by simpa using this.1, by simpa [hy] using this.2.symm, by simp [KidsOk, Node.children],
          by simp [Node.items, setAt_length _ _ _ hi], by simp [Node.items, setAt_length _ _ _ hi]⟩
      | false =>
        have hi := findIdx_le is x.key
        simp only [insertH, hf, Bool.false_eq_true, if_false]
        have hlt' := findIdx_take_lt is x.key
        have hgt' := findIdx_not_found_gt is x.key hs hf
        refine ⟨?_, ?_, by simp [KidsOk, Node.children], by simp [Node.items, insertAt_length _ _ _ hi],
          by simp [Node.items, insertAt_length _ _ _ hi]⟩
        · simp only [inorder_mk, interleave_nil_right, insertAt]
          conv => rhs; rw [← List.take_append_drop (findIdx is x.key).1 is]
          rw [specInsert_between x _ _ hlt' hgt']
        · simp only [inorder_mk, interleave_nil_right]
          symm; apply specFind_none
          intro a ha
          rw [← List.take_append_drop (findIdx is x.key).1 is] at ha
          rcases List.mem_append.1 ha with ha | ha
          · have := hlt' a ha; omega
          · have := hgt' a ha; omega
  | succ h ih =>
    intro n hk hlt hs
    cases n with
    | mk is cs =>
      have hk' := hk
      simp only [KidsOk, Node.children, Node.items] at hk
      simp only [Node.items] at hlt
      simp only [inorder_mk] at hs
      cases cs with
      | nil => simp at hk
      | cons c0 cs0 =>
        cases hf : (findIdx is x.key).2 with
        | true =>
          obtain ⟨y, hy, hky⟩ := (findIdx_found is x.key).1 hf
          have hi : (findIdx is x.key).1 < is.length := (List.getElem?_eq_some_iff.1 hy).1
          have := found_spec x y is (c0 :: cs0) _ (Or.inr hk.1) hs hy hky
          simp only [insertH, hf, if_true]
          refine ⟨by simpa using this.1, by simpa [hy] using this.2.symm, ?_,
            by simp [Node.items, setAt_length _ _ _ hi], by simp [Node.items, setAt_length _ _ _ hi]⟩
          simp only [KidsOk, Node.children, Node.items, setAt_length _ _ _ hi]
          exact hk
        | false =>
          have hi := findIdx_le is x.key
          have hlt' := findIdx_take_lt is x.key
          have hgt' := findIdx_not_found_gt is x.key (sorted_items _ _ hs) hf
          have hic : (findIdx is x.key).1 < (c0 :: cs0).length := by omega
          have hC : (c0 :: cs0).getD (findIdx is x.key).1 default ∈ c0 :: cs0 := by
            rw [getD_eq_getElem _ _ default hic]; exact List.getElem_mem hic
          have hCok := (nodeOk_iff _ _ _ _).1 (hk.2 _ hC)
          have hCs : Sorted ((c0 :: cs0).getD (findIdx is x.key).1 default).inorder :=
            sorted_child is (c0 :: cs0) hs _ hC hk.1
          simp only [insertH, hf, Bool.false_eq_true, if_false]
          by_cases hroom : ((c0 :: cs0).getD (findIdx is x.key).1 default).items.length < 2 * mn + 1
          · -- no split: descend
            simp only [hroom, if_true]
            have r := ih _ hCok.2.2 hroom hCs
            have d := descend_spec x is (c0 :: cs0) _ _ hk.1 hi hs hlt' hgt' r.inorder
            refine ⟨by simpa using d.1, by rw [r.ret]; simpa using d.2.symm, ?_, by simp [Node.items], by simp [Node.items]⟩
            simp only [KidsOk, Node.children, Node.items, setAt_length _ _ _ hic]
            refine ⟨hk.1, fun d hd => ?_⟩
            rcases mem_setAt _ _ _ _ hd with rfl | hd
            · exact (nodeOk_iff _ _ _ _).2 ⟨by have := r.lo; omega, by have := r.hi; omega, r.kids⟩
            · exact hk.2 d hd
          · -- the child is full: split it, then descend into the proper half (or replace the separator)
            simp only [hroom, if_false]
            have hfull : ((c0 :: cs0).getD (findIdx is x.key).1 default).items.length = 2 * mn + 1 := by omega
            have hdiv : (2 * mn + 1) / 2 = mn := by omega
            rw [hdiv]
            obtain ⟨hin, hl1, hl2, hk1, hk2, _⟩ := split_spec mn h _ hCok.2.2 hfull
            obtain ⟨hsame, hkN⟩ := split_child_spec mn h is (c0 :: cs0) _ hk' hi hfull
            -- abbreviations
            generalize hs1 : (((c0 :: cs0).getD (findIdx is x.key).1 default).split mn).1 = c1 at *
            generalize hsm : (((c0 :: cs0).getD (findIdx is x.key).1 default).split mn).2.1 = m at *
            generalize hs2 : (((c0 :: cs0).getD (findIdx is x.key).1 default).split mn).2.2 = c2 at *
            generalize hii : (findIdx is x.key).1 = i at *
            have hi' : i ≤ (c0 :: cs0).length := by omega
            have hsN : Sorted (interleave (insertAt is i m) ((c0 :: cs0).take i ++ c1 :: c2 :: (c0 :: cs0).drop (i + 1))) := by
              rw [hsame]; exact hs
            have hCs' : Sorted (c1.inorder ++ m :: c2.inorder) := by rw [← hin]; exact hCs
            have hkN' := hkN
            simp only [KidsOk, Node.children, Node.items] at hkN
            have hg := getD_splice2 (c0 :: cs0) i c1 c2 hi'
            by_cases hxm : x.key < m.key
            · simp only [hxm, if_true]
              have r := ih c1 hk1 (by omega) hCs'.append_left
              have d := descend_spec x (insertAt is i m) _ i (insertH (2 * mn + 1) x h c1).1 hkN.1 (by rw [insertAt_length _ _ _ hi]; omega) hsN
                (by rw [take_insertAt _ _ _ hi]; exact hlt')
                (by rw [drop_insertAt _ _ _ hi]; intro b hb
                    rcases List.mem_cons.1 hb with rfl | hb
                    · exact hxm
                    · exact hgt' b hb)
                (by rw [hg.1]; exact r.inorder)
              rw [setAt_splice2 _ _ _ _ _ hi'] at d
              refine ⟨by simp only [inorder_mk]; rw [d.1, hsame], by simp only [inorder_mk]; rw [r.ret, ← hsame, d.2, hg.1], ?_,
                by simp [Node.items, insertAt_length _ _ _ hi], by simp [Node.items, insertAt_length _ _ _ hi]⟩
              simp only [KidsOk, Node.children, Node.items]
              refine ⟨by simpa using hkN.1, fun e he => ?_⟩
              simp only [List.mem_append, List.mem_cons] at he
              rcases he with he | rfl | rfl | he
              · exact hkN.2 e (List.mem_append_left _ he)
              · exact (nodeOk_iff _ _ _ _).2 ⟨by have := r.lo; omega, by have := r.hi; omega, r.kids⟩
              · exact hkN.2 _ (List.mem_append_right _ (List.mem_cons_of_mem _ List.mem_cons_self))
              · exact hkN.2 e (List.mem_append_right _ (List.mem_cons_of_mem _ (List.mem_cons_of_mem _ he)))
            · simp only [hxm, if_false]
              by_cases hmx : m.key < x.key
              · simp only [hmx, if_true]
                have r := ih c2 hk2 (by omega) hCs'.append_right.tail
                have d := descend_spec x (insertAt is i m) _ (i + 1) (insertH (2 * mn + 1) x h c2).1 hkN.1 (by rw [insertAt_length _ _ _ hi]; omega) hsN
                  (by rw [take_succ_insertAt _ _ _ hi]; intro a ha
                      rcases List.mem_append.1 ha with ha | ha
                      · exact hlt' a ha
                      · simp at ha; subst ha; exact hmx)
                  (by rw [drop_succ_insertAt _ _ _ hi]; exact hgt')
                  (by rw [hg.2]; exact r.inorder)
                rw [setAt_splice2' _ _ _ _ _ hi'] at d
                refine ⟨by simp only [inorder_mk]; rw [d.1, hsame], by simp only [inorder_mk]; rw [r.ret, ← hsame, d.2, hg.2], ?_,
                  by simp [Node.items, insertAt_length _ _ _ hi], by simp [Node.items, insertAt_length _ _ _ hi]⟩
                simp only [KidsOk, Node.children, Node.items]
                refine ⟨by simpa using hkN.1, fun e he => ?_⟩
                simp only [List.mem_append, List.mem_cons] at he
                rcases he with he | rfl | rfl | he
                · exact hkN.2 e (List.mem_append_left _ he)
                · exact hkN.2 _ (List.mem_append_right _ List.mem_cons_self)
                · exact (nodeOk_iff _ _ _ _).2 ⟨by have := r.lo; omega, by have := r.hi; omega, r.kids⟩
                · exact hkN.2 e (List.mem_append_right _ (List.mem_cons_of_mem _ (List.mem_cons_of_mem _ he)))
              · simp only [hmx, if_false]
                have hmk : m.key = x.key := by omega
                have hget : (insertAt is i m)[i]? = some m := by
                  simp only [insertAt]
                  rw [List.getElem?_append_right (by rw [length_take_le _ _ hi]; exact Nat.le_refl _),
                    length_take_le _ _ hi]
                  simp
                have fs := found_spec x m (insertAt is i m) _ i (Or.inr hkN.1) hsN hget hmk
                have hil : i < (insertAt is i m).length := by rw [insertAt_length _ _ _ hi]; omega
                refine ⟨by simp only [inorder_mk]; rw [fs.1, hsame], by simp only [inorder_mk]; rw [← hsame, fs.2], ?_,
                  by simp [Node.items, setAt_length _ _ _ hil, insertAt_length _ _ _ hi],
                  by simp [Node.items, setAt_length _ _ _ hil, insertAt_length _ _ _ hi]⟩
                simp only [KidsOk, Node.children, Node.items, setAt_length _ _ _ hil]
                exact hkN

end Nv.C03
