import Nv.Model.C05
/-! C05 — list-level lemmas about `findKey`, `eraseKey`, and the index view (`lookup`) of `Mem`. -/
namespace Nv.C05

theorem findKey_some {k : Key} {l : List Node} {n : Node} (h : findKey k l = some n) : n.key = k ∧ n ∈ l := by
  induction l with
  | nil => simp [findKey] at h
  | cons a l ih =>
    simp only [findKey] at h
    split at h
    · cases h; simp [*]
    · have := ih h; simp [this]

theorem findKey_none_iff {k : Key} {l : List Node} : findKey k l = none ↔ k ∉ keys l := by
  induction l with
  | nil => simp [findKey, keys]
  | cons a l ih =>
    simp only [findKey, keys, List.map_cons, List.mem_cons, not_or]
    split
    · rename_i h; simp [h]
    · rename_i h
      simp only [keys] at ih
      rw [ih]
      constructor
      · intro h2; exact ⟨fun e => h e.symm, h2⟩
      · intro h2; exact h2.2

theorem findKey_isSome_iff {k : Key} {l : List Node} : (findKey k l).isSome ↔ k ∈ keys l := by
  cases h : findKey k l with
  | none => simp [findKey_none_iff.1 h]
  | some n =>
    simp only [Option.isSome_some, true_iff]
    apply Classical.byContradiction
    intro hn
    rw [findKey_none_iff.2 hn] at h; cases h

theorem findKey_eraseKey_self (k : Key) (l : List Node) : findKey k (eraseKey k l) = none := by
  induction l with
  | nil => rfl
  | cons a l ih =>
    simp only [eraseKey]
    split
    · exact ih
    · rename_i h; simp [findKey, h, ih]

theorem findKey_eraseKey_ne {k k' : Key} (h : k' ≠ k) (l : List Node) :
    findKey k' (eraseKey k l) = findKey k' l := by
  induction l with
  | nil => rfl
  | cons a l ih =>
    simp only [eraseKey]
    split
    · rename_i h2
      have : ¬ a.key = k' := fun e => h (e.symm.trans h2)
      simp [findKey, this, ih]
    · simp only [findKey, ih]

theorem eraseKey_sublist (k : Key) (l : List Node) : (eraseKey k l).Sublist l := by
  induction l with
  | nil => exact List.Sublist.slnil
  | cons a l ih =>
    simp only [eraseKey]
    split
    · exact List.Sublist.cons _ ih
    · exact List.Sublist.cons_cons _ ih

theorem eraseKey_length_le (k : Key) (l : List Node) : (eraseKey k l).length ≤ l.length :=
  (eraseKey_sublist k l).length_le

theorem eraseKey_length_lt {k : Key} {l : List Node} {n : Node} (h : findKey k l = some n) :
    (eraseKey k l).length < l.length := by
  induction l with
  | nil => simp [findKey] at h
  | cons a l ih =>
    simp only [findKey] at h
    simp only [eraseKey]
    split at h
    · rename_i hk
      simp only [hk, if_true, List.length_cons]
      have := eraseKey_length_le k l
      omega
    · rename_i hk
      simp only [hk, if_false, List.length_cons]
      have := ih h
      omega

theorem mem_keys_eraseKey {k k' : Key} {l : List Node} : k' ∈ keys (eraseKey k l) ↔ k' ∈ keys l ∧ k' ≠ k := by
  rw [← findKey_isSome_iff, ← findKey_isSome_iff]
  by_cases h : k' = k
  · subst h; simp [findKey_eraseKey_self]
  · simp [findKey_eraseKey_ne h, h]

theorem keys_eraseKey_sublist (k : Key) (l : List Node) : (keys (eraseKey k l)).Sublist (keys l) :=
  (eraseKey_sublist k l).map _

theorem eraseKey_of_not_mem {k : Key} {l : List Node} (h : k ∉ keys l) : eraseKey k l = l := by
  induction l with
  | nil => rfl
  | cons a l ih =>
    simp only [keys, List.map_cons, List.mem_cons, not_or] at h
    have h1 : ¬ a.key = k := fun e => h.1 e.symm
    simp only [eraseKey, h1, if_false]
    rw [ih]; simpa [keys] using h.2

theorem findKey_dropLast {k : Key} {l : List Node} {n : Node} (h : findKey k l.dropLast = some n) :
    findKey k l = some n := by
  induction l with
  | nil => simp [findKey] at h
  | cons a l ih =>
    cases l with
    | nil => simp [findKey] at h
    | cons b l =>
      rw [List.dropLast_cons_of_ne_nil (by simp)] at h
      simp only [findKey] at h ⊢
      split
      · rename_i hk; simpa [hk] using h
      · rename_i hk; simp only [hk, if_false] at h; exact ih h

/-! ### the index view -/

theorem lookup_key {m : Mem} {k : Key} {n : Node} (h : m.lookup k = some n) : n.key = k := by
  unfold Mem.lookup at h
  split at h
  · rename_i x hx; cases h; exact (findKey_some hx).1
  · exact (findKey_some h).1

theorem lookup_mem_indexed {m : Mem} {k : Key} {n : Node} (h : m.lookup k = some n) : k ∈ m.indexed := by
  unfold Mem.lookup at h
  unfold Mem.indexed
  split at h
  · rename_i x hx
    exact List.mem_append_left _ (findKey_isSome_iff.1 (by simp [hx]))
  · exact List.mem_append_right _ (findKey_isSome_iff.1 (by simp [h]))

theorem lookup_none_iff {m : Mem} {k : Key} : m.lookup k = none ↔ k ∉ m.indexed := by
  unfold Mem.lookup Mem.indexed
  simp only [List.mem_append, not_or, ← findKey_none_iff]
  split
  · rename_i x hx; simp [hx]
  · rename_i hx; simp [hx]

theorem lookup_removeKey_self (m : Mem) (k : Key) : (m.removeKey k).lookup k = none := by
  simp [Mem.lookup, Mem.removeKey, findKey_eraseKey_self]

theorem lookup_removeKey_ne (m : Mem) {k k' : Key} (h : k' ≠ k) : (m.removeKey k).lookup k' = m.lookup k' := by
  simp [Mem.lookup, Mem.removeKey, findKey_eraseKey_ne h]

theorem lookup_touch_self (m : Mem) (n : Node) : (m.touch n).lookup n.key = some n := by
  unfold Mem.touch
  split
  · simp [Mem.lookup, findKey]
  · rename_i h; simp [Mem.lookup, findKey, h]

theorem lookup_touch_ne (m : Mem) (n : Node) {k' : Key} (h : k' ≠ n.key) : (m.touch n).lookup k' = m.lookup k' := by
  have h' : ¬ n.key = k' := fun e => h e.symm
  unfold Mem.touch
  split
  · simp [Mem.lookup, findKey, h', findKey_eraseKey_ne h]
  · simp [Mem.lookup, findKey, h', findKey_eraseKey_ne h]

/-- the key index never lists a key twice (list and ghosts together) -/
def WF (m : Mem) : Prop := (keys m.live ++ keys m.ghost).Nodup

theorem insertNew_cases (c : Cfg) (m : Mem) (n : Node) :
    (m.live.length + 1 > m.size ∧ m.insertNew c n = { m with live := (n :: m.live).dropLast }) ∨
    (m.live = [] ∧ c.indexOrder ≠ .beforeEvict ∧ m.insertNew c n = { m with live := [], ghost := n :: m.ghost }) ∨
    (m.live.length + 1 ≤ m.size ∧ m.insertNew c n = { m with live := n :: m.live }) := by
  unfold Mem.insertNew
  simp only [List.length_cons]
  split
  · rename_i hgt
    split
    · left; exact ⟨hgt, rfl⟩
    · rename_i hc
      split
      · rename_i hl; right; left; refine ⟨hl, ?_, by simp [hl]⟩; intro e; simp [e] at hc
      · left; exact ⟨hgt, rfl⟩
  · rename_i hle; right; right; exact ⟨by omega, rfl⟩

theorem wf_disjoint {m : Mem} (h : WF m) {k : Key} (h1 : k ∈ keys m.live) (h2 : k ∈ keys m.ghost) : False :=
  (List.nodup_append.1 h).2.2 k h1 k h2 rfl

/-- a new node is the only thing `insertNew` can add to the index; everything else was there before -/
theorem lookup_insertNew {c : Cfg} {m : Mem} {n x : Node} {k' : Key} (hwf : WF m) (hnew : m.lookup n.key = none)
    (h : (m.insertNew c n).lookup k' = some x) : (k' = n.key ∧ x = n) ∨ (k' ≠ n.key ∧ m.lookup k' = some x) := by
  by_cases hk : k' = n.key
  · left
    refine ⟨hk, ?_⟩
    subst hk
    rcases insertNew_cases c m n with ⟨_, e⟩ | ⟨hl, _, e⟩ | ⟨_, e⟩ <;> rw [e] at h
    · cases hl : m.live with
      | nil =>
        -- live = []: the node itself was dropped; a ghost with the same key cannot exist, the key was new
        simp [hl, Mem.lookup, findKey] at h hnew
        rw [hnew] at h; cases h
      | cons b l =>
        rw [hl, List.dropLast_cons_of_ne_nil (by simp)] at h
        simp [Mem.lookup, findKey] at h; exact h.symm
    · simp [Mem.lookup, findKey] at h; exact h.symm
    · simp [Mem.lookup, findKey] at h; exact h.symm
  · right
    refine ⟨hk, ?_⟩
    have hk' : ¬ n.key = k' := fun e => hk e.symm
    rcases insertNew_cases c m n with ⟨_, e⟩ | ⟨hl, _, e⟩ | ⟨_, e⟩ <;> rw [e] at h
    · unfold Mem.lookup at h ⊢
      simp only at h
      split at h
      · rename_i y hy
        have := findKey_dropLast hy
        simp only [findKey, hk', if_false] at this
        cases h; simp [this]
      · cases hl : findKey k' m.live with
        | none => simpa using h
        | some z =>
          exact (wf_disjoint hwf ((findKey_isSome_iff (k := k') (l := m.live)).1 (by rw [hl]; rfl))
            ((findKey_isSome_iff (k := k') (l := m.ghost)).1 (by rw [h]; rfl))).elim
    · simpa [Mem.lookup, findKey, hk', hl] using h
    · simpa [Mem.lookup, findKey, hk'] using h

end Nv.C05
