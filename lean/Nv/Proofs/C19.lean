import Nv.Model.C19
/-!
C19 — helper lemmas: the LRU cache seen from one key, how one `step` changes the binding of a key,
injectivity of the key formats, and the basic facts about `nonceLoop`.
-/
namespace Nv.C19

/-! ### the cache -/

@[simp] theorem lookup_nil (k : Str) : lookup k [] = none := rfl
@[simp] theorem lookup_cons_self (k : Str) (e : Entry) (c : Cache) : lookup k ((k, e) :: c) = some e := by
  simp [lookup]
theorem lookup_cons_ne {k k' : Str} (h : k ≠ k') (e : Entry) (c : Cache) :
    lookup k ((k', e) :: c) = lookup k c := by
  simp [lookup, h]

theorem lookup_erase_ne {k k' : Str} (h : k ≠ k') : ∀ c : Cache, lookup k (erase k' c) = lookup k c
  | [] => rfl
  | (k2, e) :: rest => by
    have ih := lookup_erase_ne h rest
    unfold erase at ih ⊢
    by_cases h2 : k2 = k'
    · subst h2; simp only [List.filter_cons, ne_eq, not_true_eq_false, decide_false, Bool.false_eq_true, if_false]
      rw [ih, lookup_cons_ne h]
    · simp only [List.filter_cons, ne_eq, h2, not_false_eq_true, decide_true, if_true]
      simp only [lookup, ih]

@[simp] theorem lookup_touch_self (k : Str) (e : Entry) (c : Cache) : lookup k (touch k e c) = some e := by
  simp [touch]

theorem lookup_touch_ne {k k' : Str} (h : k ≠ k') (e : Entry) (c : Cache) :
    lookup k (touch k' e c) = lookup k c := by
  simp only [touch]; rw [lookup_cons_ne h, lookup_erase_ne h]

theorem lookup_take_some : ∀ (n : Nat) (c : Cache) (k : Str) (e : Entry),
    lookup k (c.take n) = some e → lookup k c = some e
  | 0, c, k, e, h => by simp at h
  | n + 1, [], k, e, h => by simp at h
  | n + 1, (k', e') :: rest, k, e, h => by
    simp only [List.take_succ_cons, lookup] at h ⊢
    split
    · rename_i hk; simp only [hk, if_true] at h; exact h
    · rename_i hk; simp only [hk, if_false] at h; exact lookup_take_some n rest k e h

/-- position of the first binding of `k` (the length when absent) -/
def pos (k : Str) : Cache → Nat
  | [] => 0
  | (k', _) :: rest => if k = k' then 0 else pos k rest + 1

theorem lookup_take_of_pos : ∀ (n : Nat) (c : Cache) (k : Str), (lookup k c).isSome = true → pos k c < n →
    lookup k (c.take n) = lookup k c
  | _, [], _, h, _ => by simp at h
  | 0, _ :: _, _, _, hp => by omega
  | n + 1, (k', e') :: rest, k, h, hp => by
    simp only [List.take_succ_cons, lookup, pos] at h hp ⊢
    split
    · rfl
    · rename_i hk; simp only [hk, if_false] at h hp
      exact lookup_take_of_pos n rest k h (by omega)

theorem pos_erase_le {k k' : Str} (hne : k ≠ k') : ∀ c : Cache, (lookup k c).isSome = true →
    pos k (erase k' c) ≤ pos k c
  | [], h => by simp at h
  | (k2, e) :: rest, h => by
    unfold erase
    by_cases hk : k = k2
    · subst hk
      simp [hne, pos]
    · have h' : (lookup k rest).isSome = true := by rw [lookup_cons_ne hk] at h; exact h
      have ih := pos_erase_le hne rest h'
      unfold erase at ih
      simp only [ne_eq] at ih
      by_cases h2 : k2 = k'
      · subst h2
        simp only [List.filter_cons, ne_eq, not_true_eq_false, decide_false, Bool.false_eq_true, if_false, pos, hk]
        omega
      · simp only [List.filter_cons, ne_eq, h2, not_false_eq_true, decide_true, if_true, pos, hk, if_false]
        omega

theorem pos_take : ∀ (n : Nat) (c : Cache) (k : Str), pos k c < n → pos k (c.take n) = pos k c
  | 0, _, _, h => by omega
  | n + 1, [], _, _ => rfl
  | n + 1, (k', e') :: rest, k, h => by
    simp only [List.take_succ_cons, pos] at h ⊢
    split
    · rfl
    · rename_i hk; simp only [hk, if_false] at h
      rw [pos_take n rest k (by omega)]

theorem pos_touch_self (k : Str) (e : Entry) (c : Cache) : pos k (touch k e c) = 0 := by simp [touch, pos]

theorem pos_touch_ne {k k' : Str} (h : k ≠ k') (e : Entry) (c : Cache) (hp : (lookup k c).isSome = true) :
    pos k (touch k' e c) ≤ pos k c + 1 := by
  simp only [touch, pos, h, if_false]
  have := pos_erase_le h c hp
  omega

/-- position counted only when bound -/
def posOr0 (k : Str) (c : Cache) : Nat := if (lookup k c).isSome then pos k c else 0

/-- what a `Set` of key `k` leaves at another key: the old binding, or nothing (evicted) -/
theorem lookup_setLRU_ne {k k' : Str} (h : k' ≠ k) (cap : Nat) (e : Entry) (c : Cache) :
    lookup k' (setLRU cap k e c) = none ∨ lookup k' (setLRU cap k e c) = lookup k' c := by
  cases hl : lookup k' (setLRU cap k e c) with
  | none => exact Or.inl rfl
  | some e' =>
    right
    have := lookup_take_some cap _ k' e' hl
    rw [lookup_touch_ne h] at this
    exact this.symm

theorem lookup_setLRU_self (k : Str) (cap : Nat) (hcap : 0 < cap) (e : Entry) (c : Cache) :
    lookup k (setLRU cap k e c) = some e := by
  unfold setLRU
  rw [lookup_take_of_pos cap _ k (by simp) (by simp [touch, pos]; exact hcap)]
  simp

/-- every binding after a `Set`: the new one, or an old one of another key -/
theorem lookup_setLRU_cases (k k' : Str) (cap : Nat) (e e' : Entry) (c : Cache)
    (h : lookup k' (setLRU cap k e c) = some e') :
    (k' = k ∧ e' = e) ∨ (k' ≠ k ∧ lookup k' c = some e') := by
  have h1 := lookup_take_some cap _ k' e' h
  by_cases hk : k' = k
  · subst hk; simp at h1; exact Or.inl ⟨rfl, h1.symm⟩
  · rw [lookup_touch_ne hk] at h1; exact Or.inr ⟨hk, h1⟩

theorem lookup_touch_cases (k k' : Str) (e e' : Entry) (c : Cache) (h : lookup k' (touch k e c) = some e') :
    (k' = k ∧ e' = e) ∨ (k' ≠ k ∧ lookup k' c = some e') := by
  by_cases hk : k' = k
  · subst hk; simp at h; exact Or.inl ⟨rfl, h.symm⟩
  · rw [lookup_touch_ne hk] at h; exact Or.inr ⟨hk, h⟩

/-- the key an operation addresses (send and verify build it with their own format) -/
def Op.key (c : Cfg) : Op → Str
  | .send _ a p => mkKey c.sendKeyFmt a p
  | .verify _ a p _ _ => mkKey c.verifyKeyFmt a p

def Op.isSend : Op → Bool
  | .send _ _ _ => true
  | .verify _ _ _ _ _ => false

def Op.area : Op → Str
  | .send _ a _ => a
  | .verify _ a _ _ _ => a

def Op.pair : Op → Str × Str
  | .send _ a p => (a, p)
  | .verify _ a p _ _ => (a, p)

/-- attempt counter / send counter of a key (0 when absent) -/
def vcOf (s : State) (k : Str) : Int := match lookup k s.cache with | some e => e.verifyCount | none => 0
def scOpt : Option Entry → Int
  | some e => e.sendCount
  | none => 0
def scOf (s : State) (k : Str) : Int := scOpt (lookup k s.cache)

/-! ### the clock -/

@[simp] theorem advance_cache (t : Nat) (s : State) : (advance t s).cache = s.cache := rfl
@[simp] theorem advance_nsent (t : Nat) (s : State) : (advance t s).nsent = s.nsent := rfl
@[simp] theorem advance_now (t : Nat) (s : State) : (advance t s).now = max s.now t := rfl
theorem advance_now_ge (t : Nat) (s : State) : s.now ≤ (advance t s).now := Nat.le_max_left _ _

/-- the clock reading at which an operation happens -/
def Op.time : Op → Nat
  | .send t _ _ => t
  | .verify t _ _ _ _ => t

/-! ### one send -/

/-- elapsed time since the window start as `checkSend` sees it (a new entry starts its window now) -/
def winElapsed (now : Nat) : Option Entry → Int
  | some e => (now : Int) - e.counterTime
  | none => 0
def ctOpt (now : Nat) : Option Entry → Nat
  | some e => e.counterTime
  | none => now

/-- a send is either refused (or panics) and changes nothing, or `Set`s a fresh entry with zero attempts, stamped now -/
theorem sendK_cases (c : Cfg) (pr : Params) (s : State) (key ph : Str) :
    ((sendK c pr s key ph).2.accepted = none ∧ (sendK c pr s key ph).1 = s) ∨
    (∃ (cnt : Int) (ct : Nat), (sendK c pr s key ph).2.accepted = some (s.nsent + 1) ∧
      (sendK c pr s key ph).1 =
        ⟨setLRU pr.cap key ⟨cnt + 1, 0, genCode pr ph (s.nsent + 1), s.nsent + 1, s.now, ct⟩ s.cache, s.nsent + 1, s.now⟩ ∧
      checkSend c pr s.now (lookup key s.cache) = .ok (cnt, ct)) := by
  unfold sendK
  cases h : checkSend c pr s.now (lookup key s.cache) with
  | error r =>
    left
    refine ⟨?_, rfl⟩
    simp only
    unfold checkSend at h
    split at h <;> (repeat' split at h) <;> simp_all [SendResult.accepted] <;> (subst h; rfl)
  | ok v =>
    obtain ⟨cnt, ct⟩ := v
    simp only
    split
    · left; exact ⟨rfl, rfl⟩
    · right
      refine ⟨cnt, ct, ?_, rfl, rfl⟩
      split <;> rfl

/-- what a passing `checkSend` continues from: a refreshed window (counter 0, window starts now), or the old window with a
    counter that is still within `MaxCount` -/
theorem checkSend_ok (c : Cfg) (pr : Params) (now : Nat) (e : Option Entry) (cnt : Int) (ct : Nat)
    (h : checkSend c pr now e = .ok (cnt, ct)) :
    (c.windowCmp.holds (winElapsed now e) pr.window = true ∧ cnt = 0 ∧ ct = now) ∨
    (c.windowCmp.holds (winElapsed now e) pr.window = false ∧ cnt ≤ pr.maxCount ∧ cnt = scOpt e ∧ ct = ctOpt now e) := by
  unfold checkSend at h
  cases e with
  | none =>
    simp only at h
    split at h
    · left; simp_all [winElapsed]
    · split at h
      · cases h
      · right; simp_all [scOpt, winElapsed, ctOpt] <;> omega
  | some e =>
    simp only at h
    split at h
    · cases h
    · split at h
      · left; simp_all [winElapsed]
      · split at h
        · cases h
        · right; simp_all [scOpt, winElapsed, ctOpt] <;> omega

/-- refused as too frequent exactly when the comparison with the stored `setTime` says so; never for a new entry -/
theorem checkSend_tooFreq_iff (c : Cfg) (pr : Params) (now : Nat) (e : Entry) :
    checkSend c pr now (some e) = .error .tooFreq ↔ c.minIntervalCmp.holds ((now : Int) - e.setTime) pr.minInterval = true := by
  unfold checkSend
  simp only
  split
  · simp_all
  · split
    · simp_all
    · split <;> simp_all

theorem checkSend_none_not_tooFreq (c : Cfg) (pr : Params) (now : Nat) :
    checkSend c pr now none ≠ .error .tooFreq := by
  unfold checkSend
  simp only
  split
  · simp
  · split <;> simp

/-! ### one verify -/

theorem verifyK_none (c : Cfg) (pr : Params) (s : State) (key : Str) (code : Code) (hash : Nat)
    (h : lookup key s.cache = none) : verifyK c pr s key code hash = (s, .notExist) := by
  simp [verifyK, h]

theorem verifyK_some (c : Cfg) (pr : Params) (s : State) (key : Str) (code : Code) (hash : Nat) (e : Entry)
    (h : lookup key s.cache = some e) :
    verifyK c pr s key code hash =
      (⟨touch key { e with verifyCount := e.verifyCount + 1 } s.cache, s.nsent, s.now⟩,
        checkVerify c pr s.now { e with verifyCount := e.verifyCount + 1 } code hash) := by
  simp [verifyK, h]

/-- `ok` needs the stored code, the stored hash, a live code (as the source compares) and an attempt number within the limit -/
theorem checkVerify_ok_iff (c : Cfg) (pr : Params) (now : Nat) (e : Entry) (code : Code) (hash : Nat) :
    checkVerify c pr now e code hash = .ok ↔
      (e.verifyCount ≤ pr.maxVerify ∧ e.code = code ∧ e.hash = hash ∧
        c.ttlCmp.holds ((now : Int) - e.setTime) pr.ttl = false) := by
  unfold checkVerify
  split
  · simp; omega
  · split
    · simp_all
    · split
      · simp_all
      · split <;> simp_all <;> omega

/-- right code, right hash, attempts left: the answer is decided by the lifetime comparison alone -/
theorem checkVerify_right (c : Cfg) (pr : Params) (now : Nat) (e : Entry) (h : e.verifyCount ≤ pr.maxVerify) :
    checkVerify c pr now e e.code e.hash =
      if c.ttlCmp.holds ((now : Int) - e.setTime) pr.ttl then .timeout else .ok := by
  unfold checkVerify
  rw [if_neg (by omega)]
  simp

/-! ### one step, seen from a key -/

/-- an operation on another key leaves the binding of `k` as it was, or evicts it -/
theorem step_lookup_other (c : Cfg) (pr : Params) (s : State) (o : Op) (k : Str) (h : o.key c ≠ k) :
    lookup k (step c pr s o).1.cache = none ∨ lookup k (step c pr s o).1.cache = lookup k s.cache := by
  cases o with
  | send t a p =>
    simp only [step, send]
    rcases sendK_cases c pr (advance t s) (mkKey c.sendKeyFmt a p) p with ⟨_, h2⟩ | ⟨cnt, ct, _, h2, _⟩
    · rw [h2]; exact Or.inr rfl
    · rw [h2]; exact lookup_setLRU_ne (fun e => h e.symm) _ _ _
  | verify t a p code hash =>
    simp only [step, verify]
    cases hl : lookup (mkKey c.verifyKeyFmt a p) (advance t s).cache with
    | none => rw [verifyK_none _ _ _ _ _ _ hl]; exact Or.inr rfl
    | some e => rw [verifyK_some _ _ _ _ _ _ e hl]; exact Or.inr (lookup_touch_ne (fun e => h e.symm) _ _)

/-- an absent key stays absent under operations on other keys -/
theorem step_lookup_other_none (c : Cfg) (pr : Params) (s : State) (o : Op) (k : Str) (h : o.key c ≠ k)
    (hn : lookup k s.cache = none) : lookup k (step c pr s o).1.cache = none := by
  rcases step_lookup_other c pr s o k h with h1 | h1
  · exact h1
  · rw [h1]; exact hn

theorem step_nsent_mono (c : Cfg) (pr : Params) (s : State) (o : Op) : s.nsent ≤ (step c pr s o).1.nsent := by
  cases o with
  | send t a p =>
    simp only [step, send]
    rcases sendK_cases c pr (advance t s) (mkKey c.sendKeyFmt a p) p with ⟨_, h2⟩ | ⟨cnt, ct, _, h2, _⟩ <;> rw [h2] <;> simp
  | verify t a p code hash =>
    simp only [step, verify]
    cases hl : lookup (mkKey c.verifyKeyFmt a p) (advance t s).cache with
    | none => rw [verifyK_none _ _ _ _ _ _ hl]; exact Nat.le_refl _
    | some e => rw [verifyK_some _ _ _ _ _ _ e hl]; exact Nat.le_refl _

/-- the clock never goes back, and after an operation it reads at least the operation's time -/
theorem step_now (c : Cfg) (pr : Params) (s : State) (o : Op) : (step c pr s o).1.now = max s.now o.time := by
  cases o with
  | send t a p =>
    simp only [step, send, Op.time]
    rcases sendK_cases c pr (advance t s) (mkKey c.sendKeyFmt a p) p with ⟨_, h2⟩ | ⟨cnt, ct, _, h2, _⟩ <;> rw [h2] <;> rfl
  | verify t a p code hash =>
    simp only [step, verify, Op.time]
    cases hl : lookup (mkKey c.verifyKeyFmt a p) (advance t s).cache with
    | none => rw [verifyK_none _ _ _ _ _ _ hl]; rfl
    | some e => rw [verifyK_some _ _ _ _ _ _ e hl]; rfl

/-! ### keys -/

/-- the dashed join is injective only on dash-free area codes -/
theorem mkKey_dashJoin_inj_dashfree : ∀ (a a' p p' : Str), '-' ∉ a → '-' ∉ a' →
    mkKey .dashJoin a p = mkKey .dashJoin a' p' → a = a' ∧ p = p'
  | [], [], p, p', _, _, h => by simpa [mkKey] using h
  | [], y :: a', p, p', _, h2, h => by
    simp [mkKey] at h; simp at h2; exact absurd h.1 h2.1
  | x :: a, [], p, p', h1, _, h => by
    simp [mkKey] at h; simp at h1; exact absurd h.1.symm h1.1
  | x :: a, y :: a', p, p', h1, h2, h => by
    simp only [mkKey, List.cons_append, List.cons.injEq] at h
    have := mkKey_dashJoin_inj_dashfree a a' p p' (fun m => h1 (by simp [m])) (fun m => h2 (by simp [m]))
      (by simpa [mkKey] using h.2)
    simp [h.1, this.1, this.2]

/-- value of a decimal digit string -/
def decVal (l : Str) : Nat := l.foldl (fun acc ch => acc * 10 + (ch.toNat - 48)) 0

theorem decVal_append_single (l : Str) (ch : Char) : decVal (l ++ [ch]) = decVal l * 10 + (ch.toNat - 48) := by
  simp [decVal, List.foldl_append]

theorem digitChar_val : ∀ d, d < 10 → (Nat.digitChar d).toNat - 48 = d := by decide
theorem digitChar_ne_colon : ∀ d, d < 10 → Nat.digitChar d ≠ ':' := by decide

theorem decF_val : ∀ (f n : Nat), n ≤ f → decVal (decF f n) = n
  | 0, n, h => by
    have : n = 0 := by omega
    subst this; rfl
  | f + 1, n, h => by
    unfold decF
    split
    · rename_i hlt; simp [decVal, digitChar_val n hlt]
    · rename_i hge
      rw [decVal_append_single, decF_val f (n / 10) (by omega), digitChar_val _ (Nat.mod_lt _ (by omega))]
      omega

theorem decF_no_colon : ∀ (f n : Nat), ':' ∉ decF f n
  | 0, n => by
    simp only [decF, List.mem_singleton]
    exact fun h => digitChar_ne_colon _ (Nat.mod_lt _ (by omega)) h.symm
  | f + 1, n => by
    unfold decF
    split
    · rename_i hlt; simp only [List.mem_singleton]; exact fun h => digitChar_ne_colon _ hlt h.symm
    · simp only [List.mem_append, List.mem_singleton, not_or]
      exact ⟨decF_no_colon f _, fun h => digitChar_ne_colon _ (Nat.mod_lt _ (by omega)) h.symm⟩

theorem dec_inj (n m : Nat) (h : dec n = dec m) : n = m := by
  have h1 := decF_val n n (Nat.le_refl _)
  have h2 := decF_val m m (Nat.le_refl _)
  unfold dec at h
  rw [h] at h1; omega

/-- splitting at the first ':' -/
theorem split_colon : ∀ (x y r r' : Str), ':' ∉ x → ':' ∉ y → x ++ ':' :: r = y ++ ':' :: r' → x = y ∧ r = r'
  | [], [], r, r', _, _, h => by simpa using h
  | [], b :: y, r, r', _, h2, h => by simp at h; simp at h2; exact absurd h.1 h2.1
  | a :: x, [], r, r', h1, _, h => by simp at h; simp at h1; exact absurd h.1.symm h1.1
  | a :: x, b :: y, r, r', h1, h2, h => by
    simp only [List.cons_append, List.cons.injEq] at h
    have := split_colon x y r r' (fun m => h1 (by simp [m])) (fun m => h2 (by simp [m])) h.2
    simp [h.1, this.1, this.2]

/-- **the length-prefixed key is injective for all strings** -/
theorem mkKey_lenPrefix_inj (a a' p p' : Str) (h : mkKey .lenPrefix a p = mkKey .lenPrefix a' p') :
    a = a' ∧ p = p' := by
  simp only [mkKey] at h
  have := split_colon _ _ _ _ (decF_no_colon _ _) (decF_no_colon _ _) h
  have hl := dec_inj _ _ this.1
  exact List.append_inj this.2 hl

/-- under a proved configuration an operation addresses the key of (a, p) iff it names that pair — for all strings -/
theorem key_eq_iff_pair (c : Cfg) (hc : Proved c) (o : Op) (a p : Str) :
    o.key c = mkKey .lenPrefix a p ↔ o.pair = (a, p) := by
  obtain ⟨h1, h2, _⟩ := hc
  cases o with
  | send t a' p' =>
    simp only [Op.key, Op.pair, h1, Prod.mk.injEq]
    exact ⟨fun h => mkKey_lenPrefix_inj a' a p' p h, fun ⟨x, y⟩ => by rw [x, y]⟩
  | verify t a' p' code hash =>
    simp only [Op.key, Op.pair, h2, Prod.mk.injEq]
    exact ⟨fun h => mkKey_lenPrefix_inj a' a p' p h, fun ⟨x, y⟩ => by rw [x, y]⟩

/-! ### genNonceStr -/

theorem nonceLoop_length (base : Str) (m : Nat) : ∀ (n : Nat) (vals : List Nat), (nonceLoop base m n vals).length = n
  | 0, _ => rfl
  | n + 1, vals => by simp [nonceLoop, nonceLoop_length base m n]

theorem getD_of_lt (base : Str) (i : Nat) (h : i < base.length) : base.getD i ' ' = base[i] := by
  simp [List.getD_eq_getElem?_getD, List.getElem?_eq_getElem h]

theorem getD_mem_of_lt (base : Str) (i : Nat) (h : i < base.length) : base.getD i ' ' ∈ base := by
  simp [List.getD_eq_getElem?_getD, List.getElem?_eq_getElem h]

theorem nonceLoop_mem (base : Str) (m : Nat) (hm : 0 < m) (hle : m ≤ base.length) :
    ∀ (n : Nat) (vals : List Nat) (x : Char), x ∈ nonceLoop base m n vals → x ∈ base.take m
  | 0, _, x, h => by simp [nonceLoop] at h
  | n + 1, vals, x, h => by
    simp only [nonceLoop, List.mem_cons] at h
    rcases h with h | h
    · have hlt : vals.headD 0 % m < m := Nat.mod_lt _ hm
      have hlt' : vals.headD 0 % m < base.length := Nat.lt_of_lt_of_le hlt hle
      rw [h, getD_of_lt base _ hlt', List.mem_take_iff_getElem]
      exact ⟨vals.headD 0 % m, by omega, rfl⟩
    · exact nonceLoop_mem base m hm hle n vals.tail x h

end Nv.C19
