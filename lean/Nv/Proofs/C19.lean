import Nv.Model.C19
/-!
C19 — helper lemmas: how one `step` changes the binding of a cache key, key injectivity of the
dashed format, and the basic facts about `nonceLoop`.
-/
namespace Nv.C19

/-! ### the cache -/

@[simp] theorem lookup_nil (k : Str) : lookup k [] = none := rfl
@[simp] theorem lookup_cons_self (k : Str) (e : Entry) (c : Cache) : lookup k ((k, e) :: c) = some e := by
  simp [lookup]
theorem lookup_cons_ne {k k' : Str} (h : k ≠ k') (e : Entry) (c : Cache) :
    lookup k ((k', e) :: c) = lookup k c := by
  simp [lookup, h]

/-- the key an operation addresses (send and verify build it with their own format) -/
def Op.key (c : Cfg) : Op → Str
  | .send a p => mkKey c.sendKeyFmt a p
  | .verify a p _ _ => mkKey c.verifyKeyFmt a p

def Op.isSend : Op → Bool
  | .send _ _ => true
  | .verify _ _ _ _ => false

def Op.area : Op → Str
  | .send a _ => a
  | .verify a _ _ _ => a

def Op.pair : Op → Str × Str
  | .send a p => (a, p)
  | .verify a p _ _ => (a, p)

/-- attempt counter / send counter of a key (0 when absent) -/
def vcOf (s : State) (k : Str) : Int := match lookup k s.cache with | some e => e.verifyCount | none => 0
def scOpt : Option Entry → Int
  | some e => e.sendCount
  | none => 0
def scOf (s : State) (k : Str) : Int := scOpt (lookup k s.cache)

/-! ### one send -/

/-- a send is either refused and changes nothing, or binds a fresh entry with zero attempts -/
theorem sendK_cases (pr : Params) (s : State) (key ph : Str) :
    ((sendK pr s key ph).2.accepted = none ∧ (sendK pr s key ph).1 = s) ∨
    (∃ cnt : Int, (sendK pr s key ph).2.accepted = some (s.nsent + 1) ∧
      (sendK pr s key ph).1 =
        ⟨(key, ⟨cnt + 1, 0, genCode pr ph (s.nsent + 1), s.nsent + 1⟩) :: s.cache, s.nsent + 1⟩ ∧
      checkSend pr (lookup key s.cache) = .ok cnt) := by
  unfold sendK
  cases h : checkSend pr (lookup key s.cache) with
  | error r =>
    left
    refine ⟨?_, rfl⟩
    simp only
    unfold checkSend at h
    split at h <;> (repeat' split at h) <;> simp_all [SendResult.accepted] <;> (subst h; rfl)
  | ok cnt =>
    right
    refine ⟨cnt, ?_, rfl, rfl⟩
    simp only
    split <;> rfl

/-- the counter a passing `checkSend` continues from -/
theorem checkSend_ok_cnt (pr : Params) (e : Option Entry) (cnt : Int) (h : checkSend pr e = .ok cnt) :
    (pr.windowRefreshes = true ∧ cnt = 0) ∨
    (pr.windowRefreshes = false ∧ cnt ≤ pr.maxCount ∧ cnt = scOpt e) := by
  unfold checkSend at h
  cases e with
  | none =>
    simp only at h
    split at h
    · left; simp_all
    · split at h
      · cases h
      · right; simp_all [scOpt] <;> omega
  | some e =>
    simp only at h
    split at h
    · cases h
    · split at h
      · left; simp_all
      · split at h
        · cases h
        · right; simp_all [scOpt] <;> omega

theorem checkSend_minb (pr : Params) (e : Entry) (h : pr.minIntervalBlocks = true) :
    checkSend pr (some e) = .error .tooFreq := by
  simp [checkSend, h]

/-! ### one verify -/

theorem verifyK_none (pr : Params) (s : State) (key : Str) (code : Code) (hash : Nat)
    (h : lookup key s.cache = none) : verifyK pr s key code hash = (s, .notExist) := by
  simp [verifyK, h]

theorem verifyK_some (pr : Params) (s : State) (key : Str) (code : Code) (hash : Nat) (e : Entry)
    (h : lookup key s.cache = some e) :
    verifyK pr s key code hash =
      (⟨(key, { e with verifyCount := e.verifyCount + 1 }) :: s.cache, s.nsent⟩,
        checkVerify pr { e with verifyCount := e.verifyCount + 1 } code hash) := by
  simp [verifyK, h]

/-- `ok` needs the stored code, the stored hash, a live code and an attempt number within the limit -/
theorem checkVerify_ok_iff (pr : Params) (e : Entry) (code : Code) (hash : Nat) :
    checkVerify pr e code hash = .ok ↔
      (e.verifyCount ≤ pr.maxVerify ∧ e.code = code ∧ e.hash = hash ∧ pr.ttlExpired = false) := by
  unfold checkVerify
  split
  · simp; omega
  · split
    · simp_all
    · split
      · simp_all
      · split <;> simp_all <;> omega

/-! ### one step, seen from a key -/

theorem step_lookup_other (c : Cfg) (pr : Params) (s : State) (o : Op) (k : Str) (h : o.key c ≠ k) :
    lookup k (step c pr s o).1.cache = lookup k s.cache := by
  cases o with
  | send a p =>
    simp only [step, send]
    rcases sendK_cases pr s (mkKey c.sendKeyFmt a p) p with ⟨_, h2⟩ | ⟨cnt, _, h2, _⟩
    · rw [h2]
    · rw [h2]; exact lookup_cons_ne (fun e => h e.symm) _ _
  | verify a p code hash =>
    simp only [step, verify]
    cases hl : lookup (mkKey c.verifyKeyFmt a p) s.cache with
    | none => rw [verifyK_none _ _ _ _ _ hl]
    | some e => rw [verifyK_some _ _ _ _ _ e hl]; exact lookup_cons_ne (fun e => h e.symm) _ _

theorem step_nsent_mono (c : Cfg) (pr : Params) (s : State) (o : Op) : s.nsent ≤ (step c pr s o).1.nsent := by
  cases o with
  | send a p =>
    simp only [step, send]
    rcases sendK_cases pr s (mkKey c.sendKeyFmt a p) p with ⟨_, h2⟩ | ⟨cnt, _, h2, _⟩ <;> rw [h2] <;> simp
  | verify a p code hash =>
    simp only [step, verify]
    cases hl : lookup (mkKey c.verifyKeyFmt a p) s.cache with
    | none => rw [verifyK_none _ _ _ _ _ hl]; exact Nat.le_refl _
    | some e => rw [verifyK_some _ _ _ _ _ e hl]; exact Nat.le_refl _

/-! ### keys: the dashed format is injective on dash-free area codes -/

theorem mkKey_dash_inj : ∀ (a a' p p' : Str), '-' ∉ a → '-' ∉ a' →
    mkKey .dash a p = mkKey .dash a' p' → a = a' ∧ p = p'
  | [], [], p, p', _, _, h => by simpa [mkKey] using h
  | [], y :: a', p, p', _, h2, h => by
    simp [mkKey] at h; simp at h2; exact absurd h.1 h2.1
  | x :: a, [], p, p', h1, _, h => by
    simp [mkKey] at h; simp at h1; exact absurd h.1.symm h1.1
  | x :: a, y :: a', p, p', h1, h2, h => by
    simp only [mkKey, List.cons_append, List.cons.injEq] at h
    have := mkKey_dash_inj a a' p p' (fun m => h1 (by simp [m])) (fun m => h2 (by simp [m])) (by simpa [mkKey] using h.2)
    simp [h.1, this.1, this.2]

/-- under a proved configuration an operation addresses the key of (a, p) iff it names that pair -/
theorem key_eq_iff_pair (c : Cfg) (hc : Proved c) (o : Op) (a p : Str) (ha : '-' ∉ a) (ho : '-' ∉ o.area) :
    o.key c = mkKey .dash a p ↔ o.pair = (a, p) := by
  obtain ⟨h1, h2, _⟩ := hc
  cases o with
  | send a' p' =>
    simp only [Op.key, Op.pair, h1, Prod.mk.injEq]
    exact ⟨fun h => mkKey_dash_inj a' a p' p ho ha h, fun ⟨x, y⟩ => by rw [x, y]⟩
  | verify a' p' code hash =>
    simp only [Op.key, Op.pair, h2, Prod.mk.injEq]
    exact ⟨fun h => mkKey_dash_inj a' a p' p ho ha h, fun ⟨x, y⟩ => by rw [x, y]⟩

/-! ### genNonceStr -/

theorem nonceLoop_length (base : Str) (m : Nat) : ∀ (n : Nat) (vals : List Nat), (nonceLoop base m n vals).length = n
  | 0, _ => rfl
  | n + 1, vals => by simp [nonceLoop, nonceLoop_length base m n]

theorem getD_of_lt (base : Str) (i : Nat) (h : i < base.length) : base.getD i ' ' = base[i] := by
  simp [List.getD_eq_getElem?_getD, List.getElem?_eq_getElem h]

theorem getD_mem_of_lt (base : Str) (i : Nat) (h : i < base.length) : base.getD i ' ' ∈ base := by
  simp [List.getD_eq_getElem?_getD, List.getElem?_eq_getElem h]

theorem nonceLoop_mem (base : Str) (m : Nat) (hm : 0 < m) (hle : m ≤ base.length) :
    ∀ (n : Nat) (vals : List Nat) (x : Char), x ∈ nonceLoop base m n vals → x ∈ base.take m
  | 0, _, x, h => by simp [nonceLoop] at h
  | n + 1, vals, x, h => by
    simp only [nonceLoop, List.mem_cons] at h
    rcases h with h | h
    · have hlt : vals.headD 0 % m < m := Nat.mod_lt _ hm
      have hlt' : vals.headD 0 % m < base.length := Nat.lt_of_lt_of_le hlt hle
      rw [h, getD_of_lt base _ hlt', List.mem_take_iff_getElem]
      exact ⟨vals.headD 0 % m, by omega, rfl⟩
    · exact nonceLoop_mem base m hm hle n vals.tail x h

end Nv.C19
