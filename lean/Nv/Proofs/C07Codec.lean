import Nv.Model.C07
import Nv.Proofs.C06Bits
set_option linter.unusedSimpArgs false
set_option linter.unusedVariables false
/-! C07 — order of ids vs. order of their (timestamp, remaining bits) pairs; id intervals of time intervals. -/
namespace Nv.C07
open Nv.C06

theorem lowMask_toNat {nb : BitVec 8} (hl : LayoutOk nb) : (lowMask nb).toNat = 2 ^ tsShift nb - 1 := by
  rcases hl with rfl | rfl | rfl <;> decide

/-- the remaining bits of an id, as a number -/
theorem rest_toNat {nb : BitVec 8} (hl : LayoutOk nb) (id : BitVec 64) : (rest id nb).toNat = id.toNat % 2 ^ tsShift nb := by
  unfold rest
  rw [BitVec.toNat_and, lowMask_toNat hl, Nat.and_two_pow_sub_one_eq_mod]

theorem rest_lt {nb : BitVec 8} (hl : LayoutOk nb) (id : BitVec 64) : (rest id nb).toNat < 2 ^ tsShift nb := by
  rw [rest_toNat hl]; exact Nat.mod_lt _ (Nat.pos_of_ne_zero (by simp))

/-- the timestamp field of a non-negative id, as a number -/
theorem ts_toNat {nb : BitVec 8} (hl : LayoutOk nb) (nal : Bool) {id : BitVec 64} (h : id.toNat < 2 ^ 63) :
    (idFields id nb nal).1.toNat = id.toNat / 2 ^ tsShift nb := (idFields_toNat hl nal h).1

theorem ts_toInt {nb : BitVec 8} (hl : LayoutOk nb) (nal : Bool) {id : BitVec 64} (h : id.toNat < 2 ^ 63) :
    (idFields id nb nal).1.toInt = ((id.toNat / 2 ^ tsShift nb : Nat) : Int) := by
  rw [← ts_toNat hl nal h]
  apply toInt_eq_toNat_of_lt
  have := (idFields_ranges hl nal h).1
  exact Nat.lt_of_lt_of_le this (by
    rcases hl with rfl | rfl | rfl <;> simp only [tsWidth, BitVec.toNat_ofNat, Nat.reduceMod, Nat.reduceSub, Nat.reducePow] <;> omega)

/-- an id is its timestamp shifted up plus its remaining bits -/
theorem id_eq_ts_rest {nb : BitVec 8} (hl : LayoutOk nb) (id : BitVec 64) :
    id.toNat = id.toNat / 2 ^ tsShift nb * 2 ^ tsShift nb + id.toNat % 2 ^ tsShift nb := by
  have := Nat.div_add_mod id.toNat (2 ^ tsShift nb)
  rw [Nat.mul_comm] at this; omega

/-- order of two numbers = lexicographic order of (quotient, remainder) -/
theorem lt_iff_lex (k a b : Nat) :
    a < b ↔ (a / 2 ^ k < b / 2 ^ k ∨ (a / 2 ^ k = b / 2 ^ k ∧ a % 2 ^ k < b % 2 ^ k)) := by
  have hp : 0 < 2 ^ k := Nat.pos_of_ne_zero (by simp)
  have ha := Nat.div_add_mod a (2 ^ k)
  have hb := Nat.div_add_mod b (2 ^ k)
  have ra := Nat.mod_lt a hp
  have rb := Nat.mod_lt b hp
  generalize a / 2 ^ k = qa at *
  generalize b / 2 ^ k = qb at *
  generalize a % 2 ^ k = xa at *
  generalize b % 2 ^ k = xb at *
  generalize 2 ^ k = p at *
  constructor
  · intro h
    rcases Nat.lt_trichotomy qa qb with hq | hq | hq
    · exact Or.inl hq
    · subst hq; right; exact ⟨rfl, by omega⟩
    · exfalso
      have : p * (qb + 1) ≤ p * qa := Nat.mul_le_mul_left p hq
      rw [Nat.mul_add] at this; omega
  · rintro (hq | ⟨hq, hr⟩)
    · have : p * (qa + 1) ≤ p * qb := Nat.mul_le_mul_left p hq
      rw [Nat.mul_add] at this; omega
    · subst hq; omega

/-! ### id intervals -/

theorem shl_toNat {nb : BitVec 8} (hl : LayoutOk nb) {m : BitVec 64} (hm : m.toNat < 2 ^ tsWidth nb) :
    (m <<< (nb + 12#8).toNat).toNat = m.toNat * 2 ^ tsShift nb := by
  rcases hl with rfl | rfl | rfl <;>
    simp only [tsShift, tsWidth, BitVec.toNat_shiftLeft, BitVec.toNat_add, BitVec.toNat_ofNat, Nat.reduceMod, Nat.reduceAdd,
      Nat.reduceSub, Nat.reducePow, Nat.shiftLeft_eq] at hm ⊢ <;> omega

theorem shl_or_mask_toNat {nb : BitVec 8} (hl : LayoutOk nb) {m : BitVec 64} (hm : m.toNat < 2 ^ tsWidth nb) :
    ((m <<< (nb + 12#8).toNat) ||| lowMask nb).toNat = m.toNat * 2 ^ tsShift nb + (2 ^ tsShift nb - 1) := by
  rw [BitVec.toNat_or, shl_toNat hl hm, lowMask_toNat hl]
  exact or_eq_add_nat _ _ _ (Nat.sub_lt (Nat.pos_of_ne_zero (by simp)) (by omega))

end Nv.C07
