import Nv.Proofs.C08Bits
/-! C08 — loop invariants of the dense and the sparse branch, and `iter64 = spec`. Core only. -/
namespace Nv.C08

/-! ### slice writes -/

theorem writeAt_nil {α} (s : List α) (p : Nat) (_h : p ≤ s.length) : writeAt s p [] = s := by
  simp [writeAt]

theorem set_eq_writeAt {α} (s : List α) (p : Nat) (v : α) (h : p < s.length) :
    s.set p v = s.take p ++ v :: s.drop (p + 1) := by
  rw [List.set_eq_take_append_cons_drop]; simp [h]

theorem writeAt_cons {α} (s : List α) (p : Nat) (v : α) (xs : List α) (h : p < s.length) :
    writeAt (s.set p v) (p + 1) xs = writeAt s p (v :: xs) := by
  unfold writeAt
  have h1 : (s.set p v).take (p + 1) = s.take p ++ [v] := by
    rw [set_eq_writeAt s p v h, List.take_append]
    have hl : (s.take p).length = p := by simp; omega
    simp [hl, List.take_take]
  have h2 : (s.set p v).drop (p + 1 + xs.length) = s.drop (p + (v :: xs).length) := by
    rw [List.drop_set_of_lt (by omega)]
    simp only [List.length_cons]
    congr 1; omega
  rw [h1, h2]; simp

theorem put_ok {α} (s : List α) (cursor : Int) (v : α) (h0 : 0 ≤ cursor) (h : cursor.toNat < s.length) :
    put s cursor v = some (s.set cursor.toNat v) := by
  simp [put, h0, h]

/-- number of values still to be produced: `min n l - c`, as a natural number -/
def room (n : Int) (l c : Nat) : Nat := min n.toNat l - c

theorem stop_iff (n : Int) (l c : Nat) : ((c : Int) ≥ n ∨ c ≥ l) ↔ room n l c = 0 := by
  unfold room; omega

/-- what a loop produces from word `w` scanning `idxs`, having produced `c` values already -/
def produced {w : Nat} (add : BitVec w) (n : Int) (l c : Nat) (idxs : List Nat) (word : Bit64) : List (BitVec w) :=
  ((idxs.filter word.getLsbD).take (room n l c)).map (fun i => BitVec.ofNat w i + add)

/-- invariant of the dense scan over any duplicate-free index list -/
theorem denseLoop_spec {w : Nat} (add : BitVec w) (n : Int) (l : Nat) :
    ∀ (idxs : List Nat), idxs.Nodup → (∀ i ∈ idxs, i < 64) →
    ∀ (s : List (BitVec w)) (cursor : Int) (c : Nat) (word : Bit64), 0 ≤ cursor →
      cursor.toNat + (produced add n l c idxs word).length ≤ s.length →
      ∃ word', denseLoop add n l idxs ⟨s, cursor, c, word⟩ =
        some ⟨writeAt s cursor.toNat (produced add n l c idxs word),
              cursor + (produced add n l c idxs word).length, c + (produced add n l c idxs word).length, word'⟩ := by
  intro idxs
  induction idxs with
  | nil =>
    intro _ _ s cursor c word h0 hroom
    refine ⟨word, ?_⟩
    simp [denseLoop, produced, writeAt]
  | cons i is ih =>
    intro hnd hlt s cursor c word h0 hroom
    have hi : i < 64 := hlt i (by simp)
    have hnd' := List.nodup_cons.1 hnd
    have hlt' : ∀ j ∈ is, j < 64 := fun j hj => hlt j (by simp [hj])
    unfold denseLoop
    simp only [test_bit word hi]
    by_cases hb : word.getLsbD i = true
    · simp only [hb, if_true]
      by_cases hstop : ((c : Int) ≥ n ∨ c ≥ l)
      · have hr := (stop_iff n l c).1 hstop
        refine ⟨word, ?_⟩
        simp [hstop, produced, hr, writeAt]
      · have hr : room n l c ≠ 0 := fun e => hstop ((stop_iff n l c).2 e)
        obtain ⟨k, hk⟩ : ∃ k, room n l c = k + 1 := ⟨room n l c - 1, by omega⟩
        have hk' : room n l (c + 1) = k := by unfold room at hk ⊢; omega
        have hfil : (i :: is).filter word.getLsbD = i :: is.filter word.getLsbD := by simp [hb]
        have hclr := filter_clear_not_mem (L := is) word hnd'.1
        have hprod : produced add n l c (i :: is) word =
            (BitVec.ofNat w i + add) :: produced add n l (c + 1) is (word &&& ~~~(bit i)) := by
          simp [produced, hfil, hk, hk', hclr]
        rw [hprod] at hroom ⊢
        simp only [List.length_cons] at hroom
        have hput := put_ok s cursor (BitVec.ofNat w i + add) h0 (by omega)
        simp only [hstop, if_false, hput]
        by_cases hz : (word &&& ~~~(bit i)) = 0#64
        · have : produced add n l (c + 1) is (word &&& ~~~(bit i)) = [] := by
            have hm : is.filter (word &&& ~~~(bit i)).getLsbD = [] := by
              rw [hz]; simp
            simp [produced, hm]
          refine ⟨word &&& ~~~(bit i), ?_⟩
          rw [this]
          have hlen : cursor.toNat < s.length := by omega
          have hw : writeAt s cursor.toNat [BitVec.ofNat w i + add] = s.set cursor.toNat (BitVec.ofNat w i + add) := by
            rw [set_eq_writeAt s _ _ hlen]; simp [writeAt]
          simp [hz, hw]
        · have hc0 : (0 : Int) ≤ cursor + 1 := by omega
          have hroom' : (cursor + 1).toNat + (produced add n l (c + 1) is (word &&& ~~~(bit i))).length ≤ (s.set cursor.toNat (BitVec.ofNat w i + add)).length := by
            simp only [List.length_set]; omega
          obtain ⟨word', hw⟩ := ih hnd'.2 hlt' (s.set cursor.toNat (BitVec.ofNat w i + add)) (cursor + 1) (c + 1) (word &&& ~~~(bit i)) hc0 hroom'
          refine ⟨word', ?_⟩
          have hzb : ((word &&& ~~~(bit i)) == 0#64) = false := by simpa using hz
          simp only [hzb, Bool.false_eq_true, if_false]
          rw [hw]
          have hcur : (cursor + 1).toNat = cursor.toNat + 1 := by omega
          rw [hcur, writeAt_cons s cursor.toNat _ _ (by omega)]
          simp only [List.length_cons]
          congr 2
          · omega
          · omega
    · have hb' : word.getLsbD i = false := by simpa using hb
      have hprod : produced add n l c (i :: is) word = produced add n l c is word := by
        simp [produced, hb']
      rw [hprod] at hroom ⊢
      simp only [hb', Bool.false_eq_true, if_false]
      exact ih hnd'.2 hlt' s cursor c word h0 hroom

/-- invariant of the find-first-set loop; the fuel bound is the number of set bits -/
theorem sparseLoop_spec {w : Nat} (rev : Bool) (add : BitVec w) (n : Int) (l : Nat) :
    ∀ (fuel : Nat) (s : List (BitVec w)) (cursor : Int) (c : Nat) (word : Bit64),
      ((order rev).filter word.getLsbD).length ≤ fuel → 0 ≤ cursor →
      cursor.toNat + (produced add n l c (order rev) word).length ≤ s.length →
      ∃ word', sparseLoop rev add n l fuel ⟨s, cursor, c, word⟩ =
        some ⟨writeAt s cursor.toNat (produced add n l c (order rev) word),
              cursor + (produced add n l c (order rev) word).length, c + (produced add n l c (order rev) word).length, word'⟩ := by
  intro fuel
  induction fuel with
  | zero =>
    intro s cursor c word hf h0 hroom
    have hnil : (order rev).filter word.getLsbD = [] := List.length_eq_zero_iff.1 (by omega)
    refine ⟨word, ?_⟩
    simp [sparseLoop, produced, hnil, writeAt]
  | succ fuel ih =>
    intro s cursor c word hf h0 hroom
    unfold sparseLoop
    by_cases hz : word = 0#64
    · refine ⟨word, ?_⟩
      have hnil : (order rev).filter word.getLsbD = [] := by rw [hz]; simp
      have hp : produced add n l c (order rev) word = [] := by simp [produced, hnil]
      rw [hp]
      simp [hz, writeAt]
    · have hzb : (word == 0#64) = false := by simpa using hz
      simp only [hzb, Bool.false_eq_true, if_false]
      have hfind := firstIdx_spec rev hz
      have hfil := filter_of_find (order_nodup rev) hfind
      rw [← filter_clear] at hfil
      have hidx : (if rev = true then bitlen64 word - 1 else tz64 word) = firstIdx rev word := rfl
      rw [hidx]
      generalize firstIdx rev word = i at hfil ⊢
      by_cases hstop : ((c : Int) ≥ n ∨ c ≥ l)
      · have hr := (stop_iff n l c).1 hstop
        refine ⟨word, ?_⟩
        simp [hstop, produced, hr, writeAt]
      · have hr : room n l c ≠ 0 := fun e => hstop ((stop_iff n l c).2 e)
        obtain ⟨k, hk⟩ : ∃ k, room n l c = k + 1 := ⟨room n l c - 1, by omega⟩
        have hk' : room n l (c + 1) = k := by unfold room at hk ⊢; omega
        have hprod : produced add n l c (order rev) word =
            (BitVec.ofNat w i + add) :: produced add n l (c + 1) (order rev) (word &&& ~~~(bit i)) := by
          simp [produced, hfil, hk, hk']
        rw [hprod] at hroom ⊢
        simp only [List.length_cons] at hroom
        have hput := put_ok s cursor (BitVec.ofNat w i + add) h0 (by omega)
        simp only [hstop, if_false, hput]
        have hc0 : (0 : Int) ≤ cursor + 1 := by omega
        have hroom' : (cursor + 1).toNat + (produced add n l (c + 1) (order rev) (word &&& ~~~(bit i))).length ≤ (s.set cursor.toNat (BitVec.ofNat w i + add)).length := by
          simp only [List.length_set]; omega
        have hf' : ((order rev).filter (word &&& ~~~(bit i)).getLsbD).length ≤ fuel := by
          rw [hfil] at hf; simp only [List.length_cons] at hf; omega
        obtain ⟨word', hw⟩ := ih (s.set cursor.toNat (BitVec.ofNat w i + add)) (cursor + 1) (c + 1) (word &&& ~~~(bit i)) hf' hc0 hroom'
        refine ⟨word', ?_⟩
        rw [hw]
        have hcur : (cursor + 1).toNat = cursor.toNat + 1 := by omega
        rw [hcur, writeAt_cons s cursor.toNat _ _ (by omega)]
        simp only [List.length_cons]
        congr 2
        · omega
        · omega

theorem take_min_length {α} (L : List α) (a : Nat) : L.take (min a L.length) = L.take a := by
  by_cases h : a ≤ L.length
  · rw [Nat.min_eq_left h]
  · rw [Nat.min_eq_right (by omega), List.take_length, List.take_of_length_le (by omega)]

/-- with `l = popcount` and nothing produced yet, a loop over the whole order yields the specified list -/
theorem produced_eq_expected {w : Nat} (rev : Bool) (b : Bit64) (add : BitVec w) (n : Int) :
    produced add n (members b).length 0 (order rev) b = expected rev (members b) add n := by
  unfold produced expected room
  rw [filter_order]
  cases rev
  · simp only [Bool.false_eq_true, if_false, Nat.sub_zero]
    rw [take_min_length]
  · simp only [if_true, Nat.sub_zero]
    have : (members b).length = (members b).reverse.length := by simp
    rw [this, take_min_length]

/-- **iter64 = spec**, for every threshold: the first `min n (popcount b)` members in the direction's order,
    offset by `add`, are written from `pos`; nothing else changes; that count is returned. -/
theorem iter64_eq_spec {w : Nat} (magic : Int) (rev : Bool) (b : Bit64) (s : List (BitVec w)) (pos : Int)
    (add : BitVec w) (n : Int) (h0 : 0 ≤ pos)
    (hroom : pos.toNat + (expected rev (members b) add n).length ≤ s.length) :
    iter64 magic rev b s pos add n =
      some (writeAt s pos.toNat (expected rev (members b) add n), (expected rev (members b) add n).length) := by
  unfold iter64
  simp only [len64_eq]
  by_cases hl : (members b).length = 0
  · have hnil : members b = [] := List.length_eq_zero_iff.1 hl
    simp [hnil, expected, writeAt]
  · simp only [hl, if_false]
    rw [← produced_eq_expected] at hroom ⊢
    split
    · obtain ⟨w', hw⟩ := denseLoop_spec add n (members b).length (order rev) (order_nodup rev) order_lt s pos 0 b h0 hroom
      rw [hw]; simp
    · have hf : ((order rev).filter b.getLsbD).length ≤ 64 := by
        have h1 := List.length_filter_le b.getLsbD (order rev)
        have h2 : (order rev).length = 64 := by cases rev <;> simp [order]
        omega
      obtain ⟨w', hw⟩ := sparseLoop_spec rev add n (members b).length 64 s pos 0 b hf h0 hroom
      rw [hw]; simp

end Nv.C08
