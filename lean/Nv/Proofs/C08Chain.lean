import Nv.Proofs.C08Iter
import Nv.Proofs.C08Set
/-! C08 — the 16-word chaining loop of `Bit1024.IterAs*` and `iter1024 = spec`. Core only. -/
namespace Nv.C08

theorem writeAt_append {α} (s : List α) (p : Nat) (xs ys : List α) (h : p + xs.length + ys.length ≤ s.length) :
    writeAt (writeAt s p xs) (p + xs.length) ys = writeAt s p (xs ++ ys) := by
  unfold writeAt
  have hl : (s.take p).length = p := by simp; omega
  have h1 : (s.take p ++ xs ++ s.drop (p + xs.length)).take (p + xs.length) = s.take p ++ xs := by
    rw [List.take_append_of_le_length (by simp [hl])]
    rw [List.take_of_length_le (by simp [hl])]
  have h2 : (s.take p ++ xs ++ s.drop (p + xs.length)).drop (p + xs.length + ys.length) = s.drop (p + (xs ++ ys).length) := by
    rw [List.drop_append]
    have : (s.take p ++ xs).length = p + xs.length := by simp [hl]
    rw [this, List.drop_of_length_le (by omega)]
    simp only [List.nil_append, List.drop_drop, List.length_append]
    congr 1; omega
  rw [h1, h2]; simp

/-- what one word contributes, in full -/
def blockOut {w : Nat} (c : Cfg) (rev : Bool) (add : BitVec w) (p : Bit64 × Nat) : List (BitVec w) :=
  (if rev then (members p.1).reverse else members p.1).map (fun i => BitVec.ofNat w i + (BitVec.ofNat w (c.b64 * p.2) + add))

theorem expected_eq_take_blockOut {w : Nat} (c : Cfg) (rev : Bool) (add : BitVec w) (p : Bit64 × Nat) (m : Int) :
    expected rev (members p.1) (BitVec.ofNat w (c.b64 * p.2) + add) m = (blockOut c rev add p).take m.toNat := by
  unfold expected blockOut
  rw [List.map_take]

/-- invariant of the chaining loop over any list of (word, index) pairs -/
theorem chain_spec {w : Nat} (c : Cfg) (magic : Int) (rev : Bool) (add : BitVec w) (n : Int) :
    ∀ (ws : List (Bit64 × Nat)) (s : List (BitVec w)) (cursor : Int) (iterN : Nat), 0 ≤ cursor →
      cursor.toNat + ((ws.flatMap (blockOut c rev add)).take (n.toNat - iterN)).length ≤ s.length →
      chain c magic rev add n ws s cursor iterN =
        some (writeAt s cursor.toNat ((ws.flatMap (blockOut c rev add)).take (n.toNat - iterN)),
              iterN + ((ws.flatMap (blockOut c rev add)).take (n.toNat - iterN)).length) := by
  intro ws
  induction ws with
  | nil =>
    intro s cursor iterN h0 hroom
    simp [chain, writeAt]
  | cons p rest ih =>
    intro s cursor iterN h0 hroom
    obtain ⟨wd, k⟩ := p
    unfold chain
    by_cases hstop : (iterN : Int) ≥ n
    · have : n.toNat - iterN = 0 := by omega
      simp [hstop, this, writeAt]
    · simp only [hstop, if_false]
      have hm : (n - (iterN : Int)).toNat = n.toNat - iterN := by omega
      have hexp := expected_eq_take_blockOut c rev add (wd, k) (n - (iterN : Int))
      simp only at hexp
      rw [hm] at hexp
      simp only [List.flatMap_cons, List.take_append] at hroom ⊢
      simp only [List.length_append] at hroom
      generalize hB : blockOut c rev add (wd, k) = B at hexp hroom ⊢
      generalize hm' : n.toNat - iterN = m at hexp hroom ⊢
      have hroom1 : cursor.toNat + (expected rev (members wd) (BitVec.ofNat w (c.b64 * k) + add) (n - iterN)).length ≤ s.length := by
        rw [hexp]; omega
      rw [iter64_eq_spec magic rev wd s cursor _ _ h0 hroom1, hexp]
      simp only
      have hlen : (B.take m).length = min m B.length := by simp
      have hrest : n.toNat - (iterN + (B.take m).length) = m - B.length := by omega
      have hc0 : (0 : Int) ≤ cursor + ((B.take m).length : Nat) := by omega
      have hcur : (cursor + ((B.take m).length : Nat)).toNat = cursor.toNat + (B.take m).length := by omega
      have hroom2 : (cursor + ((B.take m).length : Nat)).toNat +
          ((rest.flatMap (blockOut c rev add)).take (n.toNat - (iterN + (B.take m).length))).length ≤
          (writeAt s cursor.toNat (B.take m)).length := by
        rw [hcur, hrest]
        have : (writeAt s cursor.toNat (B.take m)).length = s.length := by
          unfold writeAt; simp; omega
        rw [this]; omega
      rw [ih _ _ _ hc0 hroom2, hcur, hrest]
      rw [writeAt_append _ _ _ _ (by omega)]
      simp only [List.length_append]
      congr 2
      omega

/-! ### the 1024-bit member list is the concatenation of the per-word member lists -/

theorem flatMap_congr' {α β} {l : List α} {f g : α → List β} (h : ∀ a ∈ l, f a = g a) :
    l.flatMap f = l.flatMap g := by
  induction l with
  | nil => rfl
  | cons a l ih =>
    simp only [List.flatMap_cons]
    rw [h a (by simp), ih (fun x hx => h x (by simp [hx]))]

theorem filter_range_blocks (p : Nat → Bool) : ∀ n : Nat,
    (List.range (n * 64)).filter p =
      (List.range n).flatMap (fun k => ((List.range 64).filter (fun i => p (64 * k + i))).map (fun i => 64 * k + i))
  | 0 => by simp
  | n + 1 => by
    have : (n + 1) * 64 = n * 64 + 64 := by omega
    rw [this, List.range_add, List.filter_append, filter_range_blocks p n, show List.range (n + 1) = List.range n ++ [n] from List.range_succ, List.flatMap_append]
    congr 1
    simp only [List.flatMap_cons, List.flatMap_nil, List.append_nil, List.filter_map]
    have : n * 64 = 64 * n := by omega
    simp only [this]
    rfl

theorem members1024_blocks (b : Bit1024) :
    members1024 b = (List.range 16).flatMap (fun k => (members (word b k)).map (fun i => 64 * k + i)) := by
  unfold members1024
  have h1024 : (1024 : Nat) = 16 * 64 := by omega
  rw [h1024, filter_range_blocks (mem1024 b) 16]
  apply flatMap_congr'
  intro k _
  congr 1
  unfold members
  apply List.filter_congr
  intro i hi
  have hi' : i < 64 := List.mem_range.1 hi
  rw [mem1024_eq_word]
  congr 2 <;> omega

theorem wordsOf_fwd (c : Cfg) (hc : Proved c) (b : Bit1024) :
    wordsOf c false b = (List.range 16).map (fun k => (word b k, k)) := by
  unfold wordsOf
  simp only [hc.2, Bool.false_eq_true, if_false]
  apply List.ext_getElem
  · simp
  · intro i h1 h2
    have hi : i < 16 := by simpa using h2
    simp [word, hi]

theorem wordsOf_rev (c : Cfg) (hc : Proved c) (b : Bit1024) :
    wordsOf c true b = ((List.range 16).map (fun k => (word b k, k))).reverse := by
  have := wordsOf_fwd c hc b
  unfold wordsOf at this ⊢
  simp only [Bool.false_eq_true, if_false] at this
  simp only [if_true, this]

theorem ofNat_block {w : Nat} (k i : Nat) (add : BitVec w) :
    BitVec.ofNat w (64 * k + i) + add = BitVec.ofNat w i + (BitVec.ofNat w (64 * k) + add) := by
  rw [BitVec.ofNat_add]
  ac_rfl

theorem flatMap_blockOut {w : Nat} (c : Cfg) (hc : Proved c) (rev : Bool) (add : BitVec w) (b : Bit1024) :
    (wordsOf c rev b).flatMap (blockOut c rev add) =
      (if rev then (members1024 b).reverse else members1024 b).map (fun i => BitVec.ofNat w i + add) := by
  cases rev
  · rw [wordsOf_fwd c hc, members1024_blocks]
    simp only [Bool.false_eq_true, if_false, List.flatMap_map, List.map_flatMap, blockOut, hc.1, List.map_map]
    apply flatMap_congr'
    intro k _
    apply List.map_congr_left
    intro i _
    simp [ofNat_block]
  · rw [wordsOf_rev c hc, members1024_blocks]
    simp only [if_true, List.reverse_flatMap, List.map_flatMap, ← List.map_reverse, List.flatMap_map, blockOut, hc.1]
    apply flatMap_congr'
    intro k _
    simp only [Function.comp_def, List.map_reverse, List.map_map]
    congr 1
    apply List.map_congr_left
    intro i _
    simp [ofNat_block]

/-- **iter1024 = spec** for every threshold, width, direction -/
theorem iter1024_eq_spec {w : Nat} (c : Cfg) (hc : Proved c) (magic : Int) (rev : Bool) (b : Bit1024)
    (s : List (BitVec w)) (pos : Int) (add : BitVec w) (n : Int) (h0 : 0 ≤ pos)
    (hroom : pos.toNat + (expected rev (members1024 b) add n).length ≤ s.length) :
    iter1024 c magic rev b s pos add n =
      some (writeAt s pos.toNat (expected rev (members1024 b) add n), (expected rev (members1024 b) add n).length) := by
  unfold iter1024
  have hE : expected rev (members1024 b) add n = ((wordsOf c rev b).flatMap (blockOut c rev add)).take (n.toNat - 0) := by
    rw [flatMap_blockOut c hc]; unfold expected; rw [List.map_take]; simp
  rw [hE] at hroom ⊢
  rw [chain_spec c magic rev add n _ s pos 0 h0 hroom]
  simp

end Nv.C08
