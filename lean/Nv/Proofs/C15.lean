import Nv.Model.C15
/-! C15 — helper lemmas: association-list store, cache facade, callback specifications. -/
namespace Nv.C15

/-! ### store / entry lists -/

theorem sGet_sErase (s : Store) (k k' : Key) :
    sGet (sErase s k) k' = if k' = k then none else sGet s k' := by
  induction s with
  | nil => simp [sErase, sGet]
  | cons p rest ih =>
    obtain ⟨a, b⟩ := p
    by_cases h : a = k
    · subst h
      simp only [sErase, if_true, ih, sGet]
      by_cases h2 : k' = a
      · simp [h2]
      · have : ¬ a = k' := fun e => h2 e.symm
        simp [h2, this]
    · simp only [sErase, h, if_false, sGet, ih]
      by_cases h2 : a = k'
      · subst h2; simp [h]
      · simp [h2]

theorem sGet_sSet (s : Store) (k k' : Key) (v : Val) :
    sGet (sSet s k v) k' = if k' = k then some v else sGet s k' := by
  unfold sSet
  simp only [sGet, sGet_sErase]
  by_cases h : k = k'
  · subst h; simp
  · have : ¬ k' = k := fun e => h e.symm
    simp [h, this]

theorem mem_sErase {s : Store} {k : Key} {p : Key × Val} (h : p ∈ sErase s k) : p ∈ s ∧ p.1 ≠ k := by
  induction s with
  | nil => simp [sErase] at h
  | cons q rest ih =>
    obtain ⟨a, b⟩ := q
    by_cases hk : a = k
    · simp only [sErase, hk, if_true] at h
      have := ih h
      exact ⟨List.mem_cons_of_mem _ this.1, this.2⟩
    · simp only [sErase, hk, if_false, List.mem_cons] at h
      rcases h with h | h
      · subst h; exact ⟨List.mem_cons_self .., hk⟩
      · have := ih h
        exact ⟨List.mem_cons_of_mem _ this.1, this.2⟩

theorem sGet_mem {s : Store} {k : Key} {v : Val} (h : sGet s k = some v) : (k, v) ∈ s := by
  induction s with
  | nil => simp [sGet] at h
  | cons q rest ih =>
    obtain ⟨a, b⟩ := q
    by_cases hk : a = k
    · simp only [sGet, hk, if_true, Option.some.injEq] at h
      subst h; subst hk; exact List.mem_cons_self ..
    · simp only [sGet, hk, if_false] at h
      exact List.mem_cons_of_mem _ (ih h)

theorem sGet_none_not_mem {s : Store} {k : Key} (h : sGet s k = none) (v : Val) : (k, v) ∉ s := by
  induction s with
  | nil => simp
  | cons q rest ih =>
    obtain ⟨a, b⟩ := q
    by_cases hk : a = k
    · simp [sGet, hk] at h
    · simp only [sGet, hk, if_false] at h
      intro hm
      rcases List.mem_cons.1 hm with e | e
      · exact hk (by cases e; rfl)
      · exact ih h e

/-! ### coherence of one cache with a store -/

def CohC (st : Store) (c : Cache) : Prop := ∀ k v, (k, v) ∈ c.ents → sGet st k = some v

/-- the cache holds no entry for k -/
def NoKey (c : Cache) (k : Key) : Prop := ∀ v, (k, v) ∉ c.ents

/-- the store changed at most at key k -/
def Frame (k : Key) (st st' : Store) : Prop := ∀ k', k' ≠ k → sGet st' k' = sGet st k'

theorem Frame.refl (k : Key) (st : Store) : Frame k st st := fun _ _ => rfl
theorem Frame.trans {k : Key} {a b c : Store} (h1 : Frame k a b) (h2 : Frame k b c) : Frame k a c :=
  fun k' hk => (h2 k' hk).trans (h1 k' hk)
theorem frame_sSet (k : Key) (st : Store) (v : Val) : Frame k st (sSet st k v) := by
  intro k' hk; simp [sGet_sSet, hk]
theorem frame_sErase (k : Key) (st : Store) : Frame k st (sErase st k) := by
  intro k' hk; simp [sGet_sErase, hk]

theorem mem_of_mem_fit (sized : Bool) (cap : Nat) : ∀ (acc : Nat) (l : List (Key × Val)) {p : Key × Val},
    p ∈ fit sized cap acc l → p ∈ l
  | _, [], _, h => by simp [fit] at h
  | acc, e :: es, p, h => by
    simp only [fit] at h
    split at h
    · rcases List.mem_cons.1 h with h | h
      · subst h; exact List.mem_cons_self ..
      · exact List.mem_cons_of_mem _ (mem_of_mem_fit sized cap _ es h)
    · cases h

theorem mem_cSet {c : Cache} {k : Key} {v : Val} {p : Key × Val} (h : p ∈ (cSet c k v).ents) :
    p = (k, v) ∨ (p ∈ c.ents ∧ p.1 ≠ k) := by
  unfold cSet at h
  simp only at h
  have h' : p ∈ (k, v) :: sErase c.ents k := by
    split at h
    · exact mem_of_mem_fit _ _ _ _ h
    · exact h
  rcases List.mem_cons.1 h' with e | e
  · exact Or.inl e
  · exact Or.inr (mem_sErase e)

theorem cohC_frame {st st' : Store} {c : Cache} {k : Key} (h : CohC st c) (hf : Frame k st st')
    (hn : NoKey c k) : CohC st' c := by
  intro k' v hm
  by_cases hk : k' = k
  · subst hk; exact absurd hm (hn v)
  · rw [hf k' hk]; exact h k' v hm

theorem cohC_cSet {st st' : Store} {c : Cache} {k : Key} {v : Val} (h : CohC st c) (hf : Frame k st st')
    (hv : sGet st' k = some v) : CohC st' (cSet c k v) := by
  intro k' v' hm
  rcases mem_cSet hm with e | ⟨hin, hne⟩
  · cases e; exact hv
  · rw [hf k' hne]; exact h k' v' hin

theorem cohC_cDelete {st st' : Store} {c : Cache} {k : Key} (h : CohC st c) (hf : Frame k st st') :
    CohC st' (cDelete c k) := by
  intro k' v' hm
  have := mem_sErase (show (k', v') ∈ sErase c.ents k from hm)
  rw [hf k' this.2]; exact h k' v' this.1

theorem noKey_cDelete (c : Cache) (k : Key) : NoKey (cDelete c k) k := by
  intro v hm
  exact (mem_sErase (show (k, v) ∈ sErase c.ents k from hm)).2 rfl

theorem cPeek_cDelete (c : Cache) (k : Key) : cPeek (cDelete c k) k = none := by
  simp [cPeek, cDelete, sGet_sErase]

theorem noKey_of_cPeek_none {c : Cache} {k : Key} (h : cPeek c k = none) : NoKey c k :=
  fun v => sGet_none_not_mem h v

theorem cGet_fst (c : Cache) (k : Key) : (cGet c k).1 = cPeek c k := by
  unfold cGet cPeek; split <;> simp_all

theorem mem_cGet {c : Cache} {k : Key} {p : Key × Val} (h : p ∈ (cGet c k).2.ents) : p ∈ c.ents := by
  unfold cGet at h
  split at h
  · exact h
  · rename_i v hv
    simp only at h
    split at h
    · rcases List.mem_cons.1 h with e | e
      · subst e; exact sGet_mem hv
      · exact (mem_sErase e).1
    · exact h

theorem cohC_cGet {st : Store} {c : Cache} (k : Key) (h : CohC st c) : CohC st (cGet c k).2 :=
  fun k' v hm => h k' v (mem_cGet hm)

theorem noKey_cGet {c : Cache} {k : Key} (h : cPeek c k = none) : (cGet c k).2 = c := by
  unfold cGet; unfold cPeek at h; simp [h]

/-! ### what one callback invocation does -/

theorem call_store (c : Ctx) (cb : Cb) : (c.call cb).2.store = c.store ∧ (c.call cb).2.cache = c.cache := by
  unfold Ctx.call; split <;> simp

theorem callLoad_spec {c c1 : Ctx} {k : Key} {r : Except Err Val} (h : callLoad c k = (r, c1)) :
    c1.store = c.store ∧ c1.cache = c.cache ∧ (∀ v, r = .ok v → sGet c.store k = some v) ∧
    (r = .error .notFound → sGet c.store k = none) := by
  have hc := call_store c .load
  unfold callLoad at h
  simp only at h
  split at h
  · cases h
    refine ⟨hc.1, hc.2, ?_, ?_⟩
    · intro v hv; cases hv
    · intro hv; cases hv
  · split at h
    · rename_i v hv
      cases h
      rw [hc.1] at hv
      refine ⟨hc.1, hc.2, ?_, ?_⟩
      · intro v' e; cases e; exact hv
      · intro e; cases e
    · rename_i hv
      cases h
      rw [hc.1] at hv
      refine ⟨hc.1, hc.2, ?_, ?_⟩
      · intro v' e; cases e
      · intro _; exact hv

/-- shape shared by the mutating callbacks: cache untouched, store changed at most at k, on success the
store holds the returned value, on failure the store is unchanged -/
def MutSpec (k : Key) (c c1 : Ctx) (r : Except Err Val) : Prop :=
  c1.cache = c.cache ∧ Frame k c.store c1.store ∧
    (∀ v', r = .ok v' → sGet c1.store k = some v') ∧ (∀ e, r = .error e → c1.store = c.store)

theorem mutSpec_fail {k : Key} {c c1 : Ctx} {e : Err} (h1 : c1.store = c.store) (h2 : c1.cache = c.cache) :
    MutSpec k c c1 (.error e) := by
  refine ⟨h2, ?_, ?_, ?_⟩
  · rw [h1]; exact Frame.refl _ _
  · intro _ e; cases e
  · intro _ _; exact h1

theorem mutSpec_set {k : Key} {c c0 c1 : Ctx} {v : Val} (h0s : c0.store = c.store) (h0c : c0.cache = c.cache)
    (h1 : c1 = { c0 with store := sSet c0.store k v }) : MutSpec k c c1 (.ok v) := by
  subst h1
  refine ⟨h0c, ?_, ?_, ?_⟩
  · simp only [h0s]; exact frame_sSet _ _ _
  · intro v' e; cases e; simp [sGet_sSet]
  · intro _ e; cases e

theorem callAdd_spec {c c1 : Ctx} {k : Key} {v : Val} {r : Except Err Val} (h : callAdd c k v = (r, c1)) :
    MutSpec k c c1 r := by
  have hc := call_store c .add
  unfold callAdd at h
  simp only at h
  split at h
  · cases h; exact mutSpec_fail hc.1 hc.2
  · split at h
    · cases h; exact mutSpec_fail hc.1 hc.2
    · cases h; exact mutSpec_set hc.1 hc.2 rfl

theorem callUpd_spec {c c1 : Ctx} {k : Key} {v e0 : Val} {r : Except Err Val} (h : callUpd c k v e0 = (r, c1)) :
    MutSpec k c c1 r := by
  have hc := call_store c .upd
  unfold callUpd at h
  simp only at h
  split at h
  · cases h; exact mutSpec_fail hc.1 hc.2
  · split at h
    · cases h; exact mutSpec_fail hc.1 hc.2
    · cases h; exact mutSpec_set hc.1 hc.2 rfl

/-- upsert handed the existing item: the full contract -/
theorem callUpsert_spec {c c1 : Ctx} {k : Key} {v e0 : Val} {r : Except Err Val}
    (h : callUpsert c k v (some e0) = (r, c1)) : MutSpec k c c1 r := by
  have hc := call_store c .upsert
  unfold callUpsert at h
  simp only at h
  split at h
  · cases h; exact mutSpec_fail hc.1 hc.2
  · cases h; exact mutSpec_set hc.1 hc.2 rfl

/-- upsert without the existing item may return a partial row: only the frame is guaranteed -/
theorem callUpsert_frame {c c1 : Ctx} {k : Key} {v : Val} {e0 : Option Val} {r : Except Err Val}
    (h : callUpsert c k v e0 = (r, c1)) : c1.cache = c.cache ∧ Frame k c.store c1.store := by
  have hc := call_store c .upsert
  unfold callUpsert at h
  simp only at h
  split at h
  · cases h; exact ⟨hc.2, by rw [hc.1]; exact Frame.refl _ _⟩
  · split at h <;> cases h <;> exact ⟨hc.2, by simp only [hc.1]; exact frame_sSet _ _ _⟩

theorem callDel_spec {c c1 : Ctx} {k : Key} {r : Except Err Unit} (h : callDel c k = (r, c1)) :
    c1.cache = c.cache ∧ Frame k c.store c1.store ∧
    (r = .ok () → sGet c1.store k = none) ∧ (∀ e, r = .error e → c1.store = c.store) := by
  have hc := call_store c .del
  unfold callDel at h
  simp only at h
  split at h
  · cases h
    refine ⟨hc.2, ?_, ?_, ?_⟩
    · rw [hc.1]; exact Frame.refl _ _
    · intro e; cases e
    · intro _ _; exact hc.1
  · cases h
    refine ⟨hc.2, ?_, ?_, ?_⟩
    · simp only [hc.1]; exact frame_sErase _ _
    · intro _; simp [sGet_sErase]
    · intro _ e; cases e

end Nv.C15
