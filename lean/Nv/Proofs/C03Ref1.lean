import Nv.Proofs.C03Get
import Nv.Proofs.C03Cow8
/-!
C03 — refinement of the store model (layer B) by the value model (layer A), part 1: why a well-formed tree in the
store cannot alias. In a node whose in-order list is strictly sorted, an item occurs in exactly one place; hence a
store cell with at least one item cannot sit under two different children of a node, nor under itself. Cells without
items (fresh cells, parked cells) cannot sit inside a subtree whose nodes all hold ≥ minItems ≥ 1 items.
-/
namespace Nv.C03

/-! ### layer A: where items of children and of the node itself sit in a sorted in-order list -/

theorem mem_interleave_of_child : ∀ (is : List Item) (cs : List Node) (c : Node) (y : Item),
    cs.length = is.length + 1 → c ∈ cs → y ∈ c.inorder → y ∈ interleave is cs
  | _, [], _, _, h, _, _ => by simp at h
  | [], [d], c, y, _, hc, hy => by simp at hc; subst hc; simpa using hy
  | [], _ :: _ :: _, _, _, h, _, _ => by simp at h
  | i :: is, d :: ds, c, y, h, hc, hy => by
    simp only [interleave_cons_cons, List.mem_append, List.mem_cons]
    rcases List.mem_cons.1 hc with rfl | hc
    · exact Or.inl hy
    · exact Or.inr (Or.inr (mem_interleave_of_child is ds c y (by simpa using h) hc hy))

theorem mem_interleave_of_item : ∀ (is : List Item) (cs : List Node) (y : Item),
    cs.length = is.length + 1 → y ∈ is → y ∈ interleave is cs
  | [], _, _, _, hy => by simp at hy
  | _ :: _, [], _, h, _ => by simp at h
  | i :: is, d :: ds, y, h, hy => by
    simp only [interleave_cons_cons, List.mem_append, List.mem_cons]
    rcases List.mem_cons.1 hy with rfl | hy
    · exact Or.inr (Or.inl rfl)
    · exact Or.inr (Or.inr (mem_interleave_of_item is ds y (by simpa using h) hy))

/-- an item of the node does not occur (by key) inside any child -/
theorem item_not_in_child : ∀ (is : List Item) (cs : List Node), cs.length = is.length + 1 → Sorted (interleave is cs) →
    ∀ it ∈ is, ∀ c ∈ cs, ∀ y ∈ c.inorder, y.key ≠ it.key
  | [], _, _, _, it, hit, _, _, _, _ => by simp at hit
  | _ :: _, [], h, _, _, _, _, _, _, _ => by simp at h
  | i :: is, d :: ds, h, hs, it, hit, c, hc, y, hy => by
    have hl : ds.length = is.length + 1 := by simpa using h
    simp only [interleave_cons_cons] at hs
    have hs2 := hs.append_right
    rcases List.mem_cons.1 hit with rfl | hit
    · rcases List.mem_cons.1 hc with rfl | hc
      · have := hs.lt_of_append hy List.mem_cons_self; omega
      · have := hs2.head_lt (mem_interleave_of_child is ds c y hl hc hy); omega
    · rcases List.mem_cons.1 hc with rfl | hc
      · have := hs.lt_of_append hy (List.mem_cons_of_mem _ (mem_interleave_of_item is ds it hl hit)); omega
      · exact item_not_in_child is ds hl hs2.tail it hit c hc y hy

/-- two different children share no key -/
theorem children_disjoint : ∀ (is : List Item) (cs : List Node), cs.length = is.length + 1 → Sorted (interleave is cs) →
    ∀ (i j : Nat) (a b : Node), i < j → cs[i]? = some a → cs[j]? = some b → ∀ x ∈ a.inorder, ∀ y ∈ b.inorder, x.key < y.key
  | _, [], h, _, _, _, _, _, _, _, _, _, _, _, _ => by simp at h
  | [], [d], _, _, i, j, a, b, hij, ha, hb, _, _, _, _ => by
    cases j with
    | zero => omega
    | succ j => simp at hb
  | [], _ :: _ :: _, h, _, _, _, _, _, _, _, _, _, _, _, _ => by simp at h
  | it :: is, d :: ds, h, hs, i, j, a, b, hij, ha, hb, x, hx, y, hy => by
    have hl : ds.length = is.length + 1 := by simpa using h
    simp only [interleave_cons_cons] at hs
    cases j with
    | zero => omega
    | succ j =>
      simp only [List.getElem?_cons_succ] at hb
      have hbm : b ∈ ds := List.mem_of_getElem? hb
      have hyr : y ∈ interleave is ds := mem_interleave_of_child is ds b y hl hbm hy
      cases i with
      | zero =>
        simp only [List.getElem?_cons_zero, Option.some.injEq] at ha; subst ha
        have h1 := hs.lt_of_append hx List.mem_cons_self
        have h2 := hs.append_right.head_lt hyr
        omega
      | succ i =>
        simp only [List.getElem?_cons_succ] at ha
        exact children_disjoint is ds hl hs.append_right.tail i j a b (by omega) ha hb x hx y hy

end Nv.C03
