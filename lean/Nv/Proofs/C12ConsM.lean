import Nv.Model.C12
import Nv.Proofs.C12Defs
/-! C12 — one-step conservation, MQ and SyncQueue, operations other than the `*Anyway` adds (case analysis). -/
namespace Nv.C12

theorem step_conservation_mq (s : LQ) (op : Op) (y : Nat) (hk : s.kind = .mq) (hop : isAny op = false) :
    (step Cfg.expected s op).1.items.count y + popCount y (step Cfg.expected s op).2 =
      s.items.count y + addCount y s op (step Cfg.expected s op).2 := by
  obtain ⟨k, ctrl, req, cc, rc, cl, clr⟩ := s
  simp only at hk
  subst hk
  cases op <;> (try (simp [isAny] at hop)) <;>
      simp only [step, Cfg.expected, stepPipe, stepMQ, stepSync, addReq, addPrior, addCtrl, addPriorCtrl, popNow, takeFront,
        orBlock, closeQ, tryClose, tryClear, syncPush, syncPopNow, syncTryPop, Shape.expected, SyncShape.expected,
        LQ.items, LQ.isEmpty, popCount, addCount, okOut, if_true, Bool.false_and, Bool.true_and, Bool.not_true,
        Bool.not_false] <;>
      (try cases cl) <;> (try cases clr) <;> (try cases ctrl) <;> (try cases req) <;>
      simp [List.count_cons, List.count_append, okOut] <;> (try split) <;>
      (try simp_all [List.count_cons, List.count_append, okOut]) <;> (try omega)

theorem step_conservation_syncq (s : LQ) (op : Op) (y : Nat) (hk : s.kind = .syncq) (hop : isAny op = false) :
    (step Cfg.expected s op).1.items.count y + popCount y (step Cfg.expected s op).2 =
      s.items.count y + addCount y s op (step Cfg.expected s op).2 := by
  obtain ⟨k, ctrl, req, cc, rc, cl, clr⟩ := s
  simp only at hk
  subst hk
  cases op <;> (try (simp [isAny] at hop)) <;>
      simp only [step, Cfg.expected, stepPipe, stepMQ, stepSync, addReq, addPrior, addCtrl, addPriorCtrl, popNow, takeFront,
        orBlock, closeQ, tryClose, tryClear, syncPush, syncPopNow, syncTryPop, Shape.expected, SyncShape.expected,
        LQ.items, LQ.isEmpty, popCount, addCount, okOut, if_true, Bool.false_and, Bool.true_and, Bool.not_true,
        Bool.not_false] <;>
      (try cases cl) <;> (try cases clr) <;> (try cases ctrl) <;> (try cases req) <;>
      simp [List.count_cons, List.count_append, okOut] <;> (try split) <;>
      (try simp_all [List.count_cons, List.count_append, okOut]) <;> (try omega)

end Nv.C12
