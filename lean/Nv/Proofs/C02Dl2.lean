import Nv.Proofs.C02Dl1
/-!
C02 — second invariant: steps inside `rwLocker.Lock/RLock` and the unlock loop; both invariants for every reachable state.
-/
namespace Nv.C02

/-- thread `t` is inside a blocking call on object `o`; only `o` and `t` change -/
theorem inv2_local {s s' : State} (h2 : Inv2 s) (t : Tid) (o : ObjId) {m all k rest}
    (hph : (s.th t).phase = .acq m all ((k, o) :: rest))
    (hobjO : ∀ o', o' ≠ o → s'.objs o' = s.objs o') (hthO : ∀ u, u ≠ t → s'.th u = s.th u)
    (a1 : ∀ u, (s'.objs o).wOwner = some u →
      (s'.objs o).writer = some u ∨ ∃ all k rest, (s'.th u).phase = .acq .w all ((k, o) :: rest))
    (a2 : (s'.objs o).tokens ≤ (s'.objs o).pendR.length)
    (a3 : (s'.objs o).wOwner = none → (s'.objs o).pendR.length ≤ (s'.objs o).tokens)
    (a4 : ∀ p, p ∈ (s'.objs o).pendR → ∃ all k rest, (s'.th p).phase = .acq .r all ((k, o) :: rest))
    (a5 : (s'.objs o).pendR.Nodup) : Inv2 s' := by
  constructor
  · intro o' u h
    by_cases e : o' = o
    · subst e; exact a1 u h
    · rw [hobjO o' e] at h ⊢
      rcases h2.ownW o' u h with h' | ⟨all', k', rest', h'⟩
      · exact .inl h'
      · by_cases eu : u = t
        · subst eu; rw [hph] at h'; cases h'; exact absurd rfl e
        · right; rw [hthO u eu]; exact ⟨all', k', rest', h'⟩
  · intro o'
    by_cases e : o' = o
    · subst e; exact a2
    · rw [hobjO o' e]; exact h2.tokLe o'
  · intro o'
    by_cases e : o' = o
    · subst e; exact a3
    · rw [hobjO o' e]; exact h2.tokGe o'
  · intro o' p h
    by_cases e : o' = o
    · subst e; exact a4 p h
    · rw [hobjO o' e] at h
      obtain ⟨all', k', rest', h'⟩ := h2.pendRPh o' p h
      by_cases ep : p = t
      · subst ep; rw [hph] at h'; cases h'; exact absurd rfl e
      · rw [hthO p ep]; exact ⟨all', k', rest', h'⟩
  · intro o'
    by_cases e : o' = o
    · subst e; exact a5
    · rw [hobjO o' e]; exact h2.pendRNd o'

theorem tryW_wait {t : Tid} {w w1 : Wrap} (h : tryLock .w t w = .wait w1) :
    (w.wOwner = none ∧ w1 = { w with wOwner := some t, pendW := w.pendW.erase t }) ∨
    (w.wOwner ≠ none ∧ w1 = { w with pendW := w.pendW ++ [t] }) := by
  simp only [tryLock, tryW] at h
  repeat' split at h
  all_goals first | (cases h; simp_all) | cases h

theorem tryR_wait {t : Tid} {w w1 : Wrap} (h : tryLock .r t w = .wait w1) :
    t ∉ w.pendR ∧ w.wOwner ≠ none ∧ w.tokens = 0 ∧ w1 = { w with pendR := w.pendR ++ [t] } := by
  simp only [tryLock, tryR] at h
  repeat' split at h
  all_goals first | (cases h; simp_all; omega) | (cases h; simp_all) | cases h

theorem tryR_enter {t : Tid} {w w1 : Wrap} (h : tryLock .r t w = .enter w1) :
    (t ∈ w.pendR ∧ w.tokens > 0 ∧
      w1 = { w with tokens := w.tokens - 1, pendR := w.pendR.erase t, readers := t :: w.readers }) ∨
    (t ∉ w.pendR ∧ w.wOwner = none ∧ w1 = { w with readers := t :: w.readers }) ∨
    (t ∉ w.pendR ∧ w.wOwner ≠ none ∧ w.tokens > 0 ∧ w1 = { w with tokens := w.tokens - 1, readers := t :: w.readers }) := by
  simp only [tryLock, tryR] at h
  repeat' split at h
  all_goals first | (cases h; simp_all) | cases h

theorem inv2_stepLock {c : Cfg} (hc : Proved c) {s s' : State} (_hI : Inv s) (h2 : Inv2 s) (t : Tid)
    (h : stepLock c s t = some s') : Inv2 s' := by
  have hcnt : c.countAt ≠ .afterBlock := by rw [hc.2.1]; decide
  unfold stepLock at h
  split at h
  · next m all hph =>
    cases h
    apply inv2_frame h2 t
    · intro o; exact ⟨rfl, rfl, rfl, rfl⟩
    · intro u hu; exact setTh_th_other _ _ _ _ hu
    · intro m all k o rest e; rw [hph] at e; cases e
  · next m all k o rest hph =>
    have old1 := h2.ownW o
    have old4 := h2.pendRPh o
    cases hres : tryLock m t (s.objs o) with
    | blocked => rw [hres] at h; cases h
    | wait w1 =>
      rw [hres] at h; cases h
      have hthS : ∀ u, (setObj s o w1).th u = s.th u := fun _ => rfl
      apply inv2_local h2 t o hph
      · intro o' e; simp [setObj_objs, e]
      · intro u _; rfl
      all_goals simp only [setObj_objs, if_true, hthS]
      all_goals cases m
      -- mode r: appended to pendR
      · obtain ⟨hn, hown, htok, rfl⟩ := tryR_wait hres
        intro u hu; exact old1 u hu
      · rcases tryW_wait hres with ⟨hnone, rfl⟩ | ⟨hsome, rfl⟩
        · intro u hu
          simp only at hu; cases hu
          exact .inr ⟨all, k, rest, hph⟩
        · intro u hu; exact old1 u hu
      · obtain ⟨hn, hown, htok, rfl⟩ := tryR_wait hres
        simp only [List.length_append, List.length_singleton]; have := h2.tokLe o; omega
      · rcases tryW_wait hres with ⟨hnone, rfl⟩ | ⟨hsome, rfl⟩
        · exact h2.tokLe o
        · exact h2.tokLe o
      · obtain ⟨hn, hown, htok, rfl⟩ := tryR_wait hres
        intro hnone; exact absurd hnone hown
      · rcases tryW_wait hres with ⟨hnone, rfl⟩ | ⟨hsome, rfl⟩
        · intro hn; cases hn
        · exact h2.tokGe o
      · obtain ⟨hn, hown, htok, rfl⟩ := tryR_wait hres
        intro p hp
        simp only [List.mem_append, List.mem_singleton] at hp
        rcases hp with hp | rfl
        · exact old4 p hp
        · exact ⟨all, k, rest, hph⟩
      · rcases tryW_wait hres with ⟨hnone, rfl⟩ | ⟨hsome, rfl⟩
        · exact old4
        · exact old4
      · obtain ⟨hn, hown, htok, rfl⟩ := tryR_wait hres
        simp only
        rw [List.nodup_append]
        refine ⟨h2.pendRNd o, by simp, ?_⟩
        intro a ha b hb e
        simp only [List.mem_singleton] at hb
        subst hb; subst e; exact hn ha
      · rcases tryW_wait hres with ⟨hnone, rfl⟩ | ⟨hsome, rfl⟩
        · exact h2.pendRNd o
        · exact h2.pendRNd o
    | enter w1 =>
      rw [hres] at h
      simp only [hcnt, if_false] at h
      cases h
      rw [advance_acq hph]
      have hthT : (setTh (setObj s o w1) t ⟨.acq m all rest, (k, o, m) :: (s.th t).held⟩).th t =
          ⟨.acq m all rest, (k, o, m) :: (s.th t).held⟩ := by simp
      have hthO : ∀ u, u ≠ t → (setTh (setObj s o w1) t ⟨.acq m all rest, (k, o, m) :: (s.th t).held⟩).th u = s.th u :=
        fun u hu => setTh_th_other _ _ _ _ hu
      -- a waiting reader / rw.w owner other than `t` is untouched
      have keepW : ∀ u, u ≠ t → (∃ a' k' r', (s.th u).phase = .acq .w a' ((k', o) :: r')) →
          ∃ a' k' r', ((setTh (setObj s o w1) t ⟨.acq m all rest, (k, o, m) :: (s.th t).held⟩).th u).phase =
            .acq .w a' ((k', o) :: r') := fun u hu h => by rw [hthO u hu]; exact h
      have keepR : ∀ u, u ≠ t → (∃ a' k' r', (s.th u).phase = .acq .r a' ((k', o) :: r')) →
          ∃ a' k' r', ((setTh (setObj s o w1) t ⟨.acq m all rest, (k, o, m) :: (s.th t).held⟩).th u).phase =
            .acq .r a' ((k', o) :: r') := fun u hu h => by rw [hthO u hu]; exact h
      apply inv2_local h2 t o hph
      · intro o' e; simp [setObj_objs, e]
      · exact hthO
      all_goals simp only [setTh_objs, setObj_objs, if_true]
      all_goals cases m
      · -- a1, mode r
        rcases tryR_enter hres with ⟨_, _, rfl⟩ | ⟨_, _, rfl⟩ | ⟨_, _, _, rfl⟩ <;>
        · intro u hu
          simp only at hu
          rcases old1 u hu with h' | h'
          · exact .inl h'
          · by_cases e : u = t
            · subst e; obtain ⟨_, _, _, h''⟩ := h'; rw [hph] at h''; cases h''
            · exact .inr (keepW u e h')
      · obtain ⟨hown, _, _, rfl⟩ := tryLock_enter_w hres
        intro u hu
        simp only at hu
        rw [hown] at hu; cases hu
        exact .inl rfl
      · rcases tryR_enter hres with ⟨hin, hpos, rfl⟩ | ⟨_, _, rfl⟩ | ⟨_, _, hpos, rfl⟩
        · simp only
          have := h2.tokLe o
          have := List.length_erase_of_mem hin
          have := List.length_pos_of_mem hin
          omega
        · exact h2.tokLe o
        · simp only; have := h2.tokLe o; omega
      · obtain ⟨_, _, _, rfl⟩ := tryLock_enter_w hres
        exact h2.tokLe o
      · rcases tryR_enter hres with ⟨hin, hpos, rfl⟩ | ⟨_, hnone, rfl⟩ | ⟨_, hsome, hpos, rfl⟩
        · simp only
          intro hn
          have := h2.tokGe o hn
          have := List.length_erase_of_mem hin
          omega
        · exact h2.tokGe o
        · intro hn; exact absurd hn hsome
      · obtain ⟨hown, _, _, rfl⟩ := tryLock_enter_w hres
        simp only; intro hn; rw [hown] at hn; cases hn
      · rcases tryR_enter hres with ⟨hin, hpos, rfl⟩ | ⟨hnin, _, rfl⟩ | ⟨hnin, _, _, rfl⟩
        · simp only
          intro p hp
          have := (h2.pendRNd o).mem_erase_iff.1 hp
          exact keepR p this.1 (old4 p this.2)
        · intro p hp
          have : p ≠ t := fun e => hnin (e ▸ hp)
          exact keepR p this (old4 p hp)
        · intro p hp
          have : p ≠ t := fun e => hnin (e ▸ hp)
          exact keepR p this (old4 p hp)
      · obtain ⟨_, _, _, rfl⟩ := tryLock_enter_w hres
        intro p hp
        have : p ≠ t := by
          intro e; subst e
          obtain ⟨_, _, _, h'⟩ := old4 p hp
          rw [hph] at h'; cases h'
        exact keepR p this (old4 p hp)
      · rcases tryR_enter hres with ⟨hin, hpos, rfl⟩ | ⟨_, _, rfl⟩ | ⟨_, _, _, rfl⟩
        · exact (h2.pendRNd o).erase t
        · exact h2.pendRNd o
        · exact h2.pendRNd o
      · obtain ⟨_, _, _, rfl⟩ := tryLock_enter_w hres
        exact h2.pendRNd o
  · cases h


theorem unbump_rw (m : Mode) (t : Tid) (w : Wrap) :
    (unbump m t w).wOwner = w.wOwner ∧ (unbump m t w).writer = w.writer ∧ (unbump m t w).tokens = w.tokens ∧
    (unbump m t w).pendR = w.pendR := by cases m <;> simp [unbump]

theorem inv2_stepRel {c : Cfg} {s s' : State} (hI : Inv s) (h2 : Inv2 s) (t : Tid)
    (h : stepRel c s t = some s') : Inv2 s' := by
  unfold stepRel at h
  split at h
  · next m hph =>
    cases h
    apply inv2_frame h2 t
    · intro o; exact ⟨rfl, rfl, rfl, rfl⟩
    · intro u hu; exact setTh_th_other _ _ _ _ hu
    · intro m all k o rest e; rw [hph] at e; cases e
  · next m gs hph =>
    cases h
    apply inv2_frame h2 t
    · intro o; exact ⟨rfl, rfl, rfl, rfl⟩
    · intro u hu; exact setTh_th_other _ _ _ _ hu
    · intro m all k o rest e; rw [hph] at e; cases e
  · next m k ks gs hph =>
    cases h
    have hnl : notLocking (s.th t) := by intro m all k o rest e; rw [hph] at e; cases e
    obtain ⟨_, hall⟩ := hI.relOk t m _ hph
    obtain ⟨o, hheld⟩ := hall k (by simp)
    have htk : s.table k = some o := hI.refTab t k o m (by simp [refs, hheld])
    have hhold : isHolder m t (s.objs o) := by
      cases m
      · exact (hI.holdR t o).2 ⟨k, hheld⟩
      · exact (hI.holdW t o).2 ⟨k, hheld⟩
    have hobjs : ∀ o', (setTh (relKey c m t s k) t { (relKey c m t s k).th t with phase := .rel m (ks :: gs) }).objs o' =
        if o' = o then unbump m t (leave m t (s.objs o)) else s.objs o' := by
      intro o'
      simp only [relKey, htk, hhold, if_true, setTh_objs]
      split <;> rfl
    have hths : ∀ u, u ≠ t →
        (setTh (relKey c m t s k) t { (relKey c m t s k).th t with phase := .rel m (ks :: gs) }).th u = s.th u := by
      intro u hu
      rw [setTh_th_other _ _ _ _ hu]
      simp only [relKey, htk, hhold, if_true]
      split <;> simp [upd_other _ _ _ _ hu]
    cases m with
    | r =>
      apply inv2_frame h2 t _ hths hnl
      intro o'
      rw [hobjs]; split
      · next e =>
        subst e
        obtain ⟨a, b, c', d⟩ := unbump_rw .r t (leave .r t (s.objs o'))
        rw [a, b, c', d]; simp [leave]
      · exact ⟨rfl, rfl, rfl, rfl⟩
    | w =>
      have hwr : (s.objs o).writer = some t := hhold
      have htok : (s.objs o).tokens = 0 := (hI.wOk o t hwr).2.2
      have hnew : (unbump .w t (leave .w t (s.objs o))).wOwner = none ∧
          (unbump .w t (leave .w t (s.objs o))).tokens = (s.objs o).pendR.length ∧
          (unbump .w t (leave .w t (s.objs o))).pendR = (s.objs o).pendR := by
        simp [unbump, leave, htok]
      constructor
      · intro o' u hu
        rw [hobjs] at hu ⊢
        split at hu
        · rw [hnew.1] at hu; cases hu
        · next e =>
          simp only [e, if_false]
          rcases h2.ownW o' u hu with h' | ⟨a', k', r', h'⟩
          · exact .inl h'
          · by_cases eu : u = t
            · subst eu; exact absurd h' (hnl _ _ _ _ _)
            · right; rw [hths u eu]; exact ⟨a', k', r', h'⟩
      · intro o'
        rw [hobjs]; split
        · rw [hnew.2.1, hnew.2.2]; exact Nat.le_refl _
        · exact h2.tokLe o'
      · intro o'
        rw [hobjs]; split
        · intro _; rw [hnew.2.1, hnew.2.2]; exact Nat.le_refl _
        · exact h2.tokGe o'
      · intro o' p hp
        have hp' : p ∈ (s.objs o').pendR := by
          rw [hobjs] at hp; split at hp
          · next e => subst e; rw [hnew.2.2] at hp; exact hp
          · exact hp
        obtain ⟨a', k', r', h'⟩ := h2.pendRPh o' p hp'
        by_cases ep : p = t
        · subst ep; exact absurd h' (hnl _ _ _ _ _)
        · rw [hths p ep]; exact ⟨a', k', r', h'⟩
      · intro o'
        rw [hobjs]; split
        · next e => subst e; rw [hnew.2.2]; exact h2.pendRNd o'
        · exact h2.pendRNd o'
  · cases h

theorem inv2_step {c : Cfg} (hc : Proved c) (n : Nat) (sh : Key → Nat) {s s' : State} (hI : Inv s) (h2 : Inv2 s)
    (a : Act) (h : step c n sh s a = some s') : Inv2 s' := by
  unfold step at h
  split at h
  · cases h
  · cases a with
    | call t m keys =>
      simp only at h
      split at h
      · next hok =>
        cases h
        apply inv2_frame h2 t
        · intro o; exact ⟨rfl, rfl, rfl, rfl⟩
        · intro u hu; exact setTh_th_other _ _ _ _ hu
        · intro m all k o rest e; rw [hok.1] at e; cases e
      · cases h
    | reg t => exact inv2_stepReg hc hI h2 t h
    | lock t => exact inv2_stepLock hc hI h2 t h
    | uncall t m keys =>
      simp only at h
      split at h
      · next hok =>
        cases h
        apply inv2_frame h2 t
        · intro o; exact ⟨rfl, rfl, rfl, rfl⟩
        · intro u hu; exact setTh_th_other _ _ _ _ hu
        · intro m all k o rest e; rw [hok.1] at e; cases e
      · cases h
    | rel t => exact inv2_stepRel hI h2 t h

/-- both invariants hold in every reachable state -/
theorem inv12_reach {c : Cfg} (hc : Proved c) (n : Nat) (sh : Key → Nat) (hsh : ∀ k, sh k < n) :
    ∀ s, (lts c n sh).Reach s → Inv s ∧ Inv2 s :=
  LTS.inv_of_step (lts c n sh) (fun s => Inv s ∧ Inv2 s) ⟨inv_init, inv2_init⟩
    (fun _ a _ hI h => ⟨inv_step hc n sh hsh hI.1 a h, inv2_step hc n sh hI.1 hI.2 a h⟩)

end Nv.C02
