import Nv.Proofs.C03Ref6
/-! C03 — refinement B → A, part 7: `maybeSplitChild` on the store. -/
namespace Nv.C03.Cow
open Nv.C03

theorem insertAt_setAt_succ {α} (l : List α) (i : Nat) (a b : α) (hi : i < l.length) :
    insertAt (setAt l i a) (i + 1) b = l.take i ++ a :: b :: l.drop (i + 1) := by
  simp only [insertAt, setAt]
  rw [take_pre1 _ _ _ _ (length_take_le l i (by omega)), drop_pre1 _ _ _ _ (length_take_le l i (by omega))]
  simp

/-- the store after `maybeSplitChild` split the full child `i` of the owned node `n`
    (`mutableChild`, `split`, then the node's item and child lists are extended) -/
def splitChildRun (cow mn n i : Nat) (H : Heap) : Heap :=
  let r1 := (Cow.mutableChild cow n i) H
  let r2 := (Cow.splitB cow r1.1 mn) r1.2
  ((Cow.wr n (insertAt (r2.2.get n).items i r2.1.1) (insertAt (r2.2.get n).children (i + 1) r2.1.2)) r2.2).2

/-- the separator `maybeSplitChild` pushes up -/
def splitChildItem (cow mn n i : Nat) (H : Heap) : Item :=
  ((Cow.splitB cow ((Cow.mutableChild cow n i) H).1 mn) ((Cow.mutableChild cow n i) H).2).1.1

structure SplitChildPost (mn cow : Nat) (H : Heap) (fuel n i : Nat) (H3 : Heap) (first next : Nat) : Prop where
  cell : H3.get n = ⟨insertAt (H.get n).items i ((absNode H fuel ((H.get n).children.getD i n)).split mn).2.1,
    (H.get n).children.take i ++ first :: next :: (H.get n).children.drop (i + 1), some cow⟩
  abs : absNode H3 (fuel + 1) n =
    .mk (insertAt (H.get n).items i ((absNode H fuel ((H.get n).children.getD i n)).split mn).2.1)
      (((H.get n).children.map (absNode H fuel)).take i ++
        ((absNode H fuel ((H.get n).children.getD i n)).split mn).1 ::
        ((absNode H fuel ((H.get n).children.getD i n)).split mn).2.2 ::
        ((H.get n).children.map (absNode H fuel)).drop (i + 1))
  inner : Inner mn cow H3 fuel n
  size : H.size ≤ H3.size
  frame : Frame H H3 (InSub H (fuel + 1) n)
  item : splitChildItem cow mn n i H = ((absNode H fuel ((H.get n).children.getD i n)).split mn).2.1
  subs : ∀ y, InSub H3 (fuel + 1) n y → InSub H (fuel + 1) n y ∨ H.get y = HNode.empty

theorem splitChild_abs (mn cow : Nat) (hmn : 1 ≤ mn) (H : Heap) (fuel n i : Nat) (h : Inner mn cow H fuel n)
    (hi : i < (H.get n).children.length) (hroom : (H.get n).items.length < 2 * mn + 1)
    (hfull : (H.get ((H.get n).children.getD i n)).items.length = 2 * mn + 1) :
    ∃ first next, SplitChildPost mn cow H fuel n i (splitChildRun cow mn n i H) first next := by
  unfold splitChildRun
  have hitem : splitChildItem cow mn n i H =
      ((Cow.splitB cow ((Cow.mutableChild cow n i) H).1 mn) ((Cow.mutableChild cow n i) H).2).1.1 := rfl
  obtain ⟨m1, m2, m3, m4, m5, m6, m7, m8, m9, m10⟩ := mutableChild_abs mn cow hmn H fuel n i h hi
  generalize (Cow.mutableChild cow n i) H = r1 at m1 m2 m3 m4 m5 m6 m7 m8 m9 m10 hitem
  obtain ⟨first, H1⟩ := r1
  simp only at m1 m2 m3 m4 m5 m6 m7 m8 m9 m10 hitem ⊢
  have hcm : (H.get n).children.getD i n ∈ (H.get n).children := getD_mem _ i n hi
  have hpos : (H.get n).children[i]? = some ((H.get n).children.getD i n) := getD_getElem? _ i n hi
  generalize hc : (H.get n).children.getD i n = c at *
  have hcok := (nodeOk_iff _ _ _ _).1 (h.childOk hcm)
  have hs0 := h.sorted; rw [abs_succ, inorder_mk] at hs0
  have hfirst_items : (H1.get first).items.length = 2 * mn + 1 := by rw [← abs_items H1 fuel first, m2, abs_items]; exact hfull
  have hsub : Sub mn cow H1 fuel first := by
    refine ⟨by rw [m2]; exact hcok.2.2, ?_, m5, m6, Or.inl ?_⟩
    · rw [m2]; exact sorted_child _ _ hs0 _ (List.mem_map.2 ⟨c, hcm, rfl⟩) (by simpa using h.len)
    · intro e; rw [e] at hfirst_items; simp at hfirst_items
  have hfne : (H1.get first).items ≠ [] := by intro e; rw [e] at hfirst_items; simp at hfirst_items
  obtain ⟨s1, s2, s3, s4, s5, s6, s7, s8, s9, s10, s11, s12⟩ := splitB_abs mn cow hmn H1 fuel first mn hsub hfne
  generalize (Cow.splitB cow first mn) H1 = r2 at s1 s2 s3 s4 s5 s6 s7 s8 s9 s10 s11 s12 hitem
  obtain ⟨⟨m, next⟩, H2⟩ := r2
  simp only at s1 s2 s3 s4 s5 s6 s7 s8 s9 s10 s11 s12 hitem ⊢
  rw [m2] at s1 s2 s3
  -- the node's cell through the two steps
  have hfn : first ≠ n := by
    rcases m10 with e | e
    · intro e2; exact h.notInChild hmn hcm (by rw [← e, e2]; exact InSub.self H fuel n)
    · intro e2; rw [e2] at e; exact h.ne_empty' e
  have hn1ne : H1.get n ≠ HNode.empty := by rw [m1]; simp [HNode.empty]
  have hn2 : H2.get n = H1.get n := s8 n (fun e => hfn e.symm) hn1ne
  have hnlt2 : n < H2.size := Nat.lt_of_lt_of_le (Nat.lt_of_lt_of_le h.lt m7) s7
  have hnf2 : n ∉ H2.free := by
    intro hm; have := (s6.2 n hm).2; rw [hn2, m1] at this
    simp [HNode.empty] at this
  rw [hn2, m1]
  simp only
  obtain ⟨w1, w2, w3, w4⟩ := wr_get H2 n (insertAt (H.get n).items i m)
    (insertAt (setAt (H.get n).children i first) (i + 1) next) hnlt2
  have hwf3 := wr_wfree H2 n (insertAt (H.get n).items i m)
    (insertAt (setAt (H.get n).children i first) (i + 1) next) hnlt2 s6 hnf2
  generalize ((Cow.wr n (insertAt (H.get n).items i m) (insertAt (setAt (H.get n).children i first) (i + 1) next)) H2).2 = H3
    at w1 w2 w3 w4 hwf3 ⊢
  rw [insertAt_setAt_succ _ _ _ _ hi] at w1
  have hcow2 : (H2.get n).cow = some cow := by rw [hn2, m1]
  rw [hcow2] at w1
  have hf23 : Frame H2 H3 (fun y => y = n) := fun y hy _ => w2 y hy
  -- the next cell held nothing in the original store
  have hnext_n : next ≠ n := fun e => hn1ne (by rw [← e, s9])
  have hnext0 : H.get next = HNode.empty := by
    by_cases e : H.get next = HNode.empty
    · exact e
    · have := m8 next hnext_n e; rw [s9] at this
      exact absurd this.symm e
  -- subtrees of the two halves in H3
  have hn_first2 : ¬ InSub H2 fuel first n := by
    intro hin
    rcases m9 n (s11 n hin) with e | e
    · exact hfn e.symm
    · exact h.notInChild hmn hcm e
  have hn_next2 : ¬ InSub H2 fuel next n := by
    intro hin
    rcases s12 n hin with e | e
    · exact hnext_n e.symm
    · rcases m9 n e with e | e
      · exact hfn e.symm
      · exact h.notInChild hmn hcm e
  obtain ⟨hin, hl1, hl2, hk1, hk2, _⟩ := split_spec mn fuel (absNode H fuel c) hcok.2.2 (by rw [abs_items]; exact hfull)
  have hok_first2 : nodeOk mn (2 * mn + 1) fuel (absNode H2 fuel first) = true := by
    rw [s1]; exact (nodeOk_iff _ _ _ _).2 ⟨by omega, by omega, hk1⟩
  have hok_next2 : nodeOk mn (2 * mn + 1) fuel (absNode H2 fuel next) = true := by
    rw [s3]; exact (nodeOk_iff _ _ _ _).2 ⟨by omega, by omega, hk2⟩
  have hfirst3 := abs_frame mn _ hmn hf23 fuel first hok_first2 (fun y hy e => hn_first2 (e ▸ hy))
  have hnext3 := abs_frame mn _ hmn hf23 fuel next hok_next2 (fun y hy e => hn_next2 (e ▸ hy))
  -- siblings
  have hsib : ∀ c', (c' ∈ (H.get n).children.take i ∨ c' ∈ (H.get n).children.drop (i + 1)) →
      absNode H3 fuel c' = absNode H fuel c' ∧ ∀ y, InSub H3 fuel c' y → InSub H fuel c' y := by
    intro c' hc'
    have hpos' : ∃ j, j ≠ i ∧ (H.get n).children[j]? = some c' := by
      rcases hc' with hc' | hc'
      · obtain ⟨j, hj, e⟩ := mem_take_pos hc'; exact ⟨j, by omega, e⟩
      · obtain ⟨j, hj, e⟩ := mem_drop_pos hc'; exact ⟨j, by omega, e⟩
    obtain ⟨j, hji, hj⟩ := hpos'
    have hc'm : c' ∈ (H.get n).children := List.mem_of_getElem? hj
    have h01 := h.child_frame hmn m8 hc'm
    have hok1 : nodeOk mn (2 * mn + 1) fuel (absNode H1 fuel c') = true := by rw [h01.1]; exact h.childOk hc'm
    have hap := sibling_apart mn cow hmn h hji hpos hj first m10
    have h12 := abs_frame mn _ hmn s8 fuel c' hok1 (fun y hy e => hap y (h01.2 y hy) (Or.inl e))
    have hok2 : nodeOk mn (2 * mn + 1) fuel (absNode H2 fuel c') = true := by rw [h12.1]; exact hok1
    have h23 := abs_frame mn _ hmn hf23 fuel c' hok2
      (fun y hy e => h.notInChild hmn hc'm (e ▸ h01.2 y (h12.2 y hy)))
    exact ⟨h23.1.trans (h12.1.trans h01.1), fun y hy => h01.2 y (h12.2 y (h23.2 y hy))⟩
  have habs3 : absNode H3 (fuel + 1) n = .mk (insertAt (H.get n).items i m)
      (((H.get n).children.map (absNode H fuel)).take i ++ ((absNode H fuel c).split mn).1 ::
        ((absNode H fuel c).split mn).2.2 :: ((H.get n).children.map (absNode H fuel)).drop (i + 1)) := by
    rw [abs_succ, w1]
    simp only [List.map_append, List.map_cons, List.map_take, List.map_drop]
    rw [hfirst3.1, s1, hnext3.1, s3, ← List.map_take, ← List.map_take, ← List.map_drop, ← List.map_drop]
    congr 2
    · exact List.map_congr_left (fun y hy => (hsib y (Or.inl hy)).1)
    · congr 2
      exact List.map_congr_left (fun y hy => (hsib y (Or.inr hy)).1)
  -- layer A: the node after the split is well-formed and has the same in-order list
  have hA := split_child_spec mn fuel (H.get n).items ((H.get n).children.map (absNode H fuel)) i
    (by have := h.kids; rw [abs_succ] at this; exact this) (by have := h.len; omega)
    (by rw [getD_map _ _ i n hi, hc, abs_items]; exact hfull)
  rw [getD_map _ _ i n hi, hc] at hA
  subst hc
  refine ⟨first, next, ⟨by rw [w1, s2], by rw [habs3, s2], ?_, by rw [w3]; exact Nat.le_trans m7 s7, ?_, hitem.trans s2, ?_⟩⟩
  · refine ⟨by rw [habs3, s2]; exact hA.2, ?_, by simp only [Heap.tag]; rw [w1], hwf3⟩
    rw [habs3, s2, inorder_mk, hA.1]; exact hs0
  · -- frame: only the node, the (possibly copied) child and two item-less cells changed
    intro y hy hyne
    have hyn : y ≠ n := fun e => hy (e ▸ InSub.self H (fuel + 1) n)
    have hyfirst : y ≠ first := by
      intro e
      rcases m10 with e2 | e2
      · exact hy (Or.inr ⟨_, hcm, by rw [e, e2]; exact InSub.self H fuel _⟩)
      · exact hyne (by rw [e, e2])
    have hynext : y ≠ next := fun e => hyne (by rw [e]; exact hnext0)
    have e1 : H1.get y = H.get y := m8 y hyn hyne
    have e2 : H2.get y = H1.get y := s8 y hyfirst (by rw [e1]; exact hyne)
    rw [w2 y hyn, e2, e1]
  · -- the cells of the node's subtree afterwards
    intro y hy
    rcases hy with rfl | ⟨c', hc', hy⟩
    · exact Or.inl (Or.inl rfl)
    · rw [w1] at hc'
      simp only [List.mem_append, List.mem_cons] at hc'
      rcases hc' with hc' | rfl | rfl | hc'
      · exact Or.inl (Or.inr ⟨c', List.mem_of_mem_take hc', (hsib c' (Or.inl hc')).2 y hy⟩)
      · rcases m9 y (s11 y (hfirst3.2 y hy)) with e | e
        · rcases m10 with e2 | e2
          · exact Or.inl (Or.inr ⟨_, hcm, by rw [e, e2]; exact InSub.self H fuel _⟩)
          · exact Or.inr (by rw [e, e2])
        · exact Or.inl (Or.inr ⟨_, hcm, e⟩)
      · rcases s12 y (hnext3.2 y hy) with e | e
        · exact Or.inr (by rw [e]; exact hnext0)
        · rcases m9 y e with e | e
          · rcases m10 with e2 | e2
            · exact Or.inl (Or.inr ⟨_, hcm, by rw [e, e2]; exact InSub.self H fuel _⟩)
            · exact Or.inr (by rw [e, e2])
          · exact Or.inl (Or.inr ⟨_, hcm, e⟩)
      · exact Or.inl (Or.inr ⟨c', List.mem_of_mem_drop hc', (hsib c' (Or.inr hc')).2 y hy⟩)

end Nv.C03.Cow
