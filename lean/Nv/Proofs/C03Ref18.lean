import Nv.Proofs.C03Ref17

/-! C03 refinement, part 18 (delete path): merging a child with its right sibling (the sibling's cell is freed). -/

namespace Nv.C03.Cow
open Nv.C03

theorem freeNode_get (cow id : Nat) (H : Heap) :
    (∀ x, x ≠ id → ((Cow.freeNode cow id) H).2.get x = H.get x) ∧ ((Cow.freeNode cow id) H).2.size = H.size := by
  unfold Cow.freeNode
  by_cases ho : (H.get id).cow = some cow
  · rw [if_pos ho]
    simp only []
    split
    · exact ⟨fun x hx => get_set_ne _ _ _ _ hx, by simp [Heap.size]⟩
    · exact ⟨fun x hx => get_set_ne _ _ _ _ hx, by simp [Heap.size]⟩
  · rw [if_neg ho]; exact ⟨fun _ _ => rfl, rfl⟩

theorem removeAt_setAt_succ {α} (l : List α) (j : Nat) (a : α) (hj : j + 1 < l.length) :
    removeAt (setAt l j a) (j + 1) = l.take j ++ a :: l.drop (j + 2) := by
  have e1 : (setAt l j a).take (j + 1) = l.take j ++ [a] := take_succ_setAt l j a (by omega)
  have e2 : (setAt l j a).drop (j + 1 + 1) = l.drop (j + 2) := by
    have : (setAt l j a).drop (j + 1 + 1) = ((setAt l j a).drop (j + 1)).drop 1 := by rw [List.drop_drop]
    rw [this, drop_succ_setAt l j a (by omega), List.drop_drop]
  simp only [removeAt]
  rw [e1, e2]
  simp

theorem merge_abs (mn cow : Nat) (hmn : 1 ≤ mn) (H : Heap) (fuel n j : Nat) (h : Inner mn cow H fuel n)
    (hj1 : j + 1 < (H.get n).children.length) :
    GrowOut cow H fuel n (mergeB cow n j H)
      (removeAt (H.get n).items j)
      (((H.get n).children.map (absNode H fuel)).take j ++
        .mk ((((H.get n).children.map (absNode H fuel)).getD j default).items ++ (H.get n).items.getD j default ::
              (((H.get n).children.map (absNode H fuel)).getD (j + 1) default).items)
            ((((H.get n).children.map (absNode H fuel)).getD j default).children ++
              (((H.get n).children.map (absNode H fuel)).getD (j + 1) default).children) ::
        ((H.get n).children.map (absNode H fuel)).drop (j + 2)) := by
  have hj : j < (H.get n).children.length := by omega
  have hab : j ≠ j + 1 := by omega
  unfold mergeB
  obtain ⟨m1, m2, m3, m4, m5, m6, m7, m8, m9, m10⟩ := mutableChild_abs mn cow hmn H fuel n j h hj
  obtain ⟨c1, c2⟩ := mutableChild_cell mn cow hmn H fuel n j h hj
  generalize (Cow.mutableChild cow n j) H = r1 at m1 m2 m3 m4 m5 m6 m7 m8 m9 m10 c1 c2
  obtain ⟨ca, H1⟩ := r1
  simp only at m1 m2 m3 m4 m5 m6 m7 m8 m9 m10 c1 c2 ⊢
  have hpa : (H.get n).children[j]? = some ((H.get n).children.getD j n) := getD_getElem? _ j n hj
  have hpb : (H.get n).children[j + 1]? = some ((H.get n).children.getD (j + 1) n) := getD_getElem? _ (j + 1) n hj1
  have hma : (H.get n).children.getD j n ∈ (H.get n).children := getD_mem _ j n hj
  have hmb : (H.get n).children.getD (j + 1) n ∈ (H.get n).children := getD_mem _ (j + 1) n hj1
  have hgb : (setAt (H.get n).children j ca).getD (j + 1) n = (H.get n).children.getD (j + 1) n :=
    getD_setAt_ne _ _ _ _ _ (by omega) hj
  rw [m1]
  simp only
  rw [hgb, c1]
  simp only
  generalize hca : (H.get n).children.getD j n = c_a at *
  generalize hcb : (H.get n).children.getD (j + 1) n = c_b at *
  have hcbok := (nodeOk_iff _ _ _ _).1 (h.childOk hmb)
  have hcbne : H.get c_b ≠ HNode.empty := by
    intro e; have := hcbok.1; rw [abs_items, e] at this; simp [HNode.empty] at this; omega
  have hcbn : c_b ≠ n := fun e => h.notInChild hmn hmb (by rw [e]; exact InSub.self H fuel n)
  have hcb1 : H1.get c_b = H.get c_b := m8 c_b hcbn hcbne
  rw [hcb1]
  have hcab : ca ≠ c_b := by
    intro e
    rcases m10 with e2 | e2
    · exact siblings_disjoint mn _ hmn H fuel n h.kids h.sorted j (j + 1) _ _ ca hab hpa hpb
        (by rw [e2]; exact InSub.self H fuel _) (by rw [e]; exact InSub.self H fuel _)
    · exact hcbne (by rw [← e]; exact e2)
  -- the two writes
  have hnlt : n < H1.size := tag_some_lt H1 n cow (by simp only [Heap.tag]; rw [m1])
  obtain ⟨a1, a2, a3, a4⟩ := wr_get H1 n (removeAt (H.get n).items j) (removeAt (setAt (H.get n).children j ca) (j + 1)) hnlt
  have hnf1 : n ∉ H1.free := by
    intro hm; have := (m6.2 n hm).2; rw [m1] at this; simp [HNode.empty] at this
  have w2 := wr_wfree H1 n (removeAt (H.get n).items j) (removeAt (setAt (H.get n).children j ca) (j + 1)) hnlt m6 hnf1
  generalize ((Cow.wr n (removeAt (H.get n).items j) (removeAt (setAt (H.get n).children j ca) (j + 1))) H1).2 = H2
    at a1 a2 a3 a4 w2
  have hca2 : H2.get ca = H1.get ca := a2 ca c2
  have hcalt : ca < H2.size := by
    rw [a3]; exact tag_some_lt H1 ca cow m5
  obtain ⟨b1, b2, b3, b4⟩ := wr_get H2 ca ((H.get c_a).items ++ (H.get n).items.getD j default :: (H.get c_b).items)
    ((H.get c_a).children ++ (H.get c_b).children) hcalt
  have hcaf : ca ∉ H2.free := by
    rw [a4]; intro hm; have := (m6.2 ca hm).2; rw [c1] at this; simp [HNode.empty] at this
  have w3 := wr_wfree H2 ca ((H.get c_a).items ++ (H.get n).items.getD j default :: (H.get c_b).items)
    ((H.get c_a).children ++ (H.get c_b).children) hcalt w2 hcaf
  generalize ((Cow.wr ca ((H.get c_a).items ++ (H.get n).items.getD j default :: (H.get c_b).items)
    ((H.get c_a).children ++ (H.get c_b).children)) H2).2 = H3 at b1 b2 b3 b4 w3
  obtain ⟨f1, f2⟩ := freeNode_get cow c_b H3
  have w4 := PW.freeNode cow c_b H3 w3
  generalize ((Cow.freeNode cow c_b) H3).2 = H4 at f1 f2 w4
  -- the cells afterwards
  have q1 : H4.get n = ⟨removeAt (H.get n).items j, removeAt (setAt (H.get n).children j ca) (j + 1), some cow⟩ := by
    rw [f1 n (Ne.symm hcbn), b2 n (Ne.symm c2), a1, m1]
  have q2 : H4.get ca = ⟨(H.get c_a).items ++ (H.get n).items.getD j default :: (H.get c_b).items,
      (H.get c_a).children ++ (H.get c_b).children, some cow⟩ := by
    rw [f1 ca hcab, b1, hca2, c1]
  have hf : Frame H H4 (fun x => x = n ∨ x = ca ∨ x = c_b) := by
    intro x hx hne
    have e1 : H1.get x = H.get x := m8 x (fun e => hx (Or.inl e)) hne
    rw [f1 x (fun e => hx (Or.inr (Or.inr e))), b2 x (fun e => hx (Or.inr (Or.inl e))), a2 x (fun e => hx (Or.inl e)), e1]
  have eb : c_b = c_b ∨ H.get c_b = HNode.empty := Or.inl rfl
  obtain ⟨F1, _⟩ := far_frame mn cow hmn h hab hpa hpb m10 eb hf
  obtain ⟨ra1, ra2⟩ := rebuild_cell mn cow hmn h hab hpa hpb m10 eb hf ca _ _ _ q2 (by
    intro g hg
    simp only [List.mem_append] at hg
    exact hg)
  have eA : ((H.get n).children.map (absNode H fuel)).getD j default = absNode H fuel c_a := by
    rw [getD_map _ _ j n hj, hca]
  have eB : ((H.get n).children.map (absNode H fuel)).getD (j + 1) default = absNode H fuel c_b := by
    rw [getD_map _ _ (j + 1) n hj1, hcb]
  rw [eA, eB]
  have kA := abs_kids H fuel c_a
  have kB := abs_kids H fuel c_b
  have hsib : ∀ c', (c' ∈ (H.get n).children.take j ∨ c' ∈ (H.get n).children.drop (j + 2)) →
      absNode H4 fuel c' = absNode H fuel c' ∧ ∀ y, InSub H4 fuel c' y → InSub H fuel c' y := by
    intro c' hc'
    rcases hc' with hc' | hc'
    · obtain ⟨k, hk, e⟩ := mem_take_pos hc'; exact F1 k c' (by omega) (by omega) e
    · obtain ⟨k, hk, e⟩ := mem_drop_pos hc'; exact F1 k c' (by omega) (by omega) e
  refine ⟨?_, by simp only [Heap.tag]; rw [q1], w4, by rw [f2, b3, a3]; exact m7, frame_to_sub hma hmb m10 eb hf, ?_⟩
  · rw [abs_succ, q1]
    simp only
    rw [removeAt_setAt_succ _ _ _ hj1]
    simp only [List.map_append, List.map_cons]
    rw [ra1, kA, kB]
    simp only [items_mk, children_mk, List.map_append, List.map_take, List.map_drop]
    congr 1
    refine congr (congrArg _ ?_) (congrArg _ ?_)
    · rw [← List.map_take, ← List.map_take]; exact List.map_congr_left (fun y hy => (hsib y (Or.inl hy)).1)
    · rw [← List.map_drop, ← List.map_drop]; exact List.map_congr_left (fun y hy => (hsib y (Or.inr hy)).1)
  · intro y hy
    rcases hy with e | ⟨c', hc', hy⟩
    · exact Or.inl (Or.inl e)
    · rw [q1] at hc'
      simp only at hc'
      rw [removeAt_setAt_succ _ _ _ hj1] at hc'
      simp only [List.mem_append, List.mem_cons] at hc'
      rcases hc' with hc' | rfl | hc'
      · exact Or.inl (Or.inr ⟨c', List.mem_of_mem_take hc', (hsib c' (Or.inl hc')).2 y hy⟩)
      · rcases ra2 y hy with e | e | e
        · rcases m10 with e3 | e3
          · exact Or.inl (Or.inr ⟨c_a, hma, by rw [e, e3]; exact InSub.self H fuel c_a⟩)
          · exact Or.inr (by rw [e, e3])
        · exact Or.inl (Or.inr ⟨c_a, hma, e⟩)
        · exact Or.inl (Or.inr ⟨c_b, hmb, e⟩)
      · exact Or.inl (Or.inr ⟨c', List.mem_of_mem_drop hc', (hsib c' (Or.inr hc')).2 y hy⟩)

end Nv.C03.Cow
