import Nv.Proofs.C03Insert2
/-! C03 — `ReplaceOrInsert` on the whole tree (root split included). -/
namespace Nv.C03

theorem tree_bounds (t : Tree) (hd : 2 ≤ t.degree) :
    t.maxItems = 2 * (t.degree - 1) + 1 ∧ t.minItems = t.degree - 1 ∧ 1 ≤ t.degree - 1 := by
  unfold Tree.maxItems Tree.minItems; exact ⟨by omega, rfl, by omega⟩

/-- unpacking `Tree.ok` for a tree with a root -/
theorem ok_root (t : Tree) (r : Node) (hr : t.root = some r) (h : t.ok = true) :
    2 ≤ t.degree ∧ rootOk t.minItems t.maxItems r = true ∧ Sorted r.inorder ∧ t.length = r.inorder.length := by
  unfold Tree.ok at h
  simp only [hr, Bool.and_eq_true, decide_eq_true_eq, beq_iff_eq] at h
  exact ⟨h.1, h.2.1.1, sorted_of_sortedKeys _ h.2.1.2, h.2.2⟩

theorem ok_of_fields (d : Nat) (r : Node) (len : Nat) (hd : 2 ≤ d)
    (h1 : rootOk (d - 1) (2 * (d - 1) + 1) r = true) (h2 : Sorted r.inorder) (h3 : len = r.inorder.length) :
    (Tree.mk d (some r) len).ok = true := by
  unfold Tree.ok
  have e1 : (Tree.mk d (some r) len).minItems = d - 1 := rfl
  have e2 : (Tree.mk d (some r) len).maxItems = 2 * (d - 1) + 1 := by simp only [Tree.maxItems]; omega
  simp only [e1, e2, Bool.and_eq_true, decide_eq_true_eq, beq_iff_eq]
  exact ⟨hd, ⟨h1, sortedKeys_of_sorted _ h2⟩, h3⟩

theorem height_of_kidsOk (mn mx h : Nat) (n : Node) (hk : KidsOk mn mx h n) : height n = h :=
  height_of_shape h n (kidsOk_shape mn mx h n hk)

theorem tree_insert_spec (t : Tree) (x : Item) (h : t.ok = true) :
    (t.replaceOrInsert x).1.inorder = specInsert t.inorder x ∧
    (t.replaceOrInsert x).2 = specFind t.inorder x.key ∧
    (t.replaceOrInsert x).1.ok = true ∧ (t.replaceOrInsert x).1.degree = t.degree := by
  cases hr : t.root with
  | none =>
    have hd : 2 ≤ t.degree := by
      unfold Tree.ok at h; simp only [Bool.and_eq_true, decide_eq_true_eq] at h; exact h.1
    have hlen : t.length = 0 := by
      unfold Tree.ok at h; simp only [hr, Bool.and_eq_true, beq_iff_eq] at h; exact h.2
    obtain ⟨hmx, hmn, h1⟩ := tree_bounds t hd
    simp only [Tree.replaceOrInsert, hr, Tree.inorder, specInsert, specFind, List.find?_nil]
    refine ⟨by simp, trivial, ?_, trivial⟩
    apply ok_of_fields t.degree (.mk [x] []) (t.length + 1) hd
    · simp only [rootOk, List.length_singleton, decide_eq_true_eq]; omega
    · simp [Sorted]
    · simp [hlen]
  | some r =>
    obtain ⟨hd, hroot, hsr, hlen⟩ := ok_root t r hr h
    obtain ⟨hmx, hmn, h1⟩ := tree_bounds t hd
    rw [hmx, hmn] at hroot
    obtain ⟨hrlen, hrk, hrne⟩ := (rootOk_iff _ _ _).1 hroot
    -- the node `insert` is called on
    have key : ∃ r1 : Node, (t.replaceOrInsert x) =
          ({ t with root := some (insertH t.maxItems x (height r1) r1).1,
                    length := if (insertH t.maxItems x (height r1) r1).2.isNone then t.length + 1 else t.length },
            (insertH t.maxItems x (height r1) r1).2) ∧
        KidsOk (t.degree - 1) (2 * (t.degree - 1) + 1) (height r1) r1 ∧ r1.items.length < 2 * (t.degree - 1) + 1 ∧
        r1.inorder = r.inorder ∧ (r1.children ≠ [] → 1 ≤ r1.items.length) := by
      by_cases hfull : t.maxItems ≤ r.items.length
      · have hl : r.items.length = 2 * (t.degree - 1) + 1 := by omega
        have hdiv : t.maxItems / 2 = t.degree - 1 := by omega
        obtain ⟨hin, hl1, hl2, hk1, hk2, hh⟩ := split_spec (t.degree - 1) (height r) r hrk hl
        refine ⟨.mk [(r.split (t.degree - 1)).2.1] [(r.split (t.degree - 1)).1, (r.split (t.degree - 1)).2.2], ?_, ?_, ?_, ?_, ?_⟩
        · simp only [Tree.replaceOrInsert, hr, hfull, if_true, hdiv]
        · simp only [height, hh, KidsOk, Node.children, Node.items, List.length_cons, List.length_nil,
            List.mem_cons, List.not_mem_nil, or_false]
          refine ⟨trivial, ?_⟩
          rintro c (rfl | rfl)
          · exact (nodeOk_iff _ _ _ _).2 ⟨by omega, by omega, hk1⟩
          · exact (nodeOk_iff _ _ _ _).2 ⟨by omega, by omega, hk2⟩
        · simp only [Node.items, List.length_singleton]; omega
        · simp [hin]
        · intro _; simp [Node.items]
      · refine ⟨r, ?_, hrk, by omega, rfl, hrne⟩
        simp only [Tree.replaceOrInsert, hr, hfull, if_false]
    obtain ⟨r1, heq, hk1, hlt1, hin1, hne1⟩ := key
    have P := insertH_spec (t.degree - 1) h1 x (height r1) r1 hk1 hlt1 (by rw [hin1]; exact hsr)
    rw [hmx] at heq
    rw [heq]
    simp only [Tree.inorder, hr]
    refine ⟨by rw [P.inorder, hin1], by rw [P.ret, hin1], ?_, trivial⟩
    have hso : Sorted (insertH (2 * (t.degree - 1) + 1) x (height r1) r1).1.inorder := by
      rw [P.inorder, hin1]; exact specInsert_sorted x _ hsr
    apply ok_of_fields t.degree _ _ hd
    · have hkids := P.kids
      have hlo := P.lo
      have hhi := P.hi
      generalize (insertH (2 * (t.degree - 1) + 1) x (height r1) r1).1 = res at hkids hlo hhi ⊢
      apply (rootOk_iff _ _ _).2
      have hh := height_of_kidsOk _ _ _ _ hkids
      refine ⟨by omega, by rw [hh]; exact hkids, ?_⟩
      intro hne
      cases hh1 : height r1 with
      | zero =>
        rw [hh1] at hkids
        simp only [KidsOk] at hkids; exact absurd hkids hne
      | succ k =>
        have hk := hk1; rw [hh1] at hk
        simp only [KidsOk] at hk
        have hne' : r1.children ≠ [] := by intro e; rw [e] at hk; simp at hk
        have h1' := hne1 hne'
        omega
    · exact hso
    · rw [P.inorder, P.ret, hin1, specInsert_length x _ hsr, hlen]

end Nv.C03
